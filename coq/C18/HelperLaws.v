(* Laws of COMPOSED / REPEATED calls of the generated search, macro and power helpers (Gen/Search.v, Gen/Macros.v,
   Gen/Functions.v), derived only from the characterising lemmas of SearchProofs.v, MacroProofs.v and PowProofs.v. *)
From Coq Require Import ZArith Lia List Bool ZifyBool.
From ScV Require Import Base.CInt Gen.Search Gen.Macros Gen.Functions.
From ScV Require Import C18.SearchProofs C18.MacroProofs C18.PowProofs.
Local Open Scope Z_scope.

(* ---- round-up to a power of two -------------------------------------- *)
Lemma roundup2_unique x r1 r2 : is_roundup2 x r1 -> is_roundup2 x r2 -> r1 = r2.
Proof.
  intros [L1 [[k1 [K1 E1]] M1]] [L2 [[k2 [K2 E2]] M2]].
  assert (r1 <= r2) by (rewrite E2; apply M1; [assumption | rewrite <- E2; assumption]).
  assert (r2 <= r1) by (rewrite E1; apply M2; [assumption | rewrite <- E1; assumption]). lia.
Qed.

Lemma roundup2_of_pow2 k : 0 <= k -> is_roundup2 (2 ^ k) (2 ^ k).
Proof. intros Hk; split; [lia|]. split; [exists k; split; [assumption|reflexivity]|]. intros; assumption. Qed.

Section RoundUp.
  Variables (f : Z -> Z) (B : Z).
  Hypothesis HB : 0 <= B.
  Hypothesis Hf : forall x, 0 < x <= 2 ^ B -> is_roundup2 x (f x).

  Lemma ru_range x : 0 < x <= 2 ^ B -> 0 < f x <= 2 ^ B.
  Proof.
    intros Hx. destruct (Hf x Hx) as [L [_ M]]. split; [lia|]. apply M; [assumption|lia].
  Qed.

  Lemma ru_idempotent x : 0 < x <= 2 ^ B -> f (f x) = f x.
  Proof.
    intros Hx. pose proof (ru_range x Hx) as R. destruct (Hf x Hx) as [L [[k [K E]] M]].
    apply (roundup2_unique (f x)); [apply Hf; assumption|]. rewrite E. apply roundup2_of_pow2; assumption.
  Qed.

  Lemma ru_monotone x y : 0 < x -> x <= y -> y <= 2 ^ B -> f x <= f y.
  Proof.
    intros Hx Hxy Hy. destruct (Hf x ltac:(lia)) as [_ [_ M]]. destruct (Hf y ltac:(lia)) as [L [[k [K E]] _]].
    rewrite E. apply M; [assumption|lia].
  Qed.

  Lemma ru_below_double x : 0 < x <= 2 ^ B -> f x < 2 * x.
  Proof.
    intros Hx. destruct (Hf x Hx) as [L [[k [K E]] M]].
    destruct (Z.eq_dec k 0) as [->|Hk]; [rewrite E; change (2 ^ 0) with 1; lia|].
    destruct (Z_lt_le_dec (2 ^ (k - 1)) x) as [Hlt|Hle].
    - rewrite E. replace k with (k - 1 + 1) by lia. rewrite Z.pow_add_r by lia. simpl (2 ^ 1). lia.
    - exfalso. pose proof (M (k - 1) ltac:(lia) Hle) as Hc. rewrite E in Hc.
      assert (2 ^ (k - 1) < 2 ^ k) by (apply Z.pow_lt_mono_r; lia). lia.
  Qed.

  Lemma ru_fixes_pow2 k : 0 <= k <= B -> f (2 ^ k) = 2 ^ k.
  Proof.
    intros Hk. assert (Hx : 0 < 2 ^ k <= 2 ^ B) by (split; [apply Z.pow_pos_nonneg; lia | apply Z.pow_le_mono_r; lia]).
    apply (roundup2_unique (2 ^ k)); [apply Hf; assumption | apply roundup2_of_pow2; lia].
  Qed.
End RoundUp.

Lemma le_0_30 : 0 <= 30.  Proof. discriminate. Qed.
Lemma le_0_62 : 0 <= 62.  Proof. discriminate. Qed.
Ltac ru L f B pB pf := first [exact (L f B pB pf) | exact (L f B pf)].

Lemma roundup2_32_laws :
  (forall x, 0 < x <= 2 ^ 30 -> w_sc_roundup2_32 (w_sc_roundup2_32 x) = w_sc_roundup2_32 x) /\
  (forall x y, 0 < x -> x <= y -> y <= 2 ^ 30 -> w_sc_roundup2_32 x <= w_sc_roundup2_32 y) /\
  (forall x, 0 < x <= 2 ^ 30 -> w_sc_roundup2_32 x < 2 * x) /\
  (forall k, 0 <= k <= 30 -> w_sc_roundup2_32 (2 ^ k) = 2 ^ k).
Proof.
  repeat split.
  - ru ru_idempotent w_sc_roundup2_32 30 le_0_30 roundup2_32_correct.
  - ru ru_monotone w_sc_roundup2_32 30 le_0_30 roundup2_32_correct.
  - ru ru_below_double w_sc_roundup2_32 30 le_0_30 roundup2_32_correct.
  - ru ru_fixes_pow2 w_sc_roundup2_32 30 le_0_30 roundup2_32_correct.
Qed.

Lemma roundup2_64_laws :
  (forall x, 0 < x <= 2 ^ 62 -> w_sc_roundup2_64 (w_sc_roundup2_64 x) = w_sc_roundup2_64 x) /\
  (forall x y, 0 < x -> x <= y -> y <= 2 ^ 62 -> w_sc_roundup2_64 x <= w_sc_roundup2_64 y) /\
  (forall x, 0 < x <= 2 ^ 62 -> w_sc_roundup2_64 x < 2 * x) /\
  (forall k, 0 <= k <= 62 -> w_sc_roundup2_64 (2 ^ k) = 2 ^ k).
Proof.
  repeat split.
  - ru ru_idempotent w_sc_roundup2_64 62 le_0_62 roundup2_64_correct.
  - ru ru_monotone w_sc_roundup2_64 62 le_0_62 roundup2_64_correct.
  - ru ru_below_double w_sc_roundup2_64 62 le_0_62 roundup2_64_correct.
  - ru ru_fixes_pow2 w_sc_roundup2_64 62 le_0_62 roundup2_64_correct.
Qed.

(* the logarithm of the rounded-up value is its exponent: 2 ^ LOG2 (ROUNDUP2 x) = ROUNDUP2 x *)
Lemma log2_of_roundup2_32 x : 0 < x <= 2 ^ 30 ->
  2 ^ w_sc_log2_32 (w_sc_roundup2_32 x) = w_sc_roundup2_32 x.
Proof.
  intros Hx. pose proof (ru_range w_sc_roundup2_32 30 le_0_30 roundup2_32_correct x Hx) as R.
  destruct (roundup2_32_correct x Hx) as [_ [[k [K E]] _]].
  rewrite log2_32_correct by (assert (2 ^ 30 < 2 ^ 31) by reflexivity; lia).
  rewrite E, Z.log2_pow2 by assumption. reflexivity.
Qed.

Lemma log2_of_roundup2_64 x : 0 < x <= 2 ^ 62 ->
  2 ^ w_sc_log2_64 (w_sc_roundup2_64 x) = w_sc_roundup2_64 x.
Proof.
  intros Hx. pose proof (ru_range w_sc_roundup2_64 62 le_0_62 roundup2_64_correct x Hx) as R.
  destruct (roundup2_64_correct x Hx) as [_ [[k [K E]] _]].
  rewrite log2_64_correct by (assert (2 ^ 62 < 2 ^ 63) by reflexivity; lia).
  rewrite E, Z.log2_pow2 by assumption. reflexivity.
Qed.

(* logarithms are monotone and the four variants agree on their common domain *)
Lemma log2_variants_agree x : 0 < x < 2 ^ 31 ->
  w_sc_log2_32 x = w_sc_log2_32u x /\ w_sc_log2_32 x = w_sc_log2_64 x /\ w_sc_log2_32 x = w_sc_log2_64u x.
Proof.
  intros Hx. assert (2 ^ 31 < 2 ^ 32) by reflexivity. assert (2 ^ 32 < 2 ^ 63) by reflexivity.
  assert (2 ^ 63 < 2 ^ 64) by reflexivity.
  rewrite log2_32_correct, log2_32u_correct, log2_64_correct, log2_64u_correct by lia. repeat split.
Qed.

Lemma log2_64u_monotone x y : 0 < x -> x <= y -> y < 2 ^ 64 -> w_sc_log2_64u x <= w_sc_log2_64u y.
Proof. intros. rewrite !log2_64u_correct by lia. apply Z.log2_le_mono; assumption. Qed.

(* ---- lower bound ------------------------------------------------------ *)
Lemma first_ge_monotone a n t1 t2 r1 r2 : is_first_ge a n t1 r1 -> is_first_ge a n t2 r2 -> t1 <= t2 ->
  r2 = -1 \/ (0 <= r1 /\ r1 <= r2).
Proof.
  intros H1 H2 Ht. destruct H2 as [[E2 _]|[R2 [G2 _]]]; [left; assumption|right].
  destruct H1 as [[E1 A1]|[R1 [G1 L1]]].
  - specialize (A1 r2 R2). lia.
  - split; [lia|]. destruct (Z_lt_le_dec r2 r1) as [Hlt|Hle]; [|assumption].
    specialize (L1 r2 ltac:(lia)). lia.
Qed.

Lemma first_ge_finds_member a n t r k : sorted_upto a n -> is_first_ge a n t r -> 0 <= k < n -> a k = t ->
  0 <= r <= k /\ a r = t.
Proof.
  intros Hs H Hk Ek. destruct H as [[E A]|[R [G L]]].
  - specialize (A k Hk). lia.
  - destruct (Z_lt_le_dec k r) as [Hlt|Hle].
    + specialize (L k ltac:(lia)). lia.
    + split; [lia|]. pose proof (Hs r k ltac:(lia) ltac:(lia)). lia.
Qed.

Lemma lower_bound_guess_independent a n t g1 g2 fuel r1 r2 :
  sorted_upto a n -> 0 <= n <= 2 ^ 63 -> (n = 0 \/ 0 <= g1 < n) -> (n = 0 \/ 0 <= g2 < n) -> (Z.to_nat n <= fuel)%nat ->
  sc_search_lower_bound64 fuel t a n g1 = Some r1 -> sc_search_lower_bound64 fuel t a n g2 = Some r2 -> r1 = r2.
Proof.
  intros Hs Hn Hg1 Hg2 Hf E1 E2.
  destruct (lower_bound_correct a n t g1 fuel Hs Hn Hg1 Hf) as [x1 [X1 F1]].
  destruct (lower_bound_correct a n t g2 fuel Hs Hn Hg2 Hf) as [x2 [X2 F2]].
  rewrite E1 in X1. rewrite E2 in X2. inversion X1; inversion X2; subst.
  exact (first_ge_unique a n t x1 x2 F1 F2).
Qed.

Lemma lower_bound_monotone a n t1 t2 g1 g2 fuel :
  sorted_upto a n -> 0 <= n <= 2 ^ 63 -> (n = 0 \/ 0 <= g1 < n) -> (n = 0 \/ 0 <= g2 < n) -> (Z.to_nat n <= fuel)%nat ->
  t1 <= t2 ->
  exists r1 r2, sc_search_lower_bound64 fuel t1 a n g1 = Some r1 /\ sc_search_lower_bound64 fuel t2 a n g2 = Some r2 /\
                (r2 = -1 \/ (0 <= r1 /\ r1 <= r2)).
Proof.
  intros Hs Hn Hg1 Hg2 Hf Ht.
  destruct (lower_bound_correct a n t1 g1 fuel Hs Hn Hg1 Hf) as [x1 [X1 F1]].
  destruct (lower_bound_correct a n t2 g2 fuel Hs Hn Hg2 Hf) as [x2 [X2 F2]].
  exists x1, x2. repeat split; try assumption. exact (first_ge_monotone a n t1 t2 x1 x2 F1 F2 Ht).
Qed.

Lemma lower_bound_finds_member a n t g fuel k :
  sorted_upto a n -> 0 <= n <= 2 ^ 63 -> (n = 0 \/ 0 <= g < n) -> (Z.to_nat n <= fuel)%nat ->
  0 <= k < n -> a k = t ->
  exists r, sc_search_lower_bound64 fuel t a n g = Some r /\ 0 <= r <= k /\ a r = t.
Proof.
  intros Hs Hn Hg Hf Hk Ek.
  destruct (lower_bound_correct a n t g fuel Hs Hn Hg Hf) as [x [X F]].
  exists x. split; [assumption|]. exact (first_ge_finds_member a n t x k Hs F Hk Ek).
Qed.

(* ---- tree bias -------------------------------------------------------- *)
Lemma bias_in_range m l i t : 0 <= l <= m -> m < 31 -> 0 <= i < 2 ^ l -> 0 <= t < 2 ^ m ->
  0 <= sc_search_bias m l i t < 2 ^ m.
Proof.
  intros Hl Hm Hi Ht. destruct (bias_correct m l i t Hl Hm Hi Ht) as [R _]. cbv zeta in R.
  assert (W : 0 < 2 ^ (m - l)) by (apply Z.pow_pos_nonneg; lia).
  assert (E : 2 ^ l * 2 ^ (m - l) = 2 ^ m) by (rewrite <- Z.pow_add_r by lia; f_equal; lia).
  set (w := 2 ^ (m - l)) in *. set (L := 2 ^ l) in *. clearbody w L.
  assert ((i + 1) * w <= L * w) by (apply Z.mul_le_mono_nonneg_r; lia).
  assert (0 <= i * w) by (apply Z.mul_nonneg_nonneg; lia). lia.
Qed.

Lemma bias_idempotent m l i t : 0 <= l <= m -> m < 31 -> 0 <= i < 2 ^ l -> 0 <= t < 2 ^ m ->
  sc_search_bias m l i (sc_search_bias m l i t) = sc_search_bias m l i t.
Proof.
  intros Hl Hm Hi Ht. pose proof (bias_in_range m l i t Hl Hm Hi Ht) as R.
  destruct (bias_correct m l i t Hl Hm Hi Ht) as [I _]. cbv zeta in I.
  destruct (bias_correct m l i (sc_search_bias m l i t) Hl Hm Hi R) as [_ [_ F]]. cbv zeta in F.
  exact (F I).
Qed.

(* ---- integer powers --------------------------------------------------- *)
Lemma intpow_add b e1 e2 fuel : in_s32 b -> 0 <= e1 -> 0 <= e2 -> e1 + e2 < 2 ^ 31 -> (32 <= fuel)%nat ->
  exists v1 v2, sc_intpow fuel b e1 = Some v1 /\ sc_intpow fuel b e2 = Some v2 /\
                sc_intpow fuel b (e1 + e2) = Some (s32 (v1 * v2)).
Proof.
  intros Hb H1 H2 H12 Hf. exists (s32 (b ^ e1)), (s32 (b ^ e2)).
  rewrite !intpow_correct by (try assumption; lia). repeat split. f_equal.
  unfold s32. apply wraps_congr; [reflexivity|].
  rewrite Z.pow_add_r by assumption.
  rewrite (Z.mul_mod (b ^ e1)), (Z.mul_mod (wraps M32 (b ^ e1))) by (unfold M32; lia).
  rewrite !wraps_mod by reflexivity. reflexivity.
Qed.

Lemma intpow64u_add b e1 e2 fuel : in_u64 b -> 0 <= e1 -> 0 <= e2 -> e1 + e2 < 2 ^ 31 -> (32 <= fuel)%nat ->
  exists v1 v2, sc_intpow64u fuel b e1 = Some v1 /\ sc_intpow64u fuel b e2 = Some v2 /\
                sc_intpow64u fuel b (e1 + e2) = Some (u64 (v1 * v2)).
Proof.
  intros Hb H1 H2 H12 Hf. exists (u64 (b ^ e1)), (u64 (b ^ e2)).
  rewrite !intpow64u_correct by (try assumption; lia). repeat split. f_equal.
  unfold u64. apply wrapu_congr.
  rewrite Z.pow_add_r by assumption.
  unfold wrapu. apply Z.mul_mod. unfold M64; lia.
Qed.
