(* sc_intpow / sc_intpow64 / sc_intpow64u: square-and-multiply equals base^exp modulo the word size. *)
From Coq Require Import ZArith Lia List Bool ZifyBool.
From ScV Require Import Base.CInt Gen.Functions.
Local Open Scope Z_scope.
Ltac Zify.zify_post_hook ::= Z.div_mod_to_equations.

Section Pow.
  Variable M : Z.
  Variable wr : Z -> Z.
  Hypothesis M_pos : 0 < M.
  Hypothesis wr_mod : forall x, wr x mod M = x mod M.
  Hypothesis wr_idem : forall x y, x mod M = y mod M -> wr x = wr y.
  Variable loop : nat -> Z -> Z -> Z -> option ((Z * Z * Z) + Z).
  Hypothesis loop_eq : forall fuel b e r,
    loop fuel b e r =
    match fuel with
    | O => None
    | S f => if z2b e
             then loop f (wr (b * b)) (shr e 1) (if z2b (Z.land e 1) then wr (r * b) else r)
             else Some (inl (b, e, r))
    end.

  Lemma pow_mod_congr a b n : 0 <= n -> a mod M = b mod M -> (a ^ n) mod M = (b ^ n) mod M.
  Proof.
    intros Hn Hab. pattern n. apply natlike_ind; [reflexivity| |exact Hn].
    intros k Hk IH. rewrite !Z.pow_succ_r by lia.
    rewrite (Z.mul_mod a), (Z.mul_mod b) by lia. rewrite Hab, IH. reflexivity.
  Qed.

  Lemma loop_correct : forall fuel b e r,
    0 <= e < 2 ^ (Z.of_nat fuel - 1) ->
    exists b' r', loop fuel b e r = Some (inl (b', 0, r')) /\ r' mod M = (r * b ^ e) mod M /\ (r' = r \/ r' = wr r').
  Proof.
    induction fuel as [|f IH]; intros b e r He.
    { simpl in He. assert (2 ^ (-1) = 0) by reflexivity. lia. }
    rewrite loop_eq. unfold z2b at 1. destruct (e =? 0) eqn:E0; simpl negb; cbv iota.
    { assert (e = 0) by lia. subst e. exists b, r. split; [reflexivity|]. split; [rewrite Z.pow_0_r, Z.mul_1_r; reflexivity|left; reflexivity]. }
    assert (He2 : 0 <= shr e 1 < 2 ^ (Z.of_nat f - 1)).
    { unfold shr. change (2 ^ 1) with 2. replace (Z.of_nat (S f) - 1) with (Z.of_nat f) in He by lia.
      destruct f as [|f']; [simpl in He; lia|].
      replace (Z.of_nat (S f') - 1) with (Z.of_nat f') by lia.
      replace (Z.of_nat (S f')) with (Z.of_nat f' + 1) in He by lia.
      rewrite Z.pow_add_r in He by lia. change (2 ^ 1) with 2 in He. lia. }
    assert (Hland : Z.land e 1 = e mod 2).
    { change 1 with (2 ^ 1 - 1). change 2 with (2 ^ 1) at 2. apply land_ones_mod. lia. }
    set (r1 := if z2b (Z.land e 1) then wr (r * b) else r).
    destruct (IH (wr (b * b)) (shr e 1) r1 He2) as [b' [r' [Hl [Hr Hw]]]].
    exists b', r'. split; [exact Hl|]. split.
    - rewrite Hr. unfold shr. change (2 ^ 1) with 2.
      assert (Hsq : (wr (b * b) ^ (e / 2)) mod M = ((b * b) ^ (e / 2)) mod M).
      { apply pow_mod_congr; [apply Z.div_pos; lia|apply wr_mod]. }
      rewrite Z.mul_mod, Hsq, <- Z.mul_mod by lia.
      replace ((b * b) ^ (e / 2)) with (b ^ (2 * (e / 2))).
      2:{ rewrite Z.pow_mul_r by (try apply Z.div_pos; lia). f_equal. change 2 with (1 + 1) at 1. rewrite Z.pow_add_r, Z.pow_1_r by lia. reflexivity. }
      subst r1. rewrite Hland. unfold z2b.
      pose proof (Z.div_mod e 2 ltac:(lia)) as Hdm. pose proof (Z.mod_pos_bound e 2 ltac:(lia)) as Hb.
      destruct (e mod 2 =? 0) eqn:Em; simpl negb; cbv iota.
      + replace (2 * (e / 2)) with e by lia. reflexivity.
      + assert (Hodd : e = 2 * (e / 2) + 1) by lia.
        rewrite Z.mul_mod, wr_mod, <- Z.mul_mod by lia.
        assert (Hp : b ^ e = b * b ^ (2 * (e / 2))).
        { rewrite <- Z.pow_succ_r by lia. f_equal. lia. }
        rewrite Hp. f_equal. ring.
    - destruct Hw as [Hw|Hw]; [|right; exact Hw].
      subst r1. destruct (z2b (Z.land e 1)); [|left; exact Hw].
      right. rewrite Hw. apply wr_idem. symmetry. apply wr_mod.
  Qed.
End Pow.

Lemma wrapu_mod m x : 0 < m -> wrapu m x mod m = x mod m.
Proof. intros. unfold wrapu. apply Z.mod_mod. lia. Qed.
Lemma wraps_mod m x : 0 < m -> wraps m x mod m = x mod m.
Proof.
  intros Hm. unfold wraps.
  rewrite Zminus_mod_idemp_l. f_equal. lia.
Qed.
Lemma wrapu_congr m x y : x mod m = y mod m -> wrapu m x = wrapu m y.
Proof. intros; exact H. Qed.
Lemma wraps_congr m x y : 0 < m -> x mod m = y mod m -> wraps m x = wraps m y.
Proof.
  intros Hm H. unfold wraps. f_equal.
  rewrite <- Zplus_mod_idemp_l, H, Zplus_mod_idemp_l. reflexivity.
Qed.

Lemma intpow_loop_eq fuel b e r :
  sc_intpow_loop1 fuel b e r =
  match fuel with O => None | S f => if z2b e then sc_intpow_loop1 f (s32 (b * b)) (shr e 1) (if z2b (Z.land e 1) then s32 (r * b) else r) else Some (inl (b, e, r)) end.
Proof. destruct fuel; reflexivity. Qed.
Lemma intpow64_loop_eq fuel b e r :
  sc_intpow64_loop1 fuel b e r =
  match fuel with O => None | S f => if z2b e then sc_intpow64_loop1 f (s64 (b * b)) (shr e 1) (if z2b (Z.land e 1) then s64 (r * b) else r) else Some (inl (b, e, r)) end.
Proof. destruct fuel; reflexivity. Qed.
Lemma intpow64u_loop_eq fuel b e r :
  sc_intpow64u_loop1 fuel b e r =
  match fuel with O => None | S f => if z2b e then sc_intpow64u_loop1 f (u64 (b * b)) (shr e 1) (if z2b (Z.land e 1) then u64 (r * b) else r) else Some (inl (b, e, r)) end.
Proof. destruct fuel; reflexivity. Qed.

Lemma exp_fuel e fuel : 0 <= e < 2 ^ 31 -> (32 <= fuel)%nat -> 0 <= e < 2 ^ (Z.of_nat fuel - 1).
Proof.
  intros He Hf. split; [lia|]. apply Z.lt_le_trans with (2 ^ 31); [lia|]. apply Z.pow_le_mono_r; lia.
Qed.

Theorem intpow_correct b e fuel : in_s32 b -> 0 <= e < 2 ^ 31 -> (32 <= fuel)%nat ->
  sc_intpow fuel b e = Some (s32 (b ^ e)).
Proof.
  intros Hb He Hf. unfold sc_intpow. cbv zeta.
  destruct (loop_correct M32 s32 M32_pos (fun x => wraps_mod M32 x M32_pos) (fun x y => wraps_congr M32 x y M32_pos)
              sc_intpow_loop1 intpow_loop_eq fuel b e 1 (exp_fuel e fuel He Hf)) as [b' [r' [Hl [Hr Hw]]]].
  rewrite Hl. f_equal. rewrite Z.mul_1_l in Hr.
  destruct Hw as [->|Hw].
  - transitivity (s32 1); [reflexivity|]. apply wraps_congr; [exact M32_pos|exact Hr].
  - rewrite Hw. apply wraps_congr; [exact M32_pos|exact Hr].
Qed.

Theorem intpow64_correct b e fuel : in_s64 b -> 0 <= e < 2 ^ 31 -> (32 <= fuel)%nat ->
  sc_intpow64 fuel b e = Some (s64 (b ^ e)).
Proof.
  intros Hb He Hf. unfold sc_intpow64. cbv zeta.
  destruct (loop_correct M64 s64 M64_pos (fun x => wraps_mod M64 x M64_pos) (fun x y => wraps_congr M64 x y M64_pos)
              sc_intpow64_loop1 intpow64_loop_eq fuel b e 1 (exp_fuel e fuel He Hf)) as [b' [r' [Hl [Hr Hw]]]].
  rewrite Hl. f_equal. rewrite Z.mul_1_l in Hr.
  destruct Hw as [->|Hw].
  - transitivity (s64 1); [reflexivity|]. apply wraps_congr; [exact M64_pos|exact Hr].
  - rewrite Hw. apply wraps_congr; [exact M64_pos|exact Hr].
Qed.

Theorem intpow64u_correct b e fuel : in_u64 b -> 0 <= e < 2 ^ 31 -> (32 <= fuel)%nat ->
  sc_intpow64u fuel b e = Some (u64 (b ^ e)).
Proof.
  intros Hb He Hf. unfold sc_intpow64u. cbv zeta.
  destruct (loop_correct M64 u64 M64_pos (fun x => wrapu_mod M64 x M64_pos) (fun x y => wrapu_congr M64 x y)
              sc_intpow64u_loop1 intpow64u_loop_eq fuel b e 1 (exp_fuel e fuel He Hf)) as [b' [r' [Hl [Hr Hw]]]].
  rewrite Hl. f_equal. rewrite Z.mul_1_l in Hr.
  destruct Hw as [->|Hw].
  - transitivity (u64 1); [reflexivity|]. apply wrapu_congr. exact Hr.
  - rewrite Hw. apply wrapu_congr. exact Hr.
Qed.

(* exact value wherever it is representable *)
Corollary intpow_exact b e fuel : in_s32 b -> 0 <= e < 2 ^ 31 -> (32 <= fuel)%nat -> in_s32 (b ^ e) ->
  sc_intpow fuel b e = Some (b ^ e).
Proof. intros. rewrite intpow_correct by assumption. rewrite s32_id by assumption. reflexivity. Qed.
Corollary intpow64_exact b e fuel : in_s64 b -> 0 <= e < 2 ^ 31 -> (32 <= fuel)%nat -> in_s64 (b ^ e) ->
  sc_intpow64 fuel b e = Some (b ^ e).
Proof. intros. rewrite intpow64_correct by assumption. rewrite s64_id by assumption. reflexivity. Qed.
Corollary intpow64u_exact b e fuel : in_u64 b -> 0 <= e < 2 ^ 31 -> (32 <= fuel)%nat -> in_u64 (b ^ e) ->
  sc_intpow64u fuel b e = Some (b ^ e).
Proof. intros. rewrite intpow64u_correct by assumption. rewrite u64_id by assumption. reflexivity. Qed.
