(* Theorems about the translator-generated 128-bit operations (Gen/Uint128.v). *)
From Coq Require Import ZArith Lia List Bool ZifyBool.
From ScV Require Import Base.CInt Gen.Uint128.
Local Open Scope Z_scope.
Ltac Zify.zify_post_hook ::= Z.div_mod_to_equations.

Definition val128 (p : Z * Z) : Z := fst p * M64 + snd p.
Definition wf128 (h l : Z) : Prop := in_u64 h /\ in_u64 l.

Lemma val128_range h l : wf128 h l -> 0 <= val128 (h, l) < M128.
Proof. unfold wf128, in_u64, val128, M128, M64; simpl; lia. Qed.

Ltac prep := unfold wf128, in_u64, val128, M128, u64, wrapu, M64 in *; simpl fst; simpl snd.

Lemma add_correct ah al bh bl rh rl :
  wf128 ah al -> wf128 bh bl ->
  val128 (sc_uint128_add ah al bh bl rh rl) = (val128 (ah, al) + val128 (bh, bl)) mod M128
  /\ wf128 (fst (sc_uint128_add ah al bh bl rh rl)) (snd (sc_uint128_add ah al bh bl rh rl)).
Proof.
  intros Ha Hb. unfold sc_uint128_add. cbv zeta.
  destruct (u64 (al + bl) <? al) eqn:E; prep; lia.
Qed.

Lemma sub_correct ah al bh bl rh rl :
  wf128 ah al -> wf128 bh bl ->
  val128 (sc_uint128_sub ah al bh bl rh rl) = (val128 (ah, al) - val128 (bh, bl)) mod M128
  /\ wf128 (fst (sc_uint128_sub ah al bh bl rh rl)) (snd (sc_uint128_sub ah al bh bl rh rl)).
Proof.
  intros Ha Hb. unfold sc_uint128_sub. cbv zeta.
  destruct (al <? u64 (al - bl)) eqn:E; prep; lia.
Qed.

Lemma add_inplace_eq ah al bh bl rh rl :
  sc_uint128_add_inplace ah al bh bl = sc_uint128_add ah al bh bl rh rl.
Proof. reflexivity. Qed.

Lemma sub_inplace_eq ah al bh bl rh rl :
  sc_uint128_sub_inplace ah al bh bl = sc_uint128_sub ah al bh bl rh rl.
Proof. reflexivity. Qed.

(* ---- shifts --------------------------------------------------------- *)
Lemma div_split h l A B : 0 < A -> 0 < B -> 0 <= h -> 0 <= l ->
  (h * (A * B) + l) / A = h * B + l / A.
Proof.
  intros HA HB Hh Hl. replace (h * (A * B) + l) with (h * B * A + l) by ring.
  rewrite Z.div_add_l by lia. reflexivity.
Qed.

Lemma pow2_64_split s : 0 <= s <= 64 -> M64 = 2 ^ s * 2 ^ (64 - s).
Proof. intros. rewrite <- Z.pow_add_r by lia. replace (s + (64 - s)) with 64 by lia. reflexivity. Qed.

Lemma shr_correct h l s rh rl : wf128 h l -> 0 <= s < M32 / 2 ->
  val128 (sc_uint128_shift_right h l s rh rl) = val128 (h, l) / 2 ^ s
  /\ wf128 (fst (sc_uint128_shift_right h l s rh rl)) (snd (sc_uint128_shift_right h l s rh rl)).
Proof.
  intros [Hh Hl] Hs. unfold sc_uint128_shift_right. cbv zeta.
  pose proof (val128_range h l (conj Hh Hl)) as Hv.
  destruct (128 <=? s) eqn:E128.
  { assert (H128 : 128 <= s) by lia. split; [|unfold wf128, in_u64, u64, wrapu, M64; simpl; lia].
    unfold val128 at 1; simpl fst; simpl snd. change (u64 0) with 0.
    symmetry. apply Z.div_small. split; [lia|].
    apply Z.lt_le_trans with M128; [lia|]. rewrite M128_eq. apply Z.pow_le_mono_r; lia. }
  destruct (s =? 0) eqn:E0.
  { assert (s = 0) by lia; subst s. rewrite Z.pow_0_r, Z.div_1_r. split; [reflexivity|split; assumption]. }
  assert (Hs1 : 0 < s < 128) by lia.
  destruct (64 <=? s) eqn:E64.
  - assert (H64 : 64 <= s) by lia.
    rewrite s32_id by (unfold in_s32, M32 in *; lia).
    unfold val128; simpl fst; simpl snd. change (u64 0) with 0. unfold shr.
    set (A := 2 ^ (s - 64)). assert (HA : 0 < A) by (apply pow2_pos; lia).
    replace (2 ^ s) with (M64 * A).
    2:{ unfold A. rewrite M64_eq, <- Z.pow_add_r by lia. f_equal; lia. }
    rewrite <- Z.div_div by (unfold M64; lia).
    replace (h * M64 + l) with (l + h * M64) by ring. rewrite Z.div_add by (unfold M64; lia).
    unfold in_u64 in *. rewrite (Z.div_small l M64) by lia. simpl.
    split; [reflexivity|]. split; unfold in_u64; [unfold M64; lia|].
    split; [apply Z.div_pos; lia|]. apply Z.le_lt_trans with h; [|lia]. apply Z.div_le_upper_bound; nia.
  - assert (H64 : s < 64) by lia.
    rewrite s32_id by (unfold in_s32, M32 in *; lia).
    unfold shl, shr.
    set (A := 2 ^ s). set (B := 2 ^ (64 - s)).
    assert (HA : 0 < A) by (apply pow2_pos; lia). assert (HB : 0 < B) by (apply pow2_pos; lia).
    assert (HAB : M64 = A * B) by (apply pow2_64_split; lia).
    unfold in_u64 in *.
    assert (Hu : u64 (h * B) = (h mod A) * B).
    { unfold u64, wrapu. rewrite HAB. apply Z.mul_mod_distr_r; lia. }
    rewrite Hu.
    assert (HlA : 0 <= l / A < B).
    { split; [apply Z.div_pos; lia|]. apply Z.div_lt_upper_bound; lia. }
    rewrite (lor_disjoint_add (h mod A * B) (l / A) (64 - s)); [|lia|exact HlA|apply Z.mod_mul; lia].
    unfold val128; simpl fst; simpl snd.
    rewrite HAB at 2. rewrite div_split by lia.
    pose proof (Z.div_mod h A ltac:(lia)) as Hdm.
    pose proof (Z.mod_pos_bound h A HA) as Hm.
    split.
    + rewrite HAB. rewrite Hdm at 3. ring.
    + assert (0 <= h / A) by (apply Z.div_pos; lia).
      assert (h / A <= h) by (apply Z.div_le_upper_bound; nia).
      split; unfold in_u64; [lia|]. rewrite HAB. nia.
Qed.

Lemma shl_correct h l s rh rl : wf128 h l -> 0 <= s < M32 / 2 ->
  val128 (sc_uint128_shift_left h l s rh rl) = (val128 (h, l) * 2 ^ s) mod M128
  /\ wf128 (fst (sc_uint128_shift_left h l s rh rl)) (snd (sc_uint128_shift_left h l s rh rl)).
Proof.
  intros [Hh Hl] Hs. unfold sc_uint128_shift_left. cbv zeta.
  pose proof (val128_range h l (conj Hh Hl)) as Hv.
  destruct (128 <=? s) eqn:E128.
  { assert (H128 : 128 <= s) by lia. split; [|unfold wf128, in_u64, u64, wrapu, M64; simpl; lia].
    unfold val128 at 1; simpl fst; simpl snd. change (u64 0) with 0.
    replace (2 ^ s) with (2 ^ (s - 128) * M128).
    2:{ rewrite M128_eq, <- Z.pow_add_r by lia. f_equal; lia. }
    rewrite Z.mul_assoc, Z.mod_mul by (unfold M128, M64; lia). reflexivity. }
  destruct (s =? 0) eqn:E0.
  { assert (s = 0) by lia; subst s. rewrite Z.pow_0_r, Z.mul_1_r, Z.mod_small by lia.
    split; [reflexivity|split; assumption]. }
  assert (Hs1 : 0 < s < 128) by lia.
  unfold in_u64 in *.
  destruct (64 <=? s) eqn:E64.
  - assert (H64 : 64 <= s) by lia.
    rewrite s32_id by (unfold in_s32, M32 in *; lia).
    unfold val128; simpl fst; simpl snd. change (u64 0) with 0. unfold shl, u64, wrapu.
    set (A := 2 ^ (s - 64)). assert (HA : 0 < A) by (apply pow2_pos; lia).
    replace (2 ^ s) with (A * M64).
    2:{ unfold A. rewrite M64_eq, <- Z.pow_add_r by lia. f_equal; lia. }
    pose proof (Z.mod_pos_bound (l * A) M64 M64_pos) as Hm.
    split.
    + unfold M128. rewrite Z.mul_assoc, Z.mul_mod_distr_r by (unfold M64; lia).
      replace ((h * M64 + l) * A) with (l * A + (h * A) * M64) by ring.
      rewrite Z.mod_add by (unfold M64; lia). lia.
    + split; unfold in_u64; simpl; [lia|unfold M64; lia].
  - assert (H64 : s < 64) by lia.
    rewrite s32_id by (unfold in_s32, M32 in *; lia).
    unfold shl, shr.
    set (A := 2 ^ s). set (B := 2 ^ (64 - s)).
    assert (HA : 0 < A) by (apply pow2_pos; lia). assert (HB : 0 < B) by (apply pow2_pos; lia).
    assert (HAB : M64 = A * B) by (apply pow2_64_split; lia).
    assert (Hu : u64 (h * A) = (h mod B) * A).
    { unfold u64, wrapu. rewrite HAB, (Z.mul_comm A B). apply Z.mul_mod_distr_r; lia. }
    assert (Hu2 : u64 (l * A) = (l mod B) * A).
    { unfold u64, wrapu. rewrite HAB, (Z.mul_comm A B). apply Z.mul_mod_distr_r; lia. }
    rewrite Hu, Hu2.
    assert (HlB : 0 <= l / B < A).
    { split; [apply Z.div_pos; lia|]. apply Z.div_lt_upper_bound; lia. }
    rewrite (lor_disjoint_add (h mod B * A) (l / B) s); [|lia|exact HlB|apply Z.mod_mul; lia].
    unfold val128; simpl fst; simpl snd.
    pose proof (Z.div_mod h B ltac:(lia)) as Hdh. pose proof (Z.mod_pos_bound h B HB) as Hmh.
    pose proof (Z.div_mod l B ltac:(lia)) as Hdl. pose proof (Z.mod_pos_bound l B HB) as Hml.
    assert (Hhi : 0 <= h mod B * A + l / B < M64) by (rewrite HAB; nia).
    assert (Hlo : 0 <= l mod B * A < M64) by (rewrite HAB; nia).
    split.
    + apply Z.mod_unique_pos with (q := h / B); [unfold M128; nia|].
      unfold M128. rewrite Hdh at 1. rewrite Hdl at 1. rewrite HAB. ring.
    + split; unfold in_u64; lia.
Qed.

(* ---- bits -------------------------------------------------------------- *)
Lemma val128_lor h l : wf128 h l -> val128 (h, l) = Z.lor (h * M64) l.
Proof.
  intros [Hh Hl]. unfold val128; simpl. symmetry.
  apply (lor_disjoint_add (h * M64) l 64); [lia|exact Hl|]. rewrite M64_eq. apply Z.mod_mul. lia.
Qed.

Lemma testbit_low l n : in_u64 l -> 64 <= n -> Z.testbit l n = false.
Proof.
  intros Hl Hn. destruct (Z.eq_dec l 0) as [->|H0]; [apply Z.bits_0|].
  apply Z.bits_above_log2; [unfold in_u64 in *; lia|].
  apply Z.log2_lt_pow2; [unfold in_u64 in *; lia|].
  apply Z.lt_le_trans with (2 ^ 64); [exact (proj2 Hl)|]. apply Z.pow_le_mono_r; lia.
Qed.

Lemma val128_testbit h l n : wf128 h l -> 0 <= n ->
  Z.testbit (val128 (h, l)) n = if n <? 64 then Z.testbit l n else Z.testbit h (n - 64).
Proof.
  intros Hw Hn. rewrite (val128_lor h l Hw), Z.lor_spec, M64_eq.
  destruct Hw as [Hh Hl].
  destruct (n <? 64) eqn:E.
  - rewrite Z.mul_pow2_bits_low by lia. reflexivity.
  - rewrite Z.mul_pow2_bits by lia. rewrite (testbit_low l n Hl) by lia. apply orb_false_r.
Qed.

Lemma chk_bit_correct h l e : wf128 h l -> 0 <= e < 128 ->
  sc_uint128_chk_bit h l e = b2z (Z.testbit (val128 (h, l)) e).
Proof.
  intros Hw He. rewrite (val128_testbit h l e Hw) by lia. destruct Hw as [Hh Hl].
  unfold sc_uint128_chk_bit. destruct (e <? 64) eqn:E.
  - unfold shl. rewrite Z.mul_1_l, u64_id.
    2:{ split; [apply Z.lt_le_incl, pow2_pos; lia|]. rewrite M64_eq. apply Z.pow_lt_mono_r; lia. }
    rewrite land_pow2_testbit by (unfold in_u64 in *; lia). rewrite negb_involutive. reflexivity.
  - rewrite s32_id by (unfold in_s32, M32; lia). unfold shl. rewrite Z.mul_1_l, u64_id.
    2:{ split; [apply Z.lt_le_incl, pow2_pos; lia|]. rewrite M64_eq. apply Z.pow_lt_mono_r; lia. }
    rewrite land_pow2_testbit by (unfold in_u64 in *; lia). rewrite negb_involutive. reflexivity.
Qed.

Lemma lor_range a b : 0 <= a < M64 -> 0 <= b < M64 -> 0 <= Z.lor a b < M64.
Proof.
  intros Ha Hb. assert (H0 : 0 <= Z.lor a b) by (apply Z.lor_nonneg; lia). split; [exact H0|].
  destruct (Z.eq_dec (Z.lor a b) 0) as [->|Hn]; [reflexivity|].
  rewrite M64_eq in *. apply Z.log2_lt_pow2; [lia|].
  rewrite Z.log2_lor by lia. apply Z.max_lub_lt.
  - destruct (Z.eq_dec a 0) as [->|]; [simpl; lia|]. apply Z.log2_lt_pow2; lia.
  - destruct (Z.eq_dec b 0) as [->|]; [simpl; lia|]. apply Z.log2_lt_pow2; lia.
Qed.

Lemma lor128 ah al bh bl : wf128 ah al -> wf128 bh bl ->
  val128 (Z.lor ah bh, Z.lor al bl) = Z.lor (val128 (ah, al)) (val128 (bh, bl)).
Proof.
  intros Ha Hb.
  assert (Hw : wf128 (Z.lor ah bh) (Z.lor al bl)).
  { destruct Ha as [Hah Hal], Hb as [Hbh Hbl]. split; apply lor_range; assumption. }
  apply Z.bits_inj'; intros n Hn.
  rewrite Z.lor_spec, !val128_testbit by assumption.
  destruct (n <? 64); apply Z.lor_spec.
Qed.

Lemma land_range a b : 0 <= a < M64 -> 0 <= b -> 0 <= Z.land a b < M64.
Proof.
  intros Ha Hb. split; [apply Z.land_nonneg; lia|].
  destruct (Z.eq_dec (Z.land a b) 0) as [->|Hn]; [reflexivity|].
  assert (0 <= Z.land a b) by (apply Z.land_nonneg; lia).
  rewrite M64_eq in *. apply Z.log2_lt_pow2; [lia|].
  apply Z.le_lt_trans with (Z.min (Z.log2 a) (Z.log2 b)); [apply Z.log2_land; lia|].
  apply Z.le_lt_trans with (Z.log2 a); [apply Z.le_min_l|].
  destruct (Z.eq_dec a 0) as [->|]; [simpl; lia|]. apply Z.log2_lt_pow2; lia.
Qed.

Lemma land128 ah al bh bl : wf128 ah al -> wf128 bh bl ->
  val128 (Z.land ah bh, Z.land al bl) = Z.land (val128 (ah, al)) (val128 (bh, bl)).
Proof.
  intros Ha Hb.
  assert (Hw : wf128 (Z.land ah bh) (Z.land al bl)).
  { destruct Ha as [Hah Hal], Hb as [Hbh Hbl]. split; apply land_range; unfold in_u64 in *; lia. }
  apply Z.bits_inj'; intros n Hn.
  rewrite Z.land_spec, !val128_testbit by assumption.
  destruct (n <? 64); apply Z.land_spec.
Qed.

Lemma or_correct ah al bh bl rh rl : wf128 ah al -> wf128 bh bl ->
  val128 (sc_uint128_bitwise_or ah al bh bl rh rl) = Z.lor (val128 (ah, al)) (val128 (bh, bl)).
Proof. intros; unfold sc_uint128_bitwise_or; cbv zeta; apply lor128; assumption. Qed.

Lemma and_correct ah al bh bl rh rl : wf128 ah al -> wf128 bh bl ->
  val128 (sc_uint128_bitwise_and ah al bh bl rh rl) = Z.land (val128 (ah, al)) (val128 (bh, bl)).
Proof. intros; unfold sc_uint128_bitwise_and; cbv zeta; apply land128; assumption. Qed.

Lemma or_inplace_eq ah al bh bl rh rl :
  sc_uint128_bitwise_or_inplace ah al bh bl = sc_uint128_bitwise_or ah al bh bl rh rl.
Proof. reflexivity. Qed.

Lemma and_inplace_eq ah al bh bl rh rl :
  sc_uint128_bitwise_and_inplace ah al bh bl = sc_uint128_bitwise_and ah al bh bl rh rl.
Proof. reflexivity. Qed.

(* `a == b is allowed` (sc_uint128.h): the same source translated with b aliased to a computes what the
   non-aliased translation computes on equal operands *)
Lemma add_inplace_aliased_eq ah al : sc_uint128_add_inplace_aliased ah al = sc_uint128_add_inplace ah al ah al.
Proof. reflexivity. Qed.
Lemma sub_inplace_aliased_eq ah al : sc_uint128_sub_inplace_aliased ah al = sc_uint128_sub_inplace ah al ah al.
Proof. reflexivity. Qed.
Lemma or_inplace_aliased_eq ah al : sc_uint128_bitwise_or_inplace_aliased ah al = sc_uint128_bitwise_or_inplace ah al ah al.
Proof. reflexivity. Qed.
Lemma and_inplace_aliased_eq ah al : sc_uint128_bitwise_and_inplace_aliased ah al = sc_uint128_bitwise_and_inplace ah al ah al.
Proof. reflexivity. Qed.

(* documented aliasing of the out-of-place functions ("input == result", "a == result", "b == result", "a == b"):
   the same source translated with the parameters aliased computes what the non-aliased translation computes *)
Lemma shr_inres h l s rh rl : sc_uint128_shift_right_inres h l s = sc_uint128_shift_right h l s rh rl.
Proof. reflexivity. Qed.
Lemma shl_inres h l s rh rl : sc_uint128_shift_left_inres h l s = sc_uint128_shift_left h l s rh rl.
Proof. reflexivity. Qed.
Lemma neg_ares h l rh rl : sc_uint128_bitwise_neg_ares h l = sc_uint128_bitwise_neg h l rh rl.
Proof. reflexivity. Qed.
Lemma or_ares ah al bh bl rh rl : sc_uint128_bitwise_or_ares ah al bh bl = sc_uint128_bitwise_or ah al bh bl rh rl.
Proof. reflexivity. Qed.
Lemma or_bres ah al bh bl rh rl : sc_uint128_bitwise_or_bres ah al bh bl = sc_uint128_bitwise_or ah al bh bl rh rl.
Proof. reflexivity. Qed.
Lemma or_abres ah al rh rl : sc_uint128_bitwise_or_abres ah al = sc_uint128_bitwise_or ah al ah al rh rl.
Proof. reflexivity. Qed.
Lemma and_ares ah al bh bl rh rl : sc_uint128_bitwise_and_ares ah al bh bl = sc_uint128_bitwise_and ah al bh bl rh rl.
Proof. reflexivity. Qed.
Lemma and_bres ah al bh bl rh rl : sc_uint128_bitwise_and_bres ah al bh bl = sc_uint128_bitwise_and ah al bh bl rh rl.
Proof. reflexivity. Qed.
Lemma and_abres ah al rh rl : sc_uint128_bitwise_and_abres ah al = sc_uint128_bitwise_and ah al ah al rh rl.
Proof. reflexivity. Qed.
Lemma add_ab ah al rh rl : sc_uint128_add_ab ah al rh rl = sc_uint128_add ah al ah al rh rl.
Proof. reflexivity. Qed.
Lemma sub_ab ah al rh rl : sc_uint128_sub_ab ah al rh rl = sc_uint128_sub ah al ah al rh rl.
Proof. reflexivity. Qed.
Lemma outofplace_aliased : forall ah al bh bl s rh rl,
  sc_uint128_shift_right_inres ah al s = sc_uint128_shift_right ah al s rh rl /\
  sc_uint128_shift_left_inres ah al s = sc_uint128_shift_left ah al s rh rl /\
  sc_uint128_bitwise_neg_ares ah al = sc_uint128_bitwise_neg ah al rh rl /\
  sc_uint128_bitwise_or_ares ah al bh bl = sc_uint128_bitwise_or ah al bh bl rh rl /\
  sc_uint128_bitwise_or_bres ah al bh bl = sc_uint128_bitwise_or ah al bh bl rh rl /\
  sc_uint128_bitwise_or_abres ah al = sc_uint128_bitwise_or ah al ah al rh rl /\
  sc_uint128_bitwise_and_ares ah al bh bl = sc_uint128_bitwise_and ah al bh bl rh rl /\
  sc_uint128_bitwise_and_bres ah al bh bl = sc_uint128_bitwise_and ah al bh bl rh rl /\
  sc_uint128_bitwise_and_abres ah al = sc_uint128_bitwise_and ah al ah al rh rl /\
  sc_uint128_add_ab ah al rh rl = sc_uint128_add ah al ah al rh rl /\
  sc_uint128_sub_ab ah al rh rl = sc_uint128_sub ah al ah al rh rl.
Proof.
  intros.
  split; [apply shr_inres|]. split; [apply shl_inres|]. split; [apply neg_ares|]. split; [apply or_ares|].
  split; [apply or_bres|]. split; [apply or_abres|]. split; [apply and_ares|]. split; [apply and_bres|].
  split; [apply and_abres|]. split; [apply add_ab|apply sub_ab].
Qed.

Lemma aliased_correct ah al : wf128 ah al ->
  val128 (sc_uint128_add_inplace_aliased ah al) = (2 * val128 (ah, al)) mod M128 /\
  val128 (sc_uint128_sub_inplace_aliased ah al) = 0 /\
  sc_uint128_bitwise_or_inplace_aliased ah al = (ah, al) /\
  sc_uint128_bitwise_and_inplace_aliased ah al = (ah, al).
Proof.
  intros H. repeat split.
  - rewrite add_inplace_aliased_eq, (add_inplace_eq ah al ah al 0 0).
    destruct (add_correct ah al ah al 0 0 H H) as [E _]. rewrite E. f_equal. ring.
  - rewrite sub_inplace_aliased_eq, (sub_inplace_eq ah al ah al 0 0).
    destruct (sub_correct ah al ah al 0 0 H H) as [E _]. rewrite E. rewrite Z.sub_diag. reflexivity.
  - unfold sc_uint128_bitwise_or_inplace_aliased. cbv zeta. rewrite !Z.lor_diag. reflexivity.
  - unfold sc_uint128_bitwise_and_inplace_aliased. cbv zeta. rewrite !Z.land_diag. reflexivity.
Qed.

Lemma neg_correct h l rh rl : wf128 h l ->
  val128 (sc_uint128_bitwise_neg h l rh rl) = M128 - 1 - val128 (h, l).
Proof.
  intros [Hh Hl]. unfold sc_uint128_bitwise_neg; cbv zeta. unfold Z.lnot.
  unfold val128, u64, wrapu, M128, in_u64, M64 in *; simpl fst; simpl snd. lia.
Qed.

Lemma set_bit_correct h l e : wf128 h l -> 0 <= e < 128 ->
  val128 (sc_uint128_set_bit h l e) = Z.lor (val128 (h, l)) (2 ^ e).
Proof.
  intros Hw He. unfold sc_uint128_set_bit. destruct (e <? 64) eqn:E.
  - cbv zeta. unfold shl. rewrite Z.mul_1_l, u64_id.
    2:{ split; [apply Z.lt_le_incl, pow2_pos; lia|]. rewrite M64_eq. apply Z.pow_lt_mono_r; lia. }
    replace h with (Z.lor h 0) at 1 by apply Z.lor_0_r.
    assert (Hp : wf128 0 (2 ^ e)).
    { split; unfold in_u64; [unfold M64; lia|]. split; [apply Z.lt_le_incl, pow2_pos; lia|]. rewrite M64_eq. apply Z.pow_lt_mono_r; lia. }
    rewrite (lor128 h l 0 (2 ^ e) Hw Hp). f_equal.
  - cbv zeta. rewrite s32_id by (unfold in_s32, M32; lia). unfold shl. rewrite Z.mul_1_l, u64_id.
    2:{ split; [apply Z.lt_le_incl, pow2_pos; lia|]. rewrite M64_eq. apply Z.pow_lt_mono_r; lia. }
    replace l with (Z.lor l 0) at 1 by apply Z.lor_0_r.
    assert (Hp : wf128 (2 ^ (e - 64)) 0).
    { split; unfold in_u64; [|unfold M64; lia]. split; [apply Z.lt_le_incl, pow2_pos; lia|]. rewrite M64_eq. apply Z.pow_lt_mono_r; lia. }
    rewrite (lor128 h l (2 ^ (e - 64)) 0 Hw Hp). f_equal.
    unfold val128; simpl. rewrite M64_eq, <- Z.pow_add_r by lia. rewrite Z.add_0_r. f_equal; lia.
Qed.

Lemma compare_correct ah al bh bl : wf128 ah al -> wf128 bh bl ->
  sc_uint128_compare ah al bh bl =
  match val128 (ah, al) ?= val128 (bh, bl) with Lt => -1 | Eq => 0 | Gt => 1 end.
Proof.
  intros [Hah Hal] [Hbh Hbl]. unfold sc_uint128_compare, val128, in_u64, M64 in *; simpl fst; simpl snd.
  destruct (ah <? bh) eqn:E1; [destruct (Z.compare_spec (ah * 18446744073709551616 + al) (bh * 18446744073709551616 + bl)); lia|].
  destruct (bh <? ah) eqn:E2; [destruct (Z.compare_spec (ah * 18446744073709551616 + al) (bh * 18446744073709551616 + bl)); lia|].
  destruct (al <? bl) eqn:E3; [destruct (Z.compare_spec (ah * 18446744073709551616 + al) (bh * 18446744073709551616 + bl)); lia|].
  destruct (bl <? al) eqn:E4; destruct (Z.compare_spec (ah * 18446744073709551616 + al) (bh * 18446744073709551616 + bl)); lia.
Qed.

Lemma is_equal_correct ah al bh bl : wf128 ah al -> wf128 bh bl ->
  sc_uint128_is_equal ah al bh bl = b2z (val128 (ah, al) =? val128 (bh, bl)).
Proof.
  intros [Hah Hal] [Hbh Hbl]. unfold sc_uint128_is_equal, val128, in_u64, M64 in *; simpl fst; simpl snd.
  destruct (ah =? bh) eqn:E1; destruct (al =? bl) eqn:E2; simpl;
  destruct (ah * 18446744073709551616 + al =? bh * 18446744073709551616 + bl) eqn:E3; try reflexivity; lia.
Qed.

Lemma init_correct ih il h l : val128 (sc_uint128_init ih il h l) = val128 (h, l).
Proof. reflexivity. Qed.

Lemma copy_correct h l oh ol : sc_uint128_copy h l oh ol = (h, l).
Proof. reflexivity. Qed.
