(* C05, sortedness, part 3: the comparator network of sc_psort_bitonic SORTS.

   * Boolean level: `sort_ops fuel off lo n dir` sorts the window [lo, lo+n) of every 0-1 list in direction dir
     and leaves the rest alone (induction along the recursion of sc_psort_bitonic: the two recursive sorts leave
     the window in the shape dir^x (negb dir)^y dir^z, which PsortBitonic.merge_any sorts);
   * the 0-1 principle (PsortZeroOne.v) carries this over to every element type with a total preorder and every
     local sort with the contract of qsort:  `psort_sorted`.
   Also: the merge alone, over arbitrary elements (`merge_sorts`, `merge_pow2_sorts`). *)
From Coq Require Import Arith List Bool PeanoNat Lia Permutation Sorted.
From ScV Require Import C05.PsortModel C05.ListAux C05.PsortPerm C05.PsortDist C05.PsortOwner.
From ScV Require Import C05.PsortZeroOne C05.PsortBitonic.
Import ListNotations.

Notation runb := (run bool gtb sortb).

(* ---- small list facts ------------------------------------------------------------------------------------------- *)
Lemma firstn_len_app {B} (p r : list B) : firstn (length p) (p ++ r) = p.
Proof. induction p; simpl; [destruct r; reflexivity|]. rewrite IHp. reflexivity. Qed.
Lemma skipn_len_app {B} (p r : list B) : skipn (length p) (p ++ r) = r.
Proof. induction p; simpl; [reflexivity|exact IHp]. Qed.
Lemma nth_repeat_if {B} (x dflt : B) n i : nth i (repeat x n) dflt = if i <? n then x else dflt.
Proof. revert i; induction n; intros [|i]; simpl; try reflexivity. rewrite IHn. reflexivity. Qed.

(* the local sort of a window *)
Lemma lsort_window {A} (sort : bool -> list A -> list A) d (p s q : list A) :
  length (sort d s) = length s ->
  lsort A sort d (length p) (length s) (p ++ s ++ q) = p ++ sort d s ++ q.
Proof.
  intros H. unfold lsort, put_slice, slice.
  rewrite skipn_len_app, (firstn_len_app s q), (firstn_len_app p), H, skipn_add, skipn_len_app, skipn_len_app.
  reflexivity.
Qed.

(* ---- Boolean level -------------------------------------------------------------------------------------------------- *)
Lemma sortb_sortedb d l : sortedb d (sortb d l).
Proof.
  pose proof (ones_le_length l) as O. unfold sortedb, sortb. destruct d.
  - exists (length l - ones l). intros i Hi. rewrite app_length, !repeat_length in Hi.
    destruct (Nat.lt_ge_cases i (length l - ones l)) as [K|K].
    + rewrite app_nth1 by (rewrite repeat_length; exact K). rewrite nth_repeat_if. bdestr; try reflexivity; lia.
    + rewrite app_nth2 by (rewrite repeat_length; exact K). rewrite repeat_length, nth_repeat_if.
      bdestr; try reflexivity; lia.
  - exists (ones l). intros i Hi. rewrite app_length, !repeat_length in Hi.
    destruct (Nat.lt_ge_cases i (ones l)) as [K|K].
    + rewrite app_nth1 by (rewrite repeat_length; exact K). rewrite nth_repeat_if. bdestr; try reflexivity; lia.
    + rewrite app_nth2 by (rewrite repeat_length; exact K). rewrite repeat_length, nth_repeat_if.
      bdestr; try reflexivity; lia.
Qed.

Lemma sortedb_strongly d l : sortedb d l -> StronglySorted (fun a b => dirle leb01 d a b = true) l.
Proof.
  intros [z H]. apply nth_error_StronglySorted. intros i j a b Hij Hi Hj.
  assert (Li : i < length l) by (apply nth_error_Some; congruence).
  assert (Lj : j < length l) by (apply nth_error_Some; congruence).
  rewrite <- (nth_error_nth l i false Hi), <- (nth_error_nth l j false Hj), (H i Li), (H j Lj).
  unfold dirle, leb01. destruct d; bdestr; try reflexivity; lia.
Qed.

(* sc_psort_bitonic on the window [lo, lo+n) of a 0-1 list *)
Lemma sort_ops_sorts off : forall f lo n d (p s q : list bool), n <= f -> length p = lo -> length s = n ->
  exists s', runb (sort_ops f off lo n d) (p ++ s ++ q) = p ++ s' ++ q /\ length s' = n /\ sortedb d s'.
Proof.
  induction f as [|f IH]; intros lo n d p s q Hf Hp Hs.
  - exists s. split; [reflexivity|]. split; [exact Hs|apply sortedb_short; lia].
  - cbn [sort_ops]. destruct (1 <? n) eqn:E.
    2:{ apply Nat.ltb_ge in E. exists s. split; [reflexivity|]. split; [exact Hs|apply sortedb_short; lia]. }
    apply Nat.ltb_lt in E. destruct (inside_one_rank off lo n).
    + exists (sortb d s). unfold run. cbn [fold_left apply_op]. subst lo n.
      rewrite lsort_window by apply sortb_length.
      split; [reflexivity|]. split; [apply sortb_length|apply sortb_sortedb].
    + set (h := n / 2).
      assert (Hh : 1 <= h /\ h < n).
      { unfold h. pose proof (Nat.div_mod_eq n 2). pose proof (Nat.mod_upper_bound n 2). lia. }
      set (s1 := firstn h s). set (s2 := skipn h s).
      assert (L1 : length s1 = h) by (unfold s1; rewrite firstn_length; lia).
      assert (L2 : length s2 = n - h) by (unfold s2; rewrite skipn_length; lia).
      assert (Es : s = s1 ++ s2) by (symmetry; apply firstn_skipn).
      rewrite !runb_app. rewrite Es, <- app_assoc.
      destruct (IH lo h (negb d) p s1 (s2 ++ q) ltac:(lia) Hp L1) as [s1' [E1 [L1' S1]]]. rewrite E1.
      rewrite (app_assoc p s1').
      destruct (IH (lo + h) (n - h) d (p ++ s1') s2 q ltac:(lia) ltac:(rewrite app_length; lia) L2)
        as [s2' [E2 [L2' S2]]]. rewrite E2.
      rewrite <- (app_assoc p s1'), (app_assoc s1' s2' q).
      rewrite (merge_ops_local gtb sortb n lo n d p (s1' ++ s2') q Hp ltac:(rewrite app_length; lia)).
      exists (runb (merge_ops n 0 n d) (s1' ++ s2')).
      split; [reflexivity|]. split; [rewrite runb_length, app_length; lia|].
      apply merge_any; [lia|rewrite app_length; lia|]. apply shape_of_sorted_halves; assumption.
Qed.

Lemma psort_total counts : cum (cumul 0 counts) (length counts) = fold_right Nat.add 0 counts.
Proof. unfold cum. rewrite cumul_nth by lia. rewrite firstn_all. reflexivity. Qed.

(* the network of sc_psort sorts every 0-1 list of the right length *)
Theorem psort_ops_sorts_bool counts bl : length bl = fold_right Nat.add 0 counts ->
  sortedb true (runb (psort_ops counts) bl).
Proof.
  intros H. unfold psort_ops. rewrite psort_total.
  destruct (sort_ops_sorts (cumul 0 counts) (fold_right Nat.add 0 counts) 0 (fold_right Nat.add 0 counts) true
              [] bl [] (le_n _) eq_refl H) as [s' [E [_ S]]].
  rewrite app_nil_r in E. cbn [app] in E. rewrite E, app_nil_r. exact S.
Qed.

(* readable forms of the two merge theorems of PsortBitonic.v (definitions unfolded, standard sortedness predicate) *)
Theorem merge_pow2_sorted d k (s : list bool) : length s = 2 ^ k ->
  (exists c a b, forall i, i < length s -> nth i s false = xorb c ((a <=? i) && (i <? b))) ->
  StronglySorted (fun x y => dirle leb01 d x y = true) (runb (merge_ops (2 ^ k) 0 (2 ^ k) d) s).
Proof. intros Hl Hb. apply sortedb_strongly. apply merge_pow2; [exact Hl|apply le_n|exact Hb]. Qed.

Theorem merge_any_sorted d (s : list bool) a b :
  (forall i, i < length s -> nth i s false = xorb d ((a <=? i) && (i <? b))) ->
  StronglySorted (fun x y => dirle leb01 d x y = true) (runb (merge_ops (length s) 0 (length s) d) s).
Proof. intros H. apply sortedb_strongly. apply merge_any; [apply le_n|reflexivity|exists a, b; exact H]. Qed.

Theorem psort_ops_sorted_bool counts bl : length bl = fold_right Nat.add 0 counts ->
  StronglySorted (fun x y => leb01 x y = true) (runb (psort_ops counts) bl).
Proof. intros H. apply (sortedb_strongly true). apply psort_ops_sorts_bool. exact H. Qed.

(* ---- arbitrary elements ------------------------------------------------------------------------------------------------ *)
Section Sorted.
  Variable A : Type.
  Variable le : A -> A -> bool.                        (* compar (a, b) <= 0 *)
  Hypothesis le_total : forall a b, le a b = true \/ le b a = true.
  Hypothesis le_trans : forall a b c, le a b = true -> le b c = true -> le a c = true.
  Notation gt := (gt_of A le).                         (* compar (a, b) > 0 *)
  Variable sort : bool -> list A -> list A.
  Hypothesis sort_perm : forall d l, Permutation (sort d l) l.
  Hypothesis sort_asc : forall l, Sorted (fun a b => le a b = true) (sort true l).
  Hypothesis sort_desc : forall l, Sorted (fun a b => le b a = true) (sort false l).

  (* the network, run on a list of the total length *)
  Theorem psort_network_sorted counts l : length l = fold_right Nat.add 0 counts ->
    StronglySorted (fun a b => le a b = true) (run A gt sort (psort_ops counts) l).
  Proof.
    intros H. apply zero_one_principle; try assumption.
    intros bl Hbl. apply (sortedb_strongly true). apply psort_ops_sorts_bool. congruence.
  Qed.

  (* THE SORTEDNESS THEOREM: the concatenation of the local arrays after sc_psort is sorted *)
  Theorem psort_sorted counts xs : map (@length A) xs = counts ->
    StronglySorted (fun a b => le a b = true) (concat (psort A gt sort counts xs)).
  Proof.
    intros H. unfold psort.
    assert (L : length (concat xs) = fold_right Nat.add 0 counts) by (rewrite concat_length_sum, H; reflexivity).
    rewrite split_counts_concat by (rewrite (run_length A gt sort sort_perm); exact L).
    apply psort_network_sorted. exact L.
  Qed.

  (* the same in the adjacent-pairs forms *)
  Corollary psort_sorted_adjacent counts xs : map (@length A) xs = counts ->
    Sorted (fun a b => le a b = true) (concat (psort A gt sort counts xs)) /\
    forall i a b, nth_error (concat (psort A gt sort counts xs)) i = Some a ->
                  nth_error (concat (psort A gt sort counts xs)) (S i) = Some b -> le a b = true.
  Proof.
    intros H. pose proof (psort_sorted counts xs H) as S. split; [apply StronglySorted_Sorted; exact S|].
    intros i a b Hi Hj. apply (StronglySorted_nth_error _ _ S i (Datatypes.S i) a b); auto.
  Qed.

  (* the whole property of the sequential reference: sorted, permutation of the input, declared counts kept *)
  Theorem psort_correct counts xs : map (@length A) xs = counts ->
    StronglySorted (fun a b => le a b = true) (concat (psort A gt sort counts xs)) /\
    Permutation (concat (psort A gt sort counts xs)) (concat xs) /\
    map (@length A) (psort A gt sort counts xs) = counts.
  Proof. intros H. split; [apply psort_sorted; exact H|apply psort_permutation; assumption]. Qed.

  (* (2) over arbitrary elements: sc_merge_bitonic on n elements, n ARBITRARY, sorts (in direction d) every list whose
     first part is sorted against d and whose second part is sorted in direction d - wherever the cut is *)
  Theorem merge_sorts d (l1 l2 : list A) :
    StronglySorted (fun a b => dirle le (negb d) a b = true) l1 ->
    StronglySorted (fun a b => dirle le d a b = true) l2 ->
    let n := length (l1 ++ l2) in
    StronglySorted (fun a b => dirle le d a b = true) (run A gt sort (merge_ops n 0 n d) (l1 ++ l2)).
  Proof.
    intros S1 S2 n. apply zero_one_principle_dir; try assumption.
    intros f M. apply sortedb_strongly. rewrite map_app.
    apply merge_any; [apply le_n|unfold n; rewrite !app_length, !map_length; reflexivity|].
    apply shape_of_sorted_halves.
    - destruct d; simpl in *.
      + destruct (map_desc_form A le f M l1 S1) as [o [z ->]]. rewrite <- (sortb_desc_fix o z). apply sortb_sortedb.
      + destruct (map_asc_form A le f M l1 S1) as [z [o ->]]. rewrite <- (sortb_asc_fix z o). apply sortb_sortedb.
    - destruct d; simpl in *.
      + destruct (map_asc_form A le f M l2 S2) as [z [o ->]]. rewrite <- (sortb_asc_fix z o). apply sortb_sortedb.
      + destruct (map_desc_form A le f M l2 S2) as [o [z ->]]. rewrite <- (sortb_desc_fix o z). apply sortb_sortedb.
  Qed.
End Sorted.

(* ---- the same theorem stated with `gt` (= `compar (a, b) > 0`), the parameter of the model ---------------------------- *)
Lemma Sorted_impl {B} (R R' : B -> B -> Prop) l : (forall a b, R a b -> R' a b) -> Sorted R l -> Sorted R' l.
Proof.
  intros H. induction 1 as [|a t S IH Hd]; constructor; [exact IH|].
  destruct Hd; constructor. apply H. assumption.
Qed.
Lemma StronglySorted_impl {B} (R R' : B -> B -> Prop) l :
  (forall a b, R a b -> R' a b) -> StronglySorted R l -> StronglySorted R' l.
Proof.
  intros H. induction 1 as [|a t S IH F]; constructor; [exact IH|].
  eapply Forall_impl; [|exact F]. intros b. apply H.
Qed.

Section GtExt.
  Variable A : Type.
  Variables gt1 gt2 : A -> A -> bool.
  Variable sort : bool -> list A -> list A.
  Hypothesis gt_eq : forall a b, gt1 a b = gt2 a b.

  Lemma ce_ext_gt d i j l : ce A gt1 d i j l = ce A gt2 d i j l.
  Proof.
    unfold ce, swap_needed. destruct (nth_error l i); [|reflexivity]. destruct (nth_error l j); [|reflexivity].
    rewrite gt_eq. reflexivity.
  Qed.
  Lemma run_ext_gt ops : forall l, run A gt1 sort ops l = run A gt2 sort ops l.
  Proof.
    induction ops as [|o ops IH]; intros l; [reflexivity|].
    unfold run in *. cbn [fold_left]. rewrite <- IH. f_equal. destruct o; simpl; [apply ce_ext_gt|reflexivity].
  Qed.
  Lemma psort_ext_gt counts xs : psort A gt1 sort counts xs = psort A gt2 sort counts xs.
  Proof. unfold psort. rewrite run_ext_gt. reflexivity. Qed.
End GtExt.

Section SortedGt.
  Variable A : Type.
  Variable gt : A -> A -> bool.                        (* compar (a, b) > 0 *)
  (* `compar` is a total preorder: never a > b and b > a; "not greater" is transitive *)
  Hypothesis gt_asym : forall a b, gt a b = false \/ gt b a = false.
  Hypothesis ngt_trans : forall a b c, gt a b = false -> gt b c = false -> gt a c = false.
  Variable sort : bool -> list A -> list A.
  Hypothesis sort_perm : forall d l, Permutation (sort d l) l.
  Hypothesis sort_asc : forall l, Sorted (fun a b => gt a b = false) (sort true l).
  Hypothesis sort_desc : forall l, Sorted (fun a b => gt b a = false) (sort false l).

  Theorem psort_sorted_gt counts xs : map (@length A) xs = counts ->
    StronglySorted (fun a b => gt a b = false) (concat (psort A gt sort counts xs)).
  Proof.
    intros H. set (le := fun a b => negb (gt a b)).
    assert (E : forall a b, gt a b = gt_of A le a b) by (intros a b; unfold gt_of, le; rewrite negb_involutive; reflexivity).
    assert (N : forall a b, le a b = true <-> gt a b = false) by (intros a b; unfold le; destruct (gt a b); simpl; split; congruence).
    rewrite (psort_ext_gt A gt (gt_of A le) sort E).
    apply (StronglySorted_impl (fun a b => le a b = true)); [intros a b; apply N|].
    apply psort_sorted; try assumption.
    - intros a b. rewrite !N. apply gt_asym.
    - intros a b c. rewrite !N. apply ngt_trans.
    - intros l. eapply Sorted_impl; [|apply sort_asc]. intros a b. apply N.
    - intros l. eapply Sorted_impl; [|apply sort_desc]. intros a b. apply N.
  Qed.
End SortedGt.

(* ---- the instance that is co-simulated against the real code: integer keys, Z.gtb, insertion sort ------------------------ *)
From Coq Require Import ZArith.

Definition zrel (d : bool) (a b : Z) : Prop := if d then (a <= b)%Z else (b <= a)%Z.

Lemma zinsert_perm d x l : Permutation (zinsert d x l) (x :: l).
Proof.
  induction l as [|y t IH]; simpl; [reflexivity|].
  destruct (if d then (x <=? y)%Z else (y <=? x)%Z); [reflexivity|].
  eapply perm_trans; [apply perm_skip, IH|apply perm_swap].
Qed.
Lemma zsort_perm d l : Permutation (zsort d l) l.
Proof. induction l as [|x t IH]; simpl; [reflexivity|]. eapply perm_trans; [apply zinsert_perm|apply perm_skip, IH]. Qed.

Lemma zinsert_sorted d x l : StronglySorted (zrel d) l -> StronglySorted (zrel d) (zinsert d x l).
Proof.
  induction 1 as [|y t S IH F]; simpl; [constructor; constructor|].
  destruct (if d then (x <=? y)%Z else (y <=? x)%Z) eqn:E.
  - assert (R : zrel d x y) by (destruct d; simpl; apply Z.leb_le; exact E).
    constructor; [constructor; assumption|]. constructor; [exact R|].
    eapply Forall_impl; [|exact F]. intros z Hz. destruct d; simpl in *; lia.
  - assert (R : zrel d y x) by (destruct d; simpl; apply Z.leb_gt in E; lia).
    constructor; [exact IH|]. eapply Permutation_Forall; [apply Permutation_sym, zinsert_perm|].
    constructor; assumption.
Qed.
Lemma zsort_sorted d l : StronglySorted (zrel d) (zsort d l).
Proof. induction l as [|x t IH]; simpl; [constructor|apply zinsert_sorted, IH]. Qed.

(* the sequential network on integer keys (the function whose output the check compares with the output of the real
   sc_psort on every run) returns a sorted list *)
Theorem psort_seq_sorted counts g : length g = fold_right Nat.add 0 counts ->
  StronglySorted Z.le (psort_seq counts g).
Proof.
  intros H. unfold psort_seq.
  assert (E : forall a b, Z.gtb a b = gt_of Z Z.leb a b).
  { intros a b. unfold gt_of. rewrite Z.gtb_ltb, Z.ltb_antisym. reflexivity. }
  rewrite (run_ext_gt Z Z.gtb (gt_of Z Z.leb) zsort E).
  apply (StronglySorted_impl (fun a b => Z.leb a b = true)); [intros a b; apply Z.leb_le|].
  apply psort_network_sorted; try assumption.
  - intros a b. rewrite !Z.leb_le. lia.
  - intros a b c. rewrite !Z.leb_le. lia.
  - apply zsort_perm.
  - intros l. apply StronglySorted_Sorted. eapply StronglySorted_impl; [|apply (zsort_sorted true)].
    intros a b. simpl. apply Z.leb_le.
  - intros l. apply StronglySorted_Sorted. eapply StronglySorted_impl; [|apply (zsort_sorted false)].
    intros a b. simpl. apply Z.leb_le.
Qed.
