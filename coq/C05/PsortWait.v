(* C05 (c), first half: the two Waitsome loops of sc_merge_bitonic as a state machine over the received/sent flags.
   For EVERY pair of answer streams that MPI_Waitsome may legally produce (each request index reported exactly
   once, every answer non-empty, arbitrary grouping and order, arbitrary interleaving of receive and send
   completions) the loop terminates having consumed all answers, every peer record is compare-exchanged exactly
   once, its buffer is freed exactly once, the compare-exchange never happens before the send of the local segment
   has completed, and the resulting local array is the same as applying the records in index order. *)
From Coq Require Import Arith List Bool PeanoNat Lia Permutation.
From ScV Require Import C05.PsortModel C05.ListAux.
Import ListNotations.

Section Wait.
  Variable A : Type.
  Variable gt : A -> A -> bool.
  Variable dir : bool.
  Variable me : nat.
  Variable peers : list (peer A).
  Let m := length peers.

  Notation state := (list A * list pflag)%type.
  Definition apply_k (l : list A) (k : nat) : list A :=
    match nth_error peers k with Some p => apply_peer A gt dir me l p | None => l end.

  (* events: (true, k) = receive k reported complete, (false, k) = send k reported complete *)
  Definition on_ev (st : state) (e : bool * nat) : state :=
    if fst e then on_recv A gt dir me peers st (snd e) else on_send A gt dir me peers st (snd e).

  Definition flag_ok (es : list (bool * nat)) (k : nat) (f : pflag) : Prop :=
    (f_received f = true <-> In (true, k) es) /\ (f_sent f = true <-> In (false, k) es) /\
    f_send_done f = f_sent f /\
    f_applied f = (if f_received f && f_sent f then 1 else 0) /\ f_freed f = f_applied f /\ f_early f = false.

  Variable l0 : list A.
  Definition Inv (es : list (bool * nat)) (st : state) : Prop :=
    length (snd st) = m /\
    (forall k f, nth_error (snd st) k = Some f -> flag_ok es k f) /\
    exists order, NoDup order /\ (forall k, In k order <-> (In (true, k) es /\ In (false, k) es)) /\
                  fst st = fold_left apply_k order l0.

  Lemma upd_nth_length {B} (l : list B) i f : length (upd_nth l i f) = length l.
  Proof.
    unfold upd_nth. destruct (nth_error l i) eqn:E; [|reflexivity].
    assert (i < length l) by (apply nth_error_Some; congruence).
    rewrite app_length, firstn_length. cbn [length]. rewrite skipn_length. lia.
  Qed.
  Lemma upd_nth_nth {B} (l : list B) i f j x : nth_error l i = Some x ->
    nth_error (upd_nth l i f) j = if j =? i then Some (f x) else nth_error l j.
  Proof.
    intros E. unfold upd_nth. rewrite E.
    assert (Hi : i < length l) by (apply nth_error_Some; congruence).
    destruct (j =? i) eqn:Eji.
    - apply Nat.eqb_eq in Eji. subst j. rewrite nth_error_app2; rewrite firstn_length; [|lia].
      replace (i - Nat.min i (length l)) with 0 by lia. reflexivity.
    - apply Nat.eqb_neq in Eji. destruct (Nat.lt_ge_cases j i) as [L|L].
      + rewrite nth_error_app1 by (rewrite firstn_length; lia). apply nth_error_firstn_lt. exact L.
      + rewrite nth_error_app2; rewrite firstn_length; [|lia].
        replace (j - Nat.min i (length l)) with (S (j - S i)) by lia. cbn [nth_error].
        rewrite nth_error_skipn_add. f_equal. lia.
  Qed.

  Lemma Inv_step es st e :
    Inv es st -> snd e < m -> ~ In e es -> Inv (es ++ [e]) (on_ev st e).
  Proof.
    intros [HL [HF [order [ND [HO HD]]]]] Hk Hn. destruct st as [l fl]. destruct e as [b k]. simpl in *.
    destruct (nth_error peers k) as [p|] eqn:Ep; [|apply nth_error_None in Ep; fold m in Ep; lia].
    destruct (nth_error fl k) as [f|] eqn:Ef; [|apply nth_error_None in Ef; lia].
    destruct (HF k f Ef) as [F1 [F2 [F3 [F4 [F5 F6]]]]].
    assert (Hother : forall j g, j <> k -> flag_ok es j g -> flag_ok (es ++ [(b, k)]) j g).
    { intros j g Hj [G1 [G2 G3]]. split; [|split; [|exact G3]].
      - rewrite G1, in_app_iff. simpl. split; [tauto|]. intros [H|[H|[]]]; [exact H|congruence].
      - rewrite G2, in_app_iff. simpl. split; [tauto|]. intros [H|[H|[]]]; [exact H|congruence]. }
    unfold on_ev; simpl. destruct b.
    - (* receive k completes *)
      assert (Hr : f_received f = false).
      { destruct (f_received f) eqn:E; [|reflexivity]. exfalso. apply Hn, F1. reflexivity. }
      unfold on_recv. rewrite Ep, Ef. split; [|split].
      + simpl. rewrite upd_nth_length. exact HL.
      + intros j g Hg. simpl in Hg. rewrite (upd_nth_nth fl k _ j f Ef) in Hg.
        destruct (j =? k) eqn:Ejk.
        * apply Nat.eqb_eq in Ejk. subst j. injection Hg as <-.
          unfold flag_ok. rewrite Hr in F4. simpl in F4.
          destruct (f_sent f) eqn:Es; simpl; rewrite ?in_app_iff; simpl; rewrite ?Es, ?F3, ?F5, ?F4, ?F6; simpl;
            intuition (auto; try discriminate; try congruence).
        * apply Nat.eqb_neq in Ejk. apply Hother; [exact Ejk|]. apply HF. exact Hg.
      + destruct (f_sent f) eqn:Es.
        * exists (order ++ [k]). split; [|split].
          -- apply NoDup_snoc; auto. intros H. apply HO in H. tauto.
          -- intros j. rewrite !in_app_iff. simpl. rewrite HO.
             split.
             ++ intros [[H1 H2]|[H|[]]]; [tauto|]. subst j. split; [right; left; reflexivity|left; apply F2; reflexivity].
             ++ intros [[H1|[H1|[]]] [H2|[H2|[]]]]; try discriminate; [left; tauto|].
                injection H1 as <-. right; left; reflexivity.
          -- simpl. rewrite fold_left_app. simpl. rewrite <- HD. unfold apply_k. rewrite Ep. reflexivity.
        * exists order. split; [exact ND|split].
          -- intros j. rewrite HO, !in_app_iff. simpl. split; [tauto|].
             intros [[H1|[H1|[]]] [H2|[H2|[]]]]; try discriminate; try tauto.
             injection H1 as <-. apply F2 in H2. congruence.
          -- simpl. exact HD.
    - (* send k completes *)
      assert (Hs : f_sent f = false).
      { destruct (f_sent f) eqn:E; [|reflexivity]. exfalso. apply Hn, F2. reflexivity. }
      unfold on_send. rewrite Ep, Ef. split; [|split].
      + simpl. rewrite upd_nth_length. exact HL.
      + intros j g Hg. simpl in Hg. rewrite (upd_nth_nth fl k _ j f Ef) in Hg.
        destruct (j =? k) eqn:Ejk.
        * apply Nat.eqb_eq in Ejk. subst j. injection Hg as <-.
          unfold flag_ok. rewrite Hs in F4. rewrite andb_false_r in F4.
          destruct (f_received f) eqn:Er; simpl; rewrite ?in_app_iff; simpl; rewrite ?Er, ?Hs, ?F5, ?F4, ?F6; simpl;
            intuition (auto; try discriminate; try congruence).
        * apply Nat.eqb_neq in Ejk. apply Hother; [exact Ejk|]. apply HF. exact Hg.
      + destruct (f_received f) eqn:Er.
        * exists (order ++ [k]). split; [|split].
          -- apply NoDup_snoc; auto. intros H. apply HO in H. tauto.
          -- intros j. rewrite !in_app_iff. simpl. rewrite HO.
             split.
             ++ intros [[H1 H2]|[H|[]]]; [tauto|]. subst j. split; [left; apply F1; reflexivity|right; left; reflexivity].
             ++ intros [[H1|[H1|[]]] [H2|[H2|[]]]]; try discriminate; [left; tauto|].
                injection H2 as <-. right; left; reflexivity.
          -- simpl. rewrite fold_left_app. simpl. rewrite <- HD. unfold apply_k. rewrite Ep. reflexivity.
        * exists order. split; [exact ND|split].
          -- intros j. rewrite HO, !in_app_iff. simpl. split; [tauto|].
             intros [[H1|[H1|[]]] [H2|[H2|[]]]]; try discriminate; try tauto.
             injection H2 as <-. apply F1 in H1. congruence.
          -- simpl. exact HD.
  Qed.

  Lemma Inv_init : Inv [] (l0, repeat pflag0 m).
  Proof.
    split; [simpl; apply repeat_length|split].
    - intros k f H. simpl in H. apply nth_error_In, repeat_spec in H. subst f.
      unfold flag_ok; simpl. intuition discriminate.
    - exists []. split; [constructor|split; [simpl; tauto|reflexivity]].
  Qed.

  Lemma Inv_fold es' : forall es st, Inv es st -> NoDup (es ++ es') -> (forall e, In e es' -> snd e < m) ->
    Inv (es ++ es') (fold_left on_ev es' st).
  Proof.
    induction es' as [|e t IH]; intros es st HI ND HB; simpl.
    - rewrite app_nil_r. exact HI.
    - replace (es ++ e :: t) with ((es ++ [e]) ++ t) in * by (rewrite <- app_assoc; reflexivity).
      apply IH; [|exact ND|intros x Hx; apply HB; right; exact Hx].
      apply Inv_step; [exact HI|apply HB; left; reflexivity|].
      rewrite <- app_assoc in ND. apply NoDup_remove_2 in ND. intros H. apply ND. apply in_app_iff. left. exact H.
  Qed.

  Lemma fold_recv a st : fold_left (on_recv A gt dir me peers) a st = fold_left on_ev (map (pair true) a) st.
  Proof. revert st; induction a; intros st; simpl; [reflexivity|apply IHa]. Qed.
  Lemma fold_send a st : fold_left (on_send A gt dir me peers) a st = fold_left on_ev (map (pair false) a) st.
  Proof. revert st; induction a; intros st; simpl; [reflexivity|apply IHa]. Qed.

  (* the loop consumes both answer streams completely, whatever their grouping *)
  Lemma wait_loop_runs fuel : forall ransw sansw st log,
    (forall a, In a ransw -> a <> []) -> (forall a, In a sansw -> a <> []) ->
    length ransw + length sansw < fuel ->
    exists es calls,
      Permutation es (map (pair true) (concat ransw) ++ map (pair false) (concat sansw)) /\
      wait_loop A gt fuel dir me peers ransw sansw (length (concat ransw)) (length (concat sansw)) st log
      = Some (fold_left on_ev es st, 0, calls).
  Proof.
    induction fuel as [|f IH]; intros ransw sansw st log HR HS HF; [lia|].
    cbn [wait_loop].
    assert (CONS : forall (a : list nat) t, a <> [] ->
              (0 <? length (concat (a :: t))) = true /\ length (concat (a :: t)) - length a = length (concat t)).
    { intros a t Ha. simpl. rewrite app_length. split; [apply Nat.ltb_lt; destruct a; [congruence|simpl; lia]|lia]. }
    destruct ransw as [|a rt]; destruct sansw as [|b stl].
    - simpl. exists [], (rev log). split; [constructor|reflexivity].
    - destruct (CONS b stl ltac:(apply HS; left; reflexivity)) as [Lb Db].
      change (length (concat (@nil (list nat)))) with 0. change (0 <? 0) with false.
      rewrite Lb. cbv beta iota. cbn [orb]. cbv beta iota. rewrite Db. change (0 - 0) with 0.
      destruct (IH [] stl (fold_left (on_send A gt dir me peers) b st) (false :: log)) as [es [calls [HP HW]]];
        [exact HR|intros x Hx; apply HS; right; exact Hx|simpl in *; lia|].
      change (length (concat (@nil (list nat)))) with 0 in HW.
      exists (map (pair false) b ++ es), calls. split.
      + simpl in *. rewrite map_app. apply Permutation_app_head. exact HP.
      + rewrite HW. rewrite fold_left_app, fold_send. reflexivity.
    - destruct (CONS a rt ltac:(apply HR; left; reflexivity)) as [La Da].
      change (length (concat (@nil (list nat)))) with 0. change (0 <? 0) with false.
      rewrite La. cbv beta iota. cbn [orb]. cbv beta iota. rewrite Da. change (0 - 0) with 0.
      destruct (IH rt [] (fold_left (on_recv A gt dir me peers) a st) (true :: log)) as [es [calls [HP HW]]];
        [intros x Hx; apply HR; right; exact Hx|exact HS|simpl in *; lia|].
      change (length (concat (@nil (list nat)))) with 0 in HW.
      exists (map (pair true) a ++ es), calls. split.
      + simpl in *. rewrite !app_nil_r in *. rewrite map_app. apply Permutation_app_head. exact HP.
      + rewrite HW. rewrite fold_left_app, fold_recv. reflexivity.
    - destruct (CONS a rt ltac:(apply HR; left; reflexivity)) as [La Da].
      destruct (CONS b stl ltac:(apply HS; left; reflexivity)) as [Lb Db].
      rewrite La, Lb. cbv beta iota. cbn [orb]. cbv beta iota. rewrite Da, Db.
      destruct (IH rt stl (fold_left (on_send A gt dir me peers) b (fold_left (on_recv A gt dir me peers) a st))
                  (false :: true :: log)) as [es [calls [HP HW]]];
        [intros x Hx; apply HR; right; exact Hx|intros x Hx; apply HS; right; exact Hx|simpl in *; lia|].
      exists (map (pair true) a ++ map (pair false) b ++ es), calls. split.
      + simpl. rewrite !map_app. rewrite <- app_assoc. apply Permutation_app_head.
        eapply perm_trans; [apply Permutation_app_head; exact HP|].
        rewrite !app_assoc. apply Permutation_app_tail. apply Permutation_app_comm.
      + rewrite HW. rewrite !fold_left_app, fold_send, fold_recv. reflexivity.
  Qed.

  (* what MPI_Waitsome may answer over the whole loop: non-empty index sets, every request index exactly once *)
  Definition legal_answers (answ : list (list nat)) : Prop :=
    (forall a, In a answ -> a <> []) /\ Permutation (concat answ) (seq 0 m).

  Lemma fold_apply_k_peers : forall ps base l, (forall i, nth_error peers (base + i) = nth_error ps i) ->
    fold_left apply_k (seq base (length ps)) l = fold_left (apply_peer A gt dir me) ps l.
  Proof.
    induction ps as [|p t IH]; intros base l H; [reflexivity|].
    cbn [length seq fold_left]. unfold apply_k at 2. specialize (H 0) as H0. rewrite Nat.add_0_r in H0. rewrite H0. simpl.
    apply IH. intros i. specialize (H (S i)). rewrite <- Nat.add_succ_comm in H. exact H.
  Qed.

  (* operations that commute pairwise may be applied in any order *)
  Lemma fold_perm (f : list A -> nat -> list A) :
    (forall l j k, f (f l j) k = f (f l k) j) ->
    forall o1 o2, Permutation o1 o2 -> forall l, fold_left f o1 l = fold_left f o2 l.
  Proof.
    intros C o1 o2 HP. induction HP; intros l1; simpl; auto.
    - rewrite C. reflexivity.
    - rewrite IHHP1. apply IHHP2.
  Qed.

  Theorem wait_loop_correct ransw sansw :
    legal_answers ransw -> legal_answers sansw ->
    exists l' fl' calls,
      wait_loop A gt (2 * m + 1) dir me peers ransw sansw m m (l0, repeat pflag0 m) [] = Some (l', fl', 0, calls) /\
      length fl' = m /\
      (forall k f, nth_error fl' k = Some f ->
         f_received f = true /\ f_sent f = true /\ f_applied f = 1 /\ f_freed f = 1 /\ f_early f = false) /\
      ((forall l j k, j <> k -> apply_k (apply_k l j) k = apply_k (apply_k l k) j) ->
       l' = fold_left (apply_peer A gt dir me) peers l0).
  Proof.
    intros [R1 R2] [S1 S2].
    assert (LR : length (concat ransw) = m) by (rewrite (Permutation_length R2); apply seq_length).
    assert (LS : length (concat sansw) = m) by (rewrite (Permutation_length S2); apply seq_length).
    assert (BR : length ransw <= m).
    { rewrite <- LR. clear -R1. induction ransw as [|a t IH]; simpl; [lia|]. rewrite app_length.
      assert (a <> []) by (apply R1; left; reflexivity). destruct a; [congruence|].
      simpl. specialize (IH ltac:(intros x Hx; apply R1; right; exact Hx)). lia. }
    assert (BS : length sansw <= m).
    { rewrite <- LS. clear -S1. induction sansw as [|a t IH]; simpl; [lia|]. rewrite app_length.
      assert (a <> []) by (apply S1; left; reflexivity). destruct a; [congruence|].
      simpl. specialize (IH ltac:(intros x Hx; apply S1; right; exact Hx)). lia. }
    destruct (wait_loop_runs (2 * m + 1) ransw sansw (l0, repeat pflag0 m) [] R1 S1 ltac:(lia)) as [es [calls [HP HW]]].
    rewrite LR, LS in HW.
    assert (HPs : Permutation es (map (pair true) (seq 0 m) ++ map (pair false) (seq 0 m))).
    { eapply perm_trans; [exact HP|]. apply Permutation_app; apply Permutation_map; assumption. }
    assert (ND : NoDup es).
    { apply (Permutation_NoDup (Permutation_sym HPs)). apply NoDup_tagged. }
    pose proof (Inv_fold es [] (l0, repeat pflag0 m) Inv_init ND) as HI. simpl in HI.
    specialize (HI ltac:(intros e He; apply (Permutation_in _ HPs) in He; apply in_app_iff in He;
                         destruct He as [He|He]; apply in_map_iff in He; destruct He as [x [<- Hx]]; apply in_seq in Hx; simpl; lia)).
    destruct (fold_left on_ev es (l0, repeat pflag0 m)) as [l' fl'] eqn:EF.
    destruct HI as [HL [HFl [order [NDo [HO HD]]]]]. simpl in *.
    exists l', fl', calls. split; [exact HW|split; [exact HL|split]].
    - intros k f Hk. destruct (HFl k f Hk) as [F1 [F2 [F3 [F4 [F5 F6]]]]].
      assert (k < m) by (rewrite <- HL; apply nth_error_Some; congruence).
      assert (E1 : f_received f = true).
      { apply F1. apply (Permutation_in _ (Permutation_sym HPs)). apply in_app_iff. left. apply in_map. apply in_seq. lia. }
      assert (E2 : f_sent f = true).
      { apply F2. apply (Permutation_in _ (Permutation_sym HPs)). apply in_app_iff. right. apply in_map. apply in_seq. lia. }
      rewrite E1, E2 in F4. simpl in F4. rewrite F4 in F5. auto.
    - intros C. rewrite HD.
      assert (C' : forall l j k, apply_k (apply_k l j) k = apply_k (apply_k l k) j).
      { intros l j k. destruct (Nat.eq_dec j k) as [->|Hn]; [reflexivity|apply C; exact Hn]. }
      assert (PO : Permutation order (seq 0 m)).
      { apply NoDup_Permutation; [exact NDo|apply seq_NoDup|]. intros k. rewrite HO, in_seq. split.
        - intros [H _]. apply (Permutation_in _ HPs) in H. apply in_app_iff in H. destruct H as [H|H];
            apply in_map_iff in H; destruct H as [x [Hx1 Hx2]]; [|discriminate]. injection Hx1 as ->. apply in_seq in Hx2. exact Hx2.
        - intros H. split; apply (Permutation_in _ (Permutation_sym HPs)); apply in_app_iff; [left|right]; apply in_map; apply in_seq; exact H. }
      rewrite (fold_perm apply_k C' _ _ PO). unfold m. apply fold_apply_k_peers. intros i. reflexivity.
  Qed.
End Wait.
