(* C05 (c), second half: the two sides of a remote exchange compute complementary halves of the sequential
   compare-exchange; the local loop does the same on one rank; peer records that cover disjoint parts of the local
   array commute, which is the hypothesis under which PsortWait.wait_loop_correct gives the same array for every
   completion order. *)
From Coq Require Import Arith List Bool PeanoNat Lia.
From ScV Require Import C05.PsortModel C05.ListAux C05.PsortPerm.
Import ListNotations.

Section Dist.
  Variable A : Type.
  Variable gt : A -> A -> bool.

  Notation ce := (ce A gt).
  Notation slice := (slice A).
  Notation put_slice := (put_slice A).
  Notation half_lo := (half_lo A gt).
  Notation half_hi := (half_hi A gt).
  Notation apply_peer := (apply_peer A gt).

  (* the sequential comparator on one pair: (value left at the lower position, value left at the upper position) *)
  Definition cex (dir : bool) (a b : A) : A * A := if swap_needed A gt dir a b then (b, a) else (a, b).

  Lemma half_lo_nth dir : forall L H i,
    nth_error (half_lo dir L H) i =
    match nth_error L i, nth_error H i with Some a, Some b => Some (fst (cex dir a b)) | _, _ => None end.
  Proof.
    induction L as [|a L IH]; intros H i; [destruct i; reflexivity|].
    destruct H as [|b H]; [destruct i; simpl; [reflexivity|destruct (nth_error L i); reflexivity]|].
    destruct i; simpl; [unfold cex; destruct (swap_needed A gt dir a b); reflexivity|apply IH].
  Qed.
  Lemma half_hi_nth dir : forall L H i,
    nth_error (half_hi dir L H) i =
    match nth_error L i, nth_error H i with Some a, Some b => Some (snd (cex dir a b)) | _, _ => None end.
  Proof.
    induction L as [|a L IH]; intros H i; [destruct i; reflexivity|].
    destruct H as [|b H]; [destruct i; simpl; [reflexivity|destruct (nth_error L i); reflexivity]|].
    destruct i; simpl; [unfold cex; destruct (swap_needed A gt dir a b); reflexivity|apply IH].
  Qed.
  Lemma half_lo_length dir : forall L H, length (half_lo dir L H) = Nat.min (length L) (length H).
  Proof. induction L; intros [|b H]; simpl; auto. Qed.
  Lemma half_hi_length dir : forall L H, length (half_hi dir L H) = Nat.min (length L) (length H).
  Proof. induction L; intros [|b H]; simpl; auto. Qed.

  (* the lower owner keeps `half_lo`, the upper owner `half_hi`: together exactly the comparator, element by element;
     both evaluate the same test on the same pair (lo element first), whichever side they are on *)
  Theorem halves_complementary dir L H i a b :
    nth_error L i = Some a -> nth_error H i = Some b ->
    nth_error (half_lo dir L H) i = Some (fst (cex dir a b)) /\
    nth_error (half_hi dir L H) i = Some (snd (cex dir a b)).
  Proof. intros E1 E2. rewrite half_lo_nth, half_hi_nth, E1, E2. split; reflexivity. Qed.

  (* the local loop (both positions on one rank) is the same comparator *)
  Lemma ce_nth dir i j l k a b : i <> j -> nth_error l i = Some a -> nth_error l j = Some b ->
    nth_error (ce dir i j l) k =
    if k =? i then Some (fst (cex dir a b)) else if k =? j then Some (snd (cex dir a b)) else nth_error l k.
  Proof.
    intros Hij Ei Ej. unfold PsortModel.ce, cex. rewrite Ei, Ej.
    assert (Li : i < length l) by (apply nth_error_Some; congruence).
    assert (Lj : j < length l) by (apply nth_error_Some; congruence).
    destruct (swap_needed A gt dir a b); simpl.
    - rewrite !nth_error_set_nth, set_nth_length.
      apply Nat.ltb_lt in Li, Lj. rewrite Li, Lj, !andb_true_r.
      destruct (k =? i) eqn:Eki; destruct (k =? j) eqn:Ekj; try reflexivity.
      apply Nat.eqb_eq in Eki, Ekj. congruence.
    - destruct (k =? i) eqn:Eki; [apply Nat.eqb_eq in Eki; subst; exact Ei|].
      destruct (k =? j) eqn:Ekj; [apply Nat.eqb_eq in Ekj; subst; exact Ej|reflexivity].
  Qed.

  (* ---- slices ---- *)
  Lemma slice_nth l start len i :
    nth_error (slice l start len) i = if i <? len then nth_error l (start + i) else None.
  Proof.
    unfold PsortModel.slice. destruct (i <? len) eqn:E.
    - apply Nat.ltb_lt in E. rewrite nth_error_firstn_lt by exact E. apply nth_error_skipn_add.
    - apply Nat.ltb_ge in E. apply nth_error_firstn_ge. exact E.
  Qed.
  Lemma slice_length l start len : start + len <= length l -> length (slice l start len) = len.
  Proof. intros H. unfold PsortModel.slice. rewrite firstn_length, skipn_length. lia. Qed.

  Lemma put_slice_nth l start s i : start + length s <= length l ->
    nth_error (put_slice l start s) i =
    if (start <=? i) && (i <? start + length s) then nth_error s (i - start) else nth_error l i.
  Proof.
    intros H. unfold PsortModel.put_slice.
    destruct (Nat.lt_ge_cases i start) as [L|L].
    - rewrite nth_error_app1 by (rewrite firstn_length; lia).
      rewrite nth_error_firstn_lt by exact L.
      replace (start <=? i) with false by (symmetry; apply Nat.leb_gt; exact L). reflexivity.
    - rewrite nth_error_app2; rewrite firstn_length; [|lia].
      replace (Nat.min start (length l)) with start by lia.
      replace (start <=? i) with true by (symmetry; apply Nat.leb_le; exact L). simpl.
      destruct (i <? start + length s) eqn:E.
      + apply Nat.ltb_lt in E. apply nth_error_app1. lia.
      + apply Nat.ltb_ge in E. rewrite nth_error_app2 by lia. rewrite nth_error_skipn_add. f_equal. lia.
  Qed.
  Lemma put_slice_length l start s : start + length s <= length l -> length (put_slice l start s) = length l.
  Proof.
    intros H. unfold PsortModel.put_slice. rewrite !app_length, firstn_length, skipn_length. lia.
  Qed.

  (* ---- a peer record acts on its own part of the local array only ---- *)
  Definition peer_ok (l : list A) (p : peer A) : Prop :=
    p_start p + p_len p <= length l /\ length (p_buf p) = p_len p.

  Lemma apply_peer_length dir me l p : peer_ok l p -> length (apply_peer dir me l p) = length l.
  Proof.
    intros [H1 H2]. unfold PsortModel.apply_peer.
    destruct (me <? p_rank p); apply put_slice_length;
      rewrite ?half_lo_length, ?half_hi_length, slice_length by exact H1; lia.
  Qed.

  Lemma apply_peer_nth dir me l p i : peer_ok l p ->
    nth_error (apply_peer dir me l p) i =
    if (p_start p <=? i) && (i <? p_start p + p_len p) then
      match nth_error l i, nth_error (p_buf p) (i - p_start p) with
      | Some a, Some b => Some (if me <? p_rank p then fst (cex dir a b) else snd (cex dir b a))
      | _, _ => None
      end
    else nth_error l i.
  Proof.
    intros [H1 H2]. unfold PsortModel.apply_peer.
    destruct (me <? p_rank p).
    - rewrite put_slice_nth; rewrite half_lo_length, slice_length by exact H1; rewrite H2, Nat.min_id; [|exact H1].
      destruct ((p_start p <=? i) && (i <? p_start p + p_len p)) eqn:E; [|reflexivity].
      apply andb_true_iff in E. destruct E as [E1 E2]. apply Nat.leb_le in E1. apply Nat.ltb_lt in E2.
      rewrite half_lo_nth, slice_nth.
      replace (i - p_start p <? p_len p) with true by (symmetry; apply Nat.ltb_lt; lia).
      replace (p_start p + (i - p_start p)) with i by lia. reflexivity.
    - rewrite put_slice_nth; rewrite half_hi_length, slice_length by exact H1; rewrite H2, Nat.min_id; [|exact H1].
      destruct ((p_start p <=? i) && (i <? p_start p + p_len p)) eqn:E; [|reflexivity].
      apply andb_true_iff in E. destruct E as [E1 E2]. apply Nat.leb_le in E1. apply Nat.ltb_lt in E2.
      rewrite half_hi_nth, slice_nth.
      replace (i - p_start p <? p_len p) with true by (symmetry; apply Nat.ltb_lt; lia).
      replace (p_start p + (i - p_start p)) with i by lia.
      destruct (nth_error l i), (nth_error (p_buf p) (i - p_start p)); reflexivity.
  Qed.

  Definition disjoint (p q : peer A) : Prop :=
    p_start p + p_len p <= p_start q \/ p_start q + p_len q <= p_start p.

  (* records over disjoint parts of the array commute *)
  Theorem apply_peer_commute dir me l p q :
    peer_ok l p -> peer_ok l q -> disjoint p q ->
    apply_peer dir me (apply_peer dir me l p) q = apply_peer dir me (apply_peer dir me l q) p.
  Proof.
    intros Hp Hq D. apply nth_error_ext. intros i.
    assert (Hq' : peer_ok (apply_peer dir me l p) q) by (destruct Hq; split; [rewrite apply_peer_length|]; assumption).
    assert (Hp' : peer_ok (apply_peer dir me l q) p) by (destruct Hp; split; [rewrite apply_peer_length|]; assumption).
    rewrite (apply_peer_nth dir me _ q i Hq'), (apply_peer_nth dir me _ p i Hp').
    rewrite (apply_peer_nth dir me l p i Hp), (apply_peer_nth dir me l q i Hq).
    destruct ((p_start p <=? i) && (i <? p_start p + p_len p)) eqn:E1;
    destruct ((p_start q <=? i) && (i <? p_start q + p_len q)) eqn:E2; try reflexivity.
    exfalso. apply andb_true_iff in E1, E2. destruct E1 as [E1 E1'], E2 as [E2 E2'].
    apply Nat.leb_le in E1, E2. apply Nat.ltb_lt in E1', E2'. destruct D; lia.
  Qed.
End Dist.
