(* C05 (a): every operation of the network keeps the multiset of elements and the length of the array; hence
   sc_psort's result is a permutation of its input and every rank keeps its declared count - for EVERY list of
   operations, every comparison function and every local sort that returns a permutation. *)
From Coq Require Import Arith List Bool PeanoNat Lia Permutation.
From ScV Require Import C05.PsortModel C05.ListAux.
Import ListNotations.

Section Perm.
  Variable A : Type.
  Variable gt : A -> A -> bool.
  Variable sort : bool -> list A -> list A.
  Hypothesis sort_perm : forall d l, Permutation (sort d l) l.

  Notation set_nth := (set_nth A).
  Notation ce := (ce A gt).
  Notation slice := (slice A).
  Notation put_slice := (put_slice A).

  Lemma set_nth_length l i x : length (set_nth l i x) = length l.
  Proof. revert i; induction l; intros [|i]; simpl; auto. Qed.

  Lemma nth_error_set_nth l i x k :
    nth_error (set_nth l i x) k = if (k =? i) && (i <? length l) then Some x else nth_error l k.
  Proof.
    revert i k; induction l as [|h t IH]; intros i k.
    - simpl. destruct i; rewrite andb_false_r; reflexivity.
    - destruct i, k; simpl; auto. rewrite IH. reflexivity.
  Qed.

  Lemma set_nth_perm_one t j a b : nth_error t j = Some b -> Permutation (b :: set_nth t j a) (a :: t).
  Proof.
    revert j; induction t as [|h t IH]; intros [|j] H; simpl in *; try discriminate.
    - injection H as ->. apply perm_swap.
    - eapply perm_trans; [apply perm_swap|]. eapply perm_trans; [|apply perm_swap].
      apply perm_skip. apply IH. exact H.
  Qed.

  Lemma set_nth_swap_perm_lt l i j a b :
    i < j -> nth_error l i = Some a -> nth_error l j = Some b -> Permutation (set_nth (set_nth l i b) j a) l.
  Proof.
    revert i j; induction l as [|h t IH]; intros i j Hij Hi Hj.
    - destruct i; discriminate.
    - destruct j as [|j]; [lia|]. destruct i as [|i]; simpl in *.
      + injection Hi as ->. apply set_nth_perm_one. exact Hj.
      + apply perm_skip. apply IH; auto. lia.
  Qed.

  Lemma set_nth_comm l i j a b : i <> j -> set_nth (set_nth l i b) j a = set_nth (set_nth l j a) i b.
  Proof.
    revert i j; induction l as [|h t IH]; intros i j H; [destruct i, j; reflexivity|].
    destruct i, j; simpl; try reflexivity; try lia. f_equal. apply IH. lia.
  Qed.

  Lemma set_nth_same l i a : nth_error l i = Some a -> set_nth l i a = l.
  Proof. revert i; induction l; intros [|i] H; simpl in *; try discriminate; [injection H as ->; auto|f_equal; auto]. Qed.

  Lemma ce_perm d i j l : Permutation (ce d i j l) l.
  Proof.
    unfold PsortModel.ce. destruct (nth_error l i) as [a|] eqn:Hi; [|reflexivity].
    destruct (nth_error l j) as [b|] eqn:Hj; [|reflexivity].
    destruct (swap_needed A gt d a b); [|reflexivity].
    destruct (Nat.lt_trichotomy i j) as [H|[H|H]].
    - apply set_nth_swap_perm_lt; auto.
    - subst j. rewrite Hi in Hj. injection Hj as ->.
      rewrite (set_nth_same l i b Hi). rewrite (set_nth_same l i b Hi). reflexivity.
    - rewrite set_nth_comm by lia. apply set_nth_swap_perm_lt; auto.
  Qed.

  Lemma ce_length d i j l : length (ce d i j l) = length l.
  Proof. apply Permutation_length, ce_perm. Qed.

  Lemma slice_put_id l lo n : firstn lo l ++ slice l lo n ++ skipn (lo + length (slice l lo n)) l = l.
  Proof.
    unfold PsortModel.slice. rewrite skipn_add.
    transitivity (firstn lo l ++ skipn lo l); [|apply firstn_skipn]. f_equal.
    set (s := skipn lo l). rewrite firstn_length.
    destruct (Nat.le_ge_cases n (length s)) as [H|H].
    - rewrite Nat.min_l by exact H. apply firstn_skipn.
    - rewrite Nat.min_r by exact H. rewrite skipn_all, firstn_all2 by exact H. apply app_nil_r.
  Qed.

  Lemma lsort_perm d lo n l : Permutation (lsort A sort d lo n l) l.
  Proof.
    unfold lsort, PsortModel.put_slice.
    rewrite (Permutation_length (sort_perm d (slice l lo n))).
    apply perm_trans with (firstn lo l ++ slice l lo n ++ skipn (lo + length (slice l lo n)) l);
      [|rewrite (slice_put_id l lo n); reflexivity].
    apply Permutation_app_head. apply Permutation_app_tail. apply sort_perm.
  Qed.

  Lemma apply_op_perm l o : Permutation (apply_op A gt sort l o) l.
  Proof. destruct o; simpl; [apply ce_perm|apply lsort_perm]. Qed.

  (* EVERY list of operations keeps the multiset *)
  Lemma run_perm ops l : Permutation (run A gt sort ops l) l.
  Proof.
    revert l; induction ops as [|o ops IH]; intros l; simpl; [reflexivity|].
    eapply perm_trans; [apply IH|apply apply_op_perm].
  Qed.
  Lemma run_length ops l : length (run A gt sort ops l) = length l.
  Proof. apply Permutation_length, run_perm. Qed.

  (* cutting a list of the right length by the count vector *)
  Lemma split_counts_concat counts l :
    length l = fold_right Nat.add 0 counts -> concat (split_counts A counts l) = l.
  Proof.
    revert l; induction counts as [|c t IH]; intros l H; simpl in *.
    - destruct l; [reflexivity|discriminate].
    - rewrite IH; [apply firstn_skipn|]. rewrite skipn_length. lia.
  Qed.
  Lemma split_counts_lengths counts l :
    length l = fold_right Nat.add 0 counts -> map (@length A) (split_counts A counts l) = counts.
  Proof.
    revert l; induction counts as [|c t IH]; intros l H; simpl in *; [reflexivity|].
    rewrite firstn_length, IH; [f_equal; lia|]. rewrite skipn_length. lia.
  Qed.
  Lemma concat_length_sum (xs : list (list A)) : length (concat xs) = fold_right Nat.add 0 (map (@length A) xs).
  Proof. induction xs; simpl; [reflexivity|]. rewrite app_length. lia. Qed.

  (* the sequential reference of sc_psort: permutation of the concatenated input, declared counts kept *)
  Theorem psort_permutation counts xs :
    map (@length A) xs = counts ->
    Permutation (concat (psort A gt sort counts xs)) (concat xs) /\
    map (@length A) (psort A gt sort counts xs) = counts.
  Proof.
    intros H. unfold psort.
    assert (L : length (run A gt sort (psort_ops counts) (concat xs)) = fold_right Nat.add 0 counts).
    { rewrite run_length, concat_length_sum, H. reflexivity. }
    split.
    - rewrite split_counts_concat by exact L. apply run_perm.
    - apply split_counts_lengths. exact L.
  Qed.

  (* the same for an arbitrary network, e.g. the operations any single rank executes *)
  Theorem any_network_permutation ops counts xs :
    map (@length A) xs = counts ->
    Permutation (concat (split_counts A counts (run A gt sort ops (concat xs)))) (concat xs) /\
    map (@length A) (split_counts A counts (run A gt sort ops (concat xs))) = counts.
  Proof.
    intros H.
    assert (L : length (run A gt sort ops (concat xs)) = fold_right Nat.add 0 counts).
    { rewrite run_length, concat_length_sum, H. reflexivity. }
    split; [rewrite split_counts_concat by exact L; apply run_perm|apply split_counts_lengths; exact L].
  Qed.
End Perm.
