(* C05 - model of sc_psort (src/sc_sort.c): bitonic sort/merge for arbitrary n over a global index space that is
   cut into per-rank pieces by cumulative offsets.

   Three layers, all executable:
   1. the COMPARATOR NETWORK: `psort_ops off` lists, in program order, the operations the recursion
      sc_psort_bitonic / sc_merge_bitonic performs on the global array: compare-exchange (i, j, dir) and the
      local qsort of a range that lies inside one rank (`LSort`).  `run` executes it sequentially.
   2. the DISTRIBUTED execution: owner search (sc_bsearch_cumulative), the segment loop of sc_merge_bitonic,
      the peer records, the lower/upper halves computed by the two sides of an exchange, the Waitsome loops with
      the received/sent flags; `dist_psort` runs all ranks in rounds (receive buffer = the peer's segment as it was
      before the round).
   3. the PER-RANK PROGRAM `psort_prog` in the free-monad form of MPI/Prog.v, co-simulated against the traces
      of the real code on the simulated MPI.
   Indices, counts and ranks are list positions, hence `nat`.  Elements are an arbitrary type with
   `gt a b = (compar (a, b) > 0)`. *)
From Coq Require Import Arith List Bool PeanoNat.
Import ListNotations.

(* ---- global index space ---------------------------------------------------------------------- *)
(* gmemb of sc_psort: P + 1 cumulative offsets *)
Fixpoint cumul (acc : nat) (counts : list nat) : list nat :=
  acc :: match counts with [] => [] | c :: t => cumul (acc + c) t end.
Definition cum (off : list nat) (r : nat) : nat := nth r off 0.

(* sc_bsearch_cumulative: the loop, on explicit fuel.  `guess - 1` is a size_t subtraction in C; the proofs show
   that guess > 0 in that branch, so that the truncated subtraction of nat never differs from C. *)
Fixpoint owner_search (fuel : nat) (c : nat -> nat) (low high guess pos : nat) : nat :=
  match fuel with
  | O => guess
  | S f =>
    if pos <? c guess then
      let high' := guess - 1 in owner_search f c low high' ((low + high' + 1) / 2) pos
    else if c (S guess) <=? pos then
      let low' := guess + 1 in owner_search f c low' high ((low' + high) / 2) pos
    else guess
  end.
Definition bsearch_cumulative (c : nat -> nat) (nmemb pos guess : nat) : nat :=
  owner_search nmemb c 0 (nmemb - 1) guess pos.

(* ---- the comparator network ------------------------------------------------------------------ *)
Inductive op :=
| CE (i j : nat) (dir : bool)          (* compare positions i < j; dir = true: ascending *)
| LSort (lo n : nat) (dir : bool).     (* qsort of [lo, lo+n) with compar (dir) or the inverted comparison *)

(* `for (k = 1; k < n;) k = k << 1;  n2 = k >> 1` *)
Fixpoint pow2_ge (fuel k n : nat) : nat :=
  match fuel with O => k | S f => if k <? n then pow2_ge f (2 * k) n else k end.
Definition n2_of (n : nat) : nat := pow2_ge n 1 n / 2.

Definition halfclean_ops (lo n2 r : nat) (dir : bool) : list op :=
  map (fun i => CE (lo + i) (lo + n2 + i) dir) (seq 0 r).

Fixpoint merge_ops (fuel lo n : nat) (dir : bool) : list op :=
  match fuel with
  | O => []
  | S f =>
    if 1 <? n then
      let n2 := n2_of n in
      halfclean_ops lo n2 (n - n2) dir ++ merge_ops f lo n2 dir ++ merge_ops f (lo + n2) (n - n2) dir
    else []
  end.

Definition inside_rank (off : list nat) (lo n r : nat) : bool := (cum off r <=? lo) && (lo + n <=? cum off (S r)).
Definition inside_one_rank (off : list nat) (lo n : nat) : bool :=
  existsb (inside_rank off lo n) (seq 0 (length off - 1)).

Fixpoint sort_ops (fuel : nat) (off : list nat) (lo n : nat) (dir : bool) : list op :=
  match fuel with
  | O => []
  | S f =>
    if 1 <? n then
      if inside_one_rank off lo n then [LSort lo n dir]
      else sort_ops f off lo (n / 2) (negb dir) ++ sort_ops f off (lo + n / 2) (n - n / 2) dir
           ++ merge_ops n lo n dir
    else []
  end.

Definition psort_ops (counts : list nat) : list op :=
  let off := cumul 0 counts in
  let total := cum off (length counts) in
  sort_ops total off 0 total true.

(* ---- segments of one merge step (loops 1 and 2 of sc_merge_bitonic share this iteration) -------- *)
Record seg := mkseg { s_off : nat; s_len : nat; s_lo_owner : nat; s_hi_owner : nat }.

Fixpoint segs_loop (fuel : nat) (c : nat -> nat) (P lo hi_beg r : nat) (offset lo_owner hi_owner : nat) : list seg :=
  match fuel with
  | O => []
  | S f =>
    if offset <? r then
      let lo_owner' := bsearch_cumulative c P (lo + offset) lo_owner in
      let lo_length := c (S lo_owner') - (lo + offset) in
      let hi_owner' := bsearch_cumulative c P (hi_beg + offset) hi_owner in
      let hi_length := c (S hi_owner') - (hi_beg + offset) in
      let max_length := Nat.min (r - offset) (Nat.min lo_length hi_length) in
      mkseg offset max_length lo_owner' hi_owner'
      :: segs_loop f c P lo hi_beg r (offset + max_length) lo_owner' hi_owner'
    else []
  end.
(* as called by rank `me` (initial guesses lo_owner = hi_owner = rank) *)
Definition segments (off : list nat) (me lo n2 r : nat) : list seg :=
  segs_loop r (cum off) (length off - 1) lo (lo + n2) r 0 me me.

(* ---- sequential semantics and the code of one rank, over an arbitrary element type ------------ *)
Section Elem.
  Variable A : Type.
  Variable gt : A -> A -> bool.                 (* compar (a, b) > 0 *)
  Variable sort : bool -> list A -> list A.     (* qsort (dir = true) / qsort with the inverted comparison *)

  (* `if (dir == (pst->compar (lo_data, hi_data) > 0))` *)
  Definition swap_needed (dir : bool) (a b : A) : bool := Bool.eqb dir (gt a b).

  Fixpoint set_nth (l : list A) (i : nat) (x : A) : list A :=
    match l, i with
    | [], _ => []
    | _ :: t, O => x :: t
    | h :: t, S k => h :: set_nth t k x
    end.

  Definition ce (dir : bool) (i j : nat) (l : list A) : list A :=
    match nth_error l i, nth_error l j with
    | Some a, Some b => if swap_needed dir a b then set_nth (set_nth l i b) j a else l
    | _, _ => l
    end.

  Definition slice (l : list A) (start len : nat) : list A := firstn len (skipn start l).
  Definition put_slice (l : list A) (start : nat) (s : list A) : list A :=
    firstn start l ++ s ++ skipn (start + length s) l.

  Definition lsort (dir : bool) (lo n : nat) (l : list A) : list A := put_slice l lo (sort dir (slice l lo n)).

  Definition apply_op (l : list A) (o : op) : list A :=
    match o with CE i j d => ce d i j l | LSort lo n d => lsort d lo n l end.
  Definition run (ops : list op) (l : list A) : list A := fold_left apply_op ops l.

  Fixpoint split_counts (counts : list nat) (l : list A) : list (list A) :=
    match counts with [] => [] | c :: t => firstn c l :: split_counts t (skipn c l) end.

  (* the sequential reference: what sc_psort computes, as a function of the count vector and the local arrays *)
  Definition psort (counts : list nat) (xs : list (list A)) : list (list A) :=
    split_counts counts (run (psort_ops counts) (concat xs)).

  (* -- the two sides of a remote exchange: `rank < peer->prank` keeps the lower half, the other the upper -- *)
  Fixpoint half_lo (dir : bool) (lo hi : list A) : list A :=
    match lo, hi with
    | a :: lt, b :: ht => (if swap_needed dir a b then b else a) :: half_lo dir lt ht
    | _, _ => []
    end.
  Fixpoint half_hi (dir : bool) (lo hi : list A) : list A :=
    match lo, hi with
    | a :: lt, b :: ht => (if swap_needed dir a b then a else b) :: half_hi dir lt ht
    | _, _ => []
    end.

  (* peer record of sc_merge_bitonic; positions are indices into the local array *)
  Record peer := mkpeer { p_rank : nat; p_len : nat; p_start : nat; p_buf : list A }.

  (* what loop 1 decides for one segment: None = nothing to post *)
  Record pspec := mkpspec { ps_rank : nat; ps_len : nat; ps_start : nat; ps_lo_side : bool; ps_remote : nat }.
    (* ps_remote: global position of the partner's segment (ghost: used by the round semantics only) *)
  Definition seg_pspec (me my_lo lo hi_beg : nat) (s : seg) : list pspec :=
    if (s_lo_owner s =? me) && negb (s_hi_owner s =? me)
    then [mkpspec (s_hi_owner s) (s_len s) (lo + s_off s - my_lo) true (hi_beg + s_off s)]
    else if negb (s_lo_owner s =? me) && (s_hi_owner s =? me)
    then [mkpspec (s_lo_owner s) (s_len s) (hi_beg + s_off s - my_lo) false (lo + s_off s)]
    else [].
  Definition rank_pspecs (me my_lo lo hi_beg : nat) (segs : list seg) : list pspec :=
    flat_map (seg_pspec me my_lo lo hi_beg) segs.

  (* loop 2: segments with both ends on this rank *)
  Fixpoint local_ce (dir : bool) (i j len : nat) (l : list A) : list A :=
    match len with O => l | S k => local_ce dir (S i) (S j) k (ce dir i j l) end.
  Definition rank_local (dir : bool) (me my_lo lo hi_beg : nat) (segs : list seg) (l : list A) : list A :=
    fold_left (fun l s =>
      if (s_lo_owner s =? me) && (s_hi_owner s =? me)
      then local_ce dir (lo + s_off s - my_lo) (hi_beg + s_off s - my_lo) (s_len s) l else l) segs l.

  (* "comparisons with remote peer" (the same code appears in both Waitsome branches) *)
  Definition apply_peer (dir : bool) (me : nat) (l : list A) (p : peer) : list A :=
    let mine := slice l (p_start p) (p_len p) in
    if me <? p_rank p then put_slice l (p_start p) (half_lo dir mine (p_buf p))
    else put_slice l (p_start p) (half_hi dir (p_buf p) mine).

  (* -- loop 3: the two Waitsome loops over the peer records ----------------------------------------
     State: local array, per peer the flags of the C record plus ghost counters: how often the compare-exchange
     was applied, how often the buffer was freed, whether the send had completed when it was applied. *)
  Record pflag := mkpflag { f_received : bool; f_sent : bool; f_applied : nat; f_freed : nat;
                            f_send_done : bool; f_early : bool }.
  Definition pflag0 := mkpflag false false 0 0 false false.
  Definition upd_nth {B : Type} (l : list B) (i : nat) (f : B -> B) : list B :=
    match nth_error l i with Some x => firstn i l ++ f x :: skipn (S i) l | None => l end.

  Definition do_apply (f : pflag) : pflag :=
    mkpflag (f_received f) (f_sent f) (S (f_applied f)) (S (f_freed f)) (f_send_done f)
            (f_early f || negb (f_send_done f)).
  (* one index returned by Waitsome on the receive requests *)
  Definition on_recv (dir : bool) (me : nat) (peers : list peer) (st : list A * list pflag) (k : nat) :=
    let '(l, fl) := st in
    match nth_error peers k, nth_error fl k with
    | Some p, Some f =>
      let l' := if f_sent f then apply_peer dir me l p else l in
      let f1 := if f_sent f then do_apply f else f in
      (l', upd_nth fl k (fun _ => mkpflag true (f_sent f1) (f_applied f1) (f_freed f1) (f_send_done f1) (f_early f1)))
    | _, _ => st
    end.
  (* one index returned by Waitsome on the send requests *)
  Definition on_send (dir : bool) (me : nat) (peers : list peer) (st : list A * list pflag) (k : nat) :=
    let '(l, fl) := st in
    match nth_error peers k, nth_error fl k with
    | Some p, Some f =>
      let f0 := mkpflag (f_received f) (f_sent f) (f_applied f) (f_freed f) true (f_early f) in
      let l' := if f_received f then apply_peer dir me l p else l in
      let f1 := if f_received f then do_apply f0 else f0 in
      (l', upd_nth fl k (fun _ => mkpflag (f_received f1) true (f_applied f1) (f_freed f1) (f_send_done f1) (f_early f1)))
    | _, _ => st
    end.
  (* `for (remaining = num_peers, remaining2 = num_peers; remaining > 0 || remaining2 > 0;
          remaining -= outcount, remaining2 -= outcount2)`.
     ransw / sansw: the index sets the successive Waitsome calls on the receive / send requests return.
     Result None: the loop asked for an answer that the streams do not contain (or fuel ran out). *)
  Fixpoint wait_loop (fuel : nat) (dir : bool) (me : nat) (peers : list peer) (ransw sansw : list (list nat))
           (remaining remaining2 : nat) (st : list A * list pflag) (log : list bool)
    : option (list A * list pflag * nat * list bool) :=
    match fuel with
    | O => None
    | S f =>
      if (0 <? remaining) || (0 <? remaining2) then
        let r1 := if 0 <? remaining then
                    match ransw with
                    | a :: t => Some (length a, t, fold_left (on_recv dir me peers) a st, true :: log)
                    | [] => None
                    end
                  else Some (0, ransw, st, log) in
        match r1 with
        | None => None
        | Some (oc, ransw', st1, log1) =>
          let r2 := if 0 <? remaining2 then
                      match sansw with
                      | a :: t => Some (length a, t, fold_left (on_send dir me peers) a st1, false :: log1)
                      | [] => None
                      end
                    else Some (0, sansw, st1, log1) in
          match r2 with
          | None => None
          | Some (oc2, sansw', st2, log2) =>
            wait_loop f dir me peers ransw' sansw' (remaining - oc) (remaining2 - oc2) st2 log2
          end
        end
      else Some (st, length ransw + length sansw, rev log)
           (* second component: unused answers (must be 0); third: the Waitsome calls made, true = on the
              receive requests, false = on the send requests *)
    end.

  (* -- one merge step of one rank; `recvbuf` is what the receive posted for a peer record delivers -- *)
  Definition rank_merge_step (dir : bool) (off : list nat) (me lo n : nat) (recvbuf : pspec -> list A)
             (l : list A) : list A :=
    let my_lo := cum off me in
    let n2 := n2_of n in
    let segs := segments off me lo n2 (n - n2) in
    let peers := map (fun s => mkpeer (ps_rank s) (ps_len s) (ps_start s) (recvbuf s))
                     (rank_pspecs me my_lo lo (lo + n2) segs) in
    fold_left (apply_peer dir me) peers (rank_local dir me my_lo lo (lo + n2) segs l).

  Definition participates (off : list nat) (me lo n : nat) : bool :=
    (1 <? n) && (lo <? cum off (S me)) && (cum off me <? lo + n).

  (* -- round semantics of the distributed algorithm: global state = concatenation of the local arrays;
        in a merge step every participating rank computes its new local array from its old one and from the
        partners' segments of the OLD global state (they are sent before anything is overwritten) -- *)
  Definition local_of (off : list nat) (me : nat) (g : list A) : list A :=
    slice g (cum off me) (cum off (S me) - cum off me).
  Definition dist_merge_step (dir : bool) (off : list nat) (lo n : nat) (g : list A) : list A :=
    concat (map (fun me =>
      let l := local_of off me g in
      if participates off me lo n
      then rank_merge_step dir off me lo n (fun s => slice g (ps_remote s) (ps_len s)) l
      else l) (seq 0 (length off - 1))).
  Fixpoint dist_merge (fuel : nat) (dir : bool) (off : list nat) (lo n : nat) (g : list A) : list A :=
    match fuel with
    | O => g
    | S f =>
      if 1 <? n then
        let n2 := n2_of n in
        dist_merge f dir off (lo + n2) (n - n2) (dist_merge f dir off lo n2 (dist_merge_step dir off lo n g))
      else g
    end.
  Definition dist_leaf (dir : bool) (off : list nat) (lo n : nat) (g : list A) : list A :=
    concat (map (fun me =>
      let l := local_of off me g in
      if participates off me lo n && inside_rank off lo n me
      then lsort dir (lo - cum off me) n l else l) (seq 0 (length off - 1))).
  Fixpoint dist_sort (fuel : nat) (off : list nat) (lo n : nat) (dir : bool) (g : list A) : list A :=
    match fuel with
    | O => g
    | S f =>
      if 1 <? n then
        if inside_one_rank off lo n then dist_leaf dir off lo n g
        else dist_merge n dir off lo n
               (dist_sort f off (lo + n / 2) (n - n / 2) dir (dist_sort f off lo (n / 2) (negb dir) g))
      else g
    end.
  Definition dist_psort (counts : list nat) (xs : list (list A)) : list (list A) :=
    let off := cumul 0 counts in
    let total := cum off (length counts) in
    split_counts counts (dist_sort total off 0 total true (concat xs)).
End Elem.

Arguments mkpeer {A}.
Arguments p_rank {A}.  Arguments p_len {A}.  Arguments p_start {A}.  Arguments p_buf {A}.

(* ---- per-rank program over integer keys (co-simulated against the real code) ------------------- *)
From Coq Require Import ZArith.
From ScV Require Import MPI.Prog.

(* insertion sort on integers: ascending for dir = true, descending otherwise *)
Fixpoint zinsert (dir : bool) (x : Z) (l : list Z) : list Z :=
  match l with
  | [] => [x]
  | y :: t => if (if dir then Z.leb x y else Z.leb y x) then x :: l else y :: zinsert dir x t
  end.
Fixpoint zsort (dir : bool) (l : list Z) : list Z :=
  match l with [] => [] | x :: t => zinsert dir x (zsort dir t) end.

Section RankProg.
  Variable tag_lo tag_hi : Z.               (* SC_TAG_PSORT_LO / SC_TAG_PSORT_HI (generated constants) *)
  Variable off : list nat.
  Variable me : nat.
  Let my_lo := cum off me.
  Let my_hi := cum off (S me).

  (* loop 1: per peer record `Irecv` then `Isend` of the local segment *)
  Fixpoint post_prog (specs : list pspec) (l : list Z) (acc : list (peer Z)) (k : list (peer Z) -> prog) : prog :=
    match specs with
    | [] => k (rev acc)
    | s :: t =>
      recv (Z.of_nat (ps_rank s)) (if ps_lo_side s then tag_hi else tag_lo) (fun m =>
      send (Z.of_nat (ps_rank s)) (if ps_lo_side s then tag_lo else tag_hi) (slice Z l (ps_start s) (ps_len s))
        (post_prog t l (mkpeer (ps_rank s) (ps_len s) (ps_start s) m :: acc) k))
    end.

  Fixpoint merge_prog (fuel lo n : nat) (dir : bool) (l : list Z) (k : list Z -> prog) : prog :=
    match fuel with
    | O => k l
    | S f =>
      if participates off me lo n then
        let n2 := n2_of n in
        let segs := segments off me lo n2 (n - n2) in
        post_prog (rank_pspecs me my_lo lo (lo + n2) segs) l [] (fun peers =>
          let l1 := rank_local Z Z.gtb dir me my_lo lo (lo + n2) segs l in
          let l2 := fold_left (apply_peer Z Z.gtb dir me) peers l1 in
          merge_prog f lo n2 dir l2 (fun l3 => merge_prog f (lo + n2) (n - n2) dir l3 k))
      else k l
    end.

  Fixpoint sort_prog (fuel lo n : nat) (dir : bool) (l : list Z) (k : list Z -> prog) : prog :=
    match fuel with
    | O => k l
    | S f =>
      if participates off me lo n then
        if (my_lo <=? lo) && (lo + n <=? my_hi) then k (lsort Z zsort dir (lo - my_lo) n l)
        else sort_prog f lo (n / 2) (negb dir) l (fun l1 =>
             sort_prog f (lo + n / 2) (n - n / 2) dir l1 (fun l2 =>
             merge_prog n lo n dir l2 k))
      else k l
    end.
End RankProg.

Definition psort_prog (tag_lo tag_hi : Z) (counts : list nat) (me : nat) (mine : list Z) : prog :=
  let off := cumul 0 counts in
  let total := cum off (length counts) in
  sort_prog tag_lo tag_hi off me total 0 total true mine (fun l => Ret l).

(* sequential network on integer keys, for the output correspondence *)
Definition psort_seq (counts : list nat) (g : list Z) : list Z := run Z Z.gtb zsort (psort_ops counts) g.
(* the Waitsome loops with given answer streams (co-simulated against the traced Waitsome calls): the result
   carries the order of the calls on the two request arrays and the final flags of every peer record *)
Definition wait_loop_z (m : nat) (ransw sansw : list (list nat)) :=
  wait_loop Z Z.gtb (2 * m + 1) true 0 (repeat (mkpeer 1 0 0 []) m) ransw sansw m m ([], repeat pflag0 m) [].
