(* Posting order versus window order of per-rank programs, for the posted-receive semantics MPI/SemPosted.v.
   `nbeq p q`: q is obtained from p by moving sends in front of receives that were posted earlier and whose replies
   they do not use (congruence closure of that one swap).  nbeq is a SIMULATION for step_p: whatever q can do, p can do,
   and the results are related again; only `Ret x` is related to `Ret x`.  Hence a terminating schedule of a system of
   window-ordered programs is replayed step by step by the system of posting-ordered programs, the final states are
   equal, and confluence of step_p makes it the result of every schedule (`posting_order_same_result`).
   (The same definitions and lemmas as in C03/ReduceSched.v and C03/ReducePosted.v, where they were first used for
   sc_allreduce; repeated here so that the C05 development does not depend on the C03 files and their generated
   inputs.)  No axiom beyond the functional extensionality used by MPI/Sem.v. *)
From Coq Require Import ZArith Lia List Bool.
From ScV Require Import MPI.Prog MPI.Sem MPI.SemFrame MPI.SemPosted.
Import ListNotations.
Local Open Scope Z_scope.

Inductive nbeq : prog -> prog -> Prop :=
| nb_refl p : nbeq p p
| nb_trans p q r : nbeq p q -> nbeq q r -> nbeq p r
| nb_cong a k k' : (forall v, nbeq (k v) (k' v)) -> nbeq (Do a k) (Do a k')
| nb_swap src t d t' msg k :       (* a send posted after a receive whose reply it does not use moves in front of it *)
    nbeq (Do (Recv src t) (fun v => Do (Send d t' msg) (fun u => k v u)))
         (Do (Send d t' msg) (fun u => Do (Recv src t) (fun v => k v u))).

Lemma nbeq_send d t msg k k' : nbeq k k' -> nbeq (send d t msg k) (send d t msg k').
Proof. intros H. unfold send. apply nb_cong. intros _. exact H. Qed.
Lemma nbeq_recv s t k k' : (forall v, nbeq (k v) (k' v)) -> nbeq (recv s t k) (recv s t k').
Proof. intros H. unfold recv. apply nb_cong. intros v. apply H. Qed.
Lemma nbeq_do_sends S k k' : nbeq k k' -> nbeq (do_sends S k) (do_sends S k').
Proof. induction S as [|[[d t] msg] S IH]; intros H; cbn [do_sends]; [exact H|]. apply nbeq_send. apply IH. exact H. Qed.

(* a receive followed by sends that do not use its reply: the sends move in front *)
Lemma hoist_sends p t S K : nbeq (recv p t (fun v => do_sends S (K v))) (do_sends S (recv p t K)).
Proof.
  induction S as [|[[d t'] msg] S IH]; cbn [do_sends]; [apply nb_refl|].
  eapply nb_trans; [|apply nbeq_send; exact IH].
  unfold recv, send. exact (nb_swap p t d t' msg (fun v _ => do_sends S (K (tl v)))).
Qed.

(* ---- nbeq is a simulation for the posted semantics ---------------------------------------------------------- *)
Lemma nbeq_ret p q : nbeq p q -> forall x, q = Ret x -> p = Ret x.
Proof.
  induction 1 as [p|p q r _ IH1 _ IH2|a k k' _ _|src t d t' msg k]; intros x E.
  - exact E.
  - apply IH1. apply IH2. exact E.
  - discriminate.
  - discriminate.
Qed.

Lemma nbeq_canS p q : nbeq p q -> forall d t m, canS q d t m -> canS p d t m /\ nbeq (strip_send p) (strip_send q).
Proof.
  induction 1 as [p|p q r _ IH1 _ IH2|a k k' H IH|src t0 d0 t' msg k]; intros d t m C.
  - split; [exact C|apply nb_refl].
  - destruct (IH2 d t m C) as [Cq Nq]. destruct (IH1 d t m Cq) as [Cp Np].
    split; [exact Cp|]. eapply nb_trans; eassumption.
  - destruct a as [d0 t0 m0|s0 t0|c r0 x]; [| |inversion C].
    + destruct (canS_inv_send _ _ _ _ _ _ _ C) as [-> [-> ->]]. split; [apply canS_here|]. cbn [strip_send]. apply H.
    + pose proof (canS_inv_recv _ _ _ _ _ _ C) as Ck. split.
      * apply canS_skip. intros v. apply (IH v d t m). apply Ck.
      * cbn [strip_send]. apply nb_cong. intros v. apply (IH v d t m). apply Ck.
  - destruct (canS_inv_send _ _ _ _ _ _ _ C) as [-> [-> ->]]. split.
    + apply canS_skip. intros v. apply canS_here.
    + cbn [strip_send]. apply nb_refl.
Qed.

Lemma nbeq_canR p q : nbeq p q -> forall src tg, canR q src tg ->
  canR p src tg /\ forall v, nbeq (strip_recv src tg v p) (strip_recv src tg v q).
Proof.
  induction 1 as [p|p q r _ IH1 _ IH2|a k k' H IH|src0 t0 d0 t' msg k]; intros src tg C.
  - split; [exact C|intros v; apply nb_refl].
  - destruct (IH2 src tg C) as [Cq Nq]. destruct (IH1 src tg Cq) as [Cp Np].
    split; [exact Cp|]. intros v. eapply nb_trans; [apply Np|apply Nq].
  - destruct a as [d0 t0 m0|s0 t0|c r0 x]; [inversion C| |inversion C].
    destruct (canR_inv _ _ _ _ _ C) as [E|[N0 [E Ck]]].
    + assert (s0 = src /\ t0 = tg) as [-> ->] by (unfold keq in E; lia). split; [apply canR_here|].
      intros v. cbn [strip_recv]. rewrite E. apply H.
    + split.
      * apply canR_skip; [exact N0|exact E|]. intros v. apply (IH v src tg). apply Ck.
      * intros v. cbn [strip_recv]. rewrite E. apply nb_cong. intros u. apply (IH u src tg). apply Ck.
  - inversion C.
Qed.

(* two global states: programs related rank by rank, the same channels *)
Definition nbrel (s s' : gs) : Prop :=
  (forall r, nbeq (pr s r) (pr s' r)) /\ (forall a b t, ch s a b t = ch s' a b t).

Lemma nbrel_step s s' r s1' : nbrel s s' -> step_p s' r s1' -> exists s1, step_p s r s1 /\ nbrel s1 s1'.
Proof.
  intros [Hp Hc] Hs. inversion Hs as [? ? d t m C|? ? src t m q S0 C Q]; subst.
  - destruct (nbeq_canS _ _ (Hp r) d t m C) as [C' N'].
    exists (mkgs (updp (pr s) r (strip_send (pr s r))) (updc (ch s) r d t (ch s r d t ++ [m]))).
    split; [apply sp_send; exact C'|]. split; cbn [pr ch].
    + intros x. unfold updp. destruct (x =? r); [exact N'|apply Hp].
    + intros a b t0. unfold updc. rewrite !Hc. reflexivity.
  - destruct (nbeq_canR _ _ (Hp r) src t C) as [C' N'].
    exists (mkgs (updp (pr s) r (strip_recv src t (src :: m) (pr s r))) (updc (ch s) src r t q)).
    split; [apply sp_recv; [exact S0|exact C'|rewrite Hc; exact Q]|]. split; cbn [pr ch].
    + intros x. unfold updp. destruct (x =? r); [apply N'|apply Hp].
    + intros a b t0. unfold updc. rewrite !Hc. reflexivity.
Qed.

Lemma nbrel_run n : forall s s' f', nbrel s s' -> run_p n s' f' -> exists f, run_p n s f /\ nbrel f f'.
Proof.
  induction n as [|n IH]; intros s s' f' HR Hrun.
  - inversion Hrun; subst. exists s. split; [apply runp_nil|exact HR].
  - inversion Hrun as [|? ? r s1' ? Hs Hrest]; subst.
    destruct (nbrel_step s s' r s1' HR Hs) as [s1 [Hs1 HR1]].
    destruct (IH s1 s1' f' HR1 Hrest) as [f [Hf HRf]].
    exists f. split; [econstructor; eassumption|exact HRf].
Qed.

Lemma nbrel_final f f' : nbrel f f' -> final f' -> f = f'.
Proof.
  intros [Hp Hc] Hfin. apply gs_eq; [|exact Hc].
  intros r. destruct (Hfin r) as [o Ho]. rewrite Ho. exact (nbeq_ret _ _ (Hp r) o Ho).
Qed.

(* GENERAL: a system whose programs are the programs of a second system with sends moved behind receives posted
   earlier (nbeq) has, in the posted semantics, every terminating schedule of the second system - and therefore
   all its schedules end in the second system's final state *)
Theorem posting_order_same_result s s' n f : nbrel s s' -> run_p n s' f -> final f ->
  run_p n s f /\ terminal_for_p s f n.
Proof.
  intros HR Hrun Hfin. destruct (nbrel_run n s s' f HR Hrun) as [f0 [Hrun0 HR0]].
  rewrite (nbrel_final f0 f HR0 Hfin) in Hrun0. split; [exact Hrun0|].
  apply one_schedule_all_schedules_p; assumption.
Qed.
