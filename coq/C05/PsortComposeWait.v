(* C05, composition, part 2: the distributed execution with the Waitsome loops of sc_merge_bitonic driven by arbitrary
   legal answer streams computes the arrays of the sequential network. *)
From Coq Require Import Arith List Bool PeanoNat Lia Permutation Sorted.
From ScV Require Import C05.PsortModel C05.ListAux C05.PsortPerm C05.PsortDist C05.PsortOwner C05.PsortWait.
From ScV Require Import C05.PsortZeroOne C05.PsortBitonic C05.PsortSorted C05.PsortCompose.
Import ListNotations.

(* ---- the distributed execution, loop 3 executed by `wait_loop` ------------------------------------------------------
   W path me m: the answers of the successive MPI_Waitsome calls (on the receive requests, on the send requests) that
   rank `me` gets in the call of sc_merge_bitonic identified by `path` (the position of the call in the recursion tree
   of sc_psort_bitonic / sc_merge_bitonic: 0 / 1 = first / second recursive call, 2 = the merge of a sort node), m =
   the number of peer records.  Different calls have different paths, so every combination of completion orders in
   all calls on all ranks is some W. *)
Definition answers := (list (list nat) * list (list nat))%type.

Fixpoint sequence {B} (l : list (option B)) : option (list B) :=
  match l with
  | [] => Some []
  | None :: _ => None
  | Some x :: t => match sequence t with Some r => Some (x :: r) | None => None end
  end.
Definition obind {B C} (x : option B) (f : B -> option C) : option C := match x with Some v => f v | None => None end.

Section DistW.
  Variable A : Type.
  Variable gt : A -> A -> bool.
  Variable sort : bool -> list A -> list A.
  Variable W : list nat -> nat -> nat -> answers.

  Definition rank_merge_step_w (path : list nat) (dir : bool) (off : list nat) (me lo n : nat)
             (recvbuf : pspec -> list A) (l : list A) : option (list A) :=
    let my_lo := cum off me in
    let n2 := n2_of n in
    let segs := segments off me lo n2 (n - n2) in
    let peers := map (fun s => mkpeer (ps_rank s) (ps_len s) (ps_start s) (recvbuf s))
                     (rank_pspecs me my_lo lo (lo + n2) segs) in
    let m := length peers in
    match wait_loop A gt (2 * m + 1) dir me peers (fst (W path me m)) (snd (W path me m)) m m
                    (rank_local A gt dir me my_lo lo (lo + n2) segs l, repeat pflag0 m) [] with
    | Some (l', _, O, _) => Some l'
    | _ => None
    end.

  Definition dist_merge_step_w (path : list nat) (dir : bool) (off : list nat) (lo n : nat) (g : list A)
    : option (list A) :=
    option_map (@concat A) (sequence (map (fun me =>
      let l := local_of A off me g in
      if participates off me lo n
      then rank_merge_step_w path dir off me lo n (fun s => slice A g (ps_remote s) (ps_len s)) l
      else Some l) (seq 0 (length off - 1)))).

  Fixpoint dist_merge_w (fuel : nat) (path : list nat) (dir : bool) (off : list nat) (lo n : nat) (g : list A)
    : option (list A) :=
    match fuel with
    | O => Some g
    | S f =>
      if 1 <? n then
        let n2 := n2_of n in
        obind (dist_merge_step_w path dir off lo n g) (fun g1 =>
        obind (dist_merge_w f (0 :: path) dir off lo n2 g1) (fun g2 =>
        dist_merge_w f (1 :: path) dir off (lo + n2) (n - n2) g2))
      else Some g
    end.

  Fixpoint dist_sort_w (fuel : nat) (path : list nat) (off : list nat) (lo n : nat) (dir : bool) (g : list A)
    : option (list A) :=
    match fuel with
    | O => Some g
    | S f =>
      if 1 <? n then
        if inside_one_rank off lo n then Some (dist_leaf A sort dir off lo n g)
        else obind (dist_sort_w f (0 :: path) off lo (n / 2) (negb dir) g) (fun g1 =>
             obind (dist_sort_w f (1 :: path) off (lo + n / 2) (n - n / 2) dir g1) (fun g2 =>
             dist_merge_w n (2 :: path) dir off lo n g2))
      else Some g
    end.

  Definition dist_psort_w (counts : list nat) (xs : list (list A)) : option (list (list A)) :=
    let off := cumul 0 counts in
    let total := cum off (length counts) in
    option_map (split_counts A counts) (dist_sort_w total [] off 0 total true (concat xs)).
End DistW.

(* what MPI_Waitsome may answer over one loop with m requests *)
Definition legal_stream (m : nat) (answ : list (list nat)) : Prop :=
  (forall a, In a answ -> a <> []) /\ Permutation (concat answ) (seq 0 m).
Definition legal_oracle (W : list nat -> nat -> nat -> answers) : Prop :=
  forall path me m, legal_stream m (fst (W path me m)) /\ legal_stream m (snd (W path me m)).

(* ---- lists ---------------------------------------------------------------------------------------------------------- *)
Lemma sequence_map_some {B C} (f : B -> option C) (h : B -> C) l :
  (forall x, In x l -> f x = Some (h x)) -> sequence (map f l) = Some (map h l).
Proof.
  induction l as [|a t IH]; intros H; [reflexivity|].
  cbn [map sequence]. rewrite (H a (or_introl eq_refl)), IH; [reflexivity|]. intros x Hx. apply H. right. exact Hx.
Qed.

Lemma FOP_app {B} (R : B -> B -> Prop) l1 l2 :
  ForallOrdPairs R l1 -> ForallOrdPairs R l2 -> (forall x y, In x l1 -> In y l2 -> R x y) ->
  ForallOrdPairs R (l1 ++ l2).
Proof.
  intros H1 H2 H. induction H1 as [|a l Ha Hl IH]; [exact H2|].
  cbn [app]. constructor.
  - apply Forall_app. split; [exact Ha|]. apply Forall_forall. intros y Hy. apply H; [left; reflexivity|exact Hy].
  - apply IH. intros x y Hx Hy. apply H; [right; exact Hx|exact Hy].
Qed.

Lemma FOP_flat_map {B C} (R : B -> B -> Prop) (R' : C -> C -> Prop) (f : B -> list C) l :
  (forall x, ForallOrdPairs R' (f x)) -> (forall x y c d, R x y -> In c (f x) -> In d (f y) -> R' c d) ->
  ForallOrdPairs R l -> ForallOrdPairs R' (flat_map f l).
Proof.
  intros H1 H2. induction 1 as [|a l Ha Hl IH]; [constructor|].
  cbn [flat_map]. apply FOP_app; [apply H1|exact IH|].
  intros c d Hc Hd. apply in_flat_map in Hd. destruct Hd as [y [Hy Hd]].
  rewrite Forall_forall in Ha. exact (H2 a y c d (Ha y Hy) Hc Hd).
Qed.

Lemma FOP_map {B C} (R : C -> C -> Prop) (h : B -> C) l :
  ForallOrdPairs (fun x y => R (h x) (h y)) l -> ForallOrdPairs R (map h l).
Proof.
  induction 1 as [|a l Ha Hl IH]; [constructor|]. cbn [map]. constructor; [|exact IH].
  apply Forall_map. exact Ha.
Qed.

Lemma FOP_nth {B} (R : B -> B -> Prop) l : ForallOrdPairs R l ->
  forall j k p q, j < k -> nth_error l j = Some p -> nth_error l k = Some q -> R p q.
Proof.
  induction 1 as [|a l Ha Hl IH]; intros j k p q Hjk Hj Hk; [destruct j; discriminate|].
  destruct k as [|k]; [lia|]. cbn [nth_error] in Hk. destruct j as [|j].
  - cbn [nth_error] in Hj. injection Hj as <-. rewrite Forall_forall in Ha. apply Ha. eapply nth_error_In. exact Hk.
  - cbn [nth_error] in Hj. apply (IH j k); auto. lia.
Qed.

(* ---- a peer record acts pointwise on its part of the array, whatever the length of the array ----------------------- *)
Section PeerGen.
  Variable A : Type.
  Variable gt : A -> A -> bool.
  Notation apply_peer := (apply_peer A gt).
  Notation slice := (slice A).
  Notation put_slice := (put_slice A).

  Lemma put_slice_nil (l : list A) s : put_slice l s [] = l.
  Proof. unfold PsortModel.put_slice. cbn [app length]. rewrite Nat.add_0_r. apply firstn_skipn. Qed.

  Lemma apply_peer_nth_gen dir me (l : list A) p i : length (p_buf p) = p_len p ->
    nth_error (apply_peer dir me l p) i =
    if (p_start p <=? i) && (i <? p_start p + p_len p) then
      match nth_error l i, nth_error (p_buf p) (i - p_start p) with
      | Some a, Some b => Some (if me <? p_rank p then fst (cex A gt dir a b) else snd (cex A gt dir b a))
      | _, _ => None
      end
    else nth_error l i.
  Proof.
    intros Hb. destruct (Nat.le_gt_cases (p_start p + p_len p) (length l)) as [L|L].
    { apply apply_peer_nth. split; assumption. }
    assert (Hnone : forall k, length l <= k -> nth_error l k = None) by (intros k Hk; apply nth_error_None; exact Hk).
    destruct (Nat.le_gt_cases (p_start p) (length l)) as [S|S].
    - (* the record sticks out of the array: only the part inside is compared *)
      assert (Ls : length (slice l (p_start p) (p_len p)) = length l - p_start p).
      { unfold PsortModel.slice. rewrite firstn_length, skipn_length. lia. }
      unfold PsortModel.apply_peer. destruct (me <? p_rank p).
      + rewrite put_slice_nth by (rewrite half_lo_length, Ls; lia). rewrite half_lo_length, Ls, Hb.
        replace (Nat.min (length l - p_start p) (p_len p)) with (length l - p_start p) by lia.
        replace (p_start p + (length l - p_start p)) with (length l) by lia.
        destruct (Nat.lt_ge_cases i (length l)) as [K|K].
        * destruct (Nat.le_gt_cases (p_start p) i) as [K'|K'].
          -- replace (p_start p <=? i) with true by (symmetry; apply Nat.leb_le; lia).
             replace (i <? length l) with true by (symmetry; apply Nat.ltb_lt; lia).
             replace (i <? p_start p + p_len p) with true by (symmetry; apply Nat.ltb_lt; lia). cbn [andb].
             rewrite half_lo_nth, slice_nth.
             replace (i - p_start p <? p_len p) with true by (symmetry; apply Nat.ltb_lt; lia).
             replace (p_start p + (i - p_start p)) with i by lia. reflexivity.
          -- replace (p_start p <=? i) with false by (symmetry; apply Nat.leb_gt; lia). reflexivity.
        * replace (i <? length l) with false by (symmetry; apply Nat.ltb_ge; lia). rewrite andb_false_r.
          rewrite (Hnone i K). destruct ((p_start p <=? i) && (i <? p_start p + p_len p)); reflexivity.
      + rewrite put_slice_nth by (rewrite half_hi_length, Ls; lia). rewrite half_hi_length, Ls, Hb.
        replace (Nat.min (p_len p) (length l - p_start p)) with (length l - p_start p) by lia.
        replace (p_start p + (length l - p_start p)) with (length l) by lia.
        destruct (Nat.lt_ge_cases i (length l)) as [K|K].
        * destruct (Nat.le_gt_cases (p_start p) i) as [K'|K'].
          -- replace (p_start p <=? i) with true by (symmetry; apply Nat.leb_le; lia).
             replace (i <? length l) with true by (symmetry; apply Nat.ltb_lt; lia).
             replace (i <? p_start p + p_len p) with true by (symmetry; apply Nat.ltb_lt; lia). cbn [andb].
             rewrite half_hi_nth, slice_nth.
             replace (i - p_start p <? p_len p) with true by (symmetry; apply Nat.ltb_lt; lia).
             replace (p_start p + (i - p_start p)) with i by lia.
             destruct (nth_error l i), (nth_error (p_buf p) (i - p_start p)); reflexivity.
          -- replace (p_start p <=? i) with false by (symmetry; apply Nat.leb_gt; lia). reflexivity.
        * replace (i <? length l) with false by (symmetry; apply Nat.ltb_ge; lia). rewrite andb_false_r.
          rewrite (Hnone i K). destruct ((p_start p <=? i) && (i <? p_start p + p_len p)); reflexivity.
    - (* the record lies behind the array: nothing happens *)
      assert (Es : slice l (p_start p) (p_len p) = []).
      { unfold PsortModel.slice. rewrite skipn_all2 by lia. apply firstn_nil. }
      unfold PsortModel.apply_peer. rewrite Es.
      replace (half_lo A gt dir [] (p_buf p)) with (@nil A) by reflexivity.
      replace (half_hi A gt dir (p_buf p) []) with (@nil A) by (destruct (p_buf p); reflexivity).
      destruct (me <? p_rank p); rewrite put_slice_nil.
      + destruct ((p_start p <=? i) && (i <? p_start p + p_len p)) eqn:E; [|reflexivity].
        apply andb_true_iff in E. destruct E as [E _]. apply Nat.leb_le in E. rewrite (Hnone i) by lia. reflexivity.
      + destruct ((p_start p <=? i) && (i <? p_start p + p_len p)) eqn:E; [|reflexivity].
        apply andb_true_iff in E. destruct E as [E _]. apply Nat.leb_le in E. rewrite (Hnone i) by lia. reflexivity.
  Qed.

  (* records over disjoint parts commute on EVERY array (the form C05_waitsome_loops asks for) *)
  Theorem apply_peer_commute_gen dir me (l : list A) p q :
    length (p_buf p) = p_len p -> length (p_buf q) = p_len q -> disjoint A p q ->
    apply_peer dir me (apply_peer dir me l p) q = apply_peer dir me (apply_peer dir me l q) p.
  Proof.
    intros Hp Hq D. apply nth_error_ext. intros i.
    rewrite !apply_peer_nth_gen by assumption.
    destruct ((p_start p <=? i) && (i <? p_start p + p_len p)) eqn:E1;
    destruct ((p_start q <=? i) && (i <? p_start q + p_len q)) eqn:E2; try reflexivity.
    exfalso. apply andb_true_iff in E1, E2. destruct E1 as [E1 E1'], E2 as [E2 E2'].
    apply Nat.leb_le in E1, E2. apply Nat.ltb_lt in E1', E2'. destruct D; lia.
  Qed.
End PeerGen.

(* ---- the peer records of one rank in one merge step --------------------------------------------------------------- *)
Section Peers.
  Variable A : Type.
  Variable c : nat -> nat.
  Variable P : nat.
  Hypothesis M : mono c P.
  Variables (me lo n2 r : nat).
  Hypothesis Hr : r <= n2.
  Variable g : list A.
  Hypothesis Hg : length g = c P.
  Variable segs : list seg.
  Hypothesis Hch : seg_chain c P lo (lo + n2) r 0 segs.
  Notation wf := (seg_wf c P lo n2 r).

  Definition mkp (s : pspec) : peer A := mkpeer (ps_rank s) (ps_len s) (ps_start s) (slice A g (ps_remote s) (ps_len s)).
  Definition ps_disjoint (a b : pspec) : Prop :=
    ps_start a + ps_len a <= ps_start b \/ ps_start b + ps_len b <= ps_start a.

  Lemma pspec_remote s ps : wf s -> In ps (seg_pspec me (c me) lo (lo + n2) s) -> ps_remote ps + ps_len ps <= c P.
  Proof.
    intros (W1&W2&W3&W4&W5&W6&W7&W8) Hin. unfold seg_pspec in Hin.
    pose proof (M (S (s_lo_owner s)) P ltac:(lia) ltac:(lia)). pose proof (M (S (s_hi_owner s)) P ltac:(lia) ltac:(lia)).
    destruct ((s_lo_owner s =? me) && negb (s_hi_owner s =? me)).
    - destruct Hin as [<-|[]]. cbn [ps_remote ps_len]. lia.
    - destruct (negb (s_lo_owner s =? me) && (s_hi_owner s =? me)); [|destruct Hin].
      destruct Hin as [<-|[]]. cbn [ps_remote ps_len]. lia.
  Qed.

  Lemma pspec_disjoint x y a b : wf x -> wf y -> seg_before x y ->
    In a (seg_pspec me (c me) lo (lo + n2) x) -> In b (seg_pspec me (c me) lo (lo + n2) y) -> ps_disjoint a b.
  Proof.
    intros (X1&X2&X3&X4&X5&X6&X7&X8) (Y1&Y2&Y3&Y4&Y5&Y6&Y7&Y8) B Ha Hb. unfold seg_before in B.
    unfold seg_pspec in Ha, Hb. unfold ps_disjoint.
    destruct ((s_lo_owner x =? me) && negb (s_hi_owner x =? me)) eqn:Cx1;
      [|destruct (negb (s_lo_owner x =? me) && (s_hi_owner x =? me)) eqn:Cx2; [|destruct Ha]];
    (destruct ((s_lo_owner y =? me) && negb (s_hi_owner y =? me)) eqn:Cy1;
      [|destruct (negb (s_lo_owner y =? me) && (s_hi_owner y =? me)) eqn:Cy2; [|destruct Hb]]);
    destruct Ha as [<-|[]]; destruct Hb as [<-|[]]; cbn [ps_start ps_len]; b2p;
    repeat match goal with H : _ = me |- _ => rewrite H in * end; lia.
  Qed.

  Definition peers_of : list (peer A) := map mkp (rank_pspecs me (c me) lo (lo + n2) segs).

  Lemma peers_buf p : In p peers_of -> length (p_buf p) = p_len p.
  Proof.
    intros Hp. unfold peers_of, rank_pspecs in Hp. apply in_map_iff in Hp. destruct Hp as [ps [<- Hps]].
    apply in_flat_map in Hps. destruct Hps as [s [Hs Hps]].
    destruct (chain_facts _ _ _ _ _ _ _ Hch) as [F _]. rewrite Forall_forall in F. destruct (F s Hs) as [W _].
    cbn [mkp p_buf p_len]. apply slice_length. rewrite Hg. exact (pspec_remote s ps W Hps).
  Qed.

  Lemma peers_disjoint : ForallOrdPairs (disjoint A) peers_of.
  Proof.
    destruct (chain_facts _ _ _ _ _ _ _ Hch) as [F [O _]].
    unfold peers_of, rank_pspecs. apply FOP_map.
    apply (FOP_flat_map (fun x y => wf x /\ wf y /\ seg_before x y)).
    - intros x. unfold seg_pspec.
      destruct ((s_lo_owner x =? me) && negb (s_hi_owner x =? me));
        [|destruct (negb (s_lo_owner x =? me) && (s_hi_owner x =? me))];
        repeat constructor.
    - intros x y a b [Wx [Wy B]] Ha Hb. unfold disjoint. cbn [mkp p_start p_len].
      exact (pspec_disjoint x y a b Wx Wy B Ha Hb).
    - apply (FOP_strengthen (fun s => wf s /\ 0 <= s_off s) seg_before); [|exact F|exact O].
      intros x y [Wx _] [Wy _] B. auto.
  Qed.

  (* the hypothesis of C05_waitsome_loops: the records commute, on every array *)
  Lemma peers_commute gt dir : forall (l : list A) j k, j <> k ->
    apply_k A gt dir me peers_of (apply_k A gt dir me peers_of l j) k =
    apply_k A gt dir me peers_of (apply_k A gt dir me peers_of l k) j.
  Proof.
    intros l j k Hjk. unfold apply_k.
    destruct (nth_error peers_of j) as [p|] eqn:Ej; destruct (nth_error peers_of k) as [q|] eqn:Ek; try reflexivity.
    apply apply_peer_commute_gen.
    - apply peers_buf. eapply nth_error_In. exact Ej.
    - apply peers_buf. eapply nth_error_In. exact Ek.
    - destruct (Nat.lt_ge_cases j k) as [L|L].
      + exact (FOP_nth _ _ peers_disjoint j k p q L Ej Ek).
      + pose proof (FOP_nth _ _ peers_disjoint k j q p ltac:(lia) Ek Ej) as D. unfold disjoint in *. tauto.
  Qed.
End Peers.

(* ---- composition ------------------------------------------------------------------------------------------------------ *)
Section ComposeW.
  Variable A : Type.
  Variable gt : A -> A -> bool.
  Variable sort : bool -> list A -> list A.
  Hypothesis sort_length : forall d l, length (sort d l) = length l.
  Variable counts : list nat.
  Let off := cumul 0 counts.
  Let P := length counts.
  Let c := cum off.

  (* ONE RANK, ONE MERGE STEP, EVERY COMPLETION ORDER: for every legal pair of answer streams the two Waitsome loops
     end, with all answers consumed and every record handled exactly once, in the array of `rank_merge_step` (the
     records applied in index order) - whatever the local array l is *)
  Theorem rank_step_any_order dir me lo n g l ransw sansw :
    me < P -> 2 <= n -> lo + n <= c P -> length g = c P ->
    let my_lo := c me in
    let n2 := n2_of n in
    let segs := segments off me lo n2 (n - n2) in
    let peers := map (fun s => mkpeer (ps_rank s) (ps_len s) (ps_start s) (slice A g (ps_remote s) (ps_len s)))
                     (rank_pspecs me my_lo lo (lo + n2) segs) in
    let m := length peers in
    legal_stream m ransw -> legal_stream m sansw ->
    exists fl' calls,
      wait_loop A gt (2 * m + 1) dir me peers ransw sansw m m
                (rank_local A gt dir me my_lo lo (lo + n2) segs l, repeat pflag0 m) [] =
      Some (rank_merge_step A gt dir off me lo n (fun s => slice A g (ps_remote s) (ps_len s)) l, fl', 0, calls) /\
      length fl' = m /\
      (forall k f, nth_error fl' k = Some f ->
         f_received f = true /\ f_sent f = true /\ f_applied f = 1 /\ f_freed f = 1 /\ f_early f = false).
  Proof.
    intros Hme Hn Hhi L my_lo n2 segs peers m HR HS.
    destruct (n2_of_bounds n Hn) as [k [_ B]].
    destruct (segments_correct counts me lo n2 (n - n2) Hme ltac:(fold off; fold c; fold P; unfold n2; lia)) as [Ch _].
    fold off c P in Ch. fold segs in Ch.
    destruct (wait_loop_correct A gt dir me peers (rank_local A gt dir me my_lo lo (lo + n2) segs l) ransw sansw HR HS)
      as [l' [fl' [calls [HW [HL [HF HC]]]]]].
    exists fl', calls. split; [|split; [exact HL|exact HF]].
    fold m in HW. rewrite HW. f_equal. f_equal. f_equal. rewrite HC; [reflexivity|].
    exact (peers_commute A c P (cum_mono counts) me lo n2 (n - n2) ltac:(unfold n2; lia) g L segs Ch gt dir).
  Qed.

  Lemma len_step dir lo n g : 2 <= n -> lo + n <= c P -> length g = c P ->
    length (dist_merge_step A gt dir off lo n g) = c P.
  Proof.
    intros H1 H2 H3. unfold off. rewrite (dist_merge_step_eq A gt sort counts dir lo n g H1 H2 H3).
    rewrite run_len; auto.
  Qed.
  Lemma len_merge dir f lo n g : lo + n <= c P -> length g = c P ->
    length (dist_merge A gt f dir off lo n g) = c P.
  Proof.
    intros H2 H3. unfold off. rewrite (dist_merge_eq A gt sort sort_length counts dir f lo n g H2 H3).
    rewrite run_len; auto.
  Qed.
  Lemma len_sort f lo n dir g : lo + n <= c P -> length g = c P ->
    length (dist_sort A gt sort f off lo n dir g) = c P.
  Proof.
    intros H2 H3. unfold off. rewrite (dist_sort_eq A gt sort sort_length counts f lo n dir g H2 H3).
    rewrite run_len; auto.
  Qed.

  Variable W : list nat -> nat -> nat -> answers.
  Hypothesis W_legal : legal_oracle W.

  Lemma rank_merge_step_w_eq path dir me lo n g l :
    me < P -> 2 <= n -> lo + n <= c P -> length g = c P ->
    rank_merge_step_w A gt W path dir off me lo n (fun s => slice A g (ps_remote s) (ps_len s)) l =
    Some (rank_merge_step A gt dir off me lo n (fun s => slice A g (ps_remote s) (ps_len s)) l).
  Proof.
    intros Hme Hn Hhi L. unfold rank_merge_step_w. cbv zeta.
    match goal with |- context [wait_loop A gt _ dir me ?ps] => set (peers := ps) end.
    destruct (W_legal path me (length peers)) as [HR HS].
    pose proof (rank_step_any_order dir me lo n g l _ _ Hme Hn Hhi L HR HS) as HX.
    cbv zeta in HX. unfold c in HX. fold peers in HX. destruct HX as [fl' [calls [HW _]]].
    rewrite HW. reflexivity.
  Qed.

  Lemma dist_merge_step_w_eq path dir lo n g : 2 <= n -> lo + n <= c P -> length g = c P ->
    dist_merge_step_w A gt W path dir off lo n g = Some (dist_merge_step A gt dir off lo n g).
  Proof.
    intros Hn Hhi L. unfold dist_merge_step_w, dist_merge_step.
    rewrite (sequence_map_some _ (fun me => let l := local_of A off me g in
               if participates off me lo n
               then rank_merge_step A gt dir off me lo n (fun s => slice A g (ps_remote s) (ps_len s)) l else l));
      [reflexivity|].
    intros me Hin. apply in_seq in Hin. cbv zeta.
    destruct (participates off me lo n); [|reflexivity].
    apply rank_merge_step_w_eq; auto.
    unfold off in Hin. rewrite cumul_length in Hin. unfold P. lia.
  Qed.

  Lemma dist_merge_w_eq dir : forall f path lo n g, lo + n <= c P -> length g = c P ->
    dist_merge_w A gt W f path dir off lo n g = Some (dist_merge A gt f dir off lo n g).
  Proof.
    induction f as [|f IH]; intros path lo n g Hhi L; [reflexivity|].
    cbn [dist_merge_w dist_merge]. destruct (1 <? n) eqn:E; [|reflexivity]. apply Nat.ltb_lt in E.
    destruct (n2_of_bounds n ltac:(lia)) as [k [_ B]].
    rewrite dist_merge_step_w_eq by (auto; lia). cbn [obind].
    pose proof (len_step dir lo n g ltac:(lia) Hhi L) as L1.
    rewrite IH by (auto; lia). cbn [obind].
    apply IH; [lia|]. apply len_merge; [lia|exact L1].
  Qed.

  Lemma dist_sort_w_eq : forall f path lo n dir g, lo + n <= c P -> length g = c P ->
    dist_sort_w A gt sort W f path off lo n dir g = Some (dist_sort A gt sort f off lo n dir g).
  Proof.
    induction f as [|f IH]; intros path lo n dir g Hhi L; [reflexivity|].
    cbn [dist_sort_w dist_sort]. destruct (1 <? n) eqn:E; [|reflexivity]. apply Nat.ltb_lt in E.
    destruct (inside_one_rank off lo n); [reflexivity|].
    assert (Hh : n / 2 < n) by (apply Nat.div_lt; lia).
    rewrite IH by (auto; lia). cbn [obind].
    pose proof (len_sort f lo (n / 2) (negb dir) g ltac:(lia) L) as L1.
    rewrite IH by (auto; lia). cbn [obind].
    apply dist_merge_w_eq; [lia|]. apply len_sort; [lia|exact L1].
  Qed.

  (* THE COMPOSITION THEOREM WITH THE WAITSOME LOOPS: whatever legal answers the Waitsome calls of all ranks in all merge
     steps return, the distributed execution ends (no answer missing, none left over) in the arrays of the sequential
     comparator network *)
  Theorem dist_psort_w_eq xs : map (@length A) xs = counts ->
    dist_psort_w A gt sort W counts xs = Some (psort A gt sort counts xs).
  Proof.
    intros H. unfold dist_psort_w. fold off.
    assert (T : cum off (length counts) = fold_right Nat.add 0 counts).
    { unfold off, cum. rewrite cumul_nth by lia. rewrite firstn_all. reflexivity. }
    rewrite dist_sort_w_eq.
    - cbn [option_map]. f_equal. exact (dist_psort_eq A gt sort sort_length counts xs H).
    - fold P c. lia.
    - fold c P in T. fold c P. rewrite T, concat_length_sum, H. reflexivity.
  Qed.
End ComposeW.

(* ---- the property for the DISTRIBUTED execution ------------------------------------------------------------------------ *)
Section DistCorrect.
  Variable A : Type.

  (* permutation and counts need no order property *)
  Theorem dist_psort_permutation (gt : A -> A -> bool) (sort : bool -> list A -> list A) :
    (forall d l, Permutation (sort d l) l) ->
    forall counts xs, map (@length A) xs = counts ->
    Permutation (concat (dist_psort A gt sort counts xs)) (concat xs) /\
    map (@length A) (dist_psort A gt sort counts xs) = counts.
  Proof.
    intros SP counts xs H.
    rewrite (dist_psort_eq A gt sort (fun d l => Permutation_length (SP d l)) counts xs H).
    apply psort_permutation; assumption.
  Qed.

  Variable le : A -> A -> bool.
  Hypothesis le_total : forall a b, le a b = true \/ le b a = true.
  Hypothesis le_trans : forall a b c, le a b = true -> le b c = true -> le a c = true.
  Variable sort : bool -> list A -> list A.
  Hypothesis sort_perm : forall d l, Permutation (sort d l) l.
  Hypothesis sort_asc : forall l, Sorted (fun a b => le a b = true) (sort true l).
  Hypothesis sort_desc : forall l, Sorted (fun a b => le b a = true) (sort false l).
  Notation gt := (gt_of A le).

  (* round semantics (peer records applied in index order) *)
  Theorem dist_psort_correct counts xs : map (@length A) xs = counts ->
    StronglySorted (fun a b => le a b = true) (concat (dist_psort A gt sort counts xs)) /\
    Permutation (concat (dist_psort A gt sort counts xs)) (concat xs) /\
    map (@length A) (dist_psort A gt sort counts xs) = counts.
  Proof.
    intros H. rewrite (dist_psort_eq A gt sort (fun d l => Permutation_length (sort_perm d l)) counts xs H).
    apply psort_correct; assumption.
  Qed.

  (* the Waitsome loops driven by ANY legal answers in every merge step of every rank *)
  Theorem dist_psort_w_correct W counts xs : legal_oracle W -> map (@length A) xs = counts ->
    exists ys, dist_psort_w A gt sort W counts xs = Some ys /\
      ys = psort A gt sort counts xs /\
      StronglySorted (fun a b => le a b = true) (concat ys) /\
      Permutation (concat ys) (concat xs) /\
      map (@length A) ys = counts.
  Proof.
    intros HW H. exists (psort A gt sort counts xs).
    split; [apply (dist_psort_w_eq A gt sort (fun d l => Permutation_length (sort_perm d l)) counts W HW xs H)|].
    split; [reflexivity|]. apply psort_correct; assumption.
  Qed.
End DistCorrect.

(* ---- the hypothesis `legal_oracle` is satisfiable: receives complete one by one in reverse order, all sends are
        reported by one Waitsome call ---------------------------------------------------------------------------------- *)
Definition ex_oracle : list nat -> nat -> nat -> answers :=
  fun _ _ m => (map (fun i => [i]) (rev (seq 0 m)), if m =? 0 then [] else [seq 0 m]).

Lemma concat_singletons (l : list nat) : concat (map (fun i => [i]) l) = l.
Proof. induction l as [|a t IH]; [reflexivity|]. cbn [map concat app]. rewrite IH. reflexivity. Qed.

Lemma ex_oracle_legal : legal_oracle ex_oracle.
Proof.
  intros path me m. unfold ex_oracle. cbn [fst snd]. split; split.
  - intros a Ha. apply in_map_iff in Ha. destruct Ha as [i [<- _]]. discriminate.
  - rewrite concat_singletons. apply Permutation_sym, Permutation_rev.
  - intros a Ha. destruct (m =? 0) eqn:E; [destruct Ha|]. destruct Ha as [<-|[]].
    apply Nat.eqb_neq in E. destruct m; [congruence|discriminate].
  - destruct (m =? 0) eqn:E.
    + apply Nat.eqb_eq in E. subst m. constructor.
    + cbn [concat]. rewrite app_nil_r. apply Permutation_refl.
Qed.

(* ---- the same as a RELATION: every Waitsome loop of every rank in every merge step may get ANY legal answers ----------
   (no oracle, no indexing of the calls: the nondeterminism of the completion order is in the semantics itself) *)
Lemma Forall2_fun_eq {B C} (f : B -> C) l l' : Forall2 (fun x y => y = f x) l l' -> l' = map f l.
Proof. induction 1 as [|x y l l' H _ IH]; [reflexivity|]. cbn [map]. rewrite H, IH. reflexivity. Qed.
Lemma Forall2_map_intro {B C} (R : B -> C -> Prop) (f : B -> C) l : (forall x, In x l -> R x (f x)) -> Forall2 R l (map f l).
Proof.
  induction l as [|a t IH]; intros H; [constructor|]. cbn [map]. constructor; [apply H; left; reflexivity|].
  apply IH. intros x Hx. apply H. right. exact Hx.
Qed.
Lemma Forall2_impl_in {B C} (R R' : B -> C -> Prop) l l' :
  (forall x y, In x l -> R x y -> R' x y) -> Forall2 R l l' -> Forall2 R' l l'.
Proof.
  intros H. induction 1 as [|x y l l' Hxy _ IH]; [constructor|]. constructor; [apply H; [left; reflexivity|exact Hxy]|].
  apply IH. intros a b Ha. apply H. right. exact Ha.
Qed.

Section DistR.
  Variable A : Type.
  Variable gt : A -> A -> bool.
  Variable sort : bool -> list A -> list A.

  (* loop 3 of one rank with some legal answers ends in l' *)
  Definition rank_step_r (dir : bool) (off : list nat) (me lo n : nat) (recvbuf : pspec -> list A)
             (l l' : list A) : Prop :=
    let my_lo := cum off me in
    let n2 := n2_of n in
    let segs := segments off me lo n2 (n - n2) in
    let peers := map (fun s => mkpeer (ps_rank s) (ps_len s) (ps_start s) (recvbuf s))
                     (rank_pspecs me my_lo lo (lo + n2) segs) in
    let m := length peers in
    exists ransw sansw fl calls, legal_stream m ransw /\ legal_stream m sansw /\
      wait_loop A gt (2 * m + 1) dir me peers ransw sansw m m
                (rank_local A gt dir me my_lo lo (lo + n2) segs l, repeat pflag0 m) [] = Some (l', fl, 0, calls).

  Definition dist_merge_step_r (dir : bool) (off : list nat) (lo n : nat) (g g' : list A) : Prop :=
    exists locals,
      Forall2 (fun me l' =>
        if participates off me lo n
        then rank_step_r dir off me lo n (fun s => slice A g (ps_remote s) (ps_len s)) (local_of A off me g) l'
        else l' = local_of A off me g) (seq 0 (length off - 1)) locals /\
      g' = concat locals.

  Fixpoint dist_merge_r (fuel : nat) (dir : bool) (off : list nat) (lo n : nat) (g g' : list A) : Prop :=
    match fuel with
    | O => g' = g
    | S f =>
      if 1 <? n then
        let n2 := n2_of n in
        exists g1 g2, dist_merge_step_r dir off lo n g g1 /\ dist_merge_r f dir off lo n2 g1 g2 /\
                      dist_merge_r f dir off (lo + n2) (n - n2) g2 g'
      else g' = g
    end.

  Fixpoint dist_sort_r (fuel : nat) (off : list nat) (lo n : nat) (dir : bool) (g g' : list A) : Prop :=
    match fuel with
    | O => g' = g
    | S f =>
      if 1 <? n then
        if inside_one_rank off lo n then g' = dist_leaf A sort dir off lo n g
        else exists g1 g2, dist_sort_r f off lo (n / 2) (negb dir) g g1 /\
                           dist_sort_r f off (lo + n / 2) (n - n / 2) dir g1 g2 /\
                           dist_merge_r n dir off lo n g2 g'
      else g' = g
    end.

  Definition dist_psort_r (counts : list nat) (xs ys : list (list A)) : Prop :=
    let off := cumul 0 counts in
    let total := cum off (length counts) in
    exists g', dist_sort_r total off 0 total true (concat xs) g' /\ ys = split_counts A counts g'.

  Hypothesis sort_length : forall d l, length (sort d l) = length l.
  Variable counts : list nat.
  Let off := cumul 0 counts.
  Let P := length counts.
  Let c := cum off.

  Lemma rank_step_r_iff dir me lo n g l l' : me < P -> 2 <= n -> lo + n <= c P -> length g = c P ->
    rank_step_r dir off me lo n (fun s => slice A g (ps_remote s) (ps_len s)) l l' <->
    l' = rank_merge_step A gt dir off me lo n (fun s => slice A g (ps_remote s) (ps_len s)) l.
  Proof.
    intros Hme Hn Hhi L. unfold rank_step_r. cbv zeta. split.
    - intros [ransw [sansw [fl [calls [HR [HS HW]]]]]].
      pose proof (rank_step_any_order A gt counts dir me lo n g l ransw sansw Hme Hn Hhi L HR HS) as HX.
      cbv zeta in HX. destruct HX as [fl' [calls' [HW' _]]]. fold off in HW'. rewrite HW' in HW. congruence.
    - intros ->. set (m := length _).
      assert (HR : legal_stream m (fst (ex_oracle [] me m))) by apply ex_oracle_legal.
      assert (HS : legal_stream m (snd (ex_oracle [] me m))) by apply ex_oracle_legal.
      pose proof (rank_step_any_order A gt counts dir me lo n g l _ _ Hme Hn Hhi L HR HS) as HX.
      cbv zeta in HX. destruct HX as [fl' [calls' [HW' _]]]. fold off in HW'.
      exists (fst (ex_oracle [] me m)), (snd (ex_oracle [] me m)), fl', calls'. auto.
  Qed.

  Lemma dist_merge_step_r_iff dir lo n g g' : 2 <= n -> lo + n <= c P -> length g = c P ->
    dist_merge_step_r dir off lo n g g' <-> g' = dist_merge_step A gt dir off lo n g.
  Proof.
    intros Hn Hhi L. unfold dist_merge_step_r, dist_merge_step.
    assert (EP : length off - 1 = P) by (unfold off, P; rewrite cumul_length; lia). rewrite EP.
    set (F := fun me => let l := local_of A off me g in
                        if participates off me lo n
                        then rank_merge_step A gt dir off me lo n (fun s => slice A g (ps_remote s) (ps_len s)) l else l).
    split.
    - intros [locals [HF ->]]. f_equal. apply (Forall2_fun_eq F).
      eapply Forall2_impl_in; [|exact HF]. intros me l' Hin Hl'. apply in_seq in Hin. unfold F. cbv zeta.
      cbv beta in Hl'. destruct (participates off me lo n); [|exact Hl'].
      apply (rank_step_r_iff dir me lo n g); auto; lia.
    - intros ->. exists (map F (seq 0 P)). split; [|reflexivity].
      apply Forall2_map_intro. intros me Hin. apply in_seq in Hin. unfold F. cbv zeta.
      destruct (participates off me lo n); [|reflexivity].
      apply (rank_step_r_iff dir me lo n g); auto; lia.
  Qed.

  Lemma dist_merge_r_iff dir : forall f lo n g g', lo + n <= c P -> length g = c P ->
    dist_merge_r f dir off lo n g g' <-> g' = dist_merge A gt f dir off lo n g.
  Proof.
    induction f as [|f IH]; intros lo n g g' Hhi L; [reflexivity|].
    cbn [dist_merge_r dist_merge]. destruct (1 <? n) eqn:E; [|reflexivity]. apply Nat.ltb_lt in E.
    destruct (n2_of_bounds n ltac:(lia)) as [k [_ B]].
    pose proof (len_step A gt sort sort_length counts dir lo n g ltac:(lia) Hhi L) as L1. fold off c P in L1.
    pose proof (len_merge A gt sort sort_length counts dir f lo (n2_of n) _ ltac:(fold off c P; lia) L1) as L2.
    fold off c P in L2.
    split.
    - intros [g1 [g2 [H1 [H2 H3]]]].
      apply dist_merge_step_r_iff in H1; [|lia|exact Hhi|exact L]. subst g1.
      apply IH in H2; [|lia|exact L1]. subst g2.
      apply IH in H3; [exact H3|lia|exact L2].
    - intros ->. eexists. eexists. split; [apply dist_merge_step_r_iff; [lia|exact Hhi|exact L|reflexivity]|].
      split; [apply IH; [lia|exact L1|reflexivity]|]. apply IH; [lia|exact L2|reflexivity].
  Qed.

  Lemma dist_sort_r_iff : forall f lo n dir g g', lo + n <= c P -> length g = c P ->
    dist_sort_r f off lo n dir g g' <-> g' = dist_sort A gt sort f off lo n dir g.
  Proof.
    induction f as [|f IH]; intros lo n dir g g' Hhi L; [reflexivity|].
    cbn [dist_sort_r dist_sort]. destruct (1 <? n) eqn:E; [|reflexivity]. apply Nat.ltb_lt in E.
    destruct (inside_one_rank off lo n); [reflexivity|].
    assert (Hh : n / 2 < n) by (apply Nat.div_lt; lia).
    pose proof (len_sort A gt sort sort_length counts f lo (n / 2) (negb dir) g ltac:(fold off c P; lia) L) as L1.
    fold off c P in L1.
    pose proof (len_sort A gt sort sort_length counts f (lo + n / 2) (n - n / 2) dir _ ltac:(fold off c P; lia) L1) as L2.
    fold off c P in L2.
    split.
    - intros [g1 [g2 [H1 [H2 H3]]]].
      apply IH in H1; [|lia|exact L]. subst g1.
      apply IH in H2; [|lia|exact L1]. subst g2.
      apply dist_merge_r_iff in H3; [exact H3|lia|exact L2].
    - intros ->. eexists. eexists. split; [apply IH; [lia|exact L|reflexivity]|].
      split; [apply IH; [lia|exact L1|reflexivity]|]. apply dist_merge_r_iff; [lia|exact L2|reflexivity].
  Qed.

  (* EVERY execution of the distributed algorithm - any legal Waitsome answers anywhere - ends in the arrays of the
     sequential network, and there is an execution *)
  Theorem dist_psort_r_iff xs ys : map (@length A) xs = counts ->
    dist_psort_r counts xs ys <-> ys = psort A gt sort counts xs.
  Proof.
    intros H. unfold dist_psort_r. fold off. cbv zeta.
    assert (T : c P = fold_right Nat.add 0 counts).
    { unfold c, off, P, cum. rewrite cumul_nth by lia. rewrite firstn_all. reflexivity. }
    assert (L : length (concat xs) = c P) by (rewrite T, concat_length_sum, H; reflexivity).
    rewrite <- (dist_psort_eq A gt sort sort_length counts xs H). unfold dist_psort. fold off. cbv zeta.
    fold P c. split.
    - intros [g' [H1 ->]]. apply dist_sort_r_iff in H1; [|lia|exact L]. subst g'. reflexivity.
    - intros ->. eexists. split; [apply dist_sort_r_iff; [lia|exact L|reflexivity]|reflexivity].
  Qed.
End DistR.

Section DistRCorrect.
  Variable A : Type.
  Variable le : A -> A -> bool.
  Hypothesis le_total : forall a b, le a b = true \/ le b a = true.
  Hypothesis le_trans : forall a b c, le a b = true -> le b c = true -> le a c = true.
  Variable sort : bool -> list A -> list A.
  Hypothesis sort_perm : forall d l, Permutation (sort d l) l.
  Hypothesis sort_asc : forall l, Sorted (fun a b => le a b = true) (sort true l).
  Hypothesis sort_desc : forall l, Sorted (fun a b => le b a = true) (sort false l).
  Notation gt := (gt_of A le).

  (* THE PROPERTY for the distributed algorithm: there is an execution, and EVERY execution - every order in which the
     outstanding sends and receives complete, in every merge step on every rank - yields a globally sorted permutation
     of the input with every rank's count kept (and always the same arrays) *)
  Theorem dist_psort_r_correct counts xs : map (@length A) xs = counts ->
    (exists ys, dist_psort_r A gt sort counts xs ys) /\
    forall ys, dist_psort_r A gt sort counts xs ys ->
      ys = psort A gt sort counts xs /\
      StronglySorted (fun a b => le a b = true) (concat ys) /\
      Permutation (concat ys) (concat xs) /\
      map (@length A) ys = counts.
  Proof.
    intros H. pose proof (fun d l => Permutation_length (sort_perm d l)) as SL. split.
    - exists (psort A gt sort counts xs). apply (dist_psort_r_iff A gt sort SL counts xs _ H). reflexivity.
    - intros ys Hys. apply (dist_psort_r_iff A gt sort SL counts xs ys H) in Hys. subst ys.
      split; [reflexivity|]. apply psort_correct; assumption.
  Qed.
End DistRCorrect.
