(* C05 - tie T1: the hand-written model of sc_psort (PsortModel.v, over nat) computes exactly what the definitions GENERATED
   from /repo/src/sc_sort.c (Gen/PsortC05.v, regenerated on every run) compute: sc_bsearch_cumulative (the whole loop, with the
   size_t `guess - 1`), the power-of-two split n2 of sc_merge_bitonic, the segment loop (owners, lengths, max_length, offset
   advance), the side tests, the byte offsets, the tags, the swap test and what is copied where, the recursion arguments of
   sc_merge_bitonic and sc_psort_bitonic (n / 2, !dir).  Counts and positions are below 2^62, ranks below 2^31.
   An edit of that arithmetic in sc_sort.c changes a generated definition and one of these lemmas stops checking. *)
From Coq Require Import Arith ZArith Lia List Bool PeanoNat.
From ScV Require Import Base.CInt Gen.PsortC05 C05.PsortModel C05.PsortIntCmp.
From Coq Require Import Permutation Sorted.
Import ListNotations.
Local Open Scope Z_scope.

Definition B62 : Z := 2 ^ 62.
Definition B31 : Z := 2 ^ 31.
Notation zn := Z.of_nat.
Ltac tup := repeat match goal with |- (_, _) = (_, _) => apply f_equal2 end.

Lemma u64_sm x : 0 <= x < 2 * B62 -> u64 x = x.
Proof. intros H. apply u64_id. unfold M64. unfold B62 in H. change (2 ^ 62) with 4611686018427387904 in H. lia. Qed.
Lemma s32_sm x : 0 <= x < B31 -> s32 x = x.
Proof. intros H. apply s32_id. unfold in_s32, M32. unfold B31 in H. change (2 ^ 31) with 2147483648 in H. lia. Qed.
Lemma ltb_nat a b : (zn a <? zn b) = (a <? b)%nat.
Proof. destruct (Z.ltb_spec (zn a) (zn b)); destruct (Nat.ltb_spec a b); try reflexivity; lia. Qed.
Lemma leb_nat a b : (zn a <=? zn b) = (a <=? b)%nat.
Proof. destruct (Z.leb_spec (zn a) (zn b)); destruct (Nat.leb_spec a b); try reflexivity; lia. Qed.
Lemma eqb_nat a b : (zn a =? zn b) = (a =? b)%nat.
Proof. destruct (Z.eqb_spec (zn a) (zn b)); destruct (Nat.eqb_spec a b); try reflexivity; lia. Qed.
Lemma div2_nat a : zn (a / 2) = zn a / 2.
Proof. rewrite Nat2Z.inj_div. reflexivity. Qed.

(* the cumulative offsets as the C code reads them *)
Definition zc (c : nat -> nat) : Z -> Z := fun i => zn (c (Z.to_nat i)).
Lemma zc_at c i : zc c (zn i) = zn (c i).
Proof. unfold zc. rewrite Nat2Z.id. reflexivity. Qed.

(* ---------- `for (k = 1; k < n;) k = k << 1;  n2 = k >> 1` ------------------------------------------------------------- *)
Lemma gen_n2_loop n : zn n < B62 -> forall fuel k, (0 < k)%nat -> zn n <= zn k * 2 ^ zn fuel ->
  merge_n2_loop1 (S fuel) (zn n) (zn k) = Some (inl (zn (pow2_ge fuel k n))).
Proof.
  intros Hn. induction fuel as [|f IH]; intros k Hk Hf.
  - cbn [merge_n2_loop1 pow2_ge]. change (2 ^ zn 0) with 1 in Hf.
    destruct (Z.ltb_spec (zn k) (zn n)); [lia|reflexivity].
  - cbn [pow2_ge]. change (merge_n2_loop1 (S (S f)) (zn n) (zn k)) with
      (if zn k <? zn n then merge_n2_loop1 (S f) (zn n) (u64 (shl (zn k) 1)) else Some (inl (zn k))).
    rewrite ltb_nat. destruct (Nat.ltb_spec k n) as [Hlt|Hge]; [|reflexivity].
    unfold shl. change (2 ^ 1) with 2. rewrite u64_sm by (unfold B62 in *; lia).
    replace (zn k * 2) with (zn (2 * k)) by lia.
    apply IH; [lia|].
    rewrite Nat2Z.inj_succ, Z.pow_succ_r in Hf by lia. lia.
Qed.

(* the generated loop computes the model's n2_of, for every n below 2^62 *)
Lemma gen_n2 n : zn n < B62 -> merge_n2 (S n) (zn n) = Some (zn (n2_of n)).
Proof.
  intros Hn. unfold merge_n2. cbv zeta.
  change 1 with (zn 1). rewrite (gen_n2_loop n Hn n 1%nat); [| lia |].
  - unfold shr. change (2 ^ 1) with 2. unfold n2_of. rewrite div2_nat. reflexivity.
  - change (zn 1) with 1. rewrite Z.mul_1_l.
    destruct (Z.eq_dec (zn n) 0) as [E|E]; [rewrite E; apply Z.pow_nonneg; lia|].
    apply Z.lt_le_incl. apply Z.pow_gt_lin_r; lia.
Qed.

(* ---------- sc_bsearch_cumulative ---------------------------------------------------------------------------------------- *)
(* the model's search with an explicit "out of fuel" (the model returns the current guess in that case; the proofs of
   PsortOwner.v show that nmemb iterations suffice) *)
Fixpoint owner_search_opt (fuel : nat) (c : nat -> nat) (low high guess pos : nat) : option nat :=
  match fuel with
  | O => None
  | S f =>
    if (pos <? c guess)%nat then
      let high' := (guess - 1)%nat in owner_search_opt f c low high' ((low + high' + 1) / 2)%nat pos
    else if (c (S guess) <=? pos)%nat then
      let low' := (guess + 1)%nat in owner_search_opt f c low' high ((low' + high) / 2)%nat pos
    else Some guess
  end.

Lemma owner_search_opt_sound fuel c : forall low high guess pos r,
  owner_search_opt fuel c low high guess pos = Some r -> owner_search fuel c low high guess pos = r.
Proof.
  induction fuel as [|f IH]; intros low high guess pos r H; [discriminate|].
  cbn [owner_search_opt owner_search] in *.
  destruct (pos <? c guess)%nat; [apply IH; exact H|].
  destruct (c (S guess) <=? pos)%nat; [apply IH; exact H|]. now injection H.
Qed.

Definition loop_guess (x : option ((Z * Z * Z) + Z)) : option Z :=
  match x with Some (inl (g, _, _)) => Some g | Some (inr r) => Some r | None => None end.

(* the generated loop = the model's loop, for every cumulative array that starts at 0 (so that `guess - 1` is only computed
   for guess > 0: the size_t subtraction does not wrap and nat's truncated subtraction is exact) *)
Lemma gen_owner_loop c pos : c O = O -> (forall i, zn (c i) < B62) -> zn pos < B62 ->
  forall fuel low high guess M, zn low <= M -> zn high <= M -> zn guess <= M -> M + zn fuel < B62 ->
  loop_guess (sc_bsearch_cumulative_loop1 fuel (zc c) (zn pos) (zn guess) (zn high) (zn low)) =
  option_map zn (owner_search_opt fuel c low high guess pos).
Proof.
  intros H0 Hc Hp. induction fuel as [|f IH]; intros low high guess M Hl Hh Hg HM; [reflexivity|].
  cbn [sc_bsearch_cumulative_loop1 owner_search_opt].
  rewrite zc_at, ltb_nat.
  destruct (Nat.ltb_spec pos (c guess)) as [H1|H1].
  - assert (guess <> O) by (intros ->; rewrite H0 in H1; lia).
    rewrite (u64_sm (zn guess - 1)) by (unfold B62 in *; lia).
    replace (zn guess - 1) with (zn (guess - 1)) by lia.
    rewrite (u64_sm (zn low + zn (guess - 1))) by (unfold B62 in *; lia).
    rewrite (u64_sm (zn low + zn (guess - 1) + 1)) by (unfold B62 in *; lia).
    replace (zn low + zn (guess - 1) + 1) with (zn (low + (guess - 1) + 1)) by lia.
    rewrite <- div2_nat.
    apply (IH low (guess - 1)%nat _ M); try lia.
    rewrite div2_nat. apply Z.div_le_upper_bound; lia.
  - rewrite (u64_sm (zn guess + 1)) by (unfold B62 in *; lia).
    replace (zn guess + 1) with (zn (S guess)) by lia. rewrite zc_at, leb_nat.
    destruct (Nat.leb_spec (c (S guess)) pos) as [H2|H2]; [|reflexivity].
    replace (zn (S guess)) with (zn (guess + 1)) by lia.
    rewrite (u64_sm (zn (guess + 1) + zn high)) by (unfold B62 in *; lia).
    replace (zn (guess + 1) + zn high) with (zn (guess + 1 + high)) by lia.
    rewrite <- div2_nat.
    apply (IH (guess + 1)%nat high _ (M + 1)); try lia.
    rewrite div2_nat. apply Z.div_le_upper_bound; lia.
Qed.

(* the whole generated function = the model's search started as sc_bsearch_cumulative starts it *)
Lemma gen_bsearch c nmemb pos guess fuel : c O = O -> (forall i, zn (c i) < B62) -> zn pos < B62 ->
  (0 < nmemb)%nat -> (guess < nmemb)%nat -> zn nmemb + zn fuel < B62 ->
  sc_bsearch_cumulative fuel (zc c) (zn nmemb) (zn pos) (zn guess) =
  option_map zn (owner_search_opt fuel c 0 (nmemb - 1) guess pos).
Proof.
  intros H0 Hc Hp Hn Hg Hf. unfold sc_bsearch_cumulative. cbv zeta.
  rewrite (u64_sm (zn nmemb - 1)) by (unfold B62 in *; lia).
  replace (zn nmemb - 1) with (zn (nmemb - 1)) by lia. change 0 with (zn 0).
  pose proof (gen_owner_loop c pos H0 Hc Hp fuel O (nmemb - 1)%nat guess (zn nmemb) ltac:(lia) ltac:(lia) ltac:(lia) Hf) as L.
  unfold loop_guess in L.
  destruct (sc_bsearch_cumulative_loop1 fuel (zc c) (zn pos) (zn guess) (zn (nmemb - 1)) (zn 0)) as [[[[g h] l]|r]|]; exact L.
Qed.

(* hence: whenever the generated function returns with the fuel the model uses, it returns the model's owner *)
Lemma gen_bsearch_model c nmemb pos guess r : c O = O -> (forall i, zn (c i) < B62) -> zn pos < B62 ->
  (0 < nmemb)%nat -> (guess < nmemb)%nat -> 2 * zn nmemb < B62 ->
  sc_bsearch_cumulative nmemb (zc c) (zn nmemb) (zn pos) (zn guess) = Some r ->
  r = zn (bsearch_cumulative c nmemb pos guess).
Proof.
  intros H0 Hc Hp Hn Hg Hf H. rewrite gen_bsearch in H by (try assumption; lia).
  unfold bsearch_cumulative.
  destruct (owner_search_opt nmemb c 0 (nmemb - 1) guess pos) as [x|] eqn:E; [|discriminate].
  apply owner_search_opt_sound in E. rewrite E. now injection H.
Qed.

(* ---------- the segment loop of sc_merge_bitonic ----------------------------------------------------------------------------- *)
Lemma gen_merge_guard off me lo n : merge_guard (zn n) (zn lo) (zn (lo + n)) (zn (cum off me)) (zn (cum off (S me))) = participates off me lo n.
Proof. unfold merge_guard, participates. change 1 with (zn 1). rewrite !ltb_nat. reflexivity. Qed.

Lemma gen_merge_ends lo n n2 : (n2 <= n)%nat -> zn lo + zn n < B62 ->
  merge_ends (zn lo) (zn n) (zn n2) = (zn (lo + (n - n2)), zn (lo + n2)).
Proof.
  intros H Hb. unfold merge_ends. cbv zeta. rewrite (u64_sm (zn lo + zn n)) by (unfold B62 in *; lia).
  rewrite !u64_sm by (unfold B62 in *; lia). f_equal; lia.
Qed.

Lemma gen_seg_cond lo r offset : zn lo + zn r < B62 ->
  merge_seg_cond1 (zn offset) (zn (lo + r)) (zn lo) = (offset <? r)%nat /\ merge_seg_cond2 (zn offset) (zn (lo + r)) (zn lo) = (offset <? r)%nat.
Proof.
  intros Hb. unfold merge_seg_cond1, merge_seg_cond2. rewrite !u64_sm by (unfold B62 in *; lia).
  replace (zn (lo + r) - zn lo) with (zn r) by lia. rewrite ltb_nat. split; reflexivity.
Qed.

Lemma gen_seg_next offset m : zn offset + zn m < B62 ->
  merge_seg_next1 (zn offset) (zn m) = zn (offset + m) /\ merge_seg_next2 (zn offset) (zn m) = zn (offset + m).
Proof. intros. unfold merge_seg_next1, merge_seg_next2. cbv zeta. rewrite !u64_sm by (unfold B62 in *; lia). split; lia. Qed.

(* one pass of the loop body: with lo' / hi' the owners the two searches return, the generated lengths and max_length are the
   model's (segs_loop), and the searches are called with the model's arguments (P, position, previous owner as guess) *)
Lemma gen_merge_seg c P lo hi_beg r offset lo_owner hi_owner lo' hi' :
  (forall i, zn (c i) < B62) -> zn lo + zn r < B62 -> zn hi_beg + zn r < B62 -> (offset <= r)%nat ->
  zn P < B31 -> zn lo_owner < B31 -> zn hi_owner < B31 -> zn lo' + 1 < B31 -> zn hi' + 1 < B31 ->
  (lo + offset <= c (S lo'))%nat -> (hi_beg + offset <= c (S hi'))%nat ->
  let lo_length := (c (S lo') - (lo + offset))%nat in
  let hi_length := (c (S hi') - (hi_beg + offset))%nat in
  let max_length := Nat.min (r - offset) (Nat.min lo_length hi_length) in
  merge_seg1 (zc c) (zn lo) (zn hi_beg) (zn (lo + r)) (zn offset) (zn lo_owner) (zn hi_owner) (zn P) (zn lo') (zn hi') =
  (zn lo', zn lo_length, zn hi', zn hi_length, zn max_length,
   zn P, zn (lo + offset), zn lo_owner, zn P, zn (hi_beg + offset), zn hi_owner).
Proof.
  intros Hc B1 B2 Ho BP Bl Bh Bl' Bh' L1 L2. cbv zeta. unfold merge_seg1. cbv zeta.
  assert (E31 : B31 < B62) by (unfold B31, B62; reflexivity).
  rewrite (u64_sm (zn P)), (u64_sm (zn lo_owner)), (u64_sm (zn hi_owner)) by (unfold B62 in *; lia).
  rewrite (s32_sm (zn lo')), (s32_sm (zn hi')) by lia.
  rewrite (s32_sm (zn lo' + 1)), (s32_sm (zn hi' + 1)) by lia.
  replace (zn lo' + 1) with (zn (S lo')) by lia. replace (zn hi' + 1) with (zn (S hi')) by lia.
  rewrite !zc_at.
  rewrite (u64_sm (zn lo + zn offset)), (u64_sm (zn hi_beg + zn offset)) by (unfold B62 in *; lia).
  pose proof (Hc (S lo')). pose proof (Hc (S hi')).
  rewrite (u64_sm (zn (c (S lo')) - (zn lo + zn offset))) by (unfold B62 in *; lia).
  rewrite (u64_sm (zn (c (S hi')) - (zn hi_beg + zn offset))) by (unfold B62 in *; lia).
  rewrite (u64_sm (zn (lo + r) - (zn lo + zn offset))) by (unfold B62 in *; lia).
  replace (zn (c (S lo')) - (zn lo + zn offset)) with (zn (c (S lo') - (lo + offset))) by lia.
  replace (zn (c (S hi')) - (zn hi_beg + zn offset)) with (zn (c (S hi') - (hi_beg + offset))) by lia.
  replace (zn (lo + r) - (zn lo + zn offset)) with (zn (r - offset)) by lia.
  set (ll := (c (S lo') - (lo + offset))%nat). set (hl := (c (S hi') - (hi_beg + offset))%nat).
  assert (Em : (if zn ll <? zn hl then zn ll else zn hl) = zn (Nat.min ll hl)).
  { rewrite ltb_nat. destruct (Nat.ltb_spec ll hl); lia. }
  rewrite Em.
  assert (Em2 : (if zn (r - offset) <? zn (Nat.min ll hl) then zn (r - offset) else zn (Nat.min ll hl)) = zn (Nat.min (r - offset) (Nat.min ll hl))).
  { rewrite ltb_nat. destruct (Nat.ltb_spec (r - offset) (Nat.min ll hl)); lia. }
  rewrite Em2. repeat f_equal; lia.
Qed.

(* loop 2 repeats loop 1's computation *)
Lemma gen_merge_seg2 : merge_seg2 = merge_seg1.
Proof. reflexivity. Qed.

(* ---------- which side, where, which tags --------------------------------------------------------------------------------------- *)
Lemma gen_sides lo_owner hi_owner me :
  merge_lo_side (zn lo_owner) (zn hi_owner) (zn me) = ((lo_owner =? me)%nat && negb (hi_owner =? me)%nat) /\
  merge_hi_side (zn lo_owner) (zn hi_owner) (zn me) = (negb (lo_owner =? me)%nat && (hi_owner =? me)%nat) /\
  merge_local (zn lo_owner) (zn hi_owner) (zn me) = ((lo_owner =? me)%nat && (hi_owner =? me)%nat).
Proof. unfold merge_lo_side, merge_hi_side, merge_local. rewrite !eqb_nat. repeat split; reflexivity. Qed.

(* byte offset of a segment in the local array = the model's element index (seg_pspec / rank_local) times the element size *)
Lemma gen_starts pos offset my_lo size : (my_lo <= pos + offset)%nat -> zn pos + zn offset < B62 -> 0 <= size -> zn (pos + offset - my_lo) * size < B62 ->
  merge_lo_start (zn pos) (zn offset) (zn my_lo) size = zn (pos + offset - my_lo) * size /\
  merge_hi_start (zn pos) (zn offset) (zn my_lo) size = zn (pos + offset - my_lo) * size /\
  merge_lo_start_local (zn pos) (zn offset) (zn my_lo) size = zn (pos + offset - my_lo) * size /\
  merge_hi_start_local (zn pos) (zn offset) (zn my_lo) size = zn (pos + offset - my_lo) * size.
Proof.
  intros H B1 Hs B2. unfold merge_lo_start, merge_hi_start, merge_lo_start_local, merge_hi_start_local.
  rewrite (u64_sm (zn pos + zn offset)) by (unfold B62 in *; lia).
  rewrite (u64_sm (zn pos + zn offset - zn my_lo)) by (unfold B62 in *; lia).
  replace (zn pos + zn offset - zn my_lo) with (zn (pos + offset - my_lo)) by lia.
  rewrite u64_sm by (unfold B62 in *; nia). repeat split; reflexivity.
Qed.

Lemma gen_bytes len size : 0 <= size -> zn len * size < B31 ->
  merge_bytes_lo (zn len) size = zn len * size /\ merge_bytes_hi (zn len) size = zn len * size.
Proof.
  intros Hs Hb. unfold merge_bytes_lo, merge_bytes_hi.
  assert (B31 < B62) by (unfold B31, B62; reflexivity).
  rewrite u64_sm by (unfold B62 in *; nia). rewrite s32_sm by nia. split; reflexivity.
Qed.

(* the tags of the model's per-rank program (PsortSched.v: receive with `if lo_side then tag_hi else tag_lo`, send with
   `if lo_side then tag_lo else tag_hi`) are the ones the four generated call sites pass *)
Lemma gen_tags (lo_side : bool) tag_lo tag_hi :
  (if lo_side then tag_hi else tag_lo) = (if lo_side then merge_lo_recv_tag tag_lo tag_hi else merge_hi_recv_tag tag_lo tag_hi) /\
  (if lo_side then tag_lo else tag_hi) = (if lo_side then merge_lo_send_tag tag_lo tag_hi else merge_hi_send_tag tag_lo tag_hi).
Proof. split; destruct lo_side; reflexivity. Qed.

(* ---------- the swap test ---------------------------------------------------------------------------------------------------------- *)
Lemma swap_eq (dir : bool) cmp : (b2z dir =? b2z (0 <? cmp)) = Bool.eqb dir (0 <? cmp).
Proof. destruct dir; destruct (0 <? cmp); reflexivity. Qed.

(* `dir == (compar (lo, hi) > 0)` in all five places = the model's swap_needed, for every comparison function *)
Lemma gen_swap (A : Type) (gt : A -> A -> bool) (dir : bool) (a b : A) cmp : gt a b = (0 <? cmp) ->
  merge_swap_0 (b2z dir) cmp = swap_needed A gt dir a b /\ merge_swap_1 (b2z dir) cmp = swap_needed A gt dir a b /\
  merge_swap_2 (b2z dir) cmp = swap_needed A gt dir a b /\ merge_swap_3 (b2z dir) cmp = swap_needed A gt dir a b /\
  merge_swap_4 (b2z dir) cmp = swap_needed A gt dir a b.
Proof.
  intros H. unfold merge_swap_0, merge_swap_1, merge_swap_2, merge_swap_3, merge_swap_4, swap_needed.
  rewrite H, swap_eq. repeat split; reflexivity.
Qed.

(* what is copied when the test holds: local = both elements exchanged through temp (model: ce); low side of a remote
   exchange (loops over received / sent, copies 1 and 3) = the partner's element overwrites mine (model: half_lo takes b);
   high side (copies 2 and 4) = the partner's element, which is the LOW one, overwrites mine (model: half_hi takes a) *)
Lemma gen_moves (dir : bool) cmp lo hi size temp :
  let sw := Bool.eqb dir (0 <? cmp) in
  merge_move_0 (b2z dir) cmp lo hi size temp = (if sw then (temp, lo, size, lo, hi, size, hi, temp, size) else (0, 0, 0, 0, 0, 0, 0, 0, 0)) /\
  merge_move_1 (b2z dir) cmp lo hi size = (if sw then (lo, hi, size) else (0, 0, 0)) /\
  merge_move_3 (b2z dir) cmp lo hi size = (if sw then (lo, hi, size) else (0, 0, 0)) /\
  merge_move_2 (b2z dir) cmp lo hi size = (if sw then (hi, lo, size) else (0, 0, 0)) /\
  merge_move_4 (b2z dir) cmp lo hi size = (if sw then (hi, lo, size) else (0, 0, 0)).
Proof.
  cbv zeta. unfold merge_move_0, merge_move_1, merge_move_2, merge_move_3, merge_move_4. cbv zeta.
  rewrite swap_eq. destruct (Bool.eqb dir (0 <? cmp)); repeat split; reflexivity.
Qed.

Lemma gen_remote_lower me prank :
  merge_remote_lower1 (zn me) (zn prank) = (me <? prank)%nat /\ merge_remote_lower2 (zn me) (zn prank) = (me <? prank)%nat.
Proof. unfold merge_remote_lower1, merge_remote_lower2. rewrite ltb_nat. split; reflexivity. Qed.

(* ---------- recursion ------------------------------------------------------------------------------------------------------------------ *)
(* sc_merge_bitonic recurses on [lo, lo + n2) and [lo + n2, hi) with the same direction (model: merge_ops f lo n2 dir ++
   merge_ops f (lo + n2) (n - n2) dir) *)
Lemma gen_merge_recurse lo n n2 dir : (n2 <= n)%nat -> zn lo + zn n < B62 ->
  merge_recurse (zn lo) (zn (lo + n)) (zn n2) dir = (zn lo, zn (lo + n2), dir, zn (lo + n2), zn (lo + n2 + (n - n2)), dir).
Proof.
  intros H Hb. unfold merge_recurse. cbv zeta. rewrite !u64_sm by (unfold B62 in *; lia).
  tup; lia.
Qed.

Lemma gen_psort_guard off me lo n : psort_guard (zn n) (zn lo) (zn (lo + n)) (zn (cum off me)) (zn (cum off (S me))) = participates off me lo n.
Proof. unfold psort_guard, participates. change 1 with (zn 1). rewrite !ltb_nat. reflexivity. Qed.

Lemma gen_psort_inside off me lo n : psort_inside (zn lo) (zn (lo + n)) (zn (cum off me)) (zn (cum off (S me))) = inside_rank off lo n me.
Proof. unfold psort_inside, inside_rank. rewrite !leb_nat. reflexivity. Qed.

(* sc_psort_bitonic: [lo, lo + n / 2) with the direction flipped, [lo + n / 2, hi) with the direction kept, then the merge of
   [lo, hi) (model: sort_ops f off lo (n / 2) (negb dir) ++ sort_ops f off (lo + n / 2) (n - n / 2) dir ++ merge_ops n lo n dir) *)
Lemma gen_psort_recurse lo n (dir : bool) : zn lo + zn n < B62 ->
  psort_recurse (zn n) (zn lo) (zn (lo + n)) (b2z dir) =
  (zn lo, zn (lo + n / 2), b2z (negb dir), zn (lo + n / 2), zn (lo + n / 2 + (n - n / 2)), b2z dir, zn lo, zn (lo + n), b2z dir).
Proof.
  intros Hb. unfold psort_recurse. cbv zeta. rewrite <- div2_nat.
  assert (n / 2 <= n)%nat by (apply Nat.div_le_upper_bound; lia).
  rewrite !u64_sm by (unfold B62 in *; lia).
  assert (E : b2z (negb (z2b (b2z dir))) = b2z (negb dir)) by (destruct dir; reflexivity).
  rewrite E. tup; lia.
Qed.

(* ---------- the local sort: what sc_psort_bitonic hands to qsort / qsort_r ---------------------------------------------------------- *)
(* the comparison function chosen by `dir ? sc_compare_r : sc_icompare_r` (GNU and BSD qsort_r; the thunk is ignored) and by
   `dir ? sc_compare : sc_icompare` (plain qsort, static pointer) is the user's function for dir != 0 and the user's function with
   the ARGUMENTS SWAPPED for dir == 0 - for every function `compar : Z -> Z -> Z`, i.e. for every integer it returns (INT_MIN
   included): the model's dir_cmp.  All three preprocessor variants are generated from the working tree on every run. *)
Lemma gen_compare_gnu compar (dir : bool) e1 e2 thunk : psort_local_cmp_gnu compar (b2z dir) e1 e2 thunk = dir_cmp Z compar dir e1 e2.
Proof. destruct dir; reflexivity. Qed.
Lemma gen_compare_bsd compar (dir : bool) e1 e2 thunk : psort_local_cmp_bsd compar (b2z dir) e1 e2 thunk = dir_cmp Z compar dir e1 e2.
Proof. destruct dir; reflexivity. Qed.
Lemma gen_compare_plain compar (dir : bool) e1 e2 thunk : psort_local_cmp_plain compar (b2z dir) e1 e2 thunk = dir_cmp Z compar dir e1 e2.
Proof. destruct dir; reflexivity. Qed.
(* `dir` is an int in C: every non-zero value selects the ascending function *)
Lemma gen_compare_any_dir compar dir e1 e2 thunk :
  psort_local_cmp_gnu compar dir e1 e2 thunk = dir_cmp Z compar (z2b dir) e1 e2 /\
  psort_local_cmp_bsd compar dir e1 e2 thunk = dir_cmp Z compar (z2b dir) e1 e2 /\
  psort_local_cmp_plain compar dir e1 e2 thunk = dir_cmp Z compar (z2b dir) e1 e2.
Proof. unfold psort_local_cmp_gnu, psort_local_cmp_bsd, psort_local_cmp_plain, dir_cmp. destruct (z2b dir); repeat split; reflexivity. Qed.

(* base, number and size of the elements of the local sort: the model's `lsort dir (lo - my_lo) n` (sort_prog) *)
Lemma gen_local_sort_args lo my_lo n size : (my_lo <= lo)%nat -> zn lo < B62 -> 0 <= size -> zn (lo - my_lo) * size < B62 ->
  psort_local_start_gnu (zn lo) (zn my_lo) size = zn (lo - my_lo) * size /\ psort_local_n_gnu n = n /\ psort_local_size_gnu size = size /\
  psort_local_start_bsd (zn lo) (zn my_lo) size = zn (lo - my_lo) * size /\ psort_local_n_bsd n = n /\ psort_local_size_bsd size = size /\
  psort_local_start_plain (zn lo) (zn my_lo) size = zn (lo - my_lo) * size /\ psort_local_n_plain n = n /\ psort_local_size_plain size = size.
Proof.
  intros H B1 Hs B2. unfold psort_local_start_gnu, psort_local_start_bsd, psort_local_start_plain.
  rewrite (u64_sm (zn lo - zn my_lo)) by (unfold B62 in *; lia).
  replace (zn lo - zn my_lo) with (zn (lo - my_lo)) by lia.
  rewrite u64_sm by (unfold B62 in *; nia). repeat split; reflexivity.
Qed.

(* composition with the contract of libc's qsort: with the GENERATED comparison functions handed to a qsort that fulfils the
   contract of the C standard, and a consistent user function `compar` over the element addresses with ARBITRARY integer
   results, the network of sc_psort sorts, permutes and keeps the counts (elements are identified by their addresses) *)
Section GenSorted.
  Variable compar : Z -> Z -> Z.
  Hypothesis compar_valid : cmp_valid Z compar.
  Variable qs : (Z -> Z -> Z) -> list Z -> list Z.
  Hypothesis qs_ok : qsort_contract Z qs.
  Variable thunk : Z.                                         (* the pointer `pst` passed through qsort_r *)

  Definition gen_sort_gnu (d : bool) (l : list Z) := qs (fun e1 e2 => psort_local_cmp_gnu compar (b2z d) e1 e2 thunk) l.
  Definition gen_sort_bsd (d : bool) (l : list Z) := qs (fun e1 e2 => psort_local_cmp_bsd compar (b2z d) e1 e2 thunk) l.
  Definition gen_sort_plain (d : bool) (l : list Z) := qs (fun e1 e2 => psort_local_cmp_plain compar (b2z d) e1 e2 thunk) l.

  Definition sorted_perm_counts (sort : bool -> list Z -> list Z) (counts : list nat) (xs : list (list Z)) : Prop :=
    StronglySorted (fun a b => compar a b <= 0) (concat (psort Z (gt_cmp Z compar) sort counts xs)) /\
  Permutation (concat (psort Z (gt_cmp Z compar) sort counts xs)) (concat xs) /\
  map (@length Z) (psort Z (gt_cmp Z compar) sort counts xs) = counts.

  Theorem gen_sorted counts xs : map (@length Z) xs = counts ->
    sorted_perm_counts gen_sort_gnu counts xs /\ sorted_perm_counts gen_sort_bsd counts xs /\ sorted_perm_counts gen_sort_plain counts xs.
  Proof.
    intros H. split; [|split].
    - apply (psort_correct_int Z compar compar_valid qs qs_ok (fun d e1 e2 => psort_local_cmp_gnu compar (b2z d) e1 e2 thunk)
               (fun d a b => f_equal Z.sgn (gen_compare_gnu compar d a b thunk)) counts xs H).
    - apply (psort_correct_int Z compar compar_valid qs qs_ok (fun d e1 e2 => psort_local_cmp_bsd compar (b2z d) e1 e2 thunk)
               (fun d a b => f_equal Z.sgn (gen_compare_bsd compar d a b thunk)) counts xs H).
    - apply (psort_correct_int Z compar compar_valid qs qs_ok (fun d e1 e2 => psort_local_cmp_plain compar (b2z d) e1 e2 thunk)
               (fun d a b => f_equal Z.sgn (gen_compare_plain compar d a b thunk)) counts xs H).
  Qed.
End GenSorted.
