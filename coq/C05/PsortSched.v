(* C05 - from the per-rank programs `psort_prog` to the global result under EVERY schedule.

   The system of the P per-rank message-passing programs `psort_prog tag_lo tag_hi counts r (nth r xs [])`
   (C05/PsortModel.v: the program that is extracted and co-simulated against the traces of the real sc_psort on every
   run), started with empty channels, has - in the POSTED-RECEIVE interleaving semantics of MPI/SemPosted.v - a run to
   the state in which rank r has returned the r-th array of `psort counts xs` and all channels are empty; by the
   confluence theorem of that semantics EVERY schedule ends in this state and no reachable state is stuck.

   Why the posted semantics.  Loop 1 of sc_merge_bitonic posts, per peer record, MPI_Irecv and then MPI_Isend; the
   requests are completed later by the two Waitsome loops.  `post_prog` lists them in this order.  Read with blocking
   receives (MPI/Sem.v) two ranks that exchange a segment both start with the receive and are stuck; the posted
   semantics lets a pending Irecv stay pending while the Isends posted after it are issued, and completes posted
   receives in any order.

   Structure of the proof.
   0. The programs are stated over an ARBITRARY element type A with comparison `gt`, local sort `sort` and a payload
      representation enc : list A -> payload, dec : payload -> list A with dec (enc l) = l (`psort_prog_g`);
      `psort_prog` is the instance A = Z, gt = Z.gtb, sort = zsort, enc = dec = identity BY CONVERSION
      (psort_prog_is_instance: reflexivity).
   1. WINDOW FORM.  `merge_prog_w` / `sort_prog_w`: every merge step is one `phase`: all sends of the step, then all
      its receives, then the computation.  The literal program is related to it by `nbeq` (C05/PsortPostNorm.v: a send
      moves in front of a receive posted earlier whose reply it does not use), which is a simulation for the posted
      semantics (PsortPostNorm.posting_order_same_result).
   2. MATCHING.  All ranks compute the same segment list (C05_segments).  A segment is maximal (`seg_max`), so two
      segments of one step never have the same pair of owners (`owners_distinct`); hence per rank and step the keys
      (peer, tag) of its sends and of its receives are duplicate free, rank a sends to d with tag t iff d receives
      from a with tag t (`match_nat`), and the message is the partner's segment of the global array before the step
      (`msg_content`).  So MPI/SemFrame.window_run applies: one merge step of all P ranks is one communication window;
      after it rank r holds `rank_merge_step ... (local_of r g)` with the receive buffers of the round semantics,
      i.e. its slice of `dist_merge_step g` (`sched_step`).
   3. RECURSION.  Induction along dist_merge / dist_sort (`sched_merge`, `sched_sort`); leaves (LSort) and ranks that
      do not take part are steps without communication.  `dist_psort = psort` is C05_dist_equals_seq.
   4. CONFLUENCE of the posted semantics gives every schedule.
   Uses functional extensionality (through Sem.gs_eq), like MPI/Sem.v. *)
From Coq Require Import ZArith Lia List Bool Arith PeanoNat FinFun.
From ScV Require Import MPI.Prog MPI.Sem MPI.SemFrame MPI.SemPosted C05.PsortPostNorm.
From ScV Require Import C05.PsortModel C05.ListAux C05.PsortPerm C05.PsortOwner C05.PsortDist C05.PsortBitonic C05.PsortCompose
                        C05.PsortComposeWait C05.PsortSorted.
Import ListNotations.

(* ---- 0/1. the per-rank program over an arbitrary element type; its window form ------------------------------------- *)
Section GenProg.
  Variable A : Type.
  Variable gt : A -> A -> bool.
  Variable sort : bool -> list A -> list A.
  Variable enc : list A -> payload.
  Variable dec : payload -> list A.
  Variable tag_lo tag_hi : Z.
  Variable off : list nat.
  Variable me : nat.
  Let my_lo := cum off me.
  Let my_hi := cum off (S me).

  (* the literal program: PsortModel.post_prog / merge_prog / sort_prog with A, gt, sort, enc, dec for Z, Z.gtb, zsort, id, id *)
  Fixpoint post_prog_g (specs : list pspec) (l : list A) (acc : list (peer A)) (k : list (peer A) -> prog) : prog :=
    match specs with
    | [] => k (rev acc)
    | s :: t =>
      recv (Z.of_nat (ps_rank s)) (if ps_lo_side s then tag_hi else tag_lo) (fun m =>
      send (Z.of_nat (ps_rank s)) (if ps_lo_side s then tag_lo else tag_hi) (enc (slice A l (ps_start s) (ps_len s)))
        (post_prog_g t l (mkpeer (ps_rank s) (ps_len s) (ps_start s) (dec m) :: acc) k))
    end.

  Fixpoint merge_prog_g (fuel lo n : nat) (dir : bool) (l : list A) (k : list A -> prog) : prog :=
    match fuel with
    | O => k l
    | S f =>
      if participates off me lo n then
        let n2 := n2_of n in
        let segs := segments off me lo n2 (n - n2) in
        post_prog_g (rank_pspecs me my_lo lo (lo + n2) segs) l [] (fun peers =>
          let l1 := rank_local A gt dir me my_lo lo (lo + n2) segs l in
          let l2 := fold_left (apply_peer A gt dir me) peers l1 in
          merge_prog_g f lo n2 dir l2 (fun l3 => merge_prog_g f (lo + n2) (n - n2) dir l3 k))
      else k l
    end.

  Fixpoint sort_prog_g (fuel lo n : nat) (dir : bool) (l : list A) (k : list A -> prog) : prog :=
    match fuel with
    | O => k l
    | S f =>
      if participates off me lo n then
        if (my_lo <=? lo) && (lo + n <=? my_hi) then k (lsort A sort dir (lo - my_lo) n l)
        else sort_prog_g f lo (n / 2) (negb dir) l (fun l1 =>
             sort_prog_g f (lo + n / 2) (n - n / 2) dir l1 (fun l2 =>
             merge_prog_g n lo n dir l2 k))
      else k l
    end.

  (* the window form: per merge step all sends, then all receives, then the computation *)
  Definition sd_of (l : list A) (s : pspec) : Z * Z * payload :=
    (Z.of_nat (ps_rank s), (if ps_lo_side s then tag_lo else tag_hi), enc (slice A l (ps_start s) (ps_len s))).
  Definition rc_of (s : pspec) : Z * Z := (Z.of_nat (ps_rank s), if ps_lo_side s then tag_hi else tag_lo).
  Fixpoint mkpeers (specs : list pspec) (ms : list payload) : list (peer A) :=
    match specs with
    | [] => []
    | s :: t => mkpeer (ps_rank s) (ps_len s) (ps_start s) (dec (hd [] ms)) :: mkpeers t (tl ms)
    end.

  Fixpoint merge_prog_w (fuel lo n : nat) (dir : bool) (l : list A) (k : list A -> prog) : prog :=
    match fuel with
    | O => k l
    | S f =>
      if participates off me lo n then
        let n2 := n2_of n in
        let segs := segments off me lo n2 (n - n2) in
        let specs := rank_pspecs me my_lo lo (lo + n2) segs in
        phase (map (sd_of l) specs) (map rc_of specs) (fun ms =>
          let l1 := rank_local A gt dir me my_lo lo (lo + n2) segs l in
          let l2 := fold_left (apply_peer A gt dir me) (mkpeers specs ms) l1 in
          merge_prog_w f lo n2 dir l2 (fun l3 => merge_prog_w f (lo + n2) (n - n2) dir l3 k))
      else k l
    end.

  Fixpoint sort_prog_w (fuel lo n : nat) (dir : bool) (l : list A) (k : list A -> prog) : prog :=
    match fuel with
    | O => k l
    | S f =>
      if participates off me lo n then
        if (my_lo <=? lo) && (lo + n <=? my_hi) then k (lsort A sort dir (lo - my_lo) n l)
        else sort_prog_w f lo (n / 2) (negb dir) l (fun l1 =>
             sort_prog_w f (lo + n / 2) (n - n / 2) dir l1 (fun l2 =>
             merge_prog_w n lo n dir l2 k))
      else k l
    end.

  Lemma mkpeers_map (h : pspec -> payload) : forall specs,
    mkpeers specs (map h specs) = map (fun s => mkpeer (ps_rank s) (ps_len s) (ps_start s) (dec (h s))) specs.
  Proof. induction specs as [|s t IH]; cbn [mkpeers map hd tl]; [reflexivity|]. rewrite IH. reflexivity. Qed.

  (* the literal posting order  Irecv; Isend; Irecv; Isend; ...  is the window with the sends moved to the front *)
  Lemma post_norm l : forall specs acc accm (k : list (peer A) -> prog) (K : list payload -> prog),
    (forall ms, nbeq (k (rev acc ++ mkpeers specs ms)) (K (rev accm ++ ms))) ->
    nbeq (post_prog_g specs l acc k) (do_sends (map (sd_of l) specs) (do_recvs (map rc_of specs) accm K)).
  Proof.
    induction specs as [|s t IH]; intros acc accm k K H.
    - cbn [post_prog_g map do_sends do_recvs]. specialize (H []). cbn [mkpeers] in H. rewrite !app_nil_r in H. exact H.
    - cbn [post_prog_g map do_sends do_recvs]. unfold sd_of at 1. unfold rc_of at 1.
      eapply nb_trans.
      { apply nbeq_recv. intros m. apply nbeq_send.
        apply (IH (mkpeer (ps_rank s) (ps_len s) (ps_start s) (dec m) :: acc) (m :: accm) k K).
        intros ms. specialize (H (m :: ms)). cbn [mkpeers hd tl rev] in *. rewrite <- !app_assoc. exact H. }
      exact (hoist_sends (Z.of_nat (ps_rank s)) (if ps_lo_side s then tag_hi else tag_lo)
               ((Z.of_nat (ps_rank s), (if ps_lo_side s then tag_lo else tag_hi), enc (slice A l (ps_start s) (ps_len s)))
                  :: map (sd_of l) t)
               (fun m => do_recvs (map rc_of t) (m :: accm) K)).
  Qed.

  Lemma merge_norm : forall f lo n dir l k k', (forall x, nbeq (k x) (k' x)) ->
    nbeq (merge_prog_g f lo n dir l k) (merge_prog_w f lo n dir l k').
  Proof.
    induction f as [|f IH]; intros lo n dir l k k' H; cbn [merge_prog_g merge_prog_w]; [apply H|].
    destruct (participates off me lo n); [|apply H]. cbv zeta. unfold phase.
    apply post_norm. intros ms. cbn [rev app]. apply IH. intros l3. apply IH. exact H.
  Qed.

  Lemma sort_norm : forall f lo n dir l k k', (forall x, nbeq (k x) (k' x)) ->
    nbeq (sort_prog_g f lo n dir l k) (sort_prog_w f lo n dir l k').
  Proof.
    induction f as [|f IH]; intros lo n dir l k k' H; cbn [sort_prog_g sort_prog_w]; [apply H|].
    destruct (participates off me lo n); [|apply H].
    destruct ((my_lo <=? lo) && (lo + n <=? my_hi)); [apply H|].
    apply IH. intros l1. apply IH. intros l2. apply merge_norm. exact H.
  Qed.

  (* ranks that do not take part in a step do not communicate in it *)
  Lemma merge_w_idle f lo n dir l k : participates off me lo n = false -> merge_prog_w f lo n dir l k = k l.
  Proof. intros H. destruct f; cbn [merge_prog_w]; [reflexivity|]. rewrite H. reflexivity. Qed.
  Lemma sort_w_idle f lo n dir l k : participates off me lo n = false -> sort_prog_w f lo n dir l k = k l.
  Proof. intros H. destruct f; cbn [sort_prog_w]; [reflexivity|]. rewrite H. reflexivity. Qed.
End GenProg.

Definition psort_prog_g (A : Type) (gt : A -> A -> bool) (sort : bool -> list A -> list A)
           (enc : list A -> payload) (dec : payload -> list A) (tag_lo tag_hi : Z)
           (counts : list nat) (me : nat) (mine : list A) : prog :=
  let off := cumul 0 counts in
  let total := cum off (length counts) in
  sort_prog_g A gt sort enc dec tag_lo tag_hi off me total 0 total true mine (fun l => Ret (enc l)).
Definition psort_prog_w (A : Type) (gt : A -> A -> bool) (sort : bool -> list A -> list A)
           (enc : list A -> payload) (dec : payload -> list A) (tag_lo tag_hi : Z)
           (counts : list nat) (me : nat) (mine : list A) : prog :=
  let off := cumul 0 counts in
  let total := cum off (length counts) in
  sort_prog_w A gt sort enc dec tag_lo tag_hi off me total 0 total true mine (fun l => Ret (enc l)).

(* the co-simulated program IS the integer instance (by conversion) *)
Lemma psort_prog_is_instance tag_lo tag_hi counts me mine :
  psort_prog tag_lo tag_hi counts me mine =
  psort_prog_g Z Z.gtb zsort (fun l => l) (fun m => m) tag_lo tag_hi counts me mine.
Proof. reflexivity. Qed.

Lemma psort_prog_window_form A gt sort enc dec tag_lo tag_hi counts me mine :
  nbeq (psort_prog_g A gt sort enc dec tag_lo tag_hi counts me mine) (psort_prog_w A gt sort enc dec tag_lo tag_hi counts me mine).
Proof. unfold psort_prog_g, psort_prog_w. apply sort_norm. intros x. apply nb_refl. Qed.

(* ---- lists ------------------------------------------------------------------------------------------------------------ *)
Lemma FOP_ne_NoDup {B} (l : list B) : ForallOrdPairs (fun a b => a <> b) l -> NoDup l.
Proof.
  induction 1 as [|a l Ha Hl IH]; constructor; [|exact IH].
  intros Hin. rewrite Forall_forall in Ha. exact (Ha a Hin eq_refl).
Qed.

Lemma NoDup_map_factor {B K K'} (key : B -> K) (f : B -> K') (l : list B) :
  (forall p q, In p l -> In q l -> f p = f q -> key p = key q) -> NoDup (map key l) -> NoDup (map f l).
Proof.
  induction l as [|a l IH]; intros H Hn; cbn [map] in *; [constructor|].
  inversion Hn as [|? ? Hnot Hn']; subst. constructor.
  - intros Hin. apply in_map_iff in Hin. destruct Hin as [b [E Hb]]. apply Hnot.
    rewrite <- (H b a (or_intror Hb) (or_introl eq_refl) E). apply in_map. exact Hb.
  - apply IH; [|exact Hn']. intros p q Hp Hq. apply H; right; assumption.
Qed.

Lemma split_counts_of_concat {B} (xs : list (list B)) : split_counts B (map (@length B) xs) (concat xs) = xs.
Proof.
  induction xs as [|x xs IH]; cbn [map concat split_counts]; [reflexivity|].
  rewrite firstn_len_app, skipn_len_app, IH. reflexivity.
Qed.

Lemma split_counts_nth {B} : forall counts me (g : list B), me < length counts ->
  nth me (split_counts B counts g) [] =
  firstn (nth me counts 0) (skipn (fold_right Nat.add 0 (firstn me counts)) g).
Proof.
  induction counts as [|c t IH]; intros me g H; [cbn in H; lia|].
  destruct me as [|me]; cbn [split_counts nth firstn fold_right]; [reflexivity|].
  rewrite IH by (cbn in H; lia). rewrite skipn_add. reflexivity.
Qed.

(* ---- 2. the segments of one merge step are maximal; no two of them have the same pair of owners ------------------- *)
Definition seg_max (c : nat -> nat) (lo hi_beg r : nat) (s : seg) : Prop :=
  s_len s = Nat.min (r - s_off s) (Nat.min (c (S (s_lo_owner s)) - (lo + s_off s)) (c (S (s_hi_owner s)) - (hi_beg + s_off s))).

Lemma segs_loop_max c P lo hi_beg r : forall fuel o g1 g2, Forall (seg_max c lo hi_beg r) (segs_loop fuel c P lo hi_beg r o g1 g2).
Proof.
  induction fuel as [|f IH]; intros o g1 g2; cbn [segs_loop]; [constructor|].
  destruct (o <? r); constructor; [reflexivity|apply IH].
Qed.

Definition seg_owners_ne (s s' : seg) : Prop := ~ (s_lo_owner s = s_lo_owner s' /\ s_hi_owner s = s_hi_owner s').

Lemma owners_distinct c P lo n2 r segs :
  seg_chain c P lo (lo + n2) r 0 segs -> Forall (seg_max c lo (lo + n2) r) segs -> ForallOrdPairs seg_owners_ne segs.
Proof.
  intros Hch Hmax. destruct (chain_facts _ _ _ _ _ _ _ Hch) as [F [O _]].
  apply (FOP_strengthen (fun s => seg_wf c P lo n2 r s /\ seg_max c lo (lo + n2) r s) seg_before); [| |exact O].
  - intros x y [Wx Mx] [Wy My] B [E1 E2]. unfold seg_wf, seg_max, seg_before in *. rewrite E1, E2 in *. lia.
  - rewrite Forall_forall in *. intros s Hs. split; [apply (F s Hs)|apply (Hmax s Hs)].
Qed.

(* ---- 2'. sends and receives of one merge step match --------------------------------------------------------------------
   One merge step (lo, n) with n2 = n2_of n compares [lo, lo + r) with [lo + n2, lo + n2 + r), r = n - n2.  `specs me`:
   the peer records rank `me` posts in this step (one per segment with exactly one owner = me). *)
Section Match.
  Variable counts : list nat.
  Let off := cumul 0 counts.
  Let P := length counts.
  Let c := cum off.
  Variables lo n : nat.
  Hypothesis Hn : 2 <= n.
  Hypothesis Hhi : lo + n <= c P.
  Let n2 := n2_of n.
  Let r := n - n2.
  Notation wf := (seg_wf c P lo n2 r).

  Lemma n2_bounds : n2 < n /\ r <= n2 /\ lo + n2 + r = lo + n.
  Proof using All. destruct (n2_of_bounds n Hn) as [k [_ B]]. fold n2 in B. unfold r. lia. Qed.

  Definition segs_of (me : nat) : list seg := segments off me lo n2 r.
  Definition specs (me : nat) : list pspec := rank_pspecs me (c me) lo (lo + n2) (segs_of me).

  Lemma segs_same a b : a < P -> b < P -> segs_of a = segs_of b.
  Proof using All.
    intros Ha Hb. destruct n2_bounds as [_ [_ E]].
    destruct (segments_correct counts b lo n2 r Hb ltac:(fold off; fold c; fold P; lia)) as [_ S]. exact (S a Ha).
  Qed.
  Lemma segs_chain a : a < P -> seg_chain c P lo (lo + n2) r 0 (segs_of a).
  Proof using All.
    intros Ha. destruct n2_bounds as [_ [_ E]].
    destruct (segments_correct counts a lo n2 r Ha ltac:(fold off; fold c; fold P; lia)) as [S _]. exact S.
  Qed.
  Lemma segs_wf a s : a < P -> In s (segs_of a) -> wf s.
  Proof using All.
    intros Ha Hs. destruct (chain_facts _ _ _ _ _ _ _ (segs_chain a Ha)) as [F _].
    rewrite Forall_forall in F. apply (F s Hs).
  Qed.
  Lemma segs_distinct a : a < P -> ForallOrdPairs seg_owners_ne (segs_of a).
  Proof using All.
    intros Ha. apply (owners_distinct c P lo n2 r); [apply segs_chain; exact Ha|].
    unfold segs_of, segments. apply segs_loop_max.
  Qed.

  Lemma in_specs a ps : In ps (specs a) <-> exists s, In s (segs_of a) /\
    ((s_lo_owner s = a /\ s_hi_owner s <> a /\
      ps = mkpspec (s_hi_owner s) (s_len s) (lo + s_off s - c a) true (lo + n2 + s_off s)) \/
     (s_lo_owner s <> a /\ s_hi_owner s = a /\
      ps = mkpspec (s_lo_owner s) (s_len s) (lo + n2 + s_off s - c a) false (lo + s_off s))).
  Proof using All.
    unfold specs, rank_pspecs. rewrite in_flat_map.
    split; intros [s [Hs H]]; exists s; (split; [exact Hs|]); unfold seg_pspec in *;
      destruct (s_lo_owner s =? a) eqn:E1; destruct (s_hi_owner s =? a) eqn:E2; cbn [andb negb] in *; b2p.
    - destruct H.
    - destruct H as [<-|[]]. left. auto.
    - destruct H as [<-|[]]. right. auto.
    - destruct H.
    - destruct H as [[? [? _]]|[? [? _]]]; contradiction.
    - destruct H as [[_ [_ ->]]|[? _]]; [left; reflexivity|contradiction].
    - destruct H as [[? _]|[_ [_ ->]]]; [contradiction|left; reflexivity].
    - destruct H as [[? _]|[_ [? _]]]; contradiction.
  Qed.

  Definition pkey (ps : pspec) : nat * bool := (ps_rank ps, ps_lo_side ps).

  Lemma specs_keys_nodup a : a < P -> NoDup (map pkey (specs a)).
  Proof using All.
    intros Ha. apply FOP_ne_NoDup. apply FOP_map. unfold specs, rank_pspecs.
    apply (FOP_flat_map seg_owners_ne); [| |apply segs_distinct; exact Ha].
    - intros x. unfold seg_pspec.
      destruct ((s_lo_owner x =? a) && negb (s_hi_owner x =? a));
        [|destruct (negb (s_lo_owner x =? a) && (s_hi_owner x =? a))]; repeat constructor.
    - intros x y p q R Hp Hq E. apply R. unfold seg_pspec in Hp, Hq.
      destruct ((s_lo_owner x =? a) && negb (s_hi_owner x =? a)) eqn:Cx1;
        [|destruct (negb (s_lo_owner x =? a) && (s_hi_owner x =? a)) eqn:Cx2; [|destruct Hp]];
      (destruct ((s_lo_owner y =? a) && negb (s_hi_owner y =? a)) eqn:Cy1;
        [|destruct (negb (s_lo_owner y =? a) && (s_hi_owner y =? a)) eqn:Cy2; [|destruct Hq]]);
      destruct Hp as [<-|[]]; destruct Hq as [<-|[]]; unfold pkey in E; cbn [ps_rank ps_lo_side] in E;
      injection E as E; try discriminate; b2p; split; congruence.
  Qed.

  Lemma specs_rank a ps : a < P -> In ps (specs a) -> ps_rank ps < P /\ ps_rank ps <> a.
  Proof using All.
    intros Ha Hin. apply in_specs in Hin. destruct Hin as [s [Hs H]].
    destruct (segs_wf a s Ha Hs) as (W1&W2&W3&W4&_).
    destruct H as [[E1 [E2 ->]]|[E1 [E2 ->]]]; cbn [ps_rank]; auto.
  Qed.

  (* a rank outside the compared ranges owns no segment *)
  Lemma specs_idle me : me < P -> participates off me lo n = false -> specs me = [].
  Proof using All.
    intros Hme Hp. destruct (specs me) as [|ps t] eqn:E; [reflexivity|exfalso].
    assert (Hin : In ps (specs me)) by (rewrite E; left; reflexivity).
    apply in_specs in Hin. destruct Hin as [s [Hs H]].
    destruct (segs_wf me s Hme Hs) as (W1&W2&W3&W4&W5&W6&W7&W8).
    destruct n2_bounds as [B1 [B2 B3]]. unfold participates in Hp. fold c in Hp.
    destruct H as [[L1 _]|[_ [L2 _]]]; [rewrite L1 in *|rewrite L2 in *]; b2pd; lia.
  Qed.

  Section Tags.
    Variables tag_lo tag_hi : Z.
    (* rank a sends to d with tag t  iff  d receives from a with tag t *)
    Lemma match_nat a d t : a < P -> d < P ->
      (exists ps, In ps (specs a) /\ ps_rank ps = d /\ (if ps_lo_side ps then tag_lo else tag_hi) = t) <->
      (exists ps', In ps' (specs d) /\ ps_rank ps' = a /\ (if ps_lo_side ps' then tag_hi else tag_lo) = t).
    Proof using All.
      intros Ha Hd. split; intros [ps [Hin [E1 E2]]]; apply in_specs in Hin; destruct Hin as [s [Hs H]].
      - rewrite (segs_same a d Ha Hd) in Hs.
        destruct H as [[L1 [L2 ->]]|[L1 [L2 ->]]]; cbn [ps_rank ps_lo_side] in *.
        + exists (mkpspec (s_lo_owner s) (s_len s) (lo + n2 + s_off s - c d) false (lo + s_off s)).
          split; [|cbn; split; [exact L1|exact E2]].
          apply in_specs. exists s. split; [exact Hs|]. right. split; [lia|]. split; [exact E1|reflexivity].
        + exists (mkpspec (s_hi_owner s) (s_len s) (lo + s_off s - c d) true (lo + n2 + s_off s)).
          split; [|cbn; split; [exact L2|exact E2]].
          apply in_specs. exists s. split; [exact Hs|]. left. split; [exact E1|]. split; [lia|reflexivity].
      - rewrite (segs_same d a Hd Ha) in Hs.
        destruct H as [[L1 [L2 ->]]|[L1 [L2 ->]]]; cbn [ps_rank ps_lo_side] in *.
        + exists (mkpspec (s_lo_owner s) (s_len s) (lo + n2 + s_off s - c a) false (lo + s_off s)).
          split; [|cbn; split; [exact L1|exact E2]].
          apply in_specs. exists s. split; [exact Hs|]. right. split; [lia|]. split; [exact E1|reflexivity].
        + exists (mkpspec (s_hi_owner s) (s_len s) (lo + s_off s - c a) true (lo + n2 + s_off s)).
          split; [|cbn; split; [exact L2|exact E2]].
          apply in_specs. exists s. split; [exact Hs|]. left. split; [exact E1|]. split; [lia|reflexivity].
    Qed.

  End Tags.
End Match.

(* sends and receives of one merge step match one to one *)
Theorem step_matching (tag_lo tag_hi : Z) counts lo n a d t :
  2 <= n -> lo + n <= cum (cumul 0 counts) (length counts) -> a < length counts -> d < length counts ->
  ((exists ps, In ps (specs counts lo n a) /\ ps_rank ps = d /\ (if ps_lo_side ps then tag_lo else tag_hi) = t) <->
   (exists ps', In ps' (specs counts lo n d) /\ ps_rank ps' = a /\ (if ps_lo_side ps' then tag_hi else tag_lo) = t)) /\
  NoDup (map pkey (specs counts lo n a)).
Proof.
  intros Hn Hhi Ha Hd.
  split; [exact (match_nat counts lo n Hn Hhi tag_lo tag_hi a d t Ha Hd)|exact (specs_keys_nodup counts lo n Hn Hhi a Ha)].
Qed.

(* ---- 3. the schedule -------------------------------------------------------------------------------------------------- *)
Section Sched.
  Variable A : Type.
  Variable gt : A -> A -> bool.
  Variable sort : bool -> list A -> list A.
  Hypothesis sort_length : forall d l, length (sort d l) = length l.
  Variable enc : list A -> payload.
  Variable dec : payload -> list A.
  Hypothesis dec_enc : forall l, dec (enc l) = l.
  Variable tag_lo tag_hi : Z.
  Hypothesis tags_ne : tag_lo <> tag_hi.
  Variable counts : list nat.
  Let off := cumul 0 counts.
  Let P := length counts.
  Let c := cum off.

  Notation local_of := (local_of A off).
  Notation sd_of := (sd_of A enc tag_lo tag_hi).
  Notation rc_of := (rc_of tag_lo tag_hi).
  Notation mkpeers := (mkpeers A dec).
  Notation merge_prog_w := (merge_prog_w A gt enc dec tag_lo tag_hi off).
  Notation sort_prog_w := (sort_prog_w A gt sort enc dec tag_lo tag_hi off).

  Definition ranks : list Z := map Z.of_nat (seq 0 P).
  Lemma In_ranks x : In x ranks <-> exists me, me < P /\ x = Z.of_nat me.
  Proof.
    unfold ranks. rewrite in_map_iff. split.
    - intros [me [E H]]. apply in_seq in H. exists me. split; [lia|auto].
    - intros [me [H E]]. exists me. split; [auto|apply in_seq; lia].
  Qed.
  Lemma NoDup_ranks : NoDup ranks.
  Proof. unfold ranks. apply Injective_map_NoDup; [|apply seq_NoDup]. intros x y H. lia. Qed.

  Lemma c_range me : me < P -> c me <= c (S me) /\ c (S me) <= c P.
  Proof. intros H. split; apply (c_mono counts); fold P; lia. Qed.

  Lemma local_of_length me g : me < P -> length g = c P -> length (local_of me g) = c (S me) - c me.
  Proof. intros H L. unfold PsortModel.local_of. fold c. destruct (c_range me H). apply slice_length. lia. Qed.

  (* the pieces of a list glued from pieces of the right lengths *)
  Lemma concat_pieces_length (F : nat -> list A) : (forall r, r < P -> length (F r) = c (S r) - c r) ->
    forall k, k <= P -> length (concat (map F (seq 0 k))) = c k.
  Proof.
    intros HF. induction k as [|k IH]; intros Hk.
    - cbn [seq map concat length]. symmetry. exact (cum_0 counts).
    - rewrite seq_S, map_app, concat_app, app_length, IH by lia. cbn [map concat Nat.add]. rewrite app_nil_r, HF by lia. destruct (c_range k ltac:(lia)). lia.
  Qed.
  Lemma local_of_concat (F : nat -> list A) me : me < P -> (forall r, r < P -> length (F r) = c (S r) - c r) ->
    local_of me (concat (map F (seq 0 P))) = F me.
  Proof.
    intros Hme HF.
    assert (E : seq 0 P = seq 0 me ++ me :: seq (S me) (P - S me)).
    { replace (seq 0 P) with (seq 0 (me + S (P - S me))) by (f_equal; lia). rewrite seq_app. reflexivity. }
    rewrite E, map_app, concat_app. cbn [map concat].
    unfold PsortModel.local_of, slice. fold c.
    replace (c (S me) - c me) with (length (F me)) by (apply HF; exact Hme).
    rewrite <- (concat_pieces_length F HF me ltac:(lia)), skipn_len_app. apply firstn_len_app.
  Qed.

  Lemma participates_sub me lo n lo' n' : lo <= lo' -> lo' + n' <= lo + n ->
    participates off me lo n = false -> participates off me lo' n' = false.
  Proof.
    intros H1 H2 Hp. destruct (participates off me lo' n') eqn:E; [|reflexivity].
    unfold participates in *. b2pd; lia.
  Qed.

  (* ---- one merge step ---------------------------------------------------------------------------------------------- *)
  Section Step.
    Variables (dir : bool) (lo n : nat) (g : list A).
    Hypothesis Hn : 2 <= n.
    Hypothesis Hhi : lo + n <= c P.
    Hypothesis Lg : length g = c P.
    Let n2 := n2_of n.
    Let r := n - n2.
    Notation specs := (PsortSched.specs counts lo n).
    Notation segs_of := (PsortSched.segs_of counts lo n).
    Notation n2_bounds := (PsortSched.n2_bounds counts lo n Hn Hhi).
    Notation segs_same := (PsortSched.segs_same counts lo n Hn Hhi).
    Notation segs_wf := (PsortSched.segs_wf counts lo n Hn Hhi).
    Notation in_specs := (PsortSched.in_specs counts lo n Hn Hhi).
    Notation specs_keys_nodup := (PsortSched.specs_keys_nodup counts lo n Hn Hhi).
    Notation specs_rank := (PsortSched.specs_rank counts lo n Hn Hhi).
    Notation specs_idle := (PsortSched.specs_idle counts lo n Hn Hhi).
    Notation match_nat := (PsortSched.match_nat counts lo n Hn Hhi tag_lo tag_hi).


    (* keys (peer, tag) of the sends and of the receives of a rank are duplicate free *)
    Lemma tag_key_inj (p q : pspec) (t1 t2 : Z) : t1 <> t2 ->
      (Z.of_nat (ps_rank p), if ps_lo_side p then t1 else t2) = (Z.of_nat (ps_rank q), if ps_lo_side q then t1 else t2) ->
      pkey p = pkey q.
    Proof.
      intros Hne E. injection E as E1 E2. apply Nat2Z.inj in E1. unfold pkey. rewrite E1. f_equal.
      destruct (ps_lo_side p), (ps_lo_side q); try reflexivity; exfalso; auto.
    Qed.

    Lemma recv_keys_nodup a : a < P -> NoDup (map rc_of (specs a)).
    Proof.
      intros Ha. apply (NoDup_map_factor pkey); [|apply specs_keys_nodup; exact Ha].
      intros p q _ _ E. unfold PsortSched.rc_of in E. apply (tag_key_inj p q tag_hi tag_lo); [auto|exact E].
    Qed.
    Lemma send_keys_nodup a l : a < P -> NoDup (map skey (map (sd_of l) (specs a))).
    Proof.
      intros Ha. rewrite map_map. apply (NoDup_map_factor pkey); [|apply specs_keys_nodup; exact Ha].
      intros p q _ _ E. unfold skey, PsortSched.sd_of in E. cbn [fst snd] in E.
      apply (tag_key_inj p q tag_lo tag_hi); [auto|exact E].
    Qed.

    (* the message a receive obtains: the partner's segment of the global array before the step *)
    Lemma msg_content me ps : me < P -> In ps (specs me) ->
      dec (lookup (map (sd_of (local_of (ps_rank ps) g)) (specs (ps_rank ps))) (Z.of_nat me) (snd (rc_of ps))) =
      slice A g (ps_remote ps) (ps_len ps).
    Proof.
      intros Hme Hin. destruct (specs_rank me ps Hme Hin) as [Hb Hne].
      apply in_specs in Hin. destruct Hin as [s [Hs H]].
      assert (W : seg_wf c P lo n2 r s) by exact (segs_wf me s Hme Hs). destruct W as (W1&W2&W3&W4&W5&W6&W7&W8).
      rewrite (segs_same me (ps_rank ps) Hme Hb) in Hs.
      assert (B : n2 < n /\ r <= n2 /\ lo + n2 + r = lo + n) by exact n2_bounds. destruct B as [B1 [B2 B3]].
      destruct H as [[L1 [L2 ->]]|[L1 [L2 ->]]]; cbn [ps_rank ps_lo_side ps_remote ps_len rc_of snd PsortSched.rc_of] in *.
      - (* I am the lower owner: the partner sends its upper segment with tag_hi *)
        set (b := s_hi_owner s) in *. destruct (c_range b Hb) as [R1 R2].
        assert (I : In (Z.of_nat me, tag_hi, enc (slice A (local_of b g) (lo + n2 + s_off s - c b) (s_len s)))
                       (map (sd_of (local_of b g)) (specs b))).
        { apply in_map_iff. exists (mkpspec (s_lo_owner s) (s_len s) (lo + n2 + s_off s - c b) false (lo + s_off s)).
          split; [unfold PsortSched.sd_of; cbn; rewrite L1; reflexivity|].
          apply in_specs. exists s. split; [exact Hs|]. right. split; [lia|]. split; reflexivity. }
        unfold lookup. rewrite (sent_one _ _ _ _ (send_keys_nodup b _ Hb) I). cbn [hd]. rewrite dec_enc.
        unfold PsortModel.local_of. fold c. rewrite (slice_slice A counts) by lia. f_equal. lia.
      - (* I am the upper owner: the partner sends its lower segment with tag_lo *)
        set (b := s_lo_owner s) in *. destruct (c_range b Hb) as [R1 R2].
        assert (I : In (Z.of_nat me, tag_lo, enc (slice A (local_of b g) (lo + s_off s - c b) (s_len s)))
                       (map (sd_of (local_of b g)) (specs b))).
        { apply in_map_iff. exists (mkpspec (s_hi_owner s) (s_len s) (lo + s_off s - c b) true (lo + n2 + s_off s)).
          split; [unfold PsortSched.sd_of; cbn; rewrite L2; reflexivity|].
          apply in_specs. exists s. split; [exact Hs|]. left. split; [reflexivity|]. split; [lia|reflexivity]. }
        unfold lookup. rewrite (sent_one _ _ _ _ (send_keys_nodup b _ Hb) I). cbn [hd]. rewrite dec_enc.
        unfold PsortModel.local_of. fold c. rewrite (slice_slice A counts) by lia. f_equal. lia.
    Qed.

    (* the slice of a rank after the round = what the rank computes from its slice and the partners' segments *)
    Lemma local_of_step me : me < P ->
      local_of me (dist_merge_step A gt dir off lo n g) =
      if participates off me lo n
      then rank_merge_step A gt dir off me lo n (fun s => slice A g (ps_remote s) (ps_len s)) (local_of me g)
      else local_of me g.
    Proof.
      intros Hme. unfold off. rewrite (dist_merge_step_eq A gt sort counts dir lo n g Hn Hhi Lg), run_halfclean_ops.
      fold off. destruct (participates off me lo n) eqn:Ep.
      - symmetry. apply rank_merge_step_eq; assumption.
      - symmetry. apply idle_rank_eq; assumption.
    Qed.

    (* ONE MERGE STEP OF ALL RANKS = ONE COMMUNICATION WINDOW *)
    Lemma sched_step (K : nat -> list A -> prog) s :
      (forall me, me < P -> pr s (Z.of_nat me) =
         if participates off me lo n then
           phase (map (sd_of (local_of me g)) (specs me)) (map rc_of (specs me))
             (fun ms => K me (fold_left (apply_peer A gt dir me) (mkpeers (specs me) ms)
                                (rank_local A gt dir me (c me) lo (lo + n2) (segs_of me) (local_of me g))))
         else K me (local_of me g)) ->
      (forall a d t, ch s a d t = []) ->
      exists nn s', Sem.run nn s s' /\
        (forall me, me < P -> pr s' (Z.of_nat me) = K me (local_of me (dist_merge_step A gt dir off lo n g))) /\
        (forall x, ~ In x ranks -> pr s' x = pr s x) /\ (forall a d t, ch s' a d t = ch s a d t).
    Proof.
      intros Hp Hemp.
      set (SdZ := fun x : Z => map (sd_of (local_of (Z.to_nat x) g)) (specs (Z.to_nat x))).
      set (RcZ := fun x : Z => map rc_of (specs (Z.to_nat x))).
      set (KZ := fun (x : Z) (ms : list payload) =>
                   if participates off (Z.to_nat x) lo n
                   then K (Z.to_nat x) (fold_left (apply_peer A gt dir (Z.to_nat x)) (mkpeers (specs (Z.to_nat x)) ms)
                           (rank_local A gt dir (Z.to_nat x) (c (Z.to_nat x)) lo (lo + n2) (segs_of (Z.to_nat x))
                                       (local_of (Z.to_nat x) g)))
                   else K (Z.to_nat x) (local_of (Z.to_nat x) g)).
      destruct (window_run SdZ RcZ KZ ranks s NoDup_ranks) as [nn [s' [Hrun [Hp' [Hpo Hc]]]]].
      - intros x Hx. apply In_ranks in Hx. destruct Hx as [me [Hme ->]].
        unfold SdZ, RcZ, KZ. rewrite Nat2Z.id, (Hp me Hme).
        destruct (participates off me lo n) eqn:Ep; [reflexivity|].
        rewrite (specs_idle me Hme Ep). reflexivity.
      - intros a d t _ _. apply Hemp.
      - intros x Hx. apply In_ranks in Hx. destruct Hx as [me [Hme ->]]. unfold SdZ. rewrite Nat2Z.id.
        apply send_keys_nodup. exact Hme.
      - intros x Hx. apply In_ranks in Hx. destruct Hx as [me [Hme ->]]. unfold RcZ. rewrite Nat2Z.id.
        apply recv_keys_nodup. exact Hme.
      - intros x d t m Hx Hin. apply In_ranks in Hx. destruct Hx as [me [Hme ->]]. unfold SdZ in Hin. rewrite Nat2Z.id in Hin.
        apply in_map_iff in Hin. destruct Hin as [ps [E Hps]]. unfold PsortSched.sd_of in E. injection E as <- _ _.
        apply In_ranks. exists (ps_rank ps). split; [apply (specs_rank me ps Hme Hps)|reflexivity].
      - intros x src t Hx Hin. apply In_ranks in Hx. destruct Hx as [me [Hme ->]]. unfold RcZ in Hin. rewrite Nat2Z.id in Hin.
        apply in_map_iff in Hin. destruct Hin as [ps [E Hps]]. unfold PsortSched.rc_of in E. injection E as <- _.
        split; [|lia]. apply In_ranks. exists (ps_rank ps). split; [apply (specs_rank me ps Hme Hps)|reflexivity].
      - intros x y t Hx Hy. apply In_ranks in Hx, Hy. destruct Hx as [a [Ha ->]]. destruct Hy as [d [Hd ->]].
        unfold SdZ, RcZ. rewrite !Nat2Z.id. split.
        + intros [m Hin]. apply in_map_iff in Hin. destruct Hin as [ps [E Hps]].
          unfold PsortSched.sd_of in E. injection E as E1 E2 _. apply Nat2Z.inj in E1.
          destruct (proj1 (match_nat a d t Ha Hd)) as [ps' [Hps' [F1 F2]]]; [exists ps; auto|].
          apply in_map_iff. exists ps'. split; [|exact Hps']. unfold PsortSched.rc_of. rewrite F1, F2. reflexivity.
        + intros Hin. apply in_map_iff in Hin. destruct Hin as [ps' [E Hps']].
          unfold PsortSched.rc_of in E. injection E as E1 E2. apply Nat2Z.inj in E1.
          destruct (proj2 (match_nat a d t Ha Hd)) as [ps [Hps [F1 F2]]]; [exists ps'; auto|].
          exists (enc (slice A (local_of a g) (ps_start ps) (ps_len ps))).
          apply in_map_iff. exists ps. split; [|exact Hps]. unfold PsortSched.sd_of. rewrite F1, F2. reflexivity.
      - exists nn, s'. split; [exact Hrun|]. split; [|split; [exact Hpo|exact Hc]].
        intros me Hme. rewrite (Hp' (Z.of_nat me)) by (apply In_ranks; exists me; auto).
        unfold KZ, RcZ. rewrite Nat2Z.id. rewrite (local_of_step me Hme).
        destruct (participates off me lo n) eqn:Ep; [|reflexivity].
        f_equal. unfold rank_merge_step. fold n2. fold r. fold c. fold (segs_of me). fold (specs me).
        f_equal. rewrite map_map.
        rewrite (mkpeers_map A dec (fun ps => lookup (SdZ (fst (rc_of ps))) (Z.of_nat me) (snd (rc_of ps)))).
        apply map_ext_in. intros ps Hps. f_equal.
        unfold SdZ. cbn [fst PsortSched.rc_of]. rewrite Nat2Z.id. apply msg_content; assumption.
    Qed.
  End Step.

  (* ---- the recursion of sc_merge_bitonic ------------------------------------------------------------------------------ *)
  Lemma sched_merge : forall f lo n dir g (k : nat -> list A -> prog) s,
    lo + n <= c P -> length g = c P ->
    (forall me, me < P -> pr s (Z.of_nat me) = merge_prog_w me f lo n dir (local_of me g) (k me)) ->
    (forall a d t, ch s a d t = []) ->
    exists nn s', Sem.run nn s s' /\
      (forall me, me < P -> pr s' (Z.of_nat me) = k me (local_of me (dist_merge A gt f dir off lo n g))) /\
      (forall x, ~ In x ranks -> pr s' x = pr s x) /\ (forall a d t, ch s' a d t = ch s a d t).
  Proof.
    induction f as [|f IH]; intros lo n dir g k s Hhi Lg Hp Hemp.
    - exists 0, s. split; [apply run_nil|]. split; [exact Hp|]. split; reflexivity.
    - cbn [dist_merge]. destruct (1 <? n) eqn:E1.
      + apply Nat.ltb_lt in E1. assert (Hn : 2 <= n) by lia.
        destruct (n2_of_bounds n Hn) as [kk [_ B]].
        set (K := fun me l2 => merge_prog_w me f lo (n2_of n) dir l2
                                 (fun l3 => merge_prog_w me f (lo + n2_of n) (n - n2_of n) dir l3 (k me))).
        destruct (sched_step dir lo n g Hn Hhi Lg K s) as [n1 [s1 [R1 [P1 [O1 C1]]]]].
        { intros me Hme. rewrite (Hp me Hme). cbn [PsortSched.merge_prog_w].
          destruct (participates off me lo n) eqn:Ep; [reflexivity|]. unfold K.
          rewrite (merge_w_idle A gt enc dec tag_lo tag_hi off me f lo (n2_of n))
            by (apply (participates_sub me lo n); [lia|lia|exact Ep]).
          rewrite (merge_w_idle A gt enc dec tag_lo tag_hi off me f (lo + n2_of n) (n - n2_of n))
            by (apply (participates_sub me lo n); [lia|lia|exact Ep]).
          reflexivity. }
        { exact Hemp. }
        set (g1 := dist_merge_step A gt dir off lo n g) in *.
        assert (L1 : length g1 = c P) by (apply (len_step A gt sort sort_length counts); assumption).
        destruct (IH lo (n2_of n) dir g1
                     (fun me l3 => merge_prog_w me f (lo + n2_of n) (n - n2_of n) dir l3 (k me)) s1)
          as [n2' [s2 [R2 [P2 [O2 C2]]]]]; [lia|exact L1|exact P1|intros; rewrite C1; apply Hemp|].
        set (g2 := dist_merge A gt f dir off lo (n2_of n) g1) in *.
        assert (L2 : length g2 = c P) by (apply (len_merge A gt sort sort_length counts); [fold off; fold c; fold P; lia|exact L1]).
        destruct (IH (lo + n2_of n) (n - n2_of n) dir g2 k s2)
          as [n3 [s3 [R3 [P3 [O3 C3]]]]]; [lia|exact L2|exact P2|intros; rewrite C2, C1; apply Hemp|].
        exists (n1 + n2' + n3), s3. split; [eapply Sem.run_app; [eapply Sem.run_app; eassumption|eassumption]|].
        split; [exact P3|]. split.
        * intros x Hx. rewrite O3, O2, O1 by exact Hx. reflexivity.
        * intros a d t. rewrite C3, C2, C1. reflexivity.
      + exists 0, s. split; [apply run_nil|]. split; [|split; reflexivity].
        intros me Hme. rewrite (Hp me Hme). apply merge_w_idle. unfold participates. rewrite E1. reflexivity.
  Qed.

  (* ---- the recursion of sc_psort_bitonic -------------------------------------------------------------------------------- *)
  Lemma inside_rank_unique me lo n : me < P -> inside_one_rank off lo n = true -> participates off me lo n = true ->
    inside_rank off lo n me = true.
  Proof.
    intros Hme Hin Hp. unfold inside_one_rank in Hin.
    replace (length off - 1) with P in Hin by (symmetry; apply off_P).
    apply existsb_exists in Hin. destruct Hin as [r0 [Hr0 Ir0]]. apply in_seq in Hr0.
    destruct (Nat.lt_trichotomy me r0) as [L|[L|L]]; [exfalso|subst; exact Ir0|exfalso];
      unfold inside_rank in Ir0; unfold participates in Hp; fold c in Ir0; fold c in Hp; b2p.
    - pose proof (c_mono counts (S me) r0 ltac:(lia) ltac:(fold P; lia)) as M. fold off in M. fold c in M. lia.
    - pose proof (c_mono counts (S r0) me ltac:(lia) ltac:(fold P; lia)) as M. fold off in M. fold c in M. lia.
  Qed.
  Lemma inside_none me lo n : me < P -> inside_one_rank off lo n = false -> inside_rank off lo n me = false.
  Proof.
    intros Hme H. destruct (inside_rank off lo n me) eqn:E; [exfalso|reflexivity].
    enough (inside_one_rank off lo n = true) by congruence.
    unfold inside_one_rank. replace (length off - 1) with P by (symmetry; apply off_P).
    apply existsb_exists. exists me. split; [apply in_seq; lia|exact E].
  Qed.

  Lemma local_of_leaf dir lo n g me : me < P -> length g = c P ->
    local_of me (dist_leaf A sort dir off lo n g) =
    if participates off me lo n && inside_rank off lo n me then lsort A sort dir (lo - c me) n (local_of me g) else local_of me g.
  Proof.
    intros Hme Lg. unfold dist_leaf. replace (length off - 1) with P by (symmetry; apply off_P).
    apply (local_of_concat (fun me0 => let l := local_of me0 g in
             if participates off me0 lo n && inside_rank off lo n me0 then lsort A sort dir (lo - cum off me0) n l else l)).
    - exact Hme.
    - intros r0 Hr0. cbv zeta. destruct (participates off r0 lo n && inside_rank off lo n r0);
        [rewrite (lsort_len A sort sort_length)|]; apply local_of_length; assumption.
  Qed.

  Lemma sched_sort : forall f lo n dir g (k : nat -> list A -> prog) s,
    lo + n <= c P -> length g = c P ->
    (forall me, me < P -> pr s (Z.of_nat me) = sort_prog_w me f lo n dir (local_of me g) (k me)) ->
    (forall a d t, ch s a d t = []) ->
    exists nn s', Sem.run nn s s' /\
      (forall me, me < P -> pr s' (Z.of_nat me) = k me (local_of me (dist_sort A gt sort f off lo n dir g))) /\
      (forall x, ~ In x ranks -> pr s' x = pr s x) /\ (forall a d t, ch s' a d t = ch s a d t).
  Proof.
    induction f as [|f IH]; intros lo n dir g k s Hhi Lg Hp Hemp.
    - exists 0, s. split; [apply run_nil|]. split; [exact Hp|]. split; reflexivity.
    - cbn [dist_sort]. destruct (1 <? n) eqn:E1.
      + destruct (inside_one_rank off lo n) eqn:E2.
        * (* leaf: the range lies inside one rank, which sorts it; no communication *)
          exists 0, s. split; [apply run_nil|]. split; [|split; reflexivity].
          intros me Hme. rewrite (Hp me Hme), (local_of_leaf dir lo n g me Hme Lg). cbn [PsortSched.sort_prog_w].
          destruct (participates off me lo n) eqn:Ep; cbn [andb]; [|reflexivity].
          pose proof (inside_rank_unique me lo n Hme E2 Ep) as Ir. rewrite Ir. unfold inside_rank in Ir. rewrite Ir.
          reflexivity.
        * apply Nat.ltb_lt in E1. assert (Hh : n / 2 < n) by (apply Nat.div_lt; lia).
          set (k2 := fun me l2 => merge_prog_w me n lo n dir l2 (k me)).
          set (k1 := fun me l1 => sort_prog_w me f (lo + n / 2) (n - n / 2) dir l1 (k2 me)).
          destruct (IH lo (n / 2) (negb dir) g k1 s) as [n1 [s1 [R1 [P1 [O1 C1]]]]]; [lia|exact Lg| |exact Hemp|].
          { intros me Hme. rewrite (Hp me Hme). cbn [PsortSched.sort_prog_w].
            destruct (participates off me lo n) eqn:Ep.
            - pose proof (inside_none me lo n Hme E2) as Ir. unfold inside_rank in Ir. rewrite Ir. reflexivity.
            - unfold k1, k2.
              rewrite (sort_w_idle A gt sort enc dec tag_lo tag_hi off me f lo (n / 2))
                by (apply (participates_sub me lo n); [lia|lia|exact Ep]).
              rewrite (sort_w_idle A gt sort enc dec tag_lo tag_hi off me f (lo + n / 2) (n - n / 2))
                by (apply (participates_sub me lo n); [lia|lia|exact Ep]).
              rewrite (merge_w_idle A gt enc dec tag_lo tag_hi off me n lo n) by exact Ep. reflexivity. }
          set (g1 := dist_sort A gt sort f off lo (n / 2) (negb dir) g) in *.
          assert (L1 : length g1 = c P) by (apply (len_sort A gt sort sort_length counts); [fold off; fold c; fold P; lia|exact Lg]).
          destruct (IH (lo + n / 2) (n - n / 2) dir g1 k2 s1) as [n2' [s2 [R2 [P2 [O2 C2]]]]];
            [lia|exact L1|exact P1|intros; rewrite C1; apply Hemp|].
          set (g2 := dist_sort A gt sort f off (lo + n / 2) (n - n / 2) dir g1) in *.
          assert (L2 : length g2 = c P) by (apply (len_sort A gt sort sort_length counts); [fold off; fold c; fold P; lia|exact L1]).
          destruct (sched_merge n lo n dir g2 k s2) as [n3 [s3 [R3 [P3 [O3 C3]]]]];
            [exact Hhi|exact L2|exact P2|intros; rewrite C2, C1; apply Hemp|].
          exists (n1 + n2' + n3), s3. split; [eapply Sem.run_app; [eapply Sem.run_app; eassumption|eassumption]|].
          split; [exact P3|]. split.
          -- intros x Hx. rewrite O3, O2, O1 by exact Hx. reflexivity.
          -- intros a d t. rewrite C3, C2, C1. reflexivity.
      + exists 0, s. split; [apply run_nil|]. split; [|split; reflexivity].
        intros me Hme. rewrite (Hp me Hme). apply sort_w_idle. unfold participates. rewrite E1. reflexivity.
  Qed.

  (* ---- the whole system --------------------------------------------------------------------------------------------------- *)
  Definition in_range (x : Z) : bool := ((0 <=? x) && (x <? Z.of_nat P))%Z.
  Definition psort_start (xs : list (list A)) : gs :=
    mkgs (fun x => if in_range x
                   then psort_prog_g A gt sort enc dec tag_lo tag_hi counts (Z.to_nat x) (nth (Z.to_nat x) xs [])
                   else Ret [])
         (fun _ _ _ => []).
  Definition psort_start_w (xs : list (list A)) : gs :=
    mkgs (fun x => if in_range x
                   then psort_prog_w A gt sort enc dec tag_lo tag_hi counts (Z.to_nat x) (nth (Z.to_nat x) xs [])
                   else Ret [])
         (fun _ _ _ => []).
  Definition psort_end (xs : list (list A)) : gs :=
    mkgs (fun x => if in_range x then Ret (enc (nth (Z.to_nat x) (psort A gt sort counts xs) [])) else Ret [])
         (fun _ _ _ => []).

  Lemma psort_end_final xs : final (psort_end xs).
  Proof. intros x. unfold psort_end. cbn [pr]. destruct (in_range x); eauto. Qed.

  Lemma In_ranks_range x : In x ranks <-> in_range x = true.
  Proof.
    rewrite In_ranks. unfold in_range. split.
    - intros [me [H ->]]. lia.
    - intros H. exists (Z.to_nat x). lia.
  Qed.

  Lemma local_of_split me (g : list A) : me < P -> local_of me g = nth me (split_counts A counts g) [].
  Proof.
    intros Hme. rewrite split_counts_nth by exact Hme. unfold PsortModel.local_of, slice, off.
    rewrite (cum_step counts me Hme).
    replace (cum (cumul 0 counts) me + nth me counts 0 - cum (cumul 0 counts) me) with (nth me counts 0) by lia.
    unfold cum. rewrite cumul_nth by (fold P; lia). reflexivity.
  Qed.

  Theorem psort_w_one_schedule xs : map (@length A) xs = counts ->
    exists n, Sem.run n (psort_start_w xs) (psort_end xs).
  Proof.
    intros Hxs.
    assert (T : c P = fold_right Nat.add 0 counts) by apply psort_total.
    assert (L0 : length (concat xs) = c P) by (rewrite T, (concat_length_sum A), Hxs; reflexivity).
    destruct (sched_sort (c P) 0 (c P) true (concat xs) (fun _ l => Ret (enc l)) (psort_start_w xs))
      as [nn [s' [R [Pf [O C]]]]].
    - lia.
    - exact L0.
    - intros me Hme. unfold psort_start_w, in_range. cbn [pr].
      replace ((0 <=? Z.of_nat me) && (Z.of_nat me <? Z.of_nat P))%Z with true by lia.
      rewrite Nat2Z.id. unfold psort_prog_w. fold off. fold P. fold c.
      assert (Hsp : split_counts A counts (concat xs) = xs) by (rewrite <- Hxs; apply split_counts_of_concat).
      rewrite (local_of_split me (concat xs) Hme), Hsp. reflexivity.
    - reflexivity.
    - exists nn. replace (psort_end xs) with s'; [exact R|]. apply gs_eq.
      + intros x. unfold psort_end. cbn [pr]. destruct (in_range x) eqn:E.
        * unfold in_range in E. rewrite <- (Z2Nat.id x) at 1 by lia. rewrite Pf by lia.
          rewrite (local_of_split (Z.to_nat x)) by lia. unfold psort. do 3 f_equal.
          unfold off. rewrite (dist_sort_eq A gt sort sort_length counts) by (fold off; fold c; fold P; lia).
          reflexivity.
        * rewrite O by (rewrite In_ranks_range; congruence). unfold psort_start_w. cbn [pr]. rewrite E. reflexivity.
      + intros a d t. rewrite C. reflexivity.
  Qed.

  (* the window-ordered programs under the BLOCKING semantics of MPI/Sem.v: every schedule (confluence of Sem.v) *)
  Theorem psort_w_every_schedule xs : map (@length A) xs = counts ->
    exists n, Sem.run n (psort_start_w xs) (psort_end xs) /\ terminal_for (psort_start_w xs) (psort_end xs) n.
  Proof.
    intros Hxs. destruct (psort_w_one_schedule xs Hxs) as [n Hn]. exists n. split; [exact Hn|].
    apply one_schedule_all_schedules; [exact Hn|apply psort_end_final].
  Qed.

  Lemma psort_start_window_form xs : nbrel (psort_start xs) (psort_start_w xs).
  Proof.
    split; [|reflexivity]. intros x. unfold psort_start, psort_start_w. cbn [pr].
    destruct (in_range x); [apply psort_prog_window_form|apply nb_refl].
  Qed.

  (* EVERY SCHEDULE of the posted-receive semantics: a run to psort_end exists; any run of m steps has m <= n, can be
     completed to psort_end in n - m steps, IS psort_end if it is complete, and is never stuck *)
  Theorem psort_every_schedule xs : map (@length A) xs = counts ->
    exists n, run_p n (psort_start xs) (psort_end xs) /\ final (psort_end xs) /\
              terminal_for_p (psort_start xs) (psort_end xs) n.
  Proof.
    intros Hxs. destruct (psort_w_one_schedule xs Hxs) as [n Hn]. exists n.
    destruct (posting_order_same_result (psort_start xs) (psort_start_w xs) n (psort_end xs)) as [H1 H2].
    - apply psort_start_window_form.
    - apply run_in_run_p. exact Hn.
    - apply psort_end_final.
    - split; [exact H1|]. split; [apply psort_end_final|exact H2].
  Qed.
End Sched.

(* ---- the final state, read rank by rank ------------------------------------------------------------------------------- *)
Lemma psort_end_spec A gt sort enc counts xs :
  (forall me, me < length counts ->
     pr (psort_end A gt sort enc counts xs) (Z.of_nat me) = Ret (enc (nth me (psort A gt sort counts xs) []))) /\
  (forall x, ~ (0 <= x < Z.of_nat (length counts))%Z -> pr (psort_end A gt sort enc counts xs) x = Ret []) /\
  (forall a d t, ch (psort_end A gt sort enc counts xs) a d t = []).
Proof.
  split; [|split; [|reflexivity]].
  - intros me Hme. unfold psort_end, in_range. cbn [pr].
    replace ((0 <=? Z.of_nat me) && (Z.of_nat me <? Z.of_nat (length counts)))%Z with true by lia.
    rewrite Nat2Z.id. reflexivity.
  - intros x Hx. unfold psort_end, in_range. cbn [pr].
    replace ((0 <=? x) && (x <? Z.of_nat (length counts)))%Z with false by lia. reflexivity.
Qed.

(* ---- every schedule + sortedness: the text of the property for the message-passing system --------------------------- *)
Theorem psort_every_schedule_sorted (A : Type) (le : A -> A -> bool) :
  (forall a b, le a b = true \/ le b a = true) ->
  (forall a b c, le a b = true -> le b c = true -> le a c = true) ->
  forall sort : bool -> list A -> list A,
  (forall d l, Permutation.Permutation (sort d l) l) ->
  (forall l, Sorted.Sorted (fun a b => le a b = true) (sort true l)) ->
  (forall l, Sorted.Sorted (fun a b => le b a = true) (sort false l)) ->
  forall (enc : list A -> payload) (dec : payload -> list A), (forall l, dec (enc l) = l) ->
  forall tag_lo tag_hi : Z, tag_lo <> tag_hi ->
  forall counts xs, map (@length A) xs = counts ->
  let gt := PsortZeroOne.gt_of A le in
  let s0 := psort_start A gt sort enc dec tag_lo tag_hi counts xs in
  exists (n : nat) (f : gs) (ys : list (list A)),
    run_p n s0 f /\ final f /\ terminal_for_p s0 f n /\
    (forall me, me < length counts -> pr f (Z.of_nat me) = Ret (enc (nth me ys []))) /\
    (forall a d t, ch f a d t = []) /\
    ys = psort A gt sort counts xs /\
    Sorted.StronglySorted (fun a b => le a b = true) (concat ys) /\
    Permutation.Permutation (concat ys) (concat xs) /\
    map (@length A) ys = counts.
Proof.
  intros Tot Tr sort Sp S1 S2 enc dec De tag_lo tag_hi Tn counts xs Hxs gt s0.
  assert (SL : forall d l, length (sort d l) = length l) by (intros d l; apply Permutation.Permutation_length, Sp).
  destruct (psort_every_schedule A gt sort SL enc dec De tag_lo tag_hi Tn counts xs Hxs) as [n [R [F T]]].
  destruct (psort_correct A le Tot Tr sort Sp S1 S2 counts xs Hxs) as [C1 [C2 C3]].
  destruct (psort_end_spec A gt sort enc counts xs) as [E1 [_ E3]].
  exists n, (psort_end A gt sort enc counts xs), (psort A gt sort counts xs).
  split; [exact R|]. split; [exact F|]. split; [exact T|]. split; [exact E1|]. split; [exact E3|].
  split; [reflexivity|]. split; [exact C1|]. split; assumption.
Qed.

(* ---- the co-simulated integer program -------------------------------------------------------------------------------- *)
Lemma zsort_length d l : length (zsort d l) = length l.
Proof. apply Permutation.Permutation_length, zsort_perm. Qed.

Definition zstart (tag_lo tag_hi : Z) (counts : list nat) (xs : list (list Z)) : gs :=
  mkgs (fun x => if ((0 <=? x) && (x <? Z.of_nat (length counts)))%Z
                 then psort_prog tag_lo tag_hi counts (Z.to_nat x) (nth (Z.to_nat x) xs [])
                 else Ret [])
       (fun _ _ _ => []).
Definition zend (counts : list nat) (xs : list (list Z)) : gs :=
  mkgs (fun x => if ((0 <=? x) && (x <? Z.of_nat (length counts)))%Z
                 then Ret (nth (Z.to_nat x) (psort Z Z.gtb zsort counts xs) [])
                 else Ret [])
       (fun _ _ _ => []).

Theorem psort_prog_every_schedule tag_lo tag_hi counts xs : tag_lo <> tag_hi -> map (@length Z) xs = counts ->
  exists n, run_p n (zstart tag_lo tag_hi counts xs) (zend counts xs) /\ final (zend counts xs) /\
            terminal_for_p (zstart tag_lo tag_hi counts xs) (zend counts xs) n.
Proof.
  intros Tn Hxs.
  exact (psort_every_schedule Z Z.gtb zsort zsort_length (fun l => l) (fun m => m) (fun l => eq_refl)
                              tag_lo tag_hi Tn counts xs Hxs).
Qed.

Lemma zpsort_sorted counts xs : map (@length Z) xs = counts ->
  Sorted.StronglySorted Z.le (concat (psort Z Z.gtb zsort counts xs)).
Proof.
  intros H.
  assert (L : length (concat xs) = fold_right Nat.add 0 counts) by (rewrite (concat_length_sum Z), H; reflexivity).
  unfold psort. rewrite split_counts_concat by (rewrite (run_length Z Z.gtb zsort zsort_perm); exact L).
  exact (psort_seq_sorted counts (concat xs) L).
Qed.

Theorem psort_prog_every_schedule_sorted tag_lo tag_hi counts xs : tag_lo <> tag_hi -> map (@length Z) xs = counts ->
  let s0 := zstart tag_lo tag_hi counts xs in
  exists (n : nat) (f : gs) (ys : list (list Z)),
    run_p n s0 f /\ final f /\ terminal_for_p s0 f n /\
    (forall me, me < length counts -> pr f (Z.of_nat me) = Ret (nth me ys [])) /\
    (forall a d t, ch f a d t = []) /\
    ys = psort Z Z.gtb zsort counts xs /\
    Sorted.StronglySorted Z.le (concat ys) /\
    Permutation.Permutation (concat ys) (concat xs) /\
    map (@length Z) ys = counts.
Proof.
  intros Tn Hxs s0. destruct (psort_prog_every_schedule tag_lo tag_hi counts xs Tn Hxs) as [n [R [F T]]].
  destruct (psort_permutation Z Z.gtb zsort zsort_perm counts xs Hxs) as [C2 C3].
  destruct (psort_end_spec Z Z.gtb zsort (fun l => l) counts xs) as [E1 [_ E3]].
  exists n, (zend counts xs), (psort Z Z.gtb zsort counts xs).
  split; [exact R|]. split; [exact F|]. split; [exact T|]. split; [exact E1|]. split; [exact E3|].
  split; [reflexivity|]. split; [apply zpsort_sorted; exact Hxs|]. split; assumption.
Qed.

(* read with BLOCKING receives (MPI/Sem.v) the literal posting order is stuck from the start as soon as two ranks
   exchange a segment: both begin with the receive of the merge step *)
Example psort_posting_order_blocks :
  let s0 := zstart 293 294 [1; 1] [[2]; [1]]%Z in (forall x s', ~ step s0 x s') /\ ~ final s0.
Proof.
  cbv zeta. split.
  - intros x s' Hs. inversion Hs as [? ? d t msg k Hp|? ? src t k msg q Hsrc Hp Hc]; subst; unfold zstart in *; cbn [pr ch] in *; [|discriminate Hc].
    destruct (Z.eq_dec x 0) as [->|H0]; [vm_compute in Hp; discriminate|].
    destruct (Z.eq_dec x 1) as [->|H1]; [vm_compute in Hp; discriminate|].
    replace ((0 <=? x) && (x <? Z.of_nat (length [1%nat; 1%nat])))%Z with false in Hp by (cbn [length]; lia). cbv iota in Hp. discriminate Hp.
  - intros Hf. destruct (Hf 0%Z) as [o Ho]. vm_compute in Ho. discriminate.
Qed.

