(* C05, composition, part 1: the distributed round semantics `dist_psort` computes the same arrays as the sequential
   comparator network `psort`. *)
From Coq Require Import Arith List Bool PeanoNat Lia Permutation.
From ScV Require Import C05.PsortModel C05.ListAux C05.PsortPerm C05.PsortDist C05.PsortOwner C05.PsortBitonic.
Import ListNotations.

(* ---- lists ------------------------------------------------------------------------------------------------------ *)
Lemma firstn_slice_app {B} : forall a b (g : list B), a <= b -> firstn a g ++ slice B g a (b - a) = firstn b g.
Proof.
  induction a as [|a IH]; intros b g H.
  - unfold slice. simpl. rewrite Nat.sub_0_r. reflexivity.
  - destruct b as [|b]; [lia|]. destruct g as [|x g]; [unfold slice; simpl; rewrite firstn_nil; reflexivity|].
    simpl. f_equal. apply (IH b g). lia.
Qed.

(* cutting a list at cumulative offsets and gluing the pieces *)
Lemma concat_slices {B} (c : nat -> nat) (g : list B) : forall P, c 0 = 0 -> (forall r, r < P -> c r <= c (S r)) ->
  concat (map (fun me => slice B g (c me) (c (S me) - c me)) (seq 0 P)) = firstn (c P) g.
Proof.
  induction P as [|P IH]; intros H0 M.
  - simpl. rewrite H0. reflexivity.
  - rewrite seq_S, map_app, concat_app, IH by (auto; intros; apply M; lia). simpl. rewrite app_nil_r.
    apply firstn_slice_app. apply M. lia.
Qed.

Lemma find_all_false {B} (f : B -> bool) l : (forall x, In x l -> f x = false) -> find f l = None.
Proof.
  intros H. destruct (find f l) eqn:E; [|reflexivity]. apply find_some in E. destruct E as [E1 E2].
  rewrite (H _ E1) in E2. discriminate.
Qed.

Lemma FOP_strengthen {B} (Q : B -> Prop) (R R' : B -> B -> Prop) l :
  (forall x y, Q x -> Q y -> R x y -> R' x y) -> Forall Q l -> ForallOrdPairs R l -> ForallOrdPairs R' l.
Proof.
  intros H F. induction 1 as [|a l Ha Hl IH]; [constructor|].
  inversion F as [|a' l' Qa Ql]; subst. constructor; [|apply IH; exact Ql].
  rewrite Forall_forall in *. intros y Hy. apply H; auto.
Qed.

Ltac b2p :=
  repeat match goal with
  | H : andb _ _ = true |- _ => apply andb_true_iff in H; destruct H
  | H : andb _ _ = false |- _ => apply andb_false_iff in H
  | H : orb _ _ = true |- _ => apply orb_true_iff in H
  | H : orb _ _ = false |- _ => apply orb_false_iff in H; destruct H
  | H : negb _ = true |- _ => apply negb_true_iff in H
  | H : negb _ = false |- _ => apply negb_false_iff in H
  | H : (_ <=? _) = true |- _ => apply Nat.leb_le in H
  | H : (_ <=? _) = false |- _ => apply Nat.leb_gt in H
  | H : (_ <? _) = true |- _ => apply Nat.ltb_lt in H
  | H : (_ <? _) = false |- _ => apply Nat.ltb_ge in H
  | H : (_ =? _) = true |- _ => apply Nat.eqb_eq in H
  | H : (_ =? _) = false |- _ => apply Nat.eqb_neq in H
  end.

(* ---- what a segment chain (PsortOwner.seg_chain) gives ------------------------------------------------------------ *)
Definition seg_wf (c : nat -> nat) (P lo n2 r : nat) (s : seg) : Prop :=
  0 < s_len s /\ s_off s + s_len s <= r /\ s_lo_owner s < P /\ s_hi_owner s < P /\
  c (s_lo_owner s) <= lo + s_off s /\ lo + s_off s + s_len s <= c (S (s_lo_owner s)) /\
  c (s_hi_owner s) <= lo + n2 + s_off s /\ lo + n2 + s_off s + s_len s <= c (S (s_hi_owner s)).
Definition seg_before (s s' : seg) : Prop := s_off s + s_len s <= s_off s'.

Lemma chain_facts c P lo n2 r : forall o t, seg_chain c P lo (lo + n2) r o t ->
  Forall (fun s => seg_wf c P lo n2 r s /\ o <= s_off s) t /\ ForallOrdPairs seg_before t /\
  (forall i, o <= i < r -> exists s, In s t /\ s_off s <= i < s_off s + s_len s).
Proof.
  induction 1 as [|o s t E Hl Hr H1 H2 H3 H4 H5 H6 Hc [IH1 [IH2 IH3]]].
  - split; [constructor|split; [constructor|intros i Hi; lia]].
  - split; [|split].
    + constructor; [split; [unfold seg_wf; lia|lia]|].
      eapply Forall_impl; [|exact IH1]. intros x [Hx1 Hx2]. split; [exact Hx1|lia].
    + constructor; [|exact IH2]. eapply Forall_impl; [|exact IH1]. intros x [_ Hx]. unfold seg_before. lia.
    + intros i Hi. destruct (Nat.lt_ge_cases i (o + s_len s)) as [L|L].
      * exists s. split; [left; reflexivity|lia].
      * destruct (IH3 i ltac:(lia)) as [x [Hx1 Hx2]]. exists x. split; [right; exact Hx1|exact Hx2].
Qed.

Ltac b2pd :=
  b2p; repeat (match goal with
               | H : (_ = true) \/ (_ = true) |- _ => destruct H
               | H : (_ = false) \/ (_ = false) |- _ => destruct H
               end; b2p).

Ltac decide_b :=
  repeat match goal with
  | |- context[?a <=? ?b] =>
    first [ replace (a <=? b) with true by (symmetry; apply Nat.leb_le; lia)
          | replace (a <=? b) with false by (symmetry; apply Nat.leb_gt; lia) ]
  | |- context[?a <? ?b] =>
    first [ replace (a <? b) with true by (symmetry; apply Nat.ltb_lt; lia)
          | replace (a <? b) with false by (symmetry; apply Nat.ltb_ge; lia) ]
  | |- context[?a =? ?b] =>
    first [ replace (a =? b) with true by (symmetry; apply Nat.eqb_eq; lia)
          | replace (a =? b) with false by (symmetry; apply Nat.eqb_neq; lia) ]
  end.

Section Compose.
  Variable A : Type.
  Variable gt : A -> A -> bool.

  Notation ce := (ce A gt).
  Notation slice := (slice A).
  Notation put_slice := (put_slice A).
  Notation local_ce := (local_ce A gt).
  Notation apply_peer := (apply_peer A gt).
  Notation cex := (cex A gt).

  (* ---- the compare-exchange run of one segment, pointwise ------------------------------------------------------- *)
  Lemma local_ce_length dir : forall m a b l, length (local_ce dir a b m l) = length l.
  Proof. induction m; intros a b l; simpl; [reflexivity|]. rewrite IHm. apply ce_length. Qed.

  Definition lo_val dir (x y : option A) : option A :=
    match x, y with Some a, Some b => Some (fst (cex dir a b)) | _, _ => None end.
  Definition hi_val dir (x y : option A) : option A :=
    match x, y with Some a, Some b => Some (snd (cex dir a b)) | _, _ => None end.

  Lemma local_ce_nth dir : forall m a d l k, m <= d -> a + d + m <= length l ->
    nth_error (local_ce dir a (a + d) m l) k =
    if (a <=? k) && (k <? a + m) then lo_val dir (nth_error l k) (nth_error l (k + d))
    else if (a + d <=? k) && (k <? a + d + m) then hi_val dir (nth_error l (k - d)) (nth_error l k)
    else nth_error l k.
  Proof.
    induction m as [|m IH]; intros a d l k Hm Hl.
    - simpl. bdestr; simpl; try reflexivity; lia.
    - cbn [PsortModel.local_ce]. replace (S (a + d)) with (S a + d) by lia.
      rewrite IH by (rewrite ?ce_length; lia).
      destruct (nth_error l a) as [x|] eqn:Ea; [|apply nth_error_None in Ea; lia].
      destruct (nth_error l (a + d)) as [y|] eqn:Eb; [|apply nth_error_None in Eb; lia].
      assert (Hne : a <> a + d) by lia.
      rewrite !(fun k => ce_nth A gt dir a (a + d) l k x y Hne Ea Eb).
      assert (C : k < a \/ k = a \/ (a < k < a + S m) \/ (a + S m <= k < a + d) \/ k = a + d \/
                  (a + d < k < a + d + S m) \/ a + d + S m <= k) by lia.
      destruct C as [C|[C|[C|[C|[C|[C|C]]]]]]; decide_b; cbn [andb]; unfold lo_val, hi_val;
        try subst k; rewrite ?Nat.add_sub, ?Ea, ?Eb; reflexivity.
  Qed.

  (* ---- a fold of operations with pairwise disjoint supports, pointwise ----------------------------------------- *)
  Section FoldSupp.
    Variable T : Type.
    Variable E : T -> list A -> list A.
    Variable supp : T -> nat -> bool.
    Variable ok : T -> Prop.
    Variable len : nat.
    Hypothesis E_len : forall s l, ok s -> length l = len -> length (E s l) = len.
    Hypothesis E_out : forall s l j, ok s -> length l = len -> supp s j = false -> nth_error (E s l) j = nth_error l j.
    Hypothesis E_loc : forall s l l' j, ok s -> length l = len -> length l' = len -> supp s j = true ->
      (forall j', supp s j' = true -> nth_error l j' = nth_error l' j') -> nth_error (E s l) j = nth_error (E s l') j.
    Definition sdisj (s s' : T) : Prop := forall j, supp s j = true -> supp s' j = true -> False.

    Lemma fold_supp_length : forall t l, Forall ok t -> length l = len ->
      length (fold_left (fun l s => E s l) t l) = len.
    Proof.
      induction t as [|a t IH]; intros l F L; [exact L|].
      inversion F as [|a' t' Oa Ot]; subst a' t'. cbn [fold_left]. apply IH; [assumption|]. apply E_len; assumption.
    Qed.

    Lemma fold_supp_nth : forall t, Forall ok t -> ForallOrdPairs sdisj t -> forall l j, length l = len ->
      nth_error (fold_left (fun l s => E s l) t l) j =
      match find (fun s => supp s j) t with Some s => nth_error (E s l) j | None => nth_error l j end.
    Proof.
      induction t as [|a t IH]; intros F D l j L; [reflexivity|].
      inversion F as [|a' t' Oa Ot]; subst a' t'. inversion D as [|a' t' Da Dt]; subst a' t'.
      cbn [fold_left find]. rewrite (IH Ot Dt) by (apply E_len; assumption).
      rewrite Forall_forall in Da, Ot.
      destruct (supp a j) eqn:Sa.
      - rewrite find_all_false; [reflexivity|]. intros x Hx. destruct (supp x j) eqn:Sx; [|reflexivity].
        exfalso. exact (Da x Hx j Sa Sx).
      - destruct (find (fun s => supp s j) t) as [x|] eqn:Ef.
        + apply find_some in Ef. destruct Ef as [Hx Sx].
          apply E_loc; auto. intros j' Sj'. apply E_out; auto.
          destruct (supp a j') eqn:Sa'; [|reflexivity]. exfalso. exact (Da x Hx j' Sa' Sj').
        + apply E_out; assumption.
    Qed.
  End FoldSupp.

  (* ---- one merge step on one rank ----------------------------------------------------------------------------------
     c: cumulative offsets; the step compares [lo, lo+r) with [lo+n2, lo+n2+r), r <= n2; g: the global array before the
     step; segs: the segment list (a chain); the rank works on its part of g, receive buffers are parts of g. *)
  Section RankStep.
    Variable c : nat -> nat.
    Variable P : nat.
    Hypothesis M : mono c P.
    Variables (dir : bool) (me lo n2 r : nat).
    Hypothesis Hme : me < P.
    Hypothesis Hr : r <= n2.
    Variable g : list A.
    Hypothesis Hg : length g = c P.
    Hypothesis Hhi : lo + n2 + r <= c P.
    Variable segs : list seg.
    Hypothesis Hch : seg_chain c P lo (lo + n2) r 0 segs.

    Let my_lo := c me.
    Let len := c (S me) - c me.
    Notation wf := (seg_wf c P lo n2 r).

    Lemma my_range : c me <= c (S me) /\ c (S me) <= c P.
    Proof. split; apply M; lia. Qed.

    Lemma owner_order a b x y : a < P -> b < P -> c a <= x < c (S a) -> c b <= y < c (S b) -> x < y -> a <> b -> a < b.
    Proof.
      intros Ha Hb Hx Hy Hxy Hne. destruct (Nat.lt_ge_cases a b) as [L|L]; [exact L|].
      pose proof (M (S b) a ltac:(lia) ltac:(lia)). lia.
    Qed.

    Definition inlo (s : seg) (k : nat) := (lo + s_off s <=? k) && (k <? lo + s_off s + s_len s).
    Definition inhi (s : seg) (k : nat) := (lo + n2 + s_off s <=? k) && (k <? lo + n2 + s_off s + s_len s).
    Definition both (s : seg) := (s_lo_owner s =? me) && (s_hi_owner s =? me).
    Definition lo_only (s : seg) := (s_lo_owner s =? me) && negb (s_hi_owner s =? me).
    Definition hi_only (s : seg) := negb (s_lo_owner s =? me) && (s_hi_owner s =? me).

    (* loop 2 *)
    Definition E1 (s : seg) (l : list A) : list A :=
      if both s then local_ce dir (lo + s_off s - my_lo) (lo + n2 + s_off s - my_lo) (s_len s) l else l.
    Definition supp1 (s : seg) (j : nat) : bool := both s && (inlo s (my_lo + j) || inhi s (my_lo + j)).

    (* loops 1 and 3 *)
    Definition mk (ps : pspec) : peer A :=
      mkpeer (ps_rank ps) (ps_len ps) (ps_start ps) (slice g (ps_remote ps) (ps_len ps)).
    Definition E2 (s : seg) (l : list A) : list A :=
      fold_left (apply_peer dir me) (map mk (seg_pspec me my_lo lo (lo + n2) s)) l.
    Definition supp2 (s : seg) (j : nat) : bool :=
      lo_only s && inlo s (my_lo + j) || hi_only s && inhi s (my_lo + j).

    Lemma E1_len s l : length (E1 s l) = length l.
    Proof. unfold E1. destruct (both s); [apply local_ce_length|reflexivity]. Qed.

    Lemma E1_nth s l j : wf s -> length l = len -> both s = true ->
      nth_error (E1 s l) j =
      if inlo s (my_lo + j) then lo_val dir (nth_error l j) (nth_error l (j + n2))
      else if inhi s (my_lo + j) then hi_val dir (nth_error l (j - n2)) (nth_error l j)
      else nth_error l j.
    Proof.
      intros W L B. unfold E1. rewrite B. unfold both in B. b2p. destruct W as (W1&W2&W3&W4&W5&W6&W7&W8).
      rewrite H, H0 in *. pose proof my_range as [R1 R2]. fold my_lo in W5, W7.
      replace (lo + n2 + s_off s - my_lo) with (lo + s_off s - my_lo + n2) by lia.
      rewrite local_ce_nth by (unfold len in L; fold my_lo in L; lia).
      unfold inlo, inhi.
      assert (C : my_lo + j < lo + s_off s \/ (lo + s_off s <= my_lo + j < lo + s_off s + s_len s) \/
                  (lo + s_off s + s_len s <= my_lo + j < lo + n2 + s_off s) \/
                  (lo + n2 + s_off s <= my_lo + j < lo + n2 + s_off s + s_len s) \/
                  lo + n2 + s_off s + s_len s <= my_lo + j) by lia.
      destruct C as [C|[C|[C|[C|C]]]]; decide_b; reflexivity.
    Qed.

    Lemma E1_out s l j : wf s -> length l = len -> supp1 s j = false -> nth_error (E1 s l) j = nth_error l j.
    Proof.
      intros W L S. destruct (both s) eqn:B; [|unfold E1; rewrite B; reflexivity].
      rewrite E1_nth by assumption. unfold supp1 in S. rewrite B in S. cbn [andb] in S.
      apply orb_false_iff in S. destruct S as [-> ->]. reflexivity.
    Qed.

    Lemma E1_loc s l l' j : wf s -> length l = len -> length l' = len -> supp1 s j = true ->
      (forall j', supp1 s j' = true -> nth_error l j' = nth_error l' j') ->
      nth_error (E1 s l) j = nth_error (E1 s l') j.
    Proof.
      intros W L L' S Hag. pose proof S as S0. unfold supp1 in S. apply andb_true_iff in S. destruct S as [B S].
      rewrite !E1_nth by assumption. rewrite (Hag j S0).
      destruct W as (W1&W2&W3&W4&W5&W6&W7&W8).
      destruct (inlo s (my_lo + j)) eqn:I1.
      - rewrite (Hag (j + n2)); [reflexivity|]. unfold supp1. rewrite B. unfold inlo, inhi in *. b2p.
        cbn [andb]. decide_b. reflexivity.
      - destruct (inhi s (my_lo + j)) eqn:I2; [|reflexivity].
        rewrite (Hag (j - n2)); [reflexivity|]. unfold supp1. rewrite B. unfold both, inlo, inhi in *. b2p.
        rewrite H1 in *. fold my_lo in W5. cbn [andb]. decide_b. reflexivity.
    Qed.

    Lemma E2_lo s l : lo_only s = true ->
      E2 s l = apply_peer dir me l (mkpeer (s_hi_owner s) (s_len s) (lo + s_off s - my_lo)
                                           (slice g (lo + n2 + s_off s) (s_len s))).
    Proof. intros H. unfold lo_only in H. unfold E2, seg_pspec. rewrite H. reflexivity. Qed.
    Lemma E2_hi s l : lo_only s = false -> hi_only s = true ->
      E2 s l = apply_peer dir me l (mkpeer (s_lo_owner s) (s_len s) (lo + n2 + s_off s - my_lo)
                                           (slice g (lo + s_off s) (s_len s))).
    Proof. intros H H'. unfold lo_only in H. unfold hi_only in H'. unfold E2, seg_pspec. rewrite H, H'. reflexivity. Qed.
    Lemma E2_none s l : lo_only s = false -> hi_only s = false -> E2 s l = l.
    Proof. intros H H'. unfold lo_only in H. unfold hi_only in H'. unfold E2, seg_pspec. rewrite H, H'. reflexivity. Qed.

    Lemma E2_nth s l j : wf s -> length l = len ->
      nth_error (E2 s l) j =
      if lo_only s && inlo s (my_lo + j) then lo_val dir (nth_error l j) (nth_error g (my_lo + j + n2))
      else if hi_only s && inhi s (my_lo + j) then hi_val dir (nth_error g (my_lo + j - n2)) (nth_error l j)
      else nth_error l j.
    Proof.
      intros W L. destruct W as (W1&W2&W3&W4&W5&W6&W7&W8). pose proof my_range as [R1 R2].
      unfold len in L. fold my_lo in L, R1.
      destruct (lo_only s) eqn:Lo.
      - rewrite E2_lo by exact Lo. unfold lo_only in Lo. b2p. rewrite H in *. fold my_lo in W5.
        assert (Hlt : me < s_hi_owner s) by (apply (owner_order me (s_hi_owner s) (lo + s_off s) (lo + n2 + s_off s)); lia).
        assert (Hi : hi_only s = false) by (unfold hi_only; rewrite H, Nat.eqb_refl; reflexivity).
        rewrite Hi. cbn [andb].
        rewrite apply_peer_nth by (split; cbn [p_start p_len p_buf]; [lia|apply slice_length; lia]).
        cbn [p_start p_len p_buf p_rank]. replace (me <? s_hi_owner s) with true by (symmetry; apply Nat.ltb_lt; exact Hlt).
        unfold inlo. rewrite slice_nth.
        assert (C : my_lo + j < lo + s_off s \/ (lo + s_off s <= my_lo + j < lo + s_off s + s_len s) \/
                    lo + s_off s + s_len s <= my_lo + j) by lia.
        destruct C as [C|[C|C]]; decide_b; cbn [andb]; try reflexivity.
        replace (lo + n2 + s_off s + (j - (lo + s_off s - my_lo))) with (my_lo + j + n2) by lia.
        unfold lo_val. destruct (nth_error l j); [|reflexivity]. destruct (nth_error g (my_lo + j + n2)); reflexivity.
      - cbn [andb]. destruct (hi_only s) eqn:Hi; [|rewrite E2_none by assumption; reflexivity].
        rewrite E2_hi by assumption. unfold hi_only in Hi. b2p. rewrite H0 in *. fold my_lo in W7.
        assert (Hlt : s_lo_owner s < me) by (apply (owner_order (s_lo_owner s) me (lo + s_off s) (lo + n2 + s_off s)); lia).
        rewrite apply_peer_nth by (split; cbn [p_start p_len p_buf]; [lia|apply slice_length; lia]).
        cbn [p_start p_len p_buf p_rank]. replace (me <? s_lo_owner s) with false by (symmetry; apply Nat.ltb_ge; lia).
        unfold inhi. rewrite slice_nth.
        assert (C : my_lo + j < lo + n2 + s_off s \/ (lo + n2 + s_off s <= my_lo + j < lo + n2 + s_off s + s_len s) \/
                    lo + n2 + s_off s + s_len s <= my_lo + j) by lia.
        destruct C as [C|[C|C]]; decide_b; cbn [andb]; try reflexivity.
        replace (lo + s_off s + (j - (lo + n2 + s_off s - my_lo))) with (my_lo + j - n2) by lia.
        unfold hi_val. destruct (nth_error l j), (nth_error g (my_lo + j - n2)); reflexivity.
    Qed.

    Lemma E2_len s l : wf s -> length l = len -> length (E2 s l) = len.
    Proof.
      intros W L. destruct W as (W1&W2&W3&W4&W5&W6&W7&W8). pose proof my_range as [R1 R2].
      unfold len in L. fold my_lo in L, R1.
      destruct (lo_only s) eqn:Lo.
      - rewrite E2_lo by exact Lo. unfold lo_only in Lo. b2p. rewrite H in *. fold my_lo in W5.
        rewrite apply_peer_length; [unfold len; fold my_lo; exact L|].
        split; cbn [p_start p_len p_buf]; [lia|apply slice_length; lia].
      - destruct (hi_only s) eqn:Hi; [|rewrite E2_none by assumption; unfold len; fold my_lo; exact L].
        rewrite E2_hi by assumption. unfold hi_only in Hi. b2p. rewrite H0 in *. fold my_lo in W7.
        rewrite apply_peer_length; [unfold len; fold my_lo; exact L|].
        split; cbn [p_start p_len p_buf]; [lia|apply slice_length; lia].
    Qed.

    Lemma E2_out s l j : wf s -> length l = len -> supp2 s j = false -> nth_error (E2 s l) j = nth_error l j.
    Proof.
      intros W L S. rewrite E2_nth by assumption. unfold supp2 in S. apply orb_false_iff in S. destruct S as [-> ->].
      reflexivity.
    Qed.

    Lemma E2_loc s l l' j : wf s -> length l = len -> length l' = len -> supp2 s j = true ->
      (forall j', supp2 s j' = true -> nth_error l j' = nth_error l' j') ->
      nth_error (E2 s l) j = nth_error (E2 s l') j.
    Proof. intros W L L' S Hag. rewrite !E2_nth by assumption. rewrite (Hag j S). reflexivity. Qed.

    (* -- the chain -- *)
    Lemma chain_wf x : In x segs -> wf x.
    Proof.
      destruct (chain_facts _ _ _ _ _ _ _ Hch) as [F _]. rewrite Forall_forall in F. intros Hx. apply (F x Hx).
    Qed.
    Lemma chain_unique x y i : In x segs -> In y segs ->
      s_off x <= i < s_off x + s_len x -> s_off y <= i < s_off y + s_len y -> x = y.
    Proof.
      destruct (chain_facts _ _ _ _ _ _ _ Hch) as [_ [O _]]. intros Hx Hy Ix Iy.
      destruct (ForallOrdPairs_In O x y Hx Hy) as [E|[B|B]]; [exact E| |]; unfold seg_before in B; lia.
    Qed.
    Lemma chain_cover i : i < r -> exists s, In s segs /\ s_off s <= i < s_off s + s_len s.
    Proof. destruct (chain_facts _ _ _ _ _ _ _ Hch) as [_ [_ Cv]]. intros Hi. apply Cv. lia. Qed.

    Lemma supp1_inv x j : In x segs -> supp1 x j = true ->
      s_lo_owner x = me /\ s_hi_owner x = me /\
      ((lo + s_off x <= my_lo + j < lo + s_off x + s_len x) \/
       (lo + n2 + s_off x <= my_lo + j < lo + n2 + s_off x + s_len x)).
    Proof.
      intros Hx S. unfold supp1, both, inlo, inhi in S. b2pd; (split; [assumption|split; [assumption|lia]]).
    Qed.
    Lemma supp2_inv x j : In x segs -> supp2 x j = true ->
      (s_lo_owner x = me /\ s_hi_owner x <> me /\ lo + s_off x <= my_lo + j < lo + s_off x + s_len x) \/
      (s_lo_owner x <> me /\ s_hi_owner x = me /\ lo + n2 + s_off x <= my_lo + j < lo + n2 + s_off x + s_len x).
    Proof.
      intros Hx S. unfold supp2, lo_only, hi_only, inlo, inhi in S. b2pd; [left|right]; lia.
    Qed.

    Lemma disj1 : ForallOrdPairs (sdisj seg supp1) segs.
    Proof.
      destruct (chain_facts _ _ _ _ _ _ _ Hch) as [F [O _]].
      apply (FOP_strengthen (fun s => wf s /\ 0 <= s_off s) seg_before); [|exact F|exact O].
      intros x y [Wx _] [Wy _] B j S1 S2. unfold seg_before in B. unfold seg_wf in Wx, Wy.
      unfold supp1, both, inlo, inhi in S1, S2. b2pd; lia.
    Qed.
    Lemma disj2 : ForallOrdPairs (sdisj seg supp2) segs.
    Proof.
      destruct (chain_facts _ _ _ _ _ _ _ Hch) as [F [O _]].
      apply (FOP_strengthen (fun s => wf s /\ 0 <= s_off s) seg_before); [|exact F|exact O].
      intros x y [Wx _] [Wy _] B j S1 S2. unfold seg_before in B. unfold seg_wf in Wx, Wy.
      unfold supp2, lo_only, hi_only, inlo, inhi in S1, S2. b2pd; lia.
    Qed.
    Lemma segs_wf : Forall wf segs.
    Proof. apply Forall_forall. exact chain_wf. Qed.

    (* -- the local array before the step, after loop 2, after loop 3 -- *)
    Definition l0 := slice g my_lo len.
    Definition l1 := fold_left (fun l s => E1 s l) segs l0.
    Definition l2 := fold_left (fun l s => E2 s l) segs l1.

    Lemma l0_len : length l0 = len.
    Proof. pose proof my_range. apply slice_length. unfold my_lo, len. lia. Qed.
    Lemma l0_nth j : j < len -> nth_error l0 j = nth_error g (my_lo + j).
    Proof.
      intros H. unfold l0. rewrite slice_nth. replace (j <? len) with true by (symmetry; apply Nat.ltb_lt; exact H).
      reflexivity.
    Qed.
    Lemma l1_len : length l1 = len.
    Proof.
      apply (fold_supp_length seg E1 (fun _ => True) len); [|apply Forall_forall; intros; exact I|exact l0_len].
      intros s l _ L. rewrite E1_len. exact L.
    Qed.
    Lemma l1_nth j : nth_error l1 j =
      match find (fun s => supp1 s j) segs with Some s => nth_error (E1 s l0) j | None => nth_error l0 j end.
    Proof.
      apply (fold_supp_nth seg E1 supp1 wf len); try exact segs_wf; try exact disj1; try exact l0_len.
      - intros s l _ L. rewrite E1_len. exact L.
      - exact E1_out.
      - exact E1_loc.
    Qed.
    Lemma l2_len : length l2 = len.
    Proof. apply (fold_supp_length seg E2 wf len); [exact E2_len|exact segs_wf|exact l1_len]. Qed.
    Lemma l2_nth j : nth_error l2 j =
      match find (fun s => supp2 s j) segs with Some s => nth_error (E2 s l1) j | None => nth_error l1 j end.
    Proof.
      apply (fold_supp_nth seg E2 supp2 wf len); try exact segs_wf; try exact disj2; try exact l1_len.
      - exact E2_len.
      - exact E2_out.
      - exact E2_loc.
    Qed.

    Lemma mine_lo_owner x j : In x segs -> j < len ->
      lo + s_off x <= my_lo + j < lo + s_off x + s_len x -> s_lo_owner x = me.
    Proof.
      intros Hx Hj K. destruct (chain_wf x Hx) as (W1&W2&W3&W4&W5&W6&W7&W8). pose proof my_range as [R1 R2].
      apply (owner_unique c P (s_lo_owner x) me (my_lo + j) M W3 Hme); unfold owns; unfold my_lo, len in *; lia.
    Qed.
    Lemma mine_hi_owner x j : In x segs -> j < len ->
      lo + n2 + s_off x <= my_lo + j < lo + n2 + s_off x + s_len x -> s_hi_owner x = me.
    Proof.
      intros Hx Hj K. destruct (chain_wf x Hx) as (W1&W2&W3&W4&W5&W6&W7&W8). pose proof my_range as [R1 R2].
      apply (owner_unique c P (s_hi_owner x) me (my_lo + j) M W4 Hme); unfold owns; unfold my_lo, len in *; lia.
    Qed.

    (* the rank's part of the array after the step = its part of the sequential half-cleaner applied to g *)
    Lemma rank_step_nth j : j < len ->
      nth_error l2 j = nth_error (local_ce dir lo (lo + n2) r g) (my_lo + j).
    Proof.
      intros Hj. pose proof my_range as [R1 R2].
      rewrite local_ce_nth by lia.
      assert (C : (lo <= my_lo + j < lo + r) \/ (lo + n2 <= my_lo + j < lo + n2 + r) \/
                  (~ (lo <= my_lo + j < lo + r) /\ ~ (lo + n2 <= my_lo + j < lo + n2 + r))) by lia.
      destruct C as [C|[C|C]].
      - (* lower side of the comparison *)
        decide_b. cbn [andb].
        destruct (chain_cover (my_lo + j - lo) ltac:(lia)) as [s [Hs I]].
        pose proof (chain_wf s Hs) as Ws. pose proof Ws as (W1&W2&W3&W4&W5&W6&W7&W8).
        assert (Il : lo + s_off s <= my_lo + j < lo + s_off s + s_len s) by lia.
        pose proof (mine_lo_owner s j Hs Hj Il) as Ol.
        destruct (Nat.eq_dec (s_hi_owner s) me) as [Oh|Oh].
        + (* both ends on this rank: loop 2 *)
          rewrite l2_nth, find_all_false.
          2:{ intros x Hx. destruct (supp2 x j) eqn:S2; [exfalso|reflexivity].
              pose proof (chain_wf x Hx) as (X1&X2&X3&X4&X5&X6&X7&X8).
              destruct (supp2_inv x j Hx S2) as [[K1 [K2 K3]]|[K1 [K2 K3]]]; [|lia].
              assert (x = s) by (apply (chain_unique x s (my_lo + j - lo)); auto; lia). subst x. contradiction. }
          rewrite l1_nth. destruct (find (fun s => supp1 s j) segs) as [x|] eqn:F1.
          * apply find_some in F1. destruct F1 as [Hx S1].
            pose proof (chain_wf x Hx) as Wx. pose proof Wx as (X1&X2&X3&X4&X5&X6&X7&X8).
            destruct (supp1_inv x j Hx S1) as [K1 [K2 K3]]. rewrite K2 in X8.
            assert (K : lo + s_off x <= my_lo + j < lo + s_off x + s_len x) by lia.
            rewrite E1_nth; [|exact Wx|exact l0_len|unfold both; rewrite K1, K2, Nat.eqb_refl; reflexivity].
            unfold inlo. decide_b. cbn [andb].
            rewrite l0_nth by exact Hj. rewrite l0_nth by (unfold len, my_lo in *; lia).
            rewrite Nat.add_assoc. reflexivity.
          * exfalso. apply (find_none _ _ F1) in Hs. unfold supp1, both, inlo in Hs.
            rewrite Ol, Oh, Nat.eqb_refl in Hs. cbn [andb] in Hs. b2pd; lia.
        + (* the upper end on another rank: peer record, this rank keeps the lower half *)
          rewrite l2_nth. destruct (find (fun s => supp2 s j) segs) as [x|] eqn:F2.
          * apply find_some in F2. destruct F2 as [Hx S2].
            pose proof (chain_wf x Hx) as Wx. pose proof Wx as (X1&X2&X3&X4&X5&X6&X7&X8).
            destruct (supp2_inv x j Hx S2) as [[K1 [K2 K3]]|[K1 [K2 K3]]]; [|lia].
            rewrite E2_nth; [|exact Wx|exact l1_len].
            replace (lo_only x) with true by (unfold lo_only; symmetry; apply andb_true_iff; split;
              [apply Nat.eqb_eq; exact K1|apply negb_true_iff, Nat.eqb_neq; exact K2]).
            unfold inlo. decide_b. cbn [andb].
            rewrite l1_nth, find_all_false; [rewrite l0_nth by exact Hj; reflexivity|].
            intros y Hy. destruct (supp1 y j) eqn:S1; [exfalso|reflexivity].
            pose proof (chain_wf y Hy) as (Y1&Y2&Y3&Y4&Y5&Y6&Y7&Y8).
            destruct (supp1_inv y j Hy S1) as [J1 [J2 J3]].
            assert (y = s) by (apply (chain_unique y s (my_lo + j - lo)); auto; lia). subst y. contradiction.
          * exfalso. apply (find_none _ _ F2) in Hs. unfold supp2, lo_only, inlo in Hs.
            rewrite Ol, Nat.eqb_refl in Hs. apply Nat.eqb_neq in Oh. rewrite Oh in Hs. cbn [andb negb] in Hs. b2pd; lia.
      - (* upper side of the comparison *)
        decide_b. cbn [andb].
        destruct (chain_cover (my_lo + j - lo - n2) ltac:(lia)) as [s [Hs I]].
        pose proof (chain_wf s Hs) as Ws. pose proof Ws as (W1&W2&W3&W4&W5&W6&W7&W8).
        assert (Ih : lo + n2 + s_off s <= my_lo + j < lo + n2 + s_off s + s_len s) by lia.
        pose proof (mine_hi_owner s j Hs Hj Ih) as Oh.
        destruct (Nat.eq_dec (s_lo_owner s) me) as [Ol|Ol].
        + rewrite l2_nth, find_all_false.
          2:{ intros x Hx. destruct (supp2 x j) eqn:S2; [exfalso|reflexivity].
              pose proof (chain_wf x Hx) as (X1&X2&X3&X4&X5&X6&X7&X8).
              destruct (supp2_inv x j Hx S2) as [[K1 [K2 K3]]|[K1 [K2 K3]]]; [lia|].
              assert (x = s) by (apply (chain_unique x s (my_lo + j - lo - n2)); auto; lia). subst x. contradiction. }
          rewrite l1_nth. destruct (find (fun s => supp1 s j) segs) as [x|] eqn:F1.
          * apply find_some in F1. destruct F1 as [Hx S1].
            pose proof (chain_wf x Hx) as Wx. pose proof Wx as (X1&X2&X3&X4&X5&X6&X7&X8).
            destruct (supp1_inv x j Hx S1) as [K1 [K2 K3]]. rewrite K1 in X5.
            assert (K : lo + n2 + s_off x <= my_lo + j < lo + n2 + s_off x + s_len x) by lia.
            rewrite E1_nth; [|exact Wx|exact l0_len|unfold both; rewrite K1, K2, Nat.eqb_refl; reflexivity].
            unfold inlo, inhi. decide_b. cbn [andb].
            rewrite (l0_nth j Hj). rewrite (l0_nth (j - n2)) by (unfold len, my_lo in *; lia).
            replace (my_lo + (j - n2)) with (my_lo + j - n2) by (unfold my_lo in *; lia). reflexivity.
          * exfalso. apply (find_none _ _ F1) in Hs. unfold supp1, both, inlo, inhi in Hs.
            rewrite Ol, Oh, Nat.eqb_refl in Hs. cbn [andb] in Hs. b2pd; lia.
        + rewrite l2_nth. destruct (find (fun s => supp2 s j) segs) as [x|] eqn:F2.
          * apply find_some in F2. destruct F2 as [Hx S2].
            pose proof (chain_wf x Hx) as Wx. pose proof Wx as (X1&X2&X3&X4&X5&X6&X7&X8).
            destruct (supp2_inv x j Hx S2) as [[K1 [K2 K3]]|[K1 [K2 K3]]]; [lia|].
            rewrite E2_nth; [|exact Wx|exact l1_len].
            replace (lo_only x) with false by (unfold lo_only; symmetry; apply andb_false_iff; left;
              apply Nat.eqb_neq; exact K1).
            replace (hi_only x) with true by (unfold hi_only; symmetry; apply andb_true_iff; split;
              [apply negb_true_iff, Nat.eqb_neq; exact K1|apply Nat.eqb_eq; exact K2]).
            unfold inhi. decide_b. cbn [andb].
            rewrite l1_nth, find_all_false; [rewrite l0_nth by exact Hj; reflexivity|].
            intros y Hy. destruct (supp1 y j) eqn:S1; [exfalso|reflexivity].
            pose proof (chain_wf y Hy) as (Y1&Y2&Y3&Y4&Y5&Y6&Y7&Y8).
            destruct (supp1_inv y j Hy S1) as [J1 [J2 J3]].
            assert (y = s) by (apply (chain_unique y s (my_lo + j - lo - n2)); auto; lia). subst y. contradiction.
          * exfalso. apply (find_none _ _ F2) in Hs. unfold supp2, lo_only, hi_only, inhi in Hs.
            rewrite Oh, Nat.eqb_refl in Hs. apply Nat.eqb_neq in Ol. rewrite Ol in Hs. cbn [andb negb orb] in Hs. b2pd; lia.
      - (* not compared in this step *)
        destruct ((lo <=? my_lo + j) && (my_lo + j <? lo + r)) eqn:B1; [exfalso; b2p; lia|].
        destruct ((lo + n2 <=? my_lo + j) && (my_lo + j <? lo + n2 + r)) eqn:B2; [exfalso; b2p; lia|].
        rewrite l2_nth, find_all_false.
        2:{ intros x Hx. destruct (supp2 x j) eqn:S2; [exfalso|reflexivity].
            pose proof (chain_wf x Hx) as (X1&X2&X3&X4&X5&X6&X7&X8).
            destruct (supp2_inv x j Hx S2) as [[K1 [K2 K3]]|[K1 [K2 K3]]]; lia. }
        rewrite l1_nth, find_all_false; [apply l0_nth; exact Hj|].
        intros x Hx. destruct (supp1 x j) eqn:S1; [exfalso|reflexivity].
        pose proof (chain_wf x Hx) as (X1&X2&X3&X4&X5&X6&X7&X8).
        destruct (supp1_inv x j Hx S1) as [K1 [K2 K3]]. lia.
    Qed.

    Theorem rank_step_correct : l2 = slice (local_ce dir lo (lo + n2) r g) my_lo len.
    Proof.
      apply nth_error_ext. intros j. rewrite slice_nth. destruct (j <? len) eqn:E.
      - apply Nat.ltb_lt in E. apply rank_step_nth. exact E.
      - apply Nat.ltb_ge in E. apply nth_error_None. rewrite l2_len. exact E.
    Qed.
  End RankStep.

  (* ---- all ranks: one round of the distributed merge = the half-cleaner of the network ------------------------------- *)
  Variable sort : bool -> list A -> list A.
  Hypothesis sort_length : forall d l, length (sort d l) = length l.
  Notation run := (run A gt sort).

  Lemma run_app o1 o2 l : run (o1 ++ o2) l = run o2 (run o1 l).
  Proof. unfold PsortModel.run. apply fold_left_app. Qed.

  Lemma run_cons o ops l : run (o :: ops) l = run ops (apply_op A gt sort l o).
  Proof. reflexivity. Qed.

  Lemma lsort_len d lo n l : length (lsort A sort d lo n l) = length l.
  Proof.
    unfold lsort, PsortModel.put_slice. rewrite !app_length, firstn_length, skipn_length, sort_length.
    unfold PsortModel.slice. rewrite firstn_length, skipn_length. lia.
  Qed.
  Lemma run_len ops : forall l, length (run ops l) = length l.
  Proof.
    induction ops as [|o ops IH]; intros l; [reflexivity|].
    unfold PsortModel.run in *. cbn [fold_left]. rewrite IH. destruct o; simpl; [apply ce_length|apply lsort_len].
  Qed.

  Lemma run_halfclean dir lo n2 : forall r s g,
    run (map (fun i => CE (lo + i) (lo + n2 + i) dir) (seq s r)) g = local_ce dir (lo + s) (lo + n2 + s) r g.
  Proof.
    induction r as [|r IH]; intros s g; [reflexivity|].
    cbn [seq map PsortModel.local_ce]. rewrite run_cons. cbn [apply_op].
    rewrite IH. rewrite <- !plus_n_Sm. reflexivity.
  Qed.
  Lemma run_halfclean_ops dir lo n2 r g : run (halfclean_ops lo n2 r dir) g = local_ce dir lo (lo + n2) r g.
  Proof. unfold halfclean_ops. rewrite run_halfclean, !Nat.add_0_r. reflexivity. Qed.

  Lemma peers_fold dir me (mkp : pspec -> peer A) (f : seg -> list pspec) : forall segs l,
    fold_left (apply_peer dir me) (map mkp (flat_map f segs)) l =
    fold_left (fun l s => fold_left (apply_peer dir me) (map mkp (f s)) l) segs l.
  Proof.
    induction segs as [|a t IH]; intros l; [reflexivity|].
    cbn [flat_map fold_left]. rewrite map_app, fold_left_app. apply IH.
  Qed.

  Section Global.
    Variable counts : list nat.
    Let off := cumul 0 counts.
    Let P := length counts.
    Let c := cum off.

    Lemma off_P : length off - 1 = P.
    Proof. unfold off, P. rewrite cumul_length. lia. Qed.
    Lemma c_mono : mono c P.
    Proof. apply cum_mono. Qed.
    Lemma c_0 : c 0 = 0.
    Proof. apply cum_0. Qed.

    Lemma locals_concat g : length g = c P -> concat (map (fun me => local_of A off me g) (seq 0 P)) = g.
    Proof.
      intros L. unfold local_of. fold c. rewrite (concat_slices c g P c_0).
      - rewrite <- L. apply firstn_all.
      - intros r Hr. apply c_mono; lia.
    Qed.

    (* one rank, one merge step *)
    Lemma rank_merge_step_eq dir me lo n g : me < P -> 2 <= n -> lo + n <= c P -> length g = c P ->
      rank_merge_step A gt dir off me lo n (fun s => slice g (ps_remote s) (ps_len s)) (local_of A off me g) =
      local_of A off me (local_ce dir lo (lo + n2_of n) (n - n2_of n) g).
    Proof.
      intros Hme Hn Hhi L. destruct (n2_of_bounds n Hn) as [k [_ B]].
      unfold rank_merge_step, rank_pspecs. rewrite peers_fold.
      destruct (segments_correct counts me lo (n2_of n) (n - n2_of n) Hme ltac:(fold off; fold c; fold P; lia)) as [Ch _].
      exact (rank_step_correct c P c_mono dir me lo (n2_of n) (n - n2_of n) Hme ltac:(lia) g L ltac:(lia) _ Ch).
    Qed.

    Lemma idle_rank_eq dir me lo n g : me < P -> 2 <= n -> lo + n <= c P -> length g = c P ->
      participates off me lo n = false ->
      local_of A off me g = local_of A off me (local_ce dir lo (lo + n2_of n) (n - n2_of n) g).
    Proof.
      intros Hme Hn Hhi L Np. destruct (n2_of_bounds n Hn) as [k [_ B]].
      unfold participates in Np. fold c in Np.
      assert (Out : c (S me) <= lo \/ lo + n <= c me) by (b2pd; lia).
      apply nth_error_ext. intros j. unfold local_of. fold c. rewrite !slice_nth.
      destruct (j <? c (S me) - c me) eqn:E; [|reflexivity]. apply Nat.ltb_lt in E.
      rewrite local_ce_nth by lia.
      destruct ((lo <=? c me + j) && (c me + j <? lo + (n - n2_of n))) eqn:B1; [exfalso; b2p; lia|].
      destruct ((lo + n2_of n <=? c me + j) && (c me + j <? lo + n2_of n + (n - n2_of n))) eqn:B2; [exfalso; b2p; lia|].
      reflexivity.
    Qed.

    Theorem dist_merge_step_eq dir lo n g : 2 <= n -> lo + n <= c P -> length g = c P ->
      dist_merge_step A gt dir off lo n g = run (halfclean_ops lo (n2_of n) (n - n2_of n) dir) g.
    Proof.
      intros Hn Hhi L. rewrite run_halfclean_ops. unfold dist_merge_step. rewrite off_P.
      rewrite (map_ext_in _ (fun me => local_of A off me (local_ce dir lo (lo + n2_of n) (n - n2_of n) g))).
      - apply locals_concat. rewrite local_ce_length. exact L.
      - intros me Hin. apply in_seq in Hin. destruct (participates off me lo n) eqn:Pt.
        + apply rank_merge_step_eq; auto; lia.
        + apply idle_rank_eq; auto; lia.
    Qed.

    Theorem dist_merge_eq dir : forall f lo n g, lo + n <= c P -> length g = c P ->
      dist_merge A gt f dir off lo n g = run (merge_ops f lo n dir) g.
    Proof.
      induction f as [|f IH]; intros lo n g Hhi L; [reflexivity|].
      cbn [dist_merge merge_ops]. destruct (1 <? n) eqn:E; [|reflexivity]. apply Nat.ltb_lt in E.
      destruct (n2_of_bounds n ltac:(lia)) as [k [_ B]].
      rewrite !run_app. rewrite dist_merge_step_eq by (auto; lia).
      rewrite (IH lo (n2_of n)) by (rewrite ?run_len; lia). rewrite IH by (rewrite ?run_len; lia). reflexivity.
    Qed.

    (* the leaf of sc_psort_bitonic: the range lies inside one rank, that rank calls qsort *)
    Lemma slice_slice (g : list A) a len b n : b + n <= len -> slice (slice g a len) b n = slice g (a + b) n.
    Proof.
      intros H. apply nth_error_ext. intros i. rewrite !slice_nth. destruct (i <? n) eqn:E; [|reflexivity].
      apply Nat.ltb_lt in E. replace (b + i <? len) with true by (symmetry; apply Nat.ltb_lt; lia).
      rewrite Nat.add_assoc. reflexivity.
    Qed.

    Lemma lsort_nth d lo n (l : list A) i : lo + n <= length l ->
      nth_error (lsort A sort d lo n l) i =
      if (lo <=? i) && (i <? lo + n) then nth_error (sort d (slice l lo n)) (i - lo) else nth_error l i.
    Proof.
      intros H. unfold lsort. rewrite put_slice_nth; rewrite sort_length, slice_length by exact H; [reflexivity|exact H].
    Qed.

    Lemma local_of_nth me (g : list A) j :
      nth_error (local_of A off me g) j = if j <? c (S me) - c me then nth_error g (c me + j) else None.
    Proof. unfold local_of. fold c. apply slice_nth. Qed.

    Theorem dist_leaf_eq dir lo n g : 2 <= n -> length g = c P -> inside_one_rank off lo n = true ->
      dist_leaf A sort dir off lo n g = lsort A sort dir lo n g.
    Proof.
      intros Hn L Hin. unfold inside_one_rank in Hin. rewrite off_P in Hin. apply existsb_exists in Hin.
      destruct Hin as [r0 [Hr0 Ir0]]. apply in_seq in Hr0. unfold inside_rank in Ir0. fold c in Ir0. b2p.
      assert (Hhi : lo + n <= c P) by (pose proof (c_mono (S r0) P ltac:(lia) ltac:(lia)); lia).
      unfold dist_leaf. rewrite off_P.
      rewrite (map_ext_in _ (fun me => local_of A off me (lsort A sort dir lo n g))).
      { apply locals_concat. rewrite lsort_len. exact L. }
      intros me Hme. apply in_seq in Hme.
      pose proof (c_mono me (S me) ltac:(lia) ltac:(lia)) as R1.
      pose proof (c_mono (S me) P ltac:(lia) ltac:(lia)) as R2.
      cbv beta zeta. fold c. apply nth_error_ext. intros j.
      rewrite (local_of_nth me (lsort A sort dir lo n g)), lsort_nth by lia.
      assert (Ll : length (local_of A off me g) = c (S me) - c me) by (unfold local_of; fold c; apply slice_length; lia).
      destruct (participates off me lo n && inside_rank off lo n me) eqn:Cnd.
      - (* the owner of the range *)
        unfold inside_rank in Cnd. fold c in Cnd. b2p.
        rewrite lsort_nth by lia. rewrite local_of_nth. unfold local_of. fold c. rewrite slice_slice by lia.
        replace (c me + (lo - c me)) with lo by lia.
        destruct (j <? c (S me) - c me) eqn:E.
        + apply Nat.ltb_lt in E.
          assert (C : c me + j < lo \/ lo <= c me + j < lo + n \/ lo + n <= c me + j) by lia.
          destruct C as [C|[C|C]]; decide_b; cbn [andb]; try reflexivity.
          f_equal. lia.
        + apply Nat.ltb_ge in E. decide_b. rewrite andb_false_r. reflexivity.
      - (* every other rank: its part of the array is not in the range *)
        assert (Out : c (S me) <= lo \/ lo + n <= c me).
        { destruct (Nat.lt_trichotomy me r0) as [K|[K|K]].
          - pose proof (c_mono (S me) r0 ltac:(lia) ltac:(lia)). lia.
          - exfalso. subst r0. unfold participates, inside_rank in Cnd. fold c in Cnd. b2pd; lia.
          - pose proof (c_mono (S r0) me ltac:(lia) ltac:(lia)). lia. }
        rewrite local_of_nth.
        destruct (j <? c (S me) - c me) eqn:E; [|reflexivity]. apply Nat.ltb_lt in E.
        destruct ((lo <=? c me + j) && (c me + j <? lo + n)) eqn:B1; [exfalso; b2p; lia|reflexivity].
    Qed.

    (* the whole recursion of sc_psort_bitonic *)
    Theorem dist_sort_eq : forall f lo n dir g, lo + n <= c P -> length g = c P ->
      dist_sort A gt sort f off lo n dir g = run (sort_ops f off lo n dir) g.
    Proof.
      induction f as [|f IH]; intros lo n dir g Hhi L; [reflexivity|].
      cbn [dist_sort sort_ops]. destruct (1 <? n) eqn:E; [|reflexivity]. apply Nat.ltb_lt in E.
      destruct (inside_one_rank off lo n) eqn:I1.
      - rewrite dist_leaf_eq by (auto; lia). reflexivity.
      - assert (Hh : n / 2 < n) by (apply Nat.div_lt; lia).
        rewrite !run_app.
        rewrite (IH lo (n / 2)) by lia.
        rewrite IH by (rewrite ?run_len; lia).
        rewrite dist_merge_eq by (rewrite ?run_len; lia). reflexivity.
    Qed.
  End Global.

  (* ---- THE COMPOSITION THEOREM: the distributed rounds compute the arrays of the sequential network ------------------ *)
  Theorem dist_psort_eq counts xs : map (@length A) xs = counts ->
    dist_psort A gt sort counts xs = psort A gt sort counts xs.
  Proof.
    intros H. unfold dist_psort, psort, psort_ops. f_equal.
    assert (T : cum (cumul 0 counts) (length counts) = fold_right Nat.add 0 counts).
    { unfold cum. rewrite cumul_nth by lia. rewrite firstn_all. reflexivity. }
    apply dist_sort_eq; [lia|]. rewrite T, concat_length_sum, H. reflexivity.
  Qed.
End Compose.
