(* C05, sortedness, part 2: the Boolean comparator network of sc_merge_bitonic sorts.

   On 0-1 lists (false < true, comparison `gtb`, local sort `sortb` of PsortZeroOne.v):
   * the operations of `merge_ops fuel lo n dir` touch positions [lo, lo+n) only and act there like the operations
     for lo = 0 (locality);
   * one half-cleaner step (`halfclean_ops`) on a cyclically bitonic 0-1 list of length 2m leaves one half constant
     and the other half bitonic, every entry of the lower half <= (dir = true) every entry of the upper half;
   * `merge_pow2`: for n = 2^k the merge sorts every cyclically bitonic 0-1 list (classical bitonic merge);
   * `merge_any`: for ARBITRARY n the merge sorts every 0-1 list of the form dir^x (negb dir)^y dir^z
     (dir = true: descending-then-ascending).  Idea (Lang): think the list padded with copies of `dir` up to
     2 * n2; the comparators of the full half-cleaner that are missing would compare with the padding and do nothing.
   Positions are characterised with `nth _ _ false`; the arithmetic is done by lia after case splits on the
   comparisons. *)
From Coq Require Import Arith List Bool PeanoNat Lia Permutation.
From ScV Require Import C05.PsortModel C05.ListAux C05.PsortPerm C05.PsortDist C05.PsortZeroOne.
Import ListNotations.

Ltac bdestr :=
  repeat match goal with
  | |- context[?a <? ?b] => destruct (Nat.ltb_spec a b)
  | |- context[?a <=? ?b] => destruct (Nat.leb_spec a b)
  | |- context[?a =? ?b] => destruct (Nat.eqb_spec a b)
  end.

(* ---- n2_of: the greatest power of two strictly below n ------------------------------------------------ *)
Lemma pow2_ge_spec n k : 2 ^ k < n <= 2 ^ (S k) ->
  forall fuel i, i <= S k -> S k - i <= fuel -> pow2_ge fuel (2 ^ i) n = 2 ^ (S k).
Proof.
  intros Hn. induction fuel as [|f IH]; intros i Hi Hf.
  - assert (i = S k) by lia. subst. reflexivity.
  - cbn [pow2_ge]. destruct (2 ^ i <? n) eqn:E.
    + apply Nat.ltb_lt in E. assert (i < S k) by (apply (Nat.pow_lt_mono_r_iff 2); lia).
      replace (2 * 2 ^ i) with (2 ^ (S i)) by (rewrite Nat.pow_succ_r'; reflexivity). apply IH; lia.
    + apply Nat.ltb_ge in E. destruct (Nat.eq_dec i (S k)) as [->|Ne]; [reflexivity|].
      assert (2 ^ i <= 2 ^ k) by (apply Nat.pow_le_mono_r; lia). lia.
Qed.

Lemma n2_of_spec n k : 2 ^ k < n <= 2 ^ (S k) -> n2_of n = 2 ^ k.
Proof.
  intros H. unfold n2_of. pose proof (Nat.pow_gt_lin_r 2 k ltac:(lia)) as G.
  pose proof (pow2_ge_spec n k H n 0 ltac:(lia) ltac:(lia)) as E. change (2 ^ 0) with 1 in E. rewrite E.
  rewrite Nat.pow_succ_r', Nat.mul_comm. apply Nat.div_mul. lia.
Qed.

Lemma pow2_bracket n : 2 <= n -> exists k, 2 ^ k < n <= 2 ^ (S k).
Proof.
  intros H. pose proof (Nat.log2_up_spec n ltac:(lia)) as S. pose proof (Nat.log2_up_pos n ltac:(lia)) as P.
  exists (Nat.pred (Nat.log2_up n)). replace (Datatypes.S (Nat.pred (Nat.log2_up n))) with (Nat.log2_up n) by lia.
  exact S.
Qed.

Lemma n2_of_bounds n : 2 <= n -> exists k, n2_of n = 2 ^ k /\ n2_of n < n <= 2 * n2_of n.
Proof.
  intros H. destruct (pow2_bracket n H) as [k Hk]. exists k. rewrite (n2_of_spec n k Hk).
  rewrite Nat.pow_succ_r' in Hk. lia.
Qed.

(* ---- lists: nth of firstn / skipn ----------------------------------------------------------------------- *)
Lemma nth_firstn_lt {B} (l : list B) n i d : i < n -> nth i (firstn n l) d = nth i l d.
Proof.
  revert l i; induction n; intros l i H; [lia|]. destruct l; [destruct i; reflexivity|].
  destruct i; [reflexivity|]. simpl. apply IHn. lia.
Qed.
Lemma nth_skipn_add {B} (l : list B) n i d : nth i (skipn n l) d = nth (n + i) l d.
Proof. revert l; induction n; intros l; [reflexivity|]. destruct l; [destruct i; reflexivity|]. simpl. apply IHn. Qed.
Lemma nth_nth_error {B} (l : list B) i d : nth i l d = match nth_error l i with Some x => x | None => d end.
Proof. rewrite <- nth_default_eq. reflexivity. Qed.

(* ---- the Boolean compare-exchange ------------------------------------------------------------------------- *)
Definition lowv (d x y : bool) : bool := if d then x && y else x || y.     (* value left at the lower position *)
Definition highv (d x y : bool) : bool := if d then x || y else x && y.    (* value left at the upper position *)

Notation runb := (run bool gtb sortb).
Notation ceb := (ce bool gtb).

Lemma runb_length ops l : length (runb ops l) = length l.
Proof. apply run_length. exact sortb_perm. Qed.
Lemma runb_app o1 o2 l : runb (o1 ++ o2) l = runb o2 (runb o1 l).
Proof. unfold run. apply fold_left_app. Qed.

Lemma ceb_nth d i j l k : i <> j -> i < length l -> j < length l ->
  nth k (ceb d i j l) false =
  if k =? i then lowv d (nth i l false) (nth j l false)
  else if k =? j then highv d (nth i l false) (nth j l false) else nth k l false.
Proof.
  intros Hij Hi Hj.
  rewrite (nth_nth_error (ceb d i j l)).
  rewrite (ce_nth bool gtb d i j l k _ _ Hij (nth_error_nth' l false Hi) (nth_error_nth' l false Hj)).
  destruct (k =? i); [|destruct (k =? j); [|symmetry; apply nth_nth_error]];
    unfold cex, swap_needed, gtb, leb01, lowv, highv; destruct d, (nth i l false), (nth j l false); reflexivity.
Qed.

(* ---- the half-cleaner --------------------------------------------------------------------------------------- *)
Definition hc_spec (d : bool) (n2 r : nat) (s : list bool) (k : nat) : bool :=
  if k <? r then lowv d (nth k s false) (nth (k + n2) s false)
  else if (n2 <=? k) && (k <? n2 + r) then highv d (nth (k - n2) s false) (nth k s false)
  else nth k s false.

Lemma hc_nth d n2 s : forall r, r <= n2 -> n2 + r <= length s ->
  forall k, nth k (runb (halfclean_ops 0 n2 r d) s) false = hc_spec d n2 r s k.
Proof.
  induction r as [|r IH]; intros Hr Hl k.
  - unfold hc_spec. simpl. bdestr; simpl; try reflexivity; lia.
  - unfold halfclean_ops. rewrite seq_S, map_app. fold (halfclean_ops 0 n2 r d). rewrite runb_app.
    cbn [map run fold_left apply_op Nat.add].
    set (s1 := runb (halfclean_ops 0 n2 r d) s).
    assert (L1 : length s1 = length s) by apply runb_length.
    rewrite ceb_nth by lia. unfold s1. rewrite !IH by lia. unfold hc_spec.
    replace (r + n2) with (n2 + r) by lia. replace (n2 + r - n2) with r by lia.
    bdestr; simpl; subst; try reflexivity; try lia.
    + replace (r + n2) with (n2 + r) by lia. reflexivity.
    + replace (n2 + r - n2) with r by lia. reflexivity.
Qed.

(* ---- locality: networks of compare-exchanges inside a window ------------------------------------------------ *)
Definition shift_op (k : nat) (o : op) : op :=
  match o with CE i j d => CE (k + i) (k + j) d | LSort lo n d => LSort (k + lo) n d end.
Definition ce_within (n : nat) (o : op) : Prop :=
  match o with CE i j _ => i < n /\ j < n | LSort _ _ _ => False end.

Section Local.
  Variable A : Type.
  Variable gt : A -> A -> bool.
  Variable sort : bool -> list A -> list A.

  Lemma set_nth_app1 (s q : list A) i x : i < length s -> set_nth A (s ++ q) i x = set_nth A s i x ++ q.
  Proof.
    revert i; induction s as [|h t IH]; intros i H; [simpl in H; lia|].
    destruct i; simpl; [reflexivity|]. rewrite IH by (simpl in H; lia). reflexivity.
  Qed.
  Lemma ce_cons d i j a (l : list A) : ce A gt d (S i) (S j) (a :: l) = a :: ce A gt d i j l.
  Proof.
    unfold ce. simpl. destruct (nth_error l i); [|reflexivity]. destruct (nth_error l j); [|reflexivity].
    destruct (swap_needed A gt d a0 a1); reflexivity.
  Qed.
  Lemma ce_app_l d i j (p l : list A) : ce A gt d (length p + i) (length p + j) (p ++ l) = p ++ ce A gt d i j l.
  Proof. induction p as [|a p IH]; [reflexivity|]. simpl. rewrite ce_cons, IH. reflexivity. Qed.
  Lemma ce_app_r d i j (s q : list A) : i < length s -> j < length s ->
    ce A gt d i j (s ++ q) = ce A gt d i j s ++ q.
  Proof.
    intros Hi Hj. unfold ce. rewrite !nth_error_app1 by assumption.
    destruct (nth_error s i); [|reflexivity]. destruct (nth_error s j); [|reflexivity].
    destruct (swap_needed A gt d a a0); [|reflexivity].
    rewrite set_nth_app1 by assumption. rewrite set_nth_app1 by (rewrite set_nth_length; assumption). reflexivity.
  Qed.

  (* a network of compare-exchanges within [0, |s|), shifted by |p|, acts on the middle part of p ++ s ++ q *)
  Lemma run_shift ops : forall (p s q : list A), Forall (ce_within (length s)) ops ->
    run A gt sort (map (shift_op (length p)) ops) (p ++ s ++ q) = p ++ run A gt sort ops s ++ q.
  Proof.
    induction ops as [|o ops IH]; intros p s q F; [reflexivity|].
    inversion F as [|o' ops' W F']; subst.
    destruct o as [i j d|]; [|destruct W]. destruct W as [Wi Wj].
    cbn [map shift_op]. unfold run. cbn [fold_left apply_op]. fold (run A gt sort).
    rewrite ce_app_l, ce_app_r by assumption. apply IH. rewrite ce_length. exact F'.
  Qed.
End Local.

Lemma shift_op_add a b o : shift_op a (shift_op b o) = shift_op (a + b) o.
Proof. destruct o; simpl; f_equal; lia. Qed.

Lemma halfclean_shift lo n2 r d : halfclean_ops lo n2 r d = map (shift_op lo) (halfclean_ops 0 n2 r d).
Proof. unfold halfclean_ops. rewrite map_map. apply map_ext. intros i. simpl. f_equal. lia. Qed.

Lemma merge_ops_shift f : forall lo n d, merge_ops f lo n d = map (shift_op lo) (merge_ops f 0 n d).
Proof.
  induction f as [|f IH]; intros lo n d; [reflexivity|].
  cbn [merge_ops]. destruct (1 <? n); [|reflexivity].
  rewrite !map_app. rewrite (halfclean_shift lo). rewrite (IH lo). rewrite (IH (lo + n2_of n)), (IH (0 + n2_of n)).
  rewrite map_map. f_equal. f_equal. apply map_ext. intros o. rewrite shift_op_add. f_equal.
Qed.

Lemma ce_within_mono n m o : n <= m -> ce_within n o -> ce_within m o.
Proof. intros H. destruct o; simpl; [lia|tauto]. Qed.
Lemma ce_within_shift k n o : ce_within n o -> ce_within (k + n) (shift_op k o).
Proof. destruct o; simpl; [lia|tauto]. Qed.

Lemma merge_ops_within f : forall n d, Forall (ce_within n) (merge_ops f 0 n d).
Proof.
  induction f as [|f IH]; intros n d; [constructor|].
  cbn [merge_ops]. destruct (1 <? n) eqn:E; [|constructor]. apply Nat.ltb_lt in E.
  destruct (n2_of_bounds n ltac:(lia)) as [k [_ B]].
  apply Forall_app. split; [|apply Forall_app; split].
  - unfold halfclean_ops. apply Forall_forall. intros o Ho. apply in_map_iff in Ho. destruct Ho as [i [<- Hi]].
    apply in_seq in Hi. simpl. lia.
  - eapply Forall_impl; [|apply IH]. intros o. apply ce_within_mono. lia.
  - rewrite merge_ops_shift. apply Forall_forall. intros o Ho. apply in_map_iff in Ho. destruct Ho as [o' [<- Ho']].
    replace n with ((0 + n2_of n) + (n - n2_of n)) at 1 by lia. apply ce_within_shift.
    revert o' Ho'. apply Forall_forall. apply IH.
Qed.

(* the merge for the window [lo, lo+n) of a longer list *)
Lemma merge_ops_local {A} (gt : A -> A -> bool) sort f lo n d (p s q : list A) :
  length p = lo -> length s = n ->
  run A gt sort (merge_ops f lo n d) (p ++ s ++ q) = p ++ run A gt sort (merge_ops f 0 n d) s ++ q.
Proof.
  intros <- <-. rewrite merge_ops_shift. apply run_shift. apply merge_ops_within.
Qed.

(* one level of the recursion of sc_merge_bitonic, for a list that is exactly the window *)
Lemma merge_step f n d (s : list bool) : 2 <= n -> length s = n ->
  let n2 := n2_of n in
  let s' := runb (halfclean_ops 0 n2 (n - n2) d) s in
  runb (merge_ops (S f) 0 n d) s =
  runb (merge_ops f 0 n2 d) (firstn n2 s') ++ runb (merge_ops f 0 (n - n2) d) (skipn n2 s').
Proof.
  intros Hn Hl n2 s'. destruct (n2_of_bounds n Hn) as [k [_ B]]. fold n2 in B.
  cbn [merge_ops]. replace (1 <? n) with true by (symmetry; apply Nat.ltb_lt; lia). fold n2.
  rewrite !runb_app. fold s'.
  assert (L' : length s' = n) by (unfold s'; rewrite runb_length; exact Hl).
  set (L := firstn n2 s'). set (U := skipn n2 s').
  assert (LL : length L = n2) by (unfold L; rewrite firstn_length; lia).
  assert (LU : length U = n - n2) by (unfold U; rewrite skipn_length; lia).
  assert (E : s' = L ++ U) by (symmetry; apply firstn_skipn). rewrite E.
  pose proof (merge_ops_local gtb sortb f 0 n2 d [] L U eq_refl LL) as E1. cbn [app] in E1. rewrite E1.
  set (L1 := runb (merge_ops f 0 n2 d) L).
  assert (LL1 : length L1 = 0 + n2) by (unfold L1; rewrite runb_length; exact LL).
  pose proof (merge_ops_local gtb sortb f (0 + n2) (n - n2) d L1 U [] LL1 LU) as E2.
  rewrite !app_nil_r in E2. exact E2.
Qed.

(* ---- shapes of 0-1 sequences ----------------------------------------------------------------------------------- *)
(* positions [a, b) carry (negb c), all others c.  c = false: 0..0 1..1 0..0;  c = true: 1..1 0..0 1..1 *)
Definition fshape (m : nat) (c : bool) (a b : nat) (g : nat -> bool) : Prop :=
  forall i, i < m -> g i = xorb c ((a <=? i) && (i <? b)).
Definition fconst (m : nat) (c : bool) (g : nat -> bool) : Prop := forall i, i < m -> g i = c.
Definition fbitonic (m : nat) (g : nat -> bool) : Prop := exists c a b, fshape m c a b g.

Lemma fshape_norm m c a b g : fshape m c a b g -> exists a' b', a' <= b' <= m /\ fshape m c a' b' g.
Proof.
  intros H. exists (Nat.min a (Nat.min b m)), (Nat.min b m). split; [lia|].
  intros i Hi. rewrite (H i Hi). f_equal. bdestr; simpl; try reflexivity; lia.
Qed.
Lemma fconst_bitonic m c g : fconst m c g -> fbitonic m g.
Proof. intros H. exists c, 0, 0. intros i Hi. rewrite (H i Hi). destruct c; reflexivity. Qed.

(* the half-cleaner on a cyclically bitonic 0-1 sequence of length 2m *)
Section HalfCleaner.
  Variables (d c : bool) (a b m : nat) (g : nat -> bool).
  Hypothesis Hab : a <= b <= 2 * m.
  Hypothesis Hg : fshape (2 * m) c a b g.
  Let L := fun i => lowv d (g i) (g (i + m)).
  Let U := fun i => highv d (g i) (g (i + m)).

  Ltac fin := let i := fresh "i" in let Hi := fresh "Hi" in
    intros i Hi; unfold L, U, lowv, highv; rewrite (Hg i), (Hg (i + m)) by lia;
    bdestr; simpl; try reflexivity; lia.

  Lemma hc_main : (fconst m (negb d) L /\ fbitonic m U) \/ (fbitonic m L /\ fconst m d U).
  Proof.
    destruct (le_lt_dec (b - a) m) as [S|S].
    - (* at most m exceptional positions *)
      destruct (le_lt_dec b m) as [B|B]; [|destruct (le_lt_dec m a) as [A|A]].
      + destruct d, c; simpl.
        * right. split; [exists true, a, b; fin|fin].
        * left. split; [fin|exists false, a, b; fin].
        * left. split; [fin|exists true, a, b; fin].
        * right. split; [exists false, a, b; fin|fin].
      + destruct d, c; simpl.
        * right. split; [exists true, (a - m), (b - m); fin|fin].
        * left. split; [fin|exists false, (a - m), (b - m); fin].
        * left. split; [fin|exists true, (a - m), (b - m); fin].
        * right. split; [exists false, (a - m), (b - m); fin|fin].
      + destruct d, c; simpl.
        * right. split; [exists false, (b - m), a; fin|fin].
        * left. split; [fin|exists true, (b - m), a; fin].
        * left. split; [fin|exists false, (b - m), a; fin].
        * right. split; [exists true, (b - m), a; fin|fin].
    - (* more than m exceptional positions *)
      destruct d, c; simpl.
      + left. split; [fin|exists true, a, (b - m); fin].
      + right. split; [exists false, a, (b - m); fin|fin].
      + right. split; [exists true, a, (b - m); fin|fin].
      + left. split; [fin|exists false, a, (b - m); fin].
  Qed.

  (* if the sequence has the shape that belongs to the direction, the upper half has it again *)
  Lemma hc_upper : c = d -> fshape m d a (b - m) U.
  Proof. intros ->. destruct d; fin. Qed.
End HalfCleaner.

(* ---- 0-1 lists ---------------------------------------------------------------------------------------------------- *)
Definition nthb (l : list bool) : nat -> bool := fun i => nth i l false.
Definition shape (c : bool) (a b : nat) (l : list bool) : Prop := fshape (length l) c a b (nthb l).
Definition bitonic (l : list bool) : Prop := fbitonic (length l) (nthb l).
Definition allc (c : bool) (l : list bool) : Prop := fconst (length l) c (nthb l).
(* ascending (d = true): 0..0 1..1;  descending: 1..1 0..0 *)
Definition sortedb (d : bool) (l : list bool) : Prop :=
  exists z, forall i, i < length l -> nth i l false = if d then z <=? i else i <? z.

Lemma sortedb_short d l : length l <= 1 -> sortedb d l.
Proof.
  intros H. destruct l as [|x [|y t]]; [exists 0; simpl; intros; lia| |simpl in H; lia].
  exists (if Bool.eqb d x then 0 else 1). intros i Hi. simpl in Hi. assert (i = 0) by lia. subst.
  destruct d, x; reflexivity.
Qed.

Lemma allc_run c ops l : allc c l -> allc c (runb ops l).
Proof.
  intros H. assert (F : Forall (eq c) l).
  { apply Forall_forall. intros x Hx. destruct (In_nth l x false Hx) as [i [Hi <-]]. symmetry. apply H. exact Hi. }
  assert (F' : Forall (eq c) (runb ops l)).
  { eapply Permutation_Forall; [|exact F]. apply Permutation_sym. apply run_perm. exact sortb_perm. }
  intros i Hi. rewrite Forall_forall in F'. symmetry. apply F'. apply nth_In. exact Hi.
Qed.

(* sorted halves, one of them constant on the right side: the concatenation is sorted *)
Lemma sortedb_glue d L U : sortedb d L -> sortedb d U -> allc (negb d) L \/ allc d U -> sortedb d (L ++ U).
Proof.
  intros [z1 H1] [z2 H2] C.
  assert (N : forall i, i < length L + length U ->
              nth i (L ++ U) false = if i <? length L then nth i L false else nth (i - length L) U false).
  { intros i Hi. bdestr; [apply app_nth1|apply app_nth2]; lia. }
  unfold allc, fconst, nthb in C. destruct C as [C|C].
  - exists (length L + z2). intros i Hi. rewrite app_length in Hi. rewrite N by exact Hi.
    destruct (Nat.ltb_spec i (length L)) as [K|K].
    + rewrite (C i K). destruct d; simpl; bdestr; try reflexivity; lia.
    + rewrite H2 by lia. destruct d; bdestr; try reflexivity; lia.
  - exists (Nat.min z1 (length L)). intros i Hi. rewrite app_length in Hi. rewrite N by exact Hi.
    destruct (Nat.ltb_spec i (length L)) as [K|K].
    + rewrite H1 by exact K. destruct d; bdestr; try reflexivity; lia.
    + rewrite C by lia. destruct d; bdestr; try reflexivity; lia.
Qed.

(* descending-then-ascending (d = true) / ascending-then-descending halves give the shape of the direction *)
Lemma shape_of_sorted_halves d s1 s2 : sortedb (negb d) s1 -> sortedb d s2 -> exists a b, shape d a b (s1 ++ s2).
Proof.
  intros [z1 H1] [z2 H2]. exists (Nat.min z1 (length s1)), (length s1 + z2).
  intros i Hi. unfold nthb. rewrite app_length in Hi.
  destruct (Nat.lt_ge_cases i (length s1)) as [K|K].
  - rewrite app_nth1 by exact K. rewrite H1 by exact K. destruct d; simpl; bdestr; simpl; try reflexivity; lia.
  - rewrite app_nth2 by exact K. rewrite H2 by lia. destruct d; simpl; bdestr; simpl; try reflexivity; lia.
Qed.

(* ---- (3) the power-of-two bitonic merge sorts every cyclically bitonic 0-1 list --------------------------------- *)
Theorem merge_pow2 d : forall k f s, length s = 2 ^ k -> 2 ^ k <= f -> bitonic s ->
  sortedb d (runb (merge_ops f 0 (2 ^ k) d) s).
Proof.
  induction k as [|k IH]; intros f s Hl Hf Hb.
  - replace (merge_ops f 0 (2 ^ 0) d) with (@nil op) by (destruct f; reflexivity).
    apply sortedb_short. simpl in Hl. simpl. lia.
  - destruct f as [|f]; [pose proof (Nat.pow_nonzero 2 (S k)); lia|].
    assert (P : 0 < 2 ^ k) by (pose proof (Nat.pow_nonzero 2 k); lia).
    assert (E2 : 2 ^ S k = 2 * 2 ^ k) by apply Nat.pow_succ_r'.
    assert (N2 : n2_of (2 ^ S k) = 2 ^ k) by (apply n2_of_spec; lia).
    rewrite merge_step by lia. rewrite N2. replace (2 ^ S k - 2 ^ k) with (2 ^ k) by lia.
    set (m := 2 ^ k) in *. set (s' := runb (halfclean_ops 0 m m d) s).
    assert (L' : length s' = 2 * m) by (unfold s'; rewrite runb_length; lia).
    assert (N' : forall i, nth i s' false = hc_spec d m m s i) by (intros i; apply hc_nth; lia).
    destruct Hb as [c [a [b Hs]]]. unfold nthb in Hs. rewrite Hl, E2 in Hs.
    destruct (fshape_norm _ _ _ _ _ Hs) as [a' [b' [Hab Hs']]].
    assert (LL : length (firstn m s') = m) by (rewrite firstn_length; lia).
    assert (LU : length (skipn m s') = m) by (rewrite skipn_length; lia).
    assert (EL : forall i, i < m -> nthb (firstn m s') i = lowv d (nthb s i) (nthb s (i + m))).
    { intros i Hi. unfold nthb. rewrite nth_firstn_lt by exact Hi. rewrite N'. unfold hc_spec.
      replace (i <? m) with true by (symmetry; apply Nat.ltb_lt; exact Hi). reflexivity. }
    assert (EU : forall i, i < m -> nthb (skipn m s') i = highv d (nthb s i) (nthb s (i + m))).
    { intros i Hi. unfold nthb. rewrite nth_skipn_add, N'. unfold hc_spec.
      replace (m + i <? m) with false by (symmetry; apply Nat.ltb_ge; lia).
      replace ((m <=? m + i) && (m + i <? m + m)) with true
        by (symmetry; apply andb_true_iff; split; [apply Nat.leb_le|apply Nat.ltb_lt]; lia).
      replace (m + i - m) with i by lia. replace (m + i) with (i + m) by lia. reflexivity. }
    pose proof (hc_main d c a' b' m (nthb s) Hab Hs') as HC.
    apply sortedb_glue.
    + apply IH; [exact LL|lia|].
      destruct HC as [[C _]|[[c1 [a1 [b1 B]]] _]].
      * apply (fconst_bitonic _ (negb d)). intros i Hi. rewrite LL in Hi. rewrite EL by exact Hi. apply C. exact Hi.
      * exists c1, a1, b1. intros i Hi. rewrite LL in Hi. rewrite EL by exact Hi. apply B. exact Hi.
    + apply IH; [exact LU|lia|].
      destruct HC as [[_ [c1 [a1 [b1 B]]]]|[_ C]].
      * exists c1, a1, b1. intros i Hi. rewrite LU in Hi. rewrite EU by exact Hi. apply B. exact Hi.
      * apply (fconst_bitonic _ d). intros i Hi. rewrite LU in Hi. rewrite EU by exact Hi. apply C. exact Hi.
    + destruct HC as [[C _]|[_ C]]; [left|right]; apply allc_run; intros i Hi.
      * rewrite LL in Hi. rewrite EL by exact Hi. apply C. exact Hi.
      * rewrite LU in Hi. rewrite EU by exact Hi. apply C. exact Hi.
Qed.

(* ---- (2) the merge for ARBITRARY n sorts every 0-1 list of the shape of the direction ---------------------------- *)
Theorem merge_any d : forall f n s, n <= f -> length s = n -> (exists a b, shape d a b s) ->
  sortedb d (runb (merge_ops f 0 n d) s).
Proof.
  induction f as [|f IH]; intros n s Hf Hl Hs.
  - apply sortedb_short. simpl. lia.
  - destruct (le_lt_dec n 1) as [N1|N1].
    + cbn [merge_ops]. replace (1 <? n) with false by (symmetry; apply Nat.ltb_ge; lia).
      apply sortedb_short. simpl. lia.
    + destruct (pow2_bracket n ltac:(lia)) as [k Hk].
      assert (N2 : n2_of n = 2 ^ k) by (apply n2_of_spec; exact Hk).
      rewrite Nat.pow_succ_r' in Hk.
      rewrite merge_step by lia. rewrite N2.
      set (m := 2 ^ k) in *. set (r := n - m).
      set (s' := runb (halfclean_ops 0 m r d) s).
      assert (L' : length s' = n) by (unfold s'; rewrite runb_length; lia).
      assert (N' : forall i, nth i s' false = hc_spec d m r s i) by (intros i; apply hc_nth; unfold r; lia).
      destruct Hs as [a [b Hs]]. unfold shape in Hs. rewrite Hl in Hs.
      destruct (fshape_norm _ _ _ _ _ Hs) as [a' [b' [Hab Hs']]].
      (* the list padded with d up to length 2m *)
      set (g := fun i => if i <? n then nthb s i else d).
      assert (Hg : fshape (2 * m) d a' b' g).
      { intros i Hi. unfold g. destruct (Nat.ltb_spec i n) as [K|K]; [apply Hs'; exact K|].
        replace ((a' <=? i) && (i <? b')) with false; [destruct d; reflexivity|].
        symmetry. apply andb_false_iff. right. apply Nat.ltb_ge. lia. }
      assert (LL : length (firstn m s') = m) by (rewrite firstn_length; lia).
      assert (LU : length (skipn m s') = r) by (rewrite skipn_length; unfold r; lia).
      assert (EL : forall i, i < m -> nthb (firstn m s') i = lowv d (g i) (g (i + m))).
      { intros i Hi. unfold nthb at 1. rewrite nth_firstn_lt by exact Hi. rewrite N'. unfold hc_spec, g, nthb, r.
        replace (i <? n) with true by (symmetry; apply Nat.ltb_lt; lia).
        replace ((m <=? i) && (i <? m + (n - m))) with false
          by (symmetry; apply andb_false_iff; left; apply Nat.leb_gt; exact Hi).
        destruct (Nat.ltb_spec i (n - m)) as [K|K].
        - replace (i + m <? n) with true by (symmetry; apply Nat.ltb_lt; lia). reflexivity.
        - replace (i + m <? n) with false by (symmetry; apply Nat.ltb_ge; lia).
          destruct d, (nth i s false); reflexivity. }
      assert (EU : forall i, i < r -> nthb (skipn m s') i = highv d (g i) (g (i + m))).
      { intros i Hi. unfold nthb at 1. rewrite nth_skipn_add, N'. unfold hc_spec, g, nthb. unfold r in *.
        replace (m + i <? n - m) with false by (symmetry; apply Nat.ltb_ge; lia).
        replace ((m <=? m + i) && (m + i <? m + (n - m))) with true
          by (symmetry; apply andb_true_iff; split; [apply Nat.leb_le|apply Nat.ltb_lt]; lia).
        replace (i <? n) with true by (symmetry; apply Nat.ltb_lt; lia).
        replace (i + m <? n) with true by (symmetry; apply Nat.ltb_lt; lia).
        replace (m + i - m) with i by lia. replace (m + i) with (i + m) by lia. reflexivity. }
      pose proof (hc_main d d a' b' m g ltac:(lia) Hg) as HC.
      pose proof (hc_upper d d a' b' m g ltac:(lia) Hg eq_refl) as HU.
      assert (Rm : r <= m) by (unfold r; lia).
      apply sortedb_glue.
      * apply (merge_pow2 d k f); [exact LL|lia|].
        destruct HC as [[C _]|[[c1 [a1 [b1 B]]] _]].
        -- apply (fconst_bitonic _ (negb d)). intros i Hi. rewrite LL in Hi. rewrite EL by exact Hi. apply C. exact Hi.
        -- exists c1, a1, b1. intros i Hi. rewrite LL in Hi. rewrite EL by exact Hi. apply B. exact Hi.
      * apply IH; [unfold r; lia|exact LU|].
        exists a', (b' - m). intros i Hi. rewrite LU in Hi. rewrite EU by exact Hi. apply HU. lia.
      * destruct HC as [[C _]|[_ C]]; [left|right]; apply allc_run; intros i Hi.
        -- rewrite LL in Hi. rewrite EL by exact Hi. apply C. exact Hi.
        -- rewrite LU in Hi. rewrite EU by exact Hi. apply C. lia.
Qed.
