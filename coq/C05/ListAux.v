(* small list facts missing from the Coq 8.16 standard library *)
From Coq Require Import Arith List PeanoNat Lia.
Import ListNotations.

Lemma nth_error_firstn_lt {B} (l : list B) n i : i < n -> nth_error (firstn n l) i = nth_error l i.
Proof.
  revert l i; induction n; intros l i H; [lia|]. destruct l; [destruct i; reflexivity|].
  destruct i; [reflexivity|]. simpl. apply IHn. lia.
Qed.
Lemma nth_error_firstn_ge {B} (l : list B) n i : n <= i -> nth_error (firstn n l) i = None.
Proof. intros H. apply nth_error_None. rewrite firstn_length. lia. Qed.
Lemma nth_error_skipn_add {B} (l : list B) n i : nth_error (skipn n l) i = nth_error l (n + i).
Proof. revert l; induction n; intros l; [reflexivity|]. destruct l; [destruct i; reflexivity|]. simpl. apply IHn. Qed.
Lemma skipn_add {B} (l : list B) a b : skipn (a + b) l = skipn b (skipn a l).
Proof. revert l; induction a; intros l; simpl; [reflexivity|]. destruct l; [destruct b; reflexivity|apply IHa]. Qed.

(* two lists with the same entries everywhere are equal *)
Lemma nth_error_ext {B} (l1 l2 : list B) : (forall i, nth_error l1 i = nth_error l2 i) -> l1 = l2.
Proof.
  revert l2; induction l1 as [|a t IH]; intros l2 H.
  - destruct l2; [reflexivity|]. specialize (H 0). discriminate.
  - destruct l2 as [|b t2]; [specialize (H 0); discriminate|].
    pose proof (H 0) as H0. simpl in H0. injection H0 as ->. f_equal. apply IH. intros i. apply (H (S i)).
Qed.

Lemma NoDup_snoc {B} (l : list B) x : NoDup l -> ~ In x l -> NoDup (l ++ [x]).
Proof.
  intros H Hn. induction H; simpl; [constructor; [tauto|constructor]|].
  constructor; [|apply IHNoDup; simpl in Hn; tauto].
  rewrite in_app_iff. simpl in *. intros [H1|[H1|[]]]; [tauto|]. subst. tauto.
Qed.

Lemma NoDup_app_intro {B} (l1 l2 : list B) :
  NoDup l1 -> NoDup l2 -> (forall x, In x l1 -> ~ In x l2) -> NoDup (l1 ++ l2).
Proof.
  intros H1 H2 H. induction H1; simpl; [exact H2|].
  constructor.
  - rewrite in_app_iff. intros [K|K]; [tauto|]. apply (H x); [left; reflexivity|exact K].
  - apply IHNoDup. intros y Hy. apply H. right. exact Hy.
Qed.

Lemma NoDup_map_pair {B} (b : B) (l : list nat) : NoDup l -> NoDup (map (pair b) l).
Proof.
  intros H. induction H; simpl; constructor; [|exact IHNoDup].
  intros K. apply in_map_iff in K. destruct K as [y [E Hy]]. injection E as ->. tauto.
Qed.

Lemma NoDup_tagged m : NoDup (map (pair true) (seq 0 m) ++ map (pair false) (seq 0 m)).
Proof.
  apply NoDup_app_intro; try (apply NoDup_map_pair, seq_NoDup).
  intros x H1 H2. apply in_map_iff in H1. apply in_map_iff in H2.
  destruct H1 as [a [<- _]]. destruct H2 as [b [E _]]. discriminate.
Qed.
