(* C05, sortedness, part 1: the 0-1 PRINCIPLE for the operation language of the comparator network of sc_psort
   (compare-exchange `CE i j dir` + local sort `LSort lo n dir`).

   Setting: an arbitrary element type with a comparison `le` that is total and transitive (a total preorder: duplicate
   keys and distinct elements that compare equal are allowed), `gt a b = negb (le a b)` (what `compar (a, b) > 0`
   means), and a local sort with the contract of qsort (permutation; ascending for dir = true, descending for
   dir = false).  For every monotone f : A -> bool the map `map f` commutes with EVERY list of operations, where
   the network on the Boolean side uses `gtb` and the counting sort `sortb`.  Hence a network that sorts every
   0-1 list sorts every list. *)
From Coq Require Import Arith List Bool PeanoNat Lia Permutation Sorted.
From ScV Require Import C05.PsortModel C05.ListAux C05.PsortPerm.
Import ListNotations.

(* ---- generic: StronglySorted <-> all pairs of positions i < j are related ------------------------------- *)
Lemma StronglySorted_nth_error {B} (R : B -> B -> Prop) (l : list B) :
  StronglySorted R l -> forall i j a b, i < j -> nth_error l i = Some a -> nth_error l j = Some b -> R a b.
Proof.
  induction 1 as [|x t S IH F]; intros i j a b Hij Hi Hj; [destruct i; discriminate|].
  destruct j as [|j]; [lia|]. simpl in Hj. destruct i as [|i]; simpl in Hi.
  - injection Hi as <-. rewrite Forall_forall in F. apply F. eapply nth_error_In; eassumption.
  - apply (IH i j); auto; lia.
Qed.

Lemma nth_error_StronglySorted {B} (R : B -> B -> Prop) (l : list B) :
  (forall i j a b, i < j -> nth_error l i = Some a -> nth_error l j = Some b -> R a b) -> StronglySorted R l.
Proof.
  induction l as [|x t IH]; intros H; constructor.
  - apply IH. intros i j a b Hij Hi Hj. apply (H (S i) (S j)); auto; lia.
  - apply Forall_forall. intros y Hy. apply In_nth_error in Hy. destruct Hy as [k Hk].
    apply (H 0 (S k)); auto; lia.
Qed.

(* the order read in direction d: d = true ascending, d = false descending *)
Definition dirle {B} (le : B -> B -> bool) (d : bool) (a b : B) : bool := if d then le a b else le b a.

(* ---- the Boolean side: false < true ------------------------------------------------------------------- *)
Definition leb01 (a b : bool) : bool := implb a b.
Definition gtb (a b : bool) : bool := negb (leb01 a b).
Definition ones (l : list bool) : nat := length (filter (fun x => x) l).
(* counting sort of a 0-1 list *)
Definition sortb (d : bool) (l : list bool) : list bool :=
  if d then repeat false (length l - ones l) ++ repeat true (ones l)
  else repeat true (ones l) ++ repeat false (length l - ones l).

Lemma ones_app l1 l2 : ones (l1 ++ l2) = ones l1 + ones l2.
Proof. unfold ones. rewrite filter_app, app_length. reflexivity. Qed.
Lemma ones_repeat_true n : ones (repeat true n) = n.
Proof. induction n; simpl; [reflexivity|]. unfold ones in *. simpl. rewrite IHn. reflexivity. Qed.
Lemma ones_repeat_false n : ones (repeat false n) = 0.
Proof. induction n; simpl; [reflexivity|]. exact IHn. Qed.
Lemma ones_le_length l : ones l <= length l.
Proof. unfold ones. induction l as [|[|] t IH]; simpl; lia. Qed.
Lemma ones_perm l1 l2 : Permutation l1 l2 -> ones l1 = ones l2.
Proof.
  unfold ones. induction 1 as [|x l l' P IH|x y l|l l' l'' P1 IH1 P2 IH2]; simpl; try congruence.
  - destruct x; simpl; congruence.
  - destruct x, y; reflexivity.
Qed.

Lemma sortb_asc_fix z o : sortb true (repeat false z ++ repeat true o) = repeat false z ++ repeat true o.
Proof.
  unfold sortb. rewrite ones_app, ones_repeat_true, ones_repeat_false, app_length, !repeat_length. simpl.
  replace (z + o - o) with z by lia. reflexivity.
Qed.
Lemma sortb_desc_fix o z : sortb false (repeat true o ++ repeat false z) = repeat true o ++ repeat false z.
Proof.
  unfold sortb. rewrite ones_app, ones_repeat_true, ones_repeat_false, app_length, !repeat_length.
  replace (o + z - (o + 0)) with z by lia. rewrite Nat.add_0_r. reflexivity.
Qed.
(* `sortb` depends on the multiset and the length only *)
Lemma sortb_perm_eq d l1 l2 : Permutation l1 l2 -> sortb d l1 = sortb d l2.
Proof. intros P. unfold sortb. rewrite (ones_perm _ _ P), (Permutation_length P). reflexivity. Qed.

(* `sortb` fulfils the contract of the local sort (the hypotheses of the section below are satisfiable) *)
Lemma sortb_perm d l : Permutation (sortb d l) l.
Proof.
  assert (K : Permutation (repeat false (length l - ones l) ++ repeat true (ones l)) l).
  { induction l as [|[|] t IH].
    - reflexivity.
    - change (ones (true :: t)) with (S (ones t)). change (length (true :: t)) with (S (length t)).
      replace (S (length t) - S (ones t)) with (length t - ones t) by lia.
      simpl. apply Permutation_sym. apply Permutation_cons_app. apply Permutation_sym. exact IH.
    - change (ones (false :: t)) with (ones t). change (length (false :: t)) with (S (length t)).
      pose proof (ones_le_length t).
      replace (S (length t) - ones t) with (S (length t - ones t)) by lia. simpl. apply perm_skip. exact IH. }
  destruct d; unfold sortb; [exact K|].
  eapply perm_trans; [apply Permutation_app_comm|exact K].
Qed.
Lemma sortb_length d l : length (sortb d l) = length l.
Proof. apply Permutation_length, sortb_perm. Qed.

Lemma sorted_app_repeat {B} (R : B -> B -> Prop) x y n m :
  R x x -> R x y -> R y y -> StronglySorted R (repeat x n ++ repeat y m).
Proof.
  intros Rxx Rxy Ryy. induction n; simpl.
  - induction m; simpl; constructor; [assumption|]. apply Forall_forall. intros z Hz.
    apply repeat_spec in Hz. subst. exact Ryy.
  - constructor; [exact IHn|]. apply Forall_forall. intros z Hz. apply in_app_iff in Hz.
    destruct Hz as [Hz|Hz]; apply repeat_spec in Hz; subst; assumption.
Qed.
Lemma sortb_sorted_asc l : StronglySorted (fun a b => leb01 a b = true) (sortb true l).
Proof. apply sorted_app_repeat; reflexivity. Qed.
Lemma sortb_sorted_desc l : StronglySorted (fun a b => leb01 b a = true) (sortb false l).
Proof. apply sorted_app_repeat; reflexivity. Qed.

Section ZeroOne.
  Variable A : Type.
  Variable le : A -> A -> bool.                        (* compar (a, b) <= 0 *)
  Hypothesis le_total : forall a b, le a b = true \/ le b a = true.
  Hypothesis le_trans : forall a b c, le a b = true -> le b c = true -> le a c = true.
  Definition gt_of (a b : A) : bool := negb (le a b).  (* compar (a, b) > 0 *)
  Notation gt := gt_of.
  Variable sort : bool -> list A -> list A.
  Hypothesis sort_perm : forall d l, Permutation (sort d l) l.
  Hypothesis sort_asc : forall l, Sorted (fun a b => le a b = true) (sort true l).
  Hypothesis sort_desc : forall l, Sorted (fun a b => le b a = true) (sort false l).

  Lemma le_refl a : le a a = true.
  Proof. destruct (le_total a a); assumption. Qed.

  Definition monotone (f : A -> bool) : Prop := forall a b, le a b = true -> f a = true -> f b = true.

  Lemma sort_asc_strong l : StronglySorted (fun a b => le a b = true) (sort true l).
  Proof. apply Sorted_StronglySorted; [|apply sort_asc]. intros a b c. apply le_trans. Qed.
  Lemma sort_desc_strong l : StronglySorted (fun a b => le b a = true) (sort false l).
  Proof. apply Sorted_StronglySorted; [|apply sort_desc]. intros a b c H1 H2. eapply le_trans; eassumption. Qed.

  Section Mono.
    Variable f : A -> bool.
    Hypothesis f_mono : monotone f.

    Lemma map_set_nth l i x : map f (set_nth A l i x) = set_nth bool (map f l) i (f x).
    Proof. revert i; induction l as [|h t IH]; intros [|i]; simpl; try reflexivity. rewrite IH. reflexivity. Qed.

    (* compare-exchange commutes with a monotone map: if the two tests differ, the images are equal and the Boolean
       exchange changes nothing *)
    Lemma ce_map d i j l : map f (ce A gt d i j l) = ce bool gtb d i j (map f l).
    Proof.
      unfold ce. rewrite !nth_error_map.
      destruct (nth_error l i) as [a|] eqn:Hi; simpl; [|reflexivity].
      destruct (nth_error l j) as [b|] eqn:Hj; simpl; [|reflexivity].
      unfold swap_needed.
      assert (K : gt a b = gtb (f a) (f b) \/ f a = f b).
      { unfold gt, gtb, leb01. destruct (le a b) eqn:E.
        - left. destruct (f a) eqn:Fa; simpl; [|reflexivity]. rewrite (f_mono _ _ E Fa). reflexivity.
        - destruct (le_total a b) as [T|T]; [congruence|].
          destruct (f b) eqn:Fb; [rewrite (f_mono _ _ T Fb); right; reflexivity|].
          destruct (f a); [left|right]; reflexivity. }
      destruct K as [K|K].
      - rewrite <- K. destruct (eqb d (gt a b)); [rewrite !map_set_nth; reflexivity|reflexivity].
      - assert (Ei : nth_error (map f l) i = Some (f b)) by (rewrite nth_error_map, Hi; simpl; rewrite K; reflexivity).
        assert (Ej : nth_error (map f l) j = Some (f a)) by (rewrite nth_error_map, Hj; simpl; rewrite K; reflexivity).
        assert (S : set_nth bool (set_nth bool (map f l) i (f b)) j (f a) = map f l).
        { rewrite (set_nth_same bool _ i (f b) Ei). apply set_nth_same. exact Ej. }
        destruct (eqb d (gt a b)); destruct (eqb d (gtb (f a) (f b))); rewrite ?map_set_nth, ?S; reflexivity.
    Qed.

    Lemma map_all_true l : Forall (fun b => f b = true) l -> map f l = repeat true (length l).
    Proof. induction 1; simpl; [reflexivity|]. congruence. Qed.
    Lemma map_all_false l : Forall (fun b => f b = false) l -> map f l = repeat false (length l).
    Proof. induction 1; simpl; [reflexivity|]. congruence. Qed.

    Lemma map_asc_form l : StronglySorted (fun a b => le a b = true) l ->
      exists z o, map f l = repeat false z ++ repeat true o.
    Proof.
      induction 1 as [|a t S IH F]; [exists 0, 0; reflexivity|].
      destruct (f a) eqn:Fa.
      - exists 0, (Datatypes.S (length t)). simpl. rewrite Fa. f_equal. apply map_all_true.
        eapply Forall_impl; [|exact F]. intros b Hb. simpl in Hb. apply (f_mono a b Hb Fa).
      - destruct IH as [z [o E]]. exists (Datatypes.S z), o. simpl. rewrite Fa, E. reflexivity.
    Qed.
    Lemma map_desc_form l : StronglySorted (fun a b => le b a = true) l ->
      exists o z, map f l = repeat true o ++ repeat false z.
    Proof.
      induction 1 as [|a t S IH F]; [exists 0, 0; reflexivity|].
      destruct (f a) eqn:Fa.
      - destruct IH as [o [z E]]. exists (Datatypes.S o), z. simpl. rewrite Fa, E. reflexivity.
      - exists 0, (Datatypes.S (length t)). simpl. rewrite Fa. f_equal. apply map_all_false.
        eapply Forall_impl; [|exact F]. intros b Hb. simpl in Hb.
        destruct (f b) eqn:Fb; [|reflexivity]. rewrite (f_mono b a Hb Fb) in Fa. discriminate.
    Qed.

    (* the image of the sorted list is THE sorted arrangement of the image *)
    Lemma sort_map d s : map f (sort d s) = sortb d (map f s).
    Proof.
      rewrite <- (sortb_perm_eq d (map f (sort d s)) (map f s)) by (apply Permutation_map, sort_perm).
      destruct d.
      - destruct (map_asc_form _ (sort_asc_strong s)) as [z [o E]]. rewrite E. symmetry. apply sortb_asc_fix.
      - destruct (map_desc_form _ (sort_desc_strong s)) as [o [z E]]. rewrite E. symmetry. apply sortb_desc_fix.
    Qed.

    Lemma lsort_map d lo n l : map f (lsort A sort d lo n l) = lsort bool sortb d lo n (map f l).
    Proof.
      unfold lsort, put_slice, slice. rewrite !map_app, !firstn_map, !skipn_map, !firstn_map.
      rewrite <- sort_map, map_length. reflexivity.
    Qed.

    Lemma apply_op_map l o : map f (apply_op A gt sort l o) = apply_op bool gtb sortb (map f l) o.
    Proof. destruct o; simpl; [apply ce_map|apply lsort_map]. Qed.

    (* a monotone map commutes with EVERY list of operations *)
    Theorem run_map ops l : map f (run A gt sort ops l) = run bool gtb sortb ops (map f l).
    Proof.
      revert l; induction ops as [|o ops IH]; intros l; [reflexivity|].
      change (run A gt sort (o :: ops) l) with (run A gt sort ops (apply_op A gt sort l o)).
      rewrite IH, apply_op_map. reflexivity.
    Qed.
  End Mono.

  (* THE 0-1 PRINCIPLE, with the direction as a parameter and restricted to the monotone images of the given list:
     if the Boolean network sorts `map f l` for every monotone f, the network sorts l *)
  Theorem zero_one_principle_dir d ops l :
    (forall f, monotone f -> StronglySorted (fun a b => dirle leb01 d a b = true) (run bool gtb sortb ops (map f l))) ->
    StronglySorted (fun a b => dirle le d a b = true) (run A gt sort ops l).
  Proof.
    intros H. apply nth_error_StronglySorted. intros i j a b Hij Hi Hj.
    destruct (dirle le d a b) eqn:E; [reflexivity|exfalso].
    set (f := fun x => negb (le x (if d then b else a))).
    assert (M : monotone f).
    { intros x y Hxy. unfold f. destruct (le y (if d then b else a)) eqn:Ey; [|reflexivity].
      rewrite (le_trans _ _ _ Hxy Ey). discriminate. }
    pose proof (H f M) as S. rewrite <- (run_map f M) in S.
    pose proof (StronglySorted_nth_error _ _ S i j (f a) (f b) Hij) as K.
    rewrite !nth_error_map, Hi, Hj in K. specialize (K eq_refl eq_refl).
    unfold f, dirle in *. destruct d; rewrite E, le_refl in K; discriminate.
  Qed.

  (* the classical form: if the network sorts every 0-1 list of the length of l, it sorts l *)
  Theorem zero_one_principle ops l :
    (forall bl : list bool, length bl = length l ->
       StronglySorted (fun a b => leb01 a b = true) (run bool gtb sortb ops bl)) ->
    StronglySorted (fun a b => le a b = true) (run A gt sort ops l).
  Proof. intros H. apply (zero_one_principle_dir true). intros f _. apply H. apply map_length. Qed.
End ZeroOne.
