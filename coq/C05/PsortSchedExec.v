(* C05 - an EXECUTABLE scheduler for the posted-receive semantics (MPI/SemPosted.v), used to TEST the every-schedule
   statement of C05/PsortSched.v on small instances before it was proved, and kept as a set of Examples.
   This file contains no proof about the semantics: `exec` is a test harness.  A state is a finite list of programs and
   a finite map of channels.  The moves offered in a state are those of SemPosted.step_p:
   (S) issue the next send of a rank (found behind pending receives; `strip_send` of SemPosted.v removes it).  The side
       condition canS - destination, tag and payload do not depend on the replies of the pending receives - quantifies
       over all replies and is not decidable; the harness TESTS it with three different replies (the empty payload, nine
       times 1000, nine times -1000) and offers the send only if all three give the same message;
   (R) complete a posted receive (first receive per (source, tag) in the chain of receives at the head of the program;
       `strip_recv` of SemPosted.v substitutes the reply) whose channel is not empty.
   The scheduler picks among ALL offered moves of ALL ranks with a linear congruential generator.
   What was run with it before the proof: all 365 count vectors with P <= 4 ranks (every count <= 3, total <= 8),
   P = 3 (counts <= 4), P = 2 (counts <= 5), P = 1, five seeds each: every run ended with no move left, all programs
   returned, all channels empty, and the arrays of `psort` (the sequential network). *)
From Coq Require Import ZArith List Bool Arith Lia.
From ScV Require Import MPI.Prog MPI.Sem MPI.SemPosted C05.PsortModel.
Import ListNotations.
Local Open Scope Z_scope.

Definition echans := list ((Z * Z * Z) * list payload).
Definition keyeq (a b : Z * Z * Z) : bool :=
  let '(a1, a2, a3) := a in let '(b1, b2, b3) := b in (a1 =? b1) && (a2 =? b2) && (a3 =? b3).
Fixpoint cget (c : echans) (k : Z * Z * Z) : list payload :=
  match c with [] => [] | (k', q) :: t => if keyeq k k' then q else cget t k end.
Fixpoint cset (c : echans) (k : Z * Z * Z) (q : list payload) : echans :=
  match c with [] => [(k, q)] | (k', q') :: t => if keyeq k k' then (k, q) :: t else (k', q') :: cset t k q end.

Fixpoint find_send0 (dummy : payload) (fuel : nat) (p : prog) : option (Z * Z * payload) :=
  match fuel with
  | O => None
  | S f => match p with
           | Do (Send d t m) _ => Some (d, t, m)
           | Do (Recv s t) k => find_send0 dummy f (k dummy)
           | _ => None
           end
  end.
Definition pl_eqb (a b : list Z) : bool := (length a =? length b)%nat && forallb (fun p => fst p =? snd p) (combine a b).
Definition same3 (a b : option (Z * Z * payload)) : bool :=
  match a, b with Some (d, t, m), Some (d', t', m') => (d =? d') && (t =? t') && pl_eqb m m' | _, _ => false end.
Definition find_send (fuel : nat) (p : prog) : option (Z * Z * payload) :=
  let a := find_send0 [] fuel p in
  if same3 a (find_send0 (repeat 1000 9) fuel p) && same3 a (find_send0 (repeat (-1000) 9) fuel p) then a else None.
Fixpoint posted (fuel : nat) (p : prog) (seen : list (Z * Z)) : list (Z * Z) :=
  match fuel with
  | O => []
  | S f => match p with
           | Do (Recv s t) k => if existsb (fun x => (fst x =? s) && (snd x =? t)) seen then posted f (k []) seen
                                else (s, t) :: posted f (k []) ((s, t) :: seen)
           | _ => []
           end
  end.

Record est := mkest { eprogs : list prog; ech : echans }.
Inductive move := MSend (r : nat) | MRecv (r : nat) (src t : Z).
Definition set_nthp (l : list prog) (i : nat) (x : prog) : list prog := firstn i l ++ x :: skipn (S i) l.
Definition moves (s : est) : list move :=
  flat_map (fun r => let p := nth r (eprogs s) (Ret []) in
     (match find_send 100 p with Some _ => [MSend r] | None => [] end) ++
     flat_map (fun k => match cget (ech s) (fst k, Z.of_nat r, snd k) with [] => [] | _ => [MRecv r (fst k) (snd k)] end)
              (posted 100 p []))
    (seq 0 (length (eprogs s))).
Definition do_move (s : est) (m : move) : est :=
  match m with
  | MSend r =>
    let p := nth r (eprogs s) (Ret []) in
    match find_send 100 p with
    | Some (d, t, msg) => mkest (set_nthp (eprogs s) r (strip_send p))
                                (cset (ech s) (Z.of_nat r, d, t) (cget (ech s) (Z.of_nat r, d, t) ++ [msg]))
    | None => s
    end
  | MRecv r src t =>
    let p := nth r (eprogs s) (Ret []) in
    match cget (ech s) (src, Z.of_nat r, t) with
    | msg :: q => mkest (set_nthp (eprogs s) r (strip_recv src t (src :: msg) p)) (cset (ech s) (src, Z.of_nat r, t) q)
    | [] => s
    end
  end.
(* run until no move is offered; result: the last state and the number of steps *)
Fixpoint exec (fuel : nat) (seed : Z) (s : est) : est * nat :=
  match fuel with
  | O => (s, 0%nat)
  | S f => match moves s with
           | [] => (s, 0%nat)
           | ms => let i := Z.to_nat (seed mod (Z.of_nat (length ms))) in
                   let '(s', n) := exec f ((seed * 75 + 74) mod 65537) (do_move s (nth i ms (MSend 0))) in (s', S n)
           end
  end.
Definition outs (s : est) : list (option payload) := map (fun p => match p with Ret o => Some o | _ => None end) (eprogs s).
Definition all_empty (s : est) : bool := forallb (fun kq => match snd kq with [] => true | _ => false end) (ech s).

Definition estart (tag_lo tag_hi : Z) (counts : list nat) (xs : list (list Z)) : est :=
  mkest (map (fun r => psort_prog tag_lo tag_hi counts r (nth r xs [])) (seq 0 (length counts))) [].
(* the run with this seed ends with no move left, every program returned, channels empty, the arrays of `psort` *)
Definition test (seed : Z) (counts : list nat) (xs : list (list Z)) : bool :=
  let '(s, n) := exec 2000 seed (estart 293 294 counts xs) in
  let exp := psort Z Z.gtb zsort counts xs in
  all_empty s && (length (outs s) =? length exp)%nat &&
  forallb (fun p => match fst p with Some o => pl_eqb o (snd p) | None => false end) (combine (outs s) exp).

Fixpoint all_counts (P tot : nat) : list (list nat) :=
  match P with O => [[]] | S p => flat_map (fun c => map (cons c) (all_counts p tot)) (seq 0 (S tot)) end.
Definition data : list Z := [5; 3; 9; 1; 7; 2; 8; 4; 6; 0; 3; 5].

(* five ranks, one of them empty: three pseudo-random schedules end in the sorted arrays, in the same number of steps *)
Example exec_five_ranks :
  map (fun seed => let '(s, n) := exec 2000 seed (estart 293 294 [3; 0; 2; 4; 1]%nat [[5; 3; 9]; []; [1; 7]; [2; 8; 4; 6]; [0]]) in
                   (outs s, all_empty s, moves s, n)) [1; 2; 12345]
  = repeat ([Some [0; 1; 2]; Some []; Some [3; 4]; Some [5; 6; 7; 8]; Some [9]], true, [], 72%nat) 3.
Proof. vm_compute. reflexivity. Qed.

(* all count vectors with three ranks and counts <= 2, and with two ranks and counts <= 4, two seeds each *)
Example exec_small_instances :
  forallb (fun cv => forallb (fun seed => test seed cv (split_counts Z cv data)) [3; 777])
          (all_counts 3 2 ++ all_counts 2 4) = true.
Proof. vm_compute. reflexivity. Qed.
