(* C05 (b): the owner search sc_bsearch_cumulative returns, for every initial guess, the unique rank r with
   off[r] <= pos < off[r+1] (ranks without elements are never returned); and the segment loop of
   sc_merge_bitonic cuts the compared range into consecutive non-empty segments each of which lies inside one rank on
   its lower and inside one rank on its upper side - independently of the rank that computes it. *)
From Coq Require Import Arith List Bool PeanoNat Lia.
From ScV Require Import C05.PsortModel.
Import ListNotations.

Definition mono (c : nat -> nat) (P : nat) : Prop := forall a b, a <= b -> b <= P -> c a <= c b.
Definition owns (c : nat -> nat) (r pos : nat) : Prop := c r <= pos < c (S r).

Lemma owner_unique c P r1 r2 pos :
  mono c P -> r1 < P -> r2 < P -> owns c r1 pos -> owns c r2 pos -> r1 = r2.
Proof.
  intros M H1 H2 [A1 B1] [A2 B2].
  destruct (Nat.lt_trichotomy r1 r2) as [H|[H|H]]; [|exact H|].
  - pose proof (M (S r1) r2 ltac:(lia) ltac:(lia)). lia.
  - pose proof (M (S r2) r1 ltac:(lia) ltac:(lia)). lia.
Qed.

Lemma owner_exists c P pos : c 0 = 0 -> pos < c P -> exists r, r < P /\ owns c r pos.
Proof.
  intros H0. induction P as [|P IH]; intros H; [lia|].
  destruct (Nat.lt_ge_cases pos (c P)) as [L|L].
  - destruct (IH L) as [r [Hr Ho]]. exists r. split; [lia|exact Ho].
  - exists P. split; [lia|split; lia].
Qed.

(* the loop: invariant low <= owner <= high, low <= guess <= high; the interval shrinks in every round *)
Lemma owner_search_correct c P r pos : mono c P -> r < P -> owns c r pos ->
  forall fuel low high guess, low <= r <= high -> high < P -> low <= guess <= high -> high - low < fuel ->
  owner_search fuel c low high guess pos = r.
Proof.
  intros M Hr [Ho1 Ho2]. induction fuel as [|f IH]; intros low high guess Hlh HP Hg Hf; [lia|].
  cbn [owner_search].
  destruct (pos <? c guess) eqn:E1.
  - apply Nat.ltb_lt in E1.
    assert (r < guess).
    { destruct (Nat.lt_ge_cases r guess) as [L|L]; [exact L|]. pose proof (M guess r L ltac:(lia)). lia. }
    apply IH; try lia.
    assert (low + (guess - 1) + 1 = low + guess) by lia.
    split; [apply Nat.div_le_lower_bound; lia|].
    apply Nat.lt_succ_r. apply Nat.div_lt_upper_bound; lia.
  - apply Nat.ltb_ge in E1.
    destruct (c (S guess) <=? pos) eqn:E2.
    + apply Nat.leb_le in E2.
      assert (guess < r).
      { destruct (Nat.lt_ge_cases guess r) as [L|L]; [exact L|]. pose proof (M (S r) (S guess) ltac:(lia) ltac:(lia)). lia. }
      apply IH; try lia.
      split; [apply Nat.div_le_lower_bound; lia|].
      apply Nat.lt_succ_r. apply Nat.div_lt_upper_bound; lia.
    + apply Nat.leb_gt in E2.
      apply (owner_unique c P guess r pos M); [lia|exact Hr|split; assumption|split; assumption].
Qed.

(* in the first branch `guess - 1` of the C code (size_t) never wraps: guess > 0 there *)
Lemma owner_search_no_wrap c guess pos : c 0 = 0 -> pos < c guess -> 0 < guess.
Proof. intros H0 H. destruct guess; [lia|lia]. Qed.

Theorem bsearch_cumulative_correct c P pos guess :
  mono c P -> c 0 = 0 -> pos < c P -> guess < P ->
  exists r, bsearch_cumulative c P pos guess = r /\ r < P /\ owns c r pos /\
            (forall r', r' < P -> owns c r' pos -> r' = r).
Proof.
  intros M H0 Hp Hg. destruct (owner_exists c P pos H0 Hp) as [r [Hr Ho]].
  exists r. split; [|split; [exact Hr|split; [exact Ho|]]].
  - unfold bsearch_cumulative. apply (owner_search_correct c P r pos M Hr Ho); lia.
  - intros r' Hr' Ho'. apply (owner_unique c P r' r pos M Hr' Hr Ho' Ho).
Qed.

Lemma bsearch_eq c P pos guess r :
  mono c P -> r < P -> owns c r pos -> guess < P -> bsearch_cumulative c P pos guess = r.
Proof.
  intros M Hr Ho Hg. unfold bsearch_cumulative. apply (owner_search_correct c P r pos M Hr Ho); lia.
Qed.

(* ---- the cumulative offsets built by sc_psort ---- *)
Lemma cumul_length acc counts : length (cumul acc counts) = S (length counts).
Proof. revert acc; induction counts; intros acc; simpl; [reflexivity|]. rewrite IHcounts. reflexivity. Qed.

Lemma cumul_nth acc counts r : r <= length counts ->
  nth r (cumul acc counts) 0 = acc + fold_right Nat.add 0 (firstn r counts).
Proof.
  revert acc r; induction counts as [|c t IH]; intros acc r H.
  - simpl in H. assert (r = 0) by lia. subst. simpl. lia.
  - destruct r; [simpl; lia|]. simpl in H. cbn [cumul nth firstn fold_right]. rewrite IH by lia. lia.
Qed.

Lemma cum_0 counts : cum (cumul 0 counts) 0 = 0.
Proof. unfold cum. destruct counts; reflexivity. Qed.

Lemma cum_step counts r : r < length counts ->
  cum (cumul 0 counts) (S r) = cum (cumul 0 counts) r + nth r counts 0.
Proof.
  intros H. unfold cum. rewrite !cumul_nth by lia. simpl.
  revert r H; induction counts as [|c t IH]; intros r H; [simpl in H; lia|].
  destruct r; [simpl; destruct t; simpl; lia|]. simpl in H.
  cbn [firstn fold_right nth]. specialize (IH r ltac:(lia)). cbn [firstn] in IH. lia.
Qed.

Lemma cum_mono counts : mono (cum (cumul 0 counts)) (length counts).
Proof.
  intros a b Hab Hb. induction Hab; [lia|].
  rewrite cum_step by lia. specialize (IHHab ltac:(lia)). lia.
Qed.

(* ---- the segment loop ---- *)
Section Segs.
  Variable c : nat -> nat.
  Variable P : nat.
  Hypothesis M : mono c P.
  Hypothesis c0 : c 0 = 0.
  Variables lo hi_beg r : nat.
  Hypothesis hi_in : hi_beg + r <= c P.
  Hypothesis lo_hi : lo <= hi_beg.

  (* a well-formed run of segments covering [o, r) *)
  Inductive seg_chain : nat -> list seg -> Prop :=
  | chain_nil : seg_chain r []
  | chain_cons o s t :
      s_off s = o -> 0 < s_len s -> o + s_len s <= r ->
      s_lo_owner s < P -> s_hi_owner s < P ->
      c (s_lo_owner s) <= lo + o -> lo + o + s_len s <= c (S (s_lo_owner s)) ->
      c (s_hi_owner s) <= hi_beg + o -> hi_beg + o + s_len s <= c (S (s_hi_owner s)) ->
      seg_chain (o + s_len s) t -> seg_chain o (s :: t).

  Lemma segs_loop_chain fuel : forall o g1 g2, o <= r -> r - o <= fuel -> g1 < P -> g2 < P ->
    seg_chain o (segs_loop fuel c P lo hi_beg r o g1 g2) /\
    forall g1' g2', g1' < P -> g2' < P ->
      segs_loop fuel c P lo hi_beg r o g1' g2' = segs_loop fuel c P lo hi_beg r o g1 g2.
  Proof.
    induction fuel as [|f IH]; intros o g1 g2 Ho Hf Hg1 Hg2.
    - assert (o = r) by lia. subst o. simpl. split; [constructor|reflexivity].
    - cbn [segs_loop]. destruct (o <? r) eqn:E.
      2:{ apply Nat.ltb_ge in E. assert (o = r) by lia. subst o. split; [constructor|reflexivity]. }
      apply Nat.ltb_lt in E.
      destruct (bsearch_cumulative_correct c P (lo + o) g1 M c0 ltac:(lia) Hg1) as [r1 [E1 [Hr1 [[O1 O1'] U1]]]].
      destruct (bsearch_cumulative_correct c P (hi_beg + o) g2 M c0 ltac:(lia) Hg2) as [r2 [E2 [Hr2 [[O2 O2'] U2]]]].
      rewrite E1, E2.
      set (ml := Nat.min (r - o) (Nat.min (c (S r1) - (lo + o)) (c (S r2) - (hi_beg + o)))).
      assert (Hml : 0 < ml /\ o + ml <= r /\ lo + o + ml <= c (S r1) /\ hi_beg + o + ml <= c (S r2)) by (unfold ml; lia).
      destruct (IH (o + ml) r1 r2 ltac:(lia) ltac:(lia) Hr1 Hr2) as [IH1 IH2].
      split.
      + apply chain_cons; simpl; try lia. exact IH1.
      + intros g1' g2' Hg1' Hg2'.
        rewrite (bsearch_eq c P (lo + o) g1' r1 M Hr1 (conj O1 O1') Hg1').
        rewrite (bsearch_eq c P (hi_beg + o) g2' r2 M Hr2 (conj O2 O2') Hg2').
        reflexivity.
  Qed.
End Segs.

(* for the offsets of sc_psort: every rank computes the same, well-formed segment list *)
Theorem segments_correct counts me lo n2 r :
  let off := cumul 0 counts in
  me < length counts -> lo + n2 + r <= cum off (length counts) ->
  seg_chain (cum off) (length counts) lo (lo + n2) r 0 (segments off me lo n2 r) /\
  forall me', me' < length counts -> segments off me' lo n2 r = segments off me lo n2 r.
Proof.
  intros off Hme Hhi. unfold segments.
  assert (EP : length off - 1 = length counts) by (unfold off; rewrite cumul_length; lia).
  rewrite EP.
  destruct (segs_loop_chain (cum off) (length counts) (cum_mono counts) (cum_0 counts) lo (lo + n2) r
              ltac:(lia) ltac:(lia) r 0 me me ltac:(lia) ltac:(lia) Hme Hme) as [H1 H2].
  split; [exact H1|]. intros me' Hme'. apply H2; assumption.
Qed.

(* the statement for the offsets of sc_psort: ranks without elements are skipped *)
Theorem psort_owner counts pos guess :
  let off := cumul 0 counts in let P := length counts in
  pos < cum off P -> guess < P ->
  let r := bsearch_cumulative (cum off) P pos guess in
  r < P /\ cum off r <= pos < cum off (S r) /\ 0 < nth r counts 0 /\
  (forall r', r' < P -> cum off r' <= pos < cum off (S r') -> r' = r).
Proof.
  intros off P Hp Hg r.
  destruct (bsearch_cumulative_correct (cum off) P pos guess (cum_mono counts) (cum_0 counts) Hp Hg)
    as [r0 [E [Hr [Ho U]]]].
  fold r in E. subst r0. split; [exact Hr|split; [exact Ho|split; [|exact U]]].
  unfold owns, off in Ho. rewrite cum_step in Ho by exact Hr. lia.
Qed.
