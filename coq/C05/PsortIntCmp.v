(* C05 - the caller's comparison function as the C code sees it: the `compar` argument of sc_psort returns an ARBITRARY
   integer (any negative / zero / any positive value, INT_MIN and INT_MAX included); nothing in sc_sort.c may depend on more than
   its sign.  The model's parameters are derived from such a function WITHOUT normalising it:
     gt_cmp c a b   = (0 <? c a b)            the swap test `compar (lo, hi) > 0` of sc_merge_bitonic (C05_gen_swap)
     dir_cmp c d    = c (d = true) / c with the ARGUMENTS SWAPPED (d = false): the function sc_psort_bitonic hands to qsort
                      (sc_compare_r / sc_icompare_r, generated: C05_gen_compare_gnu, _bsd, _plain)
   libc's qsort is a Section variable `qs` with the contract of the C standard: for a comparison function that is consistent
   (`cmp_valid`: the sign is antisymmetric, "<= 0" is transitive) the result is a permutation, and adjacent elements a, b of the
   result have c a b <= 0.  From this contract and `dir_cmp` the contract of the model's local sort `sort d` follows
   (`local_sort_contract`), hence sortedness / permutation / counts for every valid int comparison function.
   Swapping the arguments is NOT negating the result: `neg_is_not_swap` shows a valid comparison function (INT_MIN for "less")
   for which `- c a b`, computed in int, has the wrong sign. *)
From Coq Require Import Arith ZArith Lia List Bool PeanoNat Permutation Sorted.
From ScV Require Import Base.CInt C05.PsortModel C05.PsortPerm C05.PsortZeroOne C05.PsortSorted C05.PsortCompose.
Import ListNotations.
Local Open Scope Z_scope.

Lemma sgn_flip x y : Z.sgn y = - Z.sgn x -> (0 < x <-> y < 0) /\ (x = 0 <-> y = 0) /\ (x < 0 <-> 0 < y).
Proof. destruct x, y; simpl; intros H; try discriminate H; repeat split; intros; try lia; try discriminate. Qed.

Lemma sgn_le0 x y : Z.sgn x = Z.sgn y -> (x <= 0 <-> y <= 0).
Proof. destruct x, y; simpl; intros H; try discriminate H; split; intros; try lia. Qed.

Section IntCmp.
  Variable A : Type.

  (* a consistent comparison function (C11 7.22.5p4 + 7.22.5.2): only the SIGN of the result means something *)
  Definition cmp_valid (c : A -> A -> Z) : Prop :=
    (forall a b, Z.sgn (c b a) = - Z.sgn (c a b)) /\
    (forall a b x, c a b <= 0 -> c b x <= 0 -> c a x <= 0).

  Definition le_cmp (c : A -> A -> Z) (a b : A) : bool := c a b <=? 0.
  Definition gt_cmp (c : A -> A -> Z) (a b : A) : bool := 0 <? c a b.
  (* ascending: the function itself; descending: the arguments swapped *)
  Definition dir_cmp (c : A -> A -> Z) (d : bool) : A -> A -> Z := fun a b => if d then c a b else c b a.

  Lemma gt_cmp_of c a b : gt_cmp c a b = gt_of A (le_cmp c) a b.
  Proof. unfold gt_cmp, gt_of, le_cmp. rewrite Z.ltb_antisym. reflexivity. Qed.

  Lemma cmp_total c : cmp_valid c -> forall a b, c a b <= 0 \/ c b a <= 0.
  Proof. intros [S _] a b. pose proof (sgn_flip _ _ (S a b)). lia. Qed.

  Lemma le_cmp_total c : cmp_valid c -> forall a b, le_cmp c a b = true \/ le_cmp c b a = true.
  Proof. intros V a b. unfold le_cmp. rewrite !Z.leb_le. apply cmp_total, V. Qed.
  Lemma le_cmp_trans c : cmp_valid c -> forall a b x, le_cmp c a b = true -> le_cmp c b x = true -> le_cmp c a x = true.
  Proof. intros [_ T] a b x. unfold le_cmp. rewrite !Z.leb_le. apply T. Qed.

  (* the swapped function is consistent whenever the function is - for EVERY integer it returns *)
  Lemma dir_cmp_valid c d : cmp_valid c -> cmp_valid (dir_cmp c d).
  Proof.
    intros [S T]. destruct d; [split; assumption|]. unfold dir_cmp. split.
    - intros a b. apply S.
    - intros a b x H1 H2. exact (T x b a H2 H1).
  Qed.

  (* libc: qsort (base, n, size, c) / qsort_r with a consistent c *)
  Definition qsort_contract (qs : (A -> A -> Z) -> list A -> list A) : Prop :=
    forall c l, cmp_valid c -> Permutation (qs c l) l /\ Sorted (fun a b => c a b <= 0) (qs c l).

  Section Local.
    Variable c : A -> A -> Z.
    Hypothesis c_valid : cmp_valid c.
    Variable qs : (A -> A -> Z) -> list A -> list A.
    Hypothesis qs_ok : qsort_contract qs.
    (* the function handed to qsort for direction d: anything that has pointwise the SIGN of `dir_cmp c d` (the generated
       wrappers are equal to it: C05_gen_compare_gnu, _bsd, _plain) *)
    Variable w : bool -> A -> A -> Z.
    Hypothesis w_dir : forall d a b, Z.sgn (w d a b) = Z.sgn (dir_cmp c d a b).
    Let sort (d : bool) (l : list A) : list A := qs (w d) l.

    Lemma w_le0 d a b : w d a b <= 0 <-> dir_cmp c d a b <= 0.
    Proof. apply sgn_le0, w_dir. Qed.

    Lemma w_valid d : cmp_valid (w d).
    Proof.
      destruct (dir_cmp_valid c d c_valid) as [S T]. split.
      - intros a b. rewrite !w_dir. apply S.
      - intros a b x. rewrite !w_le0. apply T.
    Qed.

    (* the contract of the model's local sort (Section variable `sort` of PsortSorted.v / PsortComposeWait.v) *)
    Theorem local_sort_contract :
      (forall d l, Permutation (sort d l) l) /\
      (forall l, Sorted (fun a b => le_cmp c a b = true) (sort true l)) /\
      (forall l, Sorted (fun a b => le_cmp c b a = true) (sort false l)).
    Proof.
      split; [|split].
      - intros d l. apply (qs_ok (w d) l (w_valid d)).
      - intros l. eapply Sorted_impl; [|apply (qs_ok (w true) l (w_valid true))].
        intros a b. cbv beta. rewrite w_le0. unfold dir_cmp, le_cmp. apply Z.leb_le.
      - intros l. eapply Sorted_impl; [|apply (qs_ok (w false) l (w_valid false))].
        intros a b. cbv beta. rewrite w_le0. unfold dir_cmp, le_cmp. apply Z.leb_le.
    Qed.

    (* sorted / permutation / counts of the sequential network for a valid int comparison function *)
    Theorem psort_correct_int counts xs : map (@length A) xs = counts ->
      StronglySorted (fun a b => c a b <= 0) (concat (psort A (gt_cmp c) sort counts xs)) /\
      Permutation (concat (psort A (gt_cmp c) sort counts xs)) (concat xs) /\
      map (@length A) (psort A (gt_cmp c) sort counts xs) = counts.
    Proof.
      intros H. destruct local_sort_contract as [P [SA SD]].
      rewrite (psort_ext_gt A (gt_cmp c) (gt_of A (le_cmp c)) sort (gt_cmp_of c)).
      destruct (psort_correct A (le_cmp c) (le_cmp_total c c_valid) (le_cmp_trans c c_valid) sort P SA SD counts xs H) as [S R].
      split; [|exact R]. eapply StronglySorted_impl; [|exact S]. intros a b. unfold le_cmp. apply Z.leb_le.
    Qed.

    (* no pair i < j of the output with compar (out[i], out[j]) > 0 *)
    Corollary psort_no_inversion_int counts xs : map (@length A) xs = counts ->
      forall i j a b, (i < j)%nat -> nth_error (concat (psort A (gt_cmp c) sort counts xs)) i = Some a ->
        nth_error (concat (psort A (gt_cmp c) sort counts xs)) j = Some b -> ~ (0 < c a b).
    Proof.
      intros H i j a b Hij Hi Hj. destruct (psort_correct_int counts xs H) as [S _].
      pose proof (StronglySorted_nth_error _ _ S i j a b Hij Hi Hj) as Q. cbv beta in Q. lia.
    Qed.

    (* the same for the distributed round semantics *)
    Theorem dist_psort_correct_int counts xs : map (@length A) xs = counts ->
      StronglySorted (fun a b => c a b <= 0) (concat (dist_psort A (gt_cmp c) sort counts xs)) /\
      Permutation (concat (dist_psort A (gt_cmp c) sort counts xs)) (concat xs) /\
      map (@length A) (dist_psort A (gt_cmp c) sort counts xs) = counts.
    Proof.
      intros H. destruct local_sort_contract as [P _].
      rewrite (dist_psort_eq A (gt_cmp c) sort (fun d l => Permutation_length (P d l)) counts xs H).
      apply psort_correct_int. exact H.
    Qed.
  End Local.

  (* ---- the contract is satisfiable: insertion sort driven by the int comparison function ------------------------------------ *)
  Fixpoint cinsert (c : A -> A -> Z) (x : A) (l : list A) : list A :=
    match l with [] => [x] | y :: t => if c x y <=? 0 then x :: l else y :: cinsert c x t end.
  Fixpoint cisort (c : A -> A -> Z) (l : list A) : list A :=
    match l with [] => [] | x :: t => cinsert c x (cisort c t) end.

  Lemma cinsert_perm c x l : Permutation (cinsert c x l) (x :: l).
  Proof.
    induction l as [|y t IH]; simpl; [reflexivity|]. destruct (c x y <=? 0); [reflexivity|].
    eapply perm_trans; [apply perm_skip, IH|apply perm_swap].
  Qed.
  Lemma cisort_perm c l : Permutation (cisort c l) l.
  Proof. induction l as [|x t IH]; simpl; [reflexivity|]. eapply perm_trans; [apply cinsert_perm|apply perm_skip, IH]. Qed.

  Lemma cinsert_sorted c x l : cmp_valid c ->
    StronglySorted (fun a b => c a b <= 0) l -> StronglySorted (fun a b => c a b <= 0) (cinsert c x l).
  Proof.
    intros V. induction 1 as [|y t S IH F]; simpl; [constructor; constructor|].
    destruct (Z.leb_spec (c x y) 0) as [E|E].
    - constructor; [constructor; assumption|]. constructor; [exact E|].
      eapply Forall_impl; [|exact F]. intros z Hz. exact (proj2 V x y z E Hz).
    - assert (R : c y x <= 0) by (destruct (cmp_total c V x y); lia).
      constructor; [exact IH|]. eapply Permutation_Forall; [apply Permutation_sym, cinsert_perm|].
      constructor; assumption.
  Qed.
  Lemma cisort_sorted c l : cmp_valid c -> StronglySorted (fun a b => c a b <= 0) (cisort c l).
  Proof. intros V. induction l as [|x t IH]; simpl; [constructor|apply cinsert_sorted; assumption]. Qed.

  Theorem cisort_contract : qsort_contract cisort.
  Proof. intros c l V. split; [apply cisort_perm|apply StronglySorted_Sorted, cisort_sorted, V]. Qed.
End IntCmp.

(* ---- negating the result is not swapping the arguments ------------------------------------------------------------------------- *)
Definition INT_MIN : Z := -2147483648.
(* a valid comparison function on the integers that reports "less" by INT_MIN (e.g. a saturated 64-bit difference) *)
Definition cmp_min (a b : Z) : Z := if a <? b then INT_MIN else if b <? a then 1 else 0.

Lemma cmp_min_valid : cmp_valid Z cmp_min.
Proof.
  unfold cmp_min, INT_MIN. split.
  - intros a b. destruct (Z.ltb_spec a b), (Z.ltb_spec b a); simpl; try reflexivity; lia.
  - intros a b x. destruct (Z.ltb_spec a b), (Z.ltb_spec b a), (Z.ltb_spec b x), (Z.ltb_spec x b), (Z.ltb_spec a x), (Z.ltb_spec x a); lia.
Qed.

(* `sign * compar (v1, v2)` with sign = -1, evaluated in int: for "less" it is INT_MIN again, so (a, b) and (b, a) are both
   "less" - the function is not consistent and differs in sign from the swapped call *)
Theorem neg_is_not_swap :
  cmp_valid Z cmp_min /\
  s32 (-1 * cmp_min 0 1) = INT_MIN /\ dir_cmp Z cmp_min false 0 1 = 1 /\
  ~ cmp_valid Z (fun a b => s32 (-1 * cmp_min a b)).
Proof.
  split; [exact cmp_min_valid|]. split; [reflexivity|]. split; [reflexivity|].
  intros [S _]. specialize (S 0 1). vm_compute in S. discriminate S.
Qed.
