(* C13 - theorems about the per-variable state machine (C13/VarModel.v): histories of calls on P ranks over any
   number of collective rounds, for EVERY reduction tree over EVERY arrangement of the ranks' records (each rank may
   even be handed the result of a different tree). *)
From Coq Require Import ZArith Lia List Bool QArith Permutation.
From ScV Require Import Base.CInt Gen.StatsC13 C13.StatsModel C13.StatsProofs C13.VarModel.
Import ListNotations.
Local Open Scope Z_scope.

(* ---------- sums of samples ---------- *)
Definition zsum (xs : list Z) : Z := fold_right Z.add 0 xs.
Definition zsumsq (xs : list Z) : Z := fold_right (fun x a => x * x + a) 0 xs.

Lemma fold_left_add xs a : fold_left Z.add xs a = a + zsum xs.
Proof. revert a; induction xs as [|x tl IH]; intros a; simpl; [lia|rewrite IH; lia]. Qed.
Lemma fold_left_addsq xs a : fold_left Z.add (map (fun v => v * v) xs) a = a + zsumsq xs.
Proof. revert a; induction xs as [|x tl IH]; intros a; simpl; [lia|rewrite IH; lia]. Qed.
Lemma zsum_app a b : zsum (a ++ b) = zsum a + zsum b.
Proof. induction a as [|x tl IH]; simpl; [reflexivity|rewrite IH; lia]. Qed.
Lemma zsumsq_app a b : zsumsq (a ++ b) = zsumsq a + zsumsq b.
Proof. induction a as [|x tl IH]; simpl; [reflexivity|rewrite IH; lia]. Qed.

(* ---------- the ghost: what a rank has contributed since its last init / reset / set1 ---------- *)
(* None = the variable is clean on this rank; Some xs = dirty, holding the samples xs *)
Definition gstep (p : option (list Z)) (o : op) : option (list Z) :=
  match o with
  | OInit | OReset => Some []
  | OSet1 v => Some [v]
  | OAcc v => match p with Some xs => Some (xs ++ [v]) | None => None end
  | OPrep1 => match p with Some xs => Some [zsum xs] | None => None end
  end.
Definition grun (p : option (list Z)) (ops : list op) : option (list Z) := fold_left gstep ops p.
(* sc_stats_accumulate requires a dirty variable (SC_ASSERT (stats->dirty)).  sc_stats_compute1 may meet clean variables:
   since repair F-C13a it skips them (gstep None OPrep1 = None) *)
Definition needs_dirty (o : op) : Prop := match o with OAcc _ => True | _ => False end.
Fixpoint legal (p : option (list Z)) (ops : list op) : Prop :=
  match ops with
  | [] => True
  | o :: tl => (needs_dirty o -> p <> None) /\ legal (gstep p o) tl
  end.

Definition rec5 (s : vst) := (v_count s, v_sum s, v_sq s, v_min s, v_max s).
Definition loc5 (xs : list Z) := let l := local 0 xs in (cnt l, sm l, sq l, mn l, mx l).
Definition Inv (s : vst) (p : option (list Z)) : Prop :=
  match p with None => v_dirty s = 0 | Some xs => v_dirty s = 1 /\ rec5 s = loc5 xs end.

Lemma list_min_snoc d xs v : list_min d (xs ++ [v]) = Z.min (list_min d xs) v.
Proof. unfold list_min. rewrite fold_left_app. reflexivity. Qed.
Lemma list_max_snoc d xs v : list_max d (xs ++ [v]) = Z.max (list_max d xs) v.
Proof. unfold list_max. rewrite fold_left_app. reflexivity. Qed.

Lemma loc5_cons x tl : loc5 (x :: tl) =
  (Z.of_nat (S (length tl)), zsum (x :: tl), zsumsq (x :: tl), list_min x tl, list_max x tl).
Proof.
  unfold loc5, local. cbn [cnt sm sq mn mx length].
  rewrite fold_left_add, fold_left_addsq. reflexivity.
Qed.

Lemma step_inv s p o : Inv s p -> (needs_dirty o -> p <> None) ->
  Inv (step s o) (gstep p o).
Proof.
  intros HI HL. destruct o as [| |v|v|]; simpl.
  - split; reflexivity.
  - split; reflexivity.
  - split; [reflexivity|]. unfold rec5, loc5; simpl. repeat (apply pair_equal_spec; split); lia.
  - destruct p as [xs|]; [|exfalso; apply (HL I); reflexivity]. destruct HI as [Hd Hr]. destruct xs as [|x tl].
    + unfold rec5, loc5 in Hr; simpl in Hr. injection Hr as Hc Hs Hq Hm Hx.
      unfold accumulate. rewrite Hc. simpl. split; [exact Hd|]. unfold rec5, loc5; simpl. repeat (apply pair_equal_spec; split); lia.
    + rewrite loc5_cons in Hr. unfold rec5 in Hr. injection Hr as Hc Hs Hq Hm Hx.
      unfold accumulate. destruct (v_count s =? 0) eqn:E; [apply Z.eqb_eq in E; lia|].
      split; [exact Hd|]. change ((x :: tl) ++ [v]) with (x :: (tl ++ [v])). rewrite loc5_cons.
      unfold rec5; cbn [v_count v_sum v_sq v_min v_max].
      rewrite Hc, Hs, Hq, Hm, Hx, list_min_snoc, list_max_snoc, app_length.
      change (zsum (x :: tl ++ [v])) with (zsum ((x :: tl) ++ [v])). change (zsumsq (x :: tl ++ [v])) with (zsumsq ((x :: tl) ++ [v])).
      rewrite zsum_app, zsumsq_app. simpl zsum at 2. simpl zsumsq at 2. simpl length.
      repeat (apply pair_equal_spec; split); simpl; lia.
  - destruct p as [xs|]; [|simpl in HI; unfold prep1; rewrite HI; exact HI]. destruct HI as [Hd Hr].
    assert (Hs : v_sum s = zsum xs).
    { destruct xs as [|x tl]; [unfold rec5, loc5 in Hr; simpl in Hr; injection Hr; intros; simpl; assumption|].
      rewrite loc5_cons in Hr. unfold rec5 in Hr. congruence. }
    unfold prep1. rewrite Hd. simpl (1 =? 0). cbv iota.
    split; [reflexivity|]. unfold rec5, loc5; simpl. rewrite Hs. repeat (apply pair_equal_spec; split); lia.
Qed.

Lemma run_inv ops : forall s p, Inv s p -> legal p ops -> Inv (run_ops s ops) (grun p ops).
Proof.
  induction ops as [|o tl IH]; intros s p HI HL; simpl; [exact HI|].
  destruct HL as [H1 H2]. apply IH; [apply step_inv; assumption|exact H2].
Qed.

(* closed form of the ghost: the samples since the last init / reset / set1 *)
Definition setter_base (o : op) : option (list Z) :=
  match o with OInit | OReset => Some [] | OSet1 v => Some [v] | _ => None end.
Lemma grun_accs vs : forall xs, grun (Some xs) (map OAcc vs) = Some (xs ++ vs).
Proof.
  induction vs as [|v tl IH]; intros xs; [simpl; rewrite app_nil_r; reflexivity|].
  change (grun (Some xs) (map OAcc (v :: tl))) with (grun (Some (xs ++ [v])) (map OAcc tl)).
  rewrite IH, <- app_assoc. reflexivity.
Qed.
Theorem grun_since_last_setter p pre o b vs : setter_base o = Some b ->
  grun p (pre ++ o :: map OAcc vs) = Some (b ++ vs).
Proof.
  intros Hb. unfold grun. rewrite fold_left_app. simpl.
  assert (gstep (fold_left gstep pre p) o = Some b) as -> by (destruct o; simpl in *; congruence).
  apply grun_accs.
Qed.

(* ---------- lists indexed by rank ---------- *)
Lemma nth_error_map2 {A B C} (f : A -> B -> C) l1 : forall l2 i,
  nth_error (map2 f l1 l2) i =
  match nth_error l1 i, nth_error l2 i with Some a, Some b => Some (f a b) | _, _ => None end.
Proof.
  induction l1 as [|a t1 IH]; intros l2 i; simpl.
  - destruct i; reflexivity.
  - destruct l2 as [|b t2]; simpl.
    + destruct i; simpl; [reflexivity|]. destruct (nth_error t1 i); reflexivity.
    + destruct i; simpl; [reflexivity|apply IH].
Qed.
Lemma map2_length {A B C} (f : A -> B -> C) l1 : forall l2, length l1 = length l2 -> length (map2 f l1 l2) = length l1.
Proof. induction l1 as [|a t IH]; intros [|b t2] H; simpl in *; try lia. rewrite IH; lia. Qed.
Lemma Forall2_nth {A B} (R : A -> B -> Prop) l1 l2 : Forall2 R l1 l2 ->
  forall i a, nth_error l1 i = Some a -> exists b, nth_error l2 i = Some b /\ R a b.
Proof.
  induction 1 as [|x y t1 t2 Hxy Ht IH]; intros i a Hi; [destruct i; discriminate|].
  destruct i; simpl in *; [injection Hi as <-; exists y; auto|apply IH; exact Hi].
Qed.

Lemma Forall2_nth_r {A B} (R : A -> B -> Prop) l1 l2 : Forall2 R l1 l2 ->
  forall i b, nth_error l2 i = Some b -> exists a, nth_error l1 i = Some a /\ R a b.
Proof.
  induction 1 as [|x y t1 t2 Hxy Ht IH]; intros i b Hi; [destruct i; discriminate|].
  destruct i; simpl in *; [injection Hi as <-; exists x; auto|apply IH; exact Hi].
Qed.

Definition grun_all (ps : list (option (list Z))) (opss : list (list op)) := map2 grun ps opss.
Definition legal_all (ps : list (option (list Z))) (opss : list (list op)) : Prop := Forall2 legal ps opss.

Lemma run_all_inv sts ps : Forall2 Inv sts ps -> forall opss, legal_all ps opss ->
  Forall2 Inv (run_all sts opss) (grun_all ps opss).
Proof.
  induction 1 as [|s p t1 t2 Hsp Ht IH]; intros opss HL; inversion HL; subst; simpl; [constructor|].
  constructor; [apply run_inv; assumption|apply IH; assumption].
Qed.

(* what a rank packs, in terms of the ghost *)
Definition loc (r : Z) (p : option (list Z)) : srec := match p with None => clean_rec | Some xs => local r xs end.
Fixpoint locs_from (r : Z) (ps : list (option (list Z))) : list srec :=
  match ps with [] => [] | p :: tl => loc r p :: locs_from (r + 1) tl end.

Lemma pack_inv s p r : Inv s p -> pack r s = loc r p.
Proof.
  destruct p as [xs|]; simpl; intros H.
  - destruct H as [Hd Hr]. unfold pack. rewrite Hd. simpl. destruct xs as [|x tl].
    + unfold rec5, loc5 in Hr; simpl in Hr. injection Hr as -> -> -> -> ->. reflexivity.
    + unfold rec5, loc5, local in Hr. cbn [cnt sm sq mn mx] in Hr. injection Hr as -> -> -> -> ->. reflexivity.
  - unfold pack. rewrite H. reflexivity.
Qed.
Lemma packs_inv sts ps : Forall2 Inv sts ps -> forall r, packs_from r sts = locs_from r ps.
Proof. induction 1 as [|s p t1 t2 H _ IH]; intros r; simpl; [reflexivity|]. rewrite (pack_inv s p r H), IH. reflexivity. Qed.

Lemma loc_wf r p : wf (loc r p).
Proof. destruct p; [apply local_wf|apply clean_wf]. Qed.
Lemma locs_wf ps : forall r, Forall wf (locs_from r ps).
Proof. induction ps as [|p tl IH]; intros r; simpl; constructor; [apply loc_wf|apply IH]. Qed.

Definition contrib (p : option (list Z)) : list Z := match p with None => [] | Some xs => xs end.
Definition union (ps : list (option (list Z))) : list Z := concat (map contrib ps).

Lemma loc_sums r p : cnt (loc r p) = Z.of_nat (length (contrib p)) /\ sm (loc r p) = zsum (contrib p) /\ sq (loc r p) = zsumsq (contrib p).
Proof.
  destruct p as [[|x tl]|]; simpl; try (repeat split; reflexivity).
  rewrite fold_left_add, fold_left_addsq. repeat split; simpl; lia.
Qed.
Lemma locs_sums ps : forall r,
  sumof cnt (locs_from r ps) = Z.of_nat (length (union ps)) /\ sumof sm (locs_from r ps) = zsum (union ps) /\
  sumof sq (locs_from r ps) = zsumsq (union ps).
Proof.
  induction ps as [|p tl IH]; intros r; [repeat split; reflexivity|].
  unfold union; simpl. fold (union tl). destruct (IH (r + 1)) as [A [B C]]. destruct (loc_sums r p) as [D [E F]].
  rewrite A, B, C, D, E, F, app_length, zsum_app, zsumsq_app. repeat split; lia.
Qed.

Lemma in_locs ps : forall r x, In x (locs_from r ps) <->
  exists i p, nth_error ps i = Some p /\ x = loc (r + Z.of_nat i) p.
Proof.
  induction ps as [|p tl IH]; intros r x; simpl.
  - split; [intros []|intros [i [q [H _]]]; destruct i; discriminate].
  - split.
    + intros [<-|H]; [exists 0%nat, p; split; [reflexivity|f_equal; simpl; lia]|].
      apply IH in H. destruct H as [i [q [H1 H2]]]. exists (S i), q. split; [exact H1|]. rewrite H2. f_equal. lia.
    + intros [i [q [H1 H2]]]. destruct i; simpl in H1.
      * injection H1 as <-. left. rewrite H2. f_equal. simpl; lia.
      * right. apply IH. exists i, q. split; [exact H1|]. rewrite H2. f_equal. lia.
Qed.
Lemma in_union ps y : In y (union ps) <-> exists i xs, nth_error ps i = Some (Some xs) /\ In y xs.
Proof.
  unfold union. induction ps as [|p tl IH]; simpl.
  - split; [intros []|intros [i [xs [H _]]]; destruct i; discriminate].
  - rewrite in_app_iff, IH. split.
    + intros [H|[i [xs [H1 H2]]]].
      * destruct p as [xs|]; [|destruct H]. exists 0%nat, xs. split; [reflexivity|exact H].
      * exists (S i), xs. split; assumption.
    + intros [i [xs [H1 H2]]]. destruct i; simpl in H1.
      * injection H1 as ->. left. exact H2.
      * right. exists i, xs. split; assumption.
Qed.

(* ---------- the statistics of the union, stated on the samples ---------- *)
Definition attains (ps : list (option (list Z))) (v r : Z) : Prop :=
  (exists i xs, nth_error ps i = Some (Some xs) /\ In v xs /\ r = Z.of_nat i) /\
  (forall i xs, nth_error ps i = Some (Some xs) -> In v xs -> r <= Z.of_nat i).
Definition ustats (ps : list (option (list Z))) (g : srec) : Prop :=
  let U := union ps in
  cnt g = Z.of_nat (length U) /\ sm g = zsum U /\ sq g = zsumsq U /\
  (U <> [] -> In (mn g) U /\ (forall y, In y U -> mn g <= y) /\ In (mx g) U /\ (forall y, In y U -> y <= mx g) /\
              attains ps (mn g) (mnr g) /\ attains ps (mx g) (mxr g)).

Lemma loc_pos r p : 0 < cnt (loc r p) -> exists x tl, p = Some (x :: tl).
Proof. destruct p as [[|x tl]|]; simpl; intros H; try lia. exists x, tl; reflexivity. Qed.

Theorem good_ustats ps g : good (locs_from 0 ps) g -> ustats ps g.
Proof.
  intros [Hc [Hs [Hq He]]]. destruct (locs_sums ps 0) as [A [B C]]. unfold ustats.
  rewrite Hc, Hs, Hq, A, B, C. split; [reflexivity|split; [reflexivity|split; [reflexivity|]]].
  intros Hne. assert (Hpos : 0 < cnt g) by (rewrite Hc, A; destruct (union ps); [congruence|simpl; lia]).
  destruct (He Hpos) as [[[xa [Ia [Pa [Ma Ra]]]] La] [[xb [Ib [Pb [Mb Rb]]]] Lb]].
  (* every record with samples is `local (rank) (x :: tl)` *)
  assert (Hrec : forall x, In x (locs_from 0 ps) -> 0 < cnt x ->
            exists i y tl, nth_error ps i = Some (Some (y :: tl)) /\ x = local (Z.of_nat i) (y :: tl)).
  { intros x Hx Hp. apply in_locs in Hx. destruct Hx as [i [p [H1 H2]]]. subst x.
    destruct (loc_pos _ _ Hp) as [y [tl ->]]. exists i, y, tl. split; [exact H1|reflexivity]. }
  assert (Hmem : forall i y tl, nth_error ps i = Some (Some (y :: tl)) ->
            In (local (Z.of_nat i) (y :: tl)) (locs_from 0 ps) /\ 0 < cnt (local (Z.of_nat i) (y :: tl))).
  { intros i y tl H. split; [apply in_locs; exists i, (Some (y :: tl)); split; [exact H|reflexivity]|simpl; lia]. }
  destruct (Hrec xa Ia Pa) as [ia [ya [ta [Na Ea]]]]. destruct (Hrec xb Ib Pb) as [ib [yb [tb [Nb Eb]]]].
  pose proof (local_extremes (Z.of_nat ia) ya ta) as Xa. pose proof (local_extremes (Z.of_nat ib) yb tb) as Xb.
  cbv zeta in Xa, Xb. rewrite <- Ea in Xa. rewrite <- Eb in Xb.
  destruct Xa as [Xa1 [_ [Xa3 [_ [Xa5 _]]]]]. destruct Xb as [_ [Xb2 [Xb3 [_ [_ Xb6]]]]].
  (* a sample y of rank i bounds the record of rank i *)
  assert (Hbound : forall y, In y (union ps) -> mn g <= y <= mx g).
  { intros y Hy. apply in_union in Hy. destruct Hy as [i [xs [H1 H2]]]. destruct xs as [|z tl]; [destruct H2|].
    destruct (Hmem i z tl H1) as [M1 M2]. pose proof (local_extremes (Z.of_nat i) z tl) as X. cbv zeta in X.
    destruct X as [_ [_ [X3 _]]]. specialize (X3 y H2).
    destruct (La _ M1 M2) as [L1 _]. destruct (Lb _ M1 M2) as [L2 _]. lia. }
  split; [apply in_union; exists ia, (ya :: ta); split; [exact Na|rewrite <- Ma; exact Xa1]|].
  split; [intros y Hy; apply Hbound; exact Hy|].
  split; [apply in_union; exists ib, (yb :: tb); split; [exact Nb|rewrite <- Mb; exact Xb2]|].
  split; [intros y Hy; apply Hbound; exact Hy|].
  split; split.
  - exists ia, (ya :: ta). split; [exact Na|]. split; [rewrite <- Ma; exact Xa1|rewrite <- Ra; exact Xa5].
  - intros i xs H1 H2. destruct xs as [|z tl]; [destruct H2|]. destruct (Hmem i z tl H1) as [M1 M2].
    pose proof (local_extremes (Z.of_nat i) z tl) as X. cbv zeta in X. destruct X as [_ [_ [X3 [_ [X5 _]]]]].
    destruct (La _ M1 M2) as [L1 L2]. specialize (X3 _ H2). rewrite X5 in L2. apply L2. lia.
  - exists ib, (yb :: tb). split; [exact Nb|]. split; [rewrite <- Mb; exact Xb2|rewrite <- Rb; exact Xb6].
  - intros i xs H1 H2. destruct xs as [|z tl]; [destruct H2|]. destruct (Hmem i z tl H1) as [M1 M2].
    pose proof (local_extremes (Z.of_nat i) z tl) as X. cbv zeta in X. destruct X as [_ [_ [X3 [_ [_ X6]]]]].
    destruct (Lb _ M1 M2) as [L1 L2]. specialize (X3 _ H2). rewrite X6 in L2. apply L2. lia.
Qed.

(* ---------- one collective round ---------- *)
(* what MPI_Allreduce with a commutative user operation may hand to a rank: the value of SOME binary tree over SOME
   arrangement of the ranks' records *)
Definition reduced (recs : list srec) (g : srec) : Prop := exists t, Permutation (leaves t) recs /\ g = eval t.
(* a round: every rank runs its calls, packs, receives a reduced value (each rank possibly from a different tree)
   and post-processes *)
Definition round_rel (sts : list vst) (opss : list (list op)) (sts2 : list vst) : Prop :=
  exists gs, length gs = length sts /\ Forall (reduced (packs_from 0 (run_all sts opss))) gs /\
             sts2 = map2 post (run_all sts opss) gs.

Definition gpost (ps1 : list (option (list Z))) : list (option (list Z)) :=
  match union ps1 with [] => ps1 | _ => map (fun _ => None) ps1 end.
Definition ground (ps : list (option (list Z))) (opss : list (list op)) := gpost (grun_all ps opss).

(* the fields of a variable as a record, and "holds the statistics of the union" *)
Definition rec_of (s : vst) : srec := mk (v_count s) (v_sum s) (v_sq s) (v_min s) (v_max s) (v_minr s) (v_maxr s).
Definition holds_union (ps : list (option (list Z))) (s : vst) : Prop :=
  v_dirty s = 0 /\ ustats ps (rec_of s) /\ (v_avg s, v_var s, v_varm s) = derived (v_sum s) (v_sq s) (v_count s).
Definition zero_dirty : vst := mkv 1 0 0 0 0 0 0 0 q0 q0 q0.

Lemma reduced_ustats ps g : reduced (locs_from 0 ps) g -> ustats ps g.
Proof.
  intros [t [Hp ->]]. apply good_ustats. apply any_arrangement; [apply locs_wf|exact Hp].
Qed.

Lemma post_dirty s g xs (U : list Z) : Inv s (Some xs) -> cnt g = Z.of_nat (length U) ->
  match U with
  | [] => xs = [] -> post s g = zero_dirty
  | _ :: _ => v_dirty (post s g) = 0 /\ rec_of (post s g) = g /\
              (v_avg (post s g), v_var (post s g), v_varm (post s g)) = derived (v_sum (post s g)) (v_sq (post s g)) (v_count (post s g))
  end.
Proof.
  intros [Hd Hr] Hc. destruct U as [|u tl].
  - intros ->. unfold post. rewrite Hd. simpl in Hc. rewrite Hc. simpl. unfold rec5, loc5 in Hr; simpl in Hr.
    injection Hr as _ -> -> -> ->. reflexivity.
  - unfold post. rewrite Hd. simpl (1 =? 0). cbv iota.
    assert (cnt g =? 0 = false) as -> by (apply Z.eqb_neq; simpl in Hc; lia).
    destruct (derived (sm g) (sq g) (cnt g)) as [[a v] vm] eqn:E. simpl.
    split; [reflexivity|split; [apply srec_eta|symmetry; exact E]].
Qed.

Lemma union_nil_contrib ps : union ps = [] -> forall i xs, nth_error ps i = Some (Some xs) -> xs = [].
Proof.
  intros H i xs Hi. destruct xs as [|x tl]; [reflexivity|].
  assert (In x (union ps)) by (apply in_union; exists i, (x :: tl); split; [exact Hi|left; reflexivity]).
  rewrite H in H0. destruct H0.
Qed.

Lemma post_inv_all sts1 ps1 : Forall2 Inv sts1 ps1 ->
  forall (U : list Z) gs, Forall (fun g => cnt g = Z.of_nat (length U)) gs ->
  (U = [] -> Forall (fun p => forall xs, p = Some xs -> xs = []) ps1) ->
  Forall2 Inv (map2 post sts1 gs) (match U with [] => ps1 | _ => map (fun _ => None) ps1 end) \/ (length gs < length sts1)%nat.
Proof.
  induction 1 as [|s p t1 t2 Hsp Ht IH]; intros U gs Hg Hnil.
  - left. destruct U; constructor.
  - destruct gs as [|g gs]; [right; simpl; lia|]. inversion Hg as [|? ? Hg1 Hg2]; subst.
    assert (Hnil' : U = [] -> Forall (fun p => forall xs, p = Some xs -> xs = []) t2).
    { intros HU. specialize (Hnil HU). inversion Hnil; assumption. }
    destruct (IH U gs Hg2 Hnil') as [IH'|IH']; [|right; simpl; lia]. left. simpl.
    assert (Hhd : Inv (post s g) (match U with [] => p | _ => None end)).
    { destruct p as [xs|].
      - pose proof (post_dirty s g xs U Hsp Hg1) as HP. destruct U as [|u tl].
        + specialize (Hnil eq_refl). inversion Hnil as [|? ? Hx _]; subst. rewrite (HP (Hx xs eq_refl)).
          rewrite (Hx xs eq_refl). split; reflexivity.
        + destruct HP as [HP _]. exact HP.
      - simpl in Hsp. unfold post. rewrite Hsp. simpl. destruct U; exact Hsp. }
    destruct U; constructor; assumption.
Qed.

Lemma Forall2_length' {A B} (R : A -> B -> Prop) l1 l2 : Forall2 R l1 l2 -> length l1 = length l2.
Proof. induction 1; simpl; lia. Qed.

Theorem round_sound sts ps opss sts2 :
  Forall2 Inv sts ps -> legal_all ps opss -> round_rel sts opss sts2 ->
  let ps1 := grun_all ps opss in
  Forall2 Inv sts2 (ground ps opss) /\
  forall i s1 p1 s2, nth_error (run_all sts opss) i = Some s1 -> nth_error ps1 i = Some p1 -> nth_error sts2 i = Some s2 ->
    match p1 with
    | None => s2 = s1
    | Some _ => match union ps1 with [] => s2 = zero_dirty | _ :: _ => holds_union ps1 s2 end
    end.
Proof.
  intros HI HL [gs [Hlen [Hred ->]]] ps1.
  pose proof (run_all_inv sts ps HI opss HL) as HI1. fold ps1 in HI1.
  rewrite (packs_inv _ _ HI1 0) in Hred.
  assert (Hus : Forall (ustats ps1) gs).
  { apply Forall_forall. intros g Hg. rewrite Forall_forall in Hred. apply reduced_ustats. apply Hred. exact Hg. }
  assert (Hl1 : length (run_all sts opss) = length sts).
  { unfold run_all. apply map2_length. rewrite (Forall2_length' _ _ _ HI). apply (Forall2_length' _ _ _ HL). }
  split.
  - unfold ground, gpost. fold ps1.
    destruct (post_inv_all _ _ HI1 (union ps1) gs) as [H|H]; [| |exact H|lia].
    + apply Forall_forall. intros g Hg. rewrite Forall_forall in Hus. destruct (Hus g Hg) as [H _]. exact H.
    + intros HU. apply Forall_forall. intros p Hp xs ->. apply In_nth_error in Hp. destruct Hp as [i Hi].
      apply (union_nil_contrib ps1 HU i xs Hi).
  - intros i s1 p1 s2 H1 H2 H3. rewrite nth_error_map2, H1 in H3.
    destruct (nth_error gs i) as [g|] eqn:Eg; [|discriminate]. injection H3 as <-.
    destruct (Forall2_nth _ _ _ HI1 i s1 H1) as [p1' [H2' HInv]]. rewrite H2 in H2'. injection H2' as <-.
    assert (Hu : ustats ps1 g) by (rewrite Forall_forall in Hus; apply Hus; apply nth_error_In with i; exact Eg).
    destruct p1 as [xs|].
    + pose proof Hu as Hu2. destruct Hu as [Hc Hrest]. pose proof (post_dirty s1 g xs (union ps1) HInv Hc) as HP.
      destruct (union ps1) as [|u tl] eqn:EU.
      * apply HP. apply (union_nil_contrib ps1 EU i xs H2).
      * destruct HP as [P1 [P2 P3]]. split; [exact P1|split; [|exact P3]]. rewrite P2. exact Hu2.
    + simpl in HInv. unfold post. rewrite HInv. reflexivity.
Qed.

(* the same, for one rank given by its state, ghost and calls of the round *)
Theorem round_rank sts ps opss sts2 i s p ops s2 :
  Forall2 Inv sts ps -> legal_all ps opss -> round_rel sts opss sts2 ->
  nth_error sts i = Some s -> nth_error ps i = Some p -> nth_error opss i = Some ops -> nth_error sts2 i = Some s2 ->
  match grun p ops with
  | None => s2 = run_ops s ops
  | Some _ => match union (grun_all ps opss) with [] => s2 = zero_dirty | _ :: _ => holds_union (grun_all ps opss) s2 end
  end.
Proof.
  intros HI HL HR H1 H2 H3 H4. destruct (round_sound sts ps opss sts2 HI HL HR) as [_ H].
  apply (H i (run_ops s ops) (grun p ops) s2); [| |exact H4].
  - unfold run_all. rewrite nth_error_map2, H1, H3. reflexivity.
  - unfold grun_all. rewrite nth_error_map2, H2, H3. reflexivity.
Qed.

(* the statistics of the union determine every field *)
Lemma attains_unique ps v r1 r2 : attains ps v r1 -> attains ps v r2 -> r1 = r2.
Proof.
  intros [[i1 [x1 [A1 [B1 C1]]]] L1] [[i2 [x2 [A2 [B2 C2]]]] L2].
  pose proof (L1 i2 x2 A2 B2). pose proof (L2 i1 x1 A1 B1). lia.
Qed.
Lemma ustats_unique ps g1 g2 : union ps <> [] -> ustats ps g1 -> ustats ps g2 -> g1 = g2.
Proof.
  intros Hne [C1 [S1 [Q1 E1]]] [C2 [S2 [Q2 E2]]].
  destruct (E1 Hne) as [M1 [M1' [X1 [X1' [R1 T1]]]]]. destruct (E2 Hne) as [M2 [M2' [X2 [X2' [R2 T2]]]]].
  assert (mn g1 = mn g2) by (pose proof (M1' _ M2); pose proof (M2' _ M1); lia).
  assert (mx g1 = mx g2) by (pose proof (X1' _ X2); pose proof (X2' _ X1); lia).
  rewrite H in R1. rewrite H0 in T1.
  pose proof (attains_unique _ _ _ _ R1 R2). pose proof (attains_unique _ _ _ _ T1 T2).
  destruct g1, g2; simpl in *. congruence.
Qed.
Lemma holds_union_unique ps s s' : union ps <> [] -> holds_union ps s -> holds_union ps s' -> s = s'.
Proof.
  intros Hne [D1 [U1 E1]] [D2 [U2 E2]]. pose proof (ustats_unique ps _ _ Hne U1 U2) as HR.
  unfold rec_of in HR. injection HR as A B C D E F G.
  rewrite A, B, C in E1. rewrite <- E2 in E1. injection E1 as X Y Z'.
  destruct s, s'; simpl in *. congruence.
Qed.

(* all ranks on which the variable is dirty hold the same values after the round *)
Theorem dirty_ranks_agree sts ps opss sts2 i j si sj a b :
  Forall2 Inv sts ps -> legal_all ps opss -> round_rel sts opss sts2 ->
  nth_error (grun_all ps opss) i = Some (Some a) -> nth_error (grun_all ps opss) j = Some (Some b) ->
  nth_error sts2 i = Some si -> nth_error sts2 j = Some sj -> si = sj.
Proof.
  intros HI HL HR Hi Hj Si Sj. destruct (round_sound sts ps opss sts2 HI HL HR) as [_ H].
  assert (Hs : forall k p, nth_error (grun_all ps opss) k = Some p -> exists s1, nth_error (run_all sts opss) k = Some s1).
  { intros k p Hk. unfold grun_all in Hk. rewrite nth_error_map2 in Hk. unfold run_all. rewrite nth_error_map2.
    destruct (nth_error ps k) as [pk|] eqn:E1; [|discriminate]. destruct (nth_error opss k) as [ok|] eqn:E2; [|discriminate].
    assert (exists s, nth_error sts k = Some s) as [s ->].
    { destruct (Forall2_nth_r _ _ _ HI k pk E1) as [s [Hs' _]]. exists s; exact Hs'. }
    eexists; reflexivity. }
  destruct (Hs i _ Hi) as [s1i H1i]. destruct (Hs j _ Hj) as [s1j H1j].
  pose proof (H i s1i (Some a) si H1i Hi Si) as Pi. pose proof (H j s1j (Some b) sj H1j Hj Sj) as Pj. cbv beta iota in Pi, Pj.
  destruct (union (grun_all ps opss)) as [|u tl] eqn:EU; [congruence|].
  apply (holds_union_unique (grun_all ps opss)); [rewrite EU; discriminate|exact Pi|exact Pj].
Qed.

(* a variable that is clean on a rank which does not touch it in this round keeps all its fields - also when the round
   ends with sc_stats_compute1 (OPrep1 is the only thing that happens to it) *)
Lemma clean_prep_only ops : forall s, v_dirty s = 0 -> Forall (fun o => o = OPrep1) ops ->
  run_ops s ops = s /\ grun None ops = None.
Proof.
  induction ops as [|o tl IH]; intros s Hd HF; [split; reflexivity|].
  inversion HF as [|? ? Ho Ht]; subst. simpl. unfold prep1. rewrite Hd. simpl. apply IH; assumption.
Qed.
Theorem clean_untouched sts ps opss sts2 i s ops s2 :
  Forall2 Inv sts ps -> legal_all ps opss -> round_rel sts opss sts2 ->
  nth_error sts i = Some s -> nth_error ps i = Some None -> nth_error opss i = Some ops -> Forall (fun o => o = OPrep1) ops ->
  nth_error sts2 i = Some s2 -> s2 = s.
Proof.
  intros HI HL HR H1 H2 H3 HF H4.
  destruct (Forall2_nth _ _ _ HI i s H1) as [p [Hp HInv]]. rewrite H2 in Hp. injection Hp as <-. simpl in HInv.
  destruct (clean_prep_only ops s HInv HF) as [E1 E2].
  pose proof (round_rank sts ps opss sts2 i s None ops s2 HI HL HR H1 H2 H3 H4) as H. rewrite E2, E1 in H. exact H.
Qed.

(* the case a seeded defect attacked: a rank calls sc_stats_reset (after whatever else) and then contributes nothing,
   other ranks have samples: the reset rank takes part in the reduction and holds the union's statistics afterwards *)
Theorem reset_then_nothing sts ps opss sts2 i s p pre s2 :
  Forall2 Inv sts ps -> legal_all ps opss -> round_rel sts opss sts2 ->
  nth_error sts i = Some s -> nth_error ps i = Some p -> nth_error opss i = Some (pre ++ [OReset]) -> nth_error sts2 i = Some s2 ->
  union (grun_all ps opss) <> [] ->
  nth_error (grun_all ps opss) i = Some (Some []) /\ holds_union (grun_all ps opss) s2.
Proof.
  intros HI HL HR H1 H2 H3 H4 Hne.
  assert (Hg : grun p (pre ++ [OReset]) = Some []) by (unfold grun; rewrite fold_left_app; reflexivity).
  split; [unfold grun_all; rewrite nth_error_map2, H2, H3, Hg; reflexivity|].
  pose proof (round_rank sts ps opss sts2 i s p _ s2 HI HL HR H1 H2 H3 H4) as H. rewrite Hg in H.
  destruct (union (grun_all ps opss)); [congruence|exact H].
Qed.

(* a variable without any sample anywhere stays dirty with count 0 on the ranks that had it dirty *)
Theorem zero_count_stays_dirty sts ps opss sts2 i s p ops xs s2 :
  Forall2 Inv sts ps -> legal_all ps opss -> round_rel sts opss sts2 ->
  nth_error sts i = Some s -> nth_error ps i = Some p -> nth_error opss i = Some ops -> nth_error sts2 i = Some s2 ->
  grun p ops = Some xs -> union (grun_all ps opss) = [] ->
  s2 = zero_dirty /\ nth_error (ground ps opss) i = Some (Some []).
Proof.
  intros HI HL HR H1 H2 H3 H4 Hg HU.
  pose proof (round_rank sts ps opss sts2 i s p ops s2 HI HL HR H1 H2 H3 H4) as H. rewrite Hg, HU in H.
  split; [exact H|]. unfold ground, gpost. rewrite HU.
  assert (Hn : nth_error (grun_all ps opss) i = Some (Some xs)) by (unfold grun_all; rewrite nth_error_map2, H2, H3, Hg; reflexivity).
  rewrite (union_nil_contrib _ HU i xs Hn) in Hn. exact Hn.
Qed.

(* ---------- histories: any number of rounds ---------- *)
Inductive hist : list vst -> list (list (list op)) -> list vst -> Prop :=
| hist_nil s : hist s [] s
| hist_cons s opss s1 rest s2 : round_rel s opss s1 -> hist s1 rest s2 -> hist s (opss :: rest) s2.
Fixpoint ghist (ps : list (option (list Z))) (rounds : list (list (list op))) :=
  match rounds with [] => ps | o :: r => ghist (ground ps o) r end.
Fixpoint legal_hist (ps : list (option (list Z))) (rounds : list (list (list op))) : Prop :=
  match rounds with [] => True | o :: r => legal_all ps o /\ legal_hist (ground ps o) r end.

Theorem history_inv rounds : forall sts ps sts',
  Forall2 Inv sts ps -> legal_hist ps rounds -> hist sts rounds sts' -> Forall2 Inv sts' (ghist ps rounds).
Proof.
  induction rounds as [|o r IH]; intros sts ps sts' HI HL HH; inversion HH as [|? ? s1 ? ? HR HT]; subst; simpl; [exact HI|].
  destruct HL as [L1 L2]. apply (IH s1); [|exact L2|exact HT].
  destruct (round_sound sts ps o s1 HI L1 HR) as [H _]. exact H.
Qed.

Lemma hist_app a : forall s b s', hist s (a ++ b) s' -> exists m, hist s a m /\ hist m b s'.
Proof.
  induction a as [|o r IH]; intros s b s' H; simpl in H.
  - exists s. split; [constructor|exact H].
  - inversion H as [|? ? s1 ? ? HR HT]; subst. destruct (IH _ _ _ HT) as [m [Ha Hb]]. exists m. split; [econstructor; eassumption|exact Hb].
Qed.
Lemma legal_hist_app a : forall ps b, legal_hist ps (a ++ b) -> legal_hist ps a /\ legal_hist (ghist ps a) b.
Proof.
  induction a as [|o r IH]; intros ps b H; simpl in *; [split; [exact I|exact H]|].
  destruct H as [H1 H2]. destruct (IH _ _ H2) as [A B]. split; [split; assumption|exact B].
Qed.

(* after EVERY compute of EVERY history: the last round of any history starts from a state that satisfies the invariant
   with the ghost computed over the earlier rounds, so round_sound / round_rank and their corollaries apply to it *)
Theorem history_round sts ps rounds opss sts' :
  Forall2 Inv sts ps -> legal_hist ps (rounds ++ [opss]) -> hist sts (rounds ++ [opss]) sts' ->
  exists stsN, hist sts rounds stsN /\ Forall2 Inv stsN (ghist ps rounds) /\ legal_all (ghist ps rounds) opss /\
               round_rel stsN opss sts'.
Proof.
  intros HI HL HH. destruct (hist_app _ _ _ _ HH) as [m [Ha Hb]]. destruct (legal_hist_app _ _ _ HL) as [La Lb].
  exists m. split; [exact Ha|]. split; [apply (history_inv rounds sts ps m HI La Ha)|].
  simpl in Lb. destruct Lb as [Lb _]. split; [exact Lb|]. inversion Hb as [|? ? s1 ? ? HR HT]; subst. inversion HT; subst. exact HR.
Qed.

(* the executable round (left fold in rank order, every rank the same value) is one of the rounds of round_rel *)
Lemma fold_tree tl : forall t0, exists t, Permutation (leaves t) (leaves t0 ++ tl) /\
  eval t = fold_left (fun acc r => combine r acc) tl (eval t0).
Proof.
  induction tl as [|y tl IH]; intros t0; simpl.
  - exists t0. rewrite app_nil_r. split; [apply Permutation_refl|reflexivity].
  - destruct (IH (Node (Leaf y) t0)) as [t [Hp He]]. exists t. split; [|exact He].
    eapply Permutation_trans; [exact Hp|]. simpl. apply Permutation_cons_app. apply Permutation_refl.
Qed.
Lemma fold_recs_reduced x tl : reduced (x :: tl) (fold_recs (x :: tl)).
Proof.
  destruct (fold_tree tl (Leaf x)) as [t [Hp He]]. exists t. split; [exact Hp|]. simpl in *. symmetry. exact He.
Qed.
Lemma map2_const {A B C} (f : A -> B -> C) l g : map2 f l (repeat g (length l)) = map (fun s => f s g) l.
Proof. induction l as [|a t IH]; simpl; [reflexivity|rewrite IH; reflexivity]. Qed.
Theorem round_exec_is_round sts opss : sts <> [] -> length sts = length opss -> round_rel sts opss (round_exec sts opss).
Proof.
  intros Hne Hlen. unfold round_rel, round_exec.
  assert (Hl : length (run_all sts opss) = length sts) by (apply map2_length; exact Hlen).
  exists (repeat (fold_recs (packs_from 0 (run_all sts opss))) (length sts)). split; [apply repeat_length|]. split.
  - apply Forall_forall. intros g Hg. apply repeat_spec in Hg. subst g.
    destruct (run_all sts opss) as [|s1 t1] eqn:E; [destruct sts; [congruence|simpl in Hl; lia]|]. simpl packs_from.
    apply fold_recs_reduced.
  - rewrite <- Hl. symmetry. apply map2_const.
Qed.

(* ---------- the derived outputs ---------- *)
Lemma zsum_bounds U lo hi : (forall y, In y U -> lo <= y <= hi) ->
  Z.of_nat (length U) * lo <= zsum U <= Z.of_nat (length U) * hi.
Proof.
  induction U as [|x tl IH]; intros H; [simpl; lia|].
  assert (lo <= x <= hi) by (apply H; left; reflexivity).
  assert (Z.of_nat (length tl) * lo <= zsum tl <= Z.of_nat (length tl) * hi) by (apply IH; intros y Hy; apply H; right; exact Hy).
  change (length (x :: tl)) with (S (length tl)). rewrite Nat2Z.inj_succ. simpl zsum. lia.
Qed.

Theorem derived_facts s q c lo hi : 0 < c -> c * lo <= s <= c * hi ->
  let '(a, v, vm) := derived s q c in
  (inject_Z lo <= a)%Q /\ (a <= inject_Z hi)%Q /\ (a == inject_Z s / inject_Z c)%Q /\
  (0 <= v)%Q /\ ((inject_Z q / inject_Z c - a * a <= v)%Q) /\ (vm == v / inject_Z c)%Q.
Proof.
  intros Hc Hb. unfold derived.
  assert (Hcq : (0 < inject_Z c)%Q) by (unfold Qlt; simpl; lia).
  split; [apply Qle_shift_div_l; [exact Hcq|rewrite <- inject_Z_mult, <- Zle_Qle; lia]|].
  split; [apply Qle_shift_div_r; [exact Hcq|rewrite <- inject_Z_mult, <- Zle_Qle; lia]|].
  split; [reflexivity|].
  destruct (Qle_bool (inject_Z q / inject_Z c - inject_Z s / inject_Z c * (inject_Z s / inject_Z c)) q0) eqn:E.
  - apply Qle_bool_iff in E. split; [apply Qle_refl|]. split; [exact E|reflexivity].
  - split; [|split; [apply Qle_refl|reflexivity]].
    apply Qnot_lt_le. intros Hlt. apply Qlt_le_weak in Hlt. apply Qle_bool_iff in Hlt. change 0%Q with q0 in Hlt. congruence.
Qed.

(* the average lies between the extremes, the variance is not negative *)
Theorem union_derived ps s : union ps <> [] -> holds_union ps s ->
  (inject_Z (v_min s) <= v_avg s)%Q /\ (v_avg s <= inject_Z (v_max s))%Q /\
  (v_avg s == inject_Z (v_sum s) / inject_Z (v_count s))%Q /\ (0 <= v_var s)%Q /\
  (v_varm s == v_var s / inject_Z (v_count s))%Q.
Proof.
  intros Hne [_ [[C [S [_ E]]] D]]. destruct (E Hne) as [_ [M1 [_ [M2 _]]]]. unfold rec_of in *; simpl in *.
  assert (Hpos : 0 < v_count s) by (rewrite C; destruct (union ps); [congruence|simpl; lia]).
  assert (Hb : v_count s * v_min s <= v_sum s <= v_count s * v_max s).
  { rewrite C, S. apply zsum_bounds. intros y Hy. split; [apply M1|apply M2]; exact Hy. }
  pose proof (derived_facts (v_sum s) (v_sq s) (v_count s) (v_min s) (v_max s) Hpos Hb) as F.
  rewrite <- D in F. destruct F as [F1 [F2 [F3 [F4 [_ F6]]]]]. repeat split; assumption.
Qed.

(* sc_stats_compute1 (repaired, F-C13a): a clean variable is left untouched by the whole call, whatever the reduction yields *)
Theorem compute1_clean s g : v_dirty s = 0 -> prep1 s = s /\ post (prep1 s) g = s.
Proof. intros H. unfold prep1. rewrite H. simpl. split; [reflexivity|]. unfold post. rewrite H. reflexivity. Qed.
(* on a dirty variable it is what the header says: the variable contributes the single sample sum_values *)
Theorem compute1_dirty s xs : Inv s (Some xs) -> Inv (prep1 s) (Some [zsum xs]).
Proof. intros H. apply (step_inv s (Some xs) OPrep1 H). intros _. discriminate. Qed.
(* regression guard for F-C13a: the loop body as it was before the repair (prep1_old) did not test the dirty flag.
   P = 1: init; accumulate 2; accumulate 4; compute (count 2, sum_squares 20, min 2, max 4, clean); compute1 without touching the
   variable -> count 1, sum_squares 36, min 6, max 6.  The repaired body leaves the variable as it is. *)
Theorem compute1_clean_old_refuted :
  let s0 := run_ops vzero [OInit; OAcc 2; OAcc 4] in
  let s1 := post s0 (pack 0 s0) in
  let s2 := post (prep1_old s1) (pack 0 (prep1_old s1)) in
  v_dirty s1 = 0 /\ rec_of s1 = mk 2 6 20 2 4 0 0 /\ rec_of s2 = mk 1 6 36 6 6 0 0 /\ s2 <> s1 /\
  post (prep1 s1) (pack 0 (prep1 s1)) = s1.
Proof.
  cbv zeta. split; [reflexivity|]. split; [reflexivity|]. split; [reflexivity|]. split; [|reflexivity].
  intros H. apply (f_equal v_count) in H. vm_compute in H. discriminate H.
Qed.

(* ---------- the full statement over histories ---------- *)
(* For every number of ranks, every history of rounds, every choice of reduction trees in every round: after the LAST
   compute (every prefix of a history is a history, so: after every compute) a rank on which the variable is clean keeps
   what its own calls left, and every rank on which it is dirty holds the statistics of the union of the samples that
   all ranks contributed since their last init / reset / set1 (ghost `ghist`, closed form: grun_since_last_setter) -
   or stays dirty with count 0 when there is no sample at all. *)
Theorem history_union sts ps rounds opss sts' :
  Forall2 Inv sts ps -> legal_hist ps (rounds ++ [opss]) -> hist sts (rounds ++ [opss]) sts' ->
  let ps1 := grun_all (ghist ps rounds) opss in
  Forall2 Inv sts' (ghist ps (rounds ++ [opss])) /\
  exists stsN, hist sts rounds stsN /\
  forall i p1 s2, nth_error ps1 i = Some p1 -> nth_error sts' i = Some s2 ->
    match p1 with
    | None => nth_error (run_all stsN opss) i = Some s2
    | Some _ => match union ps1 with [] => s2 = zero_dirty | _ :: _ => holds_union ps1 s2 end
    end.
Proof.
  intros HI HL HH ps1. split; [apply (history_inv _ sts ps sts' HI HL HH)|].
  destruct (history_round sts ps rounds opss sts' HI HL HH) as [stsN [H1 [H2 [H3 H4]]]].
  exists stsN. split; [exact H1|]. intros i p1 s2 Hp Hs.
  destruct (round_sound stsN (ghist ps rounds) opss sts' H2 H3 H4) as [_ H].
  assert (exists s1, nth_error (run_all stsN opss) i = Some s1) as [s1 Hs1].
  { pose proof (run_all_inv _ _ H2 opss H3) as HI1. destruct (Forall2_nth_r _ _ _ HI1 i p1 Hp) as [s1 [E _]]. exists s1; exact E. }
  pose proof (H i s1 p1 s2 Hs1 Hp Hs) as HP. destruct p1; [exact HP|]. rewrite Hs1, HP. reflexivity.
Qed.
(* ---------- the clamp SC_MAX (variance, 0.) only guards against rounding ---------- *)
Definition zsumdev (x : Z) (U : list Z) : Z := fold_right (fun y a => (y - x) * (y - x) + a) 0 U.
Lemma zsumdev_expand x U : zsumdev x U = zsumsq U - 2 * x * zsum U + Z.of_nat (length U) * (x * x).
Proof.
  induction U as [|y tl IH]; [simpl; ring|].
  change (zsumdev x (y :: tl)) with ((y - x) * (y - x) + zsumdev x tl). rewrite IH.
  change (length (y :: tl)) with (S (length tl)). rewrite Nat2Z.inj_succ. simpl zsumsq. simpl zsum. ring.
Qed.
Lemma zsumdev_nonneg x U : 0 <= zsumdev x U.
Proof. induction U as [|y tl IH]; simpl; [lia|]. pose proof (Z.square_nonneg (y - x)). lia. Qed.
Theorem cauchy_schwarz U : zsum U * zsum U <= Z.of_nat (length U) * zsumsq U.
Proof.
  induction U as [|x tl IH]; [simpl; lia|].
  pose proof (zsumdev_nonneg x tl) as D. rewrite zsumdev_expand in D.
  change (length (x :: tl)) with (S (length tl)). rewrite Nat2Z.inj_succ. simpl zsumsq. simpl zsum.
  set (n := Z.of_nat (length tl)) in *. set (S := zsum tl) in *. set (Q := zsumsq tl) in *.
  assert (E : Z.succ n * (x * x + Q) - (x + S) * (x + S) = (n * Q - S * S) + (Q - 2 * x * S + n * (x * x))) by ring.
  lia.
Qed.

Theorem variance_exact s q c : 0 < c -> s * s <= c * q ->
  let '(a, v, _) := derived s q c in (v == inject_Z q / inject_Z c - a * a)%Q.
Proof.
  intros Hc Hcs. unfold derived.
  assert (Hcq : (0 < inject_Z c)%Q) by (unfold Qlt; simpl; lia).
  assert (Hne : ~ (inject_Z c == 0)%Q) by (intros E; rewrite E in Hcq; apply (Qlt_irrefl 0); exact Hcq).
  destruct (Qle_bool (inject_Z q / inject_Z c - inject_Z s / inject_Z c * (inject_Z s / inject_Z c)) q0) eqn:E; [|reflexivity].
  apply Qle_bool_iff in E. apply Qle_antisym; [|exact E].
  change q0 with 0%Q. unfold Qminus. rewrite <- Qle_minus_iff.
  apply Qle_shift_div_l; [exact Hcq|].
  setoid_replace (inject_Z s / inject_Z c * (inject_Z s / inject_Z c) * inject_Z c)%Q with (inject_Z s * inject_Z s / inject_Z c)%Q by (field; exact Hne).
  apply Qle_shift_div_r; [exact Hcq|]. rewrite <- !inject_Z_mult, <- Zle_Qle. lia.
Qed.

(* for the statistics of a union: variance = sum_squares / count - average^2 exactly (population variance) *)
Theorem union_variance_exact ps s : union ps <> [] -> holds_union ps s ->
  (v_var s == inject_Z (v_sq s) / inject_Z (v_count s) - v_avg s * v_avg s)%Q.
Proof.
  intros Hne [_ [[C [S [Q' _]]] D]]. unfold rec_of in *; simpl in *.
  assert (Hpos : 0 < v_count s) by (rewrite C; destruct (union ps); [congruence|simpl; lia]).
  assert (Hcs : v_sum s * v_sum s <= v_count s * v_sq s) by (rewrite C, S, Q'; apply cauchy_schwarz).
  pose proof (variance_exact (v_sum s) (v_sq s) (v_count s) Hpos Hcs) as F. rewrite <- D in F. exact F.
Qed.

(* a rank that has the variable dirty without any sample (init or reset only) obtains the union's numbers *)
Theorem no_sample_rank sts ps opss sts2 i s1 s2 :
  Forall2 Inv sts ps -> legal_all ps opss -> round_rel sts opss sts2 ->
  nth_error (run_all sts opss) i = Some s1 -> nth_error (grun_all ps opss) i = Some (Some []) -> nth_error sts2 i = Some s2 ->
  union (grun_all ps opss) <> [] -> holds_union (grun_all ps opss) s2.
Proof.
  intros HI HL HR H1 H2 H3 Hne. destruct (round_sound sts ps opss sts2 HI HL HR) as [_ H].
  pose proof (H i s1 (Some []) s2 H1 H2 H3) as HP. cbv beta iota in HP.
  destruct (union (grun_all ps opss)); [congruence|exact HP].
Qed.

(* ---------- variance_mean is derived from the CLAMPED variance ---------- *)
Lemma derived_varm s q c : let '(_, v, vm) := derived s q c in vm = (v / inject_Z c)%Q.
Proof. unfold derived. reflexivity. Qed.

Theorem union_variance_mean ps s : union ps <> [] -> holds_union ps s ->
  v_varm s = (v_var s / inject_Z (v_count s))%Q /\ (0 <= v_var s)%Q /\ (0 <= v_varm s)%Q.
Proof.
  intros Hne HU. destruct (union_derived ps s Hne HU) as [_ [_ [_ [Hv _]]]].
  destruct HU as [_ [[C _] D]]. unfold rec_of in C; simpl in C.
  assert (Hpos : 0 < v_count s) by (rewrite C; destruct (union ps); [congruence|simpl; lia]).
  pose proof (derived_varm (v_sum s) (v_sq s) (v_count s)) as F. rewrite <- D in F.
  split; [exact F|]. split; [exact Hv|]. rewrite F.
  apply Qle_shift_div_l; [unfold Qlt; simpl; lia|]. rewrite Qmult_0_l. exact Hv.
Qed.

(* for every history: after the last compute (hence after every compute) every rank that had the variable dirty holds
   variance >= 0 and variance_mean = variance / count >= 0, variance being the clamped value *)
Theorem history_variance_mean sts ps rounds opss sts' i xs s2 :
  Forall2 Inv sts ps -> legal_hist ps (rounds ++ [opss]) -> hist sts (rounds ++ [opss]) sts' ->
  nth_error (grun_all (ghist ps rounds) opss) i = Some (Some xs) -> nth_error sts' i = Some s2 ->
  (v_varm s2 == v_var s2 / inject_Z (v_count s2))%Q /\ (0 <= v_var s2)%Q /\ (0 <= v_varm s2)%Q.
Proof.
  intros HI HL HH Hp Hs. destruct (history_union sts ps rounds opss sts' HI HL HH) as [_ [stsN [_ H]]].
  pose proof (H i (Some xs) s2 Hp Hs) as HP. cbv beta iota in HP.
  destruct (union (grun_all (ghist ps rounds) opss)) as [|u tl] eqn:EU.
  - subst s2. simpl. split; [reflexivity|split; apply Qle_refl].
  - assert (Hne : union (grun_all (ghist ps rounds) opss) <> []) by (rewrite EU; discriminate).
    destruct (union_variance_mean _ s2 Hne HP) as [A [B C]]. rewrite A at 1. split; [reflexivity|split; assumption].
Qed.
