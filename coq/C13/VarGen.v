(* C13 - tie T1 for the per-variable state machine: every transition of C13/VarModel.v computes exactly what the
   definition GENERATED from src/sc_statistics.c (Gen/StatsVarC13.v) computes.  An edit of those source lines changes the
   generated definition and breaks one of these theorems before any input is run. *)
From Coq Require Import ZArith Lia List Bool QArith.
From ScV Require Import Base.CInt Gen.StatsVarC13 C13.StatsModel C13.VarModel.
Import ListNotations.
Local Open Scope Z_scope.

Definition nums (s : vst) := (v_dirty s, v_count s, v_sum s, v_sq s, v_min s, v_max s).

Lemma z2b_eqb x : z2b x = negb (x =? 0).  Proof. reflexivity. Qed.

(* sc_stats_set1_ext: all ten fields it writes and the call of sc_strdup *)
Theorem gen_set1_ext : forall value variable copy group prio pid dup s n,
  var_set1_ext value variable copy group prio (n_var n) (n_owned n) pid dup =
  let s' := set1 value s in let n' := name_set variable copy group prio dup n in
  (v_dirty s', v_count s', v_sum s', v_sq s', v_min s', v_max s', n_var n', n_owned n', n_group n', n_prio n',
   b2z (negb (copy =? 0)), (if copy =? 0 then 0 else pid), (if copy =? 0 then 0 else variable)).
Proof. intros. unfold var_set1_ext, name_set, z2b. destruct (copy =? 0); reflexivity. Qed.

Theorem gen_init_ext : forall variable copy group prio pid dup s n,
  var_init_ext variable copy group prio (n_var n) (n_owned n) pid dup =
  let s' := init s in let n' := name_set variable copy group prio dup n in
  (v_dirty s', v_count s', v_sum s', v_sq s', v_min s', v_max s', n_var n', n_owned n', n_group n', n_prio n',
   b2z (negb (copy =? 0)), (if copy =? 0 then 0 else pid), (if copy =? 0 then 0 else variable)).
Proof. intros. unfold var_init_ext, name_set, z2b. destruct (copy =? 0); reflexivity. Qed.

(* sc_stats_reset: marks the variable dirty and zeroes the inout fields whatever reset_vgp is *)
Theorem gen_reset : forall vgp pid s n,
  var_reset vgp (n_var n) (n_owned n) (n_group n) (n_prio n) pid group_all prio_all =
  let s' := reset s in let n' := name_reset vgp n in
  (v_dirty s', v_count s', v_sum s', v_sq s', v_min s', v_max s', n_var n', n_owned n', n_group n', n_prio n',
   b2z (name_reset_frees vgp n), (if name_reset_frees vgp n then pid else 0), (if name_reset_frees vgp n then n_owned n else 0)).
Proof.
  intros. unfold var_reset, name_reset, name_reset_frees, z2b. destruct n as [a b c d]; simpl.
  destruct (vgp =? 0); simpl; [reflexivity|]. destruct (b =? 0) eqn:E; simpl; [|reflexivity].
  apply Z.eqb_eq in E. subst b. reflexivity.
Qed.

Theorem gen_group_prio_all : sc_stats_group_all_value 0 = group_all /\ sc_stats_prio_all_value 0 = prio_all.
Proof. split; reflexivity. Qed.

(* sc_stats_set1 / sc_stats_init are the _ext versions without copy, for all groups and priorities *)
Theorem gen_short_forms : forall ga pa,
  var_set1_copy = 0 /\ var_set1_group ga = ga /\ var_set1_prio pa = pa /\
  var_init_copy = 0 /\ var_init_group ga = ga /\ var_init_prio pa = pa.
Proof. intros. repeat split. Qed.

Theorem gen_accumulate : forall value s, in_s64 (v_count s + 1) ->
  var_accumulate value (v_dirty s) (v_count s) (v_sum s) (v_sq s) (v_min s) (v_max s) = nums (accumulate value s).
Proof.
  intros value s H. unfold var_accumulate, accumulate, nums, z2b.
  destruct (v_count s =? 0); simpl; [reflexivity|]. rewrite (s64_id _ H).
  replace (if v_min s <? value then v_min s else value) with (Z.min (v_min s) value)
    by (destruct (v_min s <? value) eqn:E; lia).
  replace (if value <? v_max s then v_max s else value) with (Z.max (v_max s) value)
    by (destruct (value <? v_max s) eqn:E; lia).
  reflexivity.
Qed.

Theorem gen_compute1_prep : forall s,
  var_compute1_prep (v_dirty s) (v_count s) (v_sum s) (v_sq s) (v_min s) (v_max s) = nums (prep1 s).
Proof. intros s. unfold var_compute1_prep, prep1, nums, z2b. destruct (v_dirty s =? 0); reflexivity. Qed.

(* the packing loop of sc_stats_compute for variable i on rank `rank`: a clean variable's record is zeroed by ONE memset of
   7 * 8 bytes at element 7 * i of flatin (the seven slots keep whatever they were: the memset is the effect), a dirty
   variable's seven slots are written one by one.  In both cases the record is `pack rank s`. *)
Theorem gen_compute_pack : forall s rank flatin i f0 f1 f2 f3 f4 f5 f6, in_s32 (7 * i) ->
  var_compute_pack (v_dirty s) (v_count s) (v_sum s) (v_sq s) (v_min s) (v_max s) rank flatin i f0 f1 f2 f3 f4 f5 f6 =
  if v_dirty s =? 0 then (1, flatin + 7 * i, 0, 7 * 8, f0, f1, f2, f3, f4, f5, f6)
  else let p := pack rank s in (0, 0, 0, 0, cnt p, sm p, sq p, mn p, mx p, mnr p, mxr p).
Proof.
  intros. unfold var_compute_pack, pack, z2b. destruct (v_dirty s =? 0); cbn [negb]; [|reflexivity].
  rewrite (s32_id _ H). reflexivity.
Qed.
Theorem gen_pack_clean : forall r s, v_dirty s = 0 -> pack r s = mk 0 0 0 0 0 0 0.
Proof. intros r s H. unfold pack. rewrite H. reflexivity. Qed.

(* the four derived assignments (average, avg, variance with SC_MAX (.., 0.), variance_mean) over the rationals: variance_mean is
   the CLAMPED variance / count (`derived`; C13_variance_mean_of_clamped).  Stated before the Z slice of the same statements so
   that a change of this arithmetic is reported here first. *)
Theorem gen_derived : forall s q c,
  var_derived_q (inject_Z s) (inject_Z q) (inject_Z c) = derived s q c.
Proof.
  intros. unfold var_derived_q, derived, q0.
  destruct (Qle_bool (inject_Z q / inject_Z c - inject_Z s / inject_Z c * (inject_Z s / inject_Z c)) (inject_Z 0)); reflexivity.
Qed.

(* the post-processing loop for one variable.  The five floating outputs are shown as the generated terms over the
   function parameters fdiv / fsqrt (any functions); their arithmetic over Q is gen_derived below. *)
Definition post_codes (fdiv : Z -> Z -> Z) (fsqrt : Z -> Z) (dirty f0 f1 f2 : Z) (a v sd vm sdm : Z) : Z * Z * Z * Z * Z :=
  if dirty =? 0 then (a, v, sd, vm, sdm)
  else if f0 =? 0 then (0, 0, fsqrt 0, 0, fsqrt 0)
  else let avg := fdiv f1 f0 in
       let v0 := fdiv f2 f0 - avg * avg in
       let v1 := if 0 <? v0 then v0 else 0 in
       (avg, v1, fsqrt v1, fdiv v1 f0, fsqrt (fdiv v1 f0)).

Theorem gen_compute_post : forall fdiv fsqrt s g a v sd vm sdm,
  in_s64 (cnt g) -> in_s32 (mnr g) -> in_s32 (mxr g) ->
  var_compute_post fdiv fsqrt (v_dirty s) (v_count s) (v_sum s) (v_sq s) (v_min s) (v_max s) (v_minr s) (v_maxr s) a v sd vm sdm
                   (cnt g) (sm g) (sq g) (mn g) (mx g) (mnr g) (mxr g) =
  let s' := post s g in
  let '(a', v', sd', vm', sdm') := post_codes fdiv fsqrt (v_dirty s) (cnt g) (sm g) (sq g) a v sd vm sdm in
  (v_dirty s', v_count s', v_sum s', v_sq s', v_min s', v_max s', v_minr s', v_maxr s', a', v', sd', vm', sdm').
Proof.
  intros fdiv fsqrt s g a v sd vm sdm H0 H5 H6. unfold var_compute_post, post, post_codes, z2b.
  destruct (v_dirty s =? 0); cbn [negb]; [reflexivity|].
  rewrite (s64_id _ H0), (s32_id _ H5), (s32_id _ H6).
  destruct (cnt g =? 0) eqn:E; cbn [negb].
  - apply Z.eqb_eq in E. rewrite E. reflexivity.
  - destruct (derived (sm g) (sq g) (cnt g)) as [[x y] z]. reflexivity.
Qed.

(* the record stride: room for 2 * nvars records of 7 doubles, flatout = record nvars of that room, the MPI datatype
   is 7 doubles, the operation is declared commutative, one record per variable is reduced; without MPI flatout is a
   copy of all nvars records *)
Theorem gen_stride : forall flat nvars, 0 <= nvars -> in_s32 (14 * nvars) ->
  compute_alloc_bytes nvars = 2 * (nvars * (7 * 8)) /\
  compute_flatin flat = flat /\ compute_flatout flat nvars = flat + 7 * nvars /\
  compute_type_count = 7 /\ compute_op_commute = 1 /\ compute_allreduce_count nvars = nvars /\
  compute_nompi_copy_bytes nvars = nvars * (7 * 8).
Proof.
  intros flat nvars H0 H. unfold compute_alloc_bytes, compute_flatin, compute_flatout, compute_type_count, compute_op_commute,
    compute_allreduce_count, compute_nompi_copy_bytes.
  unfold in_s32 in H. change (M32 / 2) with 2147483648 in H.
  assert (in_s32 (7 * nvars)) by (unfold in_s32; change (M32 / 2) with 2147483648; lia).
  change (s32 (2 * 7)) with 14. rewrite (s32_id (14 * nvars)) by (unfold in_s32; change (M32 / 2) with 2147483648; lia).
  rewrite (s32_id (7 * nvars)) by assumption.
  rewrite (u64_id (14 * nvars)) by (change M64 with 18446744073709551616; lia).
  rewrite (u64_id (7 * nvars)) by (change M64 with 18446744073709551616; lia).
  rewrite !u64_id by (change M64 with 18446744073709551616; lia).
  repeat split; lia.
Qed.
