(* C13 - the per-variable object sc_statinfo_t and its protocol: executable state machine of ONE variable on one
   rank over sc_stats_init[_ext] / sc_stats_set1[_ext] / sc_stats_reset / sc_stats_accumulate / sc_stats_compute /
   sc_stats_compute1, and the collective round of P ranks.  Definitions only; C13/VarGen.v proves every transition
   equal to the definition GENERATED from src/sc_statistics.c (Gen/StatsVarC13.v), C13/VarProofs.v the theorems.

   Numbers: samples, sums, minima and maxima are exact integers (Z), the derived outputs average / variance /
   variance_mean exact rationals (Q).  The rounding of binary64 and the two square roots (standev, standev_mean)
   are NOT in the model: they are judged by the Python oracle of checks/C13.py on the real library's output. *)
From Coq Require Import ZArith List Bool QArith.
From ScV Require Import Base.CInt C13.StatsModel.
Import ListNotations.
Local Open Scope Z_scope.

(* the numeric part of sc_statinfo_t: dirty, count, sum_values, sum_squares, min, max (inout);
   min_at_rank, max_at_rank, average, variance, variance_mean (out) *)
Record vst := mkv { v_dirty : Z; v_count : Z; v_sum : Z; v_sq : Z; v_min : Z; v_max : Z;
                    v_minr : Z; v_maxr : Z; v_avg : Q; v_var : Q; v_varm : Q }.

(* the naming part: variable, variable_owned (pointers as integers, 0 = NULL), group, prio *)
Record vname := mkn { n_var : Z; n_owned : Z; n_group : Z; n_prio : Z }.

Definition group_all : Z := -2.
Definition prio_all : Z := -3.

(* ---- the calls on one variable.  "we leave output variables undefined": the code does not write them *)
Definition set1 (v : Z) (s : vst) : vst :=
  mkv 1 1 v (v * v) v v (v_minr s) (v_maxr s) (v_avg s) (v_var s) (v_varm s).
Definition init (s : vst) : vst :=
  mkv 1 0 0 0 0 0 (v_minr s) (v_maxr s) (v_avg s) (v_var s) (v_varm s).
Definition reset (s : vst) : vst := init s.       (* sc_stats_reset writes the same numeric fields as sc_stats_init *)
Definition accumulate (v : Z) (s : vst) : vst :=
  if v_count s =? 0
  then mkv (v_dirty s) 1 v (v * v) v v (v_minr s) (v_maxr s) (v_avg s) (v_var s) (v_varm s)
  else mkv (v_dirty s) (v_count s + 1) (v_sum s + v) (v_sq s + v * v) (Z.min (v_min s) v) (Z.max (v_max s) v)
           (v_minr s) (v_maxr s) (v_avg s) (v_var s) (v_varm s).
(* the loop body of sc_stats_compute1 (since repair F-C13a): a clean variable is skipped, a dirty one becomes the single sample sum_values *)
Definition prep1 (s : vst) : vst :=
  if v_dirty s =? 0 then s
  else mkv (v_dirty s) 1 (v_sum s) (v_sum s * v_sum s) (v_sum s) (v_sum s) (v_minr s) (v_maxr s) (v_avg s) (v_var s) (v_varm s).
(* regression guard: the loop body as it was BEFORE the repair - it did not look at the dirty flag *)
Definition prep1_old (s : vst) : vst :=
  mkv (v_dirty s) 1 (v_sum s) (v_sum s * v_sum s) (v_sum s) (v_sum s) (v_minr s) (v_maxr s) (v_avg s) (v_var s) (v_varm s).

(* naming part.  dup = what sc_strdup returns when a copy is requested *)
Definition name_set (variable copy group prio dup : Z) (n : vname) : vname :=
  if copy =? 0 then mkn variable 0 group prio else mkn dup dup group prio.
Definition name_reset (vgp : Z) (n : vname) : vname :=
  if vgp =? 0 then n else mkn 0 0 group_all prio_all.
(* sc_free is called by sc_stats_reset exactly when *)
Definition name_reset_frees (vgp : Z) (n : vname) : bool := negb (vgp =? 0) && negb (n_owned n =? 0).

(* ---- sc_stats_compute for one variable on rank r *)
Definition pack (r : Z) (s : vst) : srec :=
  if v_dirty s =? 0 then clean_rec else mk (v_count s) (v_sum s) (v_sq s) (v_min s) (v_max s) r r.

Definition q0 : Q := inject_Z 0.
Definition derived (s q c : Z) : Q * Q * Q :=
  let a := (inject_Z s / inject_Z c)%Q in
  let v := (inject_Z q / inject_Z c - a * a)%Q in
  let v' := if Qle_bool v q0 then q0 else v in
  (a, v', (v' / inject_Z c)%Q).

Definition post (s : vst) (g : srec) : vst :=
  if v_dirty s =? 0 then s
  else if cnt g =? 0
       then mkv (v_dirty s) 0 (v_sum s) (v_sq s) (v_min s) (v_max s) 0 0 q0 q0 q0
       else let '(a, v, vm) := derived (sm g) (sq g) (cnt g) in
            mkv 0 (cnt g) (sm g) (sq g) (mn g) (mx g) (mnr g) (mxr g) a v vm.

(* ---- histories of one rank *)
Inductive op := OInit | OReset | OSet1 (v : Z) | OAcc (v : Z) | OPrep1.
Definition step (s : vst) (o : op) : vst :=
  match o with
  | OInit => init s | OReset => reset s | OSet1 v => set1 v s | OAcc v => accumulate v s | OPrep1 => prep1 s
  end.
Definition run_ops (s : vst) (ops : list op) : vst := fold_left step ops s.

(* ---- the collective round of P ranks (position in the list = rank) *)
Fixpoint map2 {A B C : Type} (f : A -> B -> C) (l1 : list A) (l2 : list B) : list C :=
  match l1, l2 with a :: t1, b :: t2 => f a b :: map2 f t1 t2 | _, _ => [] end.
Fixpoint packs_from (r : Z) (sts : list vst) : list srec :=
  match sts with [] => [] | s :: tl => pack r s :: packs_from (r + 1) tl end.
Definition run_all (sts : list vst) (opss : list (list op)) : list vst := map2 run_ops sts opss.

(* one particular reduction: left fold in rank order, the accumulated value being the inout operand *)
Definition fold_recs (recs : list srec) : srec :=
  match recs with [] => clean_rec | x :: tl => fold_left (fun acc r => combine r acc) tl x end.
Definition round_exec (sts : list vst) (opss : list (list op)) : list vst :=
  let sts1 := run_all sts opss in
  let g := fold_recs (packs_from 0 sts1) in
  map (fun s => post s g) sts1.
Fixpoint hist_exec (sts : list vst) (rounds : list (list (list op))) : list (list vst) :=
  match rounds with
  | [] => []
  | opss :: rest => let s1 := round_exec sts opss in s1 :: hist_exec s1 rest
  end.

Definition vzero : vst := mkv 0 0 0 0 0 0 0 0 q0 q0 q0.     (* a zeroed structure (memset 0): clean *)
