(* C13 - the statistics reduction computes the statistics of the union of all samples for EVERY
   reduction tree over EVERY arrangement of the operands. *)
From Coq Require Import ZArith Lia List Bool ZifyBool Permutation.
From ScV Require Import Base.CInt Gen.StatsC13 C13.StatsModel.
Import ListNotations.
Local Open Scope Z_scope.

Definition sumof (f : srec -> Z) (l : list srec) : Z := fold_right (fun x a => f x + a) 0 l.

Lemma sumof_app f l1 l2 : sumof f (l1 ++ l2) = sumof f l1 + sumof f l2.
Proof. induction l1 as [|x l IH]; simpl; [reflexivity|rewrite IH; lia]. Qed.

Lemma sumof_perm f l1 l2 : Permutation l1 l2 -> sumof f l1 = sumof f l2.
Proof. induction 1; simpl; lia. Qed.

(* an operand is well formed if its count is non-negative and empty operands carry zero sums
   (true of everything sc_stats_compute packs: `local` and `clean_rec`) *)
Definition wf (x : srec) : Prop := 0 <= cnt x /\ (cnt x = 0 -> sm x = 0 /\ sq x = 0).

Lemma sumof_nonneg l : Forall wf l -> 0 <= sumof cnt l.
Proof. induction 1 as [|x l [H _] _ IH]; simpl; lia. Qed.

Lemma sumof_zero l x : Forall wf l -> sumof cnt l = 0 -> In x l -> cnt x = 0.
Proof.
  induction 1 as [|y l [Hy _] Hl IH]; simpl; intros Hs Hin; [contradiction|].
  pose proof (sumof_nonneg l Hl). destruct Hin as [->|Hin]; [lia|apply IH; [lia|exact Hin]].
Qed.

(* the specification, stated relationally so that it does not depend on any order *)
Definition min_spec (l : list srec) (r : srec) : Prop :=
  (exists x, In x l /\ 0 < cnt x /\ mn x = mn r /\ mnr x = mnr r) /\
  (forall x, In x l -> 0 < cnt x -> mn r <= mn x /\ (mn x = mn r -> mnr r <= mnr x)).
Definition max_spec (l : list srec) (r : srec) : Prop :=
  (exists x, In x l /\ 0 < cnt x /\ mx x = mx r /\ mxr x = mxr r) /\
  (forall x, In x l -> 0 < cnt x -> mx x <= mx r /\ (mx x = mx r -> mxr r <= mxr x)).
Definition good (l : list srec) (r : srec) : Prop :=
  cnt r = sumof cnt l /\ sm r = sumof sm l /\ sq r = sumof sq l /\
  (0 < cnt r -> min_spec l r /\ max_spec l r).

Lemma good_wf l r : Forall wf l -> good l r -> wf r.
Proof.
  intros Hl [Hc [Hs [Hq _]]]. split; [rewrite Hc; apply sumof_nonneg; exact Hl|].
  intros H0. rewrite Hc in H0. rewrite Hs, Hq. clear Hc Hs Hq.
  induction Hl as [|x l [Hx Hx0] Hl IH]; simpl in *; [split; reflexivity|].
  pose proof (sumof_nonneg l Hl). assert (cnt x = 0) by lia. assert (sumof cnt l = 0) by lia.
  destruct (Hx0 H1) as [-> ->]. destruct (IH H2) as [-> ->]. split; reflexivity.
Qed.

Lemma leaf_good x : wf x -> good [x] x.
Proof.
  intros [Hx Hx0]. unfold good, sumof; simpl. repeat split; try lia.
  - exists x. simpl. repeat split; try lia. left; reflexivity.
  - destruct H0 as [->|[]]. lia.
  - destruct H0 as [->|[]]. lia.
  - exists x. simpl. repeat split; try lia. left; reflexivity.
  - destruct H0 as [->|[]]. lia.
  - destruct H0 as [->|[]]. lia.
Qed.

Lemma min_spec_left l1 l2 a r : (forall x, In x l2 -> cnt x = 0) -> mn r = mn a -> mnr r = mnr a ->
  min_spec l1 a -> min_spec (l1 ++ l2) r.
Proof.
  intros H2 Hm Hr [[x [Hin [Hc [Hxm Hxr]]]] Hall]. split.
  - exists x. rewrite Hm, Hr. repeat split; try assumption. apply in_or_app; left; exact Hin.
  - intros y Hy Hcy. apply in_app_or in Hy. destruct Hy as [Hy|Hy].
    + rewrite Hm, Hr. apply Hall; assumption.
    + specialize (H2 y Hy). lia.
Qed.

Lemma min_spec_right l1 l2 b r : (forall x, In x l1 -> cnt x = 0) -> mn r = mn b -> mnr r = mnr b ->
  min_spec l2 b -> min_spec (l1 ++ l2) r.
Proof.
  intros H1 Hm Hr [[x [Hin [Hc [Hxm Hxr]]]] Hall]. split.
  - exists x. rewrite Hm, Hr. repeat split; try assumption. apply in_or_app; right; exact Hin.
  - intros y Hy Hcy. apply in_app_or in Hy. destruct Hy as [Hy|Hy].
    + specialize (H1 y Hy). lia.
    + rewrite Hm, Hr. apply Hall; assumption.
Qed.

Lemma max_spec_left l1 l2 a r : (forall x, In x l2 -> cnt x = 0) -> mx r = mx a -> mxr r = mxr a ->
  max_spec l1 a -> max_spec (l1 ++ l2) r.
Proof.
  intros H2 Hm Hr [[x [Hin [Hc [Hxm Hxr]]]] Hall]. split.
  - exists x. rewrite Hm, Hr. repeat split; try assumption. apply in_or_app; left; exact Hin.
  - intros y Hy Hcy. apply in_app_or in Hy. destruct Hy as [Hy|Hy].
    + rewrite Hm, Hr. apply Hall; assumption.
    + specialize (H2 y Hy). lia.
Qed.

Lemma max_spec_right l1 l2 b r : (forall x, In x l1 -> cnt x = 0) -> mx r = mx b -> mxr r = mxr b ->
  max_spec l2 b -> max_spec (l1 ++ l2) r.
Proof.
  intros H1 Hm Hr [[x [Hin [Hc [Hxm Hxr]]]] Hall]. split.
  - exists x. rewrite Hm, Hr. repeat split; try assumption. apply in_or_app; right; exact Hin.
  - intros y Hy Hcy. apply in_app_or in Hy. destruct Hy as [Hy|Hy].
    + specialize (H1 y Hy). lia.
    + rewrite Hm, Hr. apply Hall; assumption.
Qed.

(* both operands contribute: the generated comparison chain picks the smaller minimum and, on a tie, the lower rank *)
Lemma min_spec_both l1 l2 a b r :
  min_spec l1 a -> min_spec l2 b ->
  (mn a < mn b -> mn r = mn a /\ mnr r = mnr a) ->
  (mn a = mn b -> mn r = mn b /\ mnr r = Z.min (mnr a) (mnr b)) ->
  (mn b < mn a -> mn r = mn b /\ mnr r = mnr b) ->
  min_spec (l1 ++ l2) r.
Proof.
  intros [[xa [Hina [Hca [Hxam Hxar]]]] Halla] [[xb [Hinb [Hcb [Hxbm Hxbr]]]] Hallb] Hlt Heq Hgt.
  destruct (Z.lt_trichotomy (mn a) (mn b)) as [H|[H|H]].
  - destruct (Hlt H) as [Hm Hr]. split.
    + exists xa. repeat split; try lia. apply in_or_app; left; exact Hina.
    + intros y Hy Hcy. apply in_app_or in Hy. destruct Hy as [Hy|Hy].
      * destruct (Halla y Hy Hcy). lia.
      * destruct (Hallb y Hy Hcy). lia.
  - destruct (Heq H) as [Hm Hr]. split.
    + destruct (Z.le_ge_cases (mnr a) (mnr b)).
      * exists xa. repeat split; try lia. apply in_or_app; left; exact Hina.
      * exists xb. repeat split; try lia. apply in_or_app; right; exact Hinb.
    + intros y Hy Hcy. apply in_app_or in Hy. destruct Hy as [Hy|Hy].
      * destruct (Halla y Hy Hcy). lia.
      * destruct (Hallb y Hy Hcy). lia.
  - destruct (Hgt H) as [Hm Hr]. split.
    + exists xb. repeat split; try lia. apply in_or_app; right; exact Hinb.
    + intros y Hy Hcy. apply in_app_or in Hy. destruct Hy as [Hy|Hy].
      * destruct (Halla y Hy Hcy). lia.
      * destruct (Hallb y Hy Hcy). lia.
Qed.

Lemma max_spec_both l1 l2 a b r :
  max_spec l1 a -> max_spec l2 b ->
  (mx b < mx a -> mx r = mx a /\ mxr r = mxr a) ->
  (mx a = mx b -> mx r = mx b /\ mxr r = Z.min (mxr a) (mxr b)) ->
  (mx a < mx b -> mx r = mx b /\ mxr r = mxr b) ->
  max_spec (l1 ++ l2) r.
Proof.
  intros [[xa [Hina [Hca [Hxam Hxar]]]] Halla] [[xb [Hinb [Hcb [Hxbm Hxbr]]]] Hallb] Hlt Heq Hgt.
  destruct (Z.lt_trichotomy (mx a) (mx b)) as [H|[H|H]].
  - destruct (Hgt H) as [Hm Hr]. split.
    + exists xb. repeat split; try lia. apply in_or_app; right; exact Hinb.
    + intros y Hy Hcy. apply in_app_or in Hy. destruct Hy as [Hy|Hy].
      * destruct (Halla y Hy Hcy). lia.
      * destruct (Hallb y Hy Hcy). lia.
  - destruct (Heq H) as [Hm Hr]. split.
    + destruct (Z.le_ge_cases (mxr a) (mxr b)).
      * exists xa. repeat split; try lia. apply in_or_app; left; exact Hina.
      * exists xb. repeat split; try lia. apply in_or_app; right; exact Hinb.
    + intros y Hy Hcy. apply in_app_or in Hy. destruct Hy as [Hy|Hy].
      * destruct (Halla y Hy Hcy). lia.
      * destruct (Hallb y Hy Hcy). lia.
  - destruct (Hlt H) as [Hm Hr]. split.
    + exists xa. repeat split; try lia. apply in_or_app; left; exact Hina.
    + intros y Hy Hcy. apply in_app_or in Hy. destruct Hy as [Hy|Hy].
      * destruct (Halla y Hy Hcy). lia.
      * destruct (Hallb y Hy Hcy). lia.
Qed.

(* characterisation of the GENERATED combination, one lemma per case of the counts *)
Lemma combine_cnt a b : cnt (combine a b) = cnt a + cnt b.
Proof.
  unfold combine, sc_stats_mpifunc_body, z2b.
  destruct (cnt b =? 0); destruct (cnt a =? 0); simpl;
  repeat (match goal with |- context [if ?c then _ else _] => destruct c end); simpl; lia.
Qed.

Lemma combine_in_empty a b : cnt a = 0 -> cnt b <> 0 ->
  combine a b = mk (cnt b) (sm b) (sq b) (mn b) (mx b) (mnr b) (mxr b).
Proof.
  intros Ha Hb. unfold combine, sc_stats_mpifunc_body, z2b.
  destruct (cnt b =? 0) eqn:Eb; [lia|]. destruct (cnt a =? 0) eqn:Ea; [|lia]. simpl. rewrite Ha. f_equal; lia.
Qed.

Lemma combine_both_empty a b : cnt a = 0 -> cnt b = 0 -> cnt (combine a b) = 0 /\ sm (combine a b) = sm b /\ sq (combine a b) = sq b.
Proof.
  intros Ha Hb. unfold combine, sc_stats_mpifunc_body, z2b.
  destruct (cnt b =? 0) eqn:Eb; [|lia]. destruct (cnt a =? 0) eqn:Ea; [|lia]. simpl. repeat split; lia.
Qed.

Lemma combine_inout_empty a b : cnt a <> 0 -> cnt b = 0 ->
  combine a b = mk (cnt a) (sm b + sm a) (sq b + sq a) (mn a) (mx a) (mnr a) (mxr a).
Proof.
  intros Ha Hb. unfold combine, sc_stats_mpifunc_body, z2b.
  destruct (cnt b =? 0) eqn:Eb; [|lia]. destruct (cnt a =? 0) eqn:Ea; [lia|]. simpl.
  rewrite !Z.ltb_irrefl, !Z.eqb_refl. simpl. rewrite ?Z.ltb_irrefl, ?Z.eqb_refl. simpl. f_equal; lia.
Qed.

Lemma combine_both a b : cnt a <> 0 -> cnt b <> 0 ->
  let r := combine a b in
  cnt r = cnt b + cnt a /\ sm r = sm b + sm a /\ sq r = sq b + sq a /\
  (mn a < mn b -> mn r = mn a /\ mnr r = mnr a) /\
  (mn a = mn b -> mn r = mn b /\ mnr r = Z.min (mnr a) (mnr b)) /\
  (mn b < mn a -> mn r = mn b /\ mnr r = mnr b) /\
  (mx b < mx a -> mx r = mx a /\ mxr r = mxr a) /\
  (mx a = mx b -> mx r = mx b /\ mxr r = Z.min (mxr a) (mxr b)) /\
  (mx a < mx b -> mx r = mx b /\ mxr r = mxr b).
Proof.
  intros Ha Hb r. subst r. unfold combine, sc_stats_mpifunc_body, z2b.
  destruct (cnt b =? 0) eqn:Eb; [lia|]. destruct (cnt a =? 0) eqn:Ea; [lia|]. simpl.
  destruct (mn a <? mn b) eqn:E1; destruct (mn a =? mn b) eqn:E2; destruct (mnr a <? mnr b) eqn:E3;
  destruct (mx b <? mx a) eqn:E4; destruct (mx a =? mx b) eqn:E5; destruct (mxr a <? mxr b) eqn:E6;
  simpl; repeat split; intros; try lia.
Qed.

Theorem combine_good l1 l2 a b : Forall wf l1 -> Forall wf l2 -> good l1 a -> good l2 b ->
  good (l1 ++ l2) (combine a b).
Proof.
  intros Hw1 Hw2 Ha Hb.
  pose proof (good_wf l1 a Hw1 Ha) as [Hca Hza]. pose proof (good_wf l2 b Hw2 Hb) as [Hcb Hzb].
  destruct Ha as [Hac [Has [Haq Hae]]]. destruct Hb as [Hbc [Hbs [Hbq Hbe]]].
  unfold good. rewrite !sumof_app, <- Hac, <- Has, <- Haq, <- Hbc, <- Hbs, <- Hbq.
  destruct (Z.eq_dec (cnt a) 0) as [Ea|Ea]; destruct (Z.eq_dec (cnt b) 0) as [Eb|Eb].
  - destruct (combine_both_empty a b Ea Eb) as [H1 [H2 H3]]. destruct (Hza Ea) as [Hs Hq].
    rewrite H1, H2, H3, Hs, Hq, Ea, Eb. split; [lia|split; [lia|split; [lia|]]]. intros Hpos. lia.
  - rewrite (combine_in_empty a b Ea Eb). simpl. destruct (Hza Ea) as [Hs Hq]. rewrite Hs, Hq, Ea.
    split; [lia|split; [lia|split; [lia|]]]. intros Hpos. split.
    + apply min_spec_right with b; try reflexivity; [|apply Hbe; lia].
      intros x Hx. apply (sumof_zero l1 x Hw1); [lia|exact Hx].
    + apply max_spec_right with b; try reflexivity; [|apply Hbe; lia].
      intros x Hx. apply (sumof_zero l1 x Hw1); [lia|exact Hx].
  - rewrite (combine_inout_empty a b Ea Eb). simpl. destruct (Hzb Eb) as [Hs Hq]. rewrite Hs, Hq, Eb.
    split; [lia|split; [lia|split; [lia|]]]. intros Hpos. split.
    + apply min_spec_left with a; try reflexivity; [|apply Hae; lia].
      intros x Hx. apply (sumof_zero l2 x Hw2); [lia|exact Hx].
    + apply max_spec_left with a; try reflexivity; [|apply Hae; lia].
      intros x Hx. apply (sumof_zero l2 x Hw2); [lia|exact Hx].
  - destruct (combine_both a b Ea Eb) as [H1 [H2 [H3 [M1 [M2 [M3 [X1 [X2 X3]]]]]]]].
    rewrite H1, H2, H3. split; [lia|split; [lia|split; [lia|]]]. intros Hpos. split.
    + apply min_spec_both with a b; try assumption; [apply Hae; lia|apply Hbe; lia].
    + apply max_spec_both with a b; try assumption; [apply Hae; lia|apply Hbe; lia].
Qed.

(* every tree over every arrangement of the operands *)
Theorem eval_good t : Forall wf (leaves t) -> good (leaves t) (eval t).
Proof.
  induction t as [x|a IHa b IHb]; simpl; intros Hw.
  - apply leaf_good. inversion Hw; assumption.
  - apply Forall_app in Hw. destruct Hw as [Hwa Hwb]. apply combine_good; auto.
Qed.

Lemma good_perm l1 l2 r : Permutation l1 l2 -> good l1 r -> good l2 r.
Proof.
  intros Hp [Hc [Hs [Hq He]]]. unfold good.
  rewrite <- (sumof_perm cnt l1 l2 Hp), <- (sumof_perm sm l1 l2 Hp), <- (sumof_perm sq l1 l2 Hp).
  split; [exact Hc|split; [exact Hs|split; [exact Hq|]]]. intros Hpos.
  destruct (He Hpos) as [[[x [Hin Hx]] Hall] [[y [Hjn Hy]] Hall']].
  split; split.
  - exists x. split; [apply (Permutation_in _ Hp Hin)|exact Hx].
  - intros z Hz Hcz. apply Hall; [apply (Permutation_in _ (Permutation_sym Hp) Hz)|assumption].
  - exists y. split; [apply (Permutation_in _ Hp Hjn)|exact Hy].
  - intros z Hz Hcz. apply Hall'; [apply (Permutation_in _ (Permutation_sym Hp) Hz)|assumption].
Qed.

(* the specification determines the result: any two trees over the same operands agree on everything
   the statistics report (count, sums and, when there are samples, the extremes and their ranks) *)
Theorem good_unique l r1 r2 : good l r1 -> good l r2 ->
  cnt r1 = cnt r2 /\ sm r1 = sm r2 /\ sq r1 = sq r2 /\
  (0 < cnt r1 -> mn r1 = mn r2 /\ mx r1 = mx r2 /\ mnr r1 = mnr r2 /\ mxr r1 = mxr r2).
Proof.
  intros [C1 [S1 [Q1 E1]]] [C2 [S2 [Q2 E2]]]. split; [lia|split; [lia|split; [lia|]]]. intros Hpos.
  destruct (E1 Hpos) as [[[x1 [I1 [P1 [A1 B1]]]] L1] [[y1 [J1 [R1 [F1 G1]]]] U1]].
  destruct (E2 ltac:(lia)) as [[[x2 [I2 [P2 [A2 B2]]]] L2] [[y2 [J2 [R2 [F2 G2]]]] U2]].
  pose proof (L1 x2 I2 P2) as [? ?]; pose proof (L2 x1 I1 P1) as [? ?].
  pose proof (U1 y2 J2 R2) as [? ?]; pose proof (U2 y1 J1 R1) as [? ?].
  lia.
Qed.

(* local records are well formed and describe their samples *)
Lemma local_wf r xs : wf (local r xs).
Proof.
  destruct xs as [|x tl]; unfold wf; simpl; [split; [lia|intros; split; reflexivity]|].
  split; [lia|]. intros H. lia.
Qed.

Lemma clean_wf : wf clean_rec.
Proof. unfold wf; simpl. split; [lia|intros; split; reflexivity]. Qed.

Lemma list_min_spec d xs : (list_min d xs <= d /\ forall x, In x xs -> list_min d xs <= x) /\ (list_min d xs = d \/ In (list_min d xs) xs).
Proof.
  unfold list_min. revert d. induction xs as [|y tl IH]; intros d; simpl.
  - split; [split; [lia|intros x []]|left; reflexivity].
  - destruct (IH (Z.min d y)) as [[H1 H2] H3]. split; [split|].
    + lia.
    + intros x [->|Hx]; [lia|apply H2; exact Hx].
    + destruct H3 as [H3|H3]; [|right; right; exact H3].
      destruct (Z.min_spec d y) as [[? Hm]|[? Hm]]; [left; rewrite H3; exact Hm|right; left; rewrite H3; symmetry; exact Hm].
Qed.

Lemma list_max_spec d xs : (d <= list_max d xs /\ forall x, In x xs -> x <= list_max d xs) /\ (list_max d xs = d \/ In (list_max d xs) xs).
Proof.
  unfold list_max. revert d. induction xs as [|y tl IH]; intros d; simpl.
  - split; [split; [lia|intros x []]|left; reflexivity].
  - destruct (IH (Z.max d y)) as [[H1 H2] H3]. split; [split|].
    + lia.
    + intros x [->|Hx]; [lia|apply H2; exact Hx].
    + destruct H3 as [H3|H3]; [|right; right; exact H3].
      destruct (Z.max_spec d y) as [[? Hm]|[? Hm]]; [right; left; rewrite H3; symmetry; exact Hm|left; rewrite H3; exact Hm].
Qed.

Lemma local_extremes r x tl :
  let s := local r (x :: tl) in
  In (mn s) (x :: tl) /\ In (mx s) (x :: tl) /\ (forall y, In y (x :: tl) -> mn s <= y <= mx s) /\
  cnt s = Z.of_nat (length (x :: tl)) /\ mnr s = r /\ mxr s = r.
Proof.
  simpl. destruct (list_min_spec x tl) as [[A1 A2] A3]. destruct (list_max_spec x tl) as [[B1 B2] B3].
  repeat split; try reflexivity.
  - destruct A3 as [->|A3]; [left; reflexivity|right; exact A3].
  - destruct B3 as [->|B3]; [left; reflexivity|right; exact B3].
  - destruct H as [<-|H]; [exact A1|apply A2; exact H].
  - destruct H as [<-|H]; [exact B1|apply B2; exact H].
Qed.

(* operands without samples are neutral in both operand positions *)
Lemma srec_eta r : mk (cnt r) (sm r) (sq r) (mn r) (mx r) (mnr r) (mxr r) = r.
Proof. destruct r; reflexivity. Qed.

Theorem empty_neutral_in x b : wf x -> cnt x = 0 -> cnt b <> 0 -> combine x b = b.
Proof. intros _ Hx Hb. rewrite (combine_in_empty x b Hx Hb). apply srec_eta. Qed.

Theorem empty_neutral_inout a x : wf x -> cnt x = 0 -> cnt a <> 0 -> combine a x = a.
Proof.
  intros [_ Hz] Hx Ha. rewrite (combine_inout_empty a x Ha Hx). destruct (Hz Hx) as [-> ->].
  simpl. apply srec_eta.
Qed.

Theorem any_arrangement t l : Forall wf l -> Permutation (leaves t) l -> good l (eval t).
Proof.
  intros Hw Hp. apply good_perm with (leaves t); [exact Hp|]. apply eval_good.
  apply Forall_forall. intros x Hx. rewrite Forall_forall in Hw. apply Hw. apply (Permutation_in _ Hp Hx).
Qed.

Theorem all_trees_agree t1 t2 : Forall wf (leaves t1) -> Permutation (leaves t1) (leaves t2) ->
  cnt (eval t1) = cnt (eval t2) /\ sm (eval t1) = sm (eval t2) /\ sq (eval t1) = sq (eval t2) /\
  (0 < cnt (eval t1) -> mn (eval t1) = mn (eval t2) /\ mx (eval t1) = mx (eval t2) /\
                        mnr (eval t1) = mnr (eval t2) /\ mxr (eval t1) = mxr (eval t2)).
Proof.
  intros Hw Hp. apply good_unique with (leaves t1); [apply eval_good; exact Hw|].
  apply any_arrangement; [exact Hw|apply Permutation_sym; exact Hp].
Qed.
