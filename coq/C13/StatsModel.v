(* C13 - statistics reduction: executable model around the GENERATED record combination
   (Gen/StatsC13.v is the body of sc_stats_mpifunc's loop, regenerated from /repo). *)
From Coq Require Import ZArith List Bool.
From ScV Require Import Base.CInt Gen.StatsC13.
Import ListNotations.
Local Open Scope Z_scope.

(* the 7-slot record: count, sum, sum of squares, min, max, rank of min, rank of max *)
Record srec := mk { cnt : Z; sm : Z; sq : Z; mn : Z; mx : Z; mnr : Z; mxr : Z }.

Definition of_tuple (t : Z * Z * Z * Z * Z * Z * Z) : srec :=
  let '(a, b, c, d, e, f, g) := t in mk a b c d e f g.

(* MPI user function: inout := in (op) inout *)
Definition combine (i o : srec) : srec :=
  of_tuple (sc_stats_mpifunc_body (cnt i) (sm i) (sq i) (mn i) (mx i) (mnr i) (mxr i)
                                  (cnt o) (sm o) (sq o) (mn o) (mx o) (mnr o) (mxr o)).

(* what sc_stats_compute packs for a dirty variable on rank r holding the samples xs
   (accumulate/init/set1 keep count, sum, sum of squares, min, max; 0 placeholders when empty) *)
Definition list_min (d : Z) (xs : list Z) : Z := fold_left Z.min xs d.
Definition list_max (d : Z) (xs : list Z) : Z := fold_left Z.max xs d.
Definition local (r : Z) (xs : list Z) : srec :=
  match xs with
  | [] => mk 0 0 0 0 0 r r
  | x :: tl => mk (Z.of_nat (length xs)) (fold_left Z.add xs 0) (fold_left Z.add (map (fun v => v * v) xs) 0)
                  (list_min x tl) (list_max x tl) r r
  end.
Definition clean_rec : srec := mk 0 0 0 0 0 0 0.   (* memset 0 for variables that are not dirty *)

(* an arbitrary reduction tree: what a commutative MPI_Op permits *)
Inductive rtree := Leaf (x : srec) | Node (inv inoutv : rtree).
Fixpoint eval (t : rtree) : srec :=
  match t with Leaf x => x | Node a b => combine (eval a) (eval b) end.
Fixpoint leaves (t : rtree) : list srec :=
  match t with Leaf x => [x] | Node a b => leaves a ++ leaves b end.

(* executable helpers used by the correspondence run *)
Fixpoint build_tree (shape : list bool) (xs : list srec) (fuel : nat) : option (rtree * list bool * list srec) :=
  match fuel with
  | O => None
  | S f =>
    match shape with
    | [] => None
    | false :: sh => match xs with [] => None | x :: tl => Some (Leaf x, sh, tl) end
    | true :: sh =>
      match build_tree sh xs f with
      | None => None
      | Some (a, sh1, xs1) =>
        match build_tree sh1 xs1 f with
        | None => None
        | Some (b, sh2, xs2) => Some (Node a b, sh2, xs2)
        end
      end
    end
  end.
