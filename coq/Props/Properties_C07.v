(* C07 - decoders reject malformed input without memory errors.
   The statements are about the INSTRUMENTED models (coq/C07/PuffModel.v, DecodeModel.v): every access
   to a buffer carries its index and is checked against the size of the buffer (result Oob), every
   loop has an iteration bound (result NoFuel), size_t arithmetic wraps modulo 2^64.  The theorems
   say: for every input none of the two ever happens.  The index formulas of sc_io_decode are the
   constants GENERATED from /repo's current source (Gen/Codec.v, tie T1); the models are run against
   the real code under ASan/UBSan on every check (tie T2).
   This file contains only statements, `exact` proofs and Print Assumptions. *)
From Coq Require Import ZArith List Bool.
From ScV Require Import Base.CInt Gen.Codec C06.Res C06.B64Model C06.B64Proofs
  C07.PuffModel C07.DecodeModel C07.PuffSafe C07.PuffHuffman C07.DecodeSafe.
Import ListNotations.
Local Open Scope Z_scope.

(* --- sc_io_decode -------------------------------------------------------------------------------- *)
(* decode_post out maxsz r :=  match r with
     | Ok (n, b) => 0 <= n /\ len b = n * o_esz out /\ bytes b /\ (maxsz = 0 \/ len b <= maxsz) /\
                    (o_owner out = false -> len b <= o_cnt out * o_esz out)
     | Err e => e = -1 | Oob => False | NoFuel => False end
   out_ok o := 0 < o_esz o /\ 0 <= o_cnt o /\ o_cnt o * o_esz o < BIG          (BIG = 2^62)
   DATA_MAX = 2^52 (the input text is shorter than 4 PiB)

   FULL-STRENGTH statements: every input, every output kind (owner / view of any capacity, any element size;
   in place = the descriptor of the input array), every maximum - no guard.  Since commit 5c6a588 the decoder
   refuses a declared size above 1032 x the compressed bytes (generated slice dec_guard_ratio) before it
   allocates; this is what makes the former guard alloc_ok provable from the code. *)

(* the build without zlib (sc_io_nonuncompress + sc_puff + adler32 are inside the model) *)
Theorem C07_decode_safe : forall data out maxsz,
  bytes data -> len data < DATA_MAX -> out_ok out -> 0 <= maxsz ->
  decode_post out maxsz (sc_decode data out maxsz).
Proof. exact decode_safe. Qed.
Print Assumptions C07_decode_safe.

(* the same for ANY decompressor that keeps to its contract unc_safe:
   unc_safe unc := forall src size cap nil, bytes src -> len src < BIG -> 0 <= size ->
     (nil = false -> size <= cap < BIG) -> (nil = true -> size = 0 /\ 0 <= cap) ->
     match unc src size cap nil with Ok b => len b = size /\ bytes b | Err e => e = -1 | Oob => False | NoFuel => False end *)
Theorem C07_decode_with_safe : forall unc data out maxsz,
  unc_safe unc -> bytes data -> len data < DATA_MAX -> out_ok out -> 0 <= maxsz ->
  decode_post out maxsz (sc_decode_with unc data out maxsz).
Proof. exact decode_with_safe. Qed.
Print Assumptions C07_decode_with_safe.

(* libsc's own decompressor keeps the contract (from C07_puff_safe) *)
Theorem C07_nonuncompress_safe : unc_safe nonuncompress.
Proof. exact nonuncompress_safe. Qed.
Print Assumptions C07_nonuncompress_safe.

(* the build with zlib: uncompress is external code, its contract is the Section hypothesis *)
Section Zlib.
  Variable inflate : list Z -> Z -> option (list Z).
  Hypothesis inflate_bytes : forall src size d, inflate src size = Some d -> bytes d.

  Theorem C07_decode_zlib_safe : forall data out maxsz,
    bytes data -> len data < DATA_MAX -> out_ok out -> 0 <= maxsz ->
    decode_post out maxsz (sc_decode_with (zlib_unc inflate) data out maxsz).
  Proof. exact (decode_zlib_safe inflate inflate_bytes). Qed.
End Zlib.
Print Assumptions C07_decode_zlib_safe.

(* regression guard for commit 5c6a588: the function as it was BEFORE the commit (DecodeModel.sc_decode_old, no bound
   on the declared size) leaves its buffer on a concrete 31-byte text (header size 2^63 + 8, zlib stream of "aa"),
   owner output, no maximum - in both builds; the repaired function refuses that text *)
Theorem C07_decode_old_refuted :
  exists data out, bytes data /\ len data < DATA_MAX /\ out_ok out /\ sc_decode_old data out 0 = Oob.
Proof. exact decode_old_refuted. Qed.
Print Assumptions C07_decode_old_refuted.

Theorem C07_decode_zlib_old_refuted : forall inflate,
  sc_decode_with_old (zlib_unc inflate) refute_text refute_out 0 = Oob.
Proof. exact decode_zlib_old_refuted. Qed.
Print Assumptions C07_decode_zlib_old_refuted.

Theorem C07_decode_new_rejects_witness : sc_decode refute_text refute_out 0 = Err (-1).
Proof. exact decode_new_rejects_witness. Qed.
Print Assumptions C07_decode_new_rejects_witness.

(* --- sc_io_decode_info --------------------------------------------------------------------------- *)
Theorem C07_decode_info_safe : forall data, bytes data ->
  match sc_decode_info data with
  | Ok (sz, fc) => 0 <= sz < M64 /\ byte fc | Err e => e = -1 | Oob => False | NoFuel => False end.
Proof. exact decode_info_safe. Qed.
Print Assumptions C07_decode_info_safe.

(* "output consistent with the header": whenever both functions succeed on a text, the size reported by
   decode_info is the byte count decode delivers, and the format character is 'z' (any decompressor) *)
Theorem C07_decode_consistent_with_info : forall unc data out maxsz n b sz fc,
  len data < BIG -> 0 < o_esz out ->
  sc_decode_with unc data out maxsz = Ok (n, b) -> sc_decode_info data = Ok (sz, fc) ->
  sz = n * o_esz out /\ sz = hdr_size data /\ fc = 122.
Proof. exact decode_info_consistent. Qed.
Print Assumptions C07_decode_consistent_with_info.

(* --- libb64 decoder: no access outside the plaintext buffer -------------------------------------- *)
(* for every code string and every decoder state, when the buffer has room for 3/4 of the code
   length + 1 (sc_io_decode: 76 characters into base_out[76]; sc_io_decode_info: 12 into dec[12]) *)
Theorem C07_b64_block_safe : forall code pt st, 4 * len pt >= 3 * len code + 4 ->
  exists lout pt' st',
    decode_block code pt st = Ok (lout, pt', st') /\ len pt' = len pt /\
    lout = len (snd (pdec code (abs_st (d_step st) (d_plain st)))) /\
    firstn (Z.to_nat lout) pt' = snd (pdec code (abs_st (d_step st) (d_plain st))) /\
    abs_st (d_step st') (d_plain st') = fst (pdec code (abs_st (d_step st) (d_plain st))) /\
    4 * lout + psi (d_step st') <= psi (d_step st) + 3 * len code /\ 0 <= lout < len pt.
Proof. exact decode_block_refine. Qed.
Print Assumptions C07_b64_block_safe.

(* --- sc_puff (the inflate fallback of builds without zlib), ALL paths: stored, fixed, dynamic ------ *)
(* for every source byte string, every claimed source length covered by memory and every destination
   (scanning with dest = NIL, or `destlen` bytes backed by `outcap` >= destlen bytes of memory):
   the instrumented model never reads or writes outside in[0..sourcelen), out[0..destlen),
   count[16], symbol[n], lengths[316], lens/lext/dists/dext, never copies from a distance > outcnt,
   terminates within its iteration bounds, and on success reports lengths within the claimed ones *)
Theorem C07_puff_safe : forall nil outcap destlen src sourcelen,
  bytes src -> 0 <= sourcelen <= len src -> len src < BIG ->
  (nil = false -> 0 <= destlen <= outcap /\ outcap < BIG) ->
  match puff nil outcap destlen src sourcelen with
  | Ok (err, dl, sl, ob) =>
      err = 0 -> 0 <= sl <= sourcelen /\ bytes ob /\ (if nil then ob = [] else 0 <= dl <= destlen /\ len ob = dl)
  | Err _ => False
  | Oob => False
  | NoFuel => False
  end.
Proof. exact puff_safe. Qed.
Print Assumptions C07_puff_safe.

(* the Huffman decoder on any table left behind by construct(): symbol index inside symbol[n], count
   index inside count[16], at least one bit consumed, output untouched *)
Theorem C07_puff_decode_safe : forall c h B s, cfg_ok c -> huff_ok h B -> inv c s ->
  dec_post c s B (decode c h s).
  (* dec_post c s0 B r := match r with
       | Ok (sym, s') => inv c s' /\ 0 <= sym < B /\ mu c s' < mu c s0 /\ same_out s0 s'
       | Err e => e <> 0 | Oob => False | NoFuel => False end *)
Proof. exact decode_ok. Qed.
Print Assumptions C07_puff_decode_safe.

(* construct() on any n code lengths in 0..15 stays inside count[16], offs[16], symbol[n] and leaves
   tables that decode() can use, whatever it returns (complete, incomplete, over-subscribed) *)
Theorem C07_puff_construct_safe : forall lengths loff n, 0 <= loff -> 0 <= n <= 1000 -> loff + n <= len lengths ->
  Forall (fun v => 0 <= v <= 15) (lens_at lengths loff n) ->
  forall h B, len (h_count h) = 16 -> n <= len (h_symbol h) -> n <= B ->
  Forall (fun v => 0 <= v < B) (h_symbol h) ->
  exists err h', construct h lengths loff n = Ok (err, h') /\ huff_ok h' B /\
                 len (h_symbol h') = len (h_symbol h) /\
                 nth 0 (h_count h') 0 + psum (h_count h') 16 = n.
Proof. exact construct_ok. Qed.
Print Assumptions C07_puff_construct_safe.

(* the success branches are inhabited: "abc" in one line, owner and view, too small a view, a maximum *)
Example C07_ex_decode : sc_decode ex_data (mkOut true 1 0) 0 = Ok (3, [97; 98; 99])
  /\ sc_decode ex_data (mkOut false 1 3) 0 = Ok (3, [97; 98; 99])
  /\ sc_decode ex_data (mkOut false 1 2) 0 = Err (-1) /\ sc_decode ex_data (mkOut true 1 0) 2 = Err (-1).
Proof. exact (conj ex_decode_owner (conj ex_decode_view (conj ex_decode_view_small ex_decode_max))). Qed.

(* the hypotheses are satisfiable: a fixed-Huffman block (zlib's output for "a", raw deflate 4b 04 00)
   and a stored block, decoded by the model *)
Example C07_ex_fixed : puff false 1 1 [75; 4; 0] 3 = Ok (0, 1, 3, [97]).
Proof. vm_compute. reflexivity. Qed.
Example C07_ex_stored : puff false 2 2 [1; 2; 0; 253; 255; 7; 9] 7 = Ok (0, 2, 7, [7; 9]).
Proof. vm_compute. reflexivity. Qed.
(* a distance reaching before the start of the output is an error, not an access *)
Example C07_ex_toofar : puff false 8 8 [3; 2; 0] 3 = Ok (-11, 8, 3, []).
Proof. vm_compute. reflexivity. Qed.
