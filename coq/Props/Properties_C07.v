(* C07 - decoders reject malformed input without memory errors.
   The statements are about the INSTRUMENTED models (coq/C07/PuffModel.v, DecodeModel.v): every access
   to a buffer carries its index and is checked against the size of the buffer (result Oob), every
   loop has an iteration bound (result NoFuel), size_t arithmetic wraps modulo 2^64.  The theorems
   say: for every input none of the two ever happens.  The index formulas of sc_io_decode are the
   constants GENERATED from /repo's current source (Gen/Codec.v, tie T1); the models are run against
   the real code under ASan/UBSan on every check (tie T2).
   This file contains only statements, `exact` proofs and Print Assumptions. *)
From Coq Require Import ZArith List Bool.
From ScV Require Import Base.CInt Gen.Codec Gen.PuffC07 Gen.DecodeC07 C06.Res C06.B64Model C06.B64Proofs C06.StoredModel
  C07.PuffModel C07.DecodeModel C07.PuffSafe C07.PuffHuffman C07.DecodeSafe C07.PuffGen C07.DecodeGen C07.PuffCodes C07.DecodePrefix.
Import ListNotations.
Local Open Scope Z_scope.

(* --- sc_io_decode -------------------------------------------------------------------------------- *)
(* decode_post out maxsz r :=  match r with
     | Ok (n, b) => 0 <= n /\ len b = n * o_esz out /\ bytes b /\ (maxsz = 0 \/ len b <= maxsz) /\
                    (o_owner out = false -> len b <= o_cnt out * o_esz out)
     | Err e => e = -1 | Oob => False | NoFuel => False end
   out_ok o := 0 < o_esz o /\ 0 <= o_cnt o /\ o_cnt o * o_esz o < BIG          (BIG = 2^62)
   DATA_MAX = 2^52 (the input text is shorter than 4 PiB)

   FULL-STRENGTH statements: every input, every output kind (owner / view of any capacity, any element size;
   in place = the descriptor of the input array), every maximum - no guard.  Since commit 5c6a588 the decoder
   refuses a declared size above 1032 x the compressed bytes (generated slice dec_guard_ratio) before it
   allocates; this is what makes the former guard alloc_ok provable from the code. *)

(* the build without zlib (sc_io_nonuncompress + sc_puff + adler32 are inside the model) *)
Theorem C07_decode_safe : forall data out maxsz,
  bytes data -> len data < DATA_MAX -> out_ok out -> 0 <= maxsz ->
  decode_post out maxsz (sc_decode data out maxsz).
Proof. exact decode_safe. Qed.
Print Assumptions C07_decode_safe.

(* the same for ANY decompressor that keeps to its contract unc_safe:
   unc_safe unc := forall src size cap nil, bytes src -> len src < BIG -> 0 <= size ->
     (nil = false -> size <= cap < BIG) -> (nil = true -> size = 0 /\ 0 <= cap) ->
     match unc src size cap nil with Ok b => len b = size /\ bytes b | Err e => e = -1 | Oob => False | NoFuel => False end *)
Theorem C07_decode_with_safe : forall unc data out maxsz,
  unc_safe unc -> bytes data -> len data < DATA_MAX -> out_ok out -> 0 <= maxsz ->
  decode_post out maxsz (sc_decode_with unc data out maxsz).
Proof. exact decode_with_safe. Qed.
Print Assumptions C07_decode_with_safe.

(* libsc's own decompressor keeps the contract (from C07_puff_safe) *)
Theorem C07_nonuncompress_safe : unc_safe nonuncompress.
Proof. exact nonuncompress_safe. Qed.
Print Assumptions C07_nonuncompress_safe.

(* the build with zlib: uncompress is external code, its contract is the Section hypothesis *)
Section Zlib.
  Variable inflate : list Z -> Z -> option (list Z).
  Hypothesis inflate_bytes : forall src size d, inflate src size = Some d -> bytes d.

  Theorem C07_decode_zlib_safe : forall data out maxsz,
    bytes data -> len data < DATA_MAX -> out_ok out -> 0 <= maxsz ->
    decode_post out maxsz (sc_decode_with (zlib_unc inflate) data out maxsz).
  Proof. exact (decode_zlib_safe inflate inflate_bytes). Qed.
End Zlib.
Print Assumptions C07_decode_zlib_safe.

(* regression guard for commit 5c6a588: the function as it was BEFORE the commit (DecodeModel.sc_decode_old, no bound
   on the declared size) leaves its buffer on a concrete 31-byte text (header size 2^63 + 8, zlib stream of "aa"),
   owner output, no maximum - in both builds; the repaired function refuses that text *)
Theorem C07_decode_old_refuted :
  exists data out, bytes data /\ len data < DATA_MAX /\ out_ok out /\ sc_decode_old data out 0 = Oob.
Proof. exact decode_old_refuted. Qed.
Print Assumptions C07_decode_old_refuted.

Theorem C07_decode_zlib_old_refuted : forall inflate,
  sc_decode_with_old (zlib_unc inflate) refute_text refute_out 0 = Oob.
Proof. exact decode_zlib_old_refuted. Qed.
Print Assumptions C07_decode_zlib_old_refuted.

Theorem C07_decode_new_rejects_witness : sc_decode refute_text refute_out 0 = Err (-1).
Proof. exact decode_new_rejects_witness. Qed.
Print Assumptions C07_decode_new_rejects_witness.

(* --- sc_io_decode_info --------------------------------------------------------------------------- *)
Theorem C07_decode_info_safe : forall data, bytes data ->
  match sc_decode_info data with
  | Ok (sz, fc) => 0 <= sz < M64 /\ byte fc | Err e => e = -1 | Oob => False | NoFuel => False end.
Proof. exact decode_info_safe. Qed.
Print Assumptions C07_decode_info_safe.

(* "output consistent with the header": whenever both functions succeed on a text, the size reported by
   decode_info is the byte count decode delivers, and the format character is 'z' (any decompressor) *)
Theorem C07_decode_consistent_with_info : forall unc data out maxsz n b sz fc,
  len data < BIG -> 0 < o_esz out ->
  sc_decode_with unc data out maxsz = Ok (n, b) -> sc_decode_info data = Ok (sz, fc) ->
  sz = n * o_esz out /\ sz = hdr_size data /\ fc = 122.
Proof. exact decode_info_consistent. Qed.
Print Assumptions C07_decode_consistent_with_info.

(* --- libb64 decoder: no access outside the plaintext buffer -------------------------------------- *)
(* for every code string and every decoder state, when the buffer has room for 3/4 of the code
   length + 1 (sc_io_decode: 76 characters into base_out[76]; sc_io_decode_info: 12 into dec[12]) *)
Theorem C07_b64_block_safe : forall code pt st, 4 * len pt >= 3 * len code + 4 ->
  exists lout pt' st',
    decode_block code pt st = Ok (lout, pt', st') /\ len pt' = len pt /\
    lout = len (snd (pdec code (abs_st (d_step st) (d_plain st)))) /\
    firstn (Z.to_nat lout) pt' = snd (pdec code (abs_st (d_step st) (d_plain st))) /\
    abs_st (d_step st') (d_plain st') = fst (pdec code (abs_st (d_step st) (d_plain st))) /\
    4 * lout + psi (d_step st') <= psi (d_step st) + 3 * len code /\ 0 <= lout < len pt.
Proof. exact decode_block_refine. Qed.
Print Assumptions C07_b64_block_safe.

(* --- sc_puff (the inflate fallback of builds without zlib), ALL paths: stored, fixed, dynamic ------ *)
(* for every source byte string, every claimed source length covered by memory and every destination
   (scanning with dest = NIL, or `destlen` bytes backed by `outcap` >= destlen bytes of memory):
   the instrumented model never reads or writes outside in[0..sourcelen), out[0..destlen),
   count[16], symbol[n], lengths[316], lens/lext/dists/dext, never copies from a distance > outcnt,
   terminates within its iteration bounds, and on success reports lengths within the claimed ones *)
Theorem C07_puff_safe : forall nil outcap destlen src sourcelen,
  bytes src -> 0 <= sourcelen <= len src -> len src < BIG ->
  (nil = false -> 0 <= destlen <= outcap /\ outcap < BIG) ->
  match puff nil outcap destlen src sourcelen with
  | Ok (err, dl, sl, ob) =>
      err = 0 -> 0 <= sl <= sourcelen /\ bytes ob /\ (if nil then ob = [] else 0 <= dl <= destlen /\ len ob = dl)
  | Err _ => False
  | Oob => False
  | NoFuel => False
  end.
Proof. exact puff_safe. Qed.
Print Assumptions C07_puff_safe.

(* the Huffman decoder on any table left behind by construct(): symbol index inside symbol[n], count
   index inside count[16], at least one bit consumed, output untouched *)
Theorem C07_puff_decode_safe : forall c h B s, cfg_ok c -> huff_ok h B -> inv c s ->
  dec_post c s B (decode c h s).
  (* dec_post c s0 B r := match r with
       | Ok (sym, s') => inv c s' /\ 0 <= sym < B /\ mu c s' < mu c s0 /\ same_out s0 s'
       | Err e => e <> 0 | Oob => False | NoFuel => False end *)
Proof. exact decode_ok. Qed.
Print Assumptions C07_puff_decode_safe.

(* construct() on any n code lengths in 0..15 stays inside count[16], offs[16], symbol[n] and leaves
   tables that decode() can use, whatever it returns (complete, incomplete, over-subscribed) *)
Theorem C07_puff_construct_safe : forall lengths loff n, 0 <= loff -> 0 <= n <= 1000 -> loff + n <= len lengths ->
  Forall (fun v => 0 <= v <= 15) (lens_at lengths loff n) ->
  forall h B, len (h_count h) = 16 -> n <= len (h_symbol h) -> n <= B ->
  Forall (fun v => 0 <= v < B) (h_symbol h) ->
  exists err h', construct h lengths loff n = Ok (err, h') /\ huff_ok h' B /\
                 len (h_symbol h') = len (h_symbol h) /\
                 nth 0 (h_count h') 0 + psum (h_count h') 16 = n.
Proof. exact construct_ok. Qed.
Print Assumptions C07_puff_construct_safe.

(* the success branches are inhabited: "abc" in one line, owner and view, too small a view, a maximum *)
Example C07_ex_decode : sc_decode ex_data (mkOut true 1 0) 0 = Ok (3, [97; 98; 99])
  /\ sc_decode ex_data (mkOut false 1 3) 0 = Ok (3, [97; 98; 99])
  /\ sc_decode ex_data (mkOut false 1 2) 0 = Err (-1) /\ sc_decode ex_data (mkOut true 1 0) 2 = Err (-1).
Proof. exact (conj ex_decode_owner (conj ex_decode_view (conj ex_decode_view_small ex_decode_max))). Qed.

(* the hypotheses are satisfiable: a fixed-Huffman block (zlib's output for "a", raw deflate 4b 04 00)
   and a stored block, decoded by the model *)
Example C07_ex_fixed : puff false 1 1 [75; 4; 0] 3 = Ok (0, 1, 3, [97]).
Proof. vm_compute. reflexivity. Qed.
Example C07_ex_stored : puff false 2 2 [1; 2; 0; 253; 255; 7; 9] 7 = Ok (0, 2, 7, [7; 9]).
Proof. vm_compute. reflexivity. Qed.
(* a distance reaching before the start of the output is an error, not an access *)
Example C07_ex_toofar : puff false 8 8 [3; 2; 0] 3 = Ok (-11, 8, 3, []).
Proof. vm_compute. reflexivity. Qed.

(* --- return codes of sc_puff, truncated input, the terminating NUL ------------------------------------------------------------ *)
(* doc_code e := -11 <= e <= -1 \/ e = 1 \/ e = 2  (the codes documented in sc_puff.c).  NO precondition: every source list, every
   claimed length, every destination.  With a code the model hands *destlen / *sourcelen back unchanged and delivers no byte
   (for the codes 1 and 2 this is the C behaviour; for a negative code the C function stores s.outcnt / s.incnt, see C07_gen_puff_finish). *)
Theorem C07_puff_codes : forall nil outcap destlen src sourcelen,
  match puff nil outcap destlen src sourcelen with
  | Ok (rc, dl, sl, ob) => (rc = 0 \/ doc_code rc) /\ (rc <> 0 -> dl = destlen /\ sl = sourcelen /\ ob = [])
  | Err _ => False
  | _ => True
  end.
Proof. exact puff_codes. Qed.
Print Assumptions C07_puff_codes.

Example C07_puff_codes_ex : puff false 4 4 [7] 1 = Ok (-1, 4, 1, []) /\ puff false 4 4 [] 0 = Ok (2, 4, 0, []).
Proof. exact puff_codes_ex. Qed.

(* EVERY cut point of EVERY text, with and without a NUL appended: error -1 or a result within header, maximum and view; never Oob *)
Theorem C07_decode_prefixes_safe : forall text out maxsz, bytes text -> len text + 1 < DATA_MAX -> out_ok out -> 0 <= maxsz ->
  forall k, decode_post out maxsz (sc_decode (firstn k text) out maxsz) /\
            decode_post out maxsz (sc_decode (firstn k text ++ [0]) out maxsz).
Proof. exact decode_prefixes_safe. Qed.
Print Assumptions C07_decode_prefixes_safe.

(* never shorter data: an accepted truncation that keeps the 12 header characters delivers exactly the size the full text declares *)
Theorem C07_decode_prefix_size : forall unc text out maxsz k n b sz fc,
  (12 <= k)%nat -> len text + 1 < BIG -> 0 < o_esz out ->
  sc_decode_with unc (firstn k text ++ [0]) out maxsz = Ok (n, b) -> sc_decode_info text = Ok (sz, fc) ->
  sz = n * o_esz out /\ fc = 122.
Proof. exact decode_prefix_size. Qed.
Print Assumptions C07_decode_prefix_size.

Example C07_prefix_ex : sc_decode (firstn 20 ex_data ++ [0]) (mkOut true 1 0) 0 = Err (-1).
Proof. exact prefix_ex. Qed.

(* sc_puff on every truncation: the memory ends with the claimed length, or goes on behind it *)
Theorem C07_puff_truncations_safe : forall nil outcap destlen src, bytes src -> len src < BIG ->
  (nil = false -> 0 <= destlen <= outcap /\ outcap < BIG) ->
  forall k, puff_post nil destlen (len (firstn k src)) (puff nil outcap destlen (firstn k src) (len (firstn k src))) /\
            (Z.of_nat k <= len src -> puff_post nil destlen (Z.of_nat k) (puff nil outcap destlen src (Z.of_nat k))).
Proof. exact puff_truncations_safe. Qed.
Print Assumptions C07_puff_truncations_safe.

(* the code characters of every line end at least 3 bytes in front of the end of the array: the terminating NUL is never read *)
Theorem C07_decode_reads_before_nul : forall E zlin,
  1 <= E < BIG -> dec_guard_short E (dec_base64_lines E) = false -> 0 <= zlin < dec_base64_lines E ->
  let L := dec_base64_lines E in
  let ipos := 78 * zlin in
  let irem := dec_irem E L - 76 * zlin in
  0 <= ipos /\ ipos + dec_lein irem <= E - 1 - 2 * (L - zlin) /\ ipos + dec_lein irem <= E - 3.
Proof. exact decode_reads_before_nul. Qed.
Print Assumptions C07_decode_reads_before_nul.

Theorem C07_decode_line_moves : forall ipos irem opos ocnt, 76 <= irem < BIG -> 0 <= ocnt < BIG ->
  dec_line_full ipos irem opos ocnt = (57, ipos + 78, irem - 76, opos + 57, ocnt + 57, 0).
Proof. exact decode_line_moves. Qed.
Print Assumptions C07_decode_line_moves.

(* the lower boundary of sc_io_nonuncompress: fewer than 5 bytes behind the 2-byte zlib header (|src| < 7) are refused with -1 before
   sc_puff is called, for every content and destination; whenever sc_puff is called, the claimed length `src_size - 4` has not wrapped *)
Theorem C07_nonuncompress_short_input : forall src dest_size dest_cap dest_nil,
  len src < 7 -> nonuncompress src dest_size dest_cap dest_nil = Err (-1).
Proof. exact nonuncompress_short_input. Qed.
Print Assumptions C07_nonuncompress_short_input.

Theorem C07_nonuncompress_sourcelen_no_wrap : forall src : list Z, 7 <= len src < BIG ->
  let src_size := len src - 2 in
  (src_size <? 5) = false /\ u64 (src_size - 4) = len src - 6 /\ 1 <= len src - 6 /\ len src - 6 + 4 = len (skipn 2 src).
Proof. exact nonuncompress_sourcelen_no_wrap. Qed.
Print Assumptions C07_nonuncompress_sourcelen_no_wrap.

Example C07_nonuncompress_short_ex :
  nonuncompress [120; 1; 187] 0 0 true = Err (-1) /\ nonuncompress [120; 1; 187; 190; 190; 190] 4096 4096 false = Err (-1).
Proof. exact nonuncompress_short_ex. Qed.

(* --- tie T1: the models compute what the slices generated from the CURRENT sc_puff.c, cdecode.c, sc_io.c compute ------------
   (Gen/PuffC07.v, Gen/DecodeC07.v, regenerated on every run by tools/c2g/groups_C07.py; proofs in C07/PuffGen.v, C07/DecodeGen.v).
   A loop of the model is tied by ONE unfolding = the generated step (test, body, increment); the memories the C code reads
   are functions Z -> Z with hypotheses that they hold what the model's lists hold; the ranges are those in which C's
   int / unsigned / long arithmetic and the model's Z arithmetic coincide. *)
Theorem C07_gen_bits_step :
  forall (f : nat) (c : pcfg) (s : pstate) (val need x : Z) (r : list Z) (inb : Z -> Z),
    p_in s = x :: r ->
    inb (p_incnt s) = x ->
    byte x ->
    0 <= p_bitcnt s <= 48 ->
    bits_loop (S f) c s val need =
    (let
     '(jumped, val', incnt', bitcnt', stop) := puff_bits_step inb (p_bitcnt s) need val (p_incnt s) (c_inlen c) in
      if stop =? 0
      then
       bits_loop f c {| p_out := p_out s; p_outcnt := p_outcnt s; p_in := r; p_incnt := incnt'; p_bitbuf := p_bitbuf s; p_bitcnt := bitcnt' |}
         val' need
      else if jumped =? 0 then Ok (s, val) else Err 2).
Proof. exact gen_bits_step. Qed.
Print Assumptions C07_gen_bits_step.

Theorem C07_gen_bits_shape :
  forall (c : pcfg) (s : pstate) (need : Z),
    bits c s need =
    ' (s1, val) <- bits_loop 4 c s (puff_bits_init (p_bitbuf s)) need;;
    Ok (Z.land val (shl 1 need - 1), set_bits s1 (shr val need) (p_bitcnt s1 - need)).
Proof. exact gen_bits_shape. Qed.
Print Assumptions C07_gen_bits_shape.

Theorem C07_gen_bits_take :
  forall val need bitcnt : Z,
    0 <= need <= 30 ->
    0 <= val < 2 ^ (31 + need) ->
    0 <= bitcnt < 64 -> puff_bits_take val need bitcnt = (Z.land val (shl 1 need - 1), 1, shr val need, bitcnt - need, 1).
Proof. exact gen_bits_take. Qed.
Print Assumptions C07_gen_bits_take.

Theorem C07_gen_stored :
  forall (c : pcfg) (s : pstate) (inb : Z -> Z) (b0 b1 b2 b3 : Z) (rest : list Z),
    p_in s = b0 :: b1 :: b2 :: b3 :: rest ->
    byte b0 ->
    byte b1 ->
    byte b2 ->
    byte b3 ->
    0 <= p_incnt s < 2 ^ 62 ->
    inb (p_incnt s) = b0 -> inb (p_incnt s + 1) = b1 -> inb (p_incnt s + 2) = b2 -> inb (p_incnt s + 3) = b3 -> stored c s = stored_gen c s inb.
Proof. exact gen_stored. Qed.
Print Assumptions C07_gen_stored.

Theorem C07_gen_stored_copy_step :
  forall (inb : Z -> Z) (ln incnt outcnt : Z),
    0 < ln < 2 ^ 32 ->
    0 <= incnt < 2 ^ 63 ->
    0 <= outcnt < 2 ^ 63 ->
    puff_stored_copy_step inb ln incnt outcnt = (ln, outcnt, inb incnt, ln - 1, incnt + 1, outcnt + 1, 0) /\
    puff_stored_copy_step inb 0 incnt outcnt = (0, 0, 0, u32 (-1), incnt, outcnt, 1).
Proof. exact gen_stored_copy_step. Qed.
Print Assumptions C07_gen_stored_copy_step.

Theorem C07_gen_decode_init :
  forall (c : pcfg) (h : huff) (s : pstate),
    decode c h s =
    (let
     '(bitbuf, lft, index, first, code, ln, next, _) := puff_decode_init (p_bitbuf s) (p_bitcnt s) 0 in
      decode_loop 40 c h s bitbuf lft code first index ln next).
Proof. exact gen_decode_init. Qed.
Print Assumptions C07_gen_decode_init.

Theorem C07_gen_decode_step :
  forall (f : nat) (c : pcfg) (h : huff) (s : pstate) (bitbuf lft code first index ln next : Z) (cnt_at symf inb : Z -> Z) (cntv : Z),
    rd (h_count h) next = Ok cntv ->
    cnt_at next = cntv ->
    0 <= cntv < 32768 ->
    (forall i v : Z, rd (h_symbol h) i = Ok v -> symf i = v) ->
    (forall (x : Z) (r : list Z), p_in s = x :: r -> inb (p_incnt s) = x /\ byte x) ->
    ((Z.lor code (Z.land bitbuf 1) - cntv <? first) = true ->
     exists v : Z, rd (h_symbol h) (index + (Z.lor code (Z.land bitbuf 1) - first)) = Ok v) ->
    (lft = 0 -> ln <> 16 -> p_incnt s <> c_inlen c -> p_in s <> []) ->
    0 <= lft < 2 ^ 31 ->
    0 <= code < 2 ^ 29 ->
    0 <= first < 2 ^ 29 ->
    0 <= index < 2 ^ 29 ->
    1 <= ln <= 16 ->
    0 <= bitbuf < 2 ^ 31 ->
    0 <= p_bitcnt s < 64 ->
    0 <= p_incnt s < 2 ^ 63 ->
    decode_loop (S f) c h s bitbuf lft code first index ln next =
    (let
     '(go, retv, returned, lft', code', bitbuf', _, next', sbb, sbc, index', first', ln', _) :=
      puff_decode_bit_step cnt_at symf lft code bitbuf 0 next (p_bitbuf s) (p_bitcnt s) index first ln in
      if negb (go =? 0)
      then if returned =? 1 then Ok (retv, set_bits s sbb sbc) else decode_loop f c h s bitbuf' lft' code' first' index' ln' next'
      else
       let
       '(jumped, lft2, bitbuf2, incnt2, stop2) := puff_decode_refill inb ln bitbuf (p_incnt s) (c_inlen c) in
        if stop2 =? 1
        then if jumped =? 1 then Err 2 else let '(rv, _, _) := puff_decode_fail in Err rv
        else
         decode_loop f c h
           {| p_out := p_out s; p_outcnt := p_outcnt s; p_in := tl (p_in s); p_incnt := incnt2; p_bitbuf := p_bitbuf s; p_bitcnt := p_bitcnt s |}
           bitbuf2 lft2 code first index ln next).
Proof. exact gen_decode_step. Qed.
Print Assumptions C07_gen_decode_step.

Theorem C07_gen_construct_zero :
  forall (k : nat) (i : Z) (cnt : list Z),
    0 <= i <= 15 ->
    zero_counts (S k) i cnt = (let '(widx, wval, i', _) := puff_construct_zero_step i in ' cnt1 <- wr cnt widx wval;; zero_counts k i' cnt1).
Proof. exact gen_construct_zero. Qed.
Print Assumptions C07_gen_construct_zero.

Theorem C07_gen_construct_zero_bounds :
  puff_construct_zero_init = (0, 0) /\ puff_construct_zero_step 16 = (0, 0, 16, 1).
Proof. exact gen_construct_zero_bounds. Qed.
Print Assumptions C07_gen_construct_zero_bounds.

Theorem C07_gen_construct_count :
  forall (k : nat) (sym : Z) (lengths : list Z) (loff : Z) (cnt : list Z) (n : Z) (lf cf : Z -> Z) (l v : Z),
    rd lengths (loff + sym) = Ok l ->
    rd cnt l = Ok v ->
    lf sym = l ->
    cf l = v ->
    0 <= sym < n ->
    n < 2 ^ 30 ->
    - 2 ^ 30 <= v < 2 ^ 30 ->
    count_lengths (S k) sym lengths loff cnt =
    (let '(widx, wval, sym', _) := puff_construct_count_step lf cf sym n in ' cnt1 <- wr cnt widx wval;; count_lengths k sym' lengths loff cnt1).
Proof. exact gen_construct_count. Qed.
Print Assumptions C07_gen_construct_count.

Theorem C07_gen_construct_count_bounds :
  forall (lf cf : Z -> Z) (n : Z), puff_construct_count_init = (0, 0) /\ puff_construct_count_step lf cf n n = (0, 0, n, 1).
Proof. exact gen_construct_count_bounds. Qed.
Print Assumptions C07_gen_construct_count_bounds.

Theorem C07_gen_construct_left :
  forall (k : nat) (ln : Z) (cnt : list Z) (lft : Z) (cf : Z -> Z) (v : Z),
    rd cnt ln = Ok v ->
    cf ln = v ->
    1 <= ln <= 15 ->
    0 <= lft < 2 ^ 29 ->
    - 2 ^ 30 <= v < 2 ^ 30 ->
    check_left (S k) ln cnt lft =
    (let
     '(retv, returned, lft', ln', _) := puff_construct_left_step cf ln lft in if returned =? 1 then Ok (inl retv) else check_left k ln' cnt lft').
Proof. exact gen_construct_left. Qed.
Print Assumptions C07_gen_construct_left.

Theorem C07_gen_construct_left_bounds :
  forall (cf : Z -> Z) (lft : Z),
    puff_construct_left_init = (1, 0) /\ puff_construct_left0 = (1, 0) /\ puff_construct_left_step cf 16 lft = (0, 0, lft, 16, 1).
Proof. exact gen_construct_left_bounds. Qed.
Print Assumptions C07_gen_construct_left_bounds.

Theorem C07_gen_construct_offs :
  forall (k : nat) (ln : Z) (cnt offs : list Z) (cf off : Z -> Z) (o v : Z),
    rd offs ln = Ok o ->
    rd cnt ln = Ok v ->
    off ln = o ->
    cf ln = v ->
    1 <= ln < 15 ->
    - 2 ^ 29 <= o < 2 ^ 29 ->
    - 2 ^ 29 <= v < 2 ^ 29 ->
    make_offs (S k) ln cnt offs =
    (let '(widx, wval, ln', _) := puff_construct_offs_step off cf ln in ' offs1 <- wr offs widx wval;; make_offs k ln' cnt offs1).
Proof. exact gen_construct_offs. Qed.
Print Assumptions C07_gen_construct_offs.

Theorem C07_gen_construct_offs_bounds :
  forall off cf : Z -> Z,
    puff_construct_offs_init = (1, 0) /\ puff_construct_offs1 = (1, 0, 0) /\ puff_construct_offs_step off cf 15 = (0, 0, 15, 1).
Proof. exact gen_construct_offs_bounds. Qed.
Print Assumptions C07_gen_construct_offs_bounds.

Theorem C07_gen_construct_fill :
  forall (k : nat) (sym : Z) (lengths : list Z) (loff : Z) (offs symtab : list Z) (n : Z) (lf off : Z -> Z) (l o : Z),
    rd lengths (loff + sym) = Ok l ->
    lf sym = l ->
    (l <> 0 -> rd offs l = Ok o /\ off l = o) ->
    0 <= sym < n ->
    n <= 32768 ->
    - 2 ^ 29 <= o < 2 ^ 29 ->
    fill_symbols (S k) sym lengths loff offs symtab =
    (let
     '(ow, ov, sw, sv, sym', _) := puff_construct_fill_step lf off sym n in
      if l =? 0
      then fill_symbols k sym' lengths loff offs symtab
      else ' symtab1 <- wr symtab sw sv;; ' offs1 <- wr offs ow ov;; fill_symbols k sym' lengths loff offs1 symtab1).
Proof. exact gen_construct_fill. Qed.
Print Assumptions C07_gen_construct_fill.

Theorem C07_gen_construct_fill_bounds :
  forall (lf off : Z -> Z) (n : Z), puff_construct_fill_init = (0, 0) /\ puff_construct_fill_step lf off n n = (0, 0, 0, 0, n, 1).
Proof. exact gen_construct_fill_bounds. Qed.
Print Assumptions C07_gen_construct_fill_bounds.

Theorem C07_gen_construct :
  forall (h : huff) (lengths : list Z) (loff n : Z),
    construct h lengths loff n =
    ' cnt <- zero_counts 16 (fst puff_construct_zero_init) (h_count h);;
    ' cnt0 <- count_lengths (Z.to_nat n) (fst puff_construct_count_init) lengths loff cnt;;
    ' c0 <- rd cnt0 0;;
    (let
     '(retv, returned, _) := puff_construct_nocodes (fun _ : Z => c0) n in
      if returned =? 1
      then Ok (retv, {| h_count := cnt0; h_symbol := h_symbol h |})
      else
       ' r <- check_left 15 (fst puff_construct_left_init) cnt0 (fst puff_construct_left0);;
       match r with
       | inl lft => Ok (lft, {| h_count := cnt0; h_symbol := h_symbol h |})
       | inr lft =>
           let
           '(widx, wval, _) := puff_construct_offs1 in
            ' offs <- wr (repeat 0 16) widx wval;;
            ' offs0 <- make_offs 14 (fst puff_construct_offs_init) cnt0 offs;;
            ' symtab <- fill_symbols (Z.to_nat n) (fst puff_construct_fill_init) lengths loff offs0 (h_symbol h);;
            (let '(rv, _, _) := puff_construct_done lft in Ok (rv, {| h_count := cnt0; h_symbol := symtab |}))
       end).
Proof. exact gen_construct. Qed.
Print Assumptions C07_gen_construct.

Theorem C07_gen_tables :
  puff_lens_list = lens /\ puff_lext_list = lext /\ puff_dists_list = dists /\ puff_dext_list = dext /\ puff_order_list = order.
Proof. exact gen_tables. Qed.
Print Assumptions C07_gen_tables.

Theorem C07_gen_codes_step :
  forall (c : pcfg) (lc dc : huff) (s : pstate),
    codes_step c lc dc s =
    ' (symbol, s0) <- decode c lc s;;
    (let
     '(retv, returned, symbol0, _) := puff_codes_symbol symbol in
      if returned =? 1
      then Err retv
      else
       if puff_codes_is_literal symbol0
       then codes_literal_m c s0 symbol0
       else if puff_codes_is_length symbol0 then codes_length_m c dc s0 symbol0 else Ok (negb (puff_codes_again symbol0), s0)).
Proof. exact gen_codes_step. Qed.
Print Assumptions C07_gen_codes_step.

Theorem C07_gen_codes_done :
  puff_codes_done = (0, 1, 1).
Proof. exact gen_codes_done. Qed.
Print Assumptions C07_gen_codes_done.

Theorem C07_gen_codes_literal :
  forall (c : pcfg) (s : pstate) (symbol : Z),
    codes_literal_m c s symbol =
    (let
     '(retv, returned, widx, wval, outcnt', _) := puff_codes_literal (if c_nil c then 0 else 1) (p_outcnt s) (c_outlen c) symbol in
      if returned =? 1
      then Err retv
      else
       if c_nil c
       then
        Ok
          (false,
           {| p_out := p_out s; p_outcnt := outcnt'; p_in := p_in s; p_incnt := p_incnt s; p_bitbuf := p_bitbuf s; p_bitcnt := p_bitcnt s |})
       else
        if (0 <=? widx) && (widx <? c_outcap c)
        then
         Ok
           (false,
            {|
              p_out := wval :: p_out s; p_outcnt := outcnt'; p_in := p_in s; p_incnt := p_incnt s; p_bitbuf := p_bitbuf s; p_bitcnt := p_bitcnt s
            |})
        else Oob).
Proof. exact gen_codes_literal. Qed.
Print Assumptions C07_gen_codes_literal.

Theorem C07_gen_codes_length :
  forall symbol ln0 eb : Z,
    257 <= symbol < 2 ^ 30 ->
    0 <= eb < 2 ^ 20 ->
    puff_codes_length symbol ln0 eb =
    (if 29 <=? symbol - 257
     then (-10, 1, 0, symbol - 257, ln0, 1)
     else (0, 0, puff_lext (symbol - 257), symbol - 257, puff_lens (symbol - 257) + eb, 0)).
Proof. exact gen_codes_length. Qed.
Print Assumptions C07_gen_codes_length.

Theorem C07_gen_codes_dist :
  forall dsym dist0 eb2 outcnt : Z,
    - 2 ^ 30 <= dsym < 2 ^ 30 ->
    0 <= eb2 < 2 ^ 20 ->
    puff_codes_dist dsym dist0 eb2 outcnt =
    (if dsym <? 0
     then (dsym, 1, 0, dsym, dist0, 1)
     else
      let dist := u32 (puff_dists dsym + eb2) in
      if outcnt <? dist then (-11, 1, puff_dext dsym, dsym, dist, 1) else (0, 0, puff_dext dsym, dsym, dist, 0)).
Proof. exact gen_codes_dist. Qed.
Print Assumptions C07_gen_codes_dist.

Theorem C07_gen_codes_copy :
  forall (c : pcfg) (s : pstate) (ln dist : Z),
    0 <= ln < 2 ^ 31 ->
    codes_copy_m c s ln dist =
    (if p_outcnt s <? dist
     then Err (-11)
     else
      if puff_codes_writes (if c_nil c then 0 else 1)
      then
       let
       '(retv, returned, _) := puff_codes_full (p_outcnt s) ln (c_outlen c) in
        if returned =? 1 then Err retv else ' s1 <- copy_back (Z.to_nat ln) c s dist;; Ok (false, s1)
      else
       let
       '(outcnt', _) := puff_codes_skip (p_outcnt s) ln in
        Ok
          (false,
           {| p_out := p_out s; p_outcnt := outcnt'; p_in := p_in s; p_incnt := p_incnt s; p_bitbuf := p_bitbuf s; p_bitcnt := p_bitcnt s |})).
Proof. exact gen_codes_copy. Qed.
Print Assumptions C07_gen_codes_copy.

Theorem C07_gen_codes_copy_step :
  forall (k : nat) (c : pcfg) (s : pstate) (dist : Z) (outf : Z -> Z) (ln v : Z),
    out_back s dist = Ok v ->
    outf (p_outcnt s - dist) = v ->
    byte v ->
    0 < ln < 2 ^ 31 ->
    0 <= dist <= p_outcnt s ->
    p_outcnt s < 2 ^ 63 ->
    copy_back (S k) c s dist =
    (let
     '(_, widx, wval, _, outcnt', _) := puff_codes_copy_step outf ln (p_outcnt s) dist in
      if (0 <=? widx) && (widx <? c_outcap c)
      then
       copy_back k c
         {| p_out := wval :: p_out s; p_outcnt := outcnt'; p_in := p_in s; p_incnt := p_incnt s; p_bitbuf := p_bitbuf s; p_bitcnt := p_bitcnt s |}
         dist
      else Oob).
Proof. exact gen_codes_copy_step. Qed.
Print Assumptions C07_gen_codes_copy_step.

Theorem C07_gen_codes_copy_end :
  forall (outf : Z -> Z) (outcnt dist : Z), puff_codes_copy_step outf 0 outcnt dist = (0, 0, 0, -1, outcnt, 1).
Proof. exact gen_codes_copy_end. Qed.
Print Assumptions C07_gen_codes_copy_end.

Theorem C07_gen_dynamic_counts :
  forall v1 v2 v3 : Z,
    0 <= v1 < 32 ->
    0 <= v2 < 32 ->
    0 <= v3 < 16 ->
    puff_dynamic_counts v1 v2 v3 =
    (let bad := (MAXLCODES <? v1 + 257) || (MAXDCODES <? v2 + 1) in
     (5, 5, 4, if bad then -3 else 0, if bad then 1 else 0, v1 + 257, v2 + 1, v3 + 4, if bad then 1 else 0)).
Proof. exact gen_dynamic_counts. Qed.
Print Assumptions C07_gen_dynamic_counts.

Theorem C07_gen_dynamic_head :
  forall (c : pcfg) (s : pstate),
    dynamic c s =
    ' (v1, s0) <- bits c s 5;;
    ' (v2, s1) <- bits c s0 5;;
    ' (v3, s2) <- bits c s1 4;;
    (if (MAXLCODES <? v1 + 257) || (MAXDCODES <? v2 + 1)
     then Err (-3)
     else
      let nlen := v1 + 257 in
      let ndist := v2 + 1 in
      let ncode := v3 + 4 in
      ' (s3, lengths) <- read_cl (Z.to_nat ncode) (fst puff_dynamic_read_init) c s2 (repeat 0 316);;
      ' lengths0 <- zero_cl (Z.to_nat (19 - ncode)) ncode lengths;;
      ' (err, lencode) <- construct {| h_count := repeat 0 16; h_symbol := repeat 0 286 |} lengths0 0 19;;
      (let
       '(_, retv, returned, _, index, _) := puff_dynamic_clcode err 0 in
        if returned =? 1
        then Err retv
        else
         ' (s4, lengths1) <- read_lengths 320 c lencode s3 lengths0 index nlen ndist;;
         ' l256 <- rd lengths1 256;;
         (let
          '(retv0, returned0, _) := puff_dynamic_eob (fun _ : Z => l256) in
           if returned0 =? 1
           then Err retv0
           else
            ' (err0, lencode0) <- construct lencode lengths1 0 nlen;;
            ' c0 <- rd (h_count lencode0) 0;;
            ' c1 <- rd (h_count lencode0) 1;;
            (if negb (err0 =? 0) && ((err0 <? 0) || negb (nlen =? c0 + c1))
             then Err (-7)
             else
              ' (err1, distcode) <- construct {| h_count := repeat 0 16; h_symbol := repeat 0 30 |} lengths1 nlen ndist;;
              ' d0 <- rd (h_count distcode) 0;;
              ' d1 <- rd (h_count distcode) 1;;
              (if negb (err1 =? 0) && ((err1 <? 0) || negb (ndist =? d0 + d1))
               then Err (-8)
               else let '(_, _, _) := puff_dynamic_codes 0 in codes c lencode0 distcode s4))))).
Proof. exact gen_dynamic_head. Qed.
Print Assumptions C07_gen_dynamic_head.

Theorem C07_gen_dynamic_read :
  forall (k : nat) (index : Z) (c : pcfg) (s : pstate) (lengths : list Z) (ncode : Z),
    0 <= index < ncode ->
    ncode <= 19 ->
    (forall (v : Z) (s1 : pstate), bits c s 3 = Ok (v, s1) -> 0 <= v < 8) ->
    read_cl (S k) index c s lengths =
    ' (v, s1) <- bits c s 3;;
    (let
     '(arg1, widx, wval, index', _) := puff_dynamic_read_step index ncode v in
      if negb (arg1 =? 3)
      then NoFuel
      else ' o <- rd order index;; (if negb (o =? widx) then NoFuel else ' l1 <- wr lengths widx wval;; read_cl k index' c s1 l1)).
Proof. exact gen_dynamic_read. Qed.
Print Assumptions C07_gen_dynamic_read.

Theorem C07_gen_dynamic_zero :
  forall (k : nat) (index : Z) (lengths : list Z),
    0 <= index < 19 ->
    zero_cl (S k) index lengths =
    (let
     '(widx, wval, index', _) := puff_dynamic_zero_step index in
      ' o <- rd order index;; (if negb (o =? widx) then NoFuel else ' l1 <- wr lengths widx wval;; zero_cl k index' l1)).
Proof. exact gen_dynamic_zero. Qed.
Print Assumptions C07_gen_dynamic_zero.

Theorem C07_gen_dynamic_loops_end :
  forall ncode v : Z, puff_dynamic_read_step ncode ncode v = (0, 0, 0, ncode, 1) /\ puff_dynamic_zero_step 19 = (0, 0, 19, 1).
Proof. exact gen_dynamic_loops_end. Qed.
Print Assumptions C07_gen_dynamic_loops_end.

Theorem C07_gen_dynamic_lengths_step :
  forall (lf : Z -> Z) (index nlen ndist sym0 len0 dsym b1 b2 b3 : Z),
    0 <= index < 2 ^ 20 ->
    0 <= nlen < 2 ^ 20 ->
    0 <= ndist < 2 ^ 20 ->
    - 2 ^ 20 <= dsym < 2 ^ 20 ->
    0 <= b1 < 4 ->
    0 <= b2 < 8 ->
    0 <= b3 < 128 ->
    puff_dynamic_lengths_step lf index nlen ndist sym0 len0 dsym b1 b2 b3 = lengths_step_m lf index nlen ndist sym0 len0 dsym b1 b2 b3.
Proof. exact gen_dynamic_lengths_step. Qed.
Print Assumptions C07_gen_dynamic_lengths_step.

Theorem C07_gen_dynamic_lengths_model :
  forall (f : nat) (c : pcfg) (lc : huff) (s : pstate) (lengths : list Z) (index nlen ndist : Z) (lf : Z -> Z),
    read_lengths (S f) c lc s lengths index nlen ndist =
    (if negb (index <? nlen + ndist)
     then Ok (s, lengths)
     else
      ' (dsym, s1) <- decode c lc s;;
      (if dsym <? 16
       then
        let
        '(retv, returned, widx, wval, _, _, _, _, _, index', _, _) := lengths_step_m lf index nlen ndist 0 0 dsym 0 0 0 in
         if returned =? 1 then Err retv else ' l1 <- wr lengths widx wval;; read_lengths f c lc s1 l1 index' nlen ndist
       else
        ' (ln, symbol, s2) <-
        (if dsym =? 16
         then if index =? 0 then Err (-5) else ' l <- rd lengths (index - 1);; ' (v, s2) <- bits c s1 2;; Ok (l, 3 + v, s2)
         else if dsym =? 17 then ' (v, s2) <- bits c s1 3;; Ok (0, 3 + v, s2) else ' (v, s2) <- bits c s1 7;; Ok (0, 11 + v, s2));;
        (if nlen + ndist <? index + symbol
         then Err (-6)
         else ' l1 <- repeat_len (Z.to_nat symbol) index ln lengths;; read_lengths f c lc s2 l1 (index + symbol) nlen ndist))).
Proof. exact gen_dynamic_lengths_model. Qed.
Print Assumptions C07_gen_dynamic_lengths_model.

Theorem C07_gen_dynamic_repeat :
  forall (k : nat) (index v : Z) (lengths : list Z) (sym : Z),
    0 < sym < 2 ^ 31 ->
    0 <= index < 2 ^ 30 ->
    -32768 <= v < 32768 ->
    repeat_len (S k) index v lengths =
    (let '(_, widx, wval, _, index', _) := puff_dynamic_repeat_step sym index v in ' l1 <- wr lengths widx wval;; repeat_len k index' v l1).
Proof. exact gen_dynamic_repeat. Qed.
Print Assumptions C07_gen_dynamic_repeat.

Theorem C07_gen_dynamic_repeat_end :
  forall index v : Z, puff_dynamic_repeat_step 0 index v = (0, 0, 0, -1, index, 1).
Proof. exact gen_dynamic_repeat_end. Qed.
Print Assumptions C07_gen_dynamic_repeat_end.

Theorem C07_gen_dynamic_lencode :
  forall (cf : Z -> Z) (nlen err : Z),
    - 2 ^ 30 <= cf 0 + cf 1 < 2 ^ 30 ->
    puff_dynamic_lencode cf nlen err =
    (let bad := negb (err =? 0) && ((err <? 0) || negb (nlen =? cf 0 + cf 1)) in
     (nlen, if bad then -7 else 0, if bad then 1 else 0, err, if bad then 1 else 0)).
Proof. exact gen_dynamic_lencode. Qed.
Print Assumptions C07_gen_dynamic_lencode.

Theorem C07_gen_dynamic_distcode :
  forall (cf : Z -> Z) (lengths nlen ndist err : Z),
    - 2 ^ 30 <= cf 0 + cf 1 < 2 ^ 30 ->
    puff_dynamic_distcode cf lengths nlen ndist err =
    (let bad := negb (err =? 0) && ((err <? 0) || negb (ndist =? cf 0 + cf 1)) in
     (lengths + nlen, ndist, if bad then -8 else 0, if bad then 1 else 0, err, if bad then 1 else 0)).
Proof. exact gen_dynamic_distcode. Qed.
Print Assumptions C07_gen_dynamic_distcode.

Theorem C07_gen_puff_init :
  forall dest destlen source sourcelen : Z, puff_init dest destlen source sourcelen = (dest, destlen, 0, source, sourcelen, 0, 0, 0, 0).
Proof. exact gen_puff_init. Qed.
Print Assumptions C07_gen_puff_init.

Theorem C07_gen_puff_block_values :
  forall last type r0 r1 r2 : Z,
    puff_block_step last type r0 r1 r2 =
    (let err := if type =? 0 then r0 else if type =? 1 then r1 else if type =? 2 then r2 else -1 in
     (1, 2, last, type, err, if negb (err =? 0) then 1 else if negb (last =? 0) then 1 else 0)).
Proof. exact gen_puff_block_values. Qed.
Print Assumptions C07_gen_puff_block_values.

Theorem C07_gen_puff_block_step :
  forall (c : pcfg) (s : pstate),
    block_step c s =
    ' (last, s0) <- bits c s 1;;
    ' (type, s1) <- bits c s0 2;;
    (let r := if type =? 0 then stored c s1 else if type =? 1 then fixed c s1 else if type =? 2 then dynamic c s1 else Err (-1) in
     match r with
     | Ok s' => let '(_, _, _, _, _, stop) := puff_block_step last type 0 0 0 in Ok (stop =? 1, s')
     | Err e => Err e
     | Oob => Oob
     | NoFuel => NoFuel
     end).
Proof. exact gen_puff_block_step. Qed.
Print Assumptions C07_gen_puff_block_step.

Theorem C07_gen_puff_finish :
  forall err destlen sourcelen outcnt incnt : Z,
    puff_finish err destlen sourcelen outcnt incnt = (err, 1, if err <=? 0 then outcnt else destlen, if err <=? 0 then incnt else sourcelen, 1).
Proof. exact gen_puff_finish. Qed.
Print Assumptions C07_gen_puff_finish.

Theorem C07_gen_puff_jump :
  puff_jump_error = (2, 0) /\ (forall r : Z, puff_came_back r = negb (r =? 0)).
Proof. exact gen_puff_jump. Qed.
Print Assumptions C07_gen_puff_jump.

Theorem C07_gen_b64_step_a :
  forall (pc : Z) (pt : list Z) (c : Z),
    0 <= dec_value c < 64 ->
    dec_char Sa pc pt c = (let '(widx, wval, _) := b64d_step_a_store pc (dec_value c) in ' pt1 <- wr pt widx (u8 wval);; Ok (Sb, pc, pt1)).
Proof. exact gen_b64_step_a. Qed.
Print Assumptions C07_gen_b64_step_a.

Theorem C07_gen_b64_step_b :
  forall (pc : Z) (pt : list Z) (c : Z) (pt_at : Z -> Z),
    0 <= dec_value c < 64 ->
    (forall v : Z, rd pt pc = Ok v -> byte v /\ pt_at pc = s8 v) ->
    dec_char Sb pc pt c =
    (let
     '(w1, v1, w2, v2, pc', _) := b64d_step_b_store pt_at pc (dec_value c) in
      ' _ <- rd pt pc;; ' pt1 <- wr pt w1 (u8 v1);; ' pt2 <- wr pt1 w2 (u8 v2);; Ok (Sc, pc', pt2)).
Proof. exact gen_b64_step_b. Qed.
Print Assumptions C07_gen_b64_step_b.

Theorem C07_gen_b64_step_c :
  forall (pc : Z) (pt : list Z) (c : Z) (pt_at : Z -> Z),
    0 <= dec_value c < 64 ->
    (forall v : Z, rd pt pc = Ok v -> byte v /\ pt_at pc = s8 v) ->
    dec_char Sc pc pt c =
    (let
     '(w1, v1, w2, v2, pc', _) := b64d_step_c_store pt_at pc (dec_value c) in
      ' _ <- rd pt pc;; ' pt1 <- wr pt w1 (u8 v1);; ' pt2 <- wr pt1 w2 (u8 v2);; Ok (Sd, pc', pt2)).
Proof. exact gen_b64_step_c. Qed.
Print Assumptions C07_gen_b64_step_c.

Theorem C07_gen_b64_step_d :
  forall (pc : Z) (pt : list Z) (c : Z) (pt_at : Z -> Z),
    0 <= dec_value c < 64 ->
    (forall v : Z, rd pt pc = Ok v -> byte v /\ pt_at pc = s8 v) ->
    dec_char Sd pc pt c =
    (let '(w1, v1, pc', _) := b64d_step_d_store pt_at pc (dec_value c) in ' _ <- rd pt pc;; ' pt1 <- wr pt w1 (u8 v1);; Ok (Sa, pc', pt1)).
Proof. exact gen_b64_step_d. Qed.
Print Assumptions C07_gen_b64_step_d.

Theorem C07_gen_b64_fetch :
  forall (pt_at code_at : Z -> Z) (codechar code_in length_in st plainchar plaintext_out fragment ret st_step st_plain : Z),
    let r :=
      if codechar =? code_in + length_in
      then (u64 (s64 (plainchar - plaintext_out)), 1, 0, u32 st, pt_at plainchar, fragment, codechar, 1)
      else (0, 0, code_at codechar, st_step, st_plain, ret, codechar + 1, if negb (ret <? 0) then 1 else 0) in
    b64d_step_a_fetch pt_at code_at codechar code_in length_in st plainchar plaintext_out fragment ret st_step st_plain = r /\
    b64d_step_b_fetch pt_at code_at codechar code_in length_in st plainchar plaintext_out fragment ret st_step st_plain = r /\
    b64d_step_c_fetch pt_at code_at codechar code_in length_in st plainchar plaintext_out fragment ret st_step st_plain = r /\
    b64d_step_d_fetch pt_at code_at codechar code_in length_in st plainchar plaintext_out fragment ret st_step st_plain = r.
Proof. exact gen_b64_fetch. Qed.
Print Assumptions C07_gen_b64_fetch.

Theorem C07_gen_b64_enter :
  forall (code pt : list Z) (st : dstate),
    decode_block code pt st =
    (let
     '(widx, wval, _) := b64d_enter 0 (d_plain st) in
      ' pt0 <- wr pt widx wval;;
      ' (s1, pc1, pt1) <- dec_chars code (d_step st) 0 pt0;; ' v <- rd pt1 pc1;; Ok (pc1, pt1, {| d_step := s1; d_plain := v |})).
Proof. exact gen_b64_enter. Qed.
Print Assumptions C07_gen_b64_enter.

Theorem C07_gen_b64_skip :
  forall (stp : dstep) (pc : Z) (pt : list Z) (c : Z), dec_value c < 0 -> dec_char stp pc pt c = Ok (stp, pc, pt).
Proof. exact gen_b64_skip. Qed.
Print Assumptions C07_gen_b64_skip.

Theorem C07_gen_nonu_header :
  forall (src_at : Z -> Z) (a b src_size u0 u1 p : Z),
    byte a ->
    byte b ->
    u8 (src_at 0) = a ->
    u8 (src_at 1) = b ->
    2 <= src_size < 2 ^ 63 ->
    nonu_header src_at src_size u0 u1 p =
    (if negb (Z.land a 143 =? 8)
     then (-1, 1, a, u1, p, src_size, 1)
     else
      if negb ((u32 (shl a 8) + b) mod 31 =? 0)
      then (-1, 1, a, b, p, src_size, 1)
      else if negb (Z.land b 32 =? 0) then (-1, 1, a, b, p, src_size, 1) else (0, 0, a, b, p + 2, src_size - 2, 0)).
Proof. exact gen_nonu_header. Qed.
Print Assumptions C07_gen_nonu_header.

Theorem C07_gen_nonu_model :
  forall (a b : Z) (rest : list Z) (dest_size dest_cap : Z) (dest_nil : bool),
    byte a ->
    byte b ->
    len rest < 2 ^ 62 ->
    nonuncompress (a :: b :: rest) dest_size dest_cap dest_nil =
    (let
     '(retv, returned, _, _, p, ssz, _) := nonu_header (fun k : Z => if k =? 0 then a else b) (len (a :: b :: rest)) 0 0 0 in
      if returned =? 1 then Err retv else if negb ((p =? 2) && (ssz =? len rest)) then NoFuel else nonu_body rest dest_size dest_cap dest_nil).
Proof. exact gen_nonu_model. Qed.
Print Assumptions C07_gen_nonu_model.

Theorem C07_gen_nonu_block :
  forall src_size dl0 sl0 adler src dest dest_size fb puff_ret dl sl adler' : Z,
    nonu_block src_size dl0 sl0 adler src dest dest_size fb puff_ret dl sl adler' =
    (if src_size <? 5
     then (-1, 1, 0, dl0, sl0, adler, src, src_size, dest, dest_size, fb, 1)
     else
      if negb (puff_ret =? 0)
      then (-1, 1, 0, dl, sl, adler, src, src_size, dest, dest_size, fb, 1)
      else
       if negb (dl =? dest_size) || negb (sl =? u64 (src_size - 4))
       then (-1, 1, 0, dl, sl, adler, src, src_size, dest, dest_size, fb, 1)
       else (0, 0, dest_size, dl, sl, adler', src + sl, 4, dest + dl, 0, 1, 1)).
Proof. exact gen_nonu_block. Qed.
Print Assumptions C07_gen_nonu_block.

Theorem C07_gen_nonu_trailer :
  forall (src_at : Z -> Z) (t0 t1 t2 t3 adler : Z),
    byte t0 ->
    byte t1 ->
    byte t2 ->
    byte t3 ->
    0 <= adler < 2 ^ 32 ->
    src_at 0 = s8 t0 ->
    src_at 1 = s8 t1 ->
    src_at 2 = s8 t2 ->
    src_at 3 = s8 t3 -> nonu_trailer src_at 4 0 adler = (if list_eq_dec Z.eq_dec [t0; t1; t2; t3] (be4 adler) then (0, 1, 1) else (-1, 1, 1)).
Proof. exact gen_nonu_trailer. Qed.
Print Assumptions C07_gen_nonu_trailer.

Theorem C07_gen_info_tests :
  forall n r : Z,
    info_short n = (if n <? 12 then (-1, 1, 1) else (0, 0, 0)) /\
    info_decode12 r = (0, 12, 12, if negb (r =? 9) then -1 else 0, if negb (r =? 9) then 1 else 0, r, if negb (r =? 9) then 1 else 0).
Proof. exact gen_info_tests. Qed.
Print Assumptions C07_gen_info_tests.

Theorem C07_gen_info_model :
  forall data : list Z,
    sc_decode_info data =
    (let
     '(retv, returned, _) := info_short (len data) in
      if returned =? 1
      then Err retv
      else
       ' code <- slice data 0 12;;
       ' (osize, dec, _) <- decode_block code (repeat 0 12) d_init;;
       (let
        '(_, n1, n2, retv0, returned0, _, _) := info_decode12 osize in
         if negb ((n1 =? 12) && (n2 =? 12))
         then NoFuel
         else if returned0 =? 1 then Err retv0 else ' hdr <- slice dec 0 8;; ' fc <- rd dec 8;; Ok (be_value hdr 0, fc))).
Proof. exact gen_info_model. Qed.
Print Assumptions C07_gen_info_model.

Theorem C07_gen_info_size_step :
  forall (dec : Z -> Z) (i uc osize x : Z) (r : list Z),
    0 <= i < 8 ->
    len r = 7 - i ->
    byte x ->
    u8 (dec i) = x ->
    info_size_step dec i uc osize = (x, Z.lor osize (u64 (shl x (Z.of_nat (length r) * 8))), i + 1, 0) /\
    be_value (x :: r) osize = be_value r (Z.lor osize (u64 (shl x (Z.of_nat (length r) * 8)))) /\
    dec_size_step dec i osize = (Z.lor osize (u64 (shl x (Z.of_nat (length r) * 8))), i + 1, 0).
Proof. exact gen_info_size_step. Qed.
Print Assumptions C07_gen_info_size_step.

Theorem C07_gen_size_loop_end :
  forall (dec : Z -> Z) (uc osize : Z), info_size_step dec 8 uc osize = (uc, osize, 8, 1) /\ dec_size_step dec 8 osize = (osize, 8, 1).
Proof. exact gen_size_loop_end. Qed.
Print Assumptions C07_gen_size_loop_end.

Theorem C07_gen_info_format :
  forall (dec : Z -> Z) (p : Z), info_format dec p = (p, dec 8, 0).
Proof. exact gen_info_format. Qed.
Print Assumptions C07_gen_info_format.

Theorem C07_gen_decode_tail :
  forall (unc : list Z -> Z -> Z -> bool -> res (list Z)) (data : list Z) (out : outdesc) (maxsz : Z),
    sc_decode_with unc data out maxsz =
    (let encoded_size := len data in
     if encoded_size =? 0
     then Err (-1)
     else
      ' last <- rd data (encoded_size - 1);;
      (if negb (last =? 0)
       then Err (-1)
       else
        let lines := dec_base64_lines encoded_size in
        let csize := dec_compressed_size lines in
        if dec_guard_short encoded_size lines
        then Err (-1)
        else
         let irem := dec_irem encoded_size lines in
         ' (comp, ocnt) <- dec_lines (Z.to_nat lines) encoded_size data 0 irem 0 lines [] 0 csize (repeat 0 76) d_init;;
         decode_tail unc comp ocnt out maxsz)).
Proof. exact gen_decode_tail. Qed.
Print Assumptions C07_gen_decode_tail.

Theorem C07_gen_decode_lines :
  forall (k : nat) (dlen : Z) (irest : list Z) (ipos irem zlin lines : Z) (rcomp : list Z) (ocnt csize : Z) (pt : list Z) (bst : dstate),
    dec_lines (S k) dlen irest ipos irem zlin lines rcomp ocnt csize pt bst =
    (let lein := dec_lein irem in
     if negb ((0 <=? ipos) && (ipos + lein <=? dlen))
     then Oob
     else
      let code := firstn (Z.to_nat lein) irest in
      ' (lout, pt1, bst1) <- decode_block code pt bst;;
      (if dec_line_empty lout
       then Err (-1)
       else
        if dec_line_not_last zlin lines
        then
         if dec_line_mismatch lout
         then Err (-1)
         else
          let
          '(n, ipos', irem', _, ocnt', _) := dec_line_full ipos irem 0 ocnt in
           ' comp1 <- comp_append rcomp ocnt csize pt1 n;;
           dec_lines k dlen (skipn 78 irest) ipos' irem' (zlin + 1) lines comp1 ocnt' csize pt1 bst1
        else
         let
         '(n, ipos', irem', _, ocnt', _) := dec_line_last lout ipos lein irem 0 ocnt in
          ' comp1 <- comp_append rcomp ocnt csize pt1 n;;
          dec_lines k dlen (skipn (Z.to_nat (lein + 2)) irest) (if lein + 2 =? u64 (lein + 2) then ipos' else ipos + (lein + 2)) irem' 
            (zlin + 1) lines comp1 ocnt' csize pt1 bst1)).
Proof. exact gen_decode_lines. Qed.
Print Assumptions C07_gen_decode_lines.

Theorem C07_gen_decode_loop_test :
  forall zlin lines : Z, dec_more_lines zlin lines = (zlin <? lines).
Proof. exact gen_decode_loop_test. Qed.
Print Assumptions C07_gen_decode_loop_test.

