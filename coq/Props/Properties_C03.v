(* C03 - reduce/allreduce replacement: right value, one fixed association, the same for every target.
   Global model: C03/ReduceModel.v (treeval); sc_search_bias and the constants are generated from /repo. *)
From Coq Require Import ZArith List Bool.
From ScV Require Import Base.CInt Gen.Consts Gen.Macros C03.ReduceModel C03.ReduceProofs C18.MacroProofs.
From ScV Require Import MPI.Prog MPI.Sem MPI.SemFrame MPI.SemPosted C03.ReduceSched C03.ReducePosted.
Import ListNotations.
Local Open Scope Z_scope.

(* For every associative operation (commutativity is NOT needed) and every communicator size the value every
   target obtains - and every rank in allreduce - is the fold of the operands in rank order:
   x0 (op) x1 (op) ... (op) x(P-1) with recvbuf on the left.  The model's value does not mention the target. *)
Theorem C03_rank_order_fold : forall (T : Type) (f : T -> T -> T) (P : Z) (x : Z -> T),
  (forall a b c, op T f (op T f a b) c = op T f a (op T f b c)) -> 1 <= P ->
  reduce_result T f P x = fold1 T f (x 0) (vals T x 1 (Z.to_nat P - 1)).
Proof. exact reduce_fold. Qed.
Print Assumptions C03_rank_order_fold.

(* every node of the balanced tree, for every depth: the existing leaves under it, folded in rank order *)
Theorem C03_every_node : forall (T : Type) (f : T -> T -> T),
  (forall a b c, op T f (op T f a b) c = op T f a (op T f b c)) ->
  forall (P : Z) (x : Z -> T) d br m, m = Z.of_nat d -> 0 <= br -> br * 2 ^ Z.of_nat d < P ->
  forall M, Z.of_nat d <= M ->
  treeval T f P M x d br =
  fold1 T f (x (br * 2 ^ Z.of_nat d)) (vals T x (br * 2 ^ Z.of_nat d + 1) (nleaves P d br - 1)).
Proof. exact stdval_fold. Qed.
Print Assumptions C03_every_node.

(* the depth used by the code, SC_LOG2_32 (P - 1) + 1 with the GENERATED macro, covers all ranks *)
Theorem C03_maxlevel : forall P, 1 <= P -> 0 <= maxlevel P /\ P <= 2 ^ maxlevel P.
Proof. exact maxlevel_cover. Qed.
Print Assumptions C03_maxlevel.

Theorem C03_maxlevel_generated : forall P, 2 <= P <= 2 ^ 31 -> w_sc_log2_32 (P - 1) + 1 = maxlevel P.
Proof. exact maxlevel_generated. Qed.
Print Assumptions C03_maxlevel_generated.

Example C03_nonvacuous :
  (* string-like concatenation is associative and not commutative *)
  reduce_result (list Z) (fun s r => r ++ s) 11 (fun i => [i]) = [0; 1; 2; 3; 4; 5; 6; 7; 8; 9; 10].
Proof. vm_compute. reflexivity. Qed.

(* ==== from the per-rank programs to the global tree model, under EVERY message timing =====================
   The system (red_start P target): rank r (0 <= r < P) runs the per-rank program
   `reduce_prog P (maxlevel P) false target r` of C03/ReduceModel.v - the program that is co-simulated against the
   trace of the real sc_reduce on every run - in the interleaving semantics of MPI/Sem.v (buffered sends, FIFO
   channels per (source, destination, tag)); all channels are empty at the start.
   For every communicator size 1 <= P <= 2^30 (the range in which the int arithmetic of the GENERATED
   sc_search_bias does not overflow) and every target: there are n and a state f with
   (1) some schedule reaches f in n steps, f is final (every rank has returned), the target has returned the
       symbolic value of the global tree model, and NO message is left in any channel; and for EVERY schedule
       prefix `run m (red_start P target) s'`:
   (2) m <= n and s' can be completed to f in exactly n - m steps (termination),
   (3) if s' is final it IS f (the same result on every repetition and under every message timing),
   (4) s' is final or some rank can move (no deadlock). *)
Theorem C03_reduce_every_schedule : forall P target, 1 <= P <= 2 ^ 30 -> 0 <= target < P ->
  exists (n : nat) (f : gs),
    run n (red_start P target) f /\ final f /\
    pr f target = Ret (sym_reduce_result P) /\
    (forall a b t, ch f a b t = []) /\
    forall m s', run m (red_start P target) s' ->
      (m <= n)%nat /\ run (n - m) s' f /\
      (final s' -> s' = f /\ m = n) /\
      (final s' \/ exists r s'', step s' r s'').
Proof. exact reduce_all_schedules. Qed.
Print Assumptions C03_reduce_every_schedule.

(* the witness schedule itself needs no axiom *)
Theorem C03_reduce_one_schedule : forall P target, 1 <= P <= 2 ^ 30 -> 0 <= target < P ->
  exists n f, run n (red_start P target) f /\ final f /\ pr f target = Ret (sym_reduce_result P) /\
    (forall a b t, ch f a b t = []).
Proof. exact reduce_one_schedule. Qed.
Print Assumptions C03_reduce_one_schedule.

(* symbolic payloads cover every datatype, every operator and all inputs: interpreting the prefix code of the
   model's symbolic result with a concrete reduce_fn f and concrete inputs x gives reduce_result T f P x, the value
   of the global tree model that C03_rank_order_fold is about *)
Theorem C03_symbolic_result_is_tree : forall (T : Type) (f : T -> T -> T) (x : Z -> T) (P : Z),
  sym_eval f x (S (Z.to_nat (maxlevel P))) (sym_reduce_result P) = Some (reduce_result T f P x, []).
Proof. exact @sym_eval_reduce_result. Qed.
Print Assumptions C03_symbolic_result_is_tree.

(* the upward phase for one subtree (both operations): inside any global state in which the existing ranks of the
   node (l, br) are at their initial program and the channels inside the subtree are empty, the subtree can be
   scheduled - nobody else moves, channels end as they were - until its representative stands at level l with the
   tree value of the node *)
Theorem C03_subtree_schedule : forall P m target, 0 <= m <= 30 -> 1 <= P <= 2 ^ m -> 0 <= target < P ->
  forall (da : bool) A2A d l br, l = m - Z.of_nat d -> (d = 0%nat \/ c_SC_REDUCE_ALLTOALL_LEVEL <= l) -> 0 <= l -> 0 <= br ->
  lft m l br < P ->
  forall s, (forall r, Sub P m l br r -> pr s r = start P m target da A2A r) -> Subch P m l br s ->
  exists n s' KQ, run n s s' /\
    pr s' (rep m target l br) = rec_gen P m da target A2A (S (Z.to_nat l)) l br (V P m l br) KQ /\
    (forall r, ~ Sub P m l br r -> pr s' r = pr s r) /\ (forall a b t, ch s' a b t = ch s a b t) /\
    after P m target da l br s' KQ.
Proof. exact up. Qed.
Print Assumptions C03_subtree_schedule.

(* ==== sc_allreduce: the LITERAL per-rank programs under the POSTED-RECEIVE semantics ==========================
   all_start P: rank r (0 <= r < P) runs `reduce_prog P (maxlevel P) true 0 r` - exactly the program that is extracted
   (Extract/Extract_c03.v) and co-simulated against the trace of the real sc_allreduce on every run (doall = true,
   working target 0); all channels empty (C03_allreduce_start_is_literal).  That program lists the actions of the
   all-to-all window in the order in which sc_reduce_alltoall POSTS them: Irecv(peer_0); Isend(peer_0);
   Irecv(peer_1); Isend(peer_1); ...; then MPI_Waitall on the receives, the combination loops, MPI_Waitall on the sends.

   Semantics: step_p / run_p of MPI/SemPosted.v - the state space of MPI/Sem.v (one program per rank, buffered sends,
   FIFO channels per (source, destination, tag)) with posted receives.  A rank may
   (S) issue its next send although receives posted before it are pending, provided destination, tag and payload
       are the same for every reply of those receives (a send of received data waits for the data); sends are
       issued in posting order;
   (R) complete any posted receive whose message has arrived, behind pending receives for OTHER (source, tag) keys
       only; the reply goes into the program, the rest of the program (what follows Waitall in C) runs when all
       receives in front of it are complete.
   With no pending receive in front, (S) and (R) are the steps of Sem.v: every schedule of the blocking semantics is
   a schedule of the posted one (C03_posted_extends_blocking).  This is the faithful reading of
   Irecv/Isend/Waitall: a posted Irecv does not hold back the requests posted after it, and Waitall hands the
   payloads to the computation when all receives are complete.  Read with blocking receives the literal system is
   stuck from the start (C03_allreduce_posting_order_blocks, P = 2); under step_p it is not
   (C03_allreduce_posting_order_runs).

   THEOREM.  For every communicator size 1 <= P <= 2^30 there is n such that
   (1) some schedule takes all_start P in n steps to all_end P: every rank r < P has returned
       `sym_reduce_result P`, the symbolic value of the global tree model - the same on all ranks, the one sc_reduce
       delivers to any target - and all channels are empty (C03_allreduce_final_state); and for EVERY schedule prefix
       `run_p m (all_start P) s'`:
   (2) m <= n and s' can be completed to all_end P in exactly n - m steps (termination),
   (3) if s' is final it IS all_end P (same result under every message timing and every completion order),
   (4) s' is final or some rank can move (no reachable state is stuck). *)
Theorem C03_allreduce_every_schedule : forall P, 1 <= P <= 2 ^ 30 ->
  exists n : nat,
    run_p n (all_start P) (all_end P) /\
    forall m s', run_p m (all_start P) s' ->
      (m <= n)%nat /\ run_p (n - m) s' (all_end P) /\
      (final s' -> s' = all_end P /\ m = n) /\
      (final s' \/ exists r s'', step_p s' r s'').
Proof. exact allreduce_all_schedules. Qed.
Print Assumptions C03_allreduce_every_schedule.

Theorem C03_allreduce_start_is_literal : forall P,
  (forall r, 0 <= r < P -> pr (all_start P) r = reduce_prog P (maxlevel P) true 0 r) /\
  (forall r, ~ 0 <= r < P -> pr (all_start P) r = Ret []) /\ (forall a b t, ch (all_start P) a b t = []).
Proof. exact all_start_spec. Qed.
Print Assumptions C03_allreduce_start_is_literal.

(* the posted semantics in general: ONE terminating schedule implies that EVERY schedule terminates in the same
   final state after the same number of steps and that no reachable state is stuck (diamond property of step_p for
   two ranks and for two different steps of one rank) *)
Theorem C03_posted_semantics_confluent : forall s0 f n, run_p n s0 f -> final f ->
  forall m s', run_p m s0 s' ->
    (m <= n)%nat /\ run_p (n - m) s' f /\ (final s' -> s' = f /\ m = n) /\ (final s' \/ exists r s'', step_p s' r s'').
Proof. exact one_schedule_all_schedules_p. Qed.
Print Assumptions C03_posted_semantics_confluent.

Theorem C03_posted_extends_blocking :
  (forall s r s', step s r s' -> step_p s r s') /\ (forall n s s', run n s s' -> run_p n s s').
Proof. split; [exact step_in_step_p|exact run_in_run_p]. Qed.
Print Assumptions C03_posted_extends_blocking.

(* a send whose destination, tag or payload depends on the reply of the receive in front of it is NOT issued early:
   a blocking receive followed by a send of what was received (the recursive levels of sc_reduce) still blocks *)
Theorem C03_posted_send_needs_independence : forall s0 t0 (D T : payload -> Z) (F : payload -> payload) K d t m,
  canS (Do (Recv s0 t0) (fun v => Do (Send (D v) (T v) (F v)) (K v))) d t m -> forall v, D v = d /\ T v = t /\ F v = m.
Proof. exact canS_needs_independence. Qed.
Print Assumptions C03_posted_send_needs_independence.

(* programs in posting order and programs with the sends of a window moved in front of the receives posted before
   them (nbeq, rank by rank; same channels): every terminating schedule of the second system is replayed step by
   step by the first, to the SAME final state, and then all schedules of the first system end there *)
Theorem C03_posting_order_same_result : forall s s' n f,
  (forall r, nbeq (pr s r) (pr s' r)) /\ (forall a b t, ch s a b t = ch s' a b t) -> run_p n s' f -> final f ->
  run_p n s f /\ terminal_for_p s f n.
Proof. exact posting_order_same_result. Qed.
Print Assumptions C03_posting_order_same_result.

(* sc_reduce under the posted semantics (its windows have receives only; the witness schedule of Sem.v is one of
   step_p, confluence of step_p gives all schedules of the larger set) *)
Theorem C03_reduce_every_posted_schedule : forall P target, 1 <= P <= 2 ^ 30 -> 0 <= target < P ->
  exists (n : nat) (f : gs),
    run_p n (red_start P target) f /\ final f /\
    pr f target = Ret (sym_reduce_result P) /\
    (forall a b t, ch f a b t = []) /\
    forall m s', run_p m (red_start P target) s' ->
      (m <= n)%nat /\ run_p (n - m) s' f /\
      (final s' -> s' = f /\ m = n) /\
      (final s' \/ exists r s'', step_p s' r s'').
Proof. exact reduce_all_posted_schedules. Qed.
Print Assumptions C03_reduce_every_posted_schedule.

(* the same statement for the program with the all-to-all window in canonical order (all sends, then the receives)
   under the BLOCKING semantics of Sem.v - the witness schedule that C03_allreduce_every_schedule replays *)
Theorem C03_allreduce_window_every_schedule : forall P, 1 <= P <= 2 ^ 30 ->
  exists n : nat,
    run n (all_start_w P) (all_end P) /\
    forall m s', run m (all_start_w P) s' ->
      (m <= n)%nat /\ run (n - m) s' (all_end P) /\
      (final s' -> s' = all_end P /\ m = n) /\
      (final s' \/ exists r s'', step s' r s'').
Proof. exact allreduce_w_all_schedules. Qed.
Print Assumptions C03_allreduce_window_every_schedule.

(* all_end: EVERY rank has returned the same symbolic value, the one the target of sc_reduce returns, and no
   message is left in any channel *)
Theorem C03_allreduce_final_state : forall P,
  (forall r, 0 <= r < P -> pr (all_end P) r = Ret (sym_reduce_result P)) /\ (forall a b t, ch (all_end P) a b t = []).
Proof. exact all_end_spec. Qed.
Print Assumptions C03_allreduce_final_state.

Theorem C03_allreduce_window_form : forall P m me, nbeq (reduce_prog P m true 0 me) (allreduce_prog_w P m me).
Proof. exact allreduce_prog_window_form. Qed.
Print Assumptions C03_allreduce_window_form.

Theorem C03_allreduce_posting_order_blocks :
  let s0 := mkgs (fun r => if (0 <=? r) && (r <? 2) then reduce_prog 2 (maxlevel 2) true 0 r else Ret []) (fun _ _ _ => []) in
  (forall r s', ~ step s0 r s') /\ ~ final s0.
Proof. exact allreduce_posting_order_blocks. Qed.
Print Assumptions C03_allreduce_posting_order_blocks.

Theorem C03_allreduce_posting_order_runs :
  let s0 := mkgs (fun r => if (0 <=? r) && (r <? 2) then reduce_prog 2 (maxlevel 2) true 0 r else Ret []) (fun _ _ _ => []) in
  (exists s', step_p s0 0 s') /\ (exists s', step_p s0 1 s').
Proof. exact allreduce_posting_order_runs. Qed.
Print Assumptions C03_allreduce_posting_order_runs.

Example C03_schedule_instance :
  (exists n f, run n (red_start 13 7) f /\ final f /\ pr f 7 = Ret (sym_reduce_result 13) /\ (forall a b t, ch f a b t = [])) /\
  sym_eval (fun s r : list Z => r ++ s) (fun i => [i]) 5 (sym_reduce_result 13) = Some ([0; 1; 2; 3; 4; 5; 6; 7; 8; 9; 10; 11; 12], []).
Proof. split; [apply reduce_one_schedule; split; discriminate || reflexivity | vm_compute; reflexivity]. Qed.

(* ===== tie T1: the per-rank model computes what the definitions GENERATED from /repo/src/sc_reduce.c compute =============== *)
(* Gen/ReduceC03.v is regenerated from the working tree on every run (tools/c2g/groups_C03.py); an edit of the arithmetic in
   sc_reduce.c changes a generated definition and the statements below stop checking.  B30 = 2^30. *)
From ScV Require Import Gen.Search Gen.ReduceC03 C03.ReduceGen.
Local Open Scope Z_scope.


(* target = -1 means allreduce: doall is set and the tree of target 0 is used (recursive and all-to-all part) *)
Theorem C03_gen_target : forall t, rec_target t = (t, b2z (t =? -1), if t =? -1 then 0 else t) /\ a2a_target t = (b2z (t =? -1), if t =? -1 then 0 else t).
Proof. exact gen_target. Qed.
Print Assumptions C03_gen_target.

(* myrank, peer = bias (.., branch xor 1, ..), higher = bias (.., level - 1, branch / 2, ..) through the generated sc_search_bias; arguments of the recursive and of the all-to-all call *)
Theorem C03_gen_rec_values : forall m level branch target P orig, 0 <= level <= B30 -> 0 <= branch <= B30 ->
  rec_myrank m level branch target = sc_search_bias m level branch target /\
  rec_peer_higher m level branch target =
    (sc_search_bias m level (Z.lxor branch 1) target, sc_search_bias m (level - 1) (branch / 2) target) /\
  rec_recurse P orig m level branch = (P, orig, m, level - 1, branch / 2) /\
  rec_a2a_args P orig m level branch = (P, orig, m, level, branch).
Proof. exact gen_rec_values. Qed.
Print Assumptions C03_gen_rec_values.

(* the tests of sc_reduce_recursive: level == 0, level <= SC_REDUCE_ALLTOALL_LEVEL, myrank == higher, peer < groupsize, myrank < peer, doall && peer < groupsize *)
Theorem C03_gen_rec_tests : forall level myrank higher peer P (doall : bool), rec_is_leaf level = (level =? 0) /\ rec_is_a2a level = (level <=? c_SC_REDUCE_ALLTOALL_LEVEL) /\
  rec_is_higher myrank higher = (myrank =? higher) /\ rec_peer_exists1 peer P = (peer <? P) /\ rec_peer_exists2 peer P = (peer <? P) /\
  rec_lower_rank myrank peer = (myrank <? peer) /\ rec_send_back (b2z doall) peer P = (doall && (peer <? P)).
Proof. exact gen_rec_tests. Qed.
Print Assumptions C03_gen_rec_tests.

(* all four Recv / Send calls of the recursion use `peer` and SC_TAG_REDUCE *)
Theorem C03_gen_rec_msgs : forall peer tag, (rec_msg1_peer peer tag, rec_msg1_tag peer tag) = (peer, tag) /\ (rec_msg2_peer peer tag, rec_msg2_tag peer tag) = (peer, tag) /\
  (rec_msg3_peer peer tag, rec_msg3_tag peer tag) = (peer, tag) /\ (rec_msg4_peer peer tag, rec_msg4_tag peer tag) = (peer, tag).
Proof. exact gen_rec_msgs. Qed.
Print Assumptions C03_gen_rec_msgs.

(* operand order of reduce_fn: the lower rank's data is the receive buffer; otherwise the result is copied back *)
Theorem C03_gen_rec_combine : forall myrank peer data peerdata sz, rec_combine myrank peer data peerdata sz =
  if myrank <? peer then (1, peerdata, data, 0, 0, 0, 0, 0, 0, 0) else (0, 0, 0, 1, data, peerdata, 1, data, peerdata, sz).
Proof. exact gen_rec_combine. Qed.
Print Assumptions C03_gen_rec_combine.

(* one level of the model's rec_prog written with the generated definitions *)
Theorem C03_gen_rec_prog_step : forall P m (doall : bool) target fu level branch data k, 0 <= level <= B30 -> 0 <= branch <= B30 ->
  rec_prog P m doall target (S fu) level branch data k =
  let myrank := rec_myrank m level branch target in
  if rec_is_leaf level then k data
  else if rec_is_a2a level then a2a_prog P m doall target level branch data k
  else
    let '(peer, higher) := rec_peer_higher m level branch target in
    let '(_, _, _, level', branch') := rec_recurse P target m level branch in
    let tag := c_SC_TAG_REDUCE in
    if rec_is_higher myrank higher then
      let cont (d : payload) :=
        rec_prog P m doall target fu level' branch' d (fun d' =>
          if rec_send_back (b2z doall) peer P then send (rec_msg2_peer peer tag) (rec_msg2_tag peer tag) d' (k d') else k d') in
      if rec_peer_exists1 peer P
      then recv (rec_msg1_peer peer tag) (rec_msg1_tag peer tag) (fun v => cont (if rec_lower_rank myrank peer then sym_f v data else sym_f data v))
      else cont data
    else
      if rec_peer_exists2 peer P
      then send (rec_msg3_peer peer tag) (rec_msg3_tag peer tag) data
                (if doall then recv (rec_msg4_peer peer tag) (rec_msg4_tag peer tag) (fun v => k v) else k data)
      else k data.
Proof. exact gen_rec_prog_step. Qed.
Print Assumptions C03_gen_rec_prog_step.

(* all-to-all part: myrank, allcount = 1 << level = 2^level, peer of slot i, peer2 = bias (.., l + 1, 2 i + 1, ..), loop bounds *)
Theorem C03_gen_a2a_values : forall m level branch target i l, 0 <= level <= 30 -> 0 <= l <= 30 -> 0 <= i <= B30 / 4 ->
  a2a_myrank m level branch target = sc_search_bias m level branch target /\
  a2a_allcount level = 2 ^ level /\
  ReduceC03.a2a_peer m level i target = sc_search_bias m level i target /\
  a2a_peer2 m l i target = sc_search_bias m (l + 1) (2 * i + 1) target /\
  a2a_inner_cond i l = (i <? 2 ^ l) /\ a2a_outer_cond l = (0 <=? l) /\
  a2a_outer_init level = (0, level - 1) /\ a2a_outer_next l l = (l + 1, l - 1).
Proof. exact gen_a2a_values. Qed.
Print Assumptions C03_gen_a2a_values.

(* the tests of sc_reduce_alltoall *)
Theorem C03_gen_a2a_tests : forall (doall : bool) target myrank peer peer2 P, a2a_collects (b2z doall) target myrank = (doall || (target =? myrank)) /\ a2a_is_self peer myrank = (peer =? myrank) /\
  a2a_peer_exists peer P = (peer <? P) /\ a2a_sends_too (b2z doall) = doall /\ a2a_waits_sends (b2z doall) = doall /\
  a2a_peer2_exists peer2 P = (peer2 <? P).
Proof. exact gen_a2a_tests. Qed.
Print Assumptions C03_gen_a2a_tests.

(* peers and tag of its Irecv / Isend / Send calls *)
Theorem C03_gen_a2a_msgs : forall peer target tag, (a2a_recv_peer peer target tag, a2a_recv_tag peer target tag) = (peer, tag) /\
  (a2a_send_peer peer target tag, a2a_send_tag peer target tag) = (peer, tag) /\
  (a2a_send_target_peer peer target tag, a2a_send_target_tag peer target tag) = (target, tag).
Proof. exact gen_a2a_msgs. Qed.
Print Assumptions C03_gen_a2a_msgs.

(* slot i at byte offset i * datasize; reduce_fn (slot (2 i + 1) << shift, slot (2 i) << shift); buffer sizes *)
Theorem C03_gen_a2a_offsets : forall i shift sz allcount request, 0 <= i -> 0 <= shift <= 30 -> (2 * i + 1) * 2 ^ shift <= B30 -> 0 <= sz -> (2 * i + 1) * 2 ^ shift * sz < 2 ^ 62 ->
  0 <= allcount <= B30 -> allcount * sz < 2 ^ 62 ->
  a2a_recv_offset i sz = i * sz /\ a2a_self_offset i sz = i * sz /\
  a2a_combine_send_offset i shift sz = ((2 * i + 1) * 2 ^ shift) * sz /\ a2a_combine_recv_offset i shift sz = ((2 * i) * 2 ^ shift) * sz /\
  a2a_alldata_bytes allcount sz = allcount * sz /\ a2a_requests request allcount = (request, request + allcount).
Proof. exact gen_a2a_offsets. Qed.
Print Assumptions C03_gen_a2a_offsets.

(* one step of the model's posting loop written with the generated definitions *)
Theorem C03_gen_a2a_post_step : forall P m (doall : bool) target i rest level myrank data sl k, 0 <= level <= 30 -> 0 <= i <= B30 / 4 ->
  a2a_post P m doall target (i :: rest) level myrank data sl k =
  let peer := ReduceC03.a2a_peer m level i target in
  let tag := c_SC_TAG_REDUCE in
  if a2a_is_self peer myrank then a2a_post P m doall target rest level myrank data (supd sl i data) k
  else if a2a_peer_exists peer P then
    recv (a2a_recv_peer peer target tag) (a2a_recv_tag peer target tag) (fun v =>
      if a2a_sends_too (b2z doall) then send (a2a_send_peer peer target tag) (a2a_send_tag peer target tag) data
                                            (a2a_post P m doall target rest level myrank data (supd sl i v) k)
      else a2a_post P m doall target rest level myrank data (supd sl i v) k)
  else a2a_post P m doall target rest level myrank data sl k.
Proof. exact gen_a2a_post_step. Qed.
Print Assumptions C03_gen_a2a_post_step.

(* one step of the model's combination loop written with the generated peer2 and its test *)
Theorem C03_gen_a2a_inner_step : forall P m target i rest l shift sl, 0 <= l <= 30 -> 0 <= i <= B30 / 4 ->
  a2a_inner P m target (i :: rest) l shift sl =
  let peer2 := a2a_peer2 m l i target in
  let sl' := if a2a_peer2_exists peer2 P
             then supd sl ((2 * i) * 2 ^ shift) (sym_f (sl ((2 * i + 1) * 2 ^ shift)) (sl ((2 * i) * 2 ^ shift)))
             else sl in
  a2a_inner P m target rest l shift sl'.
Proof. exact gen_a2a_inner_step. Qed.
Print Assumptions C03_gen_a2a_inner_step.

(* the model's a2a_prog written with the generated myrank, collect test, allcount and loop start *)
Theorem C03_gen_a2a_prog : forall P m (doall : bool) target level branch data k, 0 <= level <= 30 ->
  a2a_prog P m doall target level branch data k =
  let myrank := a2a_myrank m level branch target in
  if a2a_collects (b2z doall) target myrank then
    a2a_post P m doall target (map Z.of_nat (seq 0 (Z.to_nat (a2a_allcount level)))) level myrank data (fun _ => []) (fun sl =>
      k (a2a_outer P m target (Z.to_nat level) (snd (a2a_outer_init level)) (fst (a2a_outer_init level)) sl 0))
  else send (a2a_send_target_peer 0 target c_SC_TAG_REDUCE) (a2a_send_target_tag 0 target c_SC_TAG_REDUCE) data (k data).
Proof. exact gen_a2a_prog. Qed.
Print Assumptions C03_gen_a2a_prog.

(* maxlevel = SC_LOG2_32 (mpisize - 1) + 1 as sc_reduce_custom_dispatch computes it = the model's maxlevel; start of the recursion *)
Theorem C03_gen_dispatch : forall P t r, 2 <= P <= B30 ->
  dispatch_maxlevel P = maxlevel P /\ dispatch_args P t (maxlevel P) r = (P, t, maxlevel P, maxlevel P, r).
Proof. exact gen_dispatch. Qed.
Print Assumptions C03_gen_dispatch.

(* the if chains of sc_reduce_max / _min / _sum send every datatype to a loop over the element type dt_spec lists (bytes, signedness, floating) *)
Theorem C03_gen_kernel_tables : reduce_max_types = dt_spec /\ reduce_min_types = dt_spec /\ reduce_sum_types = dt_spec.
Proof. exact gen_kernel_tables. Qed.
Print Assumptions C03_gen_kernel_tables.

(* element operation of the eight integer branches of sc_reduce_max *)
Theorem C03_gen_kernel_max : forall s r i, let f := if r i <? s i then s i else r i in
  reduce_max_char s r i = f /\ reduce_max_short s r i = f /\ reduce_max_ushort s r i = f /\ reduce_max_int s r i = f /\
  reduce_max_unsigned s r i = f /\ reduce_max_long s r i = f /\ reduce_max_ulong s r i = f /\ reduce_max_longlong s r i = f.
Proof. exact gen_kernel_max. Qed.
Print Assumptions C03_gen_kernel_max.

(* ... of sc_reduce_min *)
Theorem C03_gen_kernel_min : forall s r i, let f := if s i <? r i then s i else r i in
  reduce_min_char s r i = f /\ reduce_min_short s r i = f /\ reduce_min_ushort s r i = f /\ reduce_min_int s r i = f /\
  reduce_min_unsigned s r i = f /\ reduce_min_long s r i = f /\ reduce_min_ulong s r i = f /\ reduce_min_longlong s r i = f.
Proof. exact gen_kernel_min. Qed.
Print Assumptions C03_gen_kernel_min.

(* ... of sc_reduce_sum (char, short, unsigned short: promoted to int, wrapped to the element type) *)
Theorem C03_gen_kernel_sum : forall r s i, - 65536 <= r i < 65536 -> - 65536 <= s i < 65536 ->
  reduce_sum_char r s i = s8 (r i + s i) /\ reduce_sum_short r s i = s16 (r i + s i) /\ reduce_sum_ushort r s i = u16 (r i + s i).
Proof. exact gen_kernel_sum. Qed.
Print Assumptions C03_gen_kernel_sum.

(* ... of sc_reduce_sum (int .. long long): the wrapped sum, for ALL values *)
Theorem C03_gen_kernel_sum_wide : forall r s i, reduce_sum_int r s i = s32 (r i + s i) /\ reduce_sum_unsigned r s i = u32 (r i + s i) /\ reduce_sum_long r s i = s64 (r i + s i) /\
  reduce_sum_ulong r s i = u64 (r i + s i) /\ reduce_sum_longlong r s i = s64 (r i + s i).
Proof. exact gen_kernel_sum_wide. Qed.
Print Assumptions C03_gen_kernel_sum_wide.

(* datasize = count * sizeof (datatype) *)
Theorem C03_gen_datasize : forall count ts, 0 <= count < 2 ^ 31 -> 0 <= ts < 2 ^ 31 -> rec_datasize count ts = count * ts.
Proof. exact gen_datasize. Qed.
Print Assumptions C03_gen_datasize.
