(* C03 - reduce/allreduce replacement: right value, one fixed association, the same for every target.
   Global model: C03/ReduceModel.v (treeval); sc_search_bias and the constants are generated from /repo. *)
From Coq Require Import ZArith List Bool.
From ScV Require Import Base.CInt Gen.Consts Gen.Macros C03.ReduceModel C03.ReduceProofs C18.MacroProofs.
From ScV Require Import MPI.Prog MPI.Sem MPI.SemFrame MPI.SemPosted C03.ReduceSched C03.ReducePosted.
Import ListNotations.
Local Open Scope Z_scope.

(* For every associative operation (commutativity is NOT needed) and every communicator size the value every
   target obtains - and every rank in allreduce - is the fold of the operands in rank order:
   x0 (op) x1 (op) ... (op) x(P-1) with recvbuf on the left.  The model's value does not mention the target. *)
Theorem C03_rank_order_fold : forall (T : Type) (f : T -> T -> T) (P : Z) (x : Z -> T),
  (forall a b c, op T f (op T f a b) c = op T f a (op T f b c)) -> 1 <= P ->
  reduce_result T f P x = fold1 T f (x 0) (vals T x 1 (Z.to_nat P - 1)).
Proof. exact reduce_fold. Qed.
Print Assumptions C03_rank_order_fold.

(* every node of the balanced tree, for every depth: the existing leaves under it, folded in rank order *)
Theorem C03_every_node : forall (T : Type) (f : T -> T -> T),
  (forall a b c, op T f (op T f a b) c = op T f a (op T f b c)) ->
  forall (P : Z) (x : Z -> T) d br m, m = Z.of_nat d -> 0 <= br -> br * 2 ^ Z.of_nat d < P ->
  forall M, Z.of_nat d <= M ->
  treeval T f P M x d br =
  fold1 T f (x (br * 2 ^ Z.of_nat d)) (vals T x (br * 2 ^ Z.of_nat d + 1) (nleaves P d br - 1)).
Proof. exact stdval_fold. Qed.
Print Assumptions C03_every_node.

(* the depth used by the code, SC_LOG2_32 (P - 1) + 1 with the GENERATED macro, covers all ranks *)
Theorem C03_maxlevel : forall P, 1 <= P -> 0 <= maxlevel P /\ P <= 2 ^ maxlevel P.
Proof. exact maxlevel_cover. Qed.
Print Assumptions C03_maxlevel.

Theorem C03_maxlevel_generated : forall P, 2 <= P <= 2 ^ 31 -> w_sc_log2_32 (P - 1) + 1 = maxlevel P.
Proof. exact maxlevel_generated. Qed.
Print Assumptions C03_maxlevel_generated.

Example C03_nonvacuous :
  (* string-like concatenation is associative and not commutative *)
  reduce_result (list Z) (fun s r => r ++ s) 11 (fun i => [i]) = [0; 1; 2; 3; 4; 5; 6; 7; 8; 9; 10].
Proof. vm_compute. reflexivity. Qed.

(* ==== from the per-rank programs to the global tree model, under EVERY message timing =====================
   The system (red_start P target): rank r (0 <= r < P) runs the per-rank program
   `reduce_prog P (maxlevel P) false target r` of C03/ReduceModel.v - the program that is co-simulated against the
   trace of the real sc_reduce on every run - in the interleaving semantics of MPI/Sem.v (buffered sends, FIFO
   channels per (source, destination, tag)); all channels are empty at the start.
   For every communicator size 1 <= P <= 2^30 (the range in which the int arithmetic of the GENERATED
   sc_search_bias does not overflow) and every target: there are n and a state f with
   (1) some schedule reaches f in n steps, f is final (every rank has returned), the target has returned the
       symbolic value of the global tree model, and NO message is left in any channel; and for EVERY schedule
       prefix `run m (red_start P target) s'`:
   (2) m <= n and s' can be completed to f in exactly n - m steps (termination),
   (3) if s' is final it IS f (the same result on every repetition and under every message timing),
   (4) s' is final or some rank can move (no deadlock). *)
Theorem C03_reduce_every_schedule : forall P target, 1 <= P <= 2 ^ 30 -> 0 <= target < P ->
  exists (n : nat) (f : gs),
    run n (red_start P target) f /\ final f /\
    pr f target = Ret (sym_reduce_result P) /\
    (forall a b t, ch f a b t = []) /\
    forall m s', run m (red_start P target) s' ->
      (m <= n)%nat /\ run (n - m) s' f /\
      (final s' -> s' = f /\ m = n) /\
      (final s' \/ exists r s'', step s' r s'').
Proof. exact reduce_all_schedules. Qed.
Print Assumptions C03_reduce_every_schedule.

(* the witness schedule itself needs no axiom *)
Theorem C03_reduce_one_schedule : forall P target, 1 <= P <= 2 ^ 30 -> 0 <= target < P ->
  exists n f, run n (red_start P target) f /\ final f /\ pr f target = Ret (sym_reduce_result P) /\
    (forall a b t, ch f a b t = []).
Proof. exact reduce_one_schedule. Qed.
Print Assumptions C03_reduce_one_schedule.

(* symbolic payloads cover every datatype, every operator and all inputs: interpreting the prefix code of the
   model's symbolic result with a concrete reduce_fn f and concrete inputs x gives reduce_result T f P x, the value
   of the global tree model that C03_rank_order_fold is about *)
Theorem C03_symbolic_result_is_tree : forall (T : Type) (f : T -> T -> T) (x : Z -> T) (P : Z),
  sym_eval f x (S (Z.to_nat (maxlevel P))) (sym_reduce_result P) = Some (reduce_result T f P x, []).
Proof. exact @sym_eval_reduce_result. Qed.
Print Assumptions C03_symbolic_result_is_tree.

(* the upward phase for one subtree (both operations, ANY input buffers xin and ANY continuations kk of the ranks - the call may stand
   inside a longer program): inside any global state in which the existing ranks of the
   node (l, br) are at their initial program and the channels inside the subtree are empty, the subtree can be
   scheduled - nobody else moves, channels end as they were - until its representative stands at level l with the
   tree value of the node *)
Theorem C03_subtree_schedule : forall P m target, 0 <= m <= 30 -> 1 <= P <= 2 ^ m -> 0 <= target < P ->
  forall (xin : Z -> payload) (kk : Z -> payload -> prog) (da : bool) A2A d l br,
  l = m - Z.of_nat d -> (d = 0%nat \/ c_SC_REDUCE_ALLTOALL_LEVEL <= l) -> 0 <= l -> 0 <= br ->
  lft m l br < P ->
  forall s, (forall r, Sub P m l br r -> pr s r = start P m target xin kk da A2A r) -> Subch P m l br s ->
  exists n s' KQ, run n s s' /\
    pr s' (rep m target l br) = rec_gen P m da target A2A (S (Z.to_nat l)) l br (V P m xin l br) KQ /\
    (forall r, ~ Sub P m l br r -> pr s' r = pr s r) /\ (forall a b t, ch s' a b t = ch s a b t) /\
    after P m target kk da l br s' KQ.
Proof. exact up. Qed.
Print Assumptions C03_subtree_schedule.

(* ==== sc_allreduce: the LITERAL per-rank programs under the POSTED-RECEIVE semantics ==========================
   all_start P: rank r (0 <= r < P) runs `reduce_prog P (maxlevel P) true 0 r` - exactly the program that is extracted
   (Extract/Extract_c03.v) and co-simulated against the trace of the real sc_allreduce on every run (doall = true,
   working target 0); all channels empty (C03_allreduce_start_is_literal).  That program lists the actions of the
   all-to-all window in the order in which sc_reduce_alltoall POSTS them: Irecv(peer_0); Isend(peer_0);
   Irecv(peer_1); Isend(peer_1); ...; then MPI_Waitall on the receives, the combination loops, MPI_Waitall on the sends.

   Semantics: step_p / run_p of MPI/SemPosted.v - the state space of MPI/Sem.v (one program per rank, buffered sends,
   FIFO channels per (source, destination, tag)) with posted receives.  A rank may
   (S) issue its next send although receives posted before it are pending, provided destination, tag and payload
       are the same for every reply of those receives (a send of received data waits for the data); sends are
       issued in posting order;
   (R) complete any posted receive whose message has arrived, behind pending receives for OTHER (source, tag) keys
       only; the reply goes into the program, the rest of the program (what follows Waitall in C) runs when all
       receives in front of it are complete.
   With no pending receive in front, (S) and (R) are the steps of Sem.v: every schedule of the blocking semantics is
   a schedule of the posted one (C03_posted_extends_blocking).  This is the faithful reading of
   Irecv/Isend/Waitall: a posted Irecv does not hold back the requests posted after it, and Waitall hands the
   payloads to the computation when all receives are complete.  Read with blocking receives the literal system is
   stuck from the start (C03_allreduce_posting_order_blocks, P = 2); under step_p it is not
   (C03_allreduce_posting_order_runs).

   THEOREM.  For every communicator size 1 <= P <= 2^30 there is n such that
   (1) some schedule takes all_start P in n steps to all_end P: every rank r < P has returned
       `sym_reduce_result P`, the symbolic value of the global tree model - the same on all ranks, the one sc_reduce
       delivers to any target - and all channels are empty (C03_allreduce_final_state); and for EVERY schedule prefix
       `run_p m (all_start P) s'`:
   (2) m <= n and s' can be completed to all_end P in exactly n - m steps (termination),
   (3) if s' is final it IS all_end P (same result under every message timing and every completion order),
   (4) s' is final or some rank can move (no reachable state is stuck). *)
Theorem C03_allreduce_every_schedule : forall P, 1 <= P <= 2 ^ 30 ->
  exists n : nat,
    run_p n (all_start P) (all_end P) /\
    forall m s', run_p m (all_start P) s' ->
      (m <= n)%nat /\ run_p (n - m) s' (all_end P) /\
      (final s' -> s' = all_end P /\ m = n) /\
      (final s' \/ exists r s'', step_p s' r s'').
Proof. exact allreduce_all_schedules. Qed.
Print Assumptions C03_allreduce_every_schedule.

Theorem C03_allreduce_start_is_literal : forall P,
  (forall r, 0 <= r < P -> pr (all_start P) r = reduce_prog P (maxlevel P) true 0 r) /\
  (forall r, ~ 0 <= r < P -> pr (all_start P) r = Ret []) /\ (forall a b t, ch (all_start P) a b t = []).
Proof. exact all_start_spec. Qed.
Print Assumptions C03_allreduce_start_is_literal.

(* the posted semantics in general: ONE terminating schedule implies that EVERY schedule terminates in the same
   final state after the same number of steps and that no reachable state is stuck (diamond property of step_p for
   two ranks and for two different steps of one rank) *)
Theorem C03_posted_semantics_confluent : forall s0 f n, run_p n s0 f -> final f ->
  forall m s', run_p m s0 s' ->
    (m <= n)%nat /\ run_p (n - m) s' f /\ (final s' -> s' = f /\ m = n) /\ (final s' \/ exists r s'', step_p s' r s'').
Proof. exact one_schedule_all_schedules_p. Qed.
Print Assumptions C03_posted_semantics_confluent.

Theorem C03_posted_extends_blocking :
  (forall s r s', step s r s' -> step_p s r s') /\ (forall n s s', run n s s' -> run_p n s s').
Proof. split; [exact step_in_step_p|exact run_in_run_p]. Qed.
Print Assumptions C03_posted_extends_blocking.

(* a send whose destination, tag or payload depends on the reply of the receive in front of it is NOT issued early:
   a blocking receive followed by a send of what was received (the recursive levels of sc_reduce) still blocks *)
Theorem C03_posted_send_needs_independence : forall s0 t0 (D T : payload -> Z) (F : payload -> payload) K d t m,
  canS (Do (Recv s0 t0) (fun v => Do (Send (D v) (T v) (F v)) (K v))) d t m -> forall v, D v = d /\ T v = t /\ F v = m.
Proof. exact canS_needs_independence. Qed.
Print Assumptions C03_posted_send_needs_independence.

(* programs in posting order and programs with the sends of a window moved in front of the receives posted before
   them (nbeq, rank by rank; same channels): every terminating schedule of the second system is replayed step by
   step by the first, to the SAME final state, and then all schedules of the first system end there *)
Theorem C03_posting_order_same_result : forall s s' n f,
  (forall r, nbeq (pr s r) (pr s' r)) /\ (forall a b t, ch s a b t = ch s' a b t) -> run_p n s' f -> final f ->
  run_p n s f /\ terminal_for_p s f n.
Proof. exact posting_order_same_result. Qed.
Print Assumptions C03_posting_order_same_result.

(* sc_reduce under the posted semantics (its windows have receives only; the witness schedule of Sem.v is one of
   step_p, confluence of step_p gives all schedules of the larger set) *)
Theorem C03_reduce_every_posted_schedule : forall P target, 1 <= P <= 2 ^ 30 -> 0 <= target < P ->
  exists (n : nat) (f : gs),
    run_p n (red_start P target) f /\ final f /\
    pr f target = Ret (sym_reduce_result P) /\
    (forall a b t, ch f a b t = []) /\
    forall m s', run_p m (red_start P target) s' ->
      (m <= n)%nat /\ run_p (n - m) s' f /\
      (final s' -> s' = f /\ m = n) /\
      (final s' \/ exists r s'', step_p s' r s'').
Proof. exact reduce_all_posted_schedules. Qed.
Print Assumptions C03_reduce_every_posted_schedule.

(* the same statement for the program with the all-to-all window in canonical order (all sends, then the receives)
   under the BLOCKING semantics of Sem.v - the witness schedule that C03_allreduce_every_schedule replays *)
Theorem C03_allreduce_window_every_schedule : forall P, 1 <= P <= 2 ^ 30 ->
  exists n : nat,
    run n (all_start_w P) (all_end P) /\
    forall m s', run m (all_start_w P) s' ->
      (m <= n)%nat /\ run (n - m) s' (all_end P) /\
      (final s' -> s' = all_end P /\ m = n) /\
      (final s' \/ exists r s'', step s' r s'').
Proof. exact allreduce_w_all_schedules. Qed.
Print Assumptions C03_allreduce_window_every_schedule.

(* all_end: EVERY rank has returned the same symbolic value, the one the target of sc_reduce returns, and no
   message is left in any channel *)
Theorem C03_allreduce_final_state : forall P,
  (forall r, 0 <= r < P -> pr (all_end P) r = Ret (sym_reduce_result P)) /\ (forall a b t, ch (all_end P) a b t = []).
Proof. exact all_end_spec. Qed.
Print Assumptions C03_allreduce_final_state.

Theorem C03_allreduce_window_form : forall P m me, nbeq (reduce_prog P m true 0 me) (allreduce_prog_w P m me).
Proof. exact allreduce_prog_window_form. Qed.
Print Assumptions C03_allreduce_window_form.

Theorem C03_allreduce_posting_order_blocks :
  let s0 := mkgs (fun r => if (0 <=? r) && (r <? 2) then reduce_prog 2 (maxlevel 2) true 0 r else Ret []) (fun _ _ _ => []) in
  (forall r s', ~ step s0 r s') /\ ~ final s0.
Proof. exact allreduce_posting_order_blocks. Qed.
Print Assumptions C03_allreduce_posting_order_blocks.

Theorem C03_allreduce_posting_order_runs :
  let s0 := mkgs (fun r => if (0 <=? r) && (r <? 2) then reduce_prog 2 (maxlevel 2) true 0 r else Ret []) (fun _ _ _ => []) in
  (exists s', step_p s0 0 s') /\ (exists s', step_p s0 1 s').
Proof. exact allreduce_posting_order_runs. Qed.
Print Assumptions C03_allreduce_posting_order_runs.

Example C03_schedule_instance :
  (exists n f, run n (red_start 13 7) f /\ final f /\ pr f 7 = Ret (sym_reduce_result 13) /\ (forall a b t, ch f a b t = [])) /\
  sym_eval (fun s r : list Z => r ++ s) (fun i => [i]) 5 (sym_reduce_result 13) = Some ([0; 1; 2; 3; 4; 5; 6; 7; 8; 9; 10; 11; 12], []).
Proof. split; [apply reduce_one_schedule; split; discriminate || reflexivity | vm_compute; reflexivity]. Qed.

(* ==== HISTORIES: sequences of calls, back to back, no barrier, under every interleaving ACROSS the calls =======================
   A call c = (c_all, c_target, c_x): sc_allreduce(_custom) or sc_reduce(_custom) to c_target, rank r contributing the buffer
   named `c_x c r` (ANY payload: buffers of different calls have different lengths, datatypes, operators).  hist_start P cs:
   rank r < P runs `hist_prog P r cs []` - the calls one after the other, each the LITERAL per-rank program `call_prog`
   (= rec_prog of C03/ReduceModel.v in continuation form; reduce_prog, the extracted and co-simulated program, is its
   instance with buffer sym_leaf r and continuation Ret: C03_hist_call_is_reduce_prog), collecting the value of every call in
   which r is the target or which is an allreduce - from an empty network.  All calls use the same tag, nothing separates them.
   hist_end P cs: rank r has returned hist_out P r cs = the values `call_result P c` of those calls, in call order, and every
   channel is empty.  call_result P c = reduce_result payload sym_f P (c_x c): the balanced tree over rank order of THAT call's
   buffers - no target, no schedule, no other call in it (C03_hist_outputs). *)
From ScV Require Import C03.ReduceHist.

(* the literal programs, posted-receive semantics (contains every schedule of the blocking semantics): there is n with
   (1) a schedule of n steps from hist_start to hist_end, and for EVERY schedule prefix run_p m (hist_start P cs) s':
   (2) m <= n and s' is completed to hist_end in n - m steps, (3) final s' -> s' = hist_end, (4) s' is final or can move *)
Theorem C03_hist_every_schedule : forall P cs, 1 <= P <= 2 ^ 30 -> Forall (call_ok P) cs ->
  exists n : nat, run_p n (hist_start P cs) (hist_end P cs) /\
    forall m s', run_p m (hist_start P cs) s' ->
      (m <= n)%nat /\ run_p (n - m) s' (hist_end P cs) /\
      (final s' -> s' = hist_end P cs /\ m = n) /\
      (final s' \/ exists r s'', step_p s' r s'').
Proof. exact hist_all_schedules. Qed.
Print Assumptions C03_hist_every_schedule.

(* histories of sc_reduce / sc_reduce_custom calls (any targets): the literal programs under the BLOCKING semantics of MPI/Sem.v *)
Theorem C03_hist_reduce_every_schedule : forall P cs, 1 <= P <= 2 ^ 30 -> Forall (call_ok P) cs -> Forall (fun c => c_all c = false) cs ->
  exists n : nat, run n (hist_start P cs) (hist_end P cs) /\
    forall m s', run m (hist_start P cs) s' ->
      (m <= n)%nat /\ run (n - m) s' (hist_end P cs) /\
      (final s' -> s' = hist_end P cs /\ m = n) /\
      (final s' \/ exists r s'', step s' r s'').
Proof. exact hist_reduce_all_schedules. Qed.
Print Assumptions C03_hist_reduce_every_schedule.

(* any history with the all-to-all windows of its allreduce calls in canonical window order, blocking semantics *)
Theorem C03_hist_window_every_schedule : forall P cs, 1 <= P <= 2 ^ 30 -> Forall (call_ok P) cs ->
  exists n : nat, run n (hist_start_w P cs) (hist_end P cs) /\
    forall m s', run m (hist_start_w P cs) s' ->
      (m <= n)%nat /\ run (n - m) s' (hist_end P cs) /\
      (final s' -> s' = hist_end P cs /\ m = n) /\
      (final s' \/ exists r s'', step s' r s'').
Proof. exact hist_w_all_schedules. Qed.
Print Assumptions C03_hist_window_every_schedule.

(* the composition step itself (no axiom): inside ANY longer program - every rank of the communicator stands at the call with
   its own continuation k r, all channels empty - the call can be scheduled so that the target / every rank continues with the
   value of the call, the others with something, nobody outside moves and ALL channels are empty again *)
Theorem C03_hist_one_call : forall P (c : call) (k : Z -> payload -> prog) (s : gs), 1 <= P <= 2 ^ 30 -> call_ok P c ->
  (forall r, 0 <= r < P -> pr s r = call_prog_w P r c (k r)) ->
  (forall a b t, ch s a b t = []) ->
  exists n s', run n s s' /\
    (forall r, 0 <= r < P -> has_out c r = true -> pr s' r = k r (call_result P c)) /\
    (forall r, 0 <= r < P -> has_out c r = false -> exists o, pr s' r = k r o) /\
    (forall r, ~ 0 <= r < P -> pr s' r = pr s r) /\
    (forall a b t, ch s' a b t = []).
Proof. exact call_sched. Qed.
Print Assumptions C03_hist_one_call.

(* what the systems are *)
Theorem C03_hist_systems : forall P cs,
  (forall r, 0 <= r < P -> pr (hist_start P cs) r = hist_prog P r cs []) /\
  (forall r, ~ 0 <= r < P -> pr (hist_start P cs) r = Ret []) /\ (forall a b t, ch (hist_start P cs) a b t = []) /\
  (forall r, 0 <= r < P -> pr (hist_end P cs) r = Ret (hist_out P r cs)) /\
  (forall r, ~ 0 <= r < P -> pr (hist_end P cs) r = Ret []) /\ (forall a b t, ch (hist_end P cs) a b t = []) /\
  (forall me c cs' acc, hist_prog P me (c :: cs') acc = call_prog P me c (fun out => hist_prog P me cs' (acc ++ keep c me out))) /\
  (forall me acc, hist_prog P me [] acc = Ret acc).
Proof. exact hist_systems. Qed.
Print Assumptions C03_hist_systems.

Theorem C03_hist_call_is_reduce_prog : forall P doall target me,
  reduce_prog P (maxlevel P) doall (if doall then 0 else target) me = call_prog P me (mkcall doall target sym_leaf) (fun d => Ret d) /\
  (forall c k, call_prog P me c k =
     rec_prog P (maxlevel P) (c_all c) (if c_all c then 0 else c_target c) (S (Z.to_nat (maxlevel P))) (maxlevel P) me (c_x c me) k).
Proof. exact hist_call_is_reduce_prog. Qed.
Print Assumptions C03_hist_call_is_reduce_prog.

(* the outputs: per call its own tree; the target and all ranks of an allreduce keep it *)
Theorem C03_hist_outputs : forall P me c cs,
  hist_out P me (c :: cs) = keep c me (call_result P c) ++ hist_out P me cs /\ hist_out P me [] = [] /\
  keep c me (call_result P c) = (if c_all c || (me =? c_target c) then call_result P c else []) /\
  call_result P c = reduce_result payload sym_f P (c_x c).
Proof. exact hist_outputs. Qed.
Print Assumptions C03_hist_outputs.

(* EVERY CALL RETURNS ITS OWN FOLD, with its own operator on its own type: if the buffers of call c are named by leaves
   g r (any numbering of all buffers of the history), the value of the call read with ANY operator f on ANY type T and any
   assignment x of buffers to names is reduce_result T f P (x o g) - for an associative f the fold x (g 0) op .. op x (g (P-1))
   in rank order (C03_rank_order_fold); `rest` = the values of the later calls, which follow in the output *)
Theorem C03_hist_call_value : forall (T : Type) (f : T -> T -> T) (x : Z -> T) (g : Z -> Z) P c,
  (forall r, c_x c r = sym_leaf (g r)) -> forall rest,
  sym_eval f x (S (Z.to_nat (maxlevel P))) (call_result P c ++ rest) = Some (reduce_result T f P (fun r => x (g r)), rest).
Proof. exact @call_result_eval. Qed.
Print Assumptions C03_hist_call_value.

(* a rank that has returned has returned the values of ITS calls - in every reachable state, wherever the other ranks are *)
Theorem C03_hist_finished_rank : forall P cs, 1 <= P <= 2 ^ 30 -> Forall (call_ok P) cs ->
  forall m s' r out, run_p m (hist_start P cs) s' -> 0 <= r < P -> pr s' r = Ret out -> out = hist_out P r cs.
Proof. exact hist_finished_rank. Qed.
Print Assumptions C03_hist_finished_rank.

(* the literal history is the window-order history with sends moved behind receives posted before them *)
Theorem C03_hist_window_form : forall P me cs acc, nbeq (hist_prog P me cs acc) (hist_prog_w P me cs acc).
Proof. exact hist_prog_nbeq. Qed.
Print Assumptions C03_hist_window_form.

(* non-vacuity: 13 ranks, reduce to 7 / allreduce / reduce to 0 / reduce to 12 / allreduce; and a fast rank: three ranks,
   reduce to 2 twice (different buffers), reduce to 1, allreduce: rank 0 is four calls ahead, channel 0 -> 2 holds the
   messages of calls 1, 2 and 4 while rank 2 waits at its first receive of call 1 *)
Example C03_hist_instance :
  (exists n, run_p n (hist_start 13 ex_hist) (hist_end 13 ex_hist) /\ terminal_for_p (hist_start 13 ex_hist) (hist_end 13 ex_hist) n) /\
  (let cat := fun (s r : list Z) => r ++ s in
   let one := fun i : Z => [i] in
   pr (hist_end 13 ex_hist) 7 = Ret (call_result 13 (nth 0 ex_hist (mkcall true 0 (leaves 0))) ++
                                     call_result 13 (nth 1 ex_hist (mkcall true 0 (leaves 0))) ++
                                     call_result 13 (nth 4 ex_hist (mkcall true 0 (leaves 0)))) /\
   sym_eval cat one 5 (call_result 13 (nth 1 ex_hist (mkcall true 0 (leaves 0)))) =
     Some ([100; 101; 102; 103; 104; 105; 106; 107; 108; 109; 110; 111; 112], [])) /\
  pr (hist_end 13 ex_hist) 3 = Ret (call_result 13 (mkcall true 0 (leaves 1)) ++ call_result 13 (mkcall true 0 (leaves 4))).
Proof. exact ex_hist_schedules. Qed.

Example C03_hist_fast_rank :
  exists s', run 5 (hist_start_w 3 ex_fast) s' /\
    ch s' 0 2 c_SC_TAG_REDUCE = [[0; 0]; [0; 100; 7; 7; 7]; [0; 300]] /\
    (exists k, pr s' 2 = Do (Recv 0 c_SC_TAG_REDUCE) k) /\
    (exists n, run n s' (hist_end 3 ex_fast)) /\
    pr (hist_end 3 ex_fast) 2 =
      Ret (sym_f (sym_leaf 2) (sym_f (sym_leaf 1) (sym_leaf 0)) ++
           sym_f [0; 102; 7; 7; 7] (sym_f [0; 101; 7; 7; 7] [0; 100; 7; 7; 7]) ++
           sym_f (sym_leaf 302) (sym_f (sym_leaf 301) (sym_leaf 300))).
Proof. exact ex_fast_rank. Qed.

(* REUSE OF OUTPUTS: the k-th call of every rank is computed from what the rank has collected so far (dhist_prog: `c acc`); the
   ranks must agree on the kind and the target of each call (dhist_ok, judged with the values the calls really deliver); the
   buffer of rank r is the one rank r computes from ITS outputs.  Literal programs, posted-receive semantics, every schedule. *)
Theorem C03_hist_reuse_every_schedule : forall P cs, 1 <= P <= 2 ^ 30 -> dhist_ok P cs (fun _ => []) ->
  exists n : nat, run_p n (dhist_start P cs) (dhist_end P cs) /\
    forall m s', run_p m (dhist_start P cs) s' ->
      (m <= n)%nat /\ run_p (n - m) s' (dhist_end P cs) /\
      (final s' -> s' = dhist_end P cs /\ m = n) /\
      (final s' \/ exists r s'', step_p s' r s'').
Proof. exact dhist_all_schedules. Qed.
Print Assumptions C03_hist_reuse_every_schedule.

Theorem C03_hist_reuse_systems : forall P cs,
  (forall r, 0 <= r < P -> pr (dhist_start P cs) r = dhist_prog P r cs []) /\
  (forall r, ~ 0 <= r < P -> pr (dhist_start P cs) r = Ret []) /\ (forall a b t, ch (dhist_start P cs) a b t = []) /\
  (forall r, 0 <= r < P -> pr (dhist_end P cs) r = Ret (dhist_out P cs (fun _ => []) r)) /\
  (forall r, ~ 0 <= r < P -> pr (dhist_end P cs) r = Ret []) /\ (forall a b t, ch (dhist_end P cs) a b t = []) /\
  (forall me c cs' acc, dhist_prog P me (c :: cs') acc = call_prog P me (c acc) (fun out => dhist_prog P me cs' (acc ++ keep (c acc) me out))) /\
  (forall me acc, dhist_prog P me [] acc = Ret acc) /\
  (forall c cs' acc, dhist_out P (c :: cs') acc = dhist_out P cs' (fun r => acc r ++ keep (resolve acc c) r (call_result P (resolve acc c)))) /\
  (forall acc, dhist_out P [] acc = acc) /\
  (forall c cs' acc, dhist_ok P (c :: cs') acc <->
     (forall r, 0 <= r < P -> c_all (c (acc r)) = c_all (c (acc 0)) /\ c_target (c (acc r)) = c_target (c (acc 0))) /\ call_ok P (resolve acc c) /\
     dhist_ok P cs' (fun r => acc r ++ keep (resolve acc c) r (call_result P (resolve acc c)))) /\
  (forall acc c, resolve acc c = mkcall (c_all (c (acc 0))) (c_target (c (acc 0))) (fun r => c_x (c (acc r)) r)).
Proof. exact dhist_systems. Qed.
Print Assumptions C03_hist_reuse_systems.

(* 5 ranks: allreduce; reduce to 3 of buffers built from the first result; allreduce of everything collected so far *)
Example C03_hist_reuse_instance :
  (exists n, run_p n (dhist_start 5 ex_dhist) (dhist_end 5 ex_dhist) /\ terminal_for_p (dhist_start 5 ex_dhist) (dhist_end 5 ex_dhist) n) /\
  (let r1 := call_result 5 (mkcall true 0 (leaves 0)) in
   let r2 := call_result 5 (mkcall false 3 (fun r => r :: r1)) in
   let r3 := call_result 5 (mkcall true 0 (fun r => if r =? 3 then r1 ++ r2 else r1)) in
   pr (dhist_end 5 ex_dhist) 3 = Ret (r1 ++ r2 ++ r3) /\ pr (dhist_end 5 ex_dhist) 0 = Ret (r1 ++ r3)).
Proof. exact ex_dhist_schedules. Qed.

(* ===== tie T1: the per-rank model computes what the definitions GENERATED from /repo/src/sc_reduce.c compute =============== *)
(* Gen/ReduceC03.v is regenerated from the working tree on every run (tools/c2g/groups_C03.py); an edit of the arithmetic in
   sc_reduce.c changes a generated definition and the statements below stop checking.  B30 = 2^30. *)
From ScV Require Import Gen.Search Gen.ReduceC03 C03.ReduceGen.
Local Open Scope Z_scope.


(* target = -1 means allreduce: doall is set and the tree of target 0 is used (recursive and all-to-all part) *)
Theorem C03_gen_target : forall t, rec_target t = (t, b2z (t =? -1), if t =? -1 then 0 else t) /\ a2a_target t = (b2z (t =? -1), if t =? -1 then 0 else t).
Proof. exact gen_target. Qed.
Print Assumptions C03_gen_target.

(* myrank, peer = bias (.., branch xor 1, ..), higher = bias (.., level - 1, branch / 2, ..) through the generated sc_search_bias; arguments of the recursive and of the all-to-all call *)
Theorem C03_gen_rec_values : forall m level branch target P orig, 0 <= level <= B30 -> 0 <= branch <= B30 ->
  rec_myrank m level branch target = sc_search_bias m level branch target /\
  rec_peer_higher m level branch target =
    (sc_search_bias m level (Z.lxor branch 1) target, sc_search_bias m (level - 1) (branch / 2) target) /\
  rec_recurse P orig m level branch = (P, orig, m, level - 1, branch / 2) /\
  rec_a2a_args P orig m level branch = (P, orig, m, level, branch).
Proof. exact gen_rec_values. Qed.
Print Assumptions C03_gen_rec_values.

(* the tests of sc_reduce_recursive: level == 0, level <= SC_REDUCE_ALLTOALL_LEVEL, myrank == higher, peer < groupsize, myrank < peer, doall && peer < groupsize *)
Theorem C03_gen_rec_tests : forall level myrank higher peer P (doall : bool), rec_is_leaf level = (level =? 0) /\ rec_is_a2a level = (level <=? c_SC_REDUCE_ALLTOALL_LEVEL) /\
  rec_is_higher myrank higher = (myrank =? higher) /\ rec_peer_exists1 peer P = (peer <? P) /\ rec_peer_exists2 peer P = (peer <? P) /\
  rec_lower_rank myrank peer = (myrank <? peer) /\ rec_send_back (b2z doall) peer P = (doall && (peer <? P)).
Proof. exact gen_rec_tests. Qed.
Print Assumptions C03_gen_rec_tests.

(* all four Recv / Send calls of the recursion use `peer` and SC_TAG_REDUCE *)
Theorem C03_gen_rec_msgs : forall peer tag, (rec_msg1_peer peer tag, rec_msg1_tag peer tag) = (peer, tag) /\ (rec_msg2_peer peer tag, rec_msg2_tag peer tag) = (peer, tag) /\
  (rec_msg3_peer peer tag, rec_msg3_tag peer tag) = (peer, tag) /\ (rec_msg4_peer peer tag, rec_msg4_tag peer tag) = (peer, tag).
Proof. exact gen_rec_msgs. Qed.
Print Assumptions C03_gen_rec_msgs.

(* operand order of reduce_fn: the lower rank's data is the receive buffer; otherwise the result is copied back *)
Theorem C03_gen_rec_combine : forall myrank peer data peerdata sz, rec_combine myrank peer data peerdata sz =
  if myrank <? peer then (1, peerdata, data, 0, 0, 0, 0, 0, 0, 0) else (0, 0, 0, 1, data, peerdata, 1, data, peerdata, sz).
Proof. exact gen_rec_combine. Qed.
Print Assumptions C03_gen_rec_combine.

(* one level of the model's rec_prog written with the generated definitions *)
Theorem C03_gen_rec_prog_step : forall P m (doall : bool) target fu level branch data k, 0 <= level <= B30 -> 0 <= branch <= B30 ->
  rec_prog P m doall target (S fu) level branch data k =
  let myrank := rec_myrank m level branch target in
  if rec_is_leaf level then k data
  else if rec_is_a2a level then a2a_prog P m doall target level branch data k
  else
    let '(peer, higher) := rec_peer_higher m level branch target in
    let '(_, _, _, level', branch') := rec_recurse P target m level branch in
    let tag := c_SC_TAG_REDUCE in
    if rec_is_higher myrank higher then
      let cont (d : payload) :=
        rec_prog P m doall target fu level' branch' d (fun d' =>
          if rec_send_back (b2z doall) peer P then send (rec_msg2_peer peer tag) (rec_msg2_tag peer tag) d' (k d') else k d') in
      if rec_peer_exists1 peer P
      then recv (rec_msg1_peer peer tag) (rec_msg1_tag peer tag) (fun v => cont (if rec_lower_rank myrank peer then sym_f v data else sym_f data v))
      else cont data
    else
      if rec_peer_exists2 peer P
      then send (rec_msg3_peer peer tag) (rec_msg3_tag peer tag) data
                (if doall then recv (rec_msg4_peer peer tag) (rec_msg4_tag peer tag) (fun v => k v) else k data)
      else k data.
Proof. exact gen_rec_prog_step. Qed.
Print Assumptions C03_gen_rec_prog_step.

(* all-to-all part: myrank, allcount = 1 << level = 2^level, peer of slot i, peer2 = bias (.., l + 1, 2 i + 1, ..), loop bounds *)
Theorem C03_gen_a2a_values : forall m level branch target i l, 0 <= level <= 30 -> 0 <= l <= 30 -> 0 <= i <= B30 / 4 ->
  a2a_myrank m level branch target = sc_search_bias m level branch target /\
  a2a_allcount level = 2 ^ level /\
  ReduceC03.a2a_peer m level i target = sc_search_bias m level i target /\
  a2a_peer2 m l i target = sc_search_bias m (l + 1) (2 * i + 1) target /\
  a2a_inner_cond i l = (i <? 2 ^ l) /\ a2a_outer_cond l = (0 <=? l) /\
  a2a_outer_init level = (0, level - 1) /\ a2a_outer_next l l = (l + 1, l - 1).
Proof. exact gen_a2a_values. Qed.
Print Assumptions C03_gen_a2a_values.

(* the tests of sc_reduce_alltoall *)
Theorem C03_gen_a2a_tests : forall (doall : bool) target myrank peer peer2 P, a2a_collects (b2z doall) target myrank = (doall || (target =? myrank)) /\ a2a_is_self peer myrank = (peer =? myrank) /\
  a2a_peer_exists peer P = (peer <? P) /\ a2a_sends_too (b2z doall) = doall /\ a2a_waits_sends (b2z doall) = doall /\
  a2a_peer2_exists peer2 P = (peer2 <? P).
Proof. exact gen_a2a_tests. Qed.
Print Assumptions C03_gen_a2a_tests.

(* peers and tag of its Irecv / Isend / Send calls *)
Theorem C03_gen_a2a_msgs : forall peer target tag, (a2a_recv_peer peer target tag, a2a_recv_tag peer target tag) = (peer, tag) /\
  (a2a_send_peer peer target tag, a2a_send_tag peer target tag) = (peer, tag) /\
  (a2a_send_target_peer peer target tag, a2a_send_target_tag peer target tag) = (target, tag).
Proof. exact gen_a2a_msgs. Qed.
Print Assumptions C03_gen_a2a_msgs.

(* slot i at byte offset i * datasize; reduce_fn (slot (2 i + 1) << shift, slot (2 i) << shift); buffer sizes.  size_t arithmetic: exact
   as long as the products are below 2^64 - the full range of the type *)
Theorem C03_gen_a2a_offsets : forall i shift sz allcount request, 0 <= i -> 0 <= shift <= 30 -> (2 * i + 1) * 2 ^ shift <= B30 -> 0 <= sz -> (2 * i + 1) * 2 ^ shift * sz < 2 ^ 64 ->
  0 <= allcount <= B30 -> allcount * sz < 2 ^ 64 ->
  a2a_recv_offset i sz = i * sz /\ a2a_self_offset i sz = i * sz /\
  a2a_combine_send_offset i shift sz = ((2 * i + 1) * 2 ^ shift) * sz /\ a2a_combine_recv_offset i shift sz = ((2 * i) * 2 ^ shift) * sz /\
  a2a_alldata_bytes allcount sz = allcount * sz /\ a2a_requests request allcount = (request, request + allcount).
Proof. exact gen_a2a_offsets. Qed.
Print Assumptions C03_gen_a2a_offsets.

(* one step of the model's posting loop written with the generated definitions *)
Theorem C03_gen_a2a_post_step : forall P m (doall : bool) target i rest level myrank data sl k, 0 <= level <= 30 -> 0 <= i <= B30 / 4 ->
  a2a_post P m doall target (i :: rest) level myrank data sl k =
  let peer := ReduceC03.a2a_peer m level i target in
  let tag := c_SC_TAG_REDUCE in
  if a2a_is_self peer myrank then a2a_post P m doall target rest level myrank data (supd sl i data) k
  else if a2a_peer_exists peer P then
    recv (a2a_recv_peer peer target tag) (a2a_recv_tag peer target tag) (fun v =>
      if a2a_sends_too (b2z doall) then send (a2a_send_peer peer target tag) (a2a_send_tag peer target tag) data
                                            (a2a_post P m doall target rest level myrank data (supd sl i v) k)
      else a2a_post P m doall target rest level myrank data (supd sl i v) k)
  else a2a_post P m doall target rest level myrank data sl k.
Proof. exact gen_a2a_post_step. Qed.
Print Assumptions C03_gen_a2a_post_step.

(* one step of the model's combination loop written with the generated peer2 and its test *)
Theorem C03_gen_a2a_inner_step : forall P m target i rest l shift sl, 0 <= l <= 30 -> 0 <= i <= B30 / 4 ->
  a2a_inner P m target (i :: rest) l shift sl =
  let peer2 := a2a_peer2 m l i target in
  let sl' := if a2a_peer2_exists peer2 P
             then supd sl ((2 * i) * 2 ^ shift) (sym_f (sl ((2 * i + 1) * 2 ^ shift)) (sl ((2 * i) * 2 ^ shift)))
             else sl in
  a2a_inner P m target rest l shift sl'.
Proof. exact gen_a2a_inner_step. Qed.
Print Assumptions C03_gen_a2a_inner_step.

(* the model's a2a_prog written with the generated myrank, collect test, allcount and loop start *)
Theorem C03_gen_a2a_prog : forall P m (doall : bool) target level branch data k, 0 <= level <= 30 ->
  a2a_prog P m doall target level branch data k =
  let myrank := a2a_myrank m level branch target in
  if a2a_collects (b2z doall) target myrank then
    a2a_post P m doall target (map Z.of_nat (seq 0 (Z.to_nat (a2a_allcount level)))) level myrank data (fun _ => []) (fun sl =>
      k (a2a_outer P m target (Z.to_nat level) (snd (a2a_outer_init level)) (fst (a2a_outer_init level)) sl 0))
  else send (a2a_send_target_peer 0 target c_SC_TAG_REDUCE) (a2a_send_target_tag 0 target c_SC_TAG_REDUCE) data (k data).
Proof. exact gen_a2a_prog. Qed.
Print Assumptions C03_gen_a2a_prog.

(* maxlevel = SC_LOG2_32 (mpisize - 1) + 1 as sc_reduce_custom_dispatch computes it = the model's maxlevel; start of the recursion *)
Theorem C03_gen_dispatch : forall P t r, 2 <= P <= B30 ->
  dispatch_maxlevel P = maxlevel P /\ dispatch_args P t (maxlevel P) r = (P, t, maxlevel P, maxlevel P, r).
Proof. exact gen_dispatch. Qed.
Print Assumptions C03_gen_dispatch.

(* the if chains of sc_reduce_max / _min / _sum send every datatype to a loop over the element type dt_spec lists (bytes, signedness, floating) *)
Theorem C03_gen_kernel_tables : reduce_max_types = dt_spec /\ reduce_min_types = dt_spec /\ reduce_sum_types = dt_spec.
Proof. exact gen_kernel_tables. Qed.
Print Assumptions C03_gen_kernel_tables.

(* element operation of the eight integer branches of sc_reduce_max *)
Theorem C03_gen_kernel_max : forall s r i, let f := if r i <? s i then s i else r i in
  reduce_max_char s r i = f /\ reduce_max_short s r i = f /\ reduce_max_ushort s r i = f /\ reduce_max_int s r i = f /\
  reduce_max_unsigned s r i = f /\ reduce_max_long s r i = f /\ reduce_max_ulong s r i = f /\ reduce_max_longlong s r i = f.
Proof. exact gen_kernel_max. Qed.
Print Assumptions C03_gen_kernel_max.

(* ... of sc_reduce_min *)
Theorem C03_gen_kernel_min : forall s r i, let f := if s i <? r i then s i else r i in
  reduce_min_char s r i = f /\ reduce_min_short s r i = f /\ reduce_min_ushort s r i = f /\ reduce_min_int s r i = f /\
  reduce_min_unsigned s r i = f /\ reduce_min_long s r i = f /\ reduce_min_ulong s r i = f /\ reduce_min_longlong s r i = f.
Proof. exact gen_kernel_min. Qed.
Print Assumptions C03_gen_kernel_min.

(* ... of sc_reduce_sum (char, short, unsigned short: promoted to int, wrapped to the element type) *)
Theorem C03_gen_kernel_sum : forall r s i, - 65536 <= r i < 65536 -> - 65536 <= s i < 65536 ->
  reduce_sum_char r s i = s8 (r i + s i) /\ reduce_sum_short r s i = s16 (r i + s i) /\ reduce_sum_ushort r s i = u16 (r i + s i).
Proof. exact gen_kernel_sum. Qed.
Print Assumptions C03_gen_kernel_sum.

(* ... of sc_reduce_sum (int .. long long): the wrapped sum, for ALL values *)
Theorem C03_gen_kernel_sum_wide : forall r s i, reduce_sum_int r s i = s32 (r i + s i) /\ reduce_sum_unsigned r s i = u32 (r i + s i) /\ reduce_sum_long r s i = s64 (r i + s i) /\
  reduce_sum_ulong r s i = u64 (r i + s i) /\ reduce_sum_longlong r s i = s64 (r i + s i).
Proof. exact gen_kernel_sum_wide. Qed.
Print Assumptions C03_gen_kernel_sum_wide.

(* datasize = count * sizeof (datatype) *)
Theorem C03_gen_datasize : forall count ts, 0 <= count < 2 ^ 31 -> 0 <= ts < 2 ^ 31 -> rec_datasize count ts = count * ts.
Proof. exact gen_datasize. Qed.
Print Assumptions C03_gen_datasize.

(* ===== WHOLE BUFFERS: the operator sees the caller's whole buffers with the caller's count and datatype, once per tree node ===========
   In the model one application of sym_f stands for one call of reduce_fn on two whole buffers.  The statements below tie that reading
   to the source: every call of reduce_fn in sc_reduce_recursive / sc_reduce_alltoall has (whole buffer, whole buffer, count, datatype)
   with count / datatype / data never assigned in those functions and handed unchanged from the entry points down to every level. *)

(* the operator is applied exactly P - 1 times in the tree (treeval read with T = Z, inputs 0, f s r = r + s + 1): once per node with two
   existing children; and at every node: (existing ranks under the node) - 1 *)
Theorem C03_operator_applications : forall P, 1 <= P -> reduce_result Z (fun s r => r + s + 1) P (fun _ => 0) = P - 1.
Proof. exact reduce_applications. Qed.
Print Assumptions C03_operator_applications.

Theorem C03_operator_applications_every_node : forall P d br M, 0 <= br -> br * 2 ^ Z.of_nat d < P -> Z.of_nat d <= M ->
  treeval Z (fun s r => r + s + 1) P M (fun _ => 0) d br = Z.of_nat (nleaves P d br - 1).
Proof. exact node_applications. Qed.
Print Assumptions C03_operator_applications_every_node.

(* sc_reduce_recursive: exactly one call reduce_fn (sendbuf, recvbuf, count, datatype) in either branch - (peerdata, data) if myrank < peer,
   else (data, peerdata) followed by memcpy (data, peerdata, datasize): outputs (called, arg0..3) x 2, memcpy (called, dst, src, n) *)
Theorem C03_gen_rec_combine_args : forall myrank peer data peerdata sz count dt,
  rec_combine_args myrank peer data peerdata sz count dt =
  if myrank <? peer then (1, peerdata, data, count, dt, 0, 0, 0, 0, 0, 0, 0, 0, 0)
  else (0, 0, 0, 0, 0, 1, data, peerdata, count, dt, 1, data, peerdata, sz).
Proof. exact gen_rec_combine_args. Qed.
Print Assumptions C03_gen_rec_combine_args.

(* the recursive call, the all-to-all call and the first call from sc_reduce_custom_dispatch hand on (data, count, datatype) as they are *)
Theorem C03_gen_bufs : forall data count dt,
  rec_recurse_bufs data count dt = (data, count, dt) /\ rec_a2a_bufs data count dt = (data, count, dt) /\
  dispatch_bufs data count dt = (data, count, dt).
Proof. exact gen_bufs. Qed.
Print Assumptions C03_gen_bufs.

(* buffer, item count and datatype of the four messages of the recursion - `count` items of `datatype`, the function's own parameters,
   for EVERY count and datatype (no size guard since the repair of F-C03e); peerdata has datasize bytes (exact below 2^64) *)
Theorem C03_gen_rec_msg_bufs : forall data peerdata count dt sz, 0 <= sz < 2 ^ 64 ->
  (rec_msg1_buf data peerdata, rec_msg1_count count, rec_msg1_type dt) = (peerdata, count, dt) /\
  (rec_msg2_buf data peerdata, rec_msg2_count count, rec_msg2_type dt) = (data, count, dt) /\
  (rec_msg3_buf data peerdata, rec_msg3_count count, rec_msg3_type dt) = (data, count, dt) /\
  (rec_msg4_buf data peerdata, rec_msg4_count count, rec_msg4_type dt) = (data, count, dt) /\
  rec_peerdata_bytes sz = sz.
Proof. exact gen_rec_msg_bufs. Qed.
Print Assumptions C03_gen_rec_msg_bufs.

(* the bytes that travel: count items of ts bytes = count * ts = datasize, the size the buffers are made for, for every int count >= 0 *)
Theorem C03_gen_msg_travel_bytes : forall count ts, 0 <= count < 2 ^ 31 -> 0 <= ts < 2 ^ 31 ->
  rec_msg1_count count * ts = rec_datasize count ts /\ rec_msg2_count count * ts = rec_datasize count ts /\
  rec_msg3_count count * ts = rec_datasize count ts /\ rec_msg4_count count * ts = rec_datasize count ts.
Proof. exact gen_msg_travel_bytes. Qed.
Print Assumptions C03_gen_msg_travel_bytes.

(* what is left of size arithmetic is size_t and EXACT on the whole range of the inputs: every count in [0, 2^31), every element size up
   to 16 bytes, every window of up to 2^28 slots (the code: at most 2^SC_REDUCE_ALLTOALL_LEVEL = 8): datasize < 2^35, all offsets and
   the size of alldata below 2^63, nothing wraps *)
Theorem C03_gen_sizes_exact : forall count ts i shift allcount request, 0 <= count < 2 ^ 31 -> 0 <= ts <= 16 -> 0 <= i -> 0 <= shift <= 30 ->
  (2 * i + 1) * 2 ^ shift < allcount -> allcount <= 2 ^ 28 ->
  let sz := rec_datasize count ts in
  sz = count * ts /\ 0 <= sz < 2 ^ 35 /\ allcount * sz < 2 ^ 63 /\
  a2a_recv_offset i sz = i * sz /\ a2a_self_offset i sz = i * sz /\
  a2a_combine_send_offset i shift sz = ((2 * i + 1) * 2 ^ shift) * sz /\ a2a_combine_recv_offset i shift sz = ((2 * i) * 2 ^ shift) * sz /\
  a2a_alldata_bytes allcount sz = allcount * sz /\ rec_peerdata_bytes sz = sz /\ a2a_requests request allcount = (request, request + allcount).
Proof. exact gen_sizes_exact. Qed.
Print Assumptions C03_gen_sizes_exact.

(* the WHOLE body of the posting loop of sc_reduce_alltoall.  Outputs: memcpy (called, dst, src, n), Irecv (called, buf, count, datatype,
   source, tag, comm, request slot), Isend (the same), then rrequest[i] and srequest[i] after the turn (r0, s0 = not assigned here).
   The messages are (count, datatype), unguarded; the slot offset i * datasize is size_t, exact below 2^64 *)
Theorem C03_gen_a2a_post_body : forall m level i target myrank P (doall : bool) alldata data sz rreq sreq comm tag count dt ri si r0 s0,
  0 <= i <= B30 -> 0 <= sz -> i * sz < 2 ^ 64 ->
  let peer := sc_search_bias m level i target in
  let slot := alldata + i * sz in
  let null := a2a_request_null in
  a2a_post_body m level i target myrank P (b2z doall) alldata data sz rreq sreq comm tag count dt ri si r0 s0 =
  if peer =? myrank then (1, slot, data, sz, 0, 0, 0, 0, 0, 0, 0, 0, 0, 0, 0, 0, 0, 0, 0, 0, null, null)
  else if peer <? P then
    if doall then (0, 0, 0, 0, 1, slot, count, dt, peer, tag, comm, rreq + i, 1, data, count, dt, peer, tag, comm, sreq + i, r0, s0)
    else (0, 0, 0, 0, 1, slot, count, dt, peer, tag, comm, rreq + i, 0, 0, 0, 0, 0, 0, 0, 0, r0, null)
  else (0, 0, 0, 0, 0, 0, 0, 0, 0, 0, 0, 0, 0, 0, 0, 0, 0, 0, 0, 0, null, null).
Proof. exact gen_a2a_post_body. Qed.
Print Assumptions C03_gen_a2a_post_body.

(* one turn of the MODEL's posting loop written with the generated body alone *)
Theorem C03_gen_a2a_post_step_body : forall P m (doall : bool) target i rest level myrank data sl k alldata dptr sz rreq sreq comm count dt ri si r0 s0,
  0 <= i <= B30 -> 0 <= sz -> i * sz < 2 ^ 64 ->
  a2a_post P m doall target (i :: rest) level myrank data sl k =
  let '(mc, _, _, _, rc, _, _, _, rpeer, rtag, _, _, sc, _, _, _, speer, stag, _, _, _, _) :=
    a2a_post_body m level i target myrank P (b2z doall) alldata dptr sz rreq sreq comm c_SC_TAG_REDUCE count dt ri si r0 s0 in
  if mc =? 1 then a2a_post P m doall target rest level myrank data (supd sl i data) k
  else if rc =? 1 then
    recv rpeer rtag (fun v => if sc =? 1 then send speer stag data (a2a_post P m doall target rest level myrank data (supd sl i v) k)
                              else a2a_post P m doall target rest level myrank data (supd sl i v) k)
  else a2a_post P m doall target rest level myrank data sl k.
Proof. exact gen_a2a_post_step_body. Qed.
Print Assumptions C03_gen_a2a_post_step_body.

(* the loop header `for (i = 0; i < allcount; ++i)` run with the generated init / cond / next gives the model's index list 0 .. 2^level - 1 *)
Theorem C03_gen_a2a_post_indices : forall level, 0 <= level <= 30 ->
  gen_post_indices (S (Z.to_nat (a2a_allcount level))) a2a_post_init (a2a_allcount level) = map Z.of_nat (seq 0 (Z.to_nat (2 ^ level))).
Proof. exact gen_a2a_post_indices. Qed.
Print Assumptions C03_gen_a2a_post_indices.

(* request array: 2 * allcount entries; receive slot i = request + i, send slot i = request + allcount + i; Waitall (allcount, rrequest) *)
Theorem C03_gen_a2a_requests : forall request allcount i, 0 <= allcount <= B30 / 4 ->
  a2a_request_bytes allcount = (2 * allcount) * 4 /\
  a2a_wait_recvs allcount (fst (a2a_requests request allcount)) = (1, allcount, request) /\
  fst (a2a_requests request allcount) + i = request + i /\ snd (a2a_requests request allcount) + i = request + allcount + i.
Proof. exact gen_a2a_requests. Qed.
Print Assumptions C03_gen_a2a_requests.

(* the end of the collecting branch: (Waitall called, count, requests) - only for allreduce, on the SEND requests, before -
   memcpy (called, data, alldata, datasize), free (alldata), free (request) *)
Theorem C03_gen_a2a_finish : forall allcount rreq sreq (doall : bool) data alldata sz request mpiret wret,
  a2a_finish allcount rreq sreq (b2z doall) data alldata sz request mpiret wret =
  (b2z doall, (if doall then allcount else 0), (if doall then sreq else 0), 1, data, alldata, sz, 1, alldata, 1, request).
Proof. exact gen_a2a_finish. Qed.
Print Assumptions C03_gen_a2a_finish.

(* sc_reduce_alltoall: reduce_fn (slot (2 i + 1) * 2^shift, slot (2 i) * 2^shift, count, datatype) - whole slots of datasize bytes *)
Theorem C03_gen_a2a_combine_args : forall alldata i shift sz count dt, 0 <= i -> 0 <= shift <= 30 -> (2 * i + 1) * 2 ^ shift <= B30 -> 0 <= sz ->
  (2 * i + 1) * 2 ^ shift * sz < 2 ^ 64 ->
  a2a_combine_args alldata i shift sz count dt =
  (1, alldata + ((2 * i + 1) * 2 ^ shift) * sz, alldata + ((2 * i) * 2 ^ shift) * sz, count, dt).
Proof. exact gen_a2a_combine_args. Qed.
Print Assumptions C03_gen_a2a_combine_args.

(* a rank that does not collect: Send (data, count, datatype, target, SC_TAG_REDUCE, mpicomm), once - for every count and datatype *)
Theorem C03_gen_a2a_send_whole : forall data count dt target comm tag ret,
  a2a_send_whole data count dt target comm tag ret = (1, data, count, dt, target, tag, comm).
Proof. exact gen_a2a_send_whole. Qed.
Print Assumptions C03_gen_a2a_send_whole.

(* sc_reduce_custom_dispatch: memcpy (recvbuf, sendbuf, sendcount * sizeof (sendtype)) *)
Theorem C03_gen_dispatch_copy : forall sendbuf recvbuf count ts, 0 <= count < 2 ^ 31 -> 0 <= ts < 2 ^ 31 ->
  dispatch_copy sendbuf recvbuf count ts = (1, recvbuf, sendbuf, count * ts).
Proof. exact gen_dispatch_copy. Qed.
Print Assumptions C03_gen_dispatch_copy.

(* the four entry points and sc_reduce_dispatch: target -1 exactly for the allreduce variants, everything else handed down unchanged *)
Theorem C03_gen_entries : forall sendbuf recvbuf count dt op target comm,
  entry_allreduce sendbuf recvbuf count dt op comm = (sendbuf, recvbuf, count, dt, op, -1, comm) /\
  entry_reduce sendbuf recvbuf count dt op target comm = (sendbuf, recvbuf, count, dt, op, target, comm) /\
  entry_allreduce_custom sendbuf recvbuf count dt comm = (sendbuf, recvbuf, count, dt, -1, comm) /\
  entry_reduce_custom sendbuf recvbuf count dt target comm = (sendbuf, recvbuf, count, dt, target, comm) /\
  entry_reduce_dispatch sendbuf recvbuf count dt target comm = (sendbuf, recvbuf, count, dt, target, comm).
Proof. exact gen_entries. Qed.
Print Assumptions C03_gen_entries.

(* sc_reduce_dispatch: (operation, kernel) with 0 MAX / sc_reduce_max, 1 MIN / sc_reduce_min, 2 SUM / sc_reduce_sum *)
Theorem C03_gen_op_table : reduce_op_table = [(0, 0); (1, 1); (2, 2)].
Proof. exact gen_op_table. Qed.
Print Assumptions C03_gen_op_table.

(* F-C03e (repaired): regression guard about the OLD call arguments.  The byte count datasize went through MPI's int count, i.e. through
   s32: for 2^29 + 1 doubles datasize = 4294967304 but s32 datasize = 8 (every message carried 8 bytes, the call returned a wrong sum);
   for 2^30 shorts s32 datasize = -2147483648 (MPI_ERR_COUNT).  The repaired calls carry count items = datasize bytes for these inputs. *)
Theorem C03_gen_msg_bytes_old_refuted :
  let sz := rec_datasize 536870913 8 in
  sz = 4294967304 /\ s32 sz = 8 /\ s32 sz <> sz /\
  s32 (rec_datasize 1073741824 2) = -2147483648 /\
  rec_msg3_count 536870913 * 8 = sz /\ rec_msg3_count 1073741824 * 2 = rec_datasize 1073741824 2.
Proof. exact gen_msg_bytes_old_refuted. Qed.
Print Assumptions C03_gen_msg_bytes_old_refuted.
