(* C03 - reduce/allreduce replacement: right value, one fixed association, the same for every target.
   Global model: C03/ReduceModel.v (treeval); sc_search_bias and the constants are generated from /repo. *)
From Coq Require Import ZArith List Bool.
From ScV Require Import Base.CInt Gen.Consts Gen.Macros C03.ReduceModel C03.ReduceProofs C18.MacroProofs.
Import ListNotations.
Local Open Scope Z_scope.

(* For every associative operation (commutativity is NOT needed) and every communicator size the value every
   target obtains - and every rank in allreduce - is the fold of the operands in rank order:
   x0 (op) x1 (op) ... (op) x(P-1) with recvbuf on the left.  The model's value does not mention the target. *)
Theorem C03_rank_order_fold : forall (T : Type) (f : T -> T -> T) (P : Z) (x : Z -> T),
  (forall a b c, op T f (op T f a b) c = op T f a (op T f b c)) -> 1 <= P ->
  reduce_result T f P x = fold1 T f (x 0) (vals T x 1 (Z.to_nat P - 1)).
Proof. exact reduce_fold. Qed.
Print Assumptions C03_rank_order_fold.

(* every node of the balanced tree, for every depth: the existing leaves under it, folded in rank order *)
Theorem C03_every_node : forall (T : Type) (f : T -> T -> T),
  (forall a b c, op T f (op T f a b) c = op T f a (op T f b c)) ->
  forall (P : Z) (x : Z -> T) d br m, m = Z.of_nat d -> 0 <= br -> br * 2 ^ Z.of_nat d < P ->
  forall M, Z.of_nat d <= M ->
  treeval T f P M x d br =
  fold1 T f (x (br * 2 ^ Z.of_nat d)) (vals T x (br * 2 ^ Z.of_nat d + 1) (nleaves P d br - 1)).
Proof. exact stdval_fold. Qed.
Print Assumptions C03_every_node.

(* the depth used by the code, SC_LOG2_32 (P - 1) + 1 with the GENERATED macro, covers all ranks *)
Theorem C03_maxlevel : forall P, 1 <= P -> 0 <= maxlevel P /\ P <= 2 ^ maxlevel P.
Proof. exact maxlevel_cover. Qed.
Print Assumptions C03_maxlevel.

Theorem C03_maxlevel_generated : forall P, 2 <= P <= 2 ^ 31 -> w_sc_log2_32 (P - 1) + 1 = maxlevel P.
Proof. exact maxlevel_generated. Qed.
Print Assumptions C03_maxlevel_generated.

Example C03_nonvacuous :
  (* string-like concatenation is associative and not commutative *)
  reduce_result (list Z) (fun s r => r ++ s) 11 (fun i => [i]) = [0; 1; 2; 3; 4; 5; 6; 7; 8; 9; 10].
Proof. vm_compute. reflexivity. Qed.
