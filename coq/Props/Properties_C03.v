(* C03 - reduce/allreduce replacement: right value, one fixed association, the same for every target.
   Global model: C03/ReduceModel.v (treeval); sc_search_bias and the constants are generated from /repo. *)
From Coq Require Import ZArith List Bool.
From ScV Require Import Base.CInt Gen.Consts Gen.Macros C03.ReduceModel C03.ReduceProofs C18.MacroProofs.
From ScV Require Import MPI.Prog MPI.Sem MPI.SemFrame MPI.SemPosted C03.ReduceSched C03.ReducePosted.
Import ListNotations.
Local Open Scope Z_scope.

(* For every associative operation (commutativity is NOT needed) and every communicator size the value every
   target obtains - and every rank in allreduce - is the fold of the operands in rank order:
   x0 (op) x1 (op) ... (op) x(P-1) with recvbuf on the left.  The model's value does not mention the target. *)
Theorem C03_rank_order_fold : forall (T : Type) (f : T -> T -> T) (P : Z) (x : Z -> T),
  (forall a b c, op T f (op T f a b) c = op T f a (op T f b c)) -> 1 <= P ->
  reduce_result T f P x = fold1 T f (x 0) (vals T x 1 (Z.to_nat P - 1)).
Proof. exact reduce_fold. Qed.
Print Assumptions C03_rank_order_fold.

(* every node of the balanced tree, for every depth: the existing leaves under it, folded in rank order *)
Theorem C03_every_node : forall (T : Type) (f : T -> T -> T),
  (forall a b c, op T f (op T f a b) c = op T f a (op T f b c)) ->
  forall (P : Z) (x : Z -> T) d br m, m = Z.of_nat d -> 0 <= br -> br * 2 ^ Z.of_nat d < P ->
  forall M, Z.of_nat d <= M ->
  treeval T f P M x d br =
  fold1 T f (x (br * 2 ^ Z.of_nat d)) (vals T x (br * 2 ^ Z.of_nat d + 1) (nleaves P d br - 1)).
Proof. exact stdval_fold. Qed.
Print Assumptions C03_every_node.

(* the depth used by the code, SC_LOG2_32 (P - 1) + 1 with the GENERATED macro, covers all ranks *)
Theorem C03_maxlevel : forall P, 1 <= P -> 0 <= maxlevel P /\ P <= 2 ^ maxlevel P.
Proof. exact maxlevel_cover. Qed.
Print Assumptions C03_maxlevel.

Theorem C03_maxlevel_generated : forall P, 2 <= P <= 2 ^ 31 -> w_sc_log2_32 (P - 1) + 1 = maxlevel P.
Proof. exact maxlevel_generated. Qed.
Print Assumptions C03_maxlevel_generated.

Example C03_nonvacuous :
  (* string-like concatenation is associative and not commutative *)
  reduce_result (list Z) (fun s r => r ++ s) 11 (fun i => [i]) = [0; 1; 2; 3; 4; 5; 6; 7; 8; 9; 10].
Proof. vm_compute. reflexivity. Qed.

(* ==== from the per-rank programs to the global tree model, under EVERY message timing =====================
   The system (red_start P target): rank r (0 <= r < P) runs the per-rank program
   `reduce_prog P (maxlevel P) false target r` of C03/ReduceModel.v - the program that is co-simulated against the
   trace of the real sc_reduce on every run - in the interleaving semantics of MPI/Sem.v (buffered sends, FIFO
   channels per (source, destination, tag)); all channels are empty at the start.
   For every communicator size 1 <= P <= 2^30 (the range in which the int arithmetic of the GENERATED
   sc_search_bias does not overflow) and every target: there are n and a state f with
   (1) some schedule reaches f in n steps, f is final (every rank has returned), the target has returned the
       symbolic value of the global tree model, and NO message is left in any channel; and for EVERY schedule
       prefix `run m (red_start P target) s'`:
   (2) m <= n and s' can be completed to f in exactly n - m steps (termination),
   (3) if s' is final it IS f (the same result on every repetition and under every message timing),
   (4) s' is final or some rank can move (no deadlock). *)
Theorem C03_reduce_every_schedule : forall P target, 1 <= P <= 2 ^ 30 -> 0 <= target < P ->
  exists (n : nat) (f : gs),
    run n (red_start P target) f /\ final f /\
    pr f target = Ret (sym_reduce_result P) /\
    (forall a b t, ch f a b t = []) /\
    forall m s', run m (red_start P target) s' ->
      (m <= n)%nat /\ run (n - m) s' f /\
      (final s' -> s' = f /\ m = n) /\
      (final s' \/ exists r s'', step s' r s'').
Proof. exact reduce_all_schedules. Qed.
Print Assumptions C03_reduce_every_schedule.

(* the witness schedule itself needs no axiom *)
Theorem C03_reduce_one_schedule : forall P target, 1 <= P <= 2 ^ 30 -> 0 <= target < P ->
  exists n f, run n (red_start P target) f /\ final f /\ pr f target = Ret (sym_reduce_result P) /\
    (forall a b t, ch f a b t = []).
Proof. exact reduce_one_schedule. Qed.
Print Assumptions C03_reduce_one_schedule.

(* symbolic payloads cover every datatype, every operator and all inputs: interpreting the prefix code of the
   model's symbolic result with a concrete reduce_fn f and concrete inputs x gives reduce_result T f P x, the value
   of the global tree model that C03_rank_order_fold is about *)
Theorem C03_symbolic_result_is_tree : forall (T : Type) (f : T -> T -> T) (x : Z -> T) (P : Z),
  sym_eval f x (S (Z.to_nat (maxlevel P))) (sym_reduce_result P) = Some (reduce_result T f P x, []).
Proof. exact @sym_eval_reduce_result. Qed.
Print Assumptions C03_symbolic_result_is_tree.

(* the upward phase for one subtree (both operations): inside any global state in which the existing ranks of the
   node (l, br) are at their initial program and the channels inside the subtree are empty, the subtree can be
   scheduled - nobody else moves, channels end as they were - until its representative stands at level l with the
   tree value of the node *)
Theorem C03_subtree_schedule : forall P m target, 0 <= m <= 30 -> 1 <= P <= 2 ^ m -> 0 <= target < P ->
  forall (da : bool) A2A d l br, l = m - Z.of_nat d -> (d = 0%nat \/ c_SC_REDUCE_ALLTOALL_LEVEL <= l) -> 0 <= l -> 0 <= br ->
  lft m l br < P ->
  forall s, (forall r, Sub P m l br r -> pr s r = start P m target da A2A r) -> Subch P m l br s ->
  exists n s' KQ, run n s s' /\
    pr s' (rep m target l br) = rec_gen P m da target A2A (S (Z.to_nat l)) l br (V P m l br) KQ /\
    (forall r, ~ Sub P m l br r -> pr s' r = pr s r) /\ (forall a b t, ch s' a b t = ch s a b t) /\
    after P m target da l br s' KQ.
Proof. exact up. Qed.
Print Assumptions C03_subtree_schedule.

(* ==== sc_allreduce: the LITERAL per-rank programs under the POSTED-RECEIVE semantics ==========================
   all_start P: rank r (0 <= r < P) runs `reduce_prog P (maxlevel P) true 0 r` - exactly the program that is extracted
   (Extract/Extract_c03.v) and co-simulated against the trace of the real sc_allreduce on every run (doall = true,
   working target 0); all channels empty (C03_allreduce_start_is_literal).  That program lists the actions of the
   all-to-all window in the order in which sc_reduce_alltoall POSTS them: Irecv(peer_0); Isend(peer_0);
   Irecv(peer_1); Isend(peer_1); ...; then MPI_Waitall on the receives, the combination loops, MPI_Waitall on the sends.

   Semantics: step_p / run_p of MPI/SemPosted.v - the state space of MPI/Sem.v (one program per rank, buffered sends,
   FIFO channels per (source, destination, tag)) with posted receives.  A rank may
   (S) issue its next send although receives posted before it are pending, provided destination, tag and payload
       are the same for every reply of those receives (a send of received data waits for the data); sends are
       issued in posting order;
   (R) complete any posted receive whose message has arrived, behind pending receives for OTHER (source, tag) keys
       only; the reply goes into the program, the rest of the program (what follows Waitall in C) runs when all
       receives in front of it are complete.
   With no pending receive in front, (S) and (R) are the steps of Sem.v: every schedule of the blocking semantics is
   a schedule of the posted one (C03_posted_extends_blocking).  This is the faithful reading of
   Irecv/Isend/Waitall: a posted Irecv does not hold back the requests posted after it, and Waitall hands the
   payloads to the computation when all receives are complete.  Read with blocking receives the literal system is
   stuck from the start (C03_allreduce_posting_order_blocks, P = 2); under step_p it is not
   (C03_allreduce_posting_order_runs).

   THEOREM.  For every communicator size 1 <= P <= 2^30 there is n such that
   (1) some schedule takes all_start P in n steps to all_end P: every rank r < P has returned
       `sym_reduce_result P`, the symbolic value of the global tree model - the same on all ranks, the one sc_reduce
       delivers to any target - and all channels are empty (C03_allreduce_final_state); and for EVERY schedule prefix
       `run_p m (all_start P) s'`:
   (2) m <= n and s' can be completed to all_end P in exactly n - m steps (termination),
   (3) if s' is final it IS all_end P (same result under every message timing and every completion order),
   (4) s' is final or some rank can move (no reachable state is stuck). *)
Theorem C03_allreduce_every_schedule : forall P, 1 <= P <= 2 ^ 30 ->
  exists n : nat,
    run_p n (all_start P) (all_end P) /\
    forall m s', run_p m (all_start P) s' ->
      (m <= n)%nat /\ run_p (n - m) s' (all_end P) /\
      (final s' -> s' = all_end P /\ m = n) /\
      (final s' \/ exists r s'', step_p s' r s'').
Proof. exact allreduce_all_schedules. Qed.
Print Assumptions C03_allreduce_every_schedule.

Theorem C03_allreduce_start_is_literal : forall P,
  (forall r, 0 <= r < P -> pr (all_start P) r = reduce_prog P (maxlevel P) true 0 r) /\
  (forall r, ~ 0 <= r < P -> pr (all_start P) r = Ret []) /\ (forall a b t, ch (all_start P) a b t = []).
Proof. exact all_start_spec. Qed.
Print Assumptions C03_allreduce_start_is_literal.

(* the posted semantics in general: ONE terminating schedule implies that EVERY schedule terminates in the same
   final state after the same number of steps and that no reachable state is stuck (diamond property of step_p for
   two ranks and for two different steps of one rank) *)
Theorem C03_posted_semantics_confluent : forall s0 f n, run_p n s0 f -> final f ->
  forall m s', run_p m s0 s' ->
    (m <= n)%nat /\ run_p (n - m) s' f /\ (final s' -> s' = f /\ m = n) /\ (final s' \/ exists r s'', step_p s' r s'').
Proof. exact one_schedule_all_schedules_p. Qed.
Print Assumptions C03_posted_semantics_confluent.

Theorem C03_posted_extends_blocking :
  (forall s r s', step s r s' -> step_p s r s') /\ (forall n s s', run n s s' -> run_p n s s').
Proof. split; [exact step_in_step_p|exact run_in_run_p]. Qed.
Print Assumptions C03_posted_extends_blocking.

(* a send whose destination, tag or payload depends on the reply of the receive in front of it is NOT issued early:
   a blocking receive followed by a send of what was received (the recursive levels of sc_reduce) still blocks *)
Theorem C03_posted_send_needs_independence : forall s0 t0 (D T : payload -> Z) (F : payload -> payload) K d t m,
  canS (Do (Recv s0 t0) (fun v => Do (Send (D v) (T v) (F v)) (K v))) d t m -> forall v, D v = d /\ T v = t /\ F v = m.
Proof. exact canS_needs_independence. Qed.
Print Assumptions C03_posted_send_needs_independence.

(* programs in posting order and programs with the sends of a window moved in front of the receives posted before
   them (nbeq, rank by rank; same channels): every terminating schedule of the second system is replayed step by
   step by the first, to the SAME final state, and then all schedules of the first system end there *)
Theorem C03_posting_order_same_result : forall s s' n f,
  (forall r, nbeq (pr s r) (pr s' r)) /\ (forall a b t, ch s a b t = ch s' a b t) -> run_p n s' f -> final f ->
  run_p n s f /\ terminal_for_p s f n.
Proof. exact posting_order_same_result. Qed.
Print Assumptions C03_posting_order_same_result.

(* sc_reduce under the posted semantics (its windows have receives only; the witness schedule of Sem.v is one of
   step_p, confluence of step_p gives all schedules of the larger set) *)
Theorem C03_reduce_every_posted_schedule : forall P target, 1 <= P <= 2 ^ 30 -> 0 <= target < P ->
  exists (n : nat) (f : gs),
    run_p n (red_start P target) f /\ final f /\
    pr f target = Ret (sym_reduce_result P) /\
    (forall a b t, ch f a b t = []) /\
    forall m s', run_p m (red_start P target) s' ->
      (m <= n)%nat /\ run_p (n - m) s' f /\
      (final s' -> s' = f /\ m = n) /\
      (final s' \/ exists r s'', step_p s' r s'').
Proof. exact reduce_all_posted_schedules. Qed.
Print Assumptions C03_reduce_every_posted_schedule.

(* the same statement for the program with the all-to-all window in canonical order (all sends, then the receives)
   under the BLOCKING semantics of Sem.v - the witness schedule that C03_allreduce_every_schedule replays *)
Theorem C03_allreduce_window_every_schedule : forall P, 1 <= P <= 2 ^ 30 ->
  exists n : nat,
    run n (all_start_w P) (all_end P) /\
    forall m s', run m (all_start_w P) s' ->
      (m <= n)%nat /\ run (n - m) s' (all_end P) /\
      (final s' -> s' = all_end P /\ m = n) /\
      (final s' \/ exists r s'', step s' r s'').
Proof. exact allreduce_w_all_schedules. Qed.
Print Assumptions C03_allreduce_window_every_schedule.

(* all_end: EVERY rank has returned the same symbolic value, the one the target of sc_reduce returns, and no
   message is left in any channel *)
Theorem C03_allreduce_final_state : forall P,
  (forall r, 0 <= r < P -> pr (all_end P) r = Ret (sym_reduce_result P)) /\ (forall a b t, ch (all_end P) a b t = []).
Proof. exact all_end_spec. Qed.
Print Assumptions C03_allreduce_final_state.

Theorem C03_allreduce_window_form : forall P m me, nbeq (reduce_prog P m true 0 me) (allreduce_prog_w P m me).
Proof. exact allreduce_prog_window_form. Qed.
Print Assumptions C03_allreduce_window_form.

Theorem C03_allreduce_posting_order_blocks :
  let s0 := mkgs (fun r => if (0 <=? r) && (r <? 2) then reduce_prog 2 (maxlevel 2) true 0 r else Ret []) (fun _ _ _ => []) in
  (forall r s', ~ step s0 r s') /\ ~ final s0.
Proof. exact allreduce_posting_order_blocks. Qed.
Print Assumptions C03_allreduce_posting_order_blocks.

Theorem C03_allreduce_posting_order_runs :
  let s0 := mkgs (fun r => if (0 <=? r) && (r <? 2) then reduce_prog 2 (maxlevel 2) true 0 r else Ret []) (fun _ _ _ => []) in
  (exists s', step_p s0 0 s') /\ (exists s', step_p s0 1 s').
Proof. exact allreduce_posting_order_runs. Qed.
Print Assumptions C03_allreduce_posting_order_runs.

Example C03_schedule_instance :
  (exists n f, run n (red_start 13 7) f /\ final f /\ pr f 7 = Ret (sym_reduce_result 13) /\ (forall a b t, ch f a b t = [])) /\
  sym_eval (fun s r : list Z => r ++ s) (fun i => [i]) 5 (sym_reduce_result 13) = Some ([0; 1; 2; 3; 4; 5; 6; 7; 8; 9; 10; 11; 12], []).
Proof. split; [apply reduce_one_schedule; split; discriminate || reflexivity | vm_compute; reflexivity]. Qed.
