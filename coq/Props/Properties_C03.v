(* C03 - reduce/allreduce replacement: right value, one fixed association, the same for every target.
   Global model: C03/ReduceModel.v (treeval); sc_search_bias and the constants are generated from /repo. *)
From Coq Require Import ZArith List Bool.
From ScV Require Import Base.CInt Gen.Consts Gen.Macros C03.ReduceModel C03.ReduceProofs C18.MacroProofs.
From ScV Require Import MPI.Prog MPI.Sem MPI.SemFrame C03.ReduceSched.
Import ListNotations.
Local Open Scope Z_scope.

(* For every associative operation (commutativity is NOT needed) and every communicator size the value every
   target obtains - and every rank in allreduce - is the fold of the operands in rank order:
   x0 (op) x1 (op) ... (op) x(P-1) with recvbuf on the left.  The model's value does not mention the target. *)
Theorem C03_rank_order_fold : forall (T : Type) (f : T -> T -> T) (P : Z) (x : Z -> T),
  (forall a b c, op T f (op T f a b) c = op T f a (op T f b c)) -> 1 <= P ->
  reduce_result T f P x = fold1 T f (x 0) (vals T x 1 (Z.to_nat P - 1)).
Proof. exact reduce_fold. Qed.
Print Assumptions C03_rank_order_fold.

(* every node of the balanced tree, for every depth: the existing leaves under it, folded in rank order *)
Theorem C03_every_node : forall (T : Type) (f : T -> T -> T),
  (forall a b c, op T f (op T f a b) c = op T f a (op T f b c)) ->
  forall (P : Z) (x : Z -> T) d br m, m = Z.of_nat d -> 0 <= br -> br * 2 ^ Z.of_nat d < P ->
  forall M, Z.of_nat d <= M ->
  treeval T f P M x d br =
  fold1 T f (x (br * 2 ^ Z.of_nat d)) (vals T x (br * 2 ^ Z.of_nat d + 1) (nleaves P d br - 1)).
Proof. exact stdval_fold. Qed.
Print Assumptions C03_every_node.

(* the depth used by the code, SC_LOG2_32 (P - 1) + 1 with the GENERATED macro, covers all ranks *)
Theorem C03_maxlevel : forall P, 1 <= P -> 0 <= maxlevel P /\ P <= 2 ^ maxlevel P.
Proof. exact maxlevel_cover. Qed.
Print Assumptions C03_maxlevel.

Theorem C03_maxlevel_generated : forall P, 2 <= P <= 2 ^ 31 -> w_sc_log2_32 (P - 1) + 1 = maxlevel P.
Proof. exact maxlevel_generated. Qed.
Print Assumptions C03_maxlevel_generated.

Example C03_nonvacuous :
  (* string-like concatenation is associative and not commutative *)
  reduce_result (list Z) (fun s r => r ++ s) 11 (fun i => [i]) = [0; 1; 2; 3; 4; 5; 6; 7; 8; 9; 10].
Proof. vm_compute. reflexivity. Qed.

(* ==== from the per-rank programs to the global tree model, under EVERY message timing =====================
   The system (red_start P target): rank r (0 <= r < P) runs the per-rank program
   `reduce_prog P (maxlevel P) false target r` of C03/ReduceModel.v - the program that is co-simulated against the
   trace of the real sc_reduce on every run - in the interleaving semantics of MPI/Sem.v (buffered sends, FIFO
   channels per (source, destination, tag)); all channels are empty at the start.
   For every communicator size 1 <= P <= 2^30 (the range in which the int arithmetic of the GENERATED
   sc_search_bias does not overflow) and every target: there are n and a state f with
   (1) some schedule reaches f in n steps, f is final (every rank has returned), the target has returned the
       symbolic value of the global tree model, and NO message is left in any channel; and for EVERY schedule
       prefix `run m (red_start P target) s'`:
   (2) m <= n and s' can be completed to f in exactly n - m steps (termination),
   (3) if s' is final it IS f (the same result on every repetition and under every message timing),
   (4) s' is final or some rank can move (no deadlock). *)
Theorem C03_reduce_every_schedule : forall P target, 1 <= P <= 2 ^ 30 -> 0 <= target < P ->
  exists (n : nat) (f : gs),
    run n (red_start P target) f /\ final f /\
    pr f target = Ret (sym_reduce_result P) /\
    (forall a b t, ch f a b t = []) /\
    forall m s', run m (red_start P target) s' ->
      (m <= n)%nat /\ run (n - m) s' f /\
      (final s' -> s' = f /\ m = n) /\
      (final s' \/ exists r s'', step s' r s'').
Proof. exact reduce_all_schedules. Qed.
Print Assumptions C03_reduce_every_schedule.

(* the witness schedule itself needs no axiom *)
Theorem C03_reduce_one_schedule : forall P target, 1 <= P <= 2 ^ 30 -> 0 <= target < P ->
  exists n f, run n (red_start P target) f /\ final f /\ pr f target = Ret (sym_reduce_result P) /\
    (forall a b t, ch f a b t = []).
Proof. exact reduce_one_schedule. Qed.
Print Assumptions C03_reduce_one_schedule.

(* symbolic payloads cover every datatype, every operator and all inputs: interpreting the prefix code of the
   model's symbolic result with a concrete reduce_fn f and concrete inputs x gives reduce_result T f P x, the value
   of the global tree model that C03_rank_order_fold is about *)
Theorem C03_symbolic_result_is_tree : forall (T : Type) (f : T -> T -> T) (x : Z -> T) (P : Z),
  sym_eval f x (S (Z.to_nat (maxlevel P))) (sym_reduce_result P) = Some (reduce_result T f P x, []).
Proof. exact @sym_eval_reduce_result. Qed.
Print Assumptions C03_symbolic_result_is_tree.

(* the upward phase for one subtree (both operations): inside any global state in which the existing ranks of the
   node (l, br) are at their initial program and the channels inside the subtree are empty, the subtree can be
   scheduled - nobody else moves, channels end as they were - until its representative stands at level l with the
   tree value of the node *)
Theorem C03_subtree_schedule : forall P m target, 0 <= m <= 30 -> 1 <= P <= 2 ^ m -> 0 <= target < P ->
  forall (da : bool) A2A d l br, l = m - Z.of_nat d -> (d = 0%nat \/ c_SC_REDUCE_ALLTOALL_LEVEL <= l) -> 0 <= l -> 0 <= br ->
  lft m l br < P ->
  forall s, (forall r, Sub P m l br r -> pr s r = start P m target da A2A r) -> Subch P m l br s ->
  exists n s' KQ, run n s s' /\
    pr s' (rep m target l br) = rec_gen P m da target A2A (S (Z.to_nat l)) l br (V P m l br) KQ /\
    (forall r, ~ Sub P m l br r -> pr s' r = pr s r) /\ (forall a b t, ch s' a b t = ch s a b t) /\
    after P m target da l br s' KQ.
Proof. exact up. Qed.
Print Assumptions C03_subtree_schedule.

(* ---- sc_allreduce ----------------------------------------------------------------------------------------------
   FULL STATEMENT (not provable as it stands, see below):
     forall P, 1 <= P <= 2 ^ 30 -> exists n, run n (all_start P) (all_end P) /\ <every schedule ...>   where
     all_start P = rank r runs `reduce_prog P (maxlevel P) true 0 r`  (the co-simulated program, doall = true).
   That program lists the actions of the all-to-all window in the order in which the C code POSTS them:
   Irecv(peer_0); Isend(peer_0); Irecv(peer_1); ... , all completed later by Waitall.  MPI/Sem.v reads every Recv
   as a blocking receive, and read that way the system is stuck from the start (C03_allreduce_posting_order_blocks,
   P = 2).  What IS proved: the statement for the program in canonical window order (allreduce_prog_w: in the
   all-to-all window all sends, then the receives - the `phase` convention of MPI/Prog.v that the allgather
   programs use), and that allreduce_prog_w is the posting-order program with sends moved in front of receives
   posted before them (C03_allreduce_window_form; nbeq is the congruence closure of that single swap, which is
   sound for non-blocking receives).  Missing for the full statement: a semantics in which a posted receive does
   not block the sends posted after it in the same window, with its own confluence theorem. *)
Theorem C03_allreduce_every_schedule_partial : forall P, 1 <= P <= 2 ^ 30 ->
  exists n : nat,
    run n (all_start_w P) (all_end P) /\
    forall m s', run m (all_start_w P) s' ->
      (m <= n)%nat /\ run (n - m) s' (all_end P) /\
      (final s' -> s' = all_end P /\ m = n) /\
      (final s' \/ exists r s'', step s' r s'').
Proof. exact allreduce_w_all_schedules. Qed.
Print Assumptions C03_allreduce_every_schedule_partial.

(* all_end: EVERY rank has returned the same symbolic value, the one the target of sc_reduce returns, and no
   message is left in any channel *)
Theorem C03_allreduce_final_state : forall P,
  (forall r, 0 <= r < P -> pr (all_end P) r = Ret (sym_reduce_result P)) /\ (forall a b t, ch (all_end P) a b t = []).
Proof. exact all_end_spec. Qed.
Print Assumptions C03_allreduce_final_state.

Theorem C03_allreduce_window_form : forall P m me, nbeq (reduce_prog P m true 0 me) (allreduce_prog_w P m me).
Proof. exact allreduce_prog_window_form. Qed.
Print Assumptions C03_allreduce_window_form.

Theorem C03_allreduce_posting_order_blocks :
  let s0 := mkgs (fun r => if (0 <=? r) && (r <? 2) then reduce_prog 2 (maxlevel 2) true 0 r else Ret []) (fun _ _ _ => []) in
  (forall r s', ~ step s0 r s') /\ ~ final s0.
Proof. exact allreduce_posting_order_blocks. Qed.
Print Assumptions C03_allreduce_posting_order_blocks.

Example C03_schedule_instance :
  (exists n f, run n (red_start 13 7) f /\ final f /\ pr f 7 = Ret (sym_reduce_result 13) /\ (forall a b t, ch f a b t = [])) /\
  sym_eval (fun s r : list Z => r ++ s) (fun i => [i]) 5 (sym_reduce_result 13) = Some ([0; 1; 2; 3; 4; 5; 6; 7; 8; 9; 10; 11; 12], []).
Proof. split; [apply reduce_one_schedule; split; discriminate || reflexivity | vm_compute; reflexivity]. Qed.
