(* C13 - global statistics equal the statistics of the union of all ranks' samples, for every
   operand order and association the MPI library may use for the user-defined reduction.
   `combine` is the GENERATED body of sc_stats_mpifunc (Gen/StatsC13.v). *)
From Coq Require Import ZArith List Bool Permutation.
From ScV Require Import Base.CInt Gen.StatsC13 C13.StatsModel C13.StatsProofs.
Import ListNotations.
Local Open Scope Z_scope.

(* every binary tree over the operands computes: total count, exact sums, and - when there is a
   sample - the minimum / maximum over all contributing operands with the LOWEST rank attaining each *)
Theorem C13_any_tree : forall t, Forall wf (leaves t) -> good (leaves t) (eval t).
Proof. exact eval_good. Qed.
Print Assumptions C13_any_tree.

(* ... whatever permutation of the ranks the tree's leaves are *)
Theorem C13_any_arrangement : forall t l, Forall wf l -> Permutation (leaves t) l -> good l (eval t).
Proof. exact any_arrangement. Qed.
Print Assumptions C13_any_arrangement.

(* the specification determines every reported number, hence all ranks agree whatever tree each used *)
Theorem C13_spec_determines : forall l r1 r2, good l r1 -> good l r2 ->
  cnt r1 = cnt r2 /\ sm r1 = sm r2 /\ sq r1 = sq r2 /\
  (0 < cnt r1 -> mn r1 = mn r2 /\ mx r1 = mx r2 /\ mnr r1 = mnr r2 /\ mxr r1 = mxr r2).
Proof. exact good_unique. Qed.
Print Assumptions C13_spec_determines.

Theorem C13_all_trees_agree : forall t1 t2, Forall wf (leaves t1) -> Permutation (leaves t1) (leaves t2) ->
  cnt (eval t1) = cnt (eval t2) /\ sm (eval t1) = sm (eval t2) /\ sq (eval t1) = sq (eval t2) /\
  (0 < cnt (eval t1) -> mn (eval t1) = mn (eval t2) /\ mx (eval t1) = mx (eval t2) /\
                        mnr (eval t1) = mnr (eval t2) /\ mxr (eval t1) = mxr (eval t2)).
Proof. exact all_trees_agree. Qed.
Print Assumptions C13_all_trees_agree.

(* ranks without samples (and clean variables) influence nothing, in either operand position *)
Theorem C13_empty_neutral_in : forall x b, wf x -> cnt x = 0 -> cnt b <> 0 -> combine x b = b.
Proof. exact empty_neutral_in. Qed.
Print Assumptions C13_empty_neutral_in.

Theorem C13_empty_neutral_inout : forall a x, wf x -> cnt x = 0 -> cnt a <> 0 -> combine a x = a.
Proof. exact empty_neutral_inout. Qed.
Print Assumptions C13_empty_neutral_inout.

(* what a rank contributes is well formed and describes its samples *)
Theorem C13_local : forall r xs, wf (local r xs) /\ wf clean_rec.
Proof. intros; split; [exact (local_wf r xs) | exact clean_wf]. Qed.
Print Assumptions C13_local.

Theorem C13_local_extremes : forall r x tl,
  let s := local r (x :: tl) in
  In (mn s) (x :: tl) /\ In (mx s) (x :: tl) /\ (forall y, In y (x :: tl) -> mn s <= y <= mx s) /\
  cnt s = Z.of_nat (length (x :: tl)) /\ mnr s = r /\ mxr s = r.
Proof. exact local_extremes. Qed.
Print Assumptions C13_local_extremes.

(* non-vacuity: three ranks, the middle one empty, samples of both signs; two different trees *)
Example C13_nonvacuous :
  let a := local 0 [5; 7] in let e := local 1 [] in let c := local 2 [-3; 5; 7] in
  Forall wf [a; e; c] /\
  eval (Node (Leaf e) (Node (Leaf a) (Leaf c))) = mk 5 21 157 (-3) 7 2 0 /\
  eval (Node (Node (Leaf c) (Leaf a)) (Leaf e)) = mk 5 21 157 (-3) 7 2 0.
Proof.
  cbv zeta. split; [repeat (apply Forall_cons; [apply local_wf|]); apply Forall_nil|]. split; vm_compute; reflexivity.
Qed.
