(* C13 - global statistics equal the statistics of the union of all ranks' samples, for every
   operand order and association the MPI library may use for the user-defined reduction.
   `combine` is the GENERATED body of sc_stats_mpifunc (Gen/StatsC13.v). *)
From Coq Require Import ZArith List Bool Permutation QArith.
From ScV Require Import Base.CInt Gen.StatsC13 Gen.StatsVarC13 C13.StatsModel C13.StatsProofs C13.VarModel C13.VarGen C13.VarProofs.
Import ListNotations.
Local Open Scope Z_scope.

(* every binary tree over the operands computes: total count, exact sums, and - when there is a
   sample - the minimum / maximum over all contributing operands with the LOWEST rank attaining each *)
Theorem C13_any_tree : forall t, Forall wf (leaves t) -> good (leaves t) (eval t).
Proof. exact eval_good. Qed.
Print Assumptions C13_any_tree.

(* ... whatever permutation of the ranks the tree's leaves are *)
Theorem C13_any_arrangement : forall t l, Forall wf l -> Permutation (leaves t) l -> good l (eval t).
Proof. exact any_arrangement. Qed.
Print Assumptions C13_any_arrangement.

(* the specification determines every reported number, hence all ranks agree whatever tree each used *)
Theorem C13_spec_determines : forall l r1 r2, good l r1 -> good l r2 ->
  cnt r1 = cnt r2 /\ sm r1 = sm r2 /\ sq r1 = sq r2 /\
  (0 < cnt r1 -> mn r1 = mn r2 /\ mx r1 = mx r2 /\ mnr r1 = mnr r2 /\ mxr r1 = mxr r2).
Proof. exact good_unique. Qed.
Print Assumptions C13_spec_determines.

Theorem C13_all_trees_agree : forall t1 t2, Forall wf (leaves t1) -> Permutation (leaves t1) (leaves t2) ->
  cnt (eval t1) = cnt (eval t2) /\ sm (eval t1) = sm (eval t2) /\ sq (eval t1) = sq (eval t2) /\
  (0 < cnt (eval t1) -> mn (eval t1) = mn (eval t2) /\ mx (eval t1) = mx (eval t2) /\
                        mnr (eval t1) = mnr (eval t2) /\ mxr (eval t1) = mxr (eval t2)).
Proof. exact all_trees_agree. Qed.
Print Assumptions C13_all_trees_agree.

(* ranks without samples (and clean variables) influence nothing, in either operand position *)
Theorem C13_empty_neutral_in : forall x b, wf x -> cnt x = 0 -> cnt b <> 0 -> combine x b = b.
Proof. exact empty_neutral_in. Qed.
Print Assumptions C13_empty_neutral_in.

Theorem C13_empty_neutral_inout : forall a x, wf x -> cnt x = 0 -> cnt a <> 0 -> combine a x = a.
Proof. exact empty_neutral_inout. Qed.
Print Assumptions C13_empty_neutral_inout.

(* what a rank contributes is well formed and describes its samples *)
Theorem C13_local : forall r xs, wf (local r xs) /\ wf clean_rec.
Proof. intros; split; [exact (local_wf r xs) | exact clean_wf]. Qed.
Print Assumptions C13_local.

Theorem C13_local_extremes : forall r x tl,
  let s := local r (x :: tl) in
  In (mn s) (x :: tl) /\ In (mx s) (x :: tl) /\ (forall y, In y (x :: tl) -> mn s <= y <= mx s) /\
  cnt s = Z.of_nat (length (x :: tl)) /\ mnr s = r /\ mxr s = r.
Proof. exact local_extremes. Qed.
Print Assumptions C13_local_extremes.

(* non-vacuity: three ranks, the middle one empty, samples of both signs; two different trees *)
Example C13_nonvacuous :
  let a := local 0 [5; 7] in let e := local 1 [] in let c := local 2 [-3; 5; 7] in
  Forall wf [a; e; c] /\
  eval (Node (Leaf e) (Node (Leaf a) (Leaf c))) = mk 5 21 157 (-3) 7 2 0 /\
  eval (Node (Node (Leaf c) (Leaf a)) (Leaf e)) = mk 5 21 157 (-3) 7 2 0.
Proof.
  cbv zeta. split; [repeat (apply Forall_cons; [apply local_wf|]); apply Forall_nil|]. split; vm_compute; reflexivity.
Qed.


(* ====================================================================================================================
   The per-variable object sc_statinfo_t and its protocol (C13/VarModel.v).
   Part 1 - tie T1: every transition of the state machine is the definition GENERATED from src/sc_statistics.c
   (Gen/StatsVarC13.v).  Doubles are exact numbers; conversions of counts and ranks are assumed in range.
   ==================================================================================================================== *)
Theorem C13_gen_set1_ext : forall value variable copy group prio pid dup s n,
  var_set1_ext value variable copy group prio (n_var n) (n_owned n) pid dup =
  let s' := set1 value s in let n' := name_set variable copy group prio dup n in
  (v_dirty s', v_count s', v_sum s', v_sq s', v_min s', v_max s', n_var n', n_owned n', n_group n', n_prio n',
   b2z (negb (copy =? 0)), (if copy =? 0 then 0 else pid), (if copy =? 0 then 0 else variable)).
Proof. exact gen_set1_ext. Qed.
Print Assumptions C13_gen_set1_ext.

Theorem C13_gen_init_ext : forall variable copy group prio pid dup s n,
  var_init_ext variable copy group prio (n_var n) (n_owned n) pid dup =
  let s' := init s in let n' := name_set variable copy group prio dup n in
  (v_dirty s', v_count s', v_sum s', v_sq s', v_min s', v_max s', n_var n', n_owned n', n_group n', n_prio n',
   b2z (negb (copy =? 0)), (if copy =? 0 then 0 else pid), (if copy =? 0 then 0 else variable)).
Proof. exact gen_init_ext. Qed.
Print Assumptions C13_gen_init_ext.

(* sc_stats_reset marks the variable dirty and zeroes count, sums, min, max whatever reset_vgp is *)
Theorem C13_gen_reset : forall vgp pid s n,
  var_reset vgp (n_var n) (n_owned n) (n_group n) (n_prio n) pid group_all prio_all =
  let s' := reset s in let n' := name_reset vgp n in
  (v_dirty s', v_count s', v_sum s', v_sq s', v_min s', v_max s', n_var n', n_owned n', n_group n', n_prio n',
   b2z (name_reset_frees vgp n), (if name_reset_frees vgp n then pid else 0), (if name_reset_frees vgp n then n_owned n else 0)).
Proof. exact gen_reset. Qed.
Print Assumptions C13_gen_reset.

Theorem C13_gen_group_prio_all : sc_stats_group_all_value 0 = group_all /\ sc_stats_prio_all_value 0 = prio_all.
Proof. exact gen_group_prio_all. Qed.
Print Assumptions C13_gen_group_prio_all.

Theorem C13_gen_short_forms : forall ga pa,
  var_set1_copy = 0 /\ var_set1_group ga = ga /\ var_set1_prio pa = pa /\
  var_init_copy = 0 /\ var_init_group ga = ga /\ var_init_prio pa = pa.
Proof. exact gen_short_forms. Qed.
Print Assumptions C13_gen_short_forms.

Theorem C13_gen_accumulate : forall value s, in_s64 (v_count s + 1) ->
  var_accumulate value (v_dirty s) (v_count s) (v_sum s) (v_sq s) (v_min s) (v_max s) = nums (accumulate value s).
Proof. exact gen_accumulate. Qed.
Print Assumptions C13_gen_accumulate.

Theorem C13_gen_compute1_prep : forall s,
  var_compute1_prep (v_dirty s) (v_count s) (v_sum s) (v_sq s) (v_min s) (v_max s) = nums (prep1 s).
Proof. exact gen_compute1_prep. Qed.
Print Assumptions C13_gen_compute1_prep.

(* packing: ONE memset of 7 * 8 bytes at element 7 * i for a clean variable, the seven slots of `pack rank s` otherwise *)
Theorem C13_gen_compute_pack : forall s rank flatin i f0 f1 f2 f3 f4 f5 f6, in_s32 (7 * i) ->
  var_compute_pack (v_dirty s) (v_count s) (v_sum s) (v_sq s) (v_min s) (v_max s) rank flatin i f0 f1 f2 f3 f4 f5 f6 =
  if v_dirty s =? 0 then (1, flatin + 7 * i, 0, 7 * 8, f0, f1, f2, f3, f4, f5, f6)
  else let p := pack rank s in (0, 0, 0, 0, cnt p, sm p, sq p, mn p, mx p, mnr p, mxr p).
Proof. exact gen_compute_pack. Qed.
Print Assumptions C13_gen_compute_pack.

(* post-processing: all eight integer-valued fields are those of `post`; the five floating outputs are the terms
   `post_codes` over the parameters fdiv / fsqrt (any functions) *)
Theorem C13_gen_compute_post : forall fdiv fsqrt s g a v sd vm sdm,
  in_s64 (cnt g) -> in_s32 (mnr g) -> in_s32 (mxr g) ->
  var_compute_post fdiv fsqrt (v_dirty s) (v_count s) (v_sum s) (v_sq s) (v_min s) (v_max s) (v_minr s) (v_maxr s) a v sd vm sdm
                   (cnt g) (sm g) (sq g) (mn g) (mx g) (mnr g) (mxr g) =
  let s' := post s g in
  let '(a', v', sd', vm', sdm') := post_codes fdiv fsqrt (v_dirty s) (cnt g) (sm g) (sq g) a v sd vm sdm in
  (v_dirty s', v_count s', v_sum s', v_sq s', v_min s', v_max s', v_minr s', v_maxr s', a', v', sd', vm', sdm').
Proof. exact gen_compute_post. Qed.
Print Assumptions C13_gen_compute_post.

(* the arithmetic of average / variance (SC_MAX (.., 0.)) / variance_mean over the rationals *)
Theorem C13_gen_derived : forall s q c, var_derived_q (inject_Z s) (inject_Z q) (inject_Z c) = derived s q c.
Proof. exact gen_derived. Qed.
Print Assumptions C13_gen_derived.

(* the record stride 7 everywhere it occurs, the commutativity flag, the count of the reduction *)
Theorem C13_gen_stride : forall flat nvars, 0 <= nvars -> in_s32 (14 * nvars) ->
  compute_alloc_bytes nvars = 2 * (nvars * (7 * 8)) /\
  compute_flatin flat = flat /\ compute_flatout flat nvars = flat + 7 * nvars /\
  compute_type_count = 7 /\ compute_op_commute = 1 /\ compute_allreduce_count nvars = nvars /\
  compute_nompi_copy_bytes nvars = nvars * (7 * 8).
Proof. exact gen_stride. Qed.
Print Assumptions C13_gen_stride.

(* ====================================================================================================================
   Part 2 - histories.  Ghost of a rank: None = clean, Some xs = dirty with the samples xs contributed since its last
   init / reset / set1.
   ==================================================================================================================== *)
(* the fields of a dirty variable are exactly the packed record of its samples, along any legal sequence of calls *)
Theorem C13_calls_invariant : forall ops s p, Inv s p -> legal p ops -> Inv (run_ops s ops) (grun p ops).
Proof. exact run_inv. Qed.
Print Assumptions C13_calls_invariant.

(* closed form of the ghost: after `.. setter, accumulate v1, .., accumulate vn` it is the setter's base ++ [v1 .. vn] *)
Theorem C13_since_last_setter : forall p pre o b vs, setter_base o = Some b ->
  grun p (pre ++ o :: map OAcc vs) = Some (b ++ vs).
Proof. exact grun_since_last_setter. Qed.
Print Assumptions C13_since_last_setter.

(* the specification `good` of the reduction over the packed records IS the statistics of the union of the samples:
   count, exact sums, minimum / maximum, lowest rank attaining each *)
Theorem C13_union_statistics : forall ps g, good (locs_from 0 ps) g -> ustats ps g.
Proof. exact good_ustats. Qed.
Print Assumptions C13_union_statistics.

(* one round, every reduction tree over every arrangement (each rank possibly a different one) *)
Theorem C13_round : forall sts ps opss sts2,
  Forall2 Inv sts ps -> legal_all ps opss -> round_rel sts opss sts2 ->
  let ps1 := grun_all ps opss in
  Forall2 Inv sts2 (ground ps opss) /\
  forall i s1 p1 s2, nth_error (run_all sts opss) i = Some s1 -> nth_error ps1 i = Some p1 -> nth_error sts2 i = Some s2 ->
    match p1 with
    | None => s2 = s1
    | Some _ => match union ps1 with [] => s2 = zero_dirty | _ :: _ => holds_union ps1 s2 end
    end.
Proof. exact round_sound. Qed.
Print Assumptions C13_round.

(* any number of rounds: after the last compute of ANY history (hence after every compute) *)
Theorem C13_history_union : forall sts ps rounds opss sts',
  Forall2 Inv sts ps -> legal_hist ps (rounds ++ [opss]) -> hist sts (rounds ++ [opss]) sts' ->
  let ps1 := grun_all (ghist ps rounds) opss in
  Forall2 Inv sts' (ghist ps (rounds ++ [opss])) /\
  exists stsN, hist sts rounds stsN /\
  forall i p1 s2, nth_error ps1 i = Some p1 -> nth_error sts' i = Some s2 ->
    match p1 with
    | None => nth_error (run_all stsN opss) i = Some s2
    | Some _ => match union ps1 with [] => s2 = zero_dirty | _ :: _ => holds_union ps1 s2 end
    end.
Proof. exact history_union. Qed.
Print Assumptions C13_history_union.

Theorem C13_history_invariant : forall rounds sts ps sts',
  Forall2 Inv sts ps -> legal_hist ps rounds -> hist sts rounds sts' -> Forall2 Inv sts' (ghist ps rounds).
Proof. exact history_inv. Qed.
Print Assumptions C13_history_invariant.

Theorem C13_history_round : forall sts ps rounds opss sts',
  Forall2 Inv sts ps -> legal_hist ps (rounds ++ [opss]) -> hist sts (rounds ++ [opss]) sts' ->
  exists stsN, hist sts rounds stsN /\ Forall2 Inv stsN (ghist ps rounds) /\ legal_all (ghist ps rounds) opss /\
               round_rel stsN opss sts'.
Proof. exact history_round. Qed.
Print Assumptions C13_history_round.

(* all ranks that had the variable dirty hold the SAME state afterwards (all eleven fields) *)
Theorem C13_dirty_ranks_agree : forall sts ps opss sts2 i j si sj a b,
  Forall2 Inv sts ps -> legal_all ps opss -> round_rel sts opss sts2 ->
  nth_error (grun_all ps opss) i = Some (Some a) -> nth_error (grun_all ps opss) j = Some (Some b) ->
  nth_error sts2 i = Some si -> nth_error sts2 j = Some sj -> si = sj.
Proof. exact dirty_ranks_agree. Qed.
Print Assumptions C13_dirty_ranks_agree.

(* a variable clean on a rank that does not touch it keeps all its fields, whether the round ends with sc_stats_compute
   (ops = []) or with sc_stats_compute1 (ops = [OPrep1]) *)
Theorem C13_clean_untouched : forall sts ps opss sts2 i s ops s2,
  Forall2 Inv sts ps -> legal_all ps opss -> round_rel sts opss sts2 ->
  nth_error sts i = Some s -> nth_error ps i = Some None -> nth_error opss i = Some ops -> Forall (fun o => o = OPrep1) ops ->
  nth_error sts2 i = Some s2 -> s2 = s.
Proof. exact clean_untouched. Qed.
Print Assumptions C13_clean_untouched.

(* reset, then nothing, on one rank; samples elsewhere: the rank takes part (dirty, no sample) and holds the union's numbers *)
Theorem C13_reset_then_nothing : forall sts ps opss sts2 i s p pre s2,
  Forall2 Inv sts ps -> legal_all ps opss -> round_rel sts opss sts2 ->
  nth_error sts i = Some s -> nth_error ps i = Some p -> nth_error opss i = Some (pre ++ [OReset]) -> nth_error sts2 i = Some s2 ->
  union (grun_all ps opss) <> [] ->
  nth_error (grun_all ps opss) i = Some (Some []) /\ holds_union (grun_all ps opss) s2.
Proof. exact reset_then_nothing. Qed.
Print Assumptions C13_reset_then_nothing.

(* no sample anywhere: the variable stays dirty with count 0 (as the code does), ready for further accumulation *)
Theorem C13_zero_count_stays_dirty : forall sts ps opss sts2 i s p ops xs s2,
  Forall2 Inv sts ps -> legal_all ps opss -> round_rel sts opss sts2 ->
  nth_error sts i = Some s -> nth_error ps i = Some p -> nth_error opss i = Some ops -> nth_error sts2 i = Some s2 ->
  grun p ops = Some xs -> union (grun_all ps opss) = [] ->
  s2 = zero_dirty /\ nth_error (ground ps opss) i = Some (Some []).
Proof. exact zero_count_stays_dirty. Qed.
Print Assumptions C13_zero_count_stays_dirty.

(* the executable round used in the correspondence run is one of the rounds the theorems speak about *)
Theorem C13_round_exec_is_round : forall sts opss, sts <> [] -> length sts = length opss -> round_rel sts opss (round_exec sts opss).
Proof. exact round_exec_is_round. Qed.
Print Assumptions C13_round_exec_is_round.

(* derived outputs, exact: min <= average <= max, average = sum / count, variance >= 0, variance_mean = variance / count *)
Theorem C13_union_derived : forall ps s, union ps <> [] -> holds_union ps s ->
  (inject_Z (v_min s) <= v_avg s)%Q /\ (v_avg s <= inject_Z (v_max s))%Q /\
  (v_avg s == inject_Z (v_sum s) / inject_Z (v_count s))%Q /\ (0 <= v_var s)%Q /\
  (v_varm s == v_var s / inject_Z (v_count s))%Q.
Proof. exact union_derived. Qed.
Print Assumptions C13_union_derived.

(* sc_stats_compute1 (repaired, finding F-C13a): on a dirty variable the single sample sum_values; a CLEAN variable is left
   untouched by the whole call whatever the reduction yields.  Rounds ending with sc_stats_compute1 are ordinary rounds of
   C13_round / C13_history_* (call OPrep1 as every rank's last call; the ghost of a clean variable stays None). *)
Theorem C13_compute1_dirty : forall s xs, Inv s (Some xs) -> Inv (prep1 s) (Some [zsum xs]).
Proof. exact compute1_dirty. Qed.
Print Assumptions C13_compute1_dirty.

Theorem C13_compute1_clean : forall s g, v_dirty s = 0 -> prep1 s = s /\ post (prep1 s) g = s.
Proof. exact compute1_clean. Qed.
Print Assumptions C13_compute1_clean.

(* regression guard for the repair of F-C13a: the loop body as it was BEFORE the repair (VarModel.prep1_old, no test of the
   dirty flag).  P = 1: init; accumulate 2; accumulate 4; compute; compute1 -> count 1, sum_squares 36, min 6, max 6 *)
Theorem C13_compute1_clean_old_refuted :
  let s0 := run_ops vzero [OInit; OAcc 2; OAcc 4] in
  let s1 := post s0 (pack 0 s0) in
  let s2 := post (prep1_old s1) (pack 0 (prep1_old s1)) in
  v_dirty s1 = 0 /\ rec_of s1 = mk 2 6 20 2 4 0 0 /\ rec_of s2 = mk 1 6 36 6 6 0 0 /\ s2 <> s1 /\
  post (prep1 s1) (pack 0 (prep1 s1)) = s1.
Proof. exact compute1_clean_old_refuted. Qed.
Print Assumptions C13_compute1_clean_old_refuted.

(* non-vacuity: three ranks, four rounds.  Round 1: samples {5, 7} / none (init only) / set1 -3.  Round 2: rank 0 leaves the
   variable clean, rank 1 resets and contributes nothing, rank 2 resets and accumulates 4.  Round 3: ranks 0 and 1 init
   without samples, rank 2 clean: no sample at all, the variable stays dirty with count 0 on ranks 0 and 1.  Round 4 ends with
   sc_stats_compute1: rank 0 still dirty (sample 0), rank 1 resets and accumulates 9 (sample 9), rank 2 CLEAN: untouched. *)
Example C13_history_nonvacuous :
  let rounds := [[[OInit; OAcc 5; OAcc 7]; [OInit]; [OSet1 (-3)]]; [[]; [OReset]; [OReset; OAcc 4]]; [[OInit]; [OInit]; []];
                 [[OPrep1]; [OReset; OAcc 9; OPrep1]; [OPrep1]]] in
  let ps0 := [None; None; None] in let sts0 := [vzero; vzero; vzero] in
  Forall2 Inv sts0 ps0 /\ legal_hist ps0 rounds /\
  (exists s1 s2 s3 s4, hist sts0 rounds s4 /\ hist_exec sts0 rounds = [s1; s2; s3; s4] /\
     map rec_of s1 = [mk 3 9 83 (-3) 7 2 0; mk 3 9 83 (-3) 7 2 0; mk 3 9 83 (-3) 7 2 0] /\
     map rec_of s2 = [mk 3 9 83 (-3) 7 2 0; mk 1 4 16 4 4 2 2; mk 1 4 16 4 4 2 2] /\
     map v_dirty s3 = [1; 1; 0] /\ map v_count s3 = [0; 0; 1] /\
     map rec_of s4 = [mk 2 9 81 0 9 0 1; mk 2 9 81 0 9 0 1; mk 1 4 16 4 4 2 2] /\ map v_dirty s4 = [0; 0; 0]) /\
  ghist ps0 rounds = [None; None; None].
Proof.
  cbv zeta. split; [repeat constructor|]. split.
  - simpl. repeat split; repeat constructor; try discriminate; intros [].
  - split; [|reflexivity].
    eexists; eexists; eexists; eexists. split; [|split; [reflexivity|repeat split; reflexivity]].
    eapply hist_cons; [apply round_exec_is_round; [discriminate|reflexivity]|].
    eapply hist_cons; [apply round_exec_is_round; [discriminate|reflexivity]|].
    eapply hist_cons; [apply round_exec_is_round; [discriminate|reflexivity]|].
    eapply hist_cons; [apply round_exec_is_round; [discriminate|reflexivity]|]. apply hist_nil.
Qed.

(* in exact arithmetic the clamp SC_MAX (variance, 0.) never acts (Cauchy-Schwarz): it only guards against rounding *)
Theorem C13_cauchy_schwarz : forall U, zsum U * zsum U <= Z.of_nat (length U) * zsumsq U.
Proof. exact cauchy_schwarz. Qed.
Print Assumptions C13_cauchy_schwarz.

Theorem C13_union_variance_exact : forall ps s, union ps <> [] -> holds_union ps s ->
  (v_var s == inject_Z (v_sq s) / inject_Z (v_count s) - v_avg s * v_avg s)%Q.
Proof. exact union_variance_exact. Qed.
Print Assumptions C13_union_variance_exact.

(* ranks without samples get the union's numbers *)
Theorem C13_no_sample_rank : forall sts ps opss sts2 i s1 s2,
  Forall2 Inv sts ps -> legal_all ps opss -> round_rel sts opss sts2 ->
  nth_error (run_all sts opss) i = Some s1 -> nth_error (grun_all ps opss) i = Some (Some []) -> nth_error sts2 i = Some s2 ->
  union (grun_all ps opss) <> [] -> holds_union (grun_all ps opss) s2.
Proof. exact no_sample_rank. Qed.
Print Assumptions C13_no_sample_rank.

(* variance_mean reads the CLAMPED variance: in the model by definition of `derived` (C13_gen_derived ties the generated Q
   translation of the four derived assignments to it), and therefore after every compute of every history *)
Theorem C13_variance_mean_of_clamped : forall s q c, let '(_, v, vm) := derived s q c in vm = (v / inject_Z c)%Q.
Proof. exact derived_varm. Qed.
Print Assumptions C13_variance_mean_of_clamped.

Theorem C13_history_variance_mean : forall sts ps rounds opss sts' i xs s2,
  Forall2 Inv sts ps -> legal_hist ps (rounds ++ [opss]) -> hist sts (rounds ++ [opss]) sts' ->
  nth_error (grun_all (ghist ps rounds) opss) i = Some (Some xs) -> nth_error sts' i = Some s2 ->
  (v_varm s2 == v_var s2 / inject_Z (v_count s2))%Q /\ (0 <= v_var s2)%Q /\ (0 <= v_varm s2)%Q.
Proof. exact history_variance_mean. Qed.
Print Assumptions C13_history_variance_mean.
