(* C04 - the allgather replacement gives every rank all contributions in rank order.
   Global dataflow model of sc_allgather_recursive / sc_allgather_alltoall (C04/AllgatherModel.v); the per-rank
   program of the same file is co-simulated against the real code on every run. *)
From Coq Require Import ZArith List Bool.
From ScV Require Import Base.CInt Gen.Consts C04.AllgatherModel C04.AllgatherProofs.
From ScV Require Import MPI.Prog MPI.Sem MPI.SemFrame MPI.SemPosted C04.AllgatherSched C04.AllgatherPosted.
Import ListNotations.
Local Open Scope Z_scope.

(* every communicator size, every block content (blocks are an arbitrary type, so every size incl. zero):
   after the call every rank holds the blocks of ranks 0 .. P-1 in this order *)
Theorem C04_allgather : forall (A : Type) (amax : Z), 1 <= amax -> forall (b : Z -> A) (P : Z), 0 < P ->
  forall r i, 0 <= r < P -> 0 <= i < P -> allgather A amax P b r i = Some (b i).
Proof. exact allgather_correct. Qed.
Print Assumptions C04_allgather.

(* the routine for a subgroup (g, base): same guarantee inside the group, and nothing else is touched *)
Theorem C04_subgroup : forall (A : Type) (amax : Z), 1 <= amax -> forall (b : Z -> A),
  forall fuel g base st, 0 < g -> (Z.to_nat g <= fuel)%nat ->
  (forall r, base <= r < base + g -> st r r = Some (b r)) ->
  (forall r i, base <= r < base + g -> base <= i < base + g -> ag A amax fuel g base st r i = Some (b i)) /\
  (forall r i, ~ (base <= r < base + g /\ base <= i < base + g) -> ag A amax fuel g base st r i = st r i).
Proof. exact ag_correct. Qed.
Print Assumptions C04_subgroup.

(* every posted receive has exactly one matching send: same peer pair, tag, slot range and size *)
Theorem C04_matching_level : forall amax, 1 <= amax -> forall g base r d t l n,
  amax < g -> base <= r < base + g -> base <= d < base + g ->
  (In (mkmsg d t l n) (sends_level g base r) <-> In (mkmsg r t l n) (recvs_level g base d)).
Proof. exact matching_level. Qed.
Print Assumptions C04_matching_level.

Theorem C04_matching_alltoall : forall g base r d t l n,
  0 <= g -> base <= r < base + g -> base <= d < base + g ->
  (In (mkmsg d t l n) (sends_a2a g base r) <-> In (mkmsg r t l n) (recvs_a2a g base d)).
Proof. exact matching_a2a. Qed.
Print Assumptions C04_matching_alltoall.

(* within one step a rank never posts two receives for the same (source, tag): matching is deterministic,
   hence the result cannot depend on which request completes first *)
Theorem C04_receives_distinct : forall g base r,
  NoDup (map (fun m => (peer m, mtag m)) (recvs_level g base r)) /\
  NoDup (map (fun m => (peer m, mtag m)) (recvs_a2a g base r)).
Proof. intros; split; [exact (recvs_level_distinct g base r) | exact (recvs_a2a_distinct g base r)]. Qed.
Print Assumptions C04_receives_distinct.

(* the generated threshold of the repository satisfies the hypothesis *)
Theorem C04_threshold_ok : 1 <= c_SC_ALLGATHER_ALLTOALL_MAX.
Proof. exact (proj1 (Z.leb_le 1 c_SC_ALLGATHER_ALLTOALL_MAX) eq_refl). Qed.
Print Assumptions C04_threshold_ok.

Example C04_nonvacuous :
  allgather Z 5 13 (fun i => 100 + i) 12 7 = Some 107 /\ allgather Z 5 13 (fun i => 100 + i) 0 12 = Some 112.
Proof. split; vm_compute; reflexivity. Qed.

(* ==== from the per-rank programs to the global result, under EVERY message timing =========================
   The system: rank r (0 <= r < P) runs the per-rank program `allgather_prog amax sz P r (b r)` - the program that
   is co-simulated against the trace of the real code - in the interleaving semantics of MPI/Sem.v (buffered
   sends, FIFO channels per (source, destination, tag)); all channels are empty at the start (ag_start).
   ag_end: every rank r < P has returned the blocks b 0 ++ b 1 ++ ... ++ b (P-1), every channel is empty.
   For every P > 0, every threshold amax >= 1, every block size sz (zero included) and all block contents:
   there is n such that  (1) some schedule reaches ag_end in n steps, and for EVERY schedule prefix
   `run m ag_start s'`:  (2) m <= n and s' can be completed to ag_end in exactly n - m steps (termination, no
   livelock),  (3) if s' is final it IS ag_end (same result, no message left unreceived),  (4) s' is final or
   some rank can move (no deadlock). *)
Theorem C04_every_schedule : forall (amax : Z), 1 <= amax -> forall (sz : nat) (P : Z) (b : Z -> payload),
  (forall r, 0 <= r < P -> length (b r) = sz) -> 0 < P ->
  exists n : nat,
    run n (ag_start amax sz P b) (ag_end P b) /\
    forall m s', run m (ag_start amax sz P b) s' ->
      (m <= n)%nat /\ run (n - m) s' (ag_end P b) /\
      (final s' -> s' = ag_end P b /\ m = n) /\
      (final s' \/ exists r s'', step s' r s'').
Proof. exact allgather_all_schedules. Qed.
Print Assumptions C04_every_schedule.

(* the same under the POSTED-RECEIVE semantics of MPI/SemPosted.v (run_p / step_p): a pending Irecv does not hold
   back the Isends posted after it in its window, posted receives complete in any order as the messages arrive, the
   code after the completion call runs when all are complete.  Every schedule of the blocking semantics above is a
   schedule of this one, so this is the statement about the LARGER set of schedules (both stages of sc_allgather use
   Irecv/Isend windows completed by one MPI_Waitall). *)
Theorem C04_every_posted_schedule : forall (amax : Z), 1 <= amax -> forall (sz : nat) (P : Z) (b : Z -> payload),
  (forall r, 0 <= r < P -> length (b r) = sz) -> 0 < P ->
  exists n : nat,
    run_p n (ag_start amax sz P b) (ag_end P b) /\
    forall m s', run_p m (ag_start amax sz P b) s' ->
      (m <= n)%nat /\ run_p (n - m) s' (ag_end P b) /\
      (final s' -> s' = ag_end P b /\ m = n) /\
      (final s' \/ exists r s'', step_p s' r s'').
Proof. exact allgather_all_posted_schedules. Qed.
Print Assumptions C04_every_posted_schedule.

(* what ag_end is: the result of rank r is the row of rank r of the GLOBAL dataflow model `allgather`
   (the object of C04_allgather), which is the blocks in rank order *)
Theorem C04_final_state_is_model : forall amax P (b : Z -> payload), 1 <= amax -> 0 < P ->
  (forall a d t, ch (ag_end P b) a d t = []) /\
  forall r, 0 <= r < P ->
    pr (ag_end P b) r = Ret (model_row amax P b r) /\ model_row amax P b r = slots b 0 (Z.to_nat P).
Proof. exact ag_end_is_model. Qed.
Print Assumptions C04_final_state_is_model.

(* the sub-routine for a subgroup (g, base) inside ANY global state: if the members are at
   ag_prog fuel g base r (buf r) (k r), hold their own block, and the channels inside the group are empty,
   then the group can be scheduled - nobody else moves, every channel ends as it was - to the point where each
   member continues with its buffer's slots base .. base+g-1 filled with the group's blocks in rank order *)
Theorem C04_subgroup_schedule : forall (amax : Z), 1 <= amax -> forall (sz : nat) (P : Z) (b : Z -> payload),
  (forall r, 0 <= r < P -> length (b r) = sz) ->
  forall fuel g base (buf : Z -> buffer) (k : Z -> buffer -> prog) s,
  0 < g -> 0 <= base -> base + g <= P -> (Z.to_nat g <= fuel)%nat ->
  (forall r, base <= r < base + g -> pr s r = ag_prog amax sz fuel g base r (buf r) (k r)) ->
  (forall r, base <= r < base + g -> buf r r = b r) ->
  (forall a d t, base <= a < base + g -> base <= d < base + g -> ch s a d t = []) ->
  exists n s' (buf' : Z -> buffer), run n s s' /\
    (forall r, base <= r < base + g ->
       pr s' r = k r (buf' r) /\ forall i, buf' r i = if inb base g i then b i else buf r i) /\
    (forall r, ~ (base <= r < base + g) -> pr s' r = pr s r) /\
    (forall a d t, ch s' a d t = ch s a d t).
Proof. exact ag_sched. Qed.
Print Assumptions C04_subgroup_schedule.

(* an instance: 13 ranks, threshold 5 (two recursion levels, odd halves), blocks of two bytes *)
Example C04_schedule_instance :
  (exists n, run n (ag_start 5 2 13 (fun r => [r; 100 + r])) (ag_end 13 (fun r => [r; 100 + r]))) /\
  pr (ag_end 13 (fun r => [r; 100 + r])) 7 =
    Ret [0; 100; 1; 101; 2; 102; 3; 103; 4; 104; 5; 105; 6; 106; 7; 107; 8; 108; 9; 109; 10; 110; 11; 111; 12; 112].
Proof.
  split; [|vm_compute; reflexivity].
  destruct (allgather_all_schedules 5 ltac:(discriminate) 2 13 (fun r => [r; 100 + r]) ltac:(reflexivity) eq_refl) as [n [H _]].
  exists n. exact H.
Qed.

(* ===== tie T1: the model's message lists are the calls of the definitions GENERATED from /repo/src/sc_allgather.c ============ *)
(* Gen/AllgatherC04.v is regenerated from the working tree on every run (tools/c2g/groups_C04.py); an edit of the arithmetic
   changes a generated definition and the statements below stop checking.  B31 = 2^31. *)
From ScV Require Import Gen.AllgatherC04 C04.AllgatherGen.
Local Open Scope Z_scope.


(* g2 = groupsize / 2, g2B = groupsize - g2 *)
Theorem C04_gen_halves : forall g, 0 <= g < B31 -> ag_halves g = (g / 2, g - g / 2).
Proof. exact gen_halves. Qed.
Print Assumptions C04_gen_halves.

(* the recursion is used above SC_ALLGATHER_ALLTOALL_MAX *)
Theorem C04_gen_is_recursive : forall g, ag_is_recursive g = (c_SC_ALLGATHER_ALLTOALL_MAX <? g).
Proof. exact gen_is_recursive. Qed.
Print Assumptions C04_gen_is_recursive.

(* below the threshold the all-to-all exchange gets the same arguments *)
Theorem C04_gen_a2a_args : forall sz g o r, ag_a2a_args sz g o r = (sz, g, o, r).
Proof. exact gen_a2a_args. Qed.
Print Assumptions C04_gen_a2a_args.

(* sc_allgather: datasize = sendcount * sizeof (sendtype); the own block is copied to slot mpirank with datasize bytes; the recursion starts with the whole communicator *)
Theorem C04_gen_top : forall n ts P r sendtype recvtype, 0 <= n < B31 -> 0 <= ts -> n * ts < B31 -> 0 <= r < P -> P < B31 ->
  top_datasize n ts = n * ts /\ top_sized_type sendtype recvtype = sendtype /\
  top_copy_offset r (n * ts) = r * (n * ts) /\ top_copy_bytes r (n * ts) = n * ts /\
  top_args (n * ts) P r = (n * ts, P, r - 0, r).
Proof. exact gen_top. Qed.
Print Assumptions C04_gen_top.



(* the receives the model lists for a rank in the exchange step of a group are the Irecv calls of the branch the generated tests select: (buffer offset, bytes, peer, tag) *)
Theorem C04_gen_recvs_level : forall g base r sz ta tb tc tall, 2 <= g -> 0 <= base -> base <= r < base + g -> 0 <= sz -> g * sz < B31 -> base + 2 * g < B31 ->
  map (as_call sz base ta tb tc tall) (recvs_level g base r) =
  if ag_in_lower (r - base) (g / 2) then [call7 ag_msg1_offset ag_msg1_bytes ag_msg1_peer ag_msg1_tag sz (g / 2) (g - g / 2) r ta tb tc]
  else if ag_upper_odd (r - base) g (g / 2) (g - g / 2) then [call7 ag_msg4_offset ag_msg4_bytes ag_msg4_peer ag_msg4_tag sz (g / 2) (g - g / 2) r ta tb tc]
  else [call7 ag_msg5_offset ag_msg5_bytes ag_msg5_peer ag_msg5_tag sz (g / 2) (g - g / 2) r ta tb tc].
Proof. exact gen_recvs_level_c. Qed.
Print Assumptions C04_gen_recvs_level.

(* ... and the sends, including the extra send to the unpaired rank of an odd group *)
Theorem C04_gen_sends_level : forall g base r sz ta tb tc tall, 2 <= g -> 0 <= base -> base <= r < base + g -> 0 <= sz -> g * sz < B31 -> base + 2 * g < B31 ->
  map (as_call sz base ta tb tc tall) (sends_level g base r) =
  if ag_in_lower (r - base) (g / 2) then
    call7 ag_msg2_offset ag_msg2_bytes ag_msg2_peer ag_msg2_tag sz (g / 2) (g - g / 2) r ta tb tc ::
    (if ag_lower_odd (r - base) (g / 2) (g - g / 2) then [call7 ag_msg3_offset ag_msg3_bytes ag_msg3_peer ag_msg3_tag sz (g / 2) (g - g / 2) r ta tb tc] else [])
  else if ag_upper_odd (r - base) g (g / 2) (g - g / 2) then []
  else [call7 ag_msg6_offset ag_msg6_bytes ag_msg6_peer ag_msg6_tag sz (g / 2) (g - g / 2) r ta tb tc].
Proof. exact gen_sends_level_c. Qed.
Print Assumptions C04_gen_sends_level.

(* the two recursive calls work on (g2, base) and (g2B, base + g2); three requests are waited for *)
Theorem C04_gen_recurse : forall g base r sz, 2 <= g -> 0 <= base -> base <= r < base + g -> 0 <= sz -> g * sz < B31 -> base + 2 * g < B31 ->
  ag_recurse_lower_offset sz (g / 2) (g - g / 2) (r - base) r = 0 /\
  ag_recurse_lower sz (g / 2) (g - g / 2) (r - base) r = (sz, g / 2, r - base, r) /\
  ag_recurse_upper_offset sz (g / 2) (g - g / 2) (r - base) r = ((base + g / 2) - base) * sz /\
  ag_recurse_upper sz (g / 2) (g - g / 2) (r - base) r = (sz, g - g / 2, r - (base + g / 2), r) /\
  ag_wait_count = 3.
Proof. exact gen_recurse_c. Qed.
Print Assumptions C04_gen_recurse.

(* all-to-all: slot base + j is received from rank base + j, for every j but the own offset *)
Theorem C04_gen_recvs_a2a : forall g base r sz tall, 0 <= base -> base <= r < base + g -> 0 <= sz -> g * sz < B31 -> base + 2 * g < B31 ->
  map (as_call sz base 0 0 0 tall) (recvs_a2a g base r) = a2a_calls g base r sz tall a2a_recv_offset a2a_recv_bytes a2a_recv_peer a2a_recv_tag.
Proof. exact gen_recvs_a2a_c. Qed.
Print Assumptions C04_gen_recvs_a2a.

(* all-to-all: the own slot is sent to every other member *)
Theorem C04_gen_sends_a2a : forall g base r sz tall, 0 <= base -> base <= r < base + g -> 0 <= sz -> g * sz < B31 -> base + 2 * g < B31 ->
  map (as_call sz base 0 0 0 tall) (sends_a2a g base r) = a2a_calls g base r sz tall a2a_send_offset a2a_send_bytes a2a_send_peer a2a_send_tag.
Proof. exact gen_sends_a2a_c. Qed.
Print Assumptions C04_gen_sends_a2a.

(* loop bound and number of requests of the all-to-all exchange *)
Theorem C04_gen_a2a_counts : forall g base j, 0 <= base -> base + 2 * g < B31 -> 0 <= g -> a2a_loop_cond j g = (j <? g) /\ a2a_wait_count g = 2 * g.
Proof. exact gen_a2a_counts_c. Qed.
Print Assumptions C04_gen_a2a_counts.

(* ===== HISTORIES: several calls on ONE communicator, back to back, no barrier, every interleaving ACROSS the calls ===============
   (coq/C04/AllgatherHist.v)  A call = (entry point, group, block size, blocks): E_top = sc_allgather (whole communicator),
   E_rec = sc_allgather_recursive and E_a2a = sc_allgather_alltoall on the group (c_g, c_base); ranks outside the group do not
   take part.  call_ok P c: 0 < g, 0 <= base, base + g <= P, the blocks of the members have length c_sz c (zero included).
   call_prog amax P me c k: what rank `me` does for the call, continuing with k (its output); call_out P me c: the blocks of the
   group in rank order for a member, [] for a non-member.  The messages of ALL calls use the same four tags. *)
From ScV Require Import C04.AllgatherHist.

(* ONE CALL inside an ARBITRARY global state (this is what makes the calls composable): every rank of the communicator stands at the
   call, the channels inside the communicator are empty; then the call can be scheduled - no rank outside moves, EVERY channel ends
   as it was (nothing of this call stays in flight) - to the point where every rank continues with the output of the call *)
Theorem C04_history_call : forall (amax : Z), 1 <= amax -> forall (P : Z) (c : call) (k : Z -> payload -> prog) (s : gs),
  call_ok P c ->
  (forall r, 0 <= r < P -> pr s r = call_prog amax P r c (k r)) ->
  (forall a d t, 0 <= a < P -> 0 <= d < P -> ch s a d t = []) ->
  exists n s', run n s s' /\
    (forall r, 0 <= r < P -> pr s' r = k r (call_out P r c)) /\
    (forall r, ~ (0 <= r < P) -> pr s' r = pr s r) /\
    (forall a d t, ch s' a d t = ch s a d t).
Proof. exact call_sched. Qed.
Print Assumptions C04_history_call.

(* what a call hands out, and how the outputs of a history are cut apart again *)
Theorem C04_history_outputs : forall P me c cs,
  hist_out P me (c :: cs) = call_out P me c ++ hist_out P me cs /\ hist_out P me [] = [] /\
  call_out P me c = (if inb (snd (grp P c)) (fst (grp P c)) me then slots (c_blk c) (snd (grp P c)) (Z.to_nat (fst (grp P c))) else []) /\
  (call_ok P c ->
   length (call_out P me c) = if inb (snd (grp P c)) (fst (grp P c)) me then (Z.to_nat (fst (grp P c)) * c_sz c)%nat else 0%nat).
Proof. intros P me c cs. exact (hist_outputs P me c cs). Qed.
Print Assumptions C04_history_outputs.

(* EVERY history, EVERY schedule.  hist_start: rank r < P runs hist_prog amax P r cs [] (the calls of cs one after the other, no
   barrier), all channels empty; hist_end: rank r < P has returned call_out of call 1 ++ call_out of call 2 ++ ..., all channels
   empty.  For every list of valid calls - any mix of the three entry points, any groups, any block sizes - there is n with:
   some schedule reaches hist_end in n steps and for EVERY schedule prefix `run m hist_start s'` (ranks may be several calls
   apart): m <= n, s' can be completed to hist_end in exactly n - m steps, a final s' IS hist_end (every call returned ITS
   blocks, no message of any call is left), and s' is final or some rank can move. *)
Theorem C04_history_every_schedule : forall (amax : Z), 1 <= amax -> forall (P : Z) (cs : list call),
  Forall (call_ok P) cs ->
  exists n : nat,
    run n (hist_start amax P cs) (hist_end P cs) /\
    forall m s', run m (hist_start amax P cs) s' ->
      (m <= n)%nat /\ run (n - m) s' (hist_end P cs) /\
      (final s' -> s' = hist_end P cs /\ m = n) /\
      (final s' \/ exists r s'', step s' r s'').
Proof. exact hist_every_schedule. Qed.
Print Assumptions C04_history_every_schedule.

(* the same for the posted-receive semantics (MPI/SemPosted.v): Isends are not held back by pending Irecvs - here not even by the
   pending receives of an EARLIER call - and posted receives complete in any order *)
Theorem C04_history_every_posted_schedule : forall (amax : Z), 1 <= amax -> forall (P : Z) (cs : list call),
  Forall (call_ok P) cs ->
  exists n : nat,
    run_p n (hist_start amax P cs) (hist_end P cs) /\
    forall m s', run_p m (hist_start amax P cs) s' ->
      (m <= n)%nat /\ run_p (n - m) s' (hist_end P cs) /\
      (final s' -> s' = hist_end P cs /\ m = n) /\
      (final s' \/ exists r s'', step_p s' r s'').
Proof. exact hist_every_posted_schedule. Qed.
Print Assumptions C04_history_every_posted_schedule.

(* A RANK THAT HAS FINISHED HAS THE RIGHT RESULT whatever the others are still doing: in EVERY reachable state of a history (any
   interleaving; the other ranks anywhere in their calls; messages of later calls already queued behind those of earlier calls),
   a rank that has returned has returned the outputs of its calls, call by call *)
Theorem C04_history_finished_rank : forall (amax : Z), 1 <= amax -> forall (P : Z) (cs : list call),
  Forall (call_ok P) cs ->
  forall m s' r out, run m (hist_start amax P cs) s' -> 0 <= r < P -> pr s' r = Ret out -> out = hist_out P r cs.
Proof. exact hist_finished_rank. Qed.
Print Assumptions C04_history_finished_rank.

(* REUSE OF OUTPUTS: the k-th call (entry point, group, block size, own block) is COMPUTED by every rank from what it has gathered
   so far.  dhist_ok: at every call all ranks agree on entry point, group and size, and the resolved call is valid;
   dhist_out: the accumulated outputs.  Same conclusion, both semantics. *)
Theorem C04_history_reuse_every_schedule : forall (amax : Z), 1 <= amax -> forall (P : Z) (cs : list (payload -> call)),
  dhist_ok P cs (fun _ => []) ->
  exists n : nat,
    run n (dhist_start amax P cs) (dhist_end P cs) /\
    (forall m s', run m (dhist_start amax P cs) s' ->
      (m <= n)%nat /\ run (n - m) s' (dhist_end P cs) /\
      (final s' -> s' = dhist_end P cs /\ m = n) /\
      (final s' \/ exists r s'', step s' r s'')) /\
    (forall m s', run_p m (dhist_start amax P cs) s' ->
      (m <= n)%nat /\ run_p (n - m) s' (dhist_end P cs) /\
      (final s' -> s' = dhist_end P cs /\ m = n) /\
      (final s' \/ exists r s'', step_p s' r s'')).
Proof. exact dhist_all_schedules. Qed.
Print Assumptions C04_history_reuse_every_schedule.

(* non-vacuity 1: a history of five calls on 7 ranks (sc_allgather 2-byte blocks; direct exchange on ranks 2..4 with EMPTY blocks;
   sc_allgather_recursive on ranks 1..6; sc_allgather with empty blocks; sc_allgather 3-byte blocks): hypotheses discharged, results
   of a rank inside and of a rank outside the subgroups computed *)
Theorem C04_history_instance :
  (exists n, run n (hist_start 5 7 ex_hist) (hist_end 7 ex_hist) /\ terminal_for (hist_start 5 7 ex_hist) (hist_end 7 ex_hist) n) /\
  pr (hist_end 7 ex_hist) 3 =
    Ret ([0; 100; 1; 101; 2; 102; 3; 103; 4; 104; 5; 105; 6; 106] ++ [] ++ [51; 52; 53; 54; 55; 56] ++ [] ++
         [0; 0; 7; 1; 1; 7; 2; 2; 7; 3; 3; 7; 4; 4; 7; 5; 5; 7; 6; 6; 7]) /\
  pr (hist_end 7 ex_hist) 0 =
    Ret ([0; 100; 1; 101; 2; 102; 3; 103; 4; 104; 5; 105; 6; 106] ++
         [0; 0; 7; 1; 1; 7; 2; 2; 7; 3; 3; 7; 4; 4; 7; 5; 5; 7; 6; 6; 7]).
Proof. exact ex_hist_schedules. Qed.
Print Assumptions C04_history_instance.

(* non-vacuity 2, THE BOUNDARY BETWEEN CALLS: a reachable state (20 steps) of a four-call history on 3 ranks in which rank 0 is
   three calls ahead of rank 2: channel 0 -> 2 with tag ALLTOALL holds the message of call 1 and, behind it, the message of call 4
   (same tag, different length) while rank 2 still waits at its first receive of call 1; the run can be completed to hist_end *)
Theorem C04_history_fast_rank :
  exists s', run 20 (hist_start 5 3 ex_fast) s' /\
    ch s' 0 2 TAG_ALLTOALL = [[10]; [40; 50; 60]] /\
    (exists k, pr s' 2 = Do (Recv 0 TAG_ALLTOALL) k) /\
    (exists n, run n s' (hist_end 3 ex_fast)) /\
    pr (hist_end 3 ex_fast) 2 = Ret ([10; 11; 12] ++ [40; 50; 60; 41; 51; 61; 42; 52; 62]).
Proof. exact ex_fast_rank. Qed.
Print Assumptions C04_history_fast_rank.

(* non-vacuity 3: outputs reused (block size and blocks of call 2 computed from the result of call 1, call 3 on a subgroup) *)
Theorem C04_history_reuse_instance :
  (exists n, run n (dhist_start 5 3 ex_dhist) (dhist_end 3 ex_dhist) /\
             terminal_for (dhist_start 5 3 ex_dhist) (dhist_end 3 ex_dhist) n) /\
  pr (dhist_end 3 ex_dhist) 1 = Ret ([1; 2; 3] ++ [2; 4; 6; 3; 6; 9; 4; 8; 12] ++ [13; 14]) /\
  pr (dhist_end 3 ex_dhist) 0 = Ret ([1; 2; 3] ++ [2; 4; 6; 3; 6; 9; 4; 8; 12]).
Proof. exact ex_dhist_schedules. Qed.
Print Assumptions C04_history_reuse_instance.

(* ===== tie T1, whole control flow: the LOOP of sc_allgather_alltoall iteration by iteration, the BODY of sc_allgather ===============
   a2a_iter (Gen/AllgatherC04.v) is one iteration of the loop body translated as a block: (Irecv called?, its 7 arguments, Isend called?,
   its 7 arguments, stop); a2a_loop_init / a2a_loop_cond / a2a_loop_step the loop header; a2a_null_recv_slot / a2a_null_send_slot the
   request slots the skip branch sets to sc_MPI_REQUEST_NULL.  C04/AllgatherGen.v re-assembles the loop from these pieces: loop_js g fuel j0
   = the values j takes, iter_recv_call / iter_send_call = the calls of iteration j as (byte offset from data, bytes, peer, tag),
   iter_recv_slot / iter_send_slot = the request slot filled in iteration j.  a2a_iter_at g base r sz tall data request comm byte ret1 ret2 j
   = a2a_iter j (r - base) r sz g data request comm byte tall ret1 ret2. *)

(* one iteration, for every j: nothing for the own offset; otherwise Irecv into slot j from rank base + j and Isend of the own slot to
   that rank - sz bytes, the same datatype, the all-to-all tag, the same communicator, requests j and groupsize + j; never a break *)
Theorem C04_gen_a2a_iter : forall g base r sz tall data request comm byte ret1 ret2,
  0 <= base -> base <= r < base + g -> 0 <= sz -> g * sz < B31 -> base + 2 * g < B31 ->
  forall j, 0 <= j < g ->
  a2a_iter_at g base r sz tall data request comm byte ret1 ret2 j =
  if j =? r - base then (0, 0, 0, 0, 0, 0, 0, 0, 0, 0, 0, 0, 0, 0, 0, 0, 0)
  else (1, data + j * sz, sz, u32 byte, base + j, tall, comm, request + j,
        1, data + (r - base) * sz, sz, u32 byte, base + j, tall, comm, request + g + j, 0).
Proof. exact gen_a2a_iter. Qed.
Print Assumptions C04_gen_a2a_iter.

(* MODEL = GENERATED LOOP: the model's receive list of the all-to-all window is what the generated iterations post, over the generated
   sequence of loop indices, in posting order *)
Theorem C04_gen_loop_recvs : forall g base r sz tall data request comm byte ret1 ret2,
  0 <= base -> base <= r < base + g -> 0 <= sz -> g * sz < B31 -> base + 2 * g < B31 ->
  map (as_call sz base 0 0 0 tall) (recvs_a2a g base r) =
  flat_map (iter_recv_call g base r sz tall data request comm byte ret1 ret2) (loop_js g (S (Z.to_nat g)) a2a_loop_init).
Proof. exact gen_loop_recvs. Qed.
Print Assumptions C04_gen_loop_recvs.

Theorem C04_gen_loop_sends : forall g base r sz tall data request comm byte ret1 ret2,
  0 <= base -> base <= r < base + g -> 0 <= sz -> g * sz < B31 -> base + 2 * g < B31 ->
  map (as_call sz base 0 0 0 tall) (sends_a2a g base r) =
  flat_map (iter_send_call g base r sz tall data request comm byte ret1 ret2) (loop_js g (S (Z.to_nat g)) a2a_loop_init).
Proof. exact gen_loop_sends. Qed.
Print Assumptions C04_gen_loop_sends.

(* loop indices 0 .. g-1; REQUEST SLOTS: iteration j fills slot j (Irecv or NULL) and slot g + j (Isend or NULL), i.e. over the loop
   the slots 0 .. g-1 and g .. 2g-1 each exactly once, and MPI_Waitall waits for 2g requests; no iteration stops the loop; both calls
   of an iteration use the same datatype and communicator *)
Theorem C04_gen_loop_slots : forall g base r sz tall data request comm byte ret1 ret2,
  0 <= base -> base <= r < base + g -> 0 <= sz -> g * sz < B31 -> base + 2 * g < B31 ->
  let js := loop_js g (S (Z.to_nat g)) a2a_loop_init in
  js = map Z.of_nat (seq 0 (Z.to_nat g)) /\
  map (iter_recv_slot g base r sz tall data request comm byte ret1 ret2) js = map Z.of_nat (seq 0 (Z.to_nat g)) /\
  map (iter_send_slot g base r sz tall data request comm byte ret1 ret2) js = map (fun j => g + Z.of_nat j) (seq 0 (Z.to_nat g)) /\
  a2a_wait_count g = 2 * g /\
  (forall j, In j js -> iter_stop g base r sz tall data request comm byte ret1 ret2 j = 0 /\
     (j <> r - base -> iter_types g base r sz tall data request comm byte ret1 ret2 j = (u32 byte, comm, u32 byte, comm))).
Proof.
  intros g base r sz tall data request comm byte ret1 ret2 H1 H2 H3 H4 H5.
  exact (conj (gen_loop_js g base r H1 H2 H5) (gen_loop_slots g base r sz tall data request comm byte ret1 ret2 H1 H2 H3 H4 H5)).
Qed.
Print Assumptions C04_gen_loop_slots.

(* the WHOLE BODY of sc_allgather: (Comm_size called, communicator, Comm_rank called, communicator, memcpy called, destination, source,
   bytes, sc_allgather_recursive called, its six arguments, return value).  With datasize = n * ts, P and r what the two queries stored:
   the own block goes to slot r of group (P, 0) - byte offset (r - 0) * datasize, 1 * datasize bytes from sendbuf - then ONE call of the
   recursion on the same communicator and buffer for the group (P, 0) with offset r - 0; returns sc_MPI_SUCCESS; nothing else is called *)
Theorem C04_gen_top_body : forall sendbuf recvbuf comm n n' ts P r sendtype recvtype ret1 ret2 succ,
  0 <= n < B31 -> 0 <= ts -> n * ts < B31 -> 0 <= r < P -> P < B31 ->
  top_body sendbuf n sendtype recvbuf n' recvtype comm ts ret1 ret2 P r succ =
  (1, comm, 1, comm, 1, recvbuf + (r - 0) * (n * ts), sendbuf, 1 * (n * ts), 1, comm, recvbuf, n * ts, P, r - 0, r, succ).
Proof. exact gen_top_body. Qed.
Print Assumptions C04_gen_top_body.

(* request slots of sc_allgather_recursive: on each of the four paths through the exchange step, ag_wait_count (= 3) slots are written -
   by Irecv / Isend or with sc_MPI_REQUEST_NULL - and every slot 0 .. 2 is among them, so MPI_Waitall (3, request, ..) never looks at an
   unset request (ag_req_slots: the literal slot numbers per path, collected from the source on every run) *)
Theorem C04_gen_req_slots :
  length ag_req_slots = 4%nat /\
  Forall (fun p => Z.of_nat (length p) = ag_wait_count /\ forall i, 0 <= i < ag_wait_count -> In i p) ag_req_slots.
Proof. exact gen_req_slots. Qed.
Print Assumptions C04_gen_req_slots.

(* sc_allgather_alltoall allocates exactly the requests it fills and waits for *)
Theorem C04_gen_a2a_alloc : forall g, 0 <= g -> 2 * g < B31 -> a2a_alloc_bytes g = a2a_wait_count g * 4.
Proof. exact gen_a2a_alloc. Qed.
Print Assumptions C04_gen_a2a_alloc.
