(* C04 - the allgather replacement gives every rank all contributions in rank order.
   Global dataflow model of sc_allgather_recursive / sc_allgather_alltoall (C04/AllgatherModel.v); the per-rank
   program of the same file is co-simulated against the real code on every run. *)
From Coq Require Import ZArith List Bool.
From ScV Require Import Base.CInt Gen.Consts C04.AllgatherModel C04.AllgatherProofs.
From ScV Require Import MPI.Prog MPI.Sem MPI.SemFrame MPI.SemPosted C04.AllgatherSched C04.AllgatherPosted.
Import ListNotations.
Local Open Scope Z_scope.

(* every communicator size, every block content (blocks are an arbitrary type, so every size incl. zero):
   after the call every rank holds the blocks of ranks 0 .. P-1 in this order *)
Theorem C04_allgather : forall (A : Type) (amax : Z), 1 <= amax -> forall (b : Z -> A) (P : Z), 0 < P ->
  forall r i, 0 <= r < P -> 0 <= i < P -> allgather A amax P b r i = Some (b i).
Proof. exact allgather_correct. Qed.
Print Assumptions C04_allgather.

(* the routine for a subgroup (g, base): same guarantee inside the group, and nothing else is touched *)
Theorem C04_subgroup : forall (A : Type) (amax : Z), 1 <= amax -> forall (b : Z -> A),
  forall fuel g base st, 0 < g -> (Z.to_nat g <= fuel)%nat ->
  (forall r, base <= r < base + g -> st r r = Some (b r)) ->
  (forall r i, base <= r < base + g -> base <= i < base + g -> ag A amax fuel g base st r i = Some (b i)) /\
  (forall r i, ~ (base <= r < base + g /\ base <= i < base + g) -> ag A amax fuel g base st r i = st r i).
Proof. exact ag_correct. Qed.
Print Assumptions C04_subgroup.

(* every posted receive has exactly one matching send: same peer pair, tag, slot range and size *)
Theorem C04_matching_level : forall amax, 1 <= amax -> forall g base r d t l n,
  amax < g -> base <= r < base + g -> base <= d < base + g ->
  (In (mkmsg d t l n) (sends_level g base r) <-> In (mkmsg r t l n) (recvs_level g base d)).
Proof. exact matching_level. Qed.
Print Assumptions C04_matching_level.

Theorem C04_matching_alltoall : forall g base r d t l n,
  0 <= g -> base <= r < base + g -> base <= d < base + g ->
  (In (mkmsg d t l n) (sends_a2a g base r) <-> In (mkmsg r t l n) (recvs_a2a g base d)).
Proof. exact matching_a2a. Qed.
Print Assumptions C04_matching_alltoall.

(* within one step a rank never posts two receives for the same (source, tag): matching is deterministic,
   hence the result cannot depend on which request completes first *)
Theorem C04_receives_distinct : forall g base r,
  NoDup (map (fun m => (peer m, mtag m)) (recvs_level g base r)) /\
  NoDup (map (fun m => (peer m, mtag m)) (recvs_a2a g base r)).
Proof. intros; split; [exact (recvs_level_distinct g base r) | exact (recvs_a2a_distinct g base r)]. Qed.
Print Assumptions C04_receives_distinct.

(* the generated threshold of the repository satisfies the hypothesis *)
Theorem C04_threshold_ok : 1 <= c_SC_ALLGATHER_ALLTOALL_MAX.
Proof. exact (proj1 (Z.leb_le 1 c_SC_ALLGATHER_ALLTOALL_MAX) eq_refl). Qed.
Print Assumptions C04_threshold_ok.

Example C04_nonvacuous :
  allgather Z 5 13 (fun i => 100 + i) 12 7 = Some 107 /\ allgather Z 5 13 (fun i => 100 + i) 0 12 = Some 112.
Proof. split; vm_compute; reflexivity. Qed.

(* ==== from the per-rank programs to the global result, under EVERY message timing =========================
   The system: rank r (0 <= r < P) runs the per-rank program `allgather_prog amax sz P r (b r)` - the program that
   is co-simulated against the trace of the real code - in the interleaving semantics of MPI/Sem.v (buffered
   sends, FIFO channels per (source, destination, tag)); all channels are empty at the start (ag_start).
   ag_end: every rank r < P has returned the blocks b 0 ++ b 1 ++ ... ++ b (P-1), every channel is empty.
   For every P > 0, every threshold amax >= 1, every block size sz (zero included) and all block contents:
   there is n such that  (1) some schedule reaches ag_end in n steps, and for EVERY schedule prefix
   `run m ag_start s'`:  (2) m <= n and s' can be completed to ag_end in exactly n - m steps (termination, no
   livelock),  (3) if s' is final it IS ag_end (same result, no message left unreceived),  (4) s' is final or
   some rank can move (no deadlock). *)
Theorem C04_every_schedule : forall (amax : Z), 1 <= amax -> forall (sz : nat) (P : Z) (b : Z -> payload),
  (forall r, 0 <= r < P -> length (b r) = sz) -> 0 < P ->
  exists n : nat,
    run n (ag_start amax sz P b) (ag_end P b) /\
    forall m s', run m (ag_start amax sz P b) s' ->
      (m <= n)%nat /\ run (n - m) s' (ag_end P b) /\
      (final s' -> s' = ag_end P b /\ m = n) /\
      (final s' \/ exists r s'', step s' r s'').
Proof. exact allgather_all_schedules. Qed.
Print Assumptions C04_every_schedule.

(* the same under the POSTED-RECEIVE semantics of MPI/SemPosted.v (run_p / step_p): a pending Irecv does not hold
   back the Isends posted after it in its window, posted receives complete in any order as the messages arrive, the
   code after the completion call runs when all are complete.  Every schedule of the blocking semantics above is a
   schedule of this one, so this is the statement about the LARGER set of schedules (both stages of sc_allgather use
   Irecv/Isend windows completed by one MPI_Waitall). *)
Theorem C04_every_posted_schedule : forall (amax : Z), 1 <= amax -> forall (sz : nat) (P : Z) (b : Z -> payload),
  (forall r, 0 <= r < P -> length (b r) = sz) -> 0 < P ->
  exists n : nat,
    run_p n (ag_start amax sz P b) (ag_end P b) /\
    forall m s', run_p m (ag_start amax sz P b) s' ->
      (m <= n)%nat /\ run_p (n - m) s' (ag_end P b) /\
      (final s' -> s' = ag_end P b /\ m = n) /\
      (final s' \/ exists r s'', step_p s' r s'').
Proof. exact allgather_all_posted_schedules. Qed.
Print Assumptions C04_every_posted_schedule.

(* what ag_end is: the result of rank r is the row of rank r of the GLOBAL dataflow model `allgather`
   (the object of C04_allgather), which is the blocks in rank order *)
Theorem C04_final_state_is_model : forall amax P (b : Z -> payload), 1 <= amax -> 0 < P ->
  (forall a d t, ch (ag_end P b) a d t = []) /\
  forall r, 0 <= r < P ->
    pr (ag_end P b) r = Ret (model_row amax P b r) /\ model_row amax P b r = slots b 0 (Z.to_nat P).
Proof. exact ag_end_is_model. Qed.
Print Assumptions C04_final_state_is_model.

(* the sub-routine for a subgroup (g, base) inside ANY global state: if the members are at
   ag_prog fuel g base r (buf r) (k r), hold their own block, and the channels inside the group are empty,
   then the group can be scheduled - nobody else moves, every channel ends as it was - to the point where each
   member continues with its buffer's slots base .. base+g-1 filled with the group's blocks in rank order *)
Theorem C04_subgroup_schedule : forall (amax : Z), 1 <= amax -> forall (sz : nat) (P : Z) (b : Z -> payload),
  (forall r, 0 <= r < P -> length (b r) = sz) ->
  forall fuel g base (buf : Z -> buffer) (k : Z -> buffer -> prog) s,
  0 < g -> 0 <= base -> base + g <= P -> (Z.to_nat g <= fuel)%nat ->
  (forall r, base <= r < base + g -> pr s r = ag_prog amax sz fuel g base r (buf r) (k r)) ->
  (forall r, base <= r < base + g -> buf r r = b r) ->
  (forall a d t, base <= a < base + g -> base <= d < base + g -> ch s a d t = []) ->
  exists n s' (buf' : Z -> buffer), run n s s' /\
    (forall r, base <= r < base + g ->
       pr s' r = k r (buf' r) /\ forall i, buf' r i = if inb base g i then b i else buf r i) /\
    (forall r, ~ (base <= r < base + g) -> pr s' r = pr s r) /\
    (forall a d t, ch s' a d t = ch s a d t).
Proof. exact ag_sched. Qed.
Print Assumptions C04_subgroup_schedule.

(* an instance: 13 ranks, threshold 5 (two recursion levels, odd halves), blocks of two bytes *)
Example C04_schedule_instance :
  (exists n, run n (ag_start 5 2 13 (fun r => [r; 100 + r])) (ag_end 13 (fun r => [r; 100 + r]))) /\
  pr (ag_end 13 (fun r => [r; 100 + r])) 7 =
    Ret [0; 100; 1; 101; 2; 102; 3; 103; 4; 104; 5; 105; 6; 106; 7; 107; 8; 108; 9; 109; 10; 110; 11; 111; 12; 112].
Proof.
  split; [|vm_compute; reflexivity].
  destruct (allgather_all_schedules 5 ltac:(discriminate) 2 13 (fun r => [r; 100 + r]) ltac:(reflexivity) eq_refl) as [n [H _]].
  exists n. exact H.
Qed.

(* ===== tie T1: the model's message lists are the calls of the definitions GENERATED from /repo/src/sc_allgather.c ============ *)
(* Gen/AllgatherC04.v is regenerated from the working tree on every run (tools/c2g/groups_C04.py); an edit of the arithmetic
   changes a generated definition and the statements below stop checking.  B31 = 2^31. *)
From ScV Require Import Gen.AllgatherC04 C04.AllgatherGen.
Local Open Scope Z_scope.


(* g2 = groupsize / 2, g2B = groupsize - g2 *)
Theorem C04_gen_halves : forall g, 0 <= g < B31 -> ag_halves g = (g / 2, g - g / 2).
Proof. exact gen_halves. Qed.
Print Assumptions C04_gen_halves.

(* the recursion is used above SC_ALLGATHER_ALLTOALL_MAX *)
Theorem C04_gen_is_recursive : forall g, ag_is_recursive g = (c_SC_ALLGATHER_ALLTOALL_MAX <? g).
Proof. exact gen_is_recursive. Qed.
Print Assumptions C04_gen_is_recursive.

(* below the threshold the all-to-all exchange gets the same arguments *)
Theorem C04_gen_a2a_args : forall sz g o r, ag_a2a_args sz g o r = (sz, g, o, r).
Proof. exact gen_a2a_args. Qed.
Print Assumptions C04_gen_a2a_args.

(* sc_allgather: datasize = sendcount * sizeof (sendtype); the own block is copied to slot mpirank with datasize bytes; the recursion starts with the whole communicator *)
Theorem C04_gen_top : forall n ts P r sendtype recvtype, 0 <= n < B31 -> 0 <= ts -> n * ts < B31 -> 0 <= r < P -> P < B31 ->
  top_datasize n ts = n * ts /\ top_sized_type sendtype recvtype = sendtype /\
  top_copy_offset r (n * ts) = r * (n * ts) /\ top_copy_bytes r (n * ts) = n * ts /\
  top_args (n * ts) P r = (n * ts, P, r - 0, r).
Proof. exact gen_top. Qed.
Print Assumptions C04_gen_top.



(* the receives the model lists for a rank in the exchange step of a group are the Irecv calls of the branch the generated tests select: (buffer offset, bytes, peer, tag) *)
Theorem C04_gen_recvs_level : forall g base r sz ta tb tc tall, 2 <= g -> 0 <= base -> base <= r < base + g -> 0 <= sz -> g * sz < B31 -> base + 2 * g < B31 ->
  map (as_call sz base ta tb tc tall) (recvs_level g base r) =
  if ag_in_lower (r - base) (g / 2) then [call7 ag_msg1_offset ag_msg1_bytes ag_msg1_peer ag_msg1_tag sz (g / 2) (g - g / 2) r ta tb tc]
  else if ag_upper_odd (r - base) g (g / 2) (g - g / 2) then [call7 ag_msg4_offset ag_msg4_bytes ag_msg4_peer ag_msg4_tag sz (g / 2) (g - g / 2) r ta tb tc]
  else [call7 ag_msg5_offset ag_msg5_bytes ag_msg5_peer ag_msg5_tag sz (g / 2) (g - g / 2) r ta tb tc].
Proof. exact gen_recvs_level_c. Qed.
Print Assumptions C04_gen_recvs_level.

(* ... and the sends, including the extra send to the unpaired rank of an odd group *)
Theorem C04_gen_sends_level : forall g base r sz ta tb tc tall, 2 <= g -> 0 <= base -> base <= r < base + g -> 0 <= sz -> g * sz < B31 -> base + 2 * g < B31 ->
  map (as_call sz base ta tb tc tall) (sends_level g base r) =
  if ag_in_lower (r - base) (g / 2) then
    call7 ag_msg2_offset ag_msg2_bytes ag_msg2_peer ag_msg2_tag sz (g / 2) (g - g / 2) r ta tb tc ::
    (if ag_lower_odd (r - base) (g / 2) (g - g / 2) then [call7 ag_msg3_offset ag_msg3_bytes ag_msg3_peer ag_msg3_tag sz (g / 2) (g - g / 2) r ta tb tc] else [])
  else if ag_upper_odd (r - base) g (g / 2) (g - g / 2) then []
  else [call7 ag_msg6_offset ag_msg6_bytes ag_msg6_peer ag_msg6_tag sz (g / 2) (g - g / 2) r ta tb tc].
Proof. exact gen_sends_level_c. Qed.
Print Assumptions C04_gen_sends_level.

(* the two recursive calls work on (g2, base) and (g2B, base + g2); three requests are waited for *)
Theorem C04_gen_recurse : forall g base r sz, 2 <= g -> 0 <= base -> base <= r < base + g -> 0 <= sz -> g * sz < B31 -> base + 2 * g < B31 ->
  ag_recurse_lower_offset sz (g / 2) (g - g / 2) (r - base) r = 0 /\
  ag_recurse_lower sz (g / 2) (g - g / 2) (r - base) r = (sz, g / 2, r - base, r) /\
  ag_recurse_upper_offset sz (g / 2) (g - g / 2) (r - base) r = ((base + g / 2) - base) * sz /\
  ag_recurse_upper sz (g / 2) (g - g / 2) (r - base) r = (sz, g - g / 2, r - (base + g / 2), r) /\
  ag_wait_count = 3.
Proof. exact gen_recurse_c. Qed.
Print Assumptions C04_gen_recurse.

(* all-to-all: slot base + j is received from rank base + j, for every j but the own offset *)
Theorem C04_gen_recvs_a2a : forall g base r sz tall, 0 <= base -> base <= r < base + g -> 0 <= sz -> g * sz < B31 -> base + 2 * g < B31 ->
  map (as_call sz base 0 0 0 tall) (recvs_a2a g base r) = a2a_calls g base r sz tall a2a_recv_offset a2a_recv_bytes a2a_recv_peer a2a_recv_tag.
Proof. exact gen_recvs_a2a_c. Qed.
Print Assumptions C04_gen_recvs_a2a.

(* all-to-all: the own slot is sent to every other member *)
Theorem C04_gen_sends_a2a : forall g base r sz tall, 0 <= base -> base <= r < base + g -> 0 <= sz -> g * sz < B31 -> base + 2 * g < B31 ->
  map (as_call sz base 0 0 0 tall) (sends_a2a g base r) = a2a_calls g base r sz tall a2a_send_offset a2a_send_bytes a2a_send_peer a2a_send_tag.
Proof. exact gen_sends_a2a_c. Qed.
Print Assumptions C04_gen_sends_a2a.

(* loop bound and number of requests of the all-to-all exchange *)
Theorem C04_gen_a2a_counts : forall g base j, 0 <= base -> base + 2 * g < B31 -> 0 <= g -> a2a_loop_cond j g = (j <? g) /\ a2a_wait_count g = 2 * g.
Proof. exact gen_a2a_counts_c. Qed.
Print Assumptions C04_gen_a2a_counts.
