(* C04 - the allgather replacement gives every rank all contributions in rank order.
   Global dataflow model of sc_allgather_recursive / sc_allgather_alltoall (C04/AllgatherModel.v); the per-rank
   program of the same file is co-simulated against the real code on every run. *)
From Coq Require Import ZArith List Bool.
From ScV Require Import Base.CInt Gen.Consts C04.AllgatherModel C04.AllgatherProofs.
Import ListNotations.
Local Open Scope Z_scope.

(* every communicator size, every block content (blocks are an arbitrary type, so every size incl. zero):
   after the call every rank holds the blocks of ranks 0 .. P-1 in this order *)
Theorem C04_allgather : forall (A : Type) (amax : Z), 1 <= amax -> forall (b : Z -> A) (P : Z), 0 < P ->
  forall r i, 0 <= r < P -> 0 <= i < P -> allgather A amax P b r i = Some (b i).
Proof. exact allgather_correct. Qed.
Print Assumptions C04_allgather.

(* the routine for a subgroup (g, base): same guarantee inside the group, and nothing else is touched *)
Theorem C04_subgroup : forall (A : Type) (amax : Z), 1 <= amax -> forall (b : Z -> A),
  forall fuel g base st, 0 < g -> (Z.to_nat g <= fuel)%nat ->
  (forall r, base <= r < base + g -> st r r = Some (b r)) ->
  (forall r i, base <= r < base + g -> base <= i < base + g -> ag A amax fuel g base st r i = Some (b i)) /\
  (forall r i, ~ (base <= r < base + g /\ base <= i < base + g) -> ag A amax fuel g base st r i = st r i).
Proof. exact ag_correct. Qed.
Print Assumptions C04_subgroup.

(* every posted receive has exactly one matching send: same peer pair, tag, slot range and size *)
Theorem C04_matching_level : forall amax, 1 <= amax -> forall g base r d t l n,
  amax < g -> base <= r < base + g -> base <= d < base + g ->
  (In (mkmsg d t l n) (sends_level g base r) <-> In (mkmsg r t l n) (recvs_level g base d)).
Proof. exact matching_level. Qed.
Print Assumptions C04_matching_level.

Theorem C04_matching_alltoall : forall g base r d t l n,
  0 <= g -> base <= r < base + g -> base <= d < base + g ->
  (In (mkmsg d t l n) (sends_a2a g base r) <-> In (mkmsg r t l n) (recvs_a2a g base d)).
Proof. exact matching_a2a. Qed.
Print Assumptions C04_matching_alltoall.

(* within one step a rank never posts two receives for the same (source, tag): matching is deterministic,
   hence the result cannot depend on which request completes first *)
Theorem C04_receives_distinct : forall g base r,
  NoDup (map (fun m => (peer m, mtag m)) (recvs_level g base r)) /\
  NoDup (map (fun m => (peer m, mtag m)) (recvs_a2a g base r)).
Proof. intros; split; [exact (recvs_level_distinct g base r) | exact (recvs_a2a_distinct g base r)]. Qed.
Print Assumptions C04_receives_distinct.

(* the generated threshold of the repository satisfies the hypothesis *)
Theorem C04_threshold_ok : 1 <= c_SC_ALLGATHER_ALLTOALL_MAX.
Proof. exact (proj1 (Z.leb_le 1 c_SC_ALLGATHER_ALLTOALL_MAX) eq_refl). Qed.
Print Assumptions C04_threshold_ok.

Example C04_nonvacuous :
  allgather Z 5 13 (fun i => 100 + i) 12 7 = Some 107 /\ allgather Z 5 13 (fun i => 100 + i) 0 12 = Some 112.
Proof. split; vm_compute; reflexivity. Qed.
