(* C15 - placeholder while the proofs are written *)
From Coq Require Import ZArith List.
From ScV Require Import Base.CInt C15.RangesModel.
