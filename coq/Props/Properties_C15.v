(* C15 - rank ranges cover every peer and decode symmetrically (src/sc_ranges.c).
   Statements about the executable model coq/C15/RangesModel.v, which checks/C15.py ties to the compiled
   sc_ranges_compute / sc_ranges_decode / sc_ranges_adaptive on every run.  All statements are for every number of
   processes, every indicator vector (any integers, 0 = no peer), every own rank and every budget num_ranges >= 1.
   This file contains only statements, `exact` proofs and Print Assumptions.

   Vocabulary (C15/RangesModel.v, RangesGaps.v, RangesInvert.v, RangesDecode.v, RangesProps.v):
     peers procs rank         the j in [0, P) with procs[j] <> 0 and j <> rank, ascending        (C15_peers)
     compute_call procs rank nr   sc_ranges_compute called with first_peer/last_peer = the extreme peers or (P, -1)
     nranges / ranges_array   its return value / the ranges array as num_ranges pairs
     filled                   the first `nranges` pairs of the array
     sep a b                  snd a + 1 < fst b  (b starts at least two after the end of a)
     is_gap L g               g = (s, e), s <= e, s-1 and e+1 are members of L, no member of L in [s, e]
     omitted rs               the runs (snd a + 1, fst b - 1) between consecutive ranges a, b of rs
     absorbed rs a            the run a lies inside one range of rs
     glen g                   snd g - fst g + 1
     wf_table tbl             every row: ascending separated ranges inside [0, P), then (only) a negative start *)
From Coq Require Import ZArith List Bool Sorting.Sorted.
From ScV Require Import Base.CInt C15.RangesModel C15.RangesGaps C15.RangesInvert C15.RangesCompute C15.RangesDecode
  C15.RangesAdaptive C15.RangesProps.
From ScV Require Import Gen.RangesC15 C15.RangesGen C15.RangesGenLoops.
From ScV Require Import MPI.Prog MPI.Sem MPI.SemAny MPI.SemColl C15.RangesSelect C15.RangesOrder C15.RangesAnyKept C15.RangesProg.
From Coq Require Import Permutation.
Import ListNotations.
Local Open Scope Z_scope.

(* --- who the peers are ------------------------------------------------------------------------------------------ *)
Theorem C15_peers : forall procs rank j,
  (In j (peers procs rank) <-> 0 <= j < Z.of_nat (length procs) /\ proc procs j <> 0 /\ j <> rank)
  /\ StronglySorted Z.lt (peers procs rank).
Proof. intros; split; [exact (peers_spec procs rank j)|exact (peers_ascending procs rank)]. Qed.
Print Assumptions C15_peers.

(* --- sc_ranges_compute ------------------------------------------------------------------------------------------ *)
(* at most num_ranges ranges; the array has num_ranges entries; the unused ones are (-1, -2) *)
Theorem C15_compute_shape : forall procs rank nr, 1 <= nr ->
  length (ranges_array procs rank nr) = Z.to_nat nr /\ 0 <= nranges procs rank nr <= nr
  /\ skipn (Z.to_nat (nranges procs rank nr)) (ranges_array procs rank nr)
     = repeat (-1, -2) (Z.to_nat nr - Z.to_nat (nranges procs rank nr)).
Proof. exact compute_shape. Qed.
Print Assumptions C15_compute_shape.

(* the number of ranges: none without peers, else one more than the number of gaps, capped by the budget *)
Theorem C15_compute_count : forall procs rank nr, 1 <= nr ->
  nranges procs rank nr = match peers procs rank with
                          | [] => 0
                          | _ => Z.min (Z.of_nat (length (gaps_of (peers procs rank))) + 1) nr
                          end.
Proof. exact compute_count. Qed.
Print Assumptions C15_compute_count.

(* the first range starts at the first peer, the last range ends at the last peer *)
Theorem C15_compute_ends : forall procs rank nr, 1 <= nr -> peers procs rank <> [] ->
  filled procs rank nr <> []
  /\ fst (hd (-1, -2) (filled procs rank nr)) = hd 0 (peers procs rank)
  /\ snd (last (filled procs rank nr) (-1, -2)) = last (peers procs rank) 0.
Proof. exact compute_ends. Qed.
Print Assumptions C15_compute_ends.

(* every range is non-empty and begins and ends at a peer *)
Theorem C15_compute_members : forall procs rank nr, 1 <= nr -> forall r, In r (filled procs rank nr) ->
  fst r <= snd r /\ In (fst r) (peers procs rank) /\ In (snd r) (peers procs rank).
Proof. exact compute_members. Qed.
Print Assumptions C15_compute_members.

(* sorted and pairwise separated: a later range starts at least two after an earlier one ends, and what lies
   between consecutive ranges is a non-empty run without any peer *)
Theorem C15_compute_sorted_separated : forall procs rank nr, 1 <= nr ->
  StronglySorted sep (filled procs rank nr)
  /\ forall g, In g (omitted (filled procs rank nr)) -> is_gap (peers procs rank) g.
Proof. exact compute_separated. Qed.
Print Assumptions C15_compute_sorted_separated.

Theorem C15_compute_sorted_by_index : forall procs rank nr, 1 <= nr ->
  forall i j, (i < j < length (filled procs rank nr))%nat ->
  snd (nth i (filled procs rank nr) (-1, -2)) + 1 < fst (nth j (filled procs rank nr) (-1, -2)).
Proof. exact compute_sorted_nth. Qed.
Print Assumptions C15_compute_sorted_by_index.

(* together the ranges contain every peer *)
Theorem C15_compute_covers : forall procs rank nr, 1 <= nr -> forall p, In p (peers procs rank) ->
  exists r, In r (filled procs rank nr) /\ fst r <= p <= snd r.
Proof. exact compute_covers. Qed.
Print Assumptions C15_compute_covers.

(* the gaps left out are the longest runs of non-peers: every omitted gap is at least as long as every gap
   of the peer list that lies inside a range *)
Theorem C15_compute_longest_gaps_omitted : forall procs rank nr, 1 <= nr -> forall o a,
  In o (omitted (filled procs rank nr)) -> is_gap (peers procs rank) a ->
  (exists r, In r (filled procs rank nr) /\ fst r <= fst a /\ snd a <= snd r) -> glen a <= glen o.
Proof. exact compute_longest_omitted. Qed.
Print Assumptions C15_compute_longest_gaps_omitted.

(* --- sc_ranges_decode -------------------------------------------------------------------------------------------- *)
Theorem C15_decode_symmetric : forall tbl p q, wf_table tbl -> 0 <= p < Z.of_nat (length tbl) -> p <> q ->
  (In q (receivers tbl p) <-> In p (senders tbl q)).
Proof. exact decode_symmetric. Qed.
Print Assumptions C15_decode_symmetric.

(* self excluded, outputs ascending and inside [0, P) *)
Theorem C15_decode_outputs : forall tbl p, wf_table tbl ->
  ~ In p (receivers tbl p) /\ ~ In p (senders tbl p)
  /\ StronglySorted Z.lt (receivers tbl p) /\ StronglySorted Z.lt (senders tbl p)
  /\ (forall x, In x (receivers tbl p) -> 0 <= x < Z.of_nat (length tbl))
  /\ (forall x, In x (senders tbl p) -> 0 <= x < Z.of_nat (length tbl)).
Proof. exact decode_outputs. Qed.
Print Assumptions C15_decode_outputs.

(* the receivers are exactly the members of the own ranges other than the rank itself *)
Theorem C15_decode_receivers : forall tbl p q,
  In q (receivers tbl p) <-> q <> p /\ exists g, In g (prefix (row_of tbl p)) /\ fst g <= q <= snd g.
Proof. exact receivers_spec. Qed.
Print Assumptions C15_decode_receivers.

(* --- sc_ranges_adaptive = compute + Allreduce (MAX) + Allgather --------------------------------------------------- *)
(* every rank holds the same maxima and the same global table; its own part is sc_ranges_compute of its vector *)
Theorem C15_adaptive_same_on_all_ranks : forall vecs nr r r',
  shared_part (adaptive_at vecs nr r) = shared_part (adaptive_at vecs nr r').
Proof. exact adaptive_agree. Qed.
Print Assumptions C15_adaptive_same_on_all_ranks.

Theorem C15_adaptive_own_ranges : forall vecs nr r, (r < length vecs)%nat ->
  fst (fst (fst (adaptive_at vecs nr r))) = compute_call (nth r vecs []) (Z.of_nat r) nr.
Proof. exact adaptive_own. Qed.
Print Assumptions C15_adaptive_own_ranges.

(* the two maxima are attained upper bounds of the peer counts and of the numbers of ranges *)
Theorem C15_adaptive_maxima : forall vecs nr, 1 <= nr -> (forall v, In v vecs -> length v = length vecs) ->
  let maxpeers := snd (fst (fst (adaptive_all vecs nr))) in
  let maxwin := snd (fst (adaptive_all vecs nr)) in
  (forall r, (r < length vecs)%nat -> nranges (nth r vecs []) (Z.of_nat r) nr <= maxwin)
  /\ (maxwin = 0 \/ exists r, (r < length vecs)%nat /\ nranges (nth r vecs []) (Z.of_nat r) nr = maxwin)
  /\ (forall r, (r < length vecs)%nat -> peer_count (nth r vecs []) (Z.of_nat r) <= maxpeers)
  /\ (maxpeers = 0 \/ exists r, (r < length vecs)%nat /\ peer_count (nth r vecs []) (Z.of_nat r) = maxpeers)
  /\ 0 <= maxwin <= nr.
Proof. exact adaptive_maxima_exact. Qed.
Print Assumptions C15_adaptive_maxima.

(* the global table: one row per rank, each the first maxwin entries of that rank's array *)
Theorem C15_adaptive_table : forall vecs nr, 1 <= nr -> (forall v, In v vecs -> length v = length vecs) ->
  let maxwin := snd (fst (adaptive_all vecs nr)) in
  let tbl := snd (adaptive_all vecs nr) in
  length tbl = length vecs /\ forall r, (r < length vecs)%nat ->
    nth r tbl [] = firstn (Z.to_nat maxwin) (ranges_array (nth r vecs []) (Z.of_nat r) nr)
    /\ length (nth r tbl []) = Z.to_nat maxwin.
Proof. exact adaptive_table_rows. Qed.
Print Assumptions C15_adaptive_table.

(* ... it satisfies the precondition of the decode theorems, and decoding it finds every peer *)
Theorem C15_adaptive_table_decodable : forall vecs nr, 1 <= nr -> (forall v, In v vecs -> length v = length vecs) ->
  wf_table (snd (adaptive_all vecs nr)).
Proof. exact adaptive_table_wf. Qed.
Print Assumptions C15_adaptive_table_decodable.

Theorem C15_adaptive_peers_are_receivers : forall vecs nr, 1 <= nr -> (forall v, In v vecs -> length v = length vecs) ->
  forall p q, 0 <= p < Z.of_nat (length vecs) ->
  In q (peers (nth (Z.to_nat p) vecs []) p) -> In q (receivers (snd (adaptive_all vecs nr)) p).
Proof. exact adaptive_peers_are_receivers. Qed.
Print Assumptions C15_adaptive_peers_are_receivers.

(* --- the hypotheses are satisfiable, the statements are not vacuous ------------------------------------------------ *)
(* P = 10, own rank 4 (its entry does not count), peers 1 2 5 9, gaps 3..4 and 6..8: with a budget of 2 the longer gap is left out *)
Example C15_ex_compute :
  peers [0; 1; 7; 0; 1; -1; 0; 0; 0; 2] 4 = [1; 2; 5; 9]
  /\ compute_call [0; 1; 7; 0; 1; -1; 0; 0; 0; 2] 4 3 = (3, [(1, 2); (5, 5); (9, 9)])
  /\ compute_call [0; 1; 7; 0; 1; -1; 0; 0; 0; 2] 4 2 = (2, [(1, 5); (9, 9)])
  /\ compute_call [0; 1; 7; 0; 1; -1; 0; 0; 0; 2] 4 1 = (1, [(1, 9)])
  /\ compute_call [0; 1; 7; 0; 1; -1; 0; 0; 0; 2] 4 5 = (3, [(1, 2); (5, 5); (9, 9); (-1, -2); (-1, -2)])
  /\ compute_call [0; 0; 0] 1 2 = (0, [(-1, -2); (-1, -2)]).
Proof. vm_compute. repeat split. Qed.

Example C15_ex_adaptive :
  let vecs := [[0; 1; 0; 1]; [1; 0; 0; 0]; [0; 0; 0; 0]; [1; 1; 0; 0]] in
  (forall v, In v vecs -> length v = length vecs)
  /\ adaptive_all vecs 2
     = ([(2, [(1, 1); (3, 3)]); (1, [(0, 0); (-1, -2)]); (0, [(-1, -2); (-1, -2)]); (1, [(0, 1); (-1, -2)])],
        2, 2, [[(1, 1); (3, 3)]; [(0, 0); (-1, -2)]; [(-1, -2); (-1, -2)]; [(0, 1); (-1, -2)]])
  /\ receivers (snd (adaptive_all vecs 2)) 0 = [1; 3] /\ senders (snd (adaptive_all vecs 2)) 0 = [1; 3]
  /\ receivers (snd (adaptive_all vecs 2)) 1 = [0] /\ senders (snd (adaptive_all vecs 2)) 1 = [0; 3].
Proof.
  cbv zeta. split; [intros v [<-|[<-|[<-|[<-|[]]]]]; reflexivity|]. vm_compute. repeat split.
Qed.

(* ===== tie T1: the model computes what the definitions GENERATED from /repo/src/sc_ranges.c compute ========================= *)
(* Gen/RangesC15.v is regenerated from the working tree on every run (tools/c2g/groups_C15.py); an edit of the arithmetic in
   sc_ranges.c changes a generated definition and the statements below stop checking.  ok_z x: -2^29 <= x <= 2^29. *)

(* the unused-entry constants: what every slot is initialised with and what the evicted last slot is cleared to is the model's (-1, -2) *)
Theorem C15_gen_unused : compute_unused = UNUSED /\ compute_evict_clear = UNUSED.
Proof. exact gen_unused. Qed.
Print Assumptions C15_gen_unused.

(* first_peer > last_peer: no peers *)
Theorem C15_gen_empty : forall fp lp, compute_empty fp lp = (lp <? fp).
Proof. exact gen_empty. Qed.
Print Assumptions C15_gen_empty.

(* the generated test `!procs[j] || j == rank` is the negation of the model's is_peer *)
Theorem C15_gen_skip : forall procs rank j, compute_skip (proc procs j) j rank = negb (is_peer procs rank j).
Proof. exact gen_skip. Qed.
Print Assumptions C15_gen_skip.

(* the peers the model walks over are the j the generated test does not skip *)
Theorem C15_gen_peers : forall procs rank, peers procs rank = filter (fun j => negb (compute_skip (proc procs j) j rank)) (zseq (length procs)).
Proof. exact gen_peers. Qed.
Print Assumptions C15_gen_peers.

(* lastw = num_ranges - 1, prev = -1 *)
Theorem C15_gen_init : forall nr, ok_z nr -> compute_init nr = (nr - 1, -1).
Proof. exact gen_init. Qed.
Print Assumptions C15_gen_init.

(* the gap test prev < j - 1 *)
Theorem C15_gen_gap_test : forall p q, ok_z p -> ok_z q -> compute_gap_test p q = (p <? q - 1).
Proof. exact gen_gap_test. Qed.
Print Assumptions C15_gen_gap_test.

(* the claimed empty range (prev + 1, j - 1) *)
Theorem C15_gen_gap_claim : forall p q, ok_z p -> ok_z q -> compute_gap_claim p q = (p + 1, q - 1).
Proof. exact gen_gap_claim. Qed.
Print Assumptions C15_gen_gap_claim.

(* its length as the code computes it is the model's glen *)
Theorem C15_gen_gap_length : forall p q, ok_z p -> ok_z q -> compute_gap_length p q = glen (p + 1, q - 1).
Proof. exact gen_gap_length. Qed.
Print Assumptions C15_gen_gap_length.

(* one step of the model's gaps_of written with the generated test and range *)
Theorem C15_gen_gaps_of_step : forall p q r, ok_z p -> ok_z q ->
  gaps_of (p :: q :: r) = (if compute_gap_test p q then [compute_gap_claim p q] else []) ++ gaps_of (q :: r).
Proof. exact gen_gaps_of_step. Qed.
Print Assumptions C15_gen_gaps_of_step.

(* nwin = i + 1 *)
Theorem C15_gen_nwin : forall i, ok_z i -> compute_nwin i = i + 1.
Proof. exact gen_nwin. Qed.
Print Assumptions C15_gen_nwin.

(* the comparison that decides which slot is the shortest: length hi - lo + 1, STRICTLY below the shortest so far *)
Theorem C15_gen_evict_step : forall lo hi i best bl, ok_z lo -> ok_z hi ->
  compute_evict_step lo hi i best bl = if glen (lo, hi) <? bl then (i, glen (lo, hi)) else (best, bl).
Proof. exact gen_evict_step. Qed.
Print Assumptions C15_gen_evict_step.

(* the start values of the scan: nwin = lastw, no slot, length num_procs + 1 *)
Theorem C15_gen_evict_init : forall lastw np, ok_z np -> compute_evict_init lastw np = (lastw, -1, np + 1).
Proof. exact gen_evict_init. Qed.
Print Assumptions C15_gen_evict_init.

(* the model's scan = the generated step folded over the slots, for EVERY slot list *)
Theorem C15_gen_shortest_from : forall l, Forall ok_pair l -> forall i best bl, shortest_from l i best bl = shortest_gen l i best bl.
Proof. exact gen_shortest_from. Qed.
Print Assumptions C15_gen_shortest_from.

(* the model's `shortest` = generated start values + generated step *)
Theorem C15_gen_shortest : forall np l lastw, ok_z np -> Forall ok_pair l ->
  shortest np l = let '(_, b0, bl0) := compute_evict_init lastw np in shortest_gen l 0 b0 bl0.
Proof. exact gen_shortest. Qed.
Print Assumptions C15_gen_shortest.

(* the model's eviction written with the generated definitions (scan, move test, moved slot, cleared slot) *)
Theorem C15_gen_evict : forall np l, ok_z np -> Forall ok_pair l -> ok_z (Z.of_nat (length l)) ->
  evict np l =
  let '(lastw, _) := compute_init (Z.of_nat (length l)) in
  let '(_, b0, bl0) := compute_evict_init lastw np in
  let s := shortest_gen l 0 b0 bl0 in
  if compute_evict_move_test s lastw
  then removelast (set_nth (Z.to_nat s) (compute_evict_move (fst (last l compute_evict_clear)) (snd (last l compute_evict_clear))) l)
  else removelast l.
Proof. exact gen_evict. Qed.
Print Assumptions C15_gen_evict.

(* a new gap goes into slot |slots|; the generated test nwin == num_ranges triggers the eviction *)
Theorem C15_gen_add_gap : forall np nr slots g, ok_z (Z.of_nat (length slots)) ->
  add_gap np nr slots g =
  let l := slots ++ [g] in if compute_full (compute_nwin (Z.of_nat (length slots))) nr then evict np l else l.
Proof. exact gen_add_gap. Qed.
Print Assumptions C15_gen_add_gap.

(* empty range (s, e) -> the range before ends at s - 1, the next starts at e + 1 *)
Theorem C15_gen_invert_step : forall s e, ok_z s -> ok_z e -> compute_invert_step s e = (e + 1, s - 1).
Proof. exact gen_invert_step. Qed.
Print Assumptions C15_gen_invert_step.

(* one step of the model's invert written with the generated step *)
Theorem C15_gen_invert_cons : forall first last s e r, ok_z s -> ok_z e ->
  invert first last ((s, e) :: r) = let '(lo_i, hi_im1) := compute_invert_step s e in (first, hi_im1) :: invert lo_i last r.
Proof. exact gen_invert_cons. Qed.
Print Assumptions C15_gen_invert_cons.

(* the last range ends at last_peer, the first starts at first_peer, nwin is incremented *)
Theorem C15_gen_invert_nil : forall first last nwin, ok_z nwin ->
  invert first last [] = [(fst (compute_invert_first first nwin), compute_invert_last last)] /\
  snd (compute_invert_first first nwin) = nwin + 1.
Proof. exact gen_invert_nil. Qed.
Print Assumptions C15_gen_invert_nil.

(* the model's sc_ranges_compute with the generated no-peers test and unused constants *)
Theorem C15_gen_ranges_compute : forall procs rank fp lp nr, ranges_compute procs rank fp lp nr =
  let n := Z.to_nat nr in
  if compute_empty fp lp then (0, repeat compute_unused n)
  else let rs := invert fp lp (isort (kept_gaps procs rank nr)) in
       (Z.of_nat (length rs), rs ++ repeat compute_evict_clear (n - length rs)).
Proof. exact gen_ranges_compute. Qed.
Print Assumptions C15_gen_ranges_compute.

(* offset of a rank's row in global_ranges *)
Theorem C15_gen_row_offset : forall mr j, 0 <= mr <= RB -> 0 <= j -> 2 * mr * j <= RB ->
  decode_row_recv mr j = 2 * mr * j /\ decode_row_send mr j = 2 * mr * j.
Proof. exact gen_row_offset. Qed.
Print Assumptions C15_gen_row_offset.

(* receivers: self is excluded, everybody else is appended *)
Theorem C15_gen_recv_body : forall j rank nr, ok_z nr ->
  decode_recv_body j rank nr = if j =? rank then (0, 0, nr, 0) else (1, j, nr + 1, 0).
Proof. exact gen_recv_body. Qed.
Print Assumptions C15_gen_recv_body.

(* the model's filter over the candidates = the generated body applied to every candidate *)
Theorem C15_gen_recv_scan : forall js rank, filter (fun j => negb (j =? rank)) js = recv_scan_gen js rank.
Proof. exact gen_recv_scan. Qed.
Print Assumptions C15_gen_recv_scan.

(* the candidates of a range: from the generated start value while the generated condition holds *)
Theorem C15_gen_recv_range : forall lo hi j, In j (zrange lo hi) <-> decode_recv_first lo <= j /\ decode_recv_cond j hi = true.
Proof. exact gen_recv_range. Qed.
Print Assumptions C15_gen_recv_range.

(* one row entry of the model's receiver list with the generated end-of-row test, bounds and body *)
Theorem C15_gen_row_receivers : forall lo hi r rank, row_receivers ((lo, hi) :: r) rank =
  if decode_recv_stop lo then [] else recv_scan_gen (zrange (decode_recv_first lo) hi) rank ++ row_receivers r rank.
Proof. exact gen_row_receivers. Qed.
Print Assumptions C15_gen_row_receivers.

(* senders: the membership test of one entry: end of row / rank <= hi / rank >= lo, in this order *)
Theorem C15_gen_send_body : forall lo hi q j ns, ok_z ns ->
  decode_send_body lo hi q j ns =
  if lo <? 0 then (0, 0, ns, 1)
  else if q <=? hi then (if lo <=? q then (1, j, ns + 1, 1) else (0, 0, ns, 1))
  else (0, 0, ns, 0).
Proof. exact gen_send_body. Qed.
Print Assumptions C15_gen_send_body.

(* the model's row_has = the scan of the row with the generated body, for EVERY row *)
Theorem C15_gen_row_has : forall row q j, row_has row q = row_has_gen row q j.
Proof. exact gen_row_has. Qed.
Print Assumptions C15_gen_row_has.

(* the model's sender list with the generated self-exclusion and membership test *)
Theorem C15_gen_senders : forall tbl rank, senders tbl rank = filter (fun j => negb (decode_send_self j rank) && row_has_gen (row_of tbl j) rank j) (zseq (length tbl)).
Proof. exact gen_senders. Qed.
Print Assumptions C15_gen_senders.

(* ===== sc_ranges_adaptive as a per-rank program over the collective contracts (C15/RangesProg.v) ============================ *)
(* P = |vecs| programs adaptive_prog (Coll ALLREDUCE_MAX [peer count; nwin]; Coll ALLGATHER (first 2 * maxwin ints of the own array);
   return [nwin; maxpeers; maxwin] ++ own array ++ table) under the interleaving semantics with synchronising collectives
   (MPI/SemColl.v, contract coll_reply): EVERY run has exactly 2 steps, is never stuck, leaves no message, and ends with every rank r
   holding adaptive_result vecs nr r, read off adaptive_all - so adaptive_all (about which the theorems above speak) IS what the
   programs compute: the collective specifications it builds in are discharged against the contract of the semantics. *)
Theorem C15_adaptive_every_schedule : forall vecs nr, vecs <> [] ->
  every_schedule (Z.of_nat (length vecs)) coll_reply (adaptive_sys vecs nr) 2
    (fun s => (forall r, (r < length vecs)%nat -> pr s (Z.of_nat r) = Ret (adaptive_result vecs nr r)) /\ (forall a b t, ch s a b t = [])).
Proof. exact adaptive_every_schedule. Qed.
Print Assumptions C15_adaptive_every_schedule.

(* the result of rank r: its own return value, the two maxima, its own array of num_ranges pairs, then the table =
   the first maxwin ranges of rank 0, of rank 1, ... in rank order (2 * maxwin * P ints) *)
Theorem C15_adaptive_result_layout : forall vecs nr r, 1 <= nr -> (forall v, In v vecs -> length v = length vecs) -> (r < length vecs)%nat ->
  let res := adaptive_all vecs nr in
  let maxwin := snd (fst res) in
  adaptive_result vecs nr r =
    [nranges (nth r vecs []) (Z.of_nat r) nr; snd (fst (fst res)); maxwin]
    ++ flatten_pairs (ranges_array (nth r vecs []) (Z.of_nat r) nr)
    ++ concat (map (fun q => flatten_pairs (firstn (Z.to_nat maxwin) (ranges_array (nth q vecs []) (Z.of_nat q) nr))) (seq 0 (length vecs)))
  /\ length (flatten_pairs (ranges_array (nth r vecs []) (Z.of_nat r) nr)) = (2 * Z.to_nat nr)%nat
  /\ length (concat (map flatten_pairs (snd res))) = (2 * Z.to_nat maxwin * length vecs)%nat.
Proof. exact adaptive_result_layout. Qed.
Print Assumptions C15_adaptive_result_layout.

(* the maxima (entries 1, 2 of the result) are the same on all ranks (the table behind the own array is the same by the layout above) *)
Theorem C15_adaptive_result_shared : forall vecs nr r r',
  firstn 2 (skipn 1 (adaptive_result vecs nr r)) = firstn 2 (skipn 1 (adaptive_result vecs nr r')).
Proof. exact adaptive_result_shared. Qed.
Print Assumptions C15_adaptive_result_shared.

(* one concrete run with the executable scheduler of SemColl.v (the two collectives fire), P = 4 *)
Example C15_ex_prog :
  let vecs := [[0; 1; 0; 1]; [1; 0; 0; 0]; [0; 0; 0; 0]; [1; 1; 0; 0]] in
  option_map (fun s => (pr s 0, pr s 3)) (exec_c 4 coll_reply [CC; CC] (adaptive_sys vecs 2))
  = Some (Ret [2; 2; 2; 1; 1; 3; 3;  1; 1; 3; 3; 0; 0; -1; -2; -1; -2; -1; -2; 0; 1; -1; -2],
          Ret [1; 2; 2; 0; 1; -1; -2;  1; 1; 3; 3; 0; 0; -1; -2; -1; -2; -1; -2; 0; 1; -1; -2]).
Proof. vm_compute. reflexivity. Qed.

(* ===== the eviction keeps the num_ranges - 1 longest gaps WHATEVER the order of evictions (C15/RangesOrder.v) ================= *)
(* sel_step m kept g kept': a slot is free (|kept| < m): g is added; else SOME slot of minimal length among kept ++ [g] is dropped;
   in both cases the slots may be permuted arbitrarily.  sel_run = any sequence of such steps over the gaps in the order of arrival.
   top_sel m G kept: kept is a duplicate-free part of G with min (|G|, m) elements and no dropped gap is longer than a kept one. *)
Theorem C15_evict_any_order_top : forall m G kept, NoDup G -> sel_run m [] G kept -> top_sel m G kept.
Proof. exact sel_run_top. Qed.
Print Assumptions C15_evict_any_order_top.

(* the step of the code (claim the first unused slot, evict the first shortest, move the last slot into the hole) is one of them *)
Theorem C15_evict_code_is_instance : forall (P : Z) (m : nat) kept g, (length kept <= m)%nat ->
  Forall (fun x => glen x <= P) (kept ++ [g]) -> sel_step m kept g (add_gap P (Z.of_nat m + 1) kept g).
Proof. exact add_gap_is_sel_step. Qed.
Print Assumptions C15_evict_code_is_instance.

Theorem C15_evict_kept_gaps_run : forall procs rank nr, 1 <= nr ->
  sel_run (Z.to_nat (nr - 1)) [] (gaps_of (peers procs rank)) (kept_gaps procs rank nr).
Proof. exact kept_gaps_is_sel_run. Qed.
Print Assumptions C15_evict_kept_gaps_run.

Theorem C15_evict_kept_gaps_top : forall procs rank nr, 1 <= nr ->
  top_sel (Z.to_nat (nr - 1)) (gaps_of (peers procs rank)) (kept_gaps procs rank nr).
Proof. exact kept_gaps_top_sel. Qed.
Print Assumptions C15_evict_kept_gaps_top.

(* which LENGTHS survive is determined completely (as a multiset) ... *)
Theorem C15_evict_lengths_unique : forall m G k1 k2, top_sel m G k1 -> top_sel m G k2 -> Permutation (map glen k1) (map glen k2).
Proof. exact top_sel_lengths_unique. Qed.
Print Assumptions C15_evict_lengths_unique.

(* ... which GAPS survive is determined when no two gaps are equally long (else only up to the choice among equally long ones) *)
Theorem C15_evict_unique_without_ties : forall m G k1 k2, NoDup (map glen G) -> top_sel m G k1 -> top_sel m G k2 -> Permutation k1 k2.
Proof. exact top_sel_unique_without_ties. Qed.
Print Assumptions C15_evict_unique_without_ties.

Theorem C15_evict_any_order_same_lengths : forall m G k1 k2, NoDup G -> sel_run m [] G k1 -> sel_run m [] G k2 ->
  Permutation (map glen k1) (map glen k2).
Proof. exact any_order_same_lengths. Qed.
Print Assumptions C15_evict_any_order_same_lengths.

(* even the order in which the gaps ARRIVE does not matter for the lengths that survive *)
Theorem C15_evict_any_arrival_order_same_lengths : forall m G G' k1 k2, NoDup G -> Permutation G G' ->
  sel_run m [] G k1 -> sel_run m [] G' k2 -> Permutation (map glen k1) (map glen k2).
Proof. exact any_arrival_order_same_lengths. Qed.
Print Assumptions C15_evict_any_arrival_order_same_lengths.

(* the threshold: a gap strictly longer than a kept one is kept; a gap strictly shorter than a dropped one is dropped *)
Theorem C15_evict_longer_kept : forall m G kept a k, top_sel m G kept -> In a G -> In k kept -> glen k < glen a -> In a kept.
Proof. exact top_sel_longer_kept. Qed.
Print Assumptions C15_evict_longer_kept.

Theorem C15_evict_shorter_dropped : forall m G kept a d, top_sel m G kept -> In a G -> In d G -> ~ In d kept -> glen a < glen d -> ~ In a kept.
Proof. exact top_sel_shorter_dropped. Qed.
Print Assumptions C15_evict_shorter_dropped.

(* the final sort: ANY algorithm that returns a permutation ascending by the start (qsort with sc_ranges_compare; the starts of the
   gaps are pairwise different) returns what the model's insertion sort returns *)
Theorem C15_sort_unique : forall l l', Permutation l' l -> StronglySorted lt_start l' -> l' = isort l.
Proof. exact sort_unique. Qed.
Print Assumptions C15_sort_unique.

Theorem C15_sort_perm_eq : forall k1 k2, Permutation k1 k2 -> NoDup (map fst k1) -> isort k1 = isort k2.
Proof. exact isort_perm_eq. Qed.
Print Assumptions C15_sort_perm_eq.

(* the sorted slots are the kept gaps in their original (ascending) order *)
Theorem C15_sort_kept_is_filter : forall G kept, StronglySorted lt_start G -> NoDup kept -> incl kept G ->
  isort kept = filter (fun g => if in_dec pair_eq_dec g kept then true else false) G.
Proof. exact isort_kept_is_filter. Qed.
Print Assumptions C15_sort_kept_is_filter.

(* so the ranges depend on WHICH gaps are kept only, not on the slots they sit in (the moves of the last slot into the hole) *)
Theorem C15_ranges_independent_of_slot_order : forall k1 k2 first last, Permutation k1 k2 -> NoDup (map fst k1) ->
  invert first last (isort k1) = invert first last (isort k2).
Proof. exact ranges_independent_of_slot_order. Qed.
Print Assumptions C15_ranges_independent_of_slot_order.

Theorem C15_compute_sorted_is_filter : forall procs rank nr, 1 <= nr ->
  isort (kept_gaps procs rank nr)
  = filter (fun g => if in_dec pair_eq_dec g (kept_gaps procs rank nr) then true else false) (gaps_of (peers procs rank)).
Proof. exact compute_sorted_is_filter. Qed.
Print Assumptions C15_compute_sorted_is_filter.

Theorem C15_compute_ranges_any_slot_order : forall procs rank nr k first last, 1 <= nr ->
  Permutation k (kept_gaps procs rank nr) -> invert first last (isort k) = invert first last (isort (kept_gaps procs rank nr)).
Proof. exact compute_ranges_any_slot_order. Qed.
Print Assumptions C15_compute_ranges_any_slot_order.

(* gaps of lengths 1, 3, 1, 4 and 3 slots: both choices among the two gaps of length 1 are reachable; the code makes the first one,
   in another slot order; the tie-breaking is visible in the ranges, the slot order is not *)
Example C15_ex_evict_orders :
  gaps_of (peers ex_procs 1) = ex_gaps
  /\ sel_run 3 [] ex_gaps [(3, 5); (7, 7); (9, 12)] /\ sel_run 3 [] ex_gaps [(1, 1); (3, 5); (9, 12)]
  /\ kept_gaps ex_procs 1 4 = [(9, 12); (3, 5); (7, 7)].
Proof. exact (conj ex_gaps_of (conj ex_run_first (conj ex_run_second ex_kept_gaps))). Qed.

(* ===== decode for EVERY rank from the table of ANY choice of kept gaps (C15/RangesAnyKept.v) ================================== *)
(* ranges_of procs rank K = invert first_peer last_peer (isort K) for ANY duplicate-free part K of the gaps between the peers
   (sub_gaps): every eviction order, every tie-breaking, every budget; procs[rank] may be non-zero (it is never a peer).
   table_of vecs Ks w: row r = ranges_of (vector of r) r (K of r), padded with (-1,-2) to w entries; good_family: |K_r| < w. *)
Theorem C15_anykept_ranges_shape : forall procs rank K, sub_gaps procs rank K ->
  StronglySorted sep (ranges_of procs rank K)
  /\ (forall x, In x (ranges_of procs rank K) -> fst x <= snd x /\ In (fst x) (peers procs rank) /\ In (snd x) (peers procs rank))
  /\ (forall p, In p (peers procs rank) -> exists x, In x (ranges_of procs rank K) /\ fst x <= p <= snd x)
  /\ between (ranges_of procs rank K) = (match peers procs rank with [] => [] | _ => isort K end)
  /\ (peers procs rank <> [] -> length (ranges_of procs rank K) = S (length K)).
Proof. exact ranges_of_shape. Qed.
Print Assumptions C15_anykept_ranges_shape.

(* a range never begins or ends at the own rank, whatever procs[rank] is *)
Theorem C15_anykept_rank_not_in_own_ends : forall procs rank K x, sub_gaps procs rank K -> In x (ranges_of procs rank K) ->
  fst x <> rank /\ snd x <> rank.
Proof. exact rank_not_in_own_ends. Qed.
Print Assumptions C15_anykept_rank_not_in_own_ends.

(* sc_ranges_compute is the instance K = kept_gaps *)
Theorem C15_anykept_compute_instance : forall procs rank nr, 1 <= nr ->
  sub_gaps procs rank (kept_gaps procs rank nr)
  /\ (peers procs rank <> [] -> ranges_of procs rank (kept_gaps procs rank nr)
      = firstn (Z.to_nat (fst (compute_call procs rank nr))) (snd (compute_call procs rank nr))).
Proof. intros procs rank nr H; split; [exact (kept_gaps_sub_gaps procs rank nr H)|exact (ranges_of_kept_gaps procs rank nr H)]. Qed.
Print Assumptions C15_anykept_compute_instance.

Theorem C15_anykept_row_wf : forall procs rank K w, sub_gaps procs rank K ->
  wf_row (Z.of_nat (length procs)) (-1) (row_of_kept procs rank K w).
Proof. exact any_kept_row_wf. Qed.
Print Assumptions C15_anykept_row_wf.

Theorem C15_anykept_table_wf : forall vecs Ks w, good_family vecs Ks w ->
  wf_table (table_of vecs Ks w) /\ length (table_of vecs Ks w) = length vecs.
Proof. exact any_kept_table_wf. Qed.
Print Assumptions C15_anykept_table_wf.

Theorem C15_anykept_decode_symmetric : forall vecs Ks w p q, good_family vecs Ks w -> 0 <= p < Z.of_nat (length vecs) -> p <> q ->
  (In q (receivers (table_of vecs Ks w) p) <-> In p (senders (table_of vecs Ks w) q)).
Proof. exact any_kept_decode_symmetric. Qed.
Print Assumptions C15_anykept_decode_symmetric.

Theorem C15_anykept_self_excluded : forall vecs Ks w p, good_family vecs Ks w ->
  ~ In p (receivers (table_of vecs Ks w) p) /\ ~ In p (senders (table_of vecs Ks w) p).
Proof. exact any_kept_self_excluded. Qed.
Print Assumptions C15_anykept_self_excluded.

Theorem C15_anykept_peers_are_receivers : forall vecs Ks w p q, good_family vecs Ks w -> 0 <= p < Z.of_nat (length vecs) ->
  In q (peers (nth (Z.to_nat p) vecs []) p) -> In q (receivers (table_of vecs Ks w) p).
Proof. exact any_kept_peers_are_receivers. Qed.
Print Assumptions C15_anykept_peers_are_receivers.

(* receivers of p = the ranks inside p's ranges, senders of q = the ranks whose ranges contain q: both for EVERY rank *)
Theorem C15_anykept_receivers_spec : forall vecs Ks w p q, good_family vecs Ks w -> 0 <= p < Z.of_nat (length vecs) ->
  (In q (receivers (table_of vecs Ks w) p) <-> q <> p /\
      exists x, In x (ranges_of (nth (Z.to_nat p) vecs []) p (nth (Z.to_nat p) Ks [])) /\ fst x <= q <= snd x).
Proof. exact any_kept_receivers_spec. Qed.
Print Assumptions C15_anykept_receivers_spec.

Theorem C15_anykept_senders_spec : forall vecs Ks w p q, good_family vecs Ks w -> 0 <= q < Z.of_nat (length vecs) ->
  (In p (senders (table_of vecs Ks w) q) <-> 0 <= p < Z.of_nat (length vecs) /\ p <> q /\
      exists x, In x (ranges_of (nth (Z.to_nat p) vecs []) p (nth (Z.to_nat p) Ks [])) /\ fst x <= q <= snd x).
Proof. exact any_kept_senders_spec. Qed.
Print Assumptions C15_anykept_senders_spec.

(* the table sc_ranges_adaptive gathers (width maxwin) decodes like the full-width table of the instance K_r = kept_gaps *)
Theorem C15_anykept_adaptive_instance : forall vecs nr, 1 <= nr -> (forall v, In v vecs -> length v = length vecs) ->
  let Ks := map (fun rv : Z * list Z => kept_gaps (snd rv) (fst rv) nr) (combine (zseq (length vecs)) vecs) in
  good_family vecs Ks (Z.to_nat nr) /\
  forall p, 0 <= p < Z.of_nat (length vecs) ->
    receivers (snd (adaptive_all vecs nr)) p = receivers (table_of vecs Ks (Z.to_nat nr)) p
    /\ senders (snd (adaptive_all vecs nr)) p = senders (table_of vecs Ks (Z.to_nat nr)) p.
Proof. exact adaptive_is_any_kept. Qed.
Print Assumptions C15_anykept_adaptive_instance.

(* a family with procs[rank] <> 0 (rank 0), a rank without peers (rank 2) and kept gaps that are NOT the ones the code keeps *)
Example C15_ex_anykept : good_family ex_vecs ex_Ks 2
  /\ nth 0 ex_Ks [] <> kept_gaps (nth 0 ex_vecs []) 0 2 /\ nth 1 ex_Ks [] <> kept_gaps (nth 1 ex_vecs []) 1 2
  /\ proc (nth 0 ex_vecs []) 0 = 1 /\ peers (nth 2 ex_vecs []) 2 = [].
Proof. exact ex_good_family. Qed.

(* ===== tie T1, loops and whole bodies (C15/RangesGenLoops.v): ranges[e] / procs[e] as memory reads ============================== *)
(* mem_of l k = the k-th int of the array that holds the pairs l.  the loop that claims a slot stops at the first unused one *)
Theorem C15_gen_claim_scan : forall slots nr prev j st fuel, (length slots < nr)%nat -> (nr < fuel)%nat -> Z.of_nat nr <= RB ->
  Forall (fun g => fst g <> -1) slots ->
  exists st', compute_claim_scan fuel (mem_of (slots ++ repeat compute_unused (nr - length slots))) (Z.of_nat nr) prev j st
              = Some (Z.of_nat (length slots), st').
Proof. exact gen_claim_scan. Qed.
Print Assumptions C15_gen_claim_scan.

(* the WHOLE scan for the shortest slot (start values, bounds 0 .. num_ranges - 1, strict comparison) = the model's `shortest` *)
Theorem C15_gen_evict_scan : forall l lastw np len0 fuel, (length l < fuel)%nat -> Z.of_nat (length l) <= RB -> ok_z np -> Forall ok_pair l ->
  exists bl, compute_evict_scan fuel (mem_of l) lastw np (Z.of_nat (length l)) len0 = Some (lastw, shortest np l, bl).
Proof. exact gen_evict_scan. Qed.
Print Assumptions C15_gen_evict_scan.

(* qsort (ranges, nwin, 2 * sizeof (int), sc_ranges_compare) is called on every path between the walk and the inversion *)
Theorem C15_gen_sort : forall ranges nwin, 0 <= nwin <= RB -> compute_sort ranges nwin = (1, ranges, nwin, 8).
Proof. exact gen_sort. Qed.
Print Assumptions C15_gen_sort.

Theorem C15_gen_compare : forall a b, ok_z a -> ok_z b -> ranges_compare a b = a - b.
Proof. exact gen_compare. Qed.
Print Assumptions C15_gen_compare.

Theorem C15_gen_compare_sign : forall a b, ok_z a -> ok_z b ->
  (ranges_compare a b <? 0) = (a <? b) /\ (ranges_compare a b =? 0) = (a =? b) /\ (0 <? ranges_compare a b) = (b <? a).
Proof. exact gen_compare_sign. Qed.
Print Assumptions C15_gen_compare_sign.

(* the model's insertion by the start, written with the generated comparator *)
Theorem C15_gen_insert_by_start : forall g l, ok_pair g -> Forall ok_pair l -> insert_by_start g l = insert_gen g l.
Proof. exact gen_insert_by_start. Qed.
Print Assumptions C15_gen_insert_by_start.

(* the loop of sc_ranges_adaptive that counts the peers = the model's peer_count (procs[j] > 0 && j != rank) *)
Theorem C15_gen_peer_count : forall procs rank fuel, (length procs < fuel)%nat -> Z.of_nat (length procs) <= RB ->
  adaptive_body_loop1 fuel (proc procs) (Z.of_nat (length procs)) rank 0 0 = Some (inl (Z.of_nat (length procs), peer_count procs rank)).
Proof. exact gen_peer_count. Qed.
Print Assumptions C15_gen_peer_count.

(* the WHOLE body of sc_ranges_adaptive, for every value of every input *)
Theorem C15_gen_adaptive_body : forall procs fuel comm szret rkret io1 io2 rank loc1 grd pkg nr ranges cret INT MAX arret g0 g1 gr scpkg mret agret,
  (length procs < fuel)%nat -> Z.of_nat (length procs) <= RB -> 0 <= g1 <= RB -> 2 * g1 * Z.of_nat (length procs) <= RB ->
  let P := Z.of_nat (length procs) in
  adaptive_body fuel (proc procs) comm szret rkret io1 io2 P rank loc1 grd pkg nr ranges cret INT MAX arret g0 g1 gr scpkg mret agret =
  Some (if gr =? 0
        then (1, comm, 1, comm,  1, pkg, P, rank, io1, io2, nr, ranges,  1, 2, u32 INT, u32 MAX, comm,
              0, 0, 0, 0, 0, 0, 0, 0, 0, 0, 0,
              peer_count procs rank, cret, g0, g1, grd, cret)
        else (1, comm, 1, comm,  1, pkg, P, rank, io1, io2, nr, ranges,  1, 2, u32 INT, u32 MAX, comm,
              1, scpkg, 2 * g1 * P * 4,
              1, ranges, 2 * g1, u32 INT, mret, 2 * g1, u32 INT, comm,
              peer_count procs rank, cret, g0, g1, mret, cret)).
Proof. exact gen_adaptive_body. Qed.
Print Assumptions C15_gen_adaptive_body.

(* the WHOLE body of sc_ranges_statistics hands the model's `empties` to sc_stats_set1 and calls sc_stats_compute (mpicomm, 1, ..) *)
Theorem C15_gen_statistics_body : forall rs procs rank comm j0 (B fuel : nat), Forall (fun g => ok_pair g /\ glen g <= Z.of_nat B) rs ->
  Z.of_nat (length rs) <= RB -> Z.of_nat (length rs) * Z.of_nat B <= RB -> (length rs + B + 1 < fuel)%nat ->
  statistics_body fuel (mem_of rs) (proc procs) j0 (Z.of_nat (length rs)) rank comm = Some (1, empties procs rank rs, 0, 1, comm, 1).
Proof. exact gen_statistics_body. Qed.
Print Assumptions C15_gen_statistics_body.

(* the generated loops run on concrete arrays *)
Example C15_ex_gen_loops :
  compute_evict_scan 10 (mem_of [(1, 1); (3, 5); (7, 7)]) 2 14 3 0 = Some (2, 0, 1)
  /\ compute_claim_scan 10 (mem_of [(1, 1); (3, 5); (-1, -2); (-1, -2)]) 4 8 13 0 = Some (2, 12)
  /\ statistics_body 20 (mem_of [(1, 5); (9, 9); (-1, -2)]) (proc [0; 1; 7; 0; 1; -1; 0; 0; 0; 2]) 0 3 4 77 = Some (1, 1, 0, 1, 77, 1)
  /\ adaptive_body_loop1 20 (proc [0; 1; 7; 0; 1; -1; 0; 0; 0; 2]) 10 4 0 0 = Some (inl (10, 3)).
Proof. vm_compute. repeat split. Qed.
