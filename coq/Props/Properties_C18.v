(* C18 - search, tree-bias, 128-bit and integer helpers agree with their definitions.
   Every statement is about a constant GENERATED from /repo's current source (Gen/*.v).
   This file contains only statements, `exact` proofs and Print Assumptions. *)
From Coq Require Import ZArith List Bool.
From ScV Require Import Base.CInt Gen.Uint128 Gen.Search Gen.Macros Gen.Functions.
From ScV Require Import C18.Uint128Proofs C18.SearchProofs C18.MacroProofs C18.PowProofs C18.Uint128Laws C18.HelperLaws.
Local Open Scope Z_scope.

(* --- 128-bit arithmetic = arithmetic modulo 2^128 ------------------------ *)
Theorem C18_add : forall ah al bh bl rh rl, wf128 ah al -> wf128 bh bl ->
  val128 (sc_uint128_add ah al bh bl rh rl) = (val128 (ah, al) + val128 (bh, bl)) mod 2 ^ 128
  /\ wf128 (fst (sc_uint128_add ah al bh bl rh rl)) (snd (sc_uint128_add ah al bh bl rh rl)).
Proof. exact add_correct. Qed.
Print Assumptions C18_add.

Theorem C18_sub : forall ah al bh bl rh rl, wf128 ah al -> wf128 bh bl ->
  val128 (sc_uint128_sub ah al bh bl rh rl) = (val128 (ah, al) - val128 (bh, bl)) mod 2 ^ 128
  /\ wf128 (fst (sc_uint128_sub ah al bh bl rh rl)) (snd (sc_uint128_sub ah al bh bl rh rl)).
Proof. exact sub_correct. Qed.
Print Assumptions C18_sub.

Theorem C18_add_inplace : forall ah al bh bl rh rl,
  sc_uint128_add_inplace ah al bh bl = sc_uint128_add ah al bh bl rh rl.
Proof. exact add_inplace_eq. Qed.
Print Assumptions C18_add_inplace.

Theorem C18_sub_inplace : forall ah al bh bl rh rl,
  sc_uint128_sub_inplace ah al bh bl = sc_uint128_sub ah al bh bl rh rl.
Proof. exact sub_inplace_eq. Qed.
Print Assumptions C18_sub_inplace.

(* "a == b is allowed" for the in-place functions: the source translated with b aliased to a *)
Theorem C18_inplace_aliased : forall ah al, wf128 ah al ->
  val128 (sc_uint128_add_inplace_aliased ah al) = (2 * val128 (ah, al)) mod 2 ^ 128 /\
  val128 (sc_uint128_sub_inplace_aliased ah al) = 0 /\
  sc_uint128_bitwise_or_inplace_aliased ah al = (ah, al) /\
  sc_uint128_bitwise_and_inplace_aliased ah al = (ah, al).
Proof. exact aliased_correct. Qed.
Print Assumptions C18_inplace_aliased.

(* the documented aliasing of the out-of-place functions ("input == result", "a == result", "b == result", "a == b"):
   the source translated with the parameters aliased equals the non-aliased translation, to which the theorems of this
   file apply *)
Theorem C18_outofplace_aliased : forall ah al bh bl s rh rl,
  sc_uint128_shift_right_inres ah al s = sc_uint128_shift_right ah al s rh rl /\
  sc_uint128_shift_left_inres ah al s = sc_uint128_shift_left ah al s rh rl /\
  sc_uint128_bitwise_neg_ares ah al = sc_uint128_bitwise_neg ah al rh rl /\
  sc_uint128_bitwise_or_ares ah al bh bl = sc_uint128_bitwise_or ah al bh bl rh rl /\
  sc_uint128_bitwise_or_bres ah al bh bl = sc_uint128_bitwise_or ah al bh bl rh rl /\
  sc_uint128_bitwise_or_abres ah al = sc_uint128_bitwise_or ah al ah al rh rl /\
  sc_uint128_bitwise_and_ares ah al bh bl = sc_uint128_bitwise_and ah al bh bl rh rl /\
  sc_uint128_bitwise_and_bres ah al bh bl = sc_uint128_bitwise_and ah al bh bl rh rl /\
  sc_uint128_bitwise_and_abres ah al = sc_uint128_bitwise_and ah al ah al rh rl /\
  sc_uint128_add_ab ah al rh rl = sc_uint128_add ah al ah al rh rl /\
  sc_uint128_sub_ab ah al rh rl = sc_uint128_sub ah al ah al rh rl.
Proof. exact outofplace_aliased. Qed.
Print Assumptions C18_outofplace_aliased.

(* logical shifts by ANY count 0 <= s < 2^31 (counts >= 128 give 0) *)
Theorem C18_shift_right : forall h l s rh rl, wf128 h l -> 0 <= s < 2 ^ 31 ->
  val128 (sc_uint128_shift_right h l s rh rl) = val128 (h, l) / 2 ^ s
  /\ wf128 (fst (sc_uint128_shift_right h l s rh rl)) (snd (sc_uint128_shift_right h l s rh rl)).
Proof. exact shr_correct. Qed.
Print Assumptions C18_shift_right.

Theorem C18_shift_left : forall h l s rh rl, wf128 h l -> 0 <= s < 2 ^ 31 ->
  val128 (sc_uint128_shift_left h l s rh rl) = (val128 (h, l) * 2 ^ s) mod 2 ^ 128
  /\ wf128 (fst (sc_uint128_shift_left h l s rh rl)) (snd (sc_uint128_shift_left h l s rh rl)).
Proof. exact shl_correct. Qed.
Print Assumptions C18_shift_left.

Theorem C18_chk_bit : forall h l e, wf128 h l -> 0 <= e < 128 ->
  sc_uint128_chk_bit h l e = b2z (Z.testbit (val128 (h, l)) e).
Proof. exact chk_bit_correct. Qed.
Print Assumptions C18_chk_bit.

Theorem C18_set_bit : forall h l e, wf128 h l -> 0 <= e < 128 ->
  val128 (sc_uint128_set_bit h l e) = Z.lor (val128 (h, l)) (2 ^ e).
Proof. exact set_bit_correct. Qed.
Print Assumptions C18_set_bit.

Theorem C18_compare : forall ah al bh bl, wf128 ah al -> wf128 bh bl ->
  sc_uint128_compare ah al bh bl =
  match val128 (ah, al) ?= val128 (bh, bl) with Lt => -1 | Eq => 0 | Gt => 1 end.
Proof. exact compare_correct. Qed.
Print Assumptions C18_compare.

Theorem C18_is_equal : forall ah al bh bl, wf128 ah al -> wf128 bh bl ->
  sc_uint128_is_equal ah al bh bl = b2z (val128 (ah, al) =? val128 (bh, bl)).
Proof. exact is_equal_correct. Qed.
Print Assumptions C18_is_equal.

Theorem C18_bitwise_neg : forall h l rh rl, wf128 h l ->
  val128 (sc_uint128_bitwise_neg h l rh rl) = 2 ^ 128 - 1 - val128 (h, l).
Proof. exact neg_correct. Qed.
Print Assumptions C18_bitwise_neg.

Theorem C18_bitwise_or : forall ah al bh bl rh rl, wf128 ah al -> wf128 bh bl ->
  val128 (sc_uint128_bitwise_or ah al bh bl rh rl) = Z.lor (val128 (ah, al)) (val128 (bh, bl)).
Proof. exact or_correct. Qed.
Print Assumptions C18_bitwise_or.

Theorem C18_bitwise_and : forall ah al bh bl rh rl, wf128 ah al -> wf128 bh bl ->
  val128 (sc_uint128_bitwise_and ah al bh bl rh rl) = Z.land (val128 (ah, al)) (val128 (bh, bl)).
Proof. exact and_correct. Qed.
Print Assumptions C18_bitwise_and.

Theorem C18_bitwise_or_inplace : forall ah al bh bl rh rl,
  sc_uint128_bitwise_or_inplace ah al bh bl = sc_uint128_bitwise_or ah al bh bl rh rl.
Proof. exact or_inplace_eq. Qed.
Print Assumptions C18_bitwise_or_inplace.

Theorem C18_bitwise_and_inplace : forall ah al bh bl rh rl,
  sc_uint128_bitwise_and_inplace ah al bh bl = sc_uint128_bitwise_and ah al bh bl rh rl.
Proof. exact and_inplace_eq. Qed.
Print Assumptions C18_bitwise_and_inplace.

Theorem C18_init_copy : forall ih il h l oh ol,
  val128 (sc_uint128_init ih il h l) = val128 (h, l) /\ sc_uint128_copy h l oh ol = (h, l).
Proof. intros; split; [exact (init_correct ih il h l) | exact (copy_correct h l oh ol)]. Qed.
Print Assumptions C18_init_copy.

(* --- tree bias: closest member of the addressed interval; intervals partition --- *)
Theorem C18_bias : forall m l i t,
  0 <= l <= m -> m < 31 -> 0 <= i < 2 ^ l -> 0 <= t < 2 ^ m ->
  let r := sc_search_bias m l i t in
  let w := 2 ^ (m - l) in
  i * w <= r < (i + 1) * w /\
  (forall x, i * w <= x < (i + 1) * w -> Z.abs (r - t) <= Z.abs (x - t)) /\
  (i * w <= t < (i + 1) * w -> r = t).
Proof. exact bias_correct. Qed.
Print Assumptions C18_bias.

Theorem C18_bias_partition : forall m l t, 0 <= l <= m -> 0 <= t < 2 ^ m ->
  exists! i, 0 <= i < 2 ^ l /\ i * 2 ^ (m - l) <= t < (i + 1) * 2 ^ (m - l).
Proof. exact bias_partition. Qed.
Print Assumptions C18_bias_partition.

(* --- lower bound: first index whose entry is not below the target, any guess --- *)
Theorem C18_lower_bound : forall a n t g fuel,
  sorted_upto a n -> 0 <= n <= 2 ^ 63 -> (n = 0 \/ 0 <= g < n) -> (Z.to_nat n <= fuel)%nat ->
  exists r, sc_search_lower_bound64 fuel t a n g = Some r /\ is_first_ge a n t r.
Proof. exact lower_bound_correct. Qed.
Print Assumptions C18_lower_bound.

Theorem C18_lower_bound_unique : forall a n t r1 r2, is_first_ge a n t r1 -> is_first_ge a n t r2 -> r1 = r2.
Proof. exact first_ge_unique. Qed.
Print Assumptions C18_lower_bound_unique.

(* --- range search: the k with a[k] <= key < a[k+1], else nmemb --- *)
Theorem C18_bsearch_range : forall (a : Z -> Z) (n key : Z) (cmp_ke cmp_ek : Z -> Z),
  (forall i j, 0 <= i <= j -> j <= n -> a i <= a j) ->
  (forall i, 0 <= i <= n -> (cmp_ke i < 0 <-> key < a i)) ->
  (forall i, 0 <= i <= n -> (cmp_ek i <= 0 <-> a i <= key)) ->
  0 < n <= 2 ^ 63 ->
  forall fuel, (Z.to_nat n <= fuel)%nat ->
  exists r, sc_bsearch_range fuel cmp_ke cmp_ek n = Some r /\ is_range_index a n key r.
Proof. exact bsearch_range_correct. Qed.
Print Assumptions C18_bsearch_range.

Theorem C18_bsearch_range_unique : forall a n key r1 r2,
  (forall i j, 0 <= i <= j -> j <= n -> a i <= a j) ->
  is_range_index a n key r1 -> is_range_index a n key r2 -> r1 = r2.
Proof. exact range_index_unique. Qed.
Print Assumptions C18_bsearch_range_unique.

(* --- integer powers: base^exp modulo the word size, exact when representable --- *)
Theorem C18_intpow : forall b e fuel, in_s32 b -> 0 <= e < 2 ^ 31 -> (32 <= fuel)%nat ->
  sc_intpow fuel b e = Some (s32 (b ^ e)).
Proof. exact intpow_correct. Qed.
Print Assumptions C18_intpow.

Theorem C18_intpow64 : forall b e fuel, in_s64 b -> 0 <= e < 2 ^ 31 -> (32 <= fuel)%nat ->
  sc_intpow64 fuel b e = Some (s64 (b ^ e)).
Proof. exact intpow64_correct. Qed.
Print Assumptions C18_intpow64.

Theorem C18_intpow64u : forall b e fuel, in_u64 b -> 0 <= e < 2 ^ 31 -> (32 <= fuel)%nat ->
  sc_intpow64u fuel b e = Some (u64 (b ^ e)).
Proof. exact intpow64u_correct. Qed.
Print Assumptions C18_intpow64u.

Theorem C18_intpow_exact : forall b e fuel, in_s32 b -> 0 <= e < 2 ^ 31 -> (32 <= fuel)%nat -> in_s32 (b ^ e) ->
  sc_intpow fuel b e = Some (b ^ e).
Proof. exact intpow_exact. Qed.
Print Assumptions C18_intpow_exact.

(* --- log2 / round-up macros --- *)
Theorem C18_log2_32 : forall x, 0 < x < 2 ^ 31 -> w_sc_log2_32 x = Z.log2 x.
Proof. exact log2_32_correct. Qed.
Print Assumptions C18_log2_32.

Theorem C18_log2_32u : forall x, 0 < x < 2 ^ 32 -> w_sc_log2_32u x = Z.log2 x.
Proof. exact log2_32u_correct. Qed.
Print Assumptions C18_log2_32u.

Theorem C18_log2_64 : forall x, 0 < x < 2 ^ 63 -> w_sc_log2_64 x = Z.log2 x.
Proof. exact log2_64_correct. Qed.
Print Assumptions C18_log2_64.

Theorem C18_log2_64u : forall x, 0 < x < 2 ^ 64 -> w_sc_log2_64u x = Z.log2 x.
Proof. exact log2_64u_correct. Qed.
Print Assumptions C18_log2_64u.

Theorem C18_roundup2_32 : forall x, 0 < x <= 2 ^ 30 -> is_roundup2 x (w_sc_roundup2_32 x).
Proof. exact roundup2_32_correct. Qed.
Print Assumptions C18_roundup2_32.

Theorem C18_roundup2_64 : forall x, 0 < x <= 2 ^ 62 -> is_roundup2 x (w_sc_roundup2_64 x).
Proof. exact roundup2_64_correct. Qed.
Print Assumptions C18_roundup2_64.

Theorem C18_min_max : forall a b, w_sc_min a b = Z.min a b /\ w_sc_max a b = Z.max a b.
Proof. intros; split; [exact (min_correct a b) | exact (max_correct a b)]. Qed.
Print Assumptions C18_min_max.

(* non-vacuity: the hypotheses are met by concrete non-trivial arguments *)
Example C18_nonvacuous :
  wf128 (2 ^ 63 + 1) (2 ^ 64 - 1) /\ sorted_upto (fun i => 2 * i) 10 /\
  sc_search_lower_bound64 10 7 (fun i => 2 * i) 10 9 = Some 4 /\
  sc_search_bias 4 2 1 9 = 7 /\ sc_intpow 32 3 5 = Some 243 /\
  sc_bsearch_range 4 (fun i => 5 - 2 * i) (fun i => 2 * i - 5) 4 = Some 2.
Proof.
  split; [unfold wf128, in_u64, M64; simpl; split; split; discriminate || reflexivity|].
  split; [intros i j Hij Hj; destruct Hij; apply Z.mul_le_mono_nonneg_l; [discriminate|assumption]|].
  repeat split; vm_compute; reflexivity.
Qed.

(* --- laws of COMPOSED 128-bit calls (C18/Uint128Laws.v): what chains of calls rely on ------------- *)
Theorem C18_law_add_sub_cancel : forall ah al bh bl rh rl rh' rl',
  wf128 ah al -> wf128 bh bl ->
  let s := sc_uint128_add ah al bh bl rh rl in
  sc_uint128_sub (fst s) (snd s) bh bl rh' rl' = (ah, al).
Proof. exact add_sub_cancel. Qed.
Print Assumptions C18_law_add_sub_cancel.

Theorem C18_law_sub_add_cancel : forall ah al bh bl rh rl rh' rl',
  wf128 ah al -> wf128 bh bl ->
  let s := sc_uint128_sub ah al bh bl rh rl in
  sc_uint128_add (fst s) (snd s) bh bl rh' rl' = (ah, al).
Proof. exact sub_add_cancel. Qed.
Print Assumptions C18_law_sub_add_cancel.

Theorem C18_law_add_comm : forall ah al bh bl rh rl rh' rl',
  wf128 ah al -> wf128 bh bl ->
  sc_uint128_add ah al bh bl rh rl = sc_uint128_add bh bl ah al rh' rl'.
Proof. exact add_comm. Qed.
Print Assumptions C18_law_add_comm.

Theorem C18_law_add_assoc : forall ah al bh bl ch cl r1 r2 r3 r4 r5 r6 r7 r8,
  wf128 ah al -> wf128 bh bl -> wf128 ch cl ->
  let ab := sc_uint128_add ah al bh bl r1 r2 in
  let bc := sc_uint128_add bh bl ch cl r3 r4 in
  sc_uint128_add (fst ab) (snd ab) ch cl r5 r6 = sc_uint128_add ah al (fst bc) (snd bc) r7 r8.
Proof. exact add_assoc. Qed.
Print Assumptions C18_law_add_assoc.

Theorem C18_law_add_zero : forall ah al rh rl,
  wf128 ah al -> sc_uint128_add ah al 0 0 rh rl = (ah, al).
Proof. exact add_zero. Qed.
Print Assumptions C18_law_add_zero.

Theorem C18_law_sub_as_add_neg : forall ah al bh bl r1 r2 r3 r4 r5 r6 r7 r8,
  wf128 ah al -> wf128 bh bl ->
  let nb := sc_uint128_bitwise_neg bh bl r1 r2 in
  let t := sc_uint128_add ah al (fst nb) (snd nb) r3 r4 in
  sc_uint128_sub ah al bh bl r7 r8 = sc_uint128_add (fst t) (snd t) 0 1 r5 r6.
Proof. exact sub_as_add_neg. Qed.
Print Assumptions C18_law_sub_as_add_neg.

Theorem C18_law_neg_involutive : forall h l r1 r2 r3 r4,
  wf128 h l ->
  let n := sc_uint128_bitwise_neg h l r1 r2 in
  sc_uint128_bitwise_neg (fst n) (snd n) r3 r4 = (h, l).
Proof. exact neg_involutive. Qed.
Print Assumptions C18_law_neg_involutive.

Theorem C18_law_de_morgan_or : forall ah al bh bl r1 r2 r3 r4 r5 r6 r7 r8 r9 r10,
  wf128 ah al -> wf128 bh bl ->
  let o := sc_uint128_bitwise_or ah al bh bl r1 r2 in
  let na := sc_uint128_bitwise_neg ah al r3 r4 in
  let nb := sc_uint128_bitwise_neg bh bl r5 r6 in
  sc_uint128_bitwise_neg (fst o) (snd o) r7 r8 =
  sc_uint128_bitwise_and (fst na) (snd na) (fst nb) (snd nb) r9 r10.
Proof. exact de_morgan_or. Qed.
Print Assumptions C18_law_de_morgan_or.

Theorem C18_law_chk_after_set : forall h l e e',
  wf128 h l -> 0 <= e < 128 -> 0 <= e' < 128 ->
  let s := sc_uint128_set_bit h l e in
  sc_uint128_chk_bit (fst s) (snd s) e' = if e' =? e then 1 else sc_uint128_chk_bit h l e'.
Proof. exact chk_after_set. Qed.
Print Assumptions C18_law_chk_after_set.

Theorem C18_law_set_bit_idempotent : forall h l e,
  wf128 h l -> 0 <= e < 128 ->
  let s := sc_uint128_set_bit h l e in
  sc_uint128_set_bit (fst s) (snd s) e = s.
Proof. exact set_bit_idempotent. Qed.
Print Assumptions C18_law_set_bit_idempotent.

Theorem C18_law_set_bit_commute : forall h l e f,
  wf128 h l -> 0 <= e < 128 -> 0 <= f < 128 ->
  let s := sc_uint128_set_bit h l e in
  let t := sc_uint128_set_bit h l f in
  sc_uint128_set_bit (fst s) (snd s) f = sc_uint128_set_bit (fst t) (snd t) e.
Proof. exact set_bit_commute. Qed.
Print Assumptions C18_law_set_bit_commute.

Theorem C18_law_set_bit_adds : forall h l e,
  wf128 h l -> 0 <= e < 128 -> sc_uint128_chk_bit h l e = 0 ->
  val128 (sc_uint128_set_bit h l e) = val128 (h, l) + 2 ^ e.
Proof. exact set_bit_adds. Qed.
Print Assumptions C18_law_set_bit_adds.

Theorem C18_law_shr_shr : forall h l s t r1 r2 r3 r4 r5 r6,
  wf128 h l -> 0 <= s -> 0 <= t -> s + t < 2 ^ 31 ->
  let a := sc_uint128_shift_right h l s r1 r2 in
  sc_uint128_shift_right (fst a) (snd a) t r3 r4 = sc_uint128_shift_right h l (s + t) r5 r6.
Proof. exact shr_shr. Qed.
Print Assumptions C18_law_shr_shr.

Theorem C18_law_shl_shl : forall h l s t r1 r2 r3 r4 r5 r6,
  wf128 h l -> 0 <= s -> 0 <= t -> s + t < 2 ^ 31 ->
  let a := sc_uint128_shift_left h l s r1 r2 in
  sc_uint128_shift_left (fst a) (snd a) t r3 r4 = sc_uint128_shift_left h l (s + t) r5 r6.
Proof. exact shl_shl. Qed.
Print Assumptions C18_law_shl_shl.

Theorem C18_law_shl_shr : forall h l s r1 r2 r3 r4,
  wf128 h l -> 0 <= s <= 128 ->
  let a := sc_uint128_shift_left h l s r1 r2 in
  val128 (sc_uint128_shift_right (fst a) (snd a) s r3 r4) = val128 (h, l) mod 2 ^ (128 - s).
Proof. exact shl_shr. Qed.
Print Assumptions C18_law_shl_shr.

Theorem C18_law_shr_shl : forall h l s r1 r2 r3 r4,
  wf128 h l -> 0 <= s < 2 ^ 31 ->
  let a := sc_uint128_shift_right h l s r1 r2 in
  val128 (sc_uint128_shift_left (fst a) (snd a) s r3 r4) = val128 (h, l) - val128 (h, l) mod 2 ^ s.
Proof. exact shr_shl. Qed.
Print Assumptions C18_law_shr_shl.

Theorem C18_law_compare_antisym : forall ah al bh bl,
  wf128 ah al -> wf128 bh bl ->
  sc_uint128_compare ah al bh bl = - sc_uint128_compare bh bl ah al.
Proof. exact compare_antisym. Qed.
Print Assumptions C18_law_compare_antisym.

Theorem C18_law_compare_eq_iff : forall ah al bh bl,
  wf128 ah al -> wf128 bh bl ->
  sc_uint128_compare ah al bh bl = 0 <-> (ah, al) = (bh, bl).
Proof. exact compare_eq_iff. Qed.
Print Assumptions C18_law_compare_eq_iff.

Theorem C18_law_compare_trans : forall ah al bh bl ch cl,
  wf128 ah al -> wf128 bh bl -> wf128 ch cl ->
  sc_uint128_compare ah al bh bl <= 0 -> sc_uint128_compare bh bl ch cl <= 0 ->
  sc_uint128_compare ah al ch cl <= 0.
Proof. exact compare_trans. Qed.
Print Assumptions C18_law_compare_trans.

Theorem C18_law_is_equal_compare : forall ah al bh bl,
  wf128 ah al -> wf128 bh bl ->
  sc_uint128_is_equal ah al bh bl = b2z (sc_uint128_compare ah al bh bl =? 0).
Proof. exact is_equal_compare. Qed.
Print Assumptions C18_law_is_equal_compare.

Theorem C18_law_add_wraps_iff : forall ah al bh bl rh rl,
  wf128 ah al -> wf128 bh bl ->
  let s := sc_uint128_add ah al bh bl rh rl in
  sc_uint128_compare (fst s) (snd s) ah al = -1 <-> 2 ^ 128 <= val128 (ah, al) + val128 (bh, bl).
Proof. exact add_wraps_iff. Qed.
Print Assumptions C18_law_add_wraps_iff.

(* --- laws of repeated / composed helper calls (C18/HelperLaws.v) ------------------------------ *)
Theorem C18_law_roundup2_32_laws : (forall x, 0 < x <= 2 ^ 30 -> w_sc_roundup2_32 (w_sc_roundup2_32 x) = w_sc_roundup2_32 x) /\
  (forall x y, 0 < x -> x <= y -> y <= 2 ^ 30 -> w_sc_roundup2_32 x <= w_sc_roundup2_32 y) /\
  (forall x, 0 < x <= 2 ^ 30 -> w_sc_roundup2_32 x < 2 * x) /\
  (forall k, 0 <= k <= 30 -> w_sc_roundup2_32 (2 ^ k) = 2 ^ k).
Proof. exact roundup2_32_laws. Qed.
Print Assumptions C18_law_roundup2_32_laws.

Theorem C18_law_roundup2_64_laws : (forall x, 0 < x <= 2 ^ 62 -> w_sc_roundup2_64 (w_sc_roundup2_64 x) = w_sc_roundup2_64 x) /\
  (forall x y, 0 < x -> x <= y -> y <= 2 ^ 62 -> w_sc_roundup2_64 x <= w_sc_roundup2_64 y) /\
  (forall x, 0 < x <= 2 ^ 62 -> w_sc_roundup2_64 x < 2 * x) /\
  (forall k, 0 <= k <= 62 -> w_sc_roundup2_64 (2 ^ k) = 2 ^ k).
Proof. exact roundup2_64_laws. Qed.
Print Assumptions C18_law_roundup2_64_laws.

Theorem C18_law_log2_of_roundup2_32 : forall x,
  0 < x <= 2 ^ 30 ->
  2 ^ w_sc_log2_32 (w_sc_roundup2_32 x) = w_sc_roundup2_32 x.
Proof. exact log2_of_roundup2_32. Qed.
Print Assumptions C18_law_log2_of_roundup2_32.

Theorem C18_law_log2_of_roundup2_64 : forall x,
  0 < x <= 2 ^ 62 ->
  2 ^ w_sc_log2_64 (w_sc_roundup2_64 x) = w_sc_roundup2_64 x.
Proof. exact log2_of_roundup2_64. Qed.
Print Assumptions C18_law_log2_of_roundup2_64.

Theorem C18_law_log2_variants_agree : forall x,
  0 < x < 2 ^ 31 ->
  w_sc_log2_32 x = w_sc_log2_32u x /\ w_sc_log2_32 x = w_sc_log2_64 x /\ w_sc_log2_32 x = w_sc_log2_64u x.
Proof. exact log2_variants_agree. Qed.
Print Assumptions C18_law_log2_variants_agree.

Theorem C18_law_log2_64u_monotone : forall x y,
  0 < x -> x <= y -> y < 2 ^ 64 -> w_sc_log2_64u x <= w_sc_log2_64u y.
Proof. exact log2_64u_monotone. Qed.
Print Assumptions C18_law_log2_64u_monotone.

Theorem C18_law_lower_bound_guess_independent : forall a n t g1 g2 fuel r1 r2,
  sorted_upto a n -> 0 <= n <= 2 ^ 63 -> (n = 0 \/ 0 <= g1 < n) -> (n = 0 \/ 0 <= g2 < n) -> (Z.to_nat n <= fuel)%nat ->
  sc_search_lower_bound64 fuel t a n g1 = Some r1 -> sc_search_lower_bound64 fuel t a n g2 = Some r2 -> r1 = r2.
Proof. exact lower_bound_guess_independent. Qed.
Print Assumptions C18_law_lower_bound_guess_independent.

Theorem C18_law_lower_bound_monotone : forall a n t1 t2 g1 g2 fuel,
  sorted_upto a n -> 0 <= n <= 2 ^ 63 -> (n = 0 \/ 0 <= g1 < n) -> (n = 0 \/ 0 <= g2 < n) -> (Z.to_nat n <= fuel)%nat ->
  t1 <= t2 ->
  exists r1 r2, sc_search_lower_bound64 fuel t1 a n g1 = Some r1 /\ sc_search_lower_bound64 fuel t2 a n g2 = Some r2 /\
                (r2 = -1 \/ (0 <= r1 /\ r1 <= r2)).
Proof. exact lower_bound_monotone. Qed.
Print Assumptions C18_law_lower_bound_monotone.

Theorem C18_law_lower_bound_finds_member : forall a n t g fuel k,
  sorted_upto a n -> 0 <= n <= 2 ^ 63 -> (n = 0 \/ 0 <= g < n) -> (Z.to_nat n <= fuel)%nat ->
  0 <= k < n -> a k = t ->
  exists r, sc_search_lower_bound64 fuel t a n g = Some r /\ 0 <= r <= k /\ a r = t.
Proof. exact lower_bound_finds_member. Qed.
Print Assumptions C18_law_lower_bound_finds_member.

Theorem C18_law_bias_in_range : forall m l i t,
  0 <= l <= m -> m < 31 -> 0 <= i < 2 ^ l -> 0 <= t < 2 ^ m ->
  0 <= sc_search_bias m l i t < 2 ^ m.
Proof. exact bias_in_range. Qed.
Print Assumptions C18_law_bias_in_range.

Theorem C18_law_bias_idempotent : forall m l i t,
  0 <= l <= m -> m < 31 -> 0 <= i < 2 ^ l -> 0 <= t < 2 ^ m ->
  sc_search_bias m l i (sc_search_bias m l i t) = sc_search_bias m l i t.
Proof. exact bias_idempotent. Qed.
Print Assumptions C18_law_bias_idempotent.

Theorem C18_law_intpow_add : forall b e1 e2 fuel,
  in_s32 b -> 0 <= e1 -> 0 <= e2 -> e1 + e2 < 2 ^ 31 -> (32 <= fuel)%nat ->
  exists v1 v2, sc_intpow fuel b e1 = Some v1 /\ sc_intpow fuel b e2 = Some v2 /\
                sc_intpow fuel b (e1 + e2) = Some (s32 (v1 * v2)).
Proof. exact intpow_add. Qed.
Print Assumptions C18_law_intpow_add.

Theorem C18_law_intpow64u_add : forall b e1 e2 fuel,
  in_u64 b -> 0 <= e1 -> 0 <= e2 -> e1 + e2 < 2 ^ 31 -> (32 <= fuel)%nat ->
  exists v1 v2, sc_intpow64u fuel b e1 = Some v1 /\ sc_intpow64u fuel b e2 = Some v2 /\
                sc_intpow64u fuel b (e1 + e2) = Some (u64 (v1 * v2)).
Proof. exact intpow64u_add. Qed.
Print Assumptions C18_law_intpow64u_add.
