(* C17 - placeholder while the proofs are being written *)
From Coq Require Import ZArith List.
From ScV Require Import Base.CInt C17.OptionsModel.
Import ListNotations.
Theorem C17_stub : strtol [49%Z; 50%Z] = (12%Z, false).
Proof. reflexivity. Qed.
Print Assumptions C17_stub.
