(* C17 - option values depend only on the input and survive a save/load cycle.
   Statements about the executable model coq/C17/OptionsModel.v (sc_options.c as repaired by bb105d5,
   5b6f754, ede139e, 69d3f48, 5918853, 6404e3e, 5a6ac04, bd8c44f, 57534b2; iniparser as repaired by cfc9e38; key-value lookup) and
   coq/C17/GetoptModel.v (GNU getopt_long).  The model is tied to /repo on every run by the
   correspondence run of checks/C17.py.  strtod and "%.16g" are arbitrary functions in every theorem.
   This file contains only statements, `exact` proofs, Print Assumptions and Examples. *)
From Coq Require Import ZArith List Bool.
From ScV Require Import Base.CInt C17.OptionsModel C17.GetoptModel.
From ScV Require Import C17.NumProofs C17.IniProofs C17.SaveProofs C17.LoadProofs C17.OptionsProofs
                        C17.HistoryProofs C17.GetoptProofs C17.WitnessProofs.
Import ListNotations.
Local Open Scope Z_scope.

(* === 1. numeric conversion: the value the text denotes, an error exactly when it does not fit === *)

(* decimal text (what "%d"/"%lld" print, any integer n), followed by anything that is not alphanumeric:
   the value n when it fits a long, otherwise the clamped value with ERANGE *)
Theorem C17_strtol_decimal : forall n rest, (match rest with [] => True | c :: _ => digit_val c = 99 end) ->
  strtol (print_dec n ++ rest) =
  if n <? LONG_MIN then (LONG_MIN, true) else if n >? LONG_MAX then (LONG_MAX, true) else (n, false).
Proof. exact strtol_print_dec. Qed.
Print Assumptions C17_strtol_decimal.

(* hexadecimal and octal numerals of base 0, with optional sign: the Horner value of the digits *)
Theorem C17_strtol_hex : forall (neg : bool) (ds rest : str), ds <> [] -> Forall (is_digit 16) ds -> stops 16 rest ->
  forall x, x = 120 \/ x = 88 ->
  strtol ((if neg then [cMINUS] else []) ++ c0 :: x :: ds ++ rest) = clamp_long neg (horner 16 0 ds).
Proof. exact strtol_hex. Qed.
Print Assumptions C17_strtol_hex.

Theorem C17_strtol_octal : forall (neg : bool) (ds rest : str), Forall (is_digit 8) ds -> stops 8 rest ->
  (match ds ++ rest with x :: h :: _ => ((x =? 120) || (x =? 88)) && (digit_val h <? 16) = false | _ => True end) ->
  strtol ((if neg then [cMINUS] else []) ++ c0 :: ds ++ rest) = clamp_long neg (horner 8 0 ds).
Proof. exact strtol_octal. Qed.
Print Assumptions C17_strtol_octal.

Theorem C17_clamp_long : forall (neg : bool) (m : Z), 0 <= m ->
  let v := if neg then - m else m in
  clamp_long neg m = if v <? LONG_MIN then (LONG_MIN, true) else if v >? LONG_MAX then (LONG_MAX, true) else (v, false).
Proof. exact clamp_long_spec. Qed.
Print Assumptions C17_clamp_long.

(* sc_options_parse, SC_OPTION_INT / SC_OPTION_SIZE_T: the outcome is a function of the option
   argument alone - not of errno, of the variable's old value or of anything else in the world *)
Theorem C17_int_option_outcome : forall strtod w o k it a, it_type it = TInt ->
  let r := apply_item strtod w o k it (Some a) in
  match int_outcome a with
  | Some v => fst r = 0 /\ w_store (snd r) = st_set (w_store w) (it_var it) (VI v)
  | None => fst r = -1 /\ w_store (snd r) = w_store w
  end.
Proof. exact apply_int. Qed.
Print Assumptions C17_int_option_outcome.

Theorem C17_size_option_outcome : forall strtod w o k it a, it_type it = TSize ->
  let r := apply_item strtod w o k it (Some a) in
  match size_outcome a with
  | Some v => fst r = 0 /\ w_store (snd r) = st_set (w_store w) (it_var it) (VI v)
  | None => fst r = -1 /\ w_store (snd r) = w_store w
  end.
Proof. exact apply_size. Qed.
Print Assumptions C17_size_option_outcome.

(* ... and for the decimal text of ANY integer n it is n exactly when n fits the variable's type
   (INT_MIN..INT_MAX; 0..LLONG_MAX as sc_options.h documents for size_t), an error otherwise *)
Theorem C17_int_option_denotes : forall n rest, (match rest with [] => True | c :: _ => digit_val c = 99 end) ->
  int_outcome (print_dec n ++ rest) = if (INT_MIN <=? n) && (n <=? INT_MAX) then Some n else None.
Proof. exact int_outcome_dec. Qed.
Print Assumptions C17_int_option_denotes.

Theorem C17_size_option_denotes : forall n rest, (match rest with [] => True | c :: _ => digit_val c = 99 end) ->
  size_outcome (print_dec n ++ rest) = if (0 <=? n) && (n <=? LONG_MAX) then Some n else None.
Proof. exact size_outcome_dec. Qed.
Print Assumptions C17_size_option_denotes.

(* SC_OPTION_DOUBLE (57534b2), for EVERY strtod: the outcome depends on what strtod says about the text alone; the
   error return exactly when ERANGE is raised AND the result is +-0 or +-inf *)
Theorem C17_double_option_outcome : forall strtod w o k it a, it_type it = TDouble ->
  let r := apply_item strtod w o k it (Some a) in
  if dbl_error (fst (strtod a)) (snd (strtod a)) then fst r = -1 /\ w_store (snd r) = w_store w
  else fst r = 0 /\ w_store (snd r) = st_set (w_store w) (it_var it) (VD (fst (strtod a))).
Proof. exact apply_double. Qed.
Print Assumptions C17_double_option_outcome.

Theorem C17_double_error_rule : forall x e, dbl_error x e = true <-> e = true /\ (dbl_mag x = 0 \/ dbl_mag x = DBL_INF).
Proof. exact dbl_error_spec. Qed.
Print Assumptions C17_double_error_rule.

(* every finite nonzero bit pattern - normal or subnormal (0 < magnitude < 2^52), either sign - is accepted whether or
   not libc raised ERANGE for it *)
Theorem C17_double_finite_nonzero_accepted : forall x e, 0 < dbl_mag x < DBL_INF -> dbl_error x e = false.
Proof. exact dbl_finite_nonzero_accepted. Qed.
Print Assumptions C17_double_finite_nonzero_accepted.
Theorem C17_double_subnormal_accepted : forall x e, 0 < dbl_mag x < 2 ^ 52 -> dbl_error x e = false.
Proof. exact dbl_subnormal_accepted. Qed.
Print Assumptions C17_double_subnormal_accepted.

(* regression guard: the rule before 57534b2 (ERANGE alone) rejects the smallest / largest / a negative subnormal *)
Theorem C17_double_old_rule_refuted :
  dbl_error_old 1 true = true /\ dbl_error_old (2 ^ 52 - 1) true = true /\ dbl_error_old (2 ^ 63 + 1) true = true /\
  dbl_error 1 true = false /\ dbl_error (2 ^ 52 - 1) true = false /\ dbl_error (2 ^ 63 + 1) true = false.
Proof. exact dbl_old_rule_refuted. Qed.
Print Assumptions C17_double_old_rule_refuted.

(* the same through a configuration file *)
Theorem C17_file_int_in_range : forall n, INT_MIN <= n <= INT_MAX -> ini_int (print_dec n) = (n, false).
Proof. exact ini_int_print_dec. Qed.
Print Assumptions C17_file_int_in_range.
Theorem C17_file_int_out_of_range : forall n, n < INT_MIN \/ INT_MAX < n -> snd (ini_int (print_dec n)) = true.
Proof. exact ini_int_print_dec_out. Qed.
Print Assumptions C17_file_int_out_of_range.
Theorem C17_file_size_in_range : forall n, 0 <= n <= LONG_MAX -> ini_sizet (print_udec n) = (n, false).
Proof. exact ini_sizet_print_udec. Qed.
Print Assumptions C17_file_size_in_range.
Theorem C17_file_size_out_of_range : forall n, n < 0 \/ LONG_MAX < n -> snd (ini_sizet (print_dec n)) = true.
Proof. exact ini_sizet_print_dec_out. Qed.
Print Assumptions C17_file_size_out_of_range.

(* === 2. unknown options, booleans, key-value choices: the error return === *)
Theorem C17_unknown_option : forall strtod w w' o evs1 c r oe av,
  parse_loop strtod w o (evs1 ++ [GEnd]) = (0, w', []) ->
  fst (fst (parse strtod w o (evs1 ++ GErr c :: r) oe av)) = -1 /\
  o_first (get_opts (snd (fst (parse strtod w o (evs1 ++ GErr c :: r) oe av))) o) = -1.
Proof. exact parse_unknown_after_prefix. Qed.
Print Assumptions C17_unknown_option.

Theorem C17_bad_boolean : forall strtod w o k it a, it_type it = TBool -> first_in s_yes a = false -> first_in s_no a = false ->
  apply_item strtod w o k it (Some a) = (-1, w).
Proof. exact apply_bool_bad. Qed.
Print Assumptions C17_bad_boolean.

Theorem C17_good_boolean : forall strtod w o k it a, it_type it = TBool ->
  (first_in s_yes a = true -> apply_item strtod w o k it (Some a) = (0, set_store w (st_set (w_store w) (it_var it) (VI 1)))) /\
  (first_in s_yes a = false -> first_in s_no a = true ->
   apply_item strtod w o k it (Some a) = (0, set_store w (st_set (w_store w) (it_var it) (VI 0)))).
Proof. exact apply_bool_good. Qed.
Print Assumptions C17_good_boolean.

Theorem C17_keyvalue_unknown : forall strtod w o k it a t, it_type it = TKeyvalue -> al_get (w_kvs w) (it_kv it) = Some t ->
  (kv_find t a = None \/ kv_find t a = Some None) ->
  fst (apply_item strtod w o k it (Some a)) = -1 /\
  st_int (w_store (snd (apply_item strtod w o k it (Some a)))) (it_var it) = st_int (w_store w) (it_var it).
Proof. exact apply_keyvalue_unknown. Qed.
Print Assumptions C17_keyvalue_unknown.

Theorem C17_keyvalue_known : forall strtod w o k it a t x, it_type it = TKeyvalue -> al_get (w_kvs w) (it_kv it) = Some t ->
  kv_find t a = Some (Some x) ->
  fst (apply_item strtod w o k it (Some a)) = 0 /\
  st_int (w_store (snd (apply_item strtod w o k it (Some a)))) (it_var it) = x.
Proof. exact apply_keyvalue_known. Qed.
Print Assumptions C17_keyvalue_known.

(* === 3. the same result whatever was parsed or had failed before === *)

(* F-C17a (repaired bb105d5): for EVERY operation and EVERY world, perturbing errno changes neither
   the return value nor the resulting world (variables, option tables, argument lists, files) *)
Theorem C17_errno_irrelevant_step : forall strtod fmt16 x w e,
  fst (fst (step strtod fmt16 (set_errno w e) x)) = fst (fst (step strtod fmt16 w x)) /\
  snd (step strtod fmt16 (set_errno w e) x) = snd (step strtod fmt16 w x) /\
  eqv (snd (fst (step strtod fmt16 (set_errno w e) x))) (snd (fst (step strtod fmt16 w x))).
Proof. exact step_blind. Qed.
Print Assumptions C17_errno_irrelevant_step.

(* ... hence for ALL histories: an errno left behind (or set from outside) at any point of a history
   changes no later return value and nothing of the final world but errno itself *)
Theorem C17_history_errno_independent : forall strtod fmt16 w l1 e l2,
  fst (run strtod fmt16 w (l1 ++ OErrno e :: l2)) =
  fst (run strtod fmt16 w l1) ++ 0 :: fst (run strtod fmt16 (snd (run strtod fmt16 w l1)) l2)
  /\ eqv (snd (run strtod fmt16 w (l1 ++ OErrno e :: l2))) (snd (run strtod fmt16 w (l1 ++ l2))).
Proof. exact history_errno_independent. Qed.
Print Assumptions C17_history_errno_independent.

(* F-C17b (repaired 5b6f754): after `optind = 0` a getopt_long call does not depend on the state an
   earlier scan left behind, so sc_options_parse on an argument vector is a function of the vector,
   the declarations and the variables *)
Theorem C17_getopt_reset_independent : forall shorts longs argv g1 g2,
  getopt_call shorts longs argv (g_reset g1) = getopt_call shorts longs argv (g_reset g2).
Proof. exact getopt_reset_independent. Qed.
Print Assumptions C17_getopt_reset_independent.

Theorem C17_parse_history_independent : forall strtod w o argv g1 g2,
  fst (parse_argv strtod w o argv g1) = fst (parse_argv strtod w o argv g2).
Proof. exact parse_argv_history_independent. Qed.
Print Assumptions C17_parse_history_independent.

(* without the reset the statement is false: a second scan of "prog -i 7 -x rest" returns -1 at once;
   after a failure inside the clustered word "-xZq" even `optind = 1` executes the pending "q" *)
Theorem C17_stale_optind_refuted :
  fst (fst (getopt_calls 3 ex_shorts [] ex_argv g_start)) = [GShort 105 (Some [55]); GShort 120 None; GEnd] /\
  fst (fst (getopt_call ex_shorts [] ex_argv g_after_first)) = GEnd /\
  fst (fst (getopt_calls 3 ex_shorts [] ex_argv (g_reset g_after_first))) = [GShort 105 (Some [55]); GShort 120 None; GEnd].
Proof. exact stale_optind_refuted. Qed.
Print Assumptions C17_stale_optind_refuted.

Theorem C17_stale_cluster_refuted :
  fst (fst (getopt_calls 2 ex_shorts [] ex_argv_bad g_start)) = [GShort 120 None; GErr 90] /\
  fst (fst (getopt_call ex_shorts [] ex_argv_next (set_optind g_after_failure 1))) = GShort 113 None /\
  fst (fst (getopt_call ex_shorts [] ex_argv_next (g_reset g_after_failure))) = GShort 105 (Some [57]).
Proof. exact stale_cluster_refuted. Qed.
Print Assumptions C17_stale_cluster_refuted.

(* end to end on the argument vector, for EVERY argument text a and every earlier scan state g:
   "prog -i a" and "prog --int=a" give exactly int_outcome a (theorems of part 1), an undeclared
   option gives -1 and assigns nothing *)
Theorem C17_parse_argv_short_int : forall strtod (st : store) (a : str) (g : gstate),
  let r := parse_argv strtod (ex_world st) 0%nat [w_prog; [45; 105]; a] g in
  match int_outcome a with
  | Some v => fst (fst r) = 3 /\ w_store (snd (fst r)) = st_set st 0%nat (VI v)
  | None => fst (fst r) = -1 /\ w_store (snd (fst r)) = st
  end.
Proof. exact parse_argv_short_int. Qed.
Print Assumptions C17_parse_argv_short_int.

Theorem C17_parse_argv_long_int : forall strtod (st : store) (a : str) (g : gstate),
  let r := parse_argv strtod (ex_world st) 0%nat [w_prog; 45 :: 45 :: s_int ++ cEQ :: a] g in
  match int_outcome a with
  | Some v => fst (fst r) = 2 /\ w_store (snd (fst r)) = st_set st 0%nat (VI v)
  | None => fst (fst r) = -1 /\ w_store (snd (fst r)) = st
  end.
Proof. exact parse_argv_long_int. Qed.
Print Assumptions C17_parse_argv_long_int.

Theorem C17_parse_argv_unknown : forall strtod st g,
  let r := parse_argv strtod (ex_world st) 0%nat [w_prog; [45; 90]] g in
  fst (fst r) = -1 /\ w_store (snd (fst r)) = st.
Proof. exact parse_argv_unknown. Qed.
Print Assumptions C17_parse_argv_unknown.

(* === 4. loading an arbitrary file === *)
(* for ALL file contents (arbitrary bytes), tables and worlds the loaders return 0 or -1: no path of
   the model reaches a NULL dereference (6404e3e, 5a6ac04), and the reading loop needs no more
   iterations than there are bytes (it always ends) *)
Theorem C17_load_never_crashes : forall strtod w o f,
  fst (load_ini strtod w o f) = 0 \/ fst (load_ini strtod w o f) = -1.
Proof. exact load_never_crashes. Qed.
Print Assumptions C17_load_never_crashes.

Theorem C17_load_args_never_crashes : forall w o f, fst (load_args w o f) = 0 \/ fst (load_args w o f) = -1.
Proof. exact load_args_never_crashes. Qed.
Print Assumptions C17_load_args_never_crashes.

Theorem C17_ini_loop_terminates : forall f1 f2 rest pre sec d errs, (length rest < f1)%nat -> (length rest < f2)%nat ->
  ini_loop f1 rest pre sec d errs = ini_loop f2 rest pre sec d errs.
Proof. exact ini_loop_fuel. Qed.
Print Assumptions C17_ini_loop_terminates.

(* === 5. the reader on the writer's layout === *)
Theorem C17_ini_line_entry : forall k v, key_safe k = true -> ini_safe v = true ->
  (length (entry_line k v) <= LINESZ)%nat ->
  ini_line (rstrip (entry_line k v)) = LValue (map to_lower k) v.
Proof. exact ini_line_entry. Qed.
Print Assumptions C17_ini_line_entry.

Theorem C17_ini_line_section : forall p, sec_safe p = true -> (length (section_line p) <= LINESZ)%nat ->
  ini_line (rstrip (section_line p)) = LSection (Some (map to_lower p)).
Proof. exact ini_line_section. Qed.
Print Assumptions C17_ini_line_section.

(* iniparser_load on any document of title / section / entry lines in the safe classes: exactly the
   assignments of the document, in order *)
Theorem C17_ini_load_document : forall doc, forallb iline_ok doc = true ->
  ini_load (flat (map render doc)) = Some (set_all (doc_assigns [] doc) []).
Proof. exact ini_load_doc. Qed.
Print Assumptions C17_ini_load_document.

Theorem C17_save_writes_document : forall fmt16 w ob, save_text fmt16 w ob = flat (map render (save_doc fmt16 w ob)).
Proof. exact save_text_doc. Qed.
Print Assumptions C17_save_writes_document.

(* === 6. save -> load -> load_args into a fresh, identically declared object === *)
(* For ALL option tables (any nesting of prefixes, any sharing of variables between options of one type),
   ALL stores and argument lists that satisfy roundtrip_ok (ini-safe strings / arguments / key-value keys,
   entry keys distinct up to case (a heading MAY be named like an entry since cfc9e38), ints in INT_MIN..INT_MAX, switch counts
   0..INT_MAX, sizes 0..LLONG_MAX, key-value text consistent with its variable, doubles that libc reads
   back without a range error in the sense of 57534b2: not (ERANGE and (zero or infinite))), all fresh worlds w0 with the same declarations and ARBITRARY variable contents:
   all three calls succeed, every saved option variable holds `restored` (part below), the key-value
   texts and the argument list are reproduced. *)
Theorem C17_save_load_roundtrip : forall strtod fmt16 (w w0 : world) (o o0 : nat) (f : str),
  let ob := get_opts w o in
  let ob0 := get_opts w0 o0 in
  w_kvs w0 = w_kvs w -> w_sobjs w0 = w_sobjs w -> Forall2 same_decl (o_items ob0) (o_items ob) ->
  roundtrip_ok strtod fmt16 w ob -> bad_path f = false ->
  let w1 := snd (save fmt16 w o f) in
  let w0' := mkW (w_store w0) (w_sobjs w0) (w_nsobj w0) (w_opts w0) (w_kvs w0) (w_fs w1) (w_errno w0) in
  let r2 := fst (load_ini strtod w0' o0 f) in
  let w2 := snd (load_ini strtod w0' o0 f) in
  let r3 := fst (load_args w2 o0 f) in
  let w3 := snd (load_args w2 o0 f) in
  fst (save fmt16 w o f) = 0 /\ r2 = 0 /\ r3 = 0 /\
  (forall it, In it (o_items ob) -> active w it = true ->
     st_get (w_store w3) (tvar (w_sobjs w) it) = restored strtod fmt16 w it) /\
  o_items (get_opts w3 o0) = o_items ob /\
  o_args (get_opts w3 o0) = saved_args ob /\ o_first (get_opts w3 o0) = 0.
Proof. exact save_load_roundtrip. Qed.
Print Assumptions C17_save_load_roundtrip.

(* integers, sizes, switch counts and key-value choices exactly; booleans as true/false; strings
   exactly; doubles as libc reads back its own "%.16g" text (outside the theorem, see docs/C17.md) *)
Theorem C17_roundtrip_values : forall strtod fmt16 w st' it,
  st_get st' (tvar (w_sobjs w) it) = restored strtod fmt16 w it ->
  match it_type it with
  | TSwitch | TInt | TSize | TKeyvalue => st_int st' (it_var it) = st_int (w_store w) (it_var it)
  | TBool => st_int st' (it_var it) = if st_int (w_store w) (it_var it) =? 0 then 0 else 1
  | TString => st_str st' (tvar (w_sobjs w) it) = string_get w (it_var it)
  | TDouble => st_dbl st' (it_var it) = fst (strtod (fmt16 (st_dbl (w_store w) (it_var it))))
  | _ => True
  end.
Proof. exact restored_meaning. Qed.
Print Assumptions C17_roundtrip_values.

(* doubles (57534b2): the guard holds for EVERY value whose "%.16g" text libc reads back as a finite nonzero number -
   subnormals included, whether or not ERANGE is raised - and for every value read back without ERANGE; together with
   C17_save_load_roundtrip / C17_roundtrip_values: such a double comes back as strtod (fmt16 x) *)
Theorem C17_double_roundtrip_guard : forall strtod fmt16 w it, it_type it = TDouble ->
  let r := strtod (fmt16 (st_dbl (w_store w) (it_var it))) in
  (0 < dbl_mag (fst r) < DBL_INF \/ snd r = false) -> value_good strtod fmt16 w it.
Proof. exact double_value_good. Qed.
Print Assumptions C17_double_roundtrip_guard.

(* the history that failed before the repair, with a libc that raises ERANGE for the subnormal: accepted on the
   command line, inside the guard, saved and loaded back bit for bit; zero / infinity with ERANGE stay errors *)
Theorem C17_double_subnormal_roundtrip :
  let r := run sub_strtod sub_fmt empty_world dbl_history in
  skipn 4 (fst r) = [3; 0; 0] /\
  st_dbl (w_store (snd r)) 0 = sub_bits /\ st_dbl (w_store (snd r)) 32 = sub_bits /\
  roundtrip_ok_b sub_strtod sub_fmt (snd (run sub_strtod sub_fmt empty_world (firstn 5 dbl_history)))
                 (get_opts (snd (run sub_strtod sub_fmt empty_world (firstn 5 dbl_history))) 0) = true.
Proof. exact double_subnormal_roundtrip. Qed.
Print Assumptions C17_double_subnormal_roundtrip.

Theorem C17_double_range_error_witness :
  (let r := run zero_strtod sub_fmt empty_world (firstn 5 dbl_history) in skipn 4 (fst r) = [-1] /\ st_dbl (w_store (snd r)) 0 = 0) /\
  (let r := run inf_strtod sub_fmt empty_world (firstn 5 dbl_history) in skipn 4 (fst r) = [-1] /\ st_dbl (w_store (snd r)) 0 = 0).
Proof. exact double_range_error_witness. Qed.
Print Assumptions C17_double_range_error_witness.

(* the conditions can be evaluated: the check does so on every saved state of every history *)
Theorem C17_roundtrip_guard_sound : forall strtod fmt16 w ob,
  roundtrip_ok_b strtod fmt16 w ob = true -> roundtrip_ok strtod fmt16 w ob.
Proof. exact roundtrip_ok_b_ok. Qed.
Print Assumptions C17_roundtrip_guard_sound.

(* outside the class the statement is false (recorded findings F-C17c, F-C17h and the case-insensitive keys) *)
Theorem C17_roundtrip_unsafe_refuted :
  forallb (fun s => negb (ini_safe s) && negb (ostr_eqb (snd (str_roundtrip s)) (Some s))) unsafe_witnesses = true.
Proof. exact roundtrip_unsafe_refuted. Qed.
Print Assumptions C17_roundtrip_unsafe_refuted.

Theorem C17_keyvalue_stale_copy_refuted :
  let r := run toy_strtod toy_fmt empty_world kv_history in
  skipn 9 (fst r) = [3; 1; 0; 0] /\
  st_int (w_store (snd r)) 0 = -7 /\
  st_int (w_store (snd r)) 32 = 5 /\
  roundtrip_ok_b toy_strtod toy_fmt (snd (run toy_strtod toy_fmt empty_world (firstn 11 kv_history)))
                 (get_opts (snd (run toy_strtod toy_fmt empty_world (firstn 11 kv_history))) 0) = false.
Proof. exact keyvalue_stale_copy_refuted. Qed.
Print Assumptions C17_keyvalue_stale_copy_refuted.

Theorem C17_key_case_collision_refuted :
  let r := run toy_strtod toy_fmt empty_world case_history in
  skipn 6 (fst r) = [5; 0; 0] /\
  (st_int (w_store (snd r)) 0, st_int (w_store (snd r)) 1) = (1, 2) /\
  (st_int (w_store (snd r)) 32, st_int (w_store (snd r)) 33) = (2, 2) /\
  roundtrip_ok_b toy_strtod toy_fmt (snd (run toy_strtod toy_fmt empty_world (firstn 7 case_history)))
                 (get_opts (snd (run toy_strtod toy_fmt empty_world (firstn 7 case_history))) 0) = false.
Proof. exact key_case_collision_refuted. Qed.
Print Assumptions C17_key_case_collision_refuted.

(* F-C17k (repaired cfc9e38): an option "b" of the sub-options "pre" and nested sub-options with the prefix "B":
   entry and section heading share the dictionary slot "pre:b".  For EVERY list of assignments: a stored value
   survives every later assignment that is not an entry of the same key - headings included; hence a key is found
   with its value as soon as no two ENTRIES share it (this is all that is left of the key condition in roundtrip_ok) *)
Theorem C17_heading_never_erases_entry : forall l d K x,
  (forall y, ~ In (K, Some y) l) -> dict_get d K = Some (Some x) -> dict_get (set_all l d) K = Some (Some x).
Proof. exact dict_get_set_all_kept. Qed.
Print Assumptions C17_heading_never_erases_entry.

Theorem C17_lookup_saved_entry : forall a d K v, NoDup (entry_keys a) -> In (K, Some v) a ->
  dict_get (set_all a d) K = Some (Some v).
Proof. exact lookup_entry. Qed.
Print Assumptions C17_lookup_saved_entry.

(* the history that lost the switch before the repair: inside the guard now, and the switch comes back *)
Theorem C17_key_section_collision_roundtrip :
  let r := run toy_strtod toy_fmt empty_world sec_history in
  skipn 14 (fst r) = [4; 0; 0] /\
  (st_int (w_store (snd r)) 1, st_int (w_store (snd r)) 0) = (1, 7) /\
  (st_int (w_store (snd r)) 33, st_int (w_store (snd r)) 32) = (1, 7) /\
  roundtrip_ok_b toy_strtod toy_fmt (snd (run toy_strtod toy_fmt empty_world (firstn 15 sec_history)))
                 (get_opts (snd (run toy_strtod toy_fmt empty_world (firstn 15 sec_history))) 0) = true.
Proof. exact key_section_collision_roundtrip. Qed.
Print Assumptions C17_key_section_collision_roundtrip.

(* regression guard: with the reader as it was before cfc9e38 the heading "[pre:B]" erases the entry "b" of "[pre]" *)
Theorem C17_heading_erases_entry_old_refuted :
  dict_get (set_all sec_assigns []) k_pre_b = Some (Some k_true) /\ dict_get (set_all_old sec_assigns []) k_pre_b = Some None.
Proof. exact (conj heading_keeps_entry heading_erases_entry_old_refuted). Qed.
Print Assumptions C17_heading_erases_entry_old_refuted.

(* === hypotheses are satisfiable, by a non-trivial state === *)
Example C17_ex_roundtrip_hypotheses : roundtrip_ok toy_strtod toy_fmt wx (get_opts wx 0).
Proof. exact roundtrip_hypotheses_satisfiable. Qed.
Example C17_ex_state :
  st_int (w_store wx) 3 = INT_MIN /\ st_int (w_store wx) 4 = 12 /\ st_int (w_store wx) 5 = LONG_MAX /\
  st_int (w_store wx) 1 = -7 /\ st_str (w_store wx) 2 = Some t_text /\ st_int (w_store wx) 6 = 1.
Proof. exact state_values. Qed.
Example C17_ex_strtol : strtol [32; 45; 48; 120; 55; 102; 122] = (-127, false).       (* " -0x7fz" *)
Proof. reflexivity. Qed.
Example C17_ex_digits : Forall (is_digit 16) [55; 102] /\ stops 16 [122] /\ horner 16 0 [55; 102] = 127.
Proof. repeat split; repeat constructor; vm_compute; intuition discriminate. Qed.
Example C17_ex_safe : ini_safe t_text = true /\ key_safe [45; 115] = true /\ sec_safe [112; 114; 101; 58; 105; 110] = true.
Proof. repeat split; reflexivity. Qed.

(* ===== tie T1: the model computes what the definitions GENERATED from /repo/src/sc_options.c compute ======================== *)
(* Gen/OptionsC17.v is regenerated from the working tree on every run (tools/c2g/groups_C17.py); an edit of the rules in
   sc_options.c changes a generated definition and the statements below stop checking. *)
From ScV Require Import Base.CInt Gen.OptionsC17 C17.OptionsModel C17.GetoptModel C17.OptionsGen.
Local Open Scope Z_scope.


(* sc_iniparser_getint behind the lookup: the generated code returns the model's clamped value and stores the model's error flag, for every value string *)
Theorem C17_gen_ini_getint : forall v p old s, p <> 0 ->
  let '(l, e) := c_strtol 0 v in
  ini_getint p l e old s = (fst (ini_int v), b2z (snd (ini_int v))) /\ fst (ini_getint 0 l e old s) = fst (ini_int v) /\ snd (ini_getint 0 l e old s) = old.
Proof. exact gen_ini_getint. Qed.
Print Assumptions C17_gen_ini_getint.

(* sc_iniparser_getsizet: negative -> 0 with the error flag, otherwise the value and the ERANGE flag *)
Theorem C17_gen_ini_getsizet : forall v p old s, p <> 0 ->
  let '(l, e) := c_strtol 0 v in l <= LONG_MAX ->
  ini_getsizet p l e old s = (fst (ini_sizet v), b2z (snd (ini_sizet v))) /\ fst (ini_getsizet 0 l e old s) = fst (ini_sizet v) /\ snd (ini_getsizet 0 l e old s) = old.
Proof. exact gen_ini_getsizet. Qed.
Print Assumptions C17_gen_ini_getsizet.

(* the repaired double rule `errno == ERANGE && (dbl == 0. || dbl == HUGE_VAL || dbl == -HUGE_VAL)` (HUGE_VAL symbolic) = the model's dbl_error on the bit pattern *)
Theorem C17_gen_double_rule : forall x (e : bool) dv H, (dv =? 0) = dbl_is_zero x -> ((dv =? H) || (dv =? - H)) = dbl_is_inf x ->
  parse_double_error dv (if e then ERANGE else 0) H = dbl_error x e.
Proof. exact gen_double_rule. Qed.
Print Assumptions C17_gen_double_rule.

(* sc_iniparser_getdouble stores exactly that rule through iserror and returns the converted value *)
Theorem C17_gen_ini_getdouble : forall x (e : bool) dv H p old s, p <> 0 ->
  (dv =? 0) = dbl_is_zero x -> ((dv =? H) || (dv =? - H)) = dbl_is_inf x ->
  ini_getdouble p dv (if e then ERANGE else 0) H old s = (dv, b2z (dbl_error x e)) /\ ini_getdouble 0 dv (if e then ERANGE else 0) H old s = (dv, old).
Proof. exact gen_ini_getdouble. Qed.
Print Assumptions C17_gen_ini_getdouble.

(* command line, int: the error test of the model's apply_item, literally; the stored value *)
Theorem C17_gen_parse_int : forall l e, parse_int_error l e = ((l <? INT_MIN) || (l >? INT_MAX) || (e =? ERANGE)) /\
  (INT_MIN <= l <= INT_MAX -> parse_int_value l = l).
Proof. exact gen_parse_int. Qed.
Print Assumptions C17_gen_parse_int.

(* command line, size_t *)
Theorem C17_gen_parse_sizet : forall l e, parse_sizet_error l e = ((l <? 0) || (e =? ERANGE)) /\ (0 <= l <= LONG_MAX -> parse_sizet_value l = l).
Proof. exact gen_parse_sizet. Qed.
Print Assumptions C17_gen_parse_sizet.

(* a switch counts its occurrences *)
Theorem C17_gen_parse_switch : forall x, INT_MIN <= x < INT_MAX -> parse_switch x = x + 1.
Proof. exact gen_parse_switch. Qed.
Print Assumptions C17_gen_parse_switch.

(* the two character sets of the boolean spellings *)
Theorem C17_gen_bool_sets : parse_bool_set1 = s_yes /\ parse_bool_set2 = s_no.
Proof. exact gen_bool_sets. Qed.
Print Assumptions C17_gen_bool_sets.

(* command line, bool: no argument -> 1; first character in "1tTyY" -> 1, in "0fFnN" -> 0, otherwise the processing ends with -1 *)
Theorem C17_gen_parse_bool : forall a p n1 n2 old rv, p <> 0 -> (0 <? n1) = first_in s_yes a -> (0 <? n2) = first_in s_no a ->
  parse_bool p n1 n2 old rv = (if ini_boolean a =? -1 then (old, -1) else (ini_boolean a, rv)) /\
  parse_bool 0 n1 n2 old rv = (1, rv).
Proof. exact gen_parse_bool. Qed.
Print Assumptions C17_gen_parse_bool.

(* `optind = 0` is the model's g_reset; the option string starts empty *)
Theorem C17_gen_getopt_reset : forall g, g_optind (g_reset g) = parse_optind_reset /\ parse_optstring_init = 0.
Proof. exact gen_getopt_reset. Qed.
Print Assumptions C17_gen_getopt_reset.

(* a name with a colon carries its own section: no "Options:" in front *)
Theorem C17_gen_load_has_colon : forall n p, (p =? 0) = negb (has_colon n) ->
  load_has_colon p = has_colon n /\ long_key n = (if load_has_colon p then n else s_Options ++ cCOLON :: n).
Proof. exact gen_load_has_colon. Qed.
Print Assumptions C17_gen_load_has_colon.

(* sc_options_save writes a section heading exactly when there is none yet or the prefix differs (symbolic strncmp) *)
Theorem C17_gen_save_heading : forall p (last : option str) tp lp n1 n2 cmp, tp <> 0 ->
  (lp =? 0) = (match last with None => true | Some _ => false end) ->
  (forall q, last = Some q -> ((n1 =? n2) && (cmp =? 0)) = str_eqb p q) ->
  save_heading tp lp n1 n2 cmp = match last with Some q => negb (str_eqb p q) | None => true end /\
  save_heading_keep tp n1 = (tp, n1).
Proof. exact gen_save_heading. Qed.
Print Assumptions C17_gen_save_heading.

(* base name / section prefix / prefix length as sc_options_save determines them from strrchr (opt_name, ':') *)
Theorem C17_gen_save_prefix_base : forall name dflt sl colon tp tn sl2, 0 <= colon - name < 2 ^ 62 ->
  OptionsC17.save_prefix_base name dflt sl colon tp tn sl2 =
  if name =? 0 then (0, dflt, sl2) else if colon =? 0 then (name, dflt, sl) else (colon + 1, name, colon - name).
Proof. exact gen_save_prefix_base. Qed.
Print Assumptions C17_gen_save_prefix_base.

(* a switch value <= 1 is written as true / false *)
Theorem C17_gen_save_switch : forall b, save_switch_boolean b = (b <=? 1).
Proof. exact gen_save_switch. Qed.
Print Assumptions C17_gen_save_switch.

(* === 9. iniparser's dictionary: three parallel arrays that grow by doubling (C17/DictModel.v) refine the finite map of the model === *)
From ScV Require Import Gen.DictC17 C17.DictModel C17.DictProofs C17.DictGen.

(* EVERY hash function, EVERY initial size, EVERY history of dictionary_set / dictionary_unset from dictionary_new, EVERY key:
   dictionary_get on the arrays = dict_get on the finite map that OptionsModel.v works with (dict_set / removal) - across every
   growth step, replacement, removal and re-use of a freed slot *)
Theorem C17_dict_refines_map : forall (hash : str -> Z) size ops k,
  adict_get hash (arun hash ops (adict_new size)) k = OptionsModel.dict_get (mrun ops []) k.
Proof. exact dict_refines_map. Qed.
Print Assumptions C17_dict_refines_map.

(* one step: the invariant (stored hash = hash of the key in every slot in use, d->n = number of slots in use, at least one
   slot) is kept, and a later lookup of any key sees exactly the assignment *)
Theorem C17_dict_set_get : forall (hash : str -> Z) d k v, ad_inv hash d ->
  ad_inv hash (adict_set hash d k v) /\
  forall k', adict_get hash (adict_set hash d k v) k' = if str_eqb k' k then Some v else adict_get hash d k'.
Proof. exact set_get_step. Qed.
Print Assumptions C17_dict_set_get.

(* growth (mem_double on the three arrays with d->size * sizeof (element) bytes each): every (key, value, hash) triple stays
   in its slot, the size doubles, d->n is unchanged *)
Theorem C17_dict_grow_keeps_triples : forall d i, (i < length (ad_cells d))%nat ->
  nth i (ad_cells (adict_grow d)) empty_cell = nth i (ad_cells d) empty_cell /\
  length (ad_cells (adict_grow d)) = (2 * length (ad_cells d))%nat /\ ad_n (adict_grow d) = ad_n d.
Proof. exact grow_keeps_triples. Qed.
Print Assumptions C17_dict_grow_keeps_triples.

(* regression guard: a growth step that copies d->size BYTES of the hash array (a quarter of it) loses entries as soon as the
   dictionary grows: 129 keys, the key of slot 40 is gone, with 128 keys and with the real growth step it is there *)
Theorem C17_dict_short_hash_copy_refuted :
  adict_get dictionary_hash (wfill grow_short_hash 129) (wkey 40) = None /\
  adict_get dictionary_hash (wfill grow_short_hash 128) (wkey 40) = Some (Some [118; 48]) /\
  adict_get dictionary_hash (wfill adict_grow 129) (wkey 40) = Some (Some [118; 48]) /\
  adict_get dictionary_hash (wfill grow_short_hash 129) (wkey 20) = Some (Some [118; 48]).
Proof. exact short_hash_copy_refuted. Qed.
Print Assumptions C17_dict_short_hash_copy_refuted.

(* --- tie T1: the rules of DictModel.v are the ones generated from iniparser/dictionary.c (Gen/DictC17.v) --- *)

(* dictionary_new: at least DICTMINSZ = 128 slots; three zeroed arrays of `size` elements of 8, 8 and 4 bytes *)
Theorem C17_gen_dict_new : forall size r1 r2 r3, dict_new_size size = new_size size /\
  (0 <= size < 2147483648 -> dict_new_arrays size r1 r2 r3 = (size, r1, r2, r3, size, ESZ_VAL, size, ESZ_KEY, size, ESZ_HASH)).
Proof. exact gen_dict_new. Qed.
Print Assumptions C17_gen_dict_new.

(* mem_double (ptr, bytes): calloc (2 * bytes, 1); memcpy (new, ptr, bytes); free (ptr); the new block is returned *)
Theorem C17_gen_dict_mem_double : forall ptr bytes new, 0 <= bytes < 1073741824 ->
  dict_mem_double ptr bytes new = if new =? 0 then (0, 2 * bytes, 1, 0, 0, 0, 0) else (new, 2 * bytes, 1, new, ptr, bytes, ptr).
Proof. exact gen_dict_mem_double. Qed.
Print Assumptions C17_gen_dict_mem_double.

(* dictionary_set grows exactly when d->n = d->size: mem_double on d->val, d->key, d->hash with the model's byte counts
   (size * 8, size * 8, size * 4), then d->size = 2 * size *)
Theorem C17_gen_dict_grow : forall v k h n size r1 r2 r3, dict_set_full n size = (n =? size) /\
  (0 <= size < 134217728 -> dict_set_grow v k h size r1 r2 r3 =
     (r1, r2, r3, grow_size size, v, grow_bytes_val size, k, grow_bytes_key size, h, grow_bytes_hash size)) /\
  dict_set_grow_failed v k h = ((v =? 0) || (k =? 0) || (h =? 0)).
Proof. exact gen_dict_grow. Qed.
Print Assumptions C17_gen_dict_grow.

Theorem C17_gen_dict_conditions : forall d key n i size,
  dict_set_badargs d key = ((d =? 0) || (key =? 0)) /\ dict_set_nonempty n = (0 <? n) /\ dict_unset_notfound i size = (size <=? i).
Proof. exact gen_dict_set_conditions. Qed.
Print Assumptions C17_gen_dict_conditions.

(* the search loops of dictionary_set / dictionary_unset / dictionary_get over arrays that hold the model's cells (DictGen.rep):
   the slot the model finds - first slot in use whose stored hash and key match - or d->size / the default *)
Theorem C17_gen_dict_set_find : forall (hash : str -> Z) d k dk dh sk, rep (ad_cells d) k dk dh sk -> ad_size d < 2147483647 ->
  dict_set_find (S (length (ad_cells d))) dk dh sk (ad_size d) (hash k) = Some (found_or (length (ad_cells d)) (adict_find hash d k)).
Proof. exact gen_dict_set_find. Qed.
Print Assumptions C17_gen_dict_set_find.

Theorem C17_gen_dict_unset_find : forall (hash : str -> Z) d k dk dh sk, rep (ad_cells d) k dk dh sk -> ad_size d < 2147483647 ->
  dict_unset_find (S (length (ad_cells d))) dk dh sk (ad_size d) (hash k) = Some (found_or (length (ad_cells d)) (adict_find hash d k)).
Proof. exact gen_dict_unset_find. Qed.
Print Assumptions C17_gen_dict_unset_find.

Theorem C17_gen_dict_get : forall (hash : str -> Z) d k dk dh dv sk def, rep (ad_cells d) k dk dh sk -> ad_size d < 2147483647 ->
  dict_lookup (S (length (ad_cells d))) dk dh dv sk (ad_size d) def (hash k) =
  Some (match adict_find hash d k with Some i => dv (Z.of_nat i) | None => def end).
Proof. exact gen_dict_get. Qed.
Print Assumptions C17_gen_dict_get.

(* the insertion loop: the model's free_slot (first free slot from d->n on, else from 0 on) *)
Theorem C17_gen_dict_set_slot : forall l n j dk, keyrep l dk -> (n < length l)%nat -> Z.of_nat (length l) < 2147483647 ->
  free_slot l n = Some j -> dict_set_slot (2 * length l + 1) dk (Z.of_nat n) (Z.of_nat (length l)) = Some (Z.of_nat j).
Proof. exact gen_dict_set_slot. Qed.
Print Assumptions C17_gen_dict_set_slot.

(* what is stored: a new entry (copy of the key, copy of the value or NULL, the hash, d->n + 1), a replaced value (the old one
   freed), a removed entry (key freed and NULL, value freed and NULL, hash 0, d->n - 1) *)
Theorem C17_gen_dict_stores : forall dk dv dh xs key val h n i,
  (0 <= n < 2147483647 -> dict_set_store dk dv dh xs key val h n = (xs key, if z2b val then xs val else 0, h, n + 1)) /\
  dict_set_replace dv xs i val = (0, if z2b val then xs val else 0, dv i) /\
  (0 < n < 2147483648 -> dict_unset_remove dk dv dh i n = (0, if dv i =? 0 then -1 else 0, 0, n - 1, dk i, dv i)).
Proof. exact gen_dict_stores. Qed.
Print Assumptions C17_gen_dict_stores.

(* === 10. the application's variables and the library's stored copies do not influence what a parse / load stores === *)
From ScV Require Import C17.IndepProofs.

(* ANY two worlds with the same declarations (up to the key texts the items remember: `wrel`), key-value tables and files, but
   ARBITRARY values of all variables, arbitrary errno: sc_options_parse on the same getopt events returns the same value, leaves
   the same events, keeps the worlds related, and every variable afterwards holds the SAME value in both worlds (assigned by the
   text), or was touched in neither, or was counted up by the same number (switch / callback occurrences) from whatever it held *)
Theorem C17_parse_independent_of_variables : forall (strtod : str -> Z * bool) w1 w2 o evs oe av, wrel w1 w2 ->
  let r1 := parse strtod w1 o evs oe av in let r2 := parse strtod w2 o evs oe av in
  fst (fst r1) = fst (fst r2) /\ snd r1 = snd r2 /\ wrel (snd (fst r1)) (snd (fst r2)) /\
  srel (w_store w1) (w_store w2) (w_store (snd (fst r1))) (w_store (snd (fst r2))).
Proof. exact parse_independent_of_variables. Qed.
Print Assumptions C17_parse_independent_of_variables.

(* the same for sc_options_load *)
Theorem C17_load_independent_of_variables : forall (strtod : str -> Z * bool) w1 w2 o f, wrel w1 w2 ->
  let r1 := load_ini strtod w1 o f in let r2 := load_ini strtod w2 o f in
  fst r1 = fst r2 /\ wrel (snd r1) (snd r2) /\ srel (w_store w1) (w_store w2) (w_store (snd r1)) (w_store (snd r2)).
Proof. exact load_independent_of_variables. Qed.
Print Assumptions C17_load_independent_of_variables.

(* a string option: the processing succeeds and the variable holds the argument, whatever it held and whatever was stored before *)
Theorem C17_string_option_stores : forall (strtod : str -> Z * bool) w o k it arg, it_type it = TString ->
  let r := apply_item strtod w o k it arg in
  fst r = 0 /\ st_get (w_store (snd r)) (sobj_var w (it_var it)) = VS arg.
Proof. exact string_option_stores. Qed.
Print Assumptions C17_string_option_stores.

(* tie T1: sc_options_string_set frees the old copy, duplicates the new text and stores the duplicate in the copy AND the
   variable, unconditionally (= the model's string_set); sc_options_string_get re-reads the variable: it returns the text of the
   variable (= the model's string_get) under any interpretation of addresses as texts *)
Theorem C17_gen_string_holder : forall old newv dup var val cmp,
  holder_set old newv dup = (dup, dup, old, newv) /\
  holder_get var val cmp dup =
    (if (negb (Bool.eqb (var =? 0) (val =? 0))) || (negb (var =? 0) && negb (val =? 0) && negb (cmp =? 0))
     then (dup, dup, val, var) else (val, val, 0, 0)) /\
  (forall txt : Z -> option str, (forall p, txt p = None <-> p = 0) -> (var <> 0 -> val <> 0 -> (cmp = 0 <-> txt var = txt val)) ->
     txt dup = txt var -> txt (fst (fst (fst (holder_get var val cmp dup)))) = txt var) /\
  (forall sobjs st id v, st_get (string_set sobjs st id v) (match al_get sobjs id with Some s => so_var s | None => O end) = VS v).
Proof. exact gen_string_holder. Qed.
Print Assumptions C17_gen_string_holder.

(* F-C17n (recorded): a string variable holding NULL is not written; the fresh object with the default "d" keeps "d" - and the
   state is inside the executable guard (the round-trip theorem speaks about the written items) *)
Theorem C17_null_string_roundtrip_refuted :
  let w := snd (run toy_strtod toy_fmt empty_world nullstr_history) in
  let r := run toy_strtod toy_fmt w [OSave 0 t_f; OLoad 4 t_f] in
  roundtrip_ok_b toy_strtod toy_fmt w (get_opts w 0) = true /\ fst r = [0; 0] /\
  st_str (w_store w) 0 = None /\ st_str (w_store (snd r)) 32 = Some [100] /\ st_int (w_store (snd r)) 33 = 7.
Proof. exact null_string_roundtrip_refuted. Qed.
Print Assumptions C17_null_string_roundtrip_refuted.
