(* C20 - the declared public API links; accessors read back exactly what was set.
   Part 1 is about lists GENERATED on every run (Gen/ApiC20.v): function and extern-object declarations of
   every installed header (clang AST, per build configuration) and the symbols of the freshly built
   library.  Part 2 is about the GENERATED accessor bodies (Gen/AccessC20.v) and the object model
   C20/AccessModel.v, tied to the implementation by checks/C20.py.
   This file contains only statements, `exact` proofs and Print Assumptions. *)
From Coq Require Import String ZArith List Bool.
From ScV Require Import Base.CInt Gen.ApiC20 Gen.AccessC20 Gen.UseC20 C20.ApiProofs C20.ApiCheck C20.AccessModel C20.AccessProofs C20.UseProofs C20.UseGenProofs.
Import ListNotations.
Local Open Scope Z_scope.

(* --- part 1: finite domain, bound = the generated lists ----------------------------------------- *)
(* every declared name that is not a recorded finding is defined, in every build configuration *)
Theorem C20_declared_defined : forall n decl defd known, In (n, decl, defd, known) configs ->
  forall d, In d decl -> ~ In d known -> In d defd.
Proof. exact (cfgs_ok_sound configs all_ok). Qed.
Print Assumptions C20_declared_defined.

(* the recorded findings are exact: each recorded name is declared and is NOT defined *)
Theorem C20_known_exact : forall n decl defd known, In (n, decl, defd, known) configs ->
  forall d, In d known -> In d decl /\ ~ In d defd.
Proof. exact (cfgs_known_exact_sound configs all_known_exact). Qed.
Print Assumptions C20_known_exact.

(* the full-strength statement (without the exclusion) is false on the current tree *)
Theorem C20_undefined_refuted :
  exists n decl defd known d, In (n, decl, defd, known) configs /\ In d known /\ In d decl /\ ~ In d defd.
Proof. exact undefined_witness. Qed.
Print Assumptions C20_undefined_refuted.

(* the lists are not degenerate: >= 400 declared names per configuration, well-known ones among them; the
   pinned configuration is present and at least four configurations were built *)
Theorem C20_lists_substantial : forall n decl defd known, In (n, decl, defd, known) configs ->
  (400 <= length decl)%nat /\ forall d, In d must_declare -> In d decl.
Proof. exact (cfgs_substantial_sound 400 must_declare configs all_substantial). Qed.
Print Assumptions C20_lists_substantial.

Theorem C20_pinned_configuration_present :
  existsb (fun c => let '(n, _, _, _) := c in String.eqb n "serial") configs = true /\ Nat.leb 4 (length configs) = true.
Proof. exact pinned_present. Qed.
Print Assumptions C20_pinned_configuration_present.

(* --- part 2: generated accessor bodies ------------------------------------------------------------ *)
(* each output argument receives its own field; a NULL output leaves that output alone and the others correct *)
Theorem C20_widths_generated : forall a b c m1 m2 m3 p1 p2 p3,
  (let '(t, i, bo) := sc_notify_nary_set_widths a b c in sc_notify_nary_get_widths m1 m2 m3 p1 p2 p3 t i bo)
  = (sel m1 a p1, sel m2 b p2, sel m3 c p3).
Proof. exact gen_widths. Qed.
Print Assumptions C20_widths_generated.

Theorem C20_scalars_generated : forall v,
  sc_notify_get_eager_threshold (sc_notify_set_eager_threshold v) = v
  /\ sc_notify_get_stats (sc_notify_set_stats v) = v
  /\ sc_notify_ranges_get_num_ranges (sc_notify_ranges_set_num_ranges v) = v
  /\ sc_notify_ranges_get_package_id (sc_notify_ranges_set_package_id v) = v
  /\ sc_notify_get_type v = v /\ sc_notify_get_comm v = v.
Proof. exact gen_scalars. Qed.
Print Assumptions C20_scalars_generated.

Theorem C20_callback_generated : forall f x,
  (let '(cb, cx) := sc_notify_superset_set_callback f x in sc_notify_superset_get_callback cb cx) = (f, x).
Proof. exact gen_callback. Qed.
Print Assumptions C20_callback_generated.

Theorem C20_spacing_generated : forall a b,
  sc_options_set_spacing a b = (if a <? 0 then 20 else a, if b <? 0 then 32 else b).
Proof. exact gen_spacing. Qed.
Print Assumptions C20_spacing_generated.

(* --- part 2: objects ------------------------------------------------------------------------------ *)
Theorem C20_widths : forall mpi junk w k a b c w1 o1,
  step mpi junk w (OSetWidths k a b c) = Some (w1, o1) ->
  o1 = [] /\ forall m1 m2 m3 p1 p2 p3, exists w2,
    step mpi junk w1 (OGetWidths k m1 m2 m3 p1 p2 p3) = Some (w2, [sel m1 a p1; sel m2 b p2; sel m3 c p3])
    /\ (forall j, obj w2 j = obj w1 j) /\ same_defaults w1 w2.
Proof. exact widths_roundtrip. Qed.
Print Assumptions C20_widths.

Theorem C20_scalar_pairs :
  scalar_pair OSetEager OGetEager /\ scalar_pair OSetStats OGetStats
  /\ scalar_pair OSetNr OGetNr /\ scalar_pair OSetPk OGetPk.
Proof. split; [exact eager_roundtrip|split; [exact stats_roundtrip|split; [exact num_ranges_roundtrip|exact package_id_roundtrip]]]. Qed.
Print Assumptions C20_scalar_pairs.

Theorem C20_callback : forall mpi junk w k f x w1 o1,
  step mpi junk w (OSetCb k f x) = Some (w1, o1) ->
  o1 = [] /\ exists w2, step mpi junk w1 (OGetCb k) = Some (w2, [f; x])
                        /\ (forall j, obj w2 j = obj w1 j) /\ same_defaults w1 w2.
Proof. exact callback_roundtrip. Qed.
Print Assumptions C20_callback.

Theorem C20_type : forall mpi junk w k t w1 o1,
  step mpi junk w (OSetType k t) = Some (w1, o1) ->
  o1 = [0] /\ exists w2, step mpi junk w1 (OGetType k) = Some (w2, [resolve w t])
                         /\ (forall j, obj w2 j = obj w1 j) /\ same_defaults w1 w2.
Proof. exact type_roundtrip. Qed.
Print Assumptions C20_type.

Theorem C20_set_type_data : forall mpi junk w k t w1 o1 n0,
  step mpi junk w (OSetType k t) = Some (w1, o1) -> obj w k = Some n0 ->
  exists n1, obj w1 k = Some n1
    /\ n_comm n1 = n_comm n0 /\ n_eager n1 = n_eager n0 /\ n_stats n1 = n_stats n0 /\ n_type n1 = resolve w t
    /\ (n_type n0 = resolve w t -> n_data n1 = n_data n0)
    /\ (n_type n0 <> resolve w t ->
        n_data n1 = (if resolve w t =? c20_SC_NOTIFY_NARY then UNary (w_ntop w) (w_nint w) (w_nbot w)
                     else if resolve w t =? c20_SC_NOTIFY_RANGES then URanges (w_nranges w) (w_pkgid w)
                     else if resolve w t =? c20_SC_NOTIFY_SUPERSET then USuperset (fst junk) (snd junk)
                     else UOther)).
Proof. exact set_type_data. Qed.
Print Assumptions C20_set_type_data.

Theorem C20_new_defaults : forall mpi junk w k comm w1 o1,
  step mpi junk w (ONew k comm) = Some (w1, o1) ->
  exists n, obj w1 k = Some n /\ n_comm n = comm /\ n_type n = w_type_default w /\ n_eager n = w_eager_default w
            /\ n_stats n = 0 /\ (forall j, j <> k -> obj w1 j = obj w j) /\ same_defaults w w1.
Proof. exact new_defaults. Qed.
Print Assumptions C20_new_defaults.

Theorem C20_ranges_fields_independent : forall mpi junk w k v w1 o1,
  step mpi junk w (OSetNr k v) = Some (w1, o1) ->
  forall n, obj w k = Some n -> forall r p, n_data n = URanges r p ->
  exists w2, step mpi junk w1 (OGetPk k) = Some (w2, [p]).
Proof. exact ranges_fields_independent. Qed.
Print Assumptions C20_ranges_fields_independent.

Theorem C20_other_objects_untouched : forall mpi junk w o w1 out k,
  step mpi junk w o = Some (w1, out) ->
  (match o with
   | OSetType k' _ | OGetType k' | OSetEager k' _ | OGetEager k' | OSetStats k' _ | OGetStats k' | OGetComm k'
   | OSetWidths k' _ _ _ | OGetWidths k' _ _ _ _ _ _ | OSetNr k' _ | OGetNr k' | OSetPk k' _ | OGetPk k'
   | OSetCb k' _ _ | OGetCb k' | ONew k' _ | ODestroy k' | OUse k' _ _ | OUseV k' _ => k' <> k
   | _ => True end) ->
  obj w1 k = obj w k.
Proof. exact other_objects_untouched. Qed.
Print Assumptions C20_other_objects_untouched.

Theorem C20_setters_keep_other_fields : forall mpi junk w o w1 out k n,
  step mpi junk w o = Some (w1, out) -> field_op_handle o = Some k -> obj w k = Some n ->
  exists n1, obj w1 k = Some n1 /\
  match o with
  | OSetEager _ _ => n_comm n1 = n_comm n /\ n_type n1 = n_type n /\ n_stats n1 = n_stats n /\ n_data n1 = n_data n
  | OSetStats _ _ => n_comm n1 = n_comm n /\ n_type n1 = n_type n /\ n_eager n1 = n_eager n /\ n_data n1 = n_data n
  | OSetWidths _ _ _ _ | OSetNr _ _ | OSetPk _ _ | OSetCb _ _ _ =>
      n_comm n1 = n_comm n /\ n_type n1 = n_type n /\ n_eager n1 = n_eager n /\ n_stats n1 = n_stats n
  | _ => n1 = n
  end.
Proof. exact setters_keep_other_fields. Qed.
Print Assumptions C20_setters_keep_other_fields.

(* shared-array flavour: a communicator attribute with MPI ... *)
Theorem C20_shmem_mpi : forall junk w comm t w1 o1,
  step true junk w (OShSet comm t) = Some (w1, o1) ->
  o1 = [] /\ shmem_valid t /\ step true junk w1 (OShGet comm) = Some (w1, [t])
  /\ forall c, c <> comm -> step true junk w1 (OShGet c) = (match step true junk w (OShGet c) with Some (_, o) => Some (w1, o) | None => None end).
Proof. exact shmem_roundtrip_mpi. Qed.
Print Assumptions C20_shmem_mpi.

(* ... and the constant SC_SHMEM_BASIC without MPI (recorded finding: the stored value is not read back) *)
Theorem C20_shmem_serial : forall junk w comm t w1 o1,
  step false junk w (OShSet comm t) = Some (w1, o1) ->
  o1 = [] /\ w1 = w /\ step false junk w1 (OShGet comm) = Some (w1, [c20_SC_SHMEM_BASIC]).
Proof. exact shmem_serial. Qed.
Print Assumptions C20_shmem_serial.

Theorem C20_shmem_serial_refuted :
  exists w comm t w1, step false (0, 0) w (OShSet comm t) = Some (w1, []) /\ shmem_valid t
                      /\ step false (0, 0) w1 (OShGet comm) <> Some (w1, [t]).
Proof. exact shmem_serial_refuted. Qed.
Print Assumptions C20_shmem_serial_refuted.

Theorem C20_spacing : forall mpi junk w a b,
  step mpi junk w (OSpacing a b) =
  Some (w, [Z.max 14 (if a <? 0 then 20 else a); Z.max (Z.max 14 (if a <? 0 then 20 else a) + 6) (if b <? 0 then 32 else b)])
  /\ step mpi junk w OSpacing0 = Some (w, [20; 32]).
Proof. exact spacing_columns_spec. Qed.
Print Assumptions C20_spacing.

(* --- part 2: set ... USE ... get ------------------------------------------------------------------- *)
(* the operations that use a configured object store nothing: a notification round (sc_notify_payload /
   sc_notify_payloadv) leaves every controller and every public default as it was *)
Theorem C20_use_identity : forall mpi junk w k mode pay w1 out,
  (step mpi junk w (OUse k mode pay) = Some (w1, out) \/ step mpi junk w (OUseV k mode) = Some (w1, out)) ->
  out = [] /\ (forall j, obj w1 j = obj w j) /\ same_defaults w w1.
Proof. exact round_identity. Qed.
Print Assumptions C20_use_identity.

(* shared-array traffic keeps a flavour that was set (a communicator without one gets sc_shmem_default_type with MPI) and
   touches no controller; without MPI and on a communicator whose flavour was set it changes nothing at all *)
Theorem C20_shuse_identity : forall mpi junk w comm v w1 out,
  step mpi junk w (OShUse comm v) = Some (w1, out) ->
  out = [] /\ w_objs w1 = w_objs w
  /\ (forall c t, find c (w_shmem w) = Some t -> find c (w_shmem w1) = Some t)
  /\ (mpi = false -> w1 = w)
  /\ (forall t, find comm (w_shmem w) = Some t -> w1 = w).
Proof. exact shuse_identity. Qed.
Print Assumptions C20_shuse_identity.

(* parsing / printing / adding options between sc_options_set_spacing and the usage message does not move the columns *)
Theorem C20_spacing_used : forall mpi junk w a b u, step mpi junk w (OSpacingU a b u) = step mpi junk w (OSpacing a b).
Proof. exact spacing_used. Qed.
Print Assumptions C20_spacing_used.

(* one step that is not a writer of field f of controller k (see `writes`: sc_notify_new / destroy / set_type of k and
   the setter of f on k are the writers; getters, rounds, the other setters, other controllers, public defaults, shmem and
   options operations are not) leaves that field as it was ... *)
Theorem C20_step_keeps_field : forall mpi junk w o w1 out k f,
  step mpi junk w o = Some (w1, out) -> writes o k f = false -> field_of w1 k f = field_of w k f.
Proof. exact step_keeps_field. Qed.
Print Assumptions C20_step_keeps_field.

(* ... and so does every history of such steps *)
Theorem C20_history_keeps_field : forall mpi junk k f ops w w2 outs,
  run mpi junk w ops = Some (w2, outs) -> no_writer k f ops = true -> field_of w2 k f = field_of w k f.
Proof. exact history_keeps_field. Qed.
Print Assumptions C20_history_keeps_field.

(* THE property over histories: setter s stores `vals` in field f of controller k; then ANY history without a writer of that
   field runs (rounds on this and other controllers, other setters, getters, ...); then the getter of that field prints
   exactly `vals` (widths: each output argument its own field, a NULL output keeps its previous content) *)
Theorem C20_last_stored : forall mpi junk w s k f vals w1 o1 mid w2 outs g view,
  stores s = Some (k, f, vals) -> step mpi junk w s = Some (w1, o1) ->
  run mpi junk w1 mid = Some (w2, outs) -> no_writer k f mid = true ->
  reads g = Some (k, f, view) ->
  exists w3, step mpi junk w2 g = Some (w3, view vals) /\ (forall j, obj w3 j = obj w2 j) /\ same_defaults w2 w3.
Proof. exact last_stored. Qed.
Print Assumptions C20_last_stored.

Theorem C20_last_stored_type : forall mpi junk w k t w1 o1 mid w2 outs,
  step mpi junk w (OSetType k t) = Some (w1, o1) ->
  run mpi junk w1 mid = Some (w2, outs) -> no_writer k FType mid = true ->
  exists w3, step mpi junk w2 (OGetType k) = Some (w3, [resolve w t]).
Proof. exact last_stored_type. Qed.
Print Assumptions C20_last_stored_type.

(* the shared-array flavour of a communicator (MPI) after any history without another sc_shmem_set_type on it *)
Theorem C20_shmem_last_stored : forall junk w comm t w1 o1 mid w2 outs,
  step true junk w (OShSet comm t) = Some (w1, o1) ->
  run true junk w1 mid = Some (w2, outs) -> no_shset comm mid = true ->
  step true junk w2 (OShGet comm) = Some (w2, [t]).
Proof. exact shmem_last_stored. Qed.
Print Assumptions C20_shmem_last_stored.

(* --- part 2: generated slices of the writers outside the setters, and the census of all writers -------- *)
(* every store into a field of a controller, every address taken of a configuration field and every call of a function
   that writes configuration, in all of sc_notify.c (likewise the spacing fields in sc_options.c and the attribute calls in
   sc_shmem.c, MPI configuration), is one of these: a function that runs a round and stores (or re-initialises on first
   use) changes the generated list *)
Theorem C20_gen_writers :
  c20_notify_writers = expected_notify_writers
  /\ c20_spacing_writers = expected_spacing_writers
  /\ c20_shmem_writers = expected_shmem_writers.
Proof. exact gen_writers. Qed.
Print Assumptions C20_gen_writers.

Theorem C20_gen_only_setters_write : forall fn what, In (fn, what) c20_notify_writers -> In fn config_writer_functions.
Proof. exact gen_only_setters_write. Qed.
Print Assumptions C20_gen_only_setters_write.

Theorem C20_gen_ranges_init : forall w junk,
  (let '(nr, pk) := slice_sc_notify_ranges_init (w_nranges w) (w_pkgid w) in URanges nr pk) = init_data w junk c20_SC_NOTIFY_RANGES.
Proof. exact gen_ranges_init. Qed.
Print Assumptions C20_gen_ranges_init.

Theorem C20_gen_nary_init : forall w junk comm r1 size r2 rank h,
  let '(f_comm, f_size, f_rank, a_size, a_rank, s_notify, s_top, s_int, s_bot) :=
      slice_sc_notify_nary_init comm r1 size r2 rank h (w_ntop w) (w_nint w) (w_nbot w) in
  f_comm = comm /\ f_size = size /\ f_rank = rank /\ a_size = comm /\ a_rank = comm /\ s_notify = h
  /\ (let '(t, i, bo) := sc_notify_nary_set_widths s_top s_int s_bot in UNary t i bo) = init_data w junk c20_SC_NOTIFY_NARY.
Proof. exact gen_nary_init. Qed.
Print Assumptions C20_gen_nary_init.

(* the model's set_type IS the generated body of sc_notify_set_type with the generated initialisers plugged in *)
Theorem C20_gen_set_type : forall w junk n t h,
  supports_type (resolve w t) = true ->
  let '(ty, ret, rc, ra, nc, na) := slice_sc_notify_set_type (sc_notify_get_type (n_type n)) t (w_type_default w) h (n_type n) in
  set_type w junk n t = mkn (n_comm n) ty (n_eager n) (n_stats n) (data_after_set_type w junk n ty rc nc)
  /\ ret = 0 /\ (rc = 1 -> ra = h) /\ (nc = 1 -> na = h)
  /\ (rc = 1 \/ nc = 1 -> n_type n <> ty).
Proof. exact gen_set_type. Qed.
Print Assumptions C20_gen_set_type.

Theorem C20_gen_new : forall w p comm,
  supports_type (w_type_default w) = true ->
  let '(ret, f_comm, f_type, f_eager, a_notify, a_type) := slice_sc_notify_new p comm (w_eager_default w) (w_type_default w) in
  ret = p /\ a_notify = p
  /\ notify_new w comm = set_type w (0, 0) (mkn f_comm f_type f_eager 0 UOther) a_type.
Proof. exact gen_new. Qed.
Print Assumptions C20_gen_new.

(* --- hypotheses are satisfiable -------------------------------------------------------------------- *)
Example C20_ex_run :
  run false (7, 9) init_world
      [ONew 0 1; OSetType 0 2; OSetWidths 0 3 5 7; OGetWidths 0 1 0 1 (-7) (-8) (-9); OSetType 0 2; OGetWidths 0 1 1 1 0 0 0;
       OSetType 0 7; OGetNr 0; OGetPk 0; OSetType 0 2; OGetWidths 0 1 1 1 0 0 0; OSetType 0 8; OSetCb 0 11 12; OGetCb 0; OGetComm 0]
  = Some (mkw 3 1024 2 2 2 25 (-1) [(0, mkn 1 8 1024 0 (USuperset 11 12))] [],
          [[]; [0]; []; [3; -8; 7]; [0]; [3; 5; 7]; [0]; [25]; [-1]; [0]; [2; 2; 2]; [0]; []; [11; 12]; [1]]).
Proof. vm_compute. reflexivity. Qed.

(* the history of the demonstration: select n-ary, store widths, first round, read; store again, round, read *)
Example C20_ex_use :
  run true (0, 0) init_world
      [ONew 0 0; OSetType 0 2; OSetWidths 0 3 4 5; OUse 0 0 0; OGetWidths 0 1 1 1 0 0 0; OUseV 0 3; OSetEager 0 7; OUse 0 1 2;
       OGetWidths 0 1 0 1 (-7) (-8) (-9); OShSet 0 1; OShUse 0 7; OShGet 0; OShUse 1 1; OShGet 1; OSpacingU 30 50 15]
  = Some (mkw 3 1024 2 2 2 25 (-1) [(0, mkn 0 2 7 0 (UNary 3 4 5))] [(1, 0); (0, 1)],
          [[]; [0]; []; []; [3; 4; 5]; []; []; []; [3; -8; 5]; []; []; [1]; []; [0]; [30; 50]]).
Proof. vm_compute. reflexivity. Qed.
