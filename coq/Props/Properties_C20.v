(* C20 - the declared public API links; accessors read back exactly what was set.
   Part 1 is about lists GENERATED on every run (Gen/ApiC20.v): function and extern-object declarations of
   every installed header (clang AST, per build configuration) and the symbols of the freshly built
   library.  Part 2 is about the GENERATED accessor bodies (Gen/AccessC20.v) and the object model
   C20/AccessModel.v, tied to the implementation by checks/C20.py.
   This file contains only statements, `exact` proofs and Print Assumptions. *)
From Coq Require Import String ZArith List Bool.
From ScV Require Import Base.CInt Gen.ApiC20 Gen.AccessC20 C20.ApiProofs C20.ApiCheck C20.AccessModel C20.AccessProofs.
Import ListNotations.
Local Open Scope Z_scope.

(* --- part 1: finite domain, bound = the generated lists ----------------------------------------- *)
(* every declared name that is not a recorded finding is defined, in every build configuration *)
Theorem C20_declared_defined : forall n decl defd known, In (n, decl, defd, known) configs ->
  forall d, In d decl -> ~ In d known -> In d defd.
Proof. exact (cfgs_ok_sound configs all_ok). Qed.
Print Assumptions C20_declared_defined.

(* the recorded findings are exact: each recorded name is declared and is NOT defined *)
Theorem C20_known_exact : forall n decl defd known, In (n, decl, defd, known) configs ->
  forall d, In d known -> In d decl /\ ~ In d defd.
Proof. exact (cfgs_known_exact_sound configs all_known_exact). Qed.
Print Assumptions C20_known_exact.

(* the full-strength statement (without the exclusion) is false on the current tree *)
Theorem C20_undefined_refuted :
  exists n decl defd known d, In (n, decl, defd, known) configs /\ In d known /\ In d decl /\ ~ In d defd.
Proof. exact undefined_witness. Qed.
Print Assumptions C20_undefined_refuted.

(* the lists are not degenerate: >= 400 declared names per configuration, well-known ones among them; the
   pinned configuration is present and at least four configurations were built *)
Theorem C20_lists_substantial : forall n decl defd known, In (n, decl, defd, known) configs ->
  (400 <= length decl)%nat /\ forall d, In d must_declare -> In d decl.
Proof. exact (cfgs_substantial_sound 400 must_declare configs all_substantial). Qed.
Print Assumptions C20_lists_substantial.

Theorem C20_pinned_configuration_present :
  existsb (fun c => let '(n, _, _, _) := c in String.eqb n "serial") configs = true /\ Nat.leb 4 (length configs) = true.
Proof. exact pinned_present. Qed.
Print Assumptions C20_pinned_configuration_present.

(* --- part 2: generated accessor bodies ------------------------------------------------------------ *)
(* each output argument receives its own field; a NULL output leaves that output alone and the others correct *)
Theorem C20_widths_generated : forall a b c m1 m2 m3 p1 p2 p3,
  (let '(t, i, bo) := sc_notify_nary_set_widths a b c in sc_notify_nary_get_widths m1 m2 m3 p1 p2 p3 t i bo)
  = (sel m1 a p1, sel m2 b p2, sel m3 c p3).
Proof. exact gen_widths. Qed.
Print Assumptions C20_widths_generated.

Theorem C20_scalars_generated : forall v,
  sc_notify_get_eager_threshold (sc_notify_set_eager_threshold v) = v
  /\ sc_notify_get_stats (sc_notify_set_stats v) = v
  /\ sc_notify_ranges_get_num_ranges (sc_notify_ranges_set_num_ranges v) = v
  /\ sc_notify_ranges_get_package_id (sc_notify_ranges_set_package_id v) = v
  /\ sc_notify_get_type v = v /\ sc_notify_get_comm v = v.
Proof. exact gen_scalars. Qed.
Print Assumptions C20_scalars_generated.

Theorem C20_callback_generated : forall f x,
  (let '(cb, cx) := sc_notify_superset_set_callback f x in sc_notify_superset_get_callback cb cx) = (f, x).
Proof. exact gen_callback. Qed.
Print Assumptions C20_callback_generated.

Theorem C20_spacing_generated : forall a b,
  sc_options_set_spacing a b = (if a <? 0 then 20 else a, if b <? 0 then 32 else b).
Proof. exact gen_spacing. Qed.
Print Assumptions C20_spacing_generated.

(* --- part 2: objects ------------------------------------------------------------------------------ *)
Theorem C20_widths : forall mpi junk w k a b c w1 o1,
  step mpi junk w (OSetWidths k a b c) = Some (w1, o1) ->
  o1 = [] /\ forall m1 m2 m3 p1 p2 p3, exists w2,
    step mpi junk w1 (OGetWidths k m1 m2 m3 p1 p2 p3) = Some (w2, [sel m1 a p1; sel m2 b p2; sel m3 c p3])
    /\ (forall j, obj w2 j = obj w1 j) /\ same_defaults w1 w2.
Proof. exact widths_roundtrip. Qed.
Print Assumptions C20_widths.

Theorem C20_scalar_pairs :
  scalar_pair OSetEager OGetEager /\ scalar_pair OSetStats OGetStats
  /\ scalar_pair OSetNr OGetNr /\ scalar_pair OSetPk OGetPk.
Proof. split; [exact eager_roundtrip|split; [exact stats_roundtrip|split; [exact num_ranges_roundtrip|exact package_id_roundtrip]]]. Qed.
Print Assumptions C20_scalar_pairs.

Theorem C20_callback : forall mpi junk w k f x w1 o1,
  step mpi junk w (OSetCb k f x) = Some (w1, o1) ->
  o1 = [] /\ exists w2, step mpi junk w1 (OGetCb k) = Some (w2, [f; x])
                        /\ (forall j, obj w2 j = obj w1 j) /\ same_defaults w1 w2.
Proof. exact callback_roundtrip. Qed.
Print Assumptions C20_callback.

Theorem C20_type : forall mpi junk w k t w1 o1,
  step mpi junk w (OSetType k t) = Some (w1, o1) ->
  o1 = [0] /\ exists w2, step mpi junk w1 (OGetType k) = Some (w2, [resolve w t])
                         /\ (forall j, obj w2 j = obj w1 j) /\ same_defaults w1 w2.
Proof. exact type_roundtrip. Qed.
Print Assumptions C20_type.

Theorem C20_set_type_data : forall mpi junk w k t w1 o1 n0,
  step mpi junk w (OSetType k t) = Some (w1, o1) -> obj w k = Some n0 ->
  exists n1, obj w1 k = Some n1
    /\ n_comm n1 = n_comm n0 /\ n_eager n1 = n_eager n0 /\ n_stats n1 = n_stats n0 /\ n_type n1 = resolve w t
    /\ (n_type n0 = resolve w t -> n_data n1 = n_data n0)
    /\ (n_type n0 <> resolve w t ->
        n_data n1 = (if resolve w t =? c20_SC_NOTIFY_NARY then UNary (w_ntop w) (w_nint w) (w_nbot w)
                     else if resolve w t =? c20_SC_NOTIFY_RANGES then URanges (w_nranges w) (w_pkgid w)
                     else if resolve w t =? c20_SC_NOTIFY_SUPERSET then USuperset (fst junk) (snd junk)
                     else UOther)).
Proof. exact set_type_data. Qed.
Print Assumptions C20_set_type_data.

Theorem C20_new_defaults : forall mpi junk w k comm w1 o1,
  step mpi junk w (ONew k comm) = Some (w1, o1) ->
  exists n, obj w1 k = Some n /\ n_comm n = comm /\ n_type n = w_type_default w /\ n_eager n = w_eager_default w
            /\ n_stats n = 0 /\ (forall j, j <> k -> obj w1 j = obj w j) /\ same_defaults w w1.
Proof. exact new_defaults. Qed.
Print Assumptions C20_new_defaults.

Theorem C20_ranges_fields_independent : forall mpi junk w k v w1 o1,
  step mpi junk w (OSetNr k v) = Some (w1, o1) ->
  forall n, obj w k = Some n -> forall r p, n_data n = URanges r p ->
  exists w2, step mpi junk w1 (OGetPk k) = Some (w2, [p]).
Proof. exact ranges_fields_independent. Qed.
Print Assumptions C20_ranges_fields_independent.

Theorem C20_other_objects_untouched : forall mpi junk w o w1 out k,
  step mpi junk w o = Some (w1, out) ->
  (match o with
   | OSetType k' _ | OGetType k' | OSetEager k' _ | OGetEager k' | OSetStats k' _ | OGetStats k' | OGetComm k'
   | OSetWidths k' _ _ _ | OGetWidths k' _ _ _ _ _ _ | OSetNr k' _ | OGetNr k' | OSetPk k' _ | OGetPk k'
   | OSetCb k' _ _ | OGetCb k' | ONew k' _ | ODestroy k' => k' <> k
   | _ => True end) ->
  obj w1 k = obj w k.
Proof. exact other_objects_untouched. Qed.
Print Assumptions C20_other_objects_untouched.

Theorem C20_setters_keep_other_fields : forall mpi junk w o w1 out k n,
  step mpi junk w o = Some (w1, out) -> field_op_handle o = Some k -> obj w k = Some n ->
  exists n1, obj w1 k = Some n1 /\
  match o with
  | OSetEager _ _ => n_comm n1 = n_comm n /\ n_type n1 = n_type n /\ n_stats n1 = n_stats n /\ n_data n1 = n_data n
  | OSetStats _ _ => n_comm n1 = n_comm n /\ n_type n1 = n_type n /\ n_eager n1 = n_eager n /\ n_data n1 = n_data n
  | OSetWidths _ _ _ _ | OSetNr _ _ | OSetPk _ _ | OSetCb _ _ _ =>
      n_comm n1 = n_comm n /\ n_type n1 = n_type n /\ n_eager n1 = n_eager n /\ n_stats n1 = n_stats n
  | _ => n1 = n
  end.
Proof. exact setters_keep_other_fields. Qed.
Print Assumptions C20_setters_keep_other_fields.

(* shared-array flavour: a communicator attribute with MPI ... *)
Theorem C20_shmem_mpi : forall junk w comm t w1 o1,
  step true junk w (OShSet comm t) = Some (w1, o1) ->
  o1 = [] /\ shmem_valid t /\ step true junk w1 (OShGet comm) = Some (w1, [t])
  /\ forall c, c <> comm -> step true junk w1 (OShGet c) = (match step true junk w (OShGet c) with Some (_, o) => Some (w1, o) | None => None end).
Proof. exact shmem_roundtrip_mpi. Qed.
Print Assumptions C20_shmem_mpi.

(* ... and the constant SC_SHMEM_BASIC without MPI (recorded finding: the stored value is not read back) *)
Theorem C20_shmem_serial : forall junk w comm t w1 o1,
  step false junk w (OShSet comm t) = Some (w1, o1) ->
  o1 = [] /\ w1 = w /\ step false junk w1 (OShGet comm) = Some (w1, [c20_SC_SHMEM_BASIC]).
Proof. exact shmem_serial. Qed.
Print Assumptions C20_shmem_serial.

Theorem C20_shmem_serial_refuted :
  exists w comm t w1, step false (0, 0) w (OShSet comm t) = Some (w1, []) /\ shmem_valid t
                      /\ step false (0, 0) w1 (OShGet comm) <> Some (w1, [t]).
Proof. exact shmem_serial_refuted. Qed.
Print Assumptions C20_shmem_serial_refuted.

Theorem C20_spacing : forall mpi junk w a b,
  step mpi junk w (OSpacing a b) =
  Some (w, [Z.max 14 (if a <? 0 then 20 else a); Z.max (Z.max 14 (if a <? 0 then 20 else a) + 6) (if b <? 0 then 32 else b)])
  /\ step mpi junk w OSpacing0 = Some (w, [20; 32]).
Proof. exact spacing_columns_spec. Qed.
Print Assumptions C20_spacing.

(* --- hypotheses are satisfiable -------------------------------------------------------------------- *)
Example C20_ex_run :
  run false (7, 9) init_world
      [ONew 0 1; OSetType 0 2; OSetWidths 0 3 5 7; OGetWidths 0 1 0 1 (-7) (-8) (-9); OSetType 0 2; OGetWidths 0 1 1 1 0 0 0;
       OSetType 0 7; OGetNr 0; OGetPk 0; OSetType 0 2; OGetWidths 0 1 1 1 0 0 0; OSetType 0 8; OSetCb 0 11 12; OGetCb 0; OGetComm 0]
  = Some (mkw 3 1024 2 2 2 25 (-1) [(0, mkn 1 8 1024 0 (USuperset 11 12))] [],
          [[]; [0]; []; [3; -8; 7]; [0]; [3; 5; 7]; [0]; [25]; [-1]; [0]; [2; 2; 2]; [0]; []; [11; 12]; [1]]).
Proof. vm_compute. reflexivity. Qed.
