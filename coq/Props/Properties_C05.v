(* C05 - parallel sort yields a globally sorted permutation and keeps per-rank counts.
   Model: C05/PsortModel.v (comparator network of sc_psort_bitonic / sc_merge_bitonic over the global index space,
   owner search, segment loop, peer records with the two Waitsome loops, per-rank program).  The per-rank program and
   the Waitsome loops of the same file are co-simulated against the real code on every run. *)
From Coq Require Import Arith List Bool PeanoNat Permutation ZArith.
From ScV Require Import C05.PsortModel C05.PsortPerm C05.PsortOwner C05.PsortWait C05.PsortDist.
From Coq Require Import Sorted.
From ScV Require Import C05.PsortZeroOne C05.PsortBitonic C05.PsortSorted.
Import ListNotations.

(* (a) permutation and counts: for every count vector (zeros included), every element type, every comparison
   function (no order property is needed) and every local sort that returns a permutation *)
Theorem C05_permutation_counts : forall (A : Type) (gt : A -> A -> bool) (sort : bool -> list A -> list A),
  (forall d l, Permutation (sort d l) l) ->
  forall counts xs, map (@length A) xs = counts ->
  Permutation (concat (psort A gt sort counts xs)) (concat xs) /\
  map (@length A) (psort A gt sort counts xs) = counts.
Proof. exact psort_permutation. Qed.
Print Assumptions C05_permutation_counts.

(* ... and for EVERY list of compare-exchange / local-sort operations, so in particular for the operations any
   subset of the ranks executes in any order *)
Theorem C05_every_network_permutes : forall (A : Type) (gt : A -> A -> bool) (sort : bool -> list A -> list A),
  (forall d l, Permutation (sort d l) l) ->
  forall ops counts xs, map (@length A) xs = counts ->
  Permutation (concat (split_counts A counts (run A gt sort ops (concat xs)))) (concat xs) /\
  map (@length A) (split_counts A counts (run A gt sort ops (concat xs))) = counts.
Proof. exact any_network_permutation. Qed.
Print Assumptions C05_every_network_permutes.

(* (b) owner search: for every initial guess the loop of sc_bsearch_cumulative returns the unique rank whose
   interval of the cumulative offsets contains the position; that rank has elements *)
Theorem C05_owner_search : forall counts pos guess,
  let off := cumul 0 counts in let P := length counts in
  pos < cum off P -> guess < P ->
  let r := bsearch_cumulative (cum off) P pos guess in
  r < P /\ cum off r <= pos < cum off (S r) /\ 0 < nth r counts 0 /\
  (forall r', r' < P -> cum off r' <= pos < cum off (S r') -> r' = r).
Proof. exact psort_owner. Qed.
Print Assumptions C05_owner_search.

(* `guess - 1` (size_t in C) is only evaluated for guess > 0 *)
Theorem C05_owner_search_no_wrap : forall c guess pos, c 0 = 0 -> pos < c guess -> 0 < guess.
Proof. exact owner_search_no_wrap. Qed.
Print Assumptions C05_owner_search_no_wrap.

(* the segment loop: consecutive non-empty segments covering the compared range, each inside one rank on the lower
   and inside one rank on the upper side; every rank computes the same list (so both partners of an exchange agree
   on peer, length and position) *)
Theorem C05_segments : forall counts me lo n2 r,
  let off := cumul 0 counts in
  me < length counts -> lo + n2 + r <= cum off (length counts) ->
  seg_chain (cum off) (length counts) lo (lo + n2) r 0 (segments off me lo n2 r) /\
  forall me', me' < length counts -> segments off me' lo n2 r = segments off me lo n2 r.
Proof. exact segments_correct. Qed.
Print Assumptions C05_segments.

(* (c) the two Waitsome loops: for every legal pair of answer streams (every request index once, non-empty answers,
   any grouping, any interleaving of receive and send completions) the loop ends with all answers consumed, every
   peer record compare-exchanged exactly once and freed exactly once, never before its send completed; if the
   records commute (they do when they cover disjoint parts of the array, C05_peers_commute) the array is the one
   obtained in index order *)
Theorem C05_waitsome_loops : forall (A : Type) (gt : A -> A -> bool) dir me (peers : list (peer A)) l0 ransw sansw,
  let m := length peers in
  legal_answers A peers ransw -> legal_answers A peers sansw ->
  exists l' fl' calls,
    wait_loop A gt (2 * m + 1) dir me peers ransw sansw m m (l0, repeat pflag0 m) [] = Some (l', fl', 0, calls) /\
    length fl' = m /\
    (forall k f, nth_error fl' k = Some f ->
       f_received f = true /\ f_sent f = true /\ f_applied f = 1 /\ f_freed f = 1 /\ f_early f = false) /\
    ((forall l j k, j <> k -> apply_k A gt dir me peers (apply_k A gt dir me peers l j) k
                              = apply_k A gt dir me peers (apply_k A gt dir me peers l k) j) ->
     l' = fold_left (apply_peer A gt dir me) peers l0).
Proof. exact wait_loop_correct. Qed.
Print Assumptions C05_waitsome_loops.

Theorem C05_peers_commute : forall (A : Type) (gt : A -> A -> bool) dir me l (p q : peer A),
  peer_ok A l p -> peer_ok A l q -> disjoint A p q ->
  apply_peer A gt dir me (apply_peer A gt dir me l p) q = apply_peer A gt dir me (apply_peer A gt dir me l q) p.
Proof. exact apply_peer_commute. Qed.
Print Assumptions C05_peers_commute.

(* the two partners of an exchange compute the two outputs of the sequential comparator, element by element;
   the local loop does the same *)
Theorem C05_halves_complementary : forall (A : Type) (gt : A -> A -> bool) dir L H i a b,
  nth_error L i = Some a -> nth_error H i = Some b ->
  nth_error (half_lo A gt dir L H) i = Some (fst (cex A gt dir a b)) /\
  nth_error (half_hi A gt dir L H) i = Some (snd (cex A gt dir a b)).
Proof. exact halves_complementary. Qed.
Print Assumptions C05_halves_complementary.

Theorem C05_local_comparator : forall (A : Type) (gt : A -> A -> bool) dir i j l k a b,
  i <> j -> nth_error l i = Some a -> nth_error l j = Some b ->
  nth_error (ce A gt dir i j l) k =
  if k =? i then Some (fst (cex A gt dir a b)) else if k =? j then Some (snd (cex A gt dir a b)) else nth_error l k.
Proof. exact ce_nth. Qed.
Print Assumptions C05_local_comparator.

(* hypotheses are satisfiable / the model computes *)
Example C05_ex_sorts :
  psort_seq [3;0;2;4;1] [5;3;9;1;7;2;8;4;6;0]%Z = [0;1;2;3;4;5;6;7;8;9]%Z /\
  dist_psort Z Z.gtb zsort [3;0;2;4;1] [[5;3;9];[];[1;7];[2;8;4;6];[0]]%Z = [[0;1;2];[];[3;4];[5;6;7;8];[9]]%Z.
Proof. split; vm_compute; reflexivity. Qed.
Example C05_ex_answers : legal_answers Z (repeat (mkpeer 1 0 0 []) 3) [[2;0];[1]] /\ legal_answers Z (repeat (mkpeer 1 0 0 []) 3) [[1];[0];[2]].
Proof.
  split; (split; [intros a [<-|[<-|H]]; try discriminate; try (destruct H as [<-|[]]; discriminate); destruct H|]).
  - simpl. apply perm_trans with [0;2;1]; [apply perm_swap|apply perm_skip, perm_swap].
  - simpl. apply perm_swap.
Qed.

(* ---- (d) SORTEDNESS of the comparator network --------------------------------------------------------------------
   Setting of all theorems below: `le` is what `compar (a, b) <= 0` means - total and transitive (a total preorder:
   duplicate keys and different elements that compare equal are allowed); `gt_of A le a b = negb (le a b)` is what
   `compar (a, b) > 0` means; `sort` has the contract of qsort as sc_psort calls it (a permutation; ascending with
   compar for dir = true, descending - i.e. ascending for the inverted comparison - for dir = false). *)

(* a monotone map into {false < true} commutes with EVERY list of compare-exchange / local-sort operations; on the
   Boolean side the local sort is the counting sort `sortb` *)
Theorem C05_monotone_map_commutes : forall (A : Type) (le : A -> A -> bool),
  (forall a b, le a b = true \/ le b a = true) ->
  (forall a b c, le a b = true -> le b c = true -> le a c = true) ->
  forall sort : bool -> list A -> list A,
  (forall d l, Permutation (sort d l) l) ->
  (forall l, Sorted (fun a b => le a b = true) (sort true l)) ->
  (forall l, Sorted (fun a b => le b a = true) (sort false l)) ->
  forall f : A -> bool, (forall a b, le a b = true -> f a = true -> f b = true) ->
  forall ops l, map f (run A (gt_of A le) sort ops l) = run bool gtb sortb ops (map f l).
Proof. exact run_map. Qed.
Print Assumptions C05_monotone_map_commutes.

(* the 0-1 principle for this operation language: a list of operations that sorts every 0-1 list of length n sorts
   every list of length n over every total preorder *)
Theorem C05_zero_one_principle : forall (A : Type) (le : A -> A -> bool),
  (forall a b, le a b = true \/ le b a = true) ->
  (forall a b c, le a b = true -> le b c = true -> le a c = true) ->
  forall sort : bool -> list A -> list A,
  (forall d l, Permutation (sort d l) l) ->
  (forall l, Sorted (fun a b => le a b = true) (sort true l)) ->
  (forall l, Sorted (fun a b => le b a = true) (sort false l)) ->
  forall ops l,
  (forall bl : list bool, length bl = length l ->
     StronglySorted (fun a b => leb01 a b = true) (run bool gtb sortb ops bl)) ->
  StronglySorted (fun a b => le a b = true) (run A (gt_of A le) sort ops l).
Proof. exact zero_one_principle. Qed.
Print Assumptions C05_zero_one_principle.

(* the hypotheses on the local sort are satisfiable: the counting sort of 0-1 lists fulfils the contract *)
Example C05_ex_sort_contract :
  (forall d l, Permutation (sortb d l) l) /\
  (forall l, Sorted (fun a b => leb01 a b = true) (sortb true l)) /\
  (forall l, Sorted (fun a b => leb01 b a = true) (sortb false l)).
Proof.
  split; [exact sortb_perm|split; intros l; apply StronglySorted_Sorted; [apply sortb_sorted_asc|apply sortb_sorted_desc]].
Qed.

(* the 0-1 principle in the form that is used for the merge: direction as a parameter (`dirle le d a b` is `le a b`
   for d = true and `le b a` for d = false), and only the monotone images of the given list have to be sorted *)
Theorem C05_zero_one_principle_dir : forall (A : Type) (le : A -> A -> bool),
  (forall a b, le a b = true \/ le b a = true) ->
  (forall a b c, le a b = true -> le b c = true -> le a c = true) ->
  forall sort : bool -> list A -> list A,
  (forall d l, Permutation (sort d l) l) ->
  (forall l, Sorted (fun a b => le a b = true) (sort true l)) ->
  (forall l, Sorted (fun a b => le b a = true) (sort false l)) ->
  forall d ops l,
  (forall f : A -> bool, (forall a b, le a b = true -> f a = true -> f b = true) ->
     StronglySorted (fun a b => dirle leb01 d a b = true) (run bool gtb sortb ops (map f l))) ->
  StronglySorted (fun a b => dirle le d a b = true) (run A (gt_of A le) sort ops l).
Proof. exact zero_one_principle_dir. Qed.
Print Assumptions C05_zero_one_principle_dir.

(* the half-cleaner (first loop level of sc_merge_bitonic for n = 2m) on a cyclically bitonic 0-1 sequence g of length
   2m (positions [a, b) carry negb c, the others c): one half becomes constant, the other one is bitonic again, and the
   constant half is on the right side for the direction d *)
Theorem C05_half_cleaner : forall (d c : bool) (a b m : nat) (g : nat -> bool),
  a <= b <= 2 * m ->
  (forall i, i < 2 * m -> g i = xorb c ((a <=? i) && (i <? b))) ->
  let L := fun i => lowv d (g i) (g (i + m)) in
  let U := fun i => highv d (g i) (g (i + m)) in
  ((forall i, i < m -> L i = negb d) /\
   exists c' a' b', forall i, i < m -> U i = xorb c' ((a' <=? i) && (i <? b'))) \/
  ((exists c' a' b', forall i, i < m -> L i = xorb c' ((a' <=? i) && (i <? b'))) /\
   forall i, i < m -> U i = d).
Proof. exact hc_main. Qed.
Print Assumptions C05_half_cleaner.

(* (3) the power-of-two merge (fuel and n as sc_psort_bitonic passes them) sorts every cyclically bitonic 0-1 list *)
Theorem C05_merge_pow2_sorts_bitonic : forall d k (s : list bool), length s = 2 ^ k ->
  (exists c a b, forall i, i < length s -> nth i s false = xorb c ((a <=? i) && (i <? b))) ->
  StronglySorted (fun x y => dirle leb01 d x y = true) (run bool gtb sortb (merge_ops (2 ^ k) 0 (2 ^ k) d) s).
Proof. exact merge_pow2_sorted. Qed.
Print Assumptions C05_merge_pow2_sorts_bitonic.

(* (2) the merge for ARBITRARY n sorts every 0-1 list of the form d..d (negb d)..(negb d) d..d, i.e. (d = true)
   descending-then-ascending, wherever the two changes are *)
Theorem C05_merge_any_n_sorts_01 : forall d (s : list bool) a b,
  (forall i, i < length s -> nth i s false = xorb d ((a <=? i) && (i <? b))) ->
  StronglySorted (fun x y => dirle leb01 d x y = true)
                 (run bool gtb sortb (merge_ops (length s) 0 (length s) d) s).
Proof. exact merge_any_sorted. Qed.
Print Assumptions C05_merge_any_n_sorts_01.

(* ... and over arbitrary elements: sc_merge_bitonic on n elements, n arbitrary, sorts in direction d every list that
   consists of a part sorted against d followed by a part sorted in direction d (of any two lengths) *)
Theorem C05_merge_sorts : forall (A : Type) (le : A -> A -> bool),
  (forall a b, le a b = true \/ le b a = true) ->
  (forall a b c, le a b = true -> le b c = true -> le a c = true) ->
  forall sort : bool -> list A -> list A,
  (forall d l, Permutation (sort d l) l) ->
  (forall l, Sorted (fun a b => le a b = true) (sort true l)) ->
  (forall l, Sorted (fun a b => le b a = true) (sort false l)) ->
  forall d (l1 l2 : list A),
  StronglySorted (fun a b => dirle le (negb d) a b = true) l1 ->
  StronglySorted (fun a b => dirle le d a b = true) l2 ->
  let n := length (l1 ++ l2) in
  StronglySorted (fun a b => dirle le d a b = true) (run A (gt_of A le) sort (merge_ops n 0 n d) (l1 ++ l2)).
Proof. exact merge_sorts. Qed.
Print Assumptions C05_merge_sorts.

(* the network of sc_psort sorts every 0-1 list, for every count vector *)
Theorem C05_network_sorts_01 : forall counts (bl : list bool), length bl = fold_right Nat.add 0 counts ->
  StronglySorted (fun x y => leb01 x y = true) (run bool gtb sortb (psort_ops counts) bl).
Proof. exact psort_ops_sorted_bool. Qed.
Print Assumptions C05_network_sorts_01.

(* THE SORTEDNESS THEOREM: for every count vector (zeros included), every element type, every total preorder and every
   local sort with the contract of qsort, the concatenation of the local arrays after sc_psort (sequential reference
   `psort` = the comparator network run in program order) is sorted *)
Theorem C05_sorted : forall (A : Type) (le : A -> A -> bool),
  (forall a b, le a b = true \/ le b a = true) ->
  (forall a b c, le a b = true -> le b c = true -> le a c = true) ->
  forall sort : bool -> list A -> list A,
  (forall d l, Permutation (sort d l) l) ->
  (forall l, Sorted (fun a b => le a b = true) (sort true l)) ->
  (forall l, Sorted (fun a b => le b a = true) (sort false l)) ->
  forall counts xs, map (@length A) xs = counts ->
  StronglySorted (fun a b => le a b = true) (concat (psort A (gt_of A le) sort counts xs)).
Proof. exact psort_sorted. Qed.
Print Assumptions C05_sorted.

(* adjacent-pairs forms of the same statement *)
Theorem C05_sorted_adjacent : forall (A : Type) (le : A -> A -> bool),
  (forall a b, le a b = true \/ le b a = true) ->
  (forall a b c, le a b = true -> le b c = true -> le a c = true) ->
  forall sort : bool -> list A -> list A,
  (forall d l, Permutation (sort d l) l) ->
  (forall l, Sorted (fun a b => le a b = true) (sort true l)) ->
  (forall l, Sorted (fun a b => le b a = true) (sort false l)) ->
  forall counts xs, map (@length A) xs = counts ->
  Sorted (fun a b => le a b = true) (concat (psort A (gt_of A le) sort counts xs)) /\
  forall i a b, nth_error (concat (psort A (gt_of A le) sort counts xs)) i = Some a ->
                nth_error (concat (psort A (gt_of A le) sort counts xs)) (S i) = Some b -> le a b = true.
Proof. exact psort_sorted_adjacent. Qed.
Print Assumptions C05_sorted_adjacent.

(* sorted + permutation + counts in one statement: the text of the property for the sequential reference *)
Theorem C05_sorted_permutation_counts : forall (A : Type) (le : A -> A -> bool),
  (forall a b, le a b = true \/ le b a = true) ->
  (forall a b c, le a b = true -> le b c = true -> le a c = true) ->
  forall sort : bool -> list A -> list A,
  (forall d l, Permutation (sort d l) l) ->
  (forall l, Sorted (fun a b => le a b = true) (sort true l)) ->
  (forall l, Sorted (fun a b => le b a = true) (sort false l)) ->
  forall counts xs, map (@length A) xs = counts ->
  StronglySorted (fun a b => le a b = true) (concat (psort A (gt_of A le) sort counts xs)) /\
  Permutation (concat (psort A (gt_of A le) sort counts xs)) (concat xs) /\
  map (@length A) (psort A (gt_of A le) sort counts xs) = counts.
Proof. exact psort_correct. Qed.
Print Assumptions C05_sorted_permutation_counts.

(* the same with the parameter of the model, gt a b = (compar (a, b) > 0): never a > b and b > a, and "not greater" is
   transitive (compar is a total preorder); the output has no pair i < j with out[i] > out[j] *)
Theorem C05_sorted_gt : forall (A : Type) (gt : A -> A -> bool),
  (forall a b, gt a b = false \/ gt b a = false) ->
  (forall a b c, gt a b = false -> gt b c = false -> gt a c = false) ->
  forall sort : bool -> list A -> list A,
  (forall d l, Permutation (sort d l) l) ->
  (forall l, Sorted (fun a b => gt a b = false) (sort true l)) ->
  (forall l, Sorted (fun a b => gt b a = false) (sort false l)) ->
  forall counts xs, map (@length A) xs = counts ->
  StronglySorted (fun a b => gt a b = false) (concat (psort A gt sort counts xs)).
Proof. exact psort_sorted_gt. Qed.
Print Assumptions C05_sorted_gt.

(* the instance that the check compares with the real sc_psort on every run (integer keys, Z.gtb, insertion sort):
   all hypotheses above are satisfiable, and `psort_seq` returns a sorted list *)
Theorem C05_psort_seq_sorted : forall counts (g : list Z), length g = fold_right Nat.add 0 counts ->
  StronglySorted Z.le (psort_seq counts g).
Proof. exact psort_seq_sorted. Qed.
Print Assumptions C05_psort_seq_sorted.

(* ---- (e) COMPOSITION: the distributed execution computes the arrays of the sequential comparator network -------------
   `dist_psort` (PsortModel.v): all ranks in rounds; in one merge step every participating rank runs loop 2 on the
   segments with both ends on the rank and applies one peer record per remote segment, the receive buffer being the
   partner's segment as it was before the round.  `dist_psort_w` (PsortComposeWait.v): the same with loop 3 executed by
   the two Waitsome loops (`wait_loop`), the answers of the Waitsome calls being given by an arbitrary oracle W
   (indexed by the position of the sc_merge_bitonic call in the recursion tree, the rank and the number of requests). *)
From ScV Require Import C05.PsortCompose C05.PsortComposeWait.

(* one round of the distributed merge = the half-cleaner of the network (for every rank count, count vector incl.
   zeros, every n >= 2 - not only powers of two - and every position of the range) *)
Theorem C05_dist_merge_step_is_halfcleaner : forall (A : Type) (gt : A -> A -> bool) (sort : bool -> list A -> list A)
  counts dir lo n (g : list A),
  2 <= n -> lo + n <= cum (cumul 0 counts) (length counts) -> length g = cum (cumul 0 counts) (length counts) ->
  dist_merge_step A gt dir (cumul 0 counts) lo n g = run A gt sort (halfclean_ops lo (n2_of n) (n - n2_of n) dir) g.
Proof. exact dist_merge_step_eq. Qed.
Print Assumptions C05_dist_merge_step_is_halfcleaner.

(* THE COMPOSITION THEOREM: for every element type, every comparison (no order property needed) and every local sort
   that keeps the length, the distributed rounds compute exactly the arrays of the sequential reference *)
Theorem C05_dist_equals_seq : forall (A : Type) (gt : A -> A -> bool) (sort : bool -> list A -> list A),
  (forall d l, length (sort d l) = length l) ->
  forall counts xs, map (@length A) xs = counts ->
  dist_psort A gt sort counts xs = psort A gt sort counts xs.
Proof. exact dist_psort_eq. Qed.
Print Assumptions C05_dist_equals_seq.

(* peer records over disjoint parts commute on EVERY array (C05_peers_commute without the length condition): the form of
   the hypothesis of C05_waitsome_loops *)
Theorem C05_peers_commute_every_array : forall (A : Type) (gt : A -> A -> bool) dir me (l : list A) (p q : peer A),
  length (p_buf p) = p_len p -> length (p_buf q) = p_len q -> disjoint A p q ->
  apply_peer A gt dir me (apply_peer A gt dir me l p) q = apply_peer A gt dir me (apply_peer A gt dir me l q) p.
Proof. exact apply_peer_commute_gen. Qed.
Print Assumptions C05_peers_commute_every_array.

(* one rank, one merge step, EVERY completion order: for every legal pair of answer streams of the two Waitsome loops
   (C05_waitsome_loops) the loops end with all answers consumed, every peer record compare-exchanged and freed exactly
   once and never before its send completed, in the local array of `rank_merge_step` (records applied in index order) *)
Theorem C05_rank_step_every_completion_order : forall (A : Type) (gt : A -> A -> bool) counts dir me lo n
  (g l : list A) ransw sansw,
  let off := cumul 0 counts in
  me < length counts -> 2 <= n -> lo + n <= cum off (length counts) -> length g = cum off (length counts) ->
  let my_lo := cum off me in
  let n2 := n2_of n in
  let segs := segments off me lo n2 (n - n2) in
  let peers := map (fun s => mkpeer (ps_rank s) (ps_len s) (ps_start s) (slice A g (ps_remote s) (ps_len s)))
                   (rank_pspecs me my_lo lo (lo + n2) segs) in
  let m := length peers in
  legal_stream m ransw -> legal_stream m sansw ->
  exists fl' calls,
    wait_loop A gt (2 * m + 1) dir me peers ransw sansw m m
              (rank_local A gt dir me my_lo lo (lo + n2) segs l, repeat pflag0 m) [] =
    Some (rank_merge_step A gt dir off me lo n (fun s => slice A g (ps_remote s) (ps_len s)) l, fl', 0, calls) /\
    length fl' = m /\
    (forall k f, nth_error fl' k = Some f ->
       f_received f = true /\ f_sent f = true /\ f_applied f = 1 /\ f_freed f = 1 /\ f_early f = false).
Proof. exact rank_step_any_order. Qed.
Print Assumptions C05_rank_step_every_completion_order.

(* THE COMPOSITION THEOREM WITH THE WAITSOME LOOPS: whatever legal answers (every request index once, non-empty answers,
   any grouping and order, independently for receives and sends) the Waitsome calls of all ranks in all merge steps
   return, the distributed execution ends - no answer missing, none left over - in the arrays of the sequential
   reference *)
Theorem C05_dist_waitsome_equals_seq : forall (A : Type) (gt : A -> A -> bool) (sort : bool -> list A -> list A),
  (forall d l, length (sort d l) = length l) ->
  forall counts W, legal_oracle W ->
  forall xs, map (@length A) xs = counts ->
  dist_psort_w A gt sort W counts xs = Some (psort A gt sort counts xs).
Proof. exact dist_psort_w_eq. Qed.
Print Assumptions C05_dist_waitsome_equals_seq.

(* the property for the distributed execution.  Permutation and counts: no order property needed *)
Theorem C05_dist_permutation_counts : forall (A : Type) (gt : A -> A -> bool) (sort : bool -> list A -> list A),
  (forall d l, Permutation (sort d l) l) ->
  forall counts xs, map (@length A) xs = counts ->
  Permutation (concat (dist_psort A gt sort counts xs)) (concat xs) /\
  map (@length A) (dist_psort A gt sort counts xs) = counts.
Proof. exact dist_psort_permutation. Qed.
Print Assumptions C05_dist_permutation_counts.

(* ... sorted, permutation, counts: under the hypotheses of C05_sorted *)
Theorem C05_dist_sorted_permutation_counts : forall (A : Type) (le : A -> A -> bool),
  (forall a b, le a b = true \/ le b a = true) ->
  (forall a b c, le a b = true -> le b c = true -> le a c = true) ->
  forall sort : bool -> list A -> list A,
  (forall d l, Permutation (sort d l) l) ->
  (forall l, Sorted (fun a b => le a b = true) (sort true l)) ->
  (forall l, Sorted (fun a b => le b a = true) (sort false l)) ->
  forall counts xs, map (@length A) xs = counts ->
  StronglySorted (fun a b => le a b = true) (concat (dist_psort A (gt_of A le) sort counts xs)) /\
  Permutation (concat (dist_psort A (gt_of A le) sort counts xs)) (concat xs) /\
  map (@length A) (dist_psort A (gt_of A le) sort counts xs) = counts.
Proof. exact dist_psort_correct. Qed.
Print Assumptions C05_dist_sorted_permutation_counts.

(* ... and for EVERY order in which the outstanding sends and receives complete *)
Theorem C05_dist_waitsome_sorted_permutation_counts : forall (A : Type) (le : A -> A -> bool),
  (forall a b, le a b = true \/ le b a = true) ->
  (forall a b c, le a b = true -> le b c = true -> le a c = true) ->
  forall sort : bool -> list A -> list A,
  (forall d l, Permutation (sort d l) l) ->
  (forall l, Sorted (fun a b => le a b = true) (sort true l)) ->
  (forall l, Sorted (fun a b => le b a = true) (sort false l)) ->
  forall W counts xs, legal_oracle W -> map (@length A) xs = counts ->
  exists ys, dist_psort_w A (gt_of A le) sort W counts xs = Some ys /\
    ys = psort A (gt_of A le) sort counts xs /\
    StronglySorted (fun a b => le a b = true) (concat ys) /\
    Permutation (concat ys) (concat xs) /\
    map (@length A) ys = counts.
Proof. exact dist_psort_w_correct. Qed.
Print Assumptions C05_dist_waitsome_sorted_permutation_counts.

(* The same WITHOUT an oracle, as a relation: `dist_psort_r counts xs ys` holds if ys is the result of SOME execution in
   which every Waitsome loop (of every rank, in every merge step) is driven by some legal pair of answer streams, chosen
   independently everywhere.  Every execution ends in the arrays of the sequential reference, and there is one. *)
Theorem C05_dist_every_execution_equals_seq : forall (A : Type) (gt : A -> A -> bool) (sort : bool -> list A -> list A),
  (forall d l, length (sort d l) = length l) ->
  forall counts xs ys, map (@length A) xs = counts ->
  dist_psort_r A gt sort counts xs ys <-> ys = psort A gt sort counts xs.
Proof. exact dist_psort_r_iff. Qed.
Print Assumptions C05_dist_every_execution_equals_seq.

(* THE TEXT OF THE PROPERTY for the distributed algorithm: an execution exists, and EVERY execution - every order in which
   the outstanding sends and receives complete - yields a globally sorted permutation with every rank's count kept *)
Theorem C05_dist_every_execution_sorted_permutation_counts : forall (A : Type) (le : A -> A -> bool),
  (forall a b, le a b = true \/ le b a = true) ->
  (forall a b c, le a b = true -> le b c = true -> le a c = true) ->
  forall sort : bool -> list A -> list A,
  (forall d l, Permutation (sort d l) l) ->
  (forall l, Sorted (fun a b => le a b = true) (sort true l)) ->
  (forall l, Sorted (fun a b => le b a = true) (sort false l)) ->
  forall counts xs, map (@length A) xs = counts ->
  (exists ys, dist_psort_r A (gt_of A le) sort counts xs ys) /\
  forall ys, dist_psort_r A (gt_of A le) sort counts xs ys ->
    ys = psort A (gt_of A le) sort counts xs /\
    StronglySorted (fun a b => le a b = true) (concat ys) /\
    Permutation (concat ys) (concat xs) /\
    map (@length A) ys = counts.
Proof. exact dist_psort_r_correct. Qed.
Print Assumptions C05_dist_every_execution_sorted_permutation_counts.

(* the hypothesis on the oracle is satisfiable (receives complete one by one in reverse order, all sends are reported
   by one call), and the model computes with it *)
Example C05_ex_legal_oracle : legal_oracle ex_oracle.
Proof. exact ex_oracle_legal. Qed.
Example C05_ex_dist_waitsome :
  dist_psort_w Z Z.gtb zsort ex_oracle [3;0;2;4;1] [[5;3;9];[];[1;7];[2;8;4;6];[0]]%Z
  = Some [[0;1;2];[];[3;4];[5;6;7;8];[9]]%Z /\
  dist_psort_w Z Z.gtb zsort (fun _ _ m => (map (fun i => [i]) (seq 0 m), [])) [2;2] [[3;1];[2;0]]%Z = None.
Proof. split; vm_compute; reflexivity. Qed.

(* ==== EVERY SCHEDULE of the per-rank message-passing programs (C05/PsortSched.v) ========================================
   The statements above are about the sequential network `psort` and about the round semantics `dist_psort*`.  The
   statements below are about the SYSTEM OF THE P PER-RANK PROGRAMS `psort_prog` (C05/PsortModel.v: the program that is
   extracted and co-simulated against the traces of the real sc_psort on every run, with the tags SC_TAG_PSORT_LO / _HI)
   under the interleaving semantics of MPI/SemPosted.v: global state = one program per rank + FIFO channels per
   (source, destination, tag); a rank may issue its next Isend although Irecvs posted before it are still pending, and
   complete posted receives in any order (loop 1 of sc_merge_bitonic posts, per peer record, Irecv and then Isend; all
   requests are completed later by the Waitsome loops.  With blocking receives that order is stuck:
   C05_ex_posting_order_blocks).
   `run_p n s0 f`: a schedule of n steps from s0 to f.  `terminal_for_p s0 f n` (SemPosted.v): EVERY run of m steps
   from s0 has m <= n, can be completed to f in n - m further steps, IS f (and m = n) if it is complete, and its last
   state is never stuck.
   Print Assumptions: functional_extensionality_dep (Coq standard library; equality of global states in MPI/Sem.v). *)
From ScV Require Import MPI.Prog MPI.Sem MPI.SemFrame MPI.SemPosted Gen.Consts C05.PsortSched C05.PsortSchedExec.

(* the co-simulated program is the integer instance of the program over an arbitrary element type - by conversion *)
Theorem C05_psort_prog_is_instance : forall tag_lo tag_hi counts me mine,
  psort_prog tag_lo tag_hi counts me mine =
  psort_prog_g Z Z.gtb zsort (fun l => l) (fun m => m) tag_lo tag_hi counts me mine.
Proof. exact psort_prog_is_instance. Qed.
Print Assumptions C05_psort_prog_is_instance.

(* one merge step of all ranks is one communication window: the keys (peer, tag) of the sends and of the receives of a
   rank are duplicate free (two segments of a step never have the same pair of owners, because segments are maximal),
   and rank a sends to d with tag t iff d receives from a with tag t *)
Theorem C05_step_matching : forall (tag_lo tag_hi : Z) counts lo n a d t,
  2 <= n -> lo + n <= cum (cumul 0 counts) (length counts) -> a < length counts -> d < length counts ->
  ((exists ps, In ps (specs counts lo n a) /\ ps_rank ps = d /\ (if ps_lo_side ps then tag_lo else tag_hi) = t) <->
   (exists ps', In ps' (specs counts lo n d) /\ ps_rank ps' = a /\ (if ps_lo_side ps' then tag_hi else tag_lo) = t)) /\
  NoDup (map pkey (specs counts lo n a)).
Proof. exact step_matching. Qed.
Print Assumptions C05_step_matching.

(* THE EVERY-SCHEDULE THEOREM for the literal, co-simulated programs: for every count vector (zeros included) and all
   local arrays, the system of the P programs with empty channels has a run to the state in which rank r has returned
   the r-th array of `psort counts xs` (the sequential network = the round semantics, C05_dist_equals_seq) and all
   channels are empty; every schedule ends there; no reachable state is stuck *)
Theorem C05_every_schedule : forall counts (xs : list (list Z)), map (@length Z) xs = counts ->
  let P := Z.of_nat (length counts) in
  let s0 := mkgs (fun r => if ((0 <=? r) && (r <? P))%Z
                           then psort_prog c_SC_TAG_PSORT_LO c_SC_TAG_PSORT_HI counts (Z.to_nat r) (nth (Z.to_nat r) xs [])
                           else Ret [])
                 (fun _ _ _ => []) in
  let f := mkgs (fun r => if ((0 <=? r) && (r <? P))%Z
                          then Ret (nth (Z.to_nat r) (psort Z Z.gtb zsort counts xs) [])
                          else Ret [])
                (fun _ _ _ => []) in
  exists n, run_p n s0 f /\ final f /\ terminal_for_p s0 f n.
Proof.
  intros counts xs H.
  exact (psort_prog_every_schedule c_SC_TAG_PSORT_LO c_SC_TAG_PSORT_HI counts xs ltac:(discriminate) H).
Qed.
Print Assumptions C05_every_schedule.

(* ... combined with C05_sorted / C05_permutation_counts: THE TEXT OF THE PROPERTY for the message-passing system.  Every
   schedule ends in the state f in which the ranks have returned arrays ys that are globally sorted, a permutation of
   the input, with every rank's count kept *)
Theorem C05_every_schedule_sorted_permutation_counts : forall counts (xs : list (list Z)), map (@length Z) xs = counts ->
  let P := Z.of_nat (length counts) in
  let s0 := mkgs (fun r => if ((0 <=? r) && (r <? P))%Z
                           then psort_prog c_SC_TAG_PSORT_LO c_SC_TAG_PSORT_HI counts (Z.to_nat r) (nth (Z.to_nat r) xs [])
                           else Ret [])
                 (fun _ _ _ => []) in
  exists (n : nat) (f : gs) (ys : list (list Z)),
    run_p n s0 f /\ final f /\ terminal_for_p s0 f n /\
    (forall me, me < length counts -> pr f (Z.of_nat me) = Ret (nth me ys [])) /\
    (forall a d t, ch f a d t = []) /\
    ys = psort Z Z.gtb zsort counts xs /\
    StronglySorted Z.le (concat ys) /\
    Permutation (concat ys) (concat xs) /\
    map (@length Z) ys = counts.
Proof.
  intros counts xs H.
  exact (psort_prog_every_schedule_sorted c_SC_TAG_PSORT_LO c_SC_TAG_PSORT_HI counts xs ltac:(discriminate) H).
Qed.
Print Assumptions C05_every_schedule_sorted_permutation_counts.

(* THE SAME FOR EVERY ELEMENT TYPE, comparison, length-preserving local sort, payload representation with
   dec (enc l) = l, and any two different tags: the program `psort_prog_g` (PsortSched.v) is `psort_prog` with
   A, gt, sort, enc, dec in place of Z, Z.gtb, zsort, identity, identity *)
Theorem C05_every_schedule_any_element_type : forall (A : Type) (gt : A -> A -> bool) (sort : bool -> list A -> list A),
  (forall d l, length (sort d l) = length l) ->
  forall (enc : list A -> payload) (dec : payload -> list A), (forall l, dec (enc l) = l) ->
  forall tag_lo tag_hi : Z, tag_lo <> tag_hi ->
  forall counts xs, map (@length A) xs = counts ->
  let P := Z.of_nat (length counts) in
  let s0 := mkgs (fun r => if ((0 <=? r) && (r <? P))%Z
                           then psort_prog_g A gt sort enc dec tag_lo tag_hi counts (Z.to_nat r) (nth (Z.to_nat r) xs [])
                           else Ret [])
                 (fun _ _ _ => []) in
  let f := mkgs (fun r => if ((0 <=? r) && (r <? P))%Z
                          then Ret (enc (nth (Z.to_nat r) (psort A gt sort counts xs) []))
                          else Ret [])
                (fun _ _ _ => []) in
  exists n, run_p n s0 f /\ final f /\ terminal_for_p s0 f n.
Proof. exact psort_every_schedule. Qed.
Print Assumptions C05_every_schedule_any_element_type.

Theorem C05_every_schedule_sorted_permutation_counts_any_element_type : forall (A : Type) (le : A -> A -> bool),
  (forall a b, le a b = true \/ le b a = true) ->
  (forall a b c, le a b = true -> le b c = true -> le a c = true) ->
  forall sort : bool -> list A -> list A,
  (forall d l, Permutation (sort d l) l) ->
  (forall l, Sorted (fun a b => le a b = true) (sort true l)) ->
  (forall l, Sorted (fun a b => le b a = true) (sort false l)) ->
  forall (enc : list A -> payload) (dec : payload -> list A), (forall l, dec (enc l) = l) ->
  forall tag_lo tag_hi : Z, tag_lo <> tag_hi ->
  forall counts xs, map (@length A) xs = counts ->
  let gt := gt_of A le in
  let P := Z.of_nat (length counts) in
  let s0 := mkgs (fun r => if ((0 <=? r) && (r <? P))%Z
                           then psort_prog_g A gt sort enc dec tag_lo tag_hi counts (Z.to_nat r) (nth (Z.to_nat r) xs [])
                           else Ret [])
                 (fun _ _ _ => []) in
  exists (n : nat) (f : gs) (ys : list (list A)),
    run_p n s0 f /\ final f /\ terminal_for_p s0 f n /\
    (forall me, me < length counts -> pr f (Z.of_nat me) = Ret (enc (nth me ys []))) /\
    (forall a d t, ch f a d t = []) /\
    ys = psort A gt sort counts xs /\
    StronglySorted (fun a b => le a b = true) (concat ys) /\
    Permutation (concat ys) (concat xs) /\
    map (@length A) ys = counts.
Proof. exact psort_every_schedule_sorted. Qed.
Print Assumptions C05_every_schedule_sorted_permutation_counts_any_element_type.

(* the WINDOW FORM of the programs (every merge step: all sends, then all receives, then the computation -
   `psort_prog_w`; the literal program is `nbeq`-related to it: psort_prog_window_form) under the BLOCKING semantics of
   MPI/Sem.v (every Recv is an MPI_Recv): a run to the same final state exists and every schedule of Sem.v ends there *)
Theorem C05_every_schedule_window_form_blocking : forall (A : Type) (gt : A -> A -> bool) (sort : bool -> list A -> list A),
  (forall d l, length (sort d l) = length l) ->
  forall (enc : list A -> payload) (dec : payload -> list A), (forall l, dec (enc l) = l) ->
  forall tag_lo tag_hi : Z, tag_lo <> tag_hi ->
  forall counts xs, map (@length A) xs = counts ->
  let P := Z.of_nat (length counts) in
  let s0 := mkgs (fun r => if ((0 <=? r) && (r <? P))%Z
                           then psort_prog_w A gt sort enc dec tag_lo tag_hi counts (Z.to_nat r) (nth (Z.to_nat r) xs [])
                           else Ret [])
                 (fun _ _ _ => []) in
  let f := mkgs (fun r => if ((0 <=? r) && (r <? P))%Z
                          then Ret (enc (nth (Z.to_nat r) (psort A gt sort counts xs) []))
                          else Ret [])
                (fun _ _ _ => []) in
  exists n, Sem.run n s0 f /\ SemFrame.terminal_for s0 f n.
Proof. exact psort_w_every_schedule. Qed.
Print Assumptions C05_every_schedule_window_form_blocking.

(* an instance: five ranks, one of them without elements - every schedule ends in these arrays *)
Example C05_ex_every_schedule :
  let s0 := mkgs (fun r => if ((0 <=? r) && (r <? 5))%Z
                           then psort_prog c_SC_TAG_PSORT_LO c_SC_TAG_PSORT_HI [3;0;2;4;1] (Z.to_nat r)
                                           (nth (Z.to_nat r) [[5;3;9];[];[1;7];[2;8;4;6];[0]]%Z [])
                           else Ret [])
                 (fun _ _ _ => []) in
  let f := mkgs (fun r => if ((0 <=? r) && (r <? 5))%Z
                          then Ret (nth (Z.to_nat r) [[0;1;2];[];[3;4];[5;6;7;8];[9]]%Z [])
                          else Ret [])
                (fun _ _ _ => []) in
  exists n, run_p n s0 f /\ final f /\ terminal_for_p s0 f n.
Proof.
  assert (E : psort Z Z.gtb zsort [3;0;2;4;1] [[5;3;9];[];[1;7];[2;8;4;6];[0]]%Z = [[0;1;2];[];[3;4];[5;6;7;8];[9]]%Z)
    by (vm_compute; reflexivity).
  pose proof (C05_every_schedule [3;0;2;4;1] [[5;3;9];[];[1;7];[2;8;4;6];[0]]%Z eq_refl) as H.
  cbv zeta in H. rewrite E in H. exact H.
Qed.

(* negative control: read with BLOCKING receives (MPI/Sem.v) the literal posting order Irecv; Isend is stuck from the
   start as soon as two ranks exchange a segment *)
Example C05_ex_posting_order_blocks :
  let s0 := zstart 293 294 [1; 1] [[2]; [1]]%Z in (forall x s', ~ step s0 x s') /\ ~ final s0.
Proof. exact psort_posting_order_blocks. Qed.

(* the executable scheduler of C05/PsortSchedExec.v (a test harness for step_p, not part of the proofs): three
   pseudo-random schedules of the five-rank instance end, after the same number of steps, with no move left, all
   channels empty and the sorted arrays; so do all count vectors of three ranks (counts <= 2) and two ranks (counts <= 4) *)
Example C05_ex_executable_scheduler :
  map (fun seed => let '(s, n) := exec 2000 seed (estart 293 294 [3; 0; 2; 4; 1] [[5; 3; 9]; []; [1; 7]; [2; 8; 4; 6]; [0]]%Z) in
                   (outs s, all_empty s, moves s, n)) [1; 2; 12345]%Z
  = repeat ([Some [0; 1; 2]; Some []; Some [3; 4]; Some [5; 6; 7; 8]; Some [9]]%Z, true, [], 72) 3 /\
  forallb (fun cv => forallb (fun seed => test seed cv (split_counts Z cv data)) [3; 777]%Z)
          (all_counts 3 2 ++ all_counts 2 4) = true.
Proof. exact (conj exec_five_ranks exec_small_instances). Qed.

(* ===== tie T1: the model computes what the definitions GENERATED from /repo/src/sc_sort.c compute ============================ *)
(* Gen/PsortC05.v is regenerated from the working tree on every run (tools/c2g/groups_C05.py); an edit of the arithmetic in
   sc_sort.c changes a generated definition and the statements below stop checking.  zn = Z.of_nat, B62 = 2^62, B31 = 2^31. *)
From Coq Require Import Lia.
From ScV Require Import Base.CInt Gen.PsortC05 C05.PsortGen.
Local Open Scope Z_scope.


(* `for (k = 1; k < n;) k = k << 1; n2 = k >> 1`: the generated loop returns the model's n2_of, for every n below 2^62 *)
Theorem C05_gen_n2 : forall n, zn n < B62 -> merge_n2 (S n) (zn n) = Some (zn (n2_of n)).
Proof. exact gen_n2. Qed.
Print Assumptions C05_gen_n2.

(* the generated loop of sc_bsearch_cumulative (incl. the size_t `guess - 1`) = the model's owner search, step for step, for every cumulative array that starts at 0 *)
Theorem C05_gen_owner_loop : forall c pos, c O = O -> (forall i, zn (c i) < B62) -> zn pos < B62 ->
  forall fuel low high guess M, zn low <= M -> zn high <= M -> zn guess <= M -> M + zn fuel < B62 ->
  loop_guess (sc_bsearch_cumulative_loop1 fuel (zc c) (zn pos) (zn guess) (zn high) (zn low)) =
  option_map zn (owner_search_opt fuel c low high guess pos).
Proof. exact gen_owner_loop. Qed.
Print Assumptions C05_gen_owner_loop.

(* the whole generated sc_bsearch_cumulative = the model's search started with low = 0, high = nmemb - 1 *)
Theorem C05_gen_bsearch : forall c nmemb pos guess fuel, c O = O -> (forall i, zn (c i) < B62) -> zn pos < B62 ->
  (0 < nmemb)%nat -> (guess < nmemb)%nat -> zn nmemb + zn fuel < B62 ->
  sc_bsearch_cumulative fuel (zc c) (zn nmemb) (zn pos) (zn guess) =
  option_map zn (owner_search_opt fuel c 0 (nmemb - 1) guess pos).
Proof. exact gen_bsearch. Qed.
Print Assumptions C05_gen_bsearch.

(* whenever the generated function returns (fuel = nmemb, as in the model) it returns the model's bsearch_cumulative *)
Theorem C05_gen_bsearch_model : forall c nmemb pos guess r, c O = O -> (forall i, zn (c i) < B62) -> zn pos < B62 ->
  (0 < nmemb)%nat -> (guess < nmemb)%nat -> 2 * zn nmemb < B62 ->
  sc_bsearch_cumulative nmemb (zc c) (zn nmemb) (zn pos) (zn guess) = Some r ->
  r = zn (bsearch_cumulative c nmemb pos guess).
Proof. exact gen_bsearch_model. Qed.
Print Assumptions C05_gen_bsearch_model.

(* the guard of sc_merge_bitonic is the model's `participates` *)
Theorem C05_gen_merge_guard : forall off me lo n, merge_guard (zn n) (zn lo) (zn (lo + n)) (zn (cum off me)) (zn (cum off (S me))) = participates off me lo n.
Proof. exact gen_merge_guard. Qed.
Print Assumptions C05_gen_merge_guard.

(* lo_end = lo + n - n2, hi_beg = lo + n2 *)
Theorem C05_gen_merge_ends : forall lo n n2, (n2 <= n)%nat -> zn lo + zn n < B62 ->
  merge_ends (zn lo) (zn n) (zn n2) = (zn (lo + (n - n2)), zn (lo + n2)).
Proof. exact gen_merge_ends. Qed.
Print Assumptions C05_gen_merge_ends.

(* the segment loops run while offset < lo_end - lo *)
Theorem C05_gen_seg_cond : forall lo r offset, zn lo + zn r < B62 ->
  merge_seg_cond1 (zn offset) (zn (lo + r)) (zn lo) = (offset <? r)%nat /\ merge_seg_cond2 (zn offset) (zn (lo + r)) (zn lo) = (offset <? r)%nat.
Proof. exact gen_seg_cond. Qed.
Print Assumptions C05_gen_seg_cond.

(* offset += max_length *)
Theorem C05_gen_seg_next : forall offset m, zn offset + zn m < B62 ->
  merge_seg_next1 (zn offset) (zn m) = zn (offset + m) /\ merge_seg_next2 (zn offset) (zn m) = zn (offset + m).
Proof. exact gen_seg_next. Qed.
Print Assumptions C05_gen_seg_next.

(* one pass of the segment loop: lengths and max_length = SC_MIN (rest, SC_MIN (lo_length, hi_length)) are the model's (segs_loop); the searches get the model's arguments *)
Theorem C05_gen_merge_seg : forall c P lo hi_beg r offset lo_owner hi_owner lo' hi', (forall i, zn (c i) < B62) -> zn lo + zn r < B62 -> zn hi_beg + zn r < B62 -> (offset <= r)%nat ->
  zn P < B31 -> zn lo_owner < B31 -> zn hi_owner < B31 -> zn lo' + 1 < B31 -> zn hi' + 1 < B31 ->
  (lo + offset <= c (S lo'))%nat -> (hi_beg + offset <= c (S hi'))%nat ->
  let lo_length := (c (S lo') - (lo + offset))%nat in
  let hi_length := (c (S hi') - (hi_beg + offset))%nat in
  let max_length := Nat.min (r - offset) (Nat.min lo_length hi_length) in
  merge_seg1 (zc c) (zn lo) (zn hi_beg) (zn (lo + r)) (zn offset) (zn lo_owner) (zn hi_owner) (zn P) (zn lo') (zn hi') =
  (zn lo', zn lo_length, zn hi', zn hi_length, zn max_length,
   zn P, zn (lo + offset), zn lo_owner, zn P, zn (hi_beg + offset), zn hi_owner).
Proof. exact gen_merge_seg. Qed.
Print Assumptions C05_gen_merge_seg.

(* loop 2 of sc_merge_bitonic repeats loop 1's computation *)
Theorem C05_gen_merge_seg2 : merge_seg2 = merge_seg1.
Proof. exact gen_merge_seg2. Qed.
Print Assumptions C05_gen_merge_seg2.

(* the three owner tests (low side / high side / local) are the tests of seg_pspec and rank_local *)
Theorem C05_gen_sides : forall lo_owner hi_owner me, merge_lo_side (zn lo_owner) (zn hi_owner) (zn me) = ((lo_owner =? me)%nat && negb (hi_owner =? me)%nat) /\
  merge_hi_side (zn lo_owner) (zn hi_owner) (zn me) = (negb (lo_owner =? me)%nat && (hi_owner =? me)%nat) /\
  merge_local (zn lo_owner) (zn hi_owner) (zn me) = ((lo_owner =? me)%nat && (hi_owner =? me)%nat).
Proof. exact gen_sides. Qed.
Print Assumptions C05_gen_sides.

(* byte offset of a segment in the local array = the model's element index times the element size *)
Theorem C05_gen_starts : forall pos offset my_lo size, (my_lo <= pos + offset)%nat -> zn pos + zn offset < B62 -> 0 <= size -> zn (pos + offset - my_lo) * size < B62 ->
  merge_lo_start (zn pos) (zn offset) (zn my_lo) size = zn (pos + offset - my_lo) * size /\
  merge_hi_start (zn pos) (zn offset) (zn my_lo) size = zn (pos + offset - my_lo) * size /\
  merge_lo_start_local (zn pos) (zn offset) (zn my_lo) size = zn (pos + offset - my_lo) * size /\
  merge_hi_start_local (zn pos) (zn offset) (zn my_lo) size = zn (pos + offset - my_lo) * size.
Proof. exact gen_starts. Qed.
Print Assumptions C05_gen_starts.

(* message length in bytes *)
Theorem C05_gen_bytes : forall len size, 0 <= size -> zn len * size < B31 ->
  merge_bytes_lo (zn len) size = zn len * size /\ merge_bytes_hi (zn len) size = zn len * size.
Proof. exact gen_bytes. Qed.
Print Assumptions C05_gen_bytes.

(* the tags of the model's per-rank program are the ones the four generated call sites pass (low side: receive HI, send LO; high side: receive LO, send HI) *)
Theorem C05_gen_tags : forall (lo_side : bool) tag_lo tag_hi, (if lo_side then tag_hi else tag_lo) = (if lo_side then merge_lo_recv_tag tag_lo tag_hi else merge_hi_recv_tag tag_lo tag_hi) /\
  (if lo_side then tag_lo else tag_hi) = (if lo_side then merge_lo_send_tag tag_lo tag_hi else merge_hi_send_tag tag_lo tag_hi).
Proof. exact gen_tags. Qed.
Print Assumptions C05_gen_tags.

(* `dir == (compar (lo, hi) > 0)` in all five places = the model's swap_needed, for every comparison function *)
Theorem C05_gen_swap : forall (A : Type) (gt : A -> A -> bool) (dir : bool) (a b : A) cmp, gt a b = (0 <? cmp) ->
  merge_swap_0 (b2z dir) cmp = swap_needed A gt dir a b /\ merge_swap_1 (b2z dir) cmp = swap_needed A gt dir a b /\
  merge_swap_2 (b2z dir) cmp = swap_needed A gt dir a b /\ merge_swap_3 (b2z dir) cmp = swap_needed A gt dir a b /\
  merge_swap_4 (b2z dir) cmp = swap_needed A gt dir a b.
Proof. exact gen_swap. Qed.
Print Assumptions C05_gen_swap.

(* what is copied when the test holds: local exchange through temp; low side takes the partner's element; high side takes the partner's (low) element *)
Theorem C05_gen_moves : forall (dir : bool) cmp lo hi size temp, let sw := Bool.eqb dir (0 <? cmp) in
  merge_move_0 (b2z dir) cmp lo hi size temp = (if sw then (temp, lo, size, lo, hi, size, hi, temp, size) else (0, 0, 0, 0, 0, 0, 0, 0, 0)) /\
  merge_move_1 (b2z dir) cmp lo hi size = (if sw then (lo, hi, size) else (0, 0, 0)) /\
  merge_move_3 (b2z dir) cmp lo hi size = (if sw then (lo, hi, size) else (0, 0, 0)) /\
  merge_move_2 (b2z dir) cmp lo hi size = (if sw then (hi, lo, size) else (0, 0, 0)) /\
  merge_move_4 (b2z dir) cmp lo hi size = (if sw then (hi, lo, size) else (0, 0, 0)).
Proof. exact gen_moves. Qed.
Print Assumptions C05_gen_moves.

(* `rank < peer->prank` decides which half a rank keeps (apply_peer) *)
Theorem C05_gen_remote_lower : forall me prank, merge_remote_lower1 (zn me) (zn prank) = (me <? prank)%nat /\ merge_remote_lower2 (zn me) (zn prank) = (me <? prank)%nat.
Proof. exact gen_remote_lower. Qed.
Print Assumptions C05_gen_remote_lower.

(* sc_merge_bitonic recurses on [lo, lo + n2) and [lo + n2, hi) with the same direction *)
Theorem C05_gen_merge_recurse : forall lo n n2 dir, (n2 <= n)%nat -> zn lo + zn n < B62 ->
  merge_recurse (zn lo) (zn (lo + n)) (zn n2) dir = (zn lo, zn (lo + n2), dir, zn (lo + n2), zn (lo + n2 + (n - n2)), dir).
Proof. exact gen_merge_recurse. Qed.
Print Assumptions C05_gen_merge_recurse.

(* the guard of sc_psort_bitonic is the model's `participates` *)
Theorem C05_gen_psort_guard : forall off me lo n, psort_guard (zn n) (zn lo) (zn (lo + n)) (zn (cum off me)) (zn (cum off (S me))) = participates off me lo n.
Proof. exact gen_psort_guard. Qed.
Print Assumptions C05_gen_psort_guard.

(* `lo >= my_lo && hi <= my_hi` is the model's inside_rank *)
Theorem C05_gen_psort_inside : forall off me lo n, psort_inside (zn lo) (zn (lo + n)) (zn (cum off me)) (zn (cum off (S me))) = inside_rank off lo n me.
Proof. exact gen_psort_inside. Qed.
Print Assumptions C05_gen_psort_inside.

(* sc_psort_bitonic: n / 2, the flipped direction for the first half, the kept one for the second, then the merge of [lo, hi) *)
Theorem C05_gen_psort_recurse : forall lo n (dir : bool), zn lo + zn n < B62 ->
  psort_recurse (zn n) (zn lo) (zn (lo + n)) (b2z dir) =
  (zn lo, zn (lo + n / 2), b2z (negb dir), zn (lo + n / 2), zn (lo + n / 2 + (n - n / 2)), b2z dir, zn lo, zn (lo + n), b2z dir).
Proof. exact gen_psort_recurse. Qed.
Print Assumptions C05_gen_psort_recurse.

(* ---- the comparison function as an ARBITRARY int (C05/PsortIntCmp.v) and the wrappers handed to qsort (generated) ---------------
   `compar` returns any negative / zero / any positive integer (INT_MIN, INT_MAX included); only its sign may be used.
   cmp_valid c: the sign is antisymmetric and "<= 0" is transitive (a consistent comparison function in the sense of the C standard);
   gt_cmp c a b = (0 <? c a b) (the swap test), le_cmp c a b = (c a b <=? 0), dir_cmp c d = c (d = true) / c with the arguments
   swapped (d = false); qsort_contract qs: for a consistent function the result of qs is a permutation whose adjacent elements
   a, b have c a b <= 0. *)
From ScV Require Import C05.PsortIntCmp.

(* swapping the arguments keeps a comparison function consistent, whatever integers it returns *)
Theorem C05_swapped_comparator_valid : forall (A : Type) (c : A -> A -> Z) (d : bool), cmp_valid A c -> cmp_valid A (dir_cmp A c d).
Proof. exact dir_cmp_valid. Qed.
Print Assumptions C05_swapped_comparator_valid.

(* ... negating the result does not: a consistent function that reports "less" by INT_MIN; `-1 * compar (a, b)` evaluated in int
   is INT_MIN again, the opposite sign of the swapped call, and the negated function is not consistent *)
Theorem C05_negation_is_not_argument_swap :
  cmp_valid Z cmp_min /\ s32 (-1 * cmp_min 0 1) = INT_MIN /\ dir_cmp Z cmp_min false 0 1 = 1 /\
  ~ cmp_valid Z (fun a b => s32 (-1 * cmp_min a b)).
Proof. exact neg_is_not_swap. Qed.
Print Assumptions C05_negation_is_not_argument_swap.

(* from the contract of libc's qsort and ANY functions w d that have pointwise the sign of the user's function (d = true) / of the
   user's function with swapped arguments (d = false), the contract of the model's local sort (hypotheses of C05_sorted) follows *)
Theorem C05_local_sort_contract : forall (A : Type) (c : A -> A -> Z), cmp_valid A c ->
  forall qs, qsort_contract A qs -> forall w : bool -> A -> A -> Z, (forall d a b, Z.sgn (w d a b) = Z.sgn (dir_cmp A c d a b)) ->
  (forall d l, Permutation (qs (w d) l) l) /\
  (forall l, Sorted (fun a b => le_cmp A c a b = true) (qs (w true) l)) /\
  (forall l, Sorted (fun a b => le_cmp A c b a = true) (qs (w false) l)).
Proof. exact local_sort_contract. Qed.
Print Assumptions C05_local_sort_contract.

(* SORTEDNESS / PERMUTATION / COUNTS for every consistent int-valued comparison function (no -1/0/1 normalisation): sequential
   network ... *)
Theorem C05_sorted_int_comparator : forall (A : Type) (c : A -> A -> Z), cmp_valid A c ->
  forall qs, qsort_contract A qs -> forall w : bool -> A -> A -> Z, (forall d a b, Z.sgn (w d a b) = Z.sgn (dir_cmp A c d a b)) ->
  forall counts xs, map (@length A) xs = counts ->
  StronglySorted (fun a b => c a b <= 0) (concat (psort A (gt_cmp A c) (fun d => qs (w d)) counts xs)) /\
  Permutation (concat (psort A (gt_cmp A c) (fun d => qs (w d)) counts xs)) (concat xs) /\
  map (@length A) (psort A (gt_cmp A c) (fun d => qs (w d)) counts xs) = counts.
Proof. exact psort_correct_int. Qed.
Print Assumptions C05_sorted_int_comparator.

(* ... no pair i < j of the output with compar (out[i], out[j]) > 0 ... *)
Theorem C05_no_inversion_int_comparator : forall (A : Type) (c : A -> A -> Z), cmp_valid A c ->
  forall qs, qsort_contract A qs -> forall w : bool -> A -> A -> Z, (forall d a b, Z.sgn (w d a b) = Z.sgn (dir_cmp A c d a b)) ->
  forall counts xs, map (@length A) xs = counts ->
  forall i j a b, (i < j)%nat -> nth_error (concat (psort A (gt_cmp A c) (fun d => qs (w d)) counts xs)) i = Some a ->
    nth_error (concat (psort A (gt_cmp A c) (fun d => qs (w d)) counts xs)) j = Some b -> ~ (0 < c a b).
Proof. exact psort_no_inversion_int. Qed.
Print Assumptions C05_no_inversion_int_comparator.

(* ... and the distributed round semantics *)
Theorem C05_dist_sorted_int_comparator : forall (A : Type) (c : A -> A -> Z), cmp_valid A c ->
  forall qs, qsort_contract A qs -> forall w : bool -> A -> A -> Z, (forall d a b, Z.sgn (w d a b) = Z.sgn (dir_cmp A c d a b)) ->
  forall counts xs, map (@length A) xs = counts ->
  StronglySorted (fun a b => c a b <= 0) (concat (dist_psort A (gt_cmp A c) (fun d => qs (w d)) counts xs)) /\
  Permutation (concat (dist_psort A (gt_cmp A c) (fun d => qs (w d)) counts xs)) (concat xs) /\
  map (@length A) (dist_psort A (gt_cmp A c) (fun d => qs (w d)) counts xs) = counts.
Proof. exact dist_psort_correct_int. Qed.
Print Assumptions C05_dist_sorted_int_comparator.

(* the qsort contract is satisfiable: insertion sort driven by the int comparison function *)
Theorem C05_qsort_contract_satisfiable : forall A : Type, qsort_contract A (cisort A).
Proof. exact cisort_contract. Qed.
Print Assumptions C05_qsort_contract_satisfiable.

(* T1: the function sc_psort_bitonic hands to qsort_r (GNU: `dir ? sc_compare_r : sc_icompare_r`, called (e1, e2, thunk)) *)
Theorem C05_gen_compare_gnu : forall (compar : Z -> Z -> Z) (dir : bool) e1 e2 thunk,
  psort_local_cmp_gnu compar (b2z dir) e1 e2 thunk = dir_cmp Z compar dir e1 e2.
Proof. exact gen_compare_gnu. Qed.
Print Assumptions C05_gen_compare_gnu.

(* ... BSD qsort_r (called (thunk, e1, e2)) *)
Theorem C05_gen_compare_bsd : forall (compar : Z -> Z -> Z) (dir : bool) e1 e2 thunk,
  psort_local_cmp_bsd compar (b2z dir) e1 e2 thunk = dir_cmp Z compar dir e1 e2.
Proof. exact gen_compare_bsd. Qed.
Print Assumptions C05_gen_compare_bsd.

(* ... plain qsort (`dir ? sc_compare : sc_icompare`, sc_compare the static copy of the user's function pointer) *)
Theorem C05_gen_compare_plain : forall (compar : Z -> Z -> Z) (dir : bool) e1 e2 thunk,
  psort_local_cmp_plain compar (b2z dir) e1 e2 thunk = dir_cmp Z compar dir e1 e2.
Proof. exact gen_compare_plain. Qed.
Print Assumptions C05_gen_compare_plain.

(* ... for every int value of `dir` (non-zero = ascending) *)
Theorem C05_gen_compare_any_dir : forall (compar : Z -> Z -> Z) dir e1 e2 thunk,
  psort_local_cmp_gnu compar dir e1 e2 thunk = dir_cmp Z compar (z2b dir) e1 e2 /\
  psort_local_cmp_bsd compar dir e1 e2 thunk = dir_cmp Z compar (z2b dir) e1 e2 /\
  psort_local_cmp_plain compar dir e1 e2 thunk = dir_cmp Z compar (z2b dir) e1 e2.
Proof. exact gen_compare_any_dir. Qed.
Print Assumptions C05_gen_compare_any_dir.

(* base (byte offset in the local array), number and size of the elements of the local sort, all three variants *)
Theorem C05_gen_local_sort_args : forall lo my_lo n size, (my_lo <= lo)%nat -> zn lo < B62 -> 0 <= size -> zn (lo - my_lo) * size < B62 ->
  psort_local_start_gnu (zn lo) (zn my_lo) size = zn (lo - my_lo) * size /\ psort_local_n_gnu n = n /\ psort_local_size_gnu size = size /\
  psort_local_start_bsd (zn lo) (zn my_lo) size = zn (lo - my_lo) * size /\ psort_local_n_bsd n = n /\ psort_local_size_bsd size = size /\
  psort_local_start_plain (zn lo) (zn my_lo) size = zn (lo - my_lo) * size /\ psort_local_n_plain n = n /\ psort_local_size_plain size = size.
Proof. exact gen_local_sort_args. Qed.
Print Assumptions C05_gen_local_sort_args.

(* composition: the GENERATED comparison functions handed to any qsort with the contract of the C standard, a consistent user
   function over the element addresses with arbitrary integer results: sorted, permutation, counts - in all three variants *)
Theorem C05_gen_local_sort_sorted : forall (compar : Z -> Z -> Z), cmp_valid Z compar ->
  forall qs, qsort_contract Z qs -> forall thunk counts xs, map (@length Z) xs = counts ->
  sorted_perm_counts compar (gen_sort_gnu compar qs thunk) counts xs /\
  sorted_perm_counts compar (gen_sort_bsd compar qs thunk) counts xs /\
  sorted_perm_counts compar (gen_sort_plain compar qs thunk) counts xs.
Proof. exact gen_sorted. Qed.
Print Assumptions C05_gen_local_sort_sorted.
