(* C05 - parallel sort (placeholder while the proofs are being written) *)
From Coq Require Import Arith List.
From ScV Require Import C05.PsortModel.
Import ListNotations.
Theorem C05_n2_example : map n2_of [2;3;4;5;8;9;16;17] = [1;2;2;4;4;8;8;16].
Proof. exact (eq_refl _). Qed.
Print Assumptions C05_n2_example.
