(* C09 - hash, hash array, list, pools, recycle array, key-value, AVL match their abstract data types.
   Statements about the executable models of coq/C09 (tied to /repo by the correspondence run of checks/C09.py and,
   for the hash table's resize arithmetic, by the definitions GENERATED from the source in Gen/HashResize.v).
   This file contains only statements, `exact` proofs and Print Assumptions. *)
From Coq Require Import ZArith List Bool Permutation Lia.
From ScV Require Import Base.CInt Gen.HashResize.
From ScV Require Import C09.HashModel C09.HashProofs C09.PoolModel C09.PoolProofs C09.ListModel C09.ListProofs.
From ScV Require Import C09.HashArrayModel C09.HashArrayProofs C09.RecycleModel C09.RecycleProofs.
From ScV Require Import C09.KeyValueModel C09.KeyValueProofs Gen.AvlBalance C09.AvlModel C09.AvlProofs.
From ScV Require Import Gen.ContainersC09 Gen.AvlStepsC09 Gen.KeyValueC09 C09.GenTies C09.AvlSeqModel C09.AvlSeqProofs.
From ScV Require Import C09.SharedModel C09.SharedProofs C09.HistoryProofs C09.RecyclePeak C09.AvlRelinkModel C09.AvlRelinkProofs.
Import ListNotations.
Local Open Scope Z_scope.

(* ---------- hash table: a set modulo the user's equality, for EVERY hash function ---------- *)
(* key type, hash function hf and equality eqb are arbitrary; eqb is an equivalence that hf respects (the
   documented contract of sc_hash_new).  For every history (overrides through **found must store an equal
   element): the table holds a permutation of the set's elements, every return value / found element / count
   equals the set's (an iteration may enumerate in any order), no element is visited twice, elem_count is the
   cardinality.  Resizes happen inside `run` whenever the generated thresholds say so. *)
Theorem C09_hash_refines :
  forall (key : Type) (hf : key -> Z) (eqb : key -> key -> bool),
    (forall a, eqb a a = true) -> (forall a b, eqb a b = true -> eqb b a = true) ->
    (forall a b c, eqb a b = true -> eqb b c = true -> eqb a c = true) ->
    (forall a b, eqb a b = true -> hf a = hf b) ->
  forall (owned : bool) (links : Z) (ops : list (hop key)), Forall (legal_op key eqb) ops ->
    let '(h, outs) := run key hf eqb owned links ops in
    let '(s, souts) := set_run key eqb ops in
    Permutation (elements key h) s /\ Forall2 (out_equiv key) outs souts /\
    NoDup (elements key h) /\
    (forall x y, In x (elements key h) -> In y (elements key h) -> eqb x y = true -> x = y) /\
    hcount key h = Z.of_nat (length s) /\ hcount key h = Z.of_nat (length (elements key h)).
Proof. exact hash_refines. Qed.
Print Assumptions C09_hash_refines.

(* rehashing into any positive number of slots keeps the multiset of elements and places every element in the
   slot its hash value selects *)
Theorem C09_hash_rehash_preserves :
  forall (key : Type) (hf : key -> Z) (ns : Z) (old : list (list key)), 0 < ns ->
    Permutation (concat (rehash key hf ns old)) (concat old) /\
    length (rehash key hf ns old) = Z.to_nat ns /\
    forall i x, In x (nth i (rehash key hf ns old) []) -> slot_of key hf ns x = i.
Proof. exact rehash_preserves. Qed.
Print Assumptions C09_hash_rehash_preserves.

(* the generated thresholds of sc_hash_maybe_resize never ask for an empty slot array (size_t arithmetic included) *)
Theorem C09_hash_new_size_positive :
  forall c n ns, 0 < n -> hash_new_size c n = Some ns -> 0 < ns.
Proof. exact hash_new_size_pos. Qed.
Print Assumptions C09_hash_new_size_positive.

(* ---------- hash array: an insertion-ordered set with stable positions, for EVERY user hash function ---------- *)
(* The model stores array POSITIONS in the hash table model above (position -1 = the element being looked up), as
   sc_hash_array does.  For every history and every user hash/equality pair satisfying the sc_hash_new contract:
   all return values and positions equal those of the insertion-ordered set (position = insertion rank), the array
   holds the inserted elements in insertion order, the table enumerates every position exactly once, both
   elem_counts are the cardinality, no two stored elements are equal.  Table resizes happen inside the run. *)
Theorem C09_hash_array_refines :
  forall (elem : Type) (hfu : elem -> Z) (equ : elem -> elem -> bool),
    (forall a, equ a a = true) -> (forall a b, equ a b = true -> equ b a = true) ->
    (forall a b c, equ a b = true -> equ b c = true -> equ a c = true) ->
    (forall a b, equ a b = true -> hfu a = hfu b) ->
  forall ops : list (haop elem),
    let '(a, outs) := ha_run_from elem hfu equ (ha_new elem) ops in
    let '(s, souts) := oset_run_from elem equ [] ops in
    ha_arr elem a = s /\ Forall2 aout_equiv outs souts /\
    Permutation (ha_positions elem a) (positions (length s)) /\ NoDup (ha_positions elem a) /\
    hcount Z (ha_h elem a) = Z.of_nat (length s) /\
    (forall i j x y, nth_error s i = Some x -> nth_error s j = Some y -> equ x y = true -> i = j).
Proof. exact hash_array_refines. Qed.
Print Assumptions C09_hash_array_refines.

(* positions are stable: every operation except truncate keeps the array contents as a prefix *)
Theorem C09_hash_array_positions_stable :
  forall (elem : Type) (hfu : elem -> Z) (equ : elem -> elem -> bool) (a : harray elem) (op : haop elem),
    op <> ATruncate -> exists t, ha_arr elem (fst (ha_step elem hfu equ a op)) = ha_arr elem a ++ t.
Proof. exact hash_array_positions_stable. Qed.
Print Assumptions C09_hash_array_positions_stable.

(* ---------- pools ---------- *)
(* for every legal history of alloc / free / write / read / truncate on a pool with positive item size:
   every item handed out is distinct from all live items (hence handed out again only after it was returned),
   fresh items of a zero_and_persist pool read as zero, the live items are pairwise distinct, elem_count is their
   number, none of them is on the freed stack, and each lies inside its stamp *)
Theorem C09_pool_safe :
  forall esz zp ops, 0 < esz -> plegal_run (pstate_new esz zp) ops ->
    let '(s, outs) := prun_from (pstate_new esz zp) ops in
    Forall (pout_ok zp) outs /\ NoDup (ps_live s) /\ mp_count (ps_pool s) = Z.of_nat (length (ps_live s)) /\
    (forall it, In it (ps_live s) -> ~ In it (mp_freed (ps_pool s))) /\
    (forall it, In it (ps_live s) -> 0 <= item_offset (mp_ms (ps_pool s)) it /\
         item_offset (mp_ms (ps_pool s)) it + esz <= ms_ssz (mp_ms (ps_pool s))).
Proof. exact pool_safe. Qed.
Print Assumptions C09_pool_safe.

(* what was written into a live item stays there across every other operation (items never move) *)
Theorem C09_pool_content_stable :
  forall s op it, PInv s -> plegal s op -> In it (ps_live s) -> In it (ps_live (fst (pstep s op))) ->
    match op with PWrite k _ => it <> nth k (ps_live s) default_item | _ => True end ->
    cget (ps_mem (fst (pstep s op))) it = cget (ps_mem s) it.
Proof. exact pool_content_stable. Qed.
Print Assumptions C09_pool_content_stable.

Theorem C09_pool_invariant_reachable :
  forall esz zp ops, 0 < esz -> plegal_run (pstate_new esz zp) ops -> PInv (fst (prun_from (pstate_new esz zp) ops)).
Proof. exact pool_reachable_inv. Qed.
Print Assumptions C09_pool_invariant_reachable.

(* byte ranges of two different items of one stamp are disjoint *)
Theorem C09_pool_item_ranges_disjoint :
  forall m a b, 0 < ms_esz m -> fst a = fst b -> a <> b ->
    item_offset m a + ms_esz m <= item_offset m b \/ item_offset m b + ms_esz m <= item_offset m a.
Proof. exact item_ranges_disjoint. Qed.
Print Assumptions C09_pool_item_ranges_disjoint.

(* memory stamps: n successive allocations return n pairwise distinct items, never NULL *)
Theorem C09_mstamp_allocs_distinct :
  forall esz unit n, 0 < esz -> 0 <= unit ->
    let fix go (m : mstamp) (n : nat) : list (option item) :=
        match n with O => [] | S k => let '(m', o) := mstamp_alloc m in o :: go m' k end in
    let outs := go (mstamp_init unit esz) n in
    NoDup outs /\ Forall (fun o => o <> None) outs.
Proof. exact mstamp_allocs_distinct. Qed.
Print Assumptions C09_mstamp_allocs_distinct.

(* a stamp holds as many whole items as fit into the stamp unit, and at least one *)
Theorem C09_mstamp_per_stamp :
  forall unit esz, 0 < esz -> 0 <= unit ->
    let m := mstamp_init unit esz in
    (esz <= unit -> ms_per m * esz <= unit < (ms_per m + 1) * esz) /\ (unit < esz -> ms_per m = 1).
Proof. exact mstamp_init_per. Qed.
Print Assumptions C09_mstamp_per_stamp.

(* ---------- linked list: a sequence ---------- *)
(* for every legal history on a list whose links come from any pool in a reachable state (lk0 = items of that pool
   held by other users): all results (returned data, elem_count, first and last data, traversals) equal the
   sequence's; the links are pairwise distinct live items of the pool; without sc_list_unlink the pool holds
   exactly the list's links besides lk0 *)
Theorem C09_list_refines :
  forall p lk0 ops, PoolInv p lk0 -> seq_legal_run [] ops ->
    let '(st, outs) := lrun_from (list_new p) ops in
    let '(s, souts) := seq_run_from [] ops in
    outs = souts /\ list_data st = s /\ l_count st = Z.of_nat (length s) /\
    exists its lk, length its = length s /\ NoDup its /\ PoolInv (l_pool st) (its ++ lk) /\
                   (~ In LUnlink ops -> lk = lk0 /\ mp_count (l_pool st) = l_count st + Z.of_nat (length lk0)).
Proof. exact list_refines. Qed.
Print Assumptions C09_list_refines.

(* ---------- recycle array: a slot allocator whose live positions never move ---------- *)
(* The abstract state knows only the map live position -> last written value and the number hw of positions ever
   handed out.  For every legal history (only live positions are removed, written, read) and every junk content of
   fresh slots: an insert returns a position that is not live, at most hw, and equal to hw (array grows) exactly
   when no freed position exists; remove and read return the value last written to that position (live
   contents never move); elem_count is the number of live positions and slots = live + freed. *)
Theorem C09_recycle_refines :
  forall ops, rlegal_run ra_init ([], 0) ops -> routs_ok ra_init ([], 0) ops.
Proof. exact recycle_refines. Qed.
Print Assumptions C09_recycle_refines.

Theorem C09_recycle_invariant :
  forall ops, rlegal_run ra_init ([], 0) ops ->
    let r := fst (rrun_from ra_init ops) in
    ra_count r + Z.of_nat (length (ra_f r)) = Z.of_nat (length (ra_a r)) /\ NoDup (ra_f r) /\ 0 <= ra_count r /\
    Forall (fun p => 0 <= p < Z.of_nat (length (ra_a r))) (ra_f r).
Proof. exact recycle_invariant. Qed.
Print Assumptions C09_recycle_invariant.

(* ---------- key-value store: a typed map, for EVERY hash function on keys ---------- *)
(* Entries (key, type, value) live in the hash table model above, hashed and compared by key only.  For every
   history: all results (value or default, type, status of the checked getter) equal those of the typed map, an
   iteration reports every binding exactly once (any order, keys equal in the sense of keq), the number of table
   elements and of allocated entries both equal the number of bindings (no entry leaks, none is freed twice),
   and no two stored entries have equal keys. *)
Theorem C09_keyvalue_refines :
  forall (K : Type) (hfk : K -> Z) (keq : K -> K -> bool),
    (forall a, keq a a = true) -> (forall a b, keq a b = true -> keq b a = true) ->
    (forall a b c, keq a b = true -> keq b c = true -> keq a c = true) ->
    (forall a b, keq a b = true -> hfk a = hfk b) ->
  forall ops, klegal_run K keq [] ops ->
    let '(s, outs) := krun_from K hfk keq (kv_new K) ops in
    let '(m, mouts) := trun_from K keq [] ops in
    Forall2 (kout_equiv K keq) outs mouts /\
    (exists l, Permutation (kv_entries K s) l /\
               Forall2 (entry_equiv K keq) l (map (fun b => mkE K (fst b) (fst (snd b)) (snd (snd b))) m)) /\
    hcount (entry K) (kv_hash K s) = Z.of_nat (length m) /\
    kv_pool K s = Z.of_nat (length m) /\
    (forall a b, In a (kv_entries K s) -> In b (kv_entries K s) -> keq (e_key K a) (e_key K b) = true -> a = b) /\
    (forall i j a b, nth_error m i = Some a -> nth_error m j = Some b -> keq (fst a) (fst b) = true -> i = j).
Proof. exact kv_refines. Qed.
Print Assumptions C09_keyvalue_refines.

(* ---------- AVL tree: a set in ascending order with rank queries and a threaded in-order list ---------- *)
(* cmp is any total order comparator (sign antisymmetric, < transitive, equal items compare alike).  The model
   rotates according to the balance decision GENERATED from avl_check_balance / lg; the theorems hold whatever
   that decision is (balance is a performance property and is not claimed).  For every history of insert,
   delete, search, search_closest, avl_at, avl_index, count, foreach, forward / backward list traversal, clear:
   the in-order sequence of the tree and the prev/next list both equal the strictly ascending list of the set,
   every stored count is the size of its subtree, avl_count is the cardinality, and every output equals the
   set's (insert reports novelty, delete/search return exactly the present element, avl_at u is the u-th smallest,
   avl_index is the rank, search_closest returns the equal element or the predecessor / successor). *)
Theorem C09_avl_refines :
  forall (key : Type) (cmp : key -> key -> Z),
    (forall a b, Z.sgn (cmp a b) = - Z.sgn (cmp b a)) ->
    (forall a b c, cmp a b < 0 -> cmp b c < 0 -> cmp a c < 0) ->
    (forall a b c, cmp a b = 0 -> Z.sgn (cmp a c) = Z.sgn (cmp b c)) ->
  forall ops : list (vop key),
    let '(st, outs) := vrun_from key cmp (avl_new key) ops in
    let '(s, souts) := srun_from key cmp [] ops in
    inorder key (a_top key st) = s /\ a_thread key st = s /\ sorted key cmp s /\ wfc key (a_top key st) /\
    cnt key (a_top key st) = Z.of_nat (length s) /\ vouts_ok key cmp [] ops outs.
Proof. exact avl_refines. Qed.
Print Assumptions C09_avl_refines.

(* avl_at and avl_index are inverse rank queries on every tree with exact counts and ascending in-order *)
Theorem C09_avl_at_index :
  forall (key : Type) (cmp : key -> key -> Z),
    (forall a b, Z.sgn (cmp a b) = - Z.sgn (cmp b a)) ->
    (forall a b c, cmp a b < 0 -> cmp b c < 0 -> cmp a c < 0) ->
    (forall a b c, cmp a b = 0 -> Z.sgn (cmp a c) = Z.sgn (cmp b c)) ->
  forall (t : tree key) (u : Z) (y : key), wfc key t -> sorted key cmp (inorder key t) ->
    at_ key t u = Some y -> index key cmp t y 0 = Some u.
Proof. exact at_index. Qed.
Print Assumptions C09_avl_at_index.

Theorem C09_avl_index_at :
  forall (key : Type) (cmp : key -> key -> Z),
    (forall a b, Z.sgn (cmp a b) = - Z.sgn (cmp b a)) ->
    (forall a b c, cmp a b < 0 -> cmp b c < 0 -> cmp a c < 0) ->
    (forall a b c, cmp a b = 0 -> Z.sgn (cmp a c) = Z.sgn (cmp b c)) ->
  forall (t : tree key) (x : key) (i : Z), wfc key t -> sorted key cmp (inorder key t) ->
    index key cmp t x 0 = Some i -> exists y, at_ key t i = Some y /\ cmp x y = 0.
Proof. exact index_at. Qed.
Print Assumptions C09_avl_index_at.

(* rotations keep the in-order sequence, whatever the balance decision *)
Theorem C09_avl_rebalance_inorder :
  forall (key : Type) (l : tree key) (x : key) (r : tree key),
    inorder key (rebal key l x r) = inorder key l ++ x :: inorder key r.
Proof. exact inorder_rebal. Qed.
Print Assumptions C09_avl_rebalance_inorder.

(* with the decision generated from the source, a rotation never goes through a missing (NULL) child *)
Theorem C09_avl_rotation_children_exist :
  forall (key : Type) (l r : tree key), wfc key l -> wfc key r -> rebal_stuck key l r = false.
Proof. exact rebal_never_stuck. Qed.
Print Assumptions C09_avl_rotation_children_exist.

(* ---------- several containers on one allocator; emptying and refilling ---------- *)
(* Two sc_list objects and a third user (holding the items lk0) draw from ONE sc_mempool in any reachable state and
   live in one memory.  For every legal history of operations on the two lists in any interleaving (links returned
   by one list are recycled by the other through the shared freed stack): all results equal those of two INDEPENDENT
   sequences; the links of both lists and the third user's items are pairwise distinct live items of the allocator;
   without sc_list_unlink the allocator's elem_count is the sum of the two lengths and the third user's items. *)
Theorem C09_lists_shared_pool_refine :
  forall p lk0 ops, PoolInv p lk0 -> sq2_legal_run ([], []) ops ->
    let '(st, outs) := sh_run_from (sh_new p) ops in
    let '((sa, sb), souts) := sq2_run_from ([], []) ops in
    outs = souts /\ sh_data st (sh_a st) = sa /\ sh_data st (sh_b st) = sb /\
    h_count (sh_a st) = Z.of_nat (length sa) /\ h_count (sh_b st) = Z.of_nat (length sb) /\
    exists ia ib lk, length ia = length sa /\ length ib = length sb /\ NoDup (ia ++ ib ++ lk) /\
                     PoolInv (sh_pool st) (ia ++ ib ++ lk) /\
                     ((forall w, ~ In (w, LUnlink) ops) ->
                      lk = lk0 /\ mp_count (sh_pool st) = h_count (sh_a st) + h_count (sh_b st) + Z.of_nat (length lk0)).
Proof. exact shared_lists_refine. Qed.
Print Assumptions C09_lists_shared_pool_refine.

(* an operation on a list writes only into its own links and into the link it has just obtained: every other live
   item of the allocator (lk: the other containers' links) keeps its content *)
Theorem C09_list_frame :
  forall st l lk op, Rlk st l lk -> seq_legal l op ->
    forall j, In j lk -> l_heap (fst (lstep st op)) j = l_heap st j.
Proof. exact lstep_frame. Qed.
Print Assumptions C09_list_frame.

(* Hash table emptied and refilled: whatever the first history did (growth of the slot array, collisions, overrides),
   once it has removed every element again (remove, truncate or unlink; the slot array may still be large and the
   resize counters are not reset) the table is indistinguishable from a new one: elem_count 0, nothing to iterate,
   every further history gives the outputs of the set started from empty. *)
Theorem C09_hash_drain_refill :
  forall (key : Type) (hf : key -> Z) (eqb : key -> key -> bool),
    (forall a, eqb a a = true) -> (forall a b, eqb a b = true -> eqb b a = true) ->
    (forall a b c, eqb a b = true -> eqb b c = true -> eqb a c = true) ->
    (forall a b, eqb a b = true -> hf a = hf b) ->
  forall (owned : bool) (links : Z) (ops1 ops2 : list (hop key)),
    Forall (legal_op key eqb) ops1 -> Forall (legal_op key eqb) ops2 -> fst (set_run key eqb ops1) = [] ->
    let h1 := fst (run key hf eqb owned links ops1) in
    hcount key h1 = 0 /\ elements key h1 = [] /\
    Forall2 (out_equiv key) (snd (run_from key hf eqb h1 ops2)) (snd (set_run key eqb ops2)) /\
    hcount key (fst (run_from key hf eqb h1 ops2)) = Z.of_nat (length (fst (set_run key eqb ops2))).
Proof. exact hash_drain_refill. Qed.
Print Assumptions C09_hash_drain_refill.

(* Recycle array: a slot is never allocated while a freed one exists.  After every legal history the number of slots
   of the array `a` is the PEAK number of simultaneously live items since the last reset (peak_run: the largest
   elem_count along the run); emptying the array and refilling it up to the old peak allocates nothing. *)
Theorem C09_recycle_slots_are_peak :
  forall ops, rlegal_run ra_init ([], 0) ops ->
    Z.of_nat (length (ra_a (fst (rrun_from ra_init ops)))) = peak_run ra_init 0 ops.
Proof. exact recycle_slots_are_peak. Qed.
Print Assumptions C09_recycle_slots_are_peak.

(* the freed positions form a stack: a position that was just removed is the next one handed out *)
Theorem C09_recycle_reuse_lifo :
  forall r p junk, snd (ra_insert (fst (ra_remove r p)) junk) = p.
Proof. exact recycle_reuse_lifo. Qed.
Print Assumptions C09_recycle_reuse_lifo.

(* ---------- AVL tree with positions chosen by the caller: a sequence ---------- *)
(* avl_insert_before / avl_insert_after called directly with the node avl_at (u) or with NULL (append / prepend /
   avl_insert_top on the empty tree), avl_delete_node (avl_at (u)), avl_at, avl_index of a node, count, foreach,
   forward / backward list walk, avl_free_nodes.  No compare function is involved.  For every history: the in-order
   sequence of the tree and the prev/next list equal the Coq list obtained by inserting / deleting at the same
   indices, every stored count is the size of its subtree, avl_count is the length, and every output (avl_at u =
   u-th item, avl_index (avl_at u) = u, the deleted item, traversals, head and tail) equals the list's. *)
Theorem C09_avl_seq_refines :
  forall (key : Type) (ops : list (qop key)),
    let '(st, outs) := qrun_from key (avl_new key) ops in
    let '(s, souts) := sqrun_from key [] ops in
    inorder key (a_top key st) = s /\ a_thread key st = s /\ wfc key (a_top key st) /\
    cnt key (a_top key st) = Z.of_nat (length s) /\ outs = souts.
Proof. exact avl_seq_refines. Qed.
Print Assumptions C09_avl_seq_refines.

(* a positional insertion never moves the other items and puts the new item exactly at the chosen place *)
Theorem C09_avl_seq_insert_keeps_order :
  forall (key : Type) (t : tree key) (u : Z) (x : key), wfc key t -> 0 <= u < cnt key t ->
    sq_del key (inorder key (ins_before key t u x)) (Z.to_nat u) = inorder key t /\
    sq_del key (inorder key (ins_after key t u x)) (S (Z.to_nat u)) = inorder key t /\
    nth_error (inorder key (ins_before key t u x)) (Z.to_nat u) = Some x /\
    nth_error (inorder key (ins_after key t u x)) (S (Z.to_nat u)) = Some x.
Proof. exact avl_seq_insert_keeps_order. Qed.
Print Assumptions C09_avl_seq_insert_keeps_order.

(* ---------- node objects with a history: avl_unlink_node and re-insertion of the same object ---------- *)
(* A node object outside the tree keeps stale left / right / count (avl_unlink_node does not touch the node's own fields;
   a caller-allocated node may hold anything).  The insert functions clear the object before linking it in
   (C09_gen_avl_insert_clears ties this to the source), so re-inserting it is inserting a fresh node with that item,
   WHATEVER the stale fields are: *)
Theorem C09_avl_relink_like_fresh :
  forall (key : Type) (cmp : key -> key -> Z) (o : nobj key) (x : key) (st : avl key) (t : tree key) (u : Z),
    leaf_of key (init_node key o x) = leaf key x /\
    avl_insert_obj key cmp st (init_node key o x) = avl_insert key cmp st x /\
    ins_before_g key t u (leaf_of key (init_node key o x)) = ins_before key t u x /\
    ins_after_g key t u (leaf_of key (init_node key o x)) = ins_after key t u x /\
    app_max_g key t (leaf_of key (init_node key o x)) = app_max key t x /\
    app_min_g key t (leaf_of key (init_node key o x)) = app_min key t x.
Proof.
  intros. split; [apply leaf_of_init|]. split; [apply insert_obj_fresh|]. rewrite leaf_of_init.
  split; [apply ins_before_g_leaf|]. split; [apply ins_after_g_leaf|]. split; [apply app_max_g_leaf|apply app_min_g_leaf].
Qed.
Print Assumptions C09_avl_relink_like_fresh.

(* C09_avl_seq_refines extended with avl_unlink_node (avl_at (u)) and avl_insert_before / avl_insert_after of a kept
   object with a new item.  det0: ANY collection of node objects the caller owns at the start, each with arbitrary stale
   subtrees and count.  For every history: tree = sequence, counts exact, outputs equal, and the caller keeps exactly
   the objects he unlinked and did not insert again. *)
Theorem C09_avl_seq_relink_refines :
  forall (key : Type) (det0 : list (nobj key)) (ops : list (eop key)),
    let '((st, det), outs) := erun_from key (avl_new key, det0) ops in
    let '((q, d), souts) := esrun_from key ([], map (o_item key) det0) ops in
    inorder key (a_top key st) = q /\ a_thread key st = q /\ wfc key (a_top key st) /\
    cnt key (a_top key st) = Z.of_nat (length q) /\ outs = souts /\ map (o_item key) det = d.
Proof. exact avl_seq_relink_refines. Qed.
Print Assumptions C09_avl_seq_relink_refines.

(* C09_avl_refines extended with avl_unlink_node (avl_search (x)) and avl_insert_node of a kept object with a changed
   key (the use the header documents), from any det0 as above: tree = set, outputs = the set's, re-insertion reports
   novelty like a fresh insert, an object whose new item is already present stays with the caller. *)
Theorem C09_avl_relink_refines :
  forall (key : Type) (cmp : key -> key -> Z),
    (forall a b, Z.sgn (cmp a b) = - Z.sgn (cmp b a)) ->
    (forall a b c, cmp a b < 0 -> cmp b c < 0 -> cmp a c < 0) ->
    (forall a b c, cmp a b = 0 -> Z.sgn (cmp a c) = Z.sgn (cmp b c)) ->
  forall (det0 : list (nobj key)) (ops : list (xop key)),
    let '((st, det), outs) := xrun_from key cmp (avl_new key, det0) ops in
    let '(q, d) := xsstate key cmp ([], map (o_item key) det0) ops in
    inorder key (a_top key st) = q /\ a_thread key st = q /\ sorted key cmp q /\ wfc key (a_top key st) /\
    cnt key (a_top key st) = Z.of_nat (length q) /\ map (o_item key) det = d /\
    xouts_ok key cmp ([], map (o_item key) det0) ops outs.
Proof. exact avl_relink_refines. Qed.
Print Assumptions C09_avl_relink_refines.

Theorem C09_gen_avl_insert_clears :
  forall (key : Type) (o : nobj key) (np itemp olditem pl pr node nprev nprevnext head nnext nnextprev tail treep : Z),
         np <> 0 ->
         let
         '(cl, cr, cc) := c9_avl_clear_node in
          nullp key cl (o_left key (clear_node key o)) /\
          nullp key cr (o_right key (clear_node key o)) /\
          cc = o_count key (clear_node key o) /\
          leaf_of key o = N E (o_item key o) cc E /\
          (let
           '(ret, it, l, r, c) := c9_avl_init_node np itemp olditem pl pr (o_count key o) in
            ret = np /\ it = itemp /\ l = pl /\ r = pr /\ c = o_count key (init_node key o (o_item key o))) /\
          (let
           '(ret, p7, n, pa, hd, tl, top, cl_called, cl_arg) := c9_avl_insert_top np in
            cl_called = 1 /\ cl_arg = np /\ ret = np /\ p7 = 0 /\ n = 0 /\ pa = 0 /\ hd = np /\ tl = np /\ top = np) /\
          (let
           '(ret, n, pa, p10, pn, hd, ndprev, ndleft, cl_called, cl_arg, rb_called, rb_tree, rb_node) :=
            c9_avl_insert_before_link np node nprev head nprevnext treep in
            cl_called = 1 /\
            cl_arg = np /\
            ret = np /\
            n = node /\
            pa = node /\
            p10 = nprev /\
            ndprev = np /\
            ndleft = np /\
            rb_called = 1 /\
            rb_tree = treep /\ rb_node = node /\ (nprev <> 0 -> pn = np /\ hd = head) /\ (nprev = 0 -> hd = np /\ pn = nprevnext)) /\
          (let
           '(ret, p11, pa, n, nxp, tl, ndnext, ndright, cl_called, cl_arg, rb_called, rb_tree, rb_node) :=
            c9_avl_insert_after_link np node nnext tail nnextprev treep in
            cl_called = 1 /\
            cl_arg = np /\
            ret = np /\
            p11 = node /\
            pa = node /\
            n = nnext /\
            ndnext = np /\
            ndright = np /\
            rb_called = 1 /\
            rb_tree = treep /\ rb_node = node /\ (nnext <> 0 -> nxp = np /\ tl = tail) /\ (nnext = 0 -> tl = np /\ nxp = nnextprev)).
Proof. exact gen_avl_insert_clears. Qed.
Print Assumptions C09_gen_avl_insert_clears.

(* ---------- tie T1: the models compute what the definitions GENERATED from the current source say ---------- *)
(* Gen/ContainersC09.v, Gen/AvlStepsC09.v, Gen/KeyValueC09.v are regenerated from /repo on every run (tools/c2g/groups_C09.py).
   In the slices pointers are integers, `<callee>_called / _arg<i>` are the calls made (1 = called) with their arguments,
   `addr_<X>` is the address of the struct member X.  The list theorems hold for every address map `addr` of links
   (injective, never NULL); the AVL theorems for every pointer that is NULL exactly when the subtree is empty. *)
Theorem C09_gen_mstamp_init :
  forall unit esz a mst : Z,
         0 <= unit < M64 ->
         0 <= esz < M64 ->
         let
         '(e, per, ssz, cur, ai_called, ai_arg0, ai_arg1, st_called, st_arg) := c9_mstamp_init unit esz a mst in
          let m := mstamp_init unit esz in
          ms_esz m = e /\
          ms_per m = per /\
          ms_ssz m = ssz /\
          ms_cur m = cur /\ ms_nst m = st_called /\ ai_called = 1 /\ ai_arg0 = a /\ ai_arg1 = 8 /\ (st_called = 1 -> st_arg = mst).
Proof. exact gen_mstamp_init. Qed.
Print Assumptions C09_gen_mstamp_init.

Theorem C09_gen_mstamp_stamp :
  forall pkg ssz blk a : Z,
         0 <= ssz < M64 ->
         let
         '(cur, current, stored, m_called, _, m_size, p_called, p_arr) := c9_mstamp_stamp pkg ssz blk a in
          cur = 0 /\ current = blk /\ stored = blk /\ m_called = 1 /\ m_size = ssz /\ p_called = 1 /\ p_arr = a.
Proof. exact gen_mstamp_stamp. Qed.
Print Assumptions C09_gen_mstamp_stamp.

Theorem C09_gen_mstamp_alloc :
  forall (m : mstamp) (base mst pkg blk a : Z),
         0 < ms_esz m ->
         0 <= ms_cur m < ms_per m ->
         ms_per m * ms_esz m < M64 ->
         0 <= ms_ssz m < M64 ->
         let
         '(ret, cur1, called, arg) := c9_mstamp_alloc (ms_esz m) (ms_cur m) base (ms_per m) mst in
          let
          '(scur, _, _, _, _, _, pushes, _) := c9_mstamp_stamp pkg (ms_ssz m) blk a in
           let
           '(m', o) := mstamp_alloc m in
            o = Some (ms_nst m - 1, ms_cur m) /\
            ret = base + item_offset m (ms_nst m - 1, ms_cur m) /\
            (called = 0 \/ called = 1) /\
            (called = 1 -> arg = mst) /\
            ms_cur m' = (if called =? 1 then scur else cur1) /\
            ms_nst m' = ms_nst m + called * pushes /\ ms_esz m' = ms_esz m /\ ms_per m' = ms_per m /\ ms_ssz m' = ms_ssz m.
Proof. exact gen_mstamp_alloc. Qed.
Print Assumptions C09_gen_mstamp_alloc.

Theorem C09_gen_mstamp_alloc_null :
  forall (m : mstamp) (base mst : Z),
         ms_esz m = 0 ->
         let
         '(ret, _, called, _) := c9_mstamp_alloc (ms_esz m) (ms_cur m) base (ms_per m) mst in
          ret = 0 /\ called = 0 /\ mstamp_alloc m = (m, None).
Proof. exact gen_mstamp_alloc_null. Qed.
Print Assumptions C09_gen_mstamp_alloc_null.

Theorem C09_gen_mstamp_truncate :
  forall (m : mstamp) (mst pkg blk a : Z),
         0 <= ms_esz m ->
         0 <= ms_ssz m < M64 ->
         let
         '(r_called, r_arg, s_called, s_arg) := c9_mstamp_truncate mst (ms_esz m) in
          let
          '(scur, _, _, _, _, _, _, _) := c9_mstamp_stamp pkg (ms_ssz m) blk a in
           r_called = 1 /\
           r_arg = mst /\
           ms_nst (mstamp_truncate m) = s_called /\ (s_called = 1 -> s_arg = mst /\ ms_cur (mstamp_truncate m) = scur).
Proof. exact gen_mstamp_truncate. Qed.
Print Assumptions C09_gen_mstamp_truncate.

Theorem C09_gen_mempool_init :
  forall (esz : Z) (zp : bool) (am af : Z),
         let
         '(e, c, z, mi_called, mi_arg0, mi_unit, mi_esz, ai_called, ai_arg0, ai_esz) := c9_mempool_init esz (b2z zp) am af in
          let p7 := mempool_new esz zp in
          mp_esz p7 = e /\
          mp_count p7 = c /\
          b2z (mp_zp p7) = z /\
          mp_ms p7 = mstamp_init mi_unit mi_esz /\
          mp_freed p7 = [] /\ mi_called = 1 /\ mi_arg0 = am /\ ai_called = 1 /\ ai_arg0 = af /\ ai_esz = 8.
Proof. exact gen_mempool_init. Qed.
Print Assumptions C09_gen_mempool_init.

Theorem C09_gen_mempool_alloc :
  forall (p : mempool) (af am top fresh : Z),
         0 <= mp_count p ->
         mp_count p + 1 < M64 ->
         let
         '(ret, cnt, pop_called, pop_arr, ms_called, ms_arg, set_called, set_ptr, set_val, set_len) :=
          c9_mempool_alloc (mp_count p) (Z.of_nat (length (mp_freed p))) af top am fresh (b2z (mp_zp p)) (mp_esz p) in
          let
          '(p', o, fr) := mempool_alloc p in
           mp_count p' = cnt /\
           pop_called = b2z (negb fr) /\
           ms_called = b2z fr /\
           (fr = false ->
            ret = top /\ pop_arr = af /\ mp_freed p' = tl (mp_freed p) /\ o = hd_error (mp_freed p) /\ mp_ms p' = mp_ms p) /\
           (fr = true -> ret = fresh /\ ms_arg = am /\ (mp_ms p', o) = mstamp_alloc (mp_ms p) /\ mp_freed p' = []) /\
           set_called = b2z (fr && mp_zp p) /\ (set_called = 1 -> set_ptr = ret /\ set_val = 0 /\ set_len = mp_esz p).
Proof. exact gen_mempool_alloc. Qed.
Print Assumptions C09_gen_mempool_alloc.

Theorem C09_gen_mempool_free :
  forall (p : mempool) (it : item) (af e : Z),
         0 < mp_count p < M64 ->
         let
         '(cnt, stored, push_called, push_arr) := c9_mempool_free (mp_count p) af e in
          mp_count (mempool_free p it) = cnt /\
          stored = e /\ push_called = 1 /\ push_arr = af /\ mp_freed (mempool_free p it) = it :: mp_freed p.
Proof. exact gen_mempool_free. Qed.
Print Assumptions C09_gen_mempool_free.

Theorem C09_gen_mempool_truncate :
  forall (p : mempool) (af am : Z),
         let
         '(cnt, r_called, r_arr, t_called, t_arg) := c9_mempool_truncate af am in
          mp_count (mempool_truncate p) = cnt /\
          r_called = 1 /\
          r_arr = af /\
          t_called = 1 /\
          t_arg = am /\ mp_freed (mempool_truncate p) = [] /\ mp_ms (mempool_truncate p) = mstamp_truncate (mp_ms p).
Proof. exact gen_mempool_truncate. Qed.
Print Assumptions C09_gen_mempool_truncate.

Theorem C09_gen_list_init :
  forall (addr : item -> Z) (alloc : Z) (p : mempool),
         let
         '(f, la, c, al, owned) := c9_list_init alloc in
          let l := list_new p in
          oaddr addr (l_first l) = f /\ oaddr addr (l_last l) = la /\ l_count l = c /\ al = alloc /\ owned = 0.
Proof. exact gen_list_init. Qed.
Print Assumptions C09_gen_list_init.

Theorem C09_gen_list_unlink :
  forall (addr : item -> Z) (l : sclist),
         let
         '(f, la, c) := c9_list_unlink in
          let l' := list_unlink l in
          oaddr addr (l_first l') = f /\ oaddr addr (l_last l') = la /\ l_count l' = c /\ l_pool l' = l_pool l.
Proof. exact gen_list_unlink. Qed.
Print Assumptions C09_gen_list_unlink.

Theorem C09_gen_list_prepend :
  forall addr : item -> Z,
         (forall a b : item, addr a = addr b -> a = b) ->
         (forall a : item, addr a <> 0) ->
         forall (l : sclist) (d alloc : Z) (p : mempool) (it : item) (fr : bool),
         mempool_alloc (l_pool l) = (p, Some it, fr) ->
         0 <= l_count l ->
         l_count l + 1 < M64 ->
         let
         '(ret, f, la, c, ldata, lnext, a_called, a_arg) :=
          c9_list_prepend alloc (addr it) d (oaddr addr (l_first l)) (oaddr addr (l_last l)) (l_count l) in
          let l' := list_prepend l d in
          ret = addr it /\
          oaddr addr (l_first l') = f /\
          oaddr addr (l_last l') = la /\
          l_count l' = c /\
          l_pool l' = p /\
          fst (l_heap l' it) = ldata /\
          oaddr addr (snd (l_heap l' it)) = lnext /\
          a_called = 1 /\ a_arg = alloc /\ (forall j : item, j <> it -> l_heap l' j = l_heap l j).
Proof. exact gen_list_prepend. Qed.
Print Assumptions C09_gen_list_prepend.

Theorem C09_gen_list_append :
  forall addr : item -> Z,
         (forall a b : item, addr a = addr b -> a = b) ->
         (forall a : item, addr a <> 0) ->
         forall (l : sclist) (d alloc : Z) (p : mempool) (it : item) (fr : bool) (oldnext : Z),
         mempool_alloc (l_pool l) = (p, Some it, fr) ->
         0 <= l_count l ->
         l_count l + 1 < M64 ->
         l_last l <> Some it ->
         let
         '(ret, f, la, c, ldata, lnext, lastnext, a_called, a_arg) :=
          c9_list_append alloc (addr it) d (oaddr addr (l_last l)) (oaddr addr (l_first l)) oldnext (l_count l) in
          let l' := list_append l d in
          ret = addr it /\
          oaddr addr (l_first l') = f /\
          oaddr addr (l_last l') = la /\
          l_count l' = c /\
          l_pool l' = p /\
          fst (l_heap l' it) = ldata /\
          oaddr addr (snd (l_heap l' it)) = lnext /\
          a_called = 1 /\
          a_arg = alloc /\
          match l_last l with
          | Some x =>
              oaddr addr (snd (l_heap l' x)) = lastnext /\
              fst (l_heap l' x) = fst (l_heap l x) /\ (forall j : item, j <> it -> j <> x -> l_heap l' j = l_heap l j)
          | None => lastnext = oldnext /\ (forall j : item, j <> it -> l_heap l' j = l_heap l j)
          end.
Proof. exact gen_list_append. Qed.
Print Assumptions C09_gen_list_append.

Theorem C09_gen_list_insert :
  forall addr : item -> Z,
         (forall a b : item, addr a = addr b -> a = b) ->
         (forall a : item, addr a <> 0) ->
         forall (l : sclist) (pred : item) (d alloc : Z) (p : mempool) (it : item) (fr : bool),
         mempool_alloc (l_pool l) = (p, Some it, fr) ->
         0 <= l_count l ->
         l_count l + 1 < M64 ->
         pred <> it ->
         let
         '(ret, f, la, c, ldata, lnext, prednext, a_called, a_arg) :=
          c9_list_insert alloc (addr it) d (oaddr addr (snd (l_heap l pred))) (addr pred) (oaddr addr (l_last l)) 
            (l_count l) (oaddr addr (l_first l)) in
          let l' := list_insert l pred d in
          ret = addr it /\
          oaddr addr (l_first l') = f /\
          oaddr addr (l_last l') = la /\
          l_count l' = c /\
          l_pool l' = p /\
          fst (l_heap l' it) = ldata /\
          oaddr addr (snd (l_heap l' it)) = lnext /\
          oaddr addr (snd (l_heap l' pred)) = prednext /\
          fst (l_heap l' pred) = fst (l_heap l pred) /\
          a_called = 1 /\ a_arg = alloc /\ (forall j : item, j <> it -> j <> pred -> l_heap l' j = l_heap l j).
Proof. exact gen_list_insert. Qed.
Print Assumptions C09_gen_list_insert.

Theorem C09_gen_list_remove :
  forall addr : item -> Z,
         (forall a b : item, addr a = addr b -> a = b) ->
         (forall a : item, addr a <> 0) ->
         forall (l : sclist) (pred lynk : item) (alloc lst popret : Z),
         snd (l_heap l pred) = Some lynk ->
         0 < l_count l < M64 ->
         let
         '(ret, f, la, c, prednext, pop_called, _, f_called, f_alloc, f_item) :=
          c9_list_remove (addr pred) lst popret (oaddr addr (l_first l)) (oaddr addr (l_last l)) (l_count l) 
            (addr lynk) (oaddr addr (snd (l_heap l lynk))) (fst (l_heap l lynk)) alloc in
          let
          '(l', data) := list_remove l pred in
           ret = data /\
           oaddr addr (l_first l') = f /\
           oaddr addr (l_last l') = la /\
           l_count l' = c /\
           oaddr addr (snd (l_heap l' pred)) = prednext /\
           fst (l_heap l' pred) = fst (l_heap l pred) /\
           pop_called = 0 /\
           f_called = 1 /\
           f_alloc = alloc /\
           f_item = addr lynk /\
           l_pool l' = mempool_free (l_pool l) lynk /\ (forall j : item, j <> pred -> l_heap l' j = l_heap l j).
Proof. exact gen_list_remove. Qed.
Print Assumptions C09_gen_list_remove.

Theorem C09_gen_list_remove_null :
  forall lst popret f la c pn ln ld alloc : Z,
         let
         '(ret, f', la', c', pn', pop_called, pop_arg, f_called, _, _) := c9_list_remove 0 lst popret f la c pn ln ld alloc in
          ret = popret /\ pop_called = 1 /\ pop_arg = lst /\ f_called = 0 /\ f' = f /\ la' = la /\ c' = c /\ pn' = pn.
Proof. exact gen_list_remove_null. Qed.
Print Assumptions C09_gen_list_remove_null.

Theorem C09_gen_list_pop :
  forall addr : item -> Z,
         (forall a b : item, addr a = addr b -> a = b) ->
         (forall a : item, addr a <> 0) ->
         forall (l : sclist) (lynk : item) (alloc : Z),
         l_first l = Some lynk ->
         0 < l_count l < M64 ->
         let
         '(ret, f, la, c, f_called, f_alloc, f_item) :=
          c9_list_pop (addr lynk) (oaddr addr (snd (l_heap l lynk))) (fst (l_heap l lynk)) alloc (oaddr addr (l_last l))
            (l_count l) in
          let
          '(l', data) := list_pop l in
           ret = data /\
           oaddr addr (l_first l') = f /\
           oaddr addr (l_last l') = la /\
           l_count l' = c /\
           f_called = 1 /\
           f_alloc = alloc /\ f_item = addr lynk /\ l_pool l' = mempool_free (l_pool l) lynk /\ l_heap l' = l_heap l.
Proof. exact gen_list_pop. Qed.
Print Assumptions C09_gen_list_pop.

Theorem C09_gen_list_reset_step :
  forall addr : item -> Z,
         (forall a b : item, addr a = addr b -> a = b) ->
         (forall a : item, addr a <> 0) ->
         forall (fuel : nat) (h : item -> Z * option item) (i : item) (p : mempool) (cnt alloc : Z),
         0 < cnt < M64 ->
         let
         '(nxt, c, f_called, f_alloc, f_item) := c9_list_reset_step (addr i) cnt (oaddr addr (snd (h i))) alloc in
          f_called = 1 /\
          f_alloc = alloc /\
          f_item = addr i /\
          nxt = oaddr addr (snd (h i)) /\ free_chain (S fuel) h (Some i) p cnt = free_chain fuel h (snd (h i)) (mempool_free p i) c.
Proof. exact gen_list_reset_step. Qed.
Print Assumptions C09_gen_list_reset_step.

Theorem C09_gen_hash_slot :
  forall (key : Type) (hf : key -> Z) (n : Z) (k : key),
         0 < n ->
         Z.of_nat (slot_of key hf n k) = c9_hash_slot_lookup (u32 (hf k)) n /\
         Z.of_nat (slot_of key hf n k) = c9_hash_slot_insert (u32 (hf k)) n /\
         Z.of_nat (slot_of key hf n k) = c9_hash_slot_remove (u32 (hf k)) n /\
         Z.of_nat (slot_of key hf n k) = c9_hash_slot_rehash (u32 (hf k)) n.
Proof. exact gen_hash_slot. Qed.
Print Assumptions C09_gen_hash_slot.

Theorem C09_gen_harr_insert :
  forall (elem : Type) (hfu : elem -> Z) (equ : elem -> elem -> bool) (a : harray elem) (v : elem) (vp hp posp pd aa pr : Z),
         posp <> 0 ->
         Z.of_nat (length (ha_arr elem a)) < M64 ->
         let hf := ha_hf elem hfu (ha_arr elem a) v in
         let eq0 := ha_eq elem equ (ha_arr elem a) v in
         let
         '(h1, (added, found)) := insert_unique Z hf eq0 (ha_h elem a) (-1) in
          let fnd := match found with
                     | Some p0 => p0
                     | None => -1
                     end in
          let
          '(ret, pos, stored, cur, i_called, i_arg0, i_key, p_called, p_arr) :=
           c9_harr_insert vp hp (b2z added) posp pd (Z.of_nat (length (ha_arr elem a))) aa pr fnd in
           let
           '(a', (added', pos')) := ha_insert elem hfu equ a v in
            added' = added /\
            pos' = pos /\
            cur = 0 /\
            i_called = 1 /\
            i_arg0 = hp /\
            s64 i_key = -1 /\
            p_called = b2z added /\
            (added = true ->
             stored = Z.of_nat (length (ha_arr elem a)) /\
             ret = pr /\ p_arr = aa /\ ha_arr elem a' = ha_arr elem a ++ [v] /\ ha_h elem a' = fst (assign Z hf eq0 h1 (-1) stored)) /\
            (added = false -> stored = fnd /\ ret = 0 /\ a' = {| ha_arr := ha_arr elem a; ha_h := h1 |}).
Proof. exact gen_harr_insert. Qed.
Print Assumptions C09_gen_harr_insert.

Theorem C09_gen_harr_lookup :
  forall (elem : Type) (hfu : elem -> Z) (equ : elem -> elem -> bool) (a : harray elem) (v : elem) (vp hp posp pd : Z),
         posp <> 0 ->
         let o := ha_lookup elem hfu equ a v in
         let
         '(ret, pos, cur, l_called, l_arg0, l_key) :=
          c9_harr_lookup vp hp match o with
                               | Some _ => 1
                               | None => 0
                               end posp pd match o with
                                           | Some p => p
                                           | None => 0
                                           end in
          cur = 0 /\
          l_called = 1 /\
          l_arg0 = hp /\ s64 l_key = -1 /\ match o with
                                           | Some p3 => ret = 1 /\ pos = p3
                                           | None => ret = 0 /\ pos = pd
                                           end.
Proof. exact gen_harr_lookup. Qed.
Print Assumptions C09_gen_harr_lookup.

Theorem C09_gen_rec_insert :
  forall (r : rarray) (junk af aa ip pr posp pd : Z),
         posp <> 0 ->
         0 <= ra_count r ->
         ra_count r + 1 < M64 ->
         let top := hd 0 (ra_f r) in
         let
         '(ret, pos, cnt, pop_called, pop_arr, ix_called, ix_arr, ix_pos, push_called, push_arr) :=
          c9_rec_insert (Z.of_nat (length (ra_f r))) af top aa ip (Z.of_nat (length (ra_a r))) pr posp pd (ra_count r) in
          let
          '(r', p7) := ra_insert r junk in
           p7 = pos /\
           ra_count r' = cnt /\
           match ra_f r with
           | [] =>
               pop_called = 0 /\
               ix_called = 0 /\
               push_called = 1 /\ push_arr = aa /\ ret = pr /\ ra_f r' = [] /\ length (ra_a r') = S (length (ra_a r))
           | _ :: f' =>
               pop_called = 1 /\
               pop_arr = af /\
               ix_called = 1 /\ ix_arr = aa /\ ix_pos = p7 /\ push_called = 0 /\ ret = ip /\ ra_f r' = f' /\ ra_a r' = ra_a r
           end.
Proof. exact gen_rec_insert. Qed.
Print Assumptions C09_gen_rec_insert.

Theorem C09_gen_rec_remove :
  forall (r : rarray) (pos af aa ip : Z),
         0 < ra_count r < M64 ->
         let
         '(ret, cnt, stored, push_called, push_arr, ix_called, ix_arr, ix_pos) := c9_rec_remove af pos (ra_count r) aa ip in
          let
          '(r', _) := ra_remove r pos in
           ra_count r' = cnt /\
           ra_f r' = stored :: ra_f r /\
           ra_a r' = ra_a r /\ push_called = 1 /\ push_arr = af /\ ix_called = 1 /\ ix_arr = aa /\ ix_pos = pos /\ ret = ip.
Proof. exact gen_rec_remove. Qed.
Print Assumptions C09_gen_rec_remove.

Theorem C09_gen_rec_init_reset :
  forall (r : rarray) (aa af esz : Z),
         let
         '(c0, i1, i1_arr, i1_esz, i2, i2_arr, i2_esz) := c9_rec_init aa esz af in
          let
          '(c1, r1, r1_arr, r2, r2_arr) := c9_rec_reset aa af in
           ra_count ra_init = c0 /\
           ra_count (ra_reset r) = c1 /\
           i1 = 1 /\
           i1_arr = aa /\ i1_esz = esz /\ i2 = 1 /\ i2_arr = af /\ i2_esz = 8 /\ r1 = 1 /\ r1_arr = aa /\ r2 = 1 /\ r2_arr = af.
Proof. exact gen_rec_init_reset. Qed.
Print Assumptions C09_gen_rec_init_reset.

Theorem C09_gen_array_index_pop :
  forall base esz n : Z,
         0 < n ->
         0 <= esz ->
         esz * n < M64 ->
         n < M64 ->
         c9_array_index base esz (n - 1) = base + esz * (n - 1) /\
         c9_array_pop n base esz = (c9_array_index base esz (n - 1), n - 1).
Proof. exact gen_array_index_pop. Qed.
Print Assumptions C09_gen_array_index_pop.

Theorem C09_gen_avl_at_step :
  forall key : Type,
         (key -> key -> Z) ->
         forall (l : tree key) (y : key) (c : Z) (r : tree key) (p pl pr u : Z),
         nullp key pl l ->
         0 <= cnt key l ->
         cnt key l + 1 < M32 ->
         0 <= u < M32 ->
         let
         '(stop, ret, nxt, u') := c9_avl_at_step p u pl (cnt key l) pr in
          (stop = 1 -> ret = p /\ at_ key (N l y c r) u = Some y) /\
          (stop = 0 ->
           nxt = pl /\ u' = u /\ at_ key (N l y c r) u = at_ key l u \/
           nxt = pr /\ 0 <= u' < M32 /\ at_ key (N l y c r) u = at_ key r u') /\ (stop = 0 \/ stop = 1).
Proof. exact gen_avl_at_step. Qed.
Print Assumptions C09_gen_avl_at_step.

Theorem C09_gen_avl_index_step :
  forall (key : Type) (cmp : key -> key -> Z) (l : tree key) (y : key) (c : Z) (r : tree key) (x : key)
           (acc ch pp pl pr : Z),
         nullp key pl l ->
         0 <= cnt key l ->
         0 <= acc ->
         acc + cnt key l + 1 < M32 ->
         (0 < cmp x y -> ch = pr) ->
         (cmp x y < 0 -> ch <> pr) ->
         cmp x y <> 0 ->
         let
         '(nxt, acc') := c9_avl_index_step ch acc pp pr pl (cnt key l) in
          nxt = pp /\ index key cmp (N l y c r) x acc = index key cmp (if cmp x y <? 0 then l else r) x acc'.
Proof. exact gen_avl_index_step. Qed.
Print Assumptions C09_gen_avl_index_step.

Theorem C09_gen_avl_search_step :
  forall (key : Type) (cmp : key -> key -> Z) (l : tree key) (y : key) (c : Z) (r : tree key) (x : key) (p pl pr out : Z),
         nullp key pl l ->
         nullp key pr r ->
         let
         '(stop, ret, nxt, out') := c9_avl_search_step (cmp x y) pl out p pr in
          (stop = 1 -> out' = p /\ closest key cmp (N l y c r) x = Some (y, ret)) /\
          (stop = 0 ->
           out' = out /\
           (nxt = pl /\ l <> E /\ closest key cmp (N l y c r) x = closest key cmp l x \/
            nxt = pr /\ r <> E /\ closest key cmp (N l y c r) x = closest key cmp r x)) /\ (stop = 0 \/ stop = 1).
Proof. exact gen_avl_search_step. Qed.
Print Assumptions C09_gen_avl_search_step.

Theorem C09_gen_avl_rotation_kind :
  forall (key : Type) (a b : tree key) (pa pb : Z),
         nullp key pa a ->
         nullp key pb b ->
         c9_avl_left_single pa (cnt key a) pb (cnt key b) = (cnt key b <=? cnt key a) /\
         c9_avl_right_single pb (cnt key b) pa (cnt key a) = (cnt key a <=? cnt key b).
Proof. exact gen_avl_rotation_kind. Qed.
Print Assumptions C09_gen_avl_rotation_kind.

Theorem C09_gen_avl_calc_count :
  forall key : Type,
         (key -> key -> Z) ->
         forall (l r : tree key) (x : key) (pl pr : Z),
         nullp key pl l ->
         nullp key pr r ->
         0 <= cnt key l ->
         0 <= cnt key r ->
         cnt key l + cnt key r + 1 < M32 -> cnt key (mk key l x r) = c9_avl_calc_count pl (cnt key l) pr (cnt key r).
Proof. exact gen_avl_calc_count. Qed.
Print Assumptions C09_gen_avl_calc_count.

Theorem C09_gen_avl_count_order :
  c9_avl_count_order = [1; 2; 1; 2; 3; 1; 2; 1; 2; 3; 1].
Proof. exact gen_avl_count_order. Qed.
Print Assumptions C09_gen_avl_count_order.

Theorem C09_gen_kv_types :
  c9_SC_KEYVALUE_ENTRY_NONE = 0 /\
         c9_SC_KEYVALUE_ENTRY_INT = 1 /\
         c9_SC_KEYVALUE_ENTRY_DOUBLE = 2 /\ c9_SC_KEYVALUE_ENTRY_STRING = 3 /\ c9_SC_KEYVALUE_ENTRY_POINTER = 4.
Proof. exact gen_kv_types. Qed.
Print Assumptions C09_gen_kv_types.

Theorem C09_gen_kv_get_int_check :
  forall (K : Type) (hfk : K -> Z) (keq : K -> K -> bool) (s : kvs K) (k : K) (statusp st keyp hp fp : Z),
         statusp <> 0 ->
         let o := kv_lookup K hfk keq s k in
         0 <= found_type K o < M32 ->
         let
         '(ret, st', probe_key, l_called, l_arg0) :=
          c9_kv_get_int_check statusp st keyp c9_SC_KEYVALUE_ENTRY_NONE hp (found_flag K o) fp (found_type K o)
            c9_SC_KEYVALUE_ENTRY_INT (found_val K o) in
          kv_get_int_check K hfk keq s k st = (ret, st') /\ probe_key = keyp /\ l_called = 1 /\ l_arg0 = hp.
Proof. exact gen_kv_get_int_check. Qed.
Print Assumptions C09_gen_kv_get_int_check.

Theorem C09_gen_kv_exists :
  forall (K : Type) (hfk : K -> Z) (keq : K -> K -> bool) (s : kvs K) (k : K) (keyp hp fp : Z),
         let o := kv_lookup K hfk keq s k in
         let
         '(ret, probe_key, l_called, l_arg0) := c9_kv_exists keyp c9_SC_KEYVALUE_ENTRY_NONE hp (found_flag K o) fp (found_type K o)
          in kv_exists K hfk keq s k = ret /\ probe_key = keyp /\ l_called = 1 /\ l_arg0 = hp.
Proof. exact gen_kv_exists. Qed.
Print Assumptions C09_gen_kv_exists.

Theorem C09_gen_kv_unset :
  forall (K : Type) (hfk : K -> Z) (keq : K -> K -> bool) (s : kvs K) (k : K) (keyp hp ep ap : Z),
         let
         '(_, found) := remove (entry K) (ehf K hfk) (eeq K keq) (kv_hash K s) (probe K k) in
          let
          '(ret, probe_key, r_called, r_arg0, f_called, f_alloc, f_item) :=
           c9_kv_unset keyp c9_SC_KEYVALUE_ENTRY_NONE hp (found_flag K found) ep (found_type K found) ap in
           let
           '(s', ty) := kv_unset K hfk keq s k in
            ty = ret /\
            probe_key = keyp /\
            r_called = 1 /\
            r_arg0 = hp /\
            kv_pool K s' = kv_pool K s - f_called /\ (f_called = 1 -> f_alloc = ap /\ f_item = ep) /\ f_called = found_flag K found.
Proof. exact gen_kv_unset. Qed.
Print Assumptions C09_gen_kv_unset.

(* ---------- the hypotheses are satisfiable ---------- *)
Example C09_ex_hash_legal : Forall (legal_op (Z * Z) (fun a b => fst a =? fst b))
  [HInsert _ (1, 0); HInsert _ (1, 5); HAssign _ (1, 0) (1, 7); HRemove _ (1, 9); HForeach].
Proof. repeat constructor. Qed.
Example C09_ex_pool_legal : plegal_run (pstate_new 8 true) [PAlloc; PAlloc; PWrite 1 7; PFree 0; PAlloc; PRead 1; PTruncate].
Proof. cbn. repeat split; lia. Qed.
Example C09_ex_pool_inv : PoolInv (mempool_new 16 false) [].
Proof. apply mempool_new_inv. reflexivity. Qed.
Example C09_ex_list_legal : seq_legal_run [] [LAppend 1; LPrepend 2; LInsert 1 3; LRemove 0; LPop; LDump; LReset].
Proof. cbn. repeat split; try discriminate; lia. Qed.
Example C09_ex_recycle_legal : rlegal_run ra_init ([], 0) [RInsert 9 1; RInsert 9 2; RRemove 0; RInsert 9 3; RRead 0; RRead 1; RCount].
Proof. cbn. repeat split; discriminate. Qed.
Example C09_ex_kv_legal : klegal_run Z Z.eqb [] [KSet Z 1 5 7; KSet Z 1 5 8; KGet Z 1 5 0; KPut Z 3 5 1; KGet Z 3 5 0; KUnset Z 5].
Proof. cbn. repeat split; try lia; intros; try congruence. Qed.
Example C09_ex_avl_cmp : (forall a b, Z.sgn (a - b) = - Z.sgn (b - a)) /\ (forall a b c : Z, a - b < 0 -> b - c < 0 -> a - c < 0) /\
  (forall a b c : Z, a - b = 0 -> Z.sgn (a - c) = Z.sgn (b - c)).
Proof. cbn. repeat split; try lia; try (intros; congruence). Qed.
Example C09_ex_avl_seq : snd (qrun_from Z (avl_new Z) [QInsBefore Z 0 5; QInsAfter Z 0 7; QInsBefore Z 1 6; QInsBefore Z 9 8; QDeleteAt 0; QForeach; QIndexAt 2]) =
  [QoCnt Z 1; QoCnt Z 2; QoCnt Z 3; QoCnt Z 4; QoItem Z (Some 5); QoList Z [6; 7; 8]; QoIdx Z (Some 2)].
Proof. vm_compute. reflexivity. Qed.
Example C09_ex_shared_legal : sq2_legal_run ([], []) [(false, LAppend 1); (true, LPrepend 2); (false, LPop); (true, LAppend 3); (true, LRemove 0);
                                                    (false, LAppend 4); (true, LReset); (false, LDump)].
Proof. cbn. repeat split; try discriminate; lia. Qed.
Example C09_ex_hash_drain : fst (set_run (Z * Z) (fun a b => fst a =? fst b) [HInsert _ (1, 0); HInsert _ (2, 0); HRemove _ (1, 5); HRemove _ (2, 5)]) = [].
Proof. vm_compute. reflexivity. Qed.
Example C09_ex_recycle_peak : peak_run ra_init 0 [RInsert 9 1; RInsert 9 2; RInsert 9 3; RRemove 1; RRemove 0; RRemove 2; RInsert 9 4; RInsert 9 5] = 3.
Proof. vm_compute. reflexivity. Qed.
Example C09_ex_avl_relink : (* the root of a three-element tree is unlinked with both subtrees and inserted again at the end *)
  let '((st, det), outs) := erun_from Z (avl_new Z, []) [EBase Z (QInsBefore Z 9 1); EBase Z (QInsBefore Z 9 2); EBase Z (QInsBefore Z 9 3);
                                                         EUnlinkAt Z 1; ERelinkBefore Z 9 0 7; EBase Z QForeach] in
  outs = [QoCnt Z 1; QoCnt Z 2; QoCnt Z 3; QoItem Z (Some 2); QoCnt Z 3; QoList Z [1; 3; 7]] /\ det = [].
Proof. vm_compute. split; reflexivity. Qed.
