(* C09 - hash, hash array, list, pools, recycle array, key-value, AVL match their abstract data types.
   Statements about the executable models of coq/C09 (tied to /repo by the correspondence run of checks/C09.py and,
   for the hash table's resize arithmetic, by the definitions GENERATED from the source in Gen/HashResize.v).
   This file contains only statements, `exact` proofs and Print Assumptions. *)
From Coq Require Import ZArith List Bool Permutation Lia.
From ScV Require Import Base.CInt Gen.HashResize.
From ScV Require Import C09.HashModel C09.HashProofs C09.PoolModel C09.PoolProofs C09.ListModel C09.ListProofs.
From ScV Require Import C09.HashArrayModel C09.HashArrayProofs C09.RecycleModel C09.RecycleProofs.
From ScV Require Import C09.KeyValueModel C09.KeyValueProofs Gen.AvlBalance C09.AvlModel C09.AvlProofs.
Import ListNotations.
Local Open Scope Z_scope.

(* ---------- hash table: a set modulo the user's equality, for EVERY hash function ---------- *)
(* key type, hash function hf and equality eqb are arbitrary; eqb is an equivalence that hf respects (the
   documented contract of sc_hash_new).  For every history (overrides through **found must store an equal
   element): the table holds a permutation of the set's elements, every return value / found element / count
   equals the set's (an iteration may enumerate in any order), no element is visited twice, elem_count is the
   cardinality.  Resizes happen inside `run` whenever the generated thresholds say so. *)
Theorem C09_hash_refines :
  forall (key : Type) (hf : key -> Z) (eqb : key -> key -> bool),
    (forall a, eqb a a = true) -> (forall a b, eqb a b = true -> eqb b a = true) ->
    (forall a b c, eqb a b = true -> eqb b c = true -> eqb a c = true) ->
    (forall a b, eqb a b = true -> hf a = hf b) ->
  forall (owned : bool) (links : Z) (ops : list (hop key)), Forall (legal_op key eqb) ops ->
    let '(h, outs) := run key hf eqb owned links ops in
    let '(s, souts) := set_run key eqb ops in
    Permutation (elements key h) s /\ Forall2 (out_equiv key) outs souts /\
    NoDup (elements key h) /\
    (forall x y, In x (elements key h) -> In y (elements key h) -> eqb x y = true -> x = y) /\
    hcount key h = Z.of_nat (length s) /\ hcount key h = Z.of_nat (length (elements key h)).
Proof. exact hash_refines. Qed.
Print Assumptions C09_hash_refines.

(* rehashing into any positive number of slots keeps the multiset of elements and places every element in the
   slot its hash value selects *)
Theorem C09_hash_rehash_preserves :
  forall (key : Type) (hf : key -> Z) (ns : Z) (old : list (list key)), 0 < ns ->
    Permutation (concat (rehash key hf ns old)) (concat old) /\
    length (rehash key hf ns old) = Z.to_nat ns /\
    forall i x, In x (nth i (rehash key hf ns old) []) -> slot_of key hf ns x = i.
Proof. exact rehash_preserves. Qed.
Print Assumptions C09_hash_rehash_preserves.

(* the generated thresholds of sc_hash_maybe_resize never ask for an empty slot array (size_t arithmetic included) *)
Theorem C09_hash_new_size_positive :
  forall c n ns, 0 < n -> hash_new_size c n = Some ns -> 0 < ns.
Proof. exact hash_new_size_pos. Qed.
Print Assumptions C09_hash_new_size_positive.

(* ---------- hash array: an insertion-ordered set with stable positions, for EVERY user hash function ---------- *)
(* The model stores array POSITIONS in the hash table model above (position -1 = the element being looked up), as
   sc_hash_array does.  For every history and every user hash/equality pair satisfying the sc_hash_new contract:
   all return values and positions equal those of the insertion-ordered set (position = insertion rank), the array
   holds the inserted elements in insertion order, the table enumerates every position exactly once, both
   elem_counts are the cardinality, no two stored elements are equal.  Table resizes happen inside the run. *)
Theorem C09_hash_array_refines :
  forall (elem : Type) (hfu : elem -> Z) (equ : elem -> elem -> bool),
    (forall a, equ a a = true) -> (forall a b, equ a b = true -> equ b a = true) ->
    (forall a b c, equ a b = true -> equ b c = true -> equ a c = true) ->
    (forall a b, equ a b = true -> hfu a = hfu b) ->
  forall ops : list (haop elem),
    let '(a, outs) := ha_run_from elem hfu equ (ha_new elem) ops in
    let '(s, souts) := oset_run_from elem equ [] ops in
    ha_arr elem a = s /\ Forall2 aout_equiv outs souts /\
    Permutation (ha_positions elem a) (positions (length s)) /\ NoDup (ha_positions elem a) /\
    hcount Z (ha_h elem a) = Z.of_nat (length s) /\
    (forall i j x y, nth_error s i = Some x -> nth_error s j = Some y -> equ x y = true -> i = j).
Proof. exact hash_array_refines. Qed.
Print Assumptions C09_hash_array_refines.

(* positions are stable: every operation except truncate keeps the array contents as a prefix *)
Theorem C09_hash_array_positions_stable :
  forall (elem : Type) (hfu : elem -> Z) (equ : elem -> elem -> bool) (a : harray elem) (op : haop elem),
    op <> ATruncate -> exists t, ha_arr elem (fst (ha_step elem hfu equ a op)) = ha_arr elem a ++ t.
Proof. exact hash_array_positions_stable. Qed.
Print Assumptions C09_hash_array_positions_stable.

(* ---------- pools ---------- *)
(* for every legal history of alloc / free / write / read / truncate on a pool with positive item size:
   every item handed out is distinct from all live items (hence handed out again only after it was returned),
   fresh items of a zero_and_persist pool read as zero, the live items are pairwise distinct, elem_count is their
   number, none of them is on the freed stack, and each lies inside its stamp *)
Theorem C09_pool_safe :
  forall esz zp ops, 0 < esz -> plegal_run (pstate_new esz zp) ops ->
    let '(s, outs) := prun_from (pstate_new esz zp) ops in
    Forall (pout_ok zp) outs /\ NoDup (ps_live s) /\ mp_count (ps_pool s) = Z.of_nat (length (ps_live s)) /\
    (forall it, In it (ps_live s) -> ~ In it (mp_freed (ps_pool s))) /\
    (forall it, In it (ps_live s) -> 0 <= item_offset (mp_ms (ps_pool s)) it /\
         item_offset (mp_ms (ps_pool s)) it + esz <= ms_ssz (mp_ms (ps_pool s))).
Proof. exact pool_safe. Qed.
Print Assumptions C09_pool_safe.

(* what was written into a live item stays there across every other operation (items never move) *)
Theorem C09_pool_content_stable :
  forall s op it, PInv s -> plegal s op -> In it (ps_live s) -> In it (ps_live (fst (pstep s op))) ->
    match op with PWrite k _ => it <> nth k (ps_live s) default_item | _ => True end ->
    cget (ps_mem (fst (pstep s op))) it = cget (ps_mem s) it.
Proof. exact pool_content_stable. Qed.
Print Assumptions C09_pool_content_stable.

Theorem C09_pool_invariant_reachable :
  forall esz zp ops, 0 < esz -> plegal_run (pstate_new esz zp) ops -> PInv (fst (prun_from (pstate_new esz zp) ops)).
Proof. exact pool_reachable_inv. Qed.
Print Assumptions C09_pool_invariant_reachable.

(* byte ranges of two different items of one stamp are disjoint *)
Theorem C09_pool_item_ranges_disjoint :
  forall m a b, 0 < ms_esz m -> fst a = fst b -> a <> b ->
    item_offset m a + ms_esz m <= item_offset m b \/ item_offset m b + ms_esz m <= item_offset m a.
Proof. exact item_ranges_disjoint. Qed.
Print Assumptions C09_pool_item_ranges_disjoint.

(* memory stamps: n successive allocations return n pairwise distinct items, never NULL *)
Theorem C09_mstamp_allocs_distinct :
  forall esz unit n, 0 < esz -> 0 <= unit ->
    let fix go (m : mstamp) (n : nat) : list (option item) :=
        match n with O => [] | S k => let '(m', o) := mstamp_alloc m in o :: go m' k end in
    let outs := go (mstamp_init unit esz) n in
    NoDup outs /\ Forall (fun o => o <> None) outs.
Proof. exact mstamp_allocs_distinct. Qed.
Print Assumptions C09_mstamp_allocs_distinct.

(* a stamp holds as many whole items as fit into the stamp unit, and at least one *)
Theorem C09_mstamp_per_stamp :
  forall unit esz, 0 < esz -> 0 <= unit ->
    let m := mstamp_init unit esz in
    (esz <= unit -> ms_per m * esz <= unit < (ms_per m + 1) * esz) /\ (unit < esz -> ms_per m = 1).
Proof. exact mstamp_init_per. Qed.
Print Assumptions C09_mstamp_per_stamp.

(* ---------- linked list: a sequence ---------- *)
(* for every legal history on a list whose links come from any pool in a reachable state (lk0 = items of that pool
   held by other users): all results (returned data, elem_count, first and last data, traversals) equal the
   sequence's; the links are pairwise distinct live items of the pool; without sc_list_unlink the pool holds
   exactly the list's links besides lk0 *)
Theorem C09_list_refines :
  forall p lk0 ops, PoolInv p lk0 -> seq_legal_run [] ops ->
    let '(st, outs) := lrun_from (list_new p) ops in
    let '(s, souts) := seq_run_from [] ops in
    outs = souts /\ list_data st = s /\ l_count st = Z.of_nat (length s) /\
    exists its lk, length its = length s /\ NoDup its /\ PoolInv (l_pool st) (its ++ lk) /\
                   (~ In LUnlink ops -> lk = lk0 /\ mp_count (l_pool st) = l_count st + Z.of_nat (length lk0)).
Proof. exact list_refines. Qed.
Print Assumptions C09_list_refines.

(* ---------- recycle array: a slot allocator whose live positions never move ---------- *)
(* The abstract state knows only the map live position -> last written value and the number hw of positions ever
   handed out.  For every legal history (only live positions are removed, written, read) and every junk content of
   fresh slots: an insert returns a position that is not live, at most hw, and equal to hw (array grows) exactly
   when no freed position exists; remove and read return the value last written to that position (live
   contents never move); elem_count is the number of live positions and slots = live + freed. *)
Theorem C09_recycle_refines :
  forall ops, rlegal_run ra_init ([], 0) ops -> routs_ok ra_init ([], 0) ops.
Proof. exact recycle_refines. Qed.
Print Assumptions C09_recycle_refines.

Theorem C09_recycle_invariant :
  forall ops, rlegal_run ra_init ([], 0) ops ->
    let r := fst (rrun_from ra_init ops) in
    ra_count r + Z.of_nat (length (ra_f r)) = Z.of_nat (length (ra_a r)) /\ NoDup (ra_f r) /\ 0 <= ra_count r /\
    Forall (fun p => 0 <= p < Z.of_nat (length (ra_a r))) (ra_f r).
Proof. exact recycle_invariant. Qed.
Print Assumptions C09_recycle_invariant.

(* ---------- key-value store: a typed map, for EVERY hash function on keys ---------- *)
(* Entries (key, type, value) live in the hash table model above, hashed and compared by key only.  For every
   history: all results (value or default, type, status of the checked getter) equal those of the typed map, an
   iteration reports every binding exactly once (any order, keys equal in the sense of keq), the number of table
   elements and of allocated entries both equal the number of bindings (no entry leaks, none is freed twice),
   and no two stored entries have equal keys. *)
Theorem C09_keyvalue_refines :
  forall (K : Type) (hfk : K -> Z) (keq : K -> K -> bool),
    (forall a, keq a a = true) -> (forall a b, keq a b = true -> keq b a = true) ->
    (forall a b c, keq a b = true -> keq b c = true -> keq a c = true) ->
    (forall a b, keq a b = true -> hfk a = hfk b) ->
  forall ops, klegal_run K keq [] ops ->
    let '(s, outs) := krun_from K hfk keq (kv_new K) ops in
    let '(m, mouts) := trun_from K keq [] ops in
    Forall2 (kout_equiv K keq) outs mouts /\
    (exists l, Permutation (kv_entries K s) l /\
               Forall2 (entry_equiv K keq) l (map (fun b => mkE K (fst b) (fst (snd b)) (snd (snd b))) m)) /\
    hcount (entry K) (kv_hash K s) = Z.of_nat (length m) /\
    kv_pool K s = Z.of_nat (length m) /\
    (forall a b, In a (kv_entries K s) -> In b (kv_entries K s) -> keq (e_key K a) (e_key K b) = true -> a = b) /\
    (forall i j a b, nth_error m i = Some a -> nth_error m j = Some b -> keq (fst a) (fst b) = true -> i = j).
Proof. exact kv_refines. Qed.
Print Assumptions C09_keyvalue_refines.

(* ---------- AVL tree: a set in ascending order with rank queries and a threaded in-order list ---------- *)
(* cmp is any total order comparator (sign antisymmetric, < transitive, equal items compare alike).  The model
   rotates according to the balance decision GENERATED from avl_check_balance / lg; the theorems hold whatever
   that decision is (balance is a performance property and is not claimed).  For every history of insert,
   delete, search, search_closest, avl_at, avl_index, count, foreach, forward / backward list traversal, clear:
   the in-order sequence of the tree and the prev/next list both equal the strictly ascending list of the set,
   every stored count is the size of its subtree, avl_count is the cardinality, and every output equals the
   set's (insert reports novelty, delete/search return exactly the present element, avl_at u is the u-th smallest,
   avl_index is the rank, search_closest returns the equal element or the predecessor / successor). *)
Theorem C09_avl_refines :
  forall (key : Type) (cmp : key -> key -> Z),
    (forall a b, Z.sgn (cmp a b) = - Z.sgn (cmp b a)) ->
    (forall a b c, cmp a b < 0 -> cmp b c < 0 -> cmp a c < 0) ->
    (forall a b c, cmp a b = 0 -> Z.sgn (cmp a c) = Z.sgn (cmp b c)) ->
  forall ops : list (vop key),
    let '(st, outs) := vrun_from key cmp (avl_new key) ops in
    let '(s, souts) := srun_from key cmp [] ops in
    inorder key (a_top key st) = s /\ a_thread key st = s /\ sorted key cmp s /\ wfc key (a_top key st) /\
    cnt key (a_top key st) = Z.of_nat (length s) /\ vouts_ok key cmp [] ops outs.
Proof. exact avl_refines. Qed.
Print Assumptions C09_avl_refines.

(* avl_at and avl_index are inverse rank queries on every tree with exact counts and ascending in-order *)
Theorem C09_avl_at_index :
  forall (key : Type) (cmp : key -> key -> Z),
    (forall a b, Z.sgn (cmp a b) = - Z.sgn (cmp b a)) ->
    (forall a b c, cmp a b < 0 -> cmp b c < 0 -> cmp a c < 0) ->
    (forall a b c, cmp a b = 0 -> Z.sgn (cmp a c) = Z.sgn (cmp b c)) ->
  forall (t : tree key) (u : Z) (y : key), wfc key t -> sorted key cmp (inorder key t) ->
    at_ key t u = Some y -> index key cmp t y 0 = Some u.
Proof. exact at_index. Qed.
Print Assumptions C09_avl_at_index.

Theorem C09_avl_index_at :
  forall (key : Type) (cmp : key -> key -> Z),
    (forall a b, Z.sgn (cmp a b) = - Z.sgn (cmp b a)) ->
    (forall a b c, cmp a b < 0 -> cmp b c < 0 -> cmp a c < 0) ->
    (forall a b c, cmp a b = 0 -> Z.sgn (cmp a c) = Z.sgn (cmp b c)) ->
  forall (t : tree key) (x : key) (i : Z), wfc key t -> sorted key cmp (inorder key t) ->
    index key cmp t x 0 = Some i -> exists y, at_ key t i = Some y /\ cmp x y = 0.
Proof. exact index_at. Qed.
Print Assumptions C09_avl_index_at.

(* rotations keep the in-order sequence, whatever the balance decision *)
Theorem C09_avl_rebalance_inorder :
  forall (key : Type) (l : tree key) (x : key) (r : tree key),
    inorder key (rebal key l x r) = inorder key l ++ x :: inorder key r.
Proof. exact inorder_rebal. Qed.
Print Assumptions C09_avl_rebalance_inorder.

(* with the decision generated from the source, a rotation never goes through a missing (NULL) child *)
Theorem C09_avl_rotation_children_exist :
  forall (key : Type) (l r : tree key), wfc key l -> wfc key r -> rebal_stuck key l r = false.
Proof. exact rebal_never_stuck. Qed.
Print Assumptions C09_avl_rotation_children_exist.

(* ---------- the hypotheses are satisfiable ---------- *)
Example C09_ex_hash_legal : Forall (legal_op (Z * Z) (fun a b => fst a =? fst b))
  [HInsert _ (1, 0); HInsert _ (1, 5); HAssign _ (1, 0) (1, 7); HRemove _ (1, 9); HForeach].
Proof. repeat constructor. Qed.
Example C09_ex_pool_legal : plegal_run (pstate_new 8 true) [PAlloc; PAlloc; PWrite 1 7; PFree 0; PAlloc; PRead 1; PTruncate].
Proof. cbn. repeat split; lia. Qed.
Example C09_ex_pool_inv : PoolInv (mempool_new 16 false) [].
Proof. apply mempool_new_inv. reflexivity. Qed.
Example C09_ex_list_legal : seq_legal_run [] [LAppend 1; LPrepend 2; LInsert 1 3; LRemove 0; LPop; LDump; LReset].
Proof. cbn. repeat split; try discriminate; lia. Qed.
Example C09_ex_recycle_legal : rlegal_run ra_init ([], 0) [RInsert 9 1; RInsert 9 2; RRemove 0; RInsert 9 3; RRead 0; RRead 1; RCount].
Proof. cbn. repeat split; discriminate. Qed.
Example C09_ex_kv_legal : klegal_run Z Z.eqb [] [KSet Z 1 5 7; KSet Z 1 5 8; KGet Z 1 5 0; KPut Z 3 5 1; KGet Z 3 5 0; KUnset Z 5].
Proof. cbn. repeat split; try lia; intros; try congruence. Qed.
Example C09_ex_avl_cmp : (forall a b, Z.sgn (a - b) = - Z.sgn (b - a)) /\ (forall a b c : Z, a - b < 0 -> b - c < 0 -> a - c < 0) /\
  (forall a b c : Z, a - b = 0 -> Z.sgn (a - c) = Z.sgn (b - c)).
Proof. cbn. repeat split; try lia; try (intros; congruence). Qed.
