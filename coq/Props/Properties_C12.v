(* C12 - parallel file wrapper: data round-trips and all ranks agree on the outcome.
   Only `exact` wrappers around lemmas of C12/FileProofs.v.  The statements are about the global sequential model of
   C12/FileModel.v (configurations A = no MPI and C = MPI without MPI I/O) and about the GENERATED sc_io_error_class.
   Every statement is for all P (= length of the argument list), all block lengths >= 0 and contents, all element sizes,
   and - where a fault plan `pl` occurs - for every assignment of failures to stdio calls (rank, function, call number).
   Vocabulary: w_fail counts the stdio calls that ended with errno <> 0; w_ledger the allocated file contexts; w_open the open
   FILE*; `wst w c fl op lg` = the file exists with content c, the fault plan is empty, and the three counters have these values. *)
From Coq Require Import ZArith List Bool.
From ScV Require Import Base.CInt MPI.Prog Gen.ErrClassC12 C12.FileModel C12.FileProofs.
Import ListNotations.
Local Open Scope Z_scope.

(* ---- T1: the generated sc_io_error_class (both configurations) *)
Theorem C12_error_class_success c e : errclass c e = SUCCESS c <-> e = 0.
Proof. exact (errclass_success_iff c e). Qed.
Print Assumptions C12_error_class_success.

Theorem C12_error_class_converts c e : errclass_ret c e = SUCCESS c.
Proof. exact (errclass_ret_ok c e). Qed.
Print Assumptions C12_error_class_converts.

(* the table by class name, identical in both configurations (ENOENT is "no such file", ...; an unlisted value is UNKNOWN) *)
Theorem C12_error_class_table c :
  class_index c (errclass c e_ENOENT) = IDX_NO_SUCH_FILE /\ class_index c (errclass c e_EEXIST) = IDX_FILE_EXISTS
  /\ class_index c (errclass c e_EACCES) = IDX_ACCESS /\ class_index c (errclass c e_ENOSPC) = IDX_NO_SPACE
  /\ class_index c (errclass c e_ENOMEM) = IDX_NO_MEM /\ class_index c (errclass c e_EIO) = IDX_IO
  /\ class_index c (errclass c e_EISDIR) = IDX_BAD_FILE /\ class_index c (errclass c e_ENAMETOOLONG) = IDX_BAD_FILE
  /\ class_index c (errclass c e_EINVAL) = IDX_AMODE /\ class_index c (errclass c 0) = 0
  /\ class_index c (errclass c 100000) = IDX_UNKNOWN.
Proof. exact (errclass_table c). Qed.
Print Assumptions C12_error_class_table.

(* ---- open: same class on all ranks; SUCCESS iff fopen did not fail; a failed open leaves no context, no stream *)
Theorem C12_open cfg P g am g' cls : 0 < P -> plan_ok (w_plan (g_w g)) ->
  g_open cfg P g am = (g', cls) ->
  agree cls /\ cls <> []
  /\ ((forall x, In x cls -> x = SUCCESS cfg) <-> w_fail (g_w g') = w_fail (g_w g))
  /\ ((forall x, In x cls -> x = SUCCESS cfg) ->
        g_ctx g' = true /\ g_s0 g' <> None /\ w_ledger (g_w g') = w_ledger (g_w g) + P /\ w_open (g_w g') = w_open (g_w g) + 1)
  /\ (~ (forall x, In x cls -> x = SUCCESS cfg) ->
        g_ctx g' = false /\ g_s0 g' = None /\ w_ledger (g_w g') = w_ledger (g_w g) /\ w_open (g_w g') = w_open (g_w g)).
Proof. exact (open_spec cfg P g am g' cls). Qed.
Print Assumptions C12_open.

(* ---- close: same class on all ranks; SUCCESS iff fclose did not fail; every context is freed *)
Theorem C12_close cfg P g g' cls : 0 < P -> plan_ok (w_plan (g_w g)) ->
  g_close cfg P g = Some (g', cls) ->
  agree cls /\ cls <> []
  /\ ((forall x, In x cls -> x = SUCCESS cfg) <-> w_fail (g_w g') = w_fail (g_w g))
  /\ g_ctx g' = false /\ g_s0 g' = None /\ w_ledger (g_w g') = w_ledger (g_w g) - P
  /\ w_open (g_w g') = w_open (g_w g) - (match g_s0 g with Some _ => 1 | None => 0 end).
Proof. exact (close_spec cfg P g g' cls). Qed.
Print Assumptions C12_close.

(* ---- collective read/write of configuration C (token passing): all ranks return the class of one value ... *)
Theorem C12_coll_agree wr g size args g' rs : g_coll wr g size args = Some (g', rs) ->
  exists ev, forall r, In r rs -> r_cls r = errclass CfgC ev.
Proof. exact (coll_agree wr g size args g' rs). Qed.
Print Assumptions C12_coll_agree.

(* ... and it is SUCCESS iff no stdio call of any rank failed during the operation (the repaired code; reverting the
   take-over of the error token or the protection of errval on rank 0 makes this statement false) *)
Theorem C12_coll_success_iff wr g size args g' rs : 0 < size -> plan_ok (w_plan (g_w g)) ->
  Forall (fun a => 0 <= a_count a) args -> args <> [] ->
  g_coll wr g size args = Some (g', rs) ->
  rs <> [] /\ ((forall r, In r rs -> r_cls r = SUCCESS CfgC) <-> w_fail (g_w g') = w_fail (g_w g))
  /\ w_ledger (g_w g') = w_ledger (g_w g).
Proof. exact (coll_success_iff wr g size args g' rs). Qed.
Print Assumptions C12_coll_success_iff.

(* ---- fault-free collective write: the blocks are appended in rank order, ocount = count *)
Theorem C12_coll_write g c fl op lg s size args :
  wst (g_w g) c fl op lg -> g_s0 g = Some s -> at_end s c -> args <> [] -> Forall (wf_arg size) args ->
  exists g', g_coll true g size args = Some (g', map (fun a => mkR (SUCCESS CfgC) (a_count a) []) args)
             /\ wst (g_w g') (c ++ concat (map a_data args)) fl op lg
             /\ g_s0 g' = Some (mkS MAppend (len (c ++ concat (map a_data args))))
             /\ g_ctx g' = g_ctx g.
Proof. exact (coll_write_nf g c fl op lg s size args). Qed.
Print Assumptions C12_coll_write.

Theorem C12_coll_writes calls g c fl op lg s size :
  wst (g_w g) c fl op lg -> g_s0 g = Some s -> at_end s c ->
  Forall (fun args => args <> [] /\ Forall (wf_arg size) args) calls ->
  exists g', g_colls g size calls = Some g'
             /\ wst (g_w g') (c ++ concat (map (fun args => concat (map a_data args)) calls)) fl op lg.
Proof. exact (coll_writes_nf calls g c fl op lg s size). Qed.
Print Assumptions C12_coll_writes.

(* ---- fault-free collective read: each rank gets the whole elements found at its offset *)
Theorem C12_coll_read g c fl op lg s size args :
  wst (g_w g) c fl op lg -> g_s0 g = Some s -> st_mode s = MRead -> args <> [] ->
  Forall (fun a => 0 <= a_off a) args ->
  exists g', g_coll false g size args = Some (g', map (read_res c size) args)
             /\ wst (g_w g') c fl op lg /\ g_s0 g' = Some (mkS MRead 0) /\ g_ctx g' = g_ctx g.
Proof. exact (coll_read_nf g c fl op lg s size args). Qed.
Print Assumptions C12_coll_read.

(* ---- the round trip as a whole (configuration C): open-create, write blocks consecutively, close, open-read, read at
        the same offsets, close: every call returns SUCCESS on every rank, counts are the block lengths, the data read
        are the data written, the file is the concatenation in rank order, nothing stays allocated or open *)
Theorem C12_roundtrip_C P size args node pl :
  0 < size -> args <> [] -> Forall (wf_arg size) args -> consec 0 args ->
  (forall q f k, pl q f k = None) -> (node = Absent \/ exists c0, node = File c0) ->
  exists g,
    g_scen CfgC P (gstate0 node pl)
      [OOpen c12_SC_IO_WRITE_CREATE; OColl true size args; OClose;
       OOpen c12_SC_IO_READ; OColl false size args; OClose]
    = Some (g, [out_all CfgC P false;
                map (fun a => enc CfgC (SUCCESS CfgC) (a_count a) false []) args;
                out_all CfgC P true;
                out_all CfgC P false;
                map (fun a => enc CfgC (SUCCESS CfgC) (a_count a) false (a_data a)) args;
                out_all CfgC P true])
    /\ wst (g_w g) (concat (map a_data args)) 0 0 0 /\ g_s0 g = None /\ g_ctx g = false.
Proof. exact (roundtrip_scenario_C P size args node pl). Qed.
Print Assumptions C12_roundtrip_C.

(* ---- explicit-offset calls (configuration A; rank 0 in C), fault-free: write lands at the offset, the stream position
        is restored, and what was written at an offset is what a read at that offset finds *)
Theorem C12_at_write cfg g c fl op lg m p q size a :
  wst (g_w g) c fl op lg -> g_s0 g = Some (mkS m p) -> m <> MRead -> 0 <= p -> 0 <= a_off a -> 0 < a_count a ->
  len (a_data a) = size * a_count a ->
  exists g', g_at cfg true g q size a = (g', mkR (SUCCESS cfg) (a_count a) [])
    /\ wst (g_w g') (put c (at_pos m c (a_off a)) (a_data a)) fl op lg
    /\ g_s0 g' = Some (mkS m p) /\ g_ctx g' = g_ctx g.
Proof. exact (at_write_nf cfg g c fl op lg m p q size a). Qed.
Print Assumptions C12_at_write.

Theorem C12_at_read cfg g c fl op lg p q size a :
  wst (g_w g) c fl op lg -> g_s0 g = Some (mkS MRead p) -> 0 <= p -> 0 <= a_off a -> a_count a <> 0 ->
  exists g', g_at cfg false g q size a =
               (g', mkR (SUCCESS cfg) (whole c (a_off a) size (a_count a))
                        (firstn (Z.to_nat (size * whole c (a_off a) size (a_count a))) (avail c (a_off a) size (a_count a))))
    /\ wst (g_w g') c fl op lg /\ g_s0 g' = Some (mkS MRead p) /\ g_ctx g' = g_ctx g.
Proof. exact (at_read_nf cfg g c fl op lg p q size a). Qed.
Print Assumptions C12_at_read.

Theorem C12_read_after_write c off d size count : 0 <= off -> len d = size * count ->
  avail (put c off d) off size count = d.
Proof. exact (avail_put c off d size count). Qed.
Print Assumptions C12_read_after_write.

(* ---- configurations A and C produce the same file from blocks that are consecutive in rank order *)
Theorem C12_configs_agree gA gC c flA opA lgA flC opC lgC m p s size args :
  wst (g_w gA) c flA opA lgA -> g_s0 gA = Some (mkS m p) -> m <> MRead -> 0 <= p ->
  wst (g_w gC) c flC opC lgC -> g_s0 gC = Some s -> at_end s c ->
  args <> [] -> Forall (wf_arg size) args -> consec (len c) args ->
  exists gA' gC' rsC,
    g_at_all CfgA true gA 0 size args = (gA', map (fun a => mkR (SUCCESS CfgA) (a_count a) []) args)
    /\ g_coll true gC size args = Some (gC', rsC)
    /\ map r_ocount rsC = map a_count args
    /\ content (g_w gA') = c ++ concat (map a_data args)
    /\ content (g_w gC') = content (g_w gA').
Proof. exact (configs_agree_nf gA gC c flA opA lgA flC opC lgC m p s size args). Qed.
Print Assumptions C12_configs_agree.

(* ---- explicit-offset calls under EVERY fault plan (sc_io_read_at / sc_io_write_at without MPI I/O, configurations A and C):
        the class is SUCCESS iff no stdio call of the operation (ftell, fseek, fread/fwrite, position-restoring fseek) ended
        with an error; ocount lies in 0..count and is what was transferred: a write put exactly the first ocount elements of
        the data into the file at the offset (at the end in mode "ab") and changed nothing else, a read left the file as it
        was and stored exactly the ocount whole elements found at the offset; no context, no stream appears or disappears.
        (F-C12f, repaired by 3510a9a: before, a partial transfer with errno set returned SUCCESS, and the first conjunct was
        false - see C12_at_old_tail_refuted.) *)
Theorem C12_at_success_iff cfg wr g q size a g' r : plan_ok (w_plan (g_w g)) -> 0 <= a_count a -> 0 < size ->
  g_at cfg wr g q size a = (g', r) ->
  (r_cls r = SUCCESS cfg <-> w_fail (g_w g') = w_fail (g_w g))
  /\ 0 <= r_ocount r <= a_count a
  /\ (if wr then
        r_buf r = []
        /\ ((r_ocount r = 0 /\ content (g_w g') = content (g_w g))
            \/ exists m p, g_s0 g = Some (mkS m p) /\ m <> MRead
                 /\ content (g_w g') = put (content (g_w g)) (at_pos m (content (g_w g)) (a_off a))
                                           (firstn (Z.to_nat (size * r_ocount r)) (a_data a)))
      else
        content (g_w g') = content (g_w g)
        /\ r_buf r = firstn (Z.to_nat (size * r_ocount r)) (skipn (Z.to_nat (a_off a)) (content (g_w g))))
  /\ w_ledger (g_w g') = w_ledger (g_w g) /\ w_open (g_w g') = w_open (g_w g).
Proof. exact (at_success_iff cfg wr g q size a g' r). Qed.
Print Assumptions C12_at_success_iff.

(* the tail of both functions before repair 3510a9a (`at_tail_old`: the class of the restoring fseek's errno replaces the
   class of the transfer) refutes the first conjunct of C12_at_success_iff: fwrite stores one of four elements and sets
   ENOSPC, the fseek back succeeds: class SUCCESS with one failed stdio call.  The code as it is (`g_at` = `g_at_with at_tail`)
   returns the class of ENOSPC on the same input. *)
Theorem C12_at_old_tail_refuted :
  plan_ok (w_plan (g_w g_partial)) /\ 0 <= a_count a_partial
  /\ (exists g' r, g_at_with at_tail_old CfgA true g_partial 0 1 a_partial = (g', r)
                   /\ r_cls r = SUCCESS CfgA /\ r_ocount r = 1 /\ a_count a_partial = 4
                   /\ w_fail (g_w g') = w_fail (g_w g_partial) + 1)
  /\ (exists g' r, g_at CfgA true g_partial 0 1 a_partial = (g', r)
                   /\ r_cls r = errclass CfgA e_ENOSPC /\ r_cls r <> SUCCESS CfgA /\ r_ocount r = 1
                   /\ w_fail (g_w g') = w_fail (g_w g_partial) + 1).
Proof. exact at_old_tail_refuted. Qed.
Print Assumptions C12_at_old_tail_refuted.

(* ---- known finding F-C12e.  C12_coll_write says where the fallback puts the blocks: at the end of rank 0's stream,
        whatever the offsets.  Full statement (FALSE in configuration C): the file afterwards is `put` of every block at its
        offset.  Witness: a 2-byte header by sc_io_write_at, then blocks at offsets 2 and 3: configuration A gives
        header+blocks, configuration C writes block 0 over the header. *)
Theorem C12_coll_offset_refuted :
  (exists g outs, g_scen CfgC 2 (gstate0 Absent (fun _ _ _ => None)) ops_header = Some (g, outs)
                  /\ w_fail (g_w g) = 0 /\ content (g_w g) = [20; 11; 30])
  /\ (exists g outs, g_scen CfgA 2 (gstate0 Absent (fun _ _ _ => None)) ops_header = Some (g, outs)
                     /\ w_fail (g_w g) = 0 /\ content (g_w g) = [10; 11; 20; 30]).
Proof. exact coll_offset_refuted. Qed.
Print Assumptions C12_coll_offset_refuted.

(* ---- documented limitation of the append mode "ab": the offset of an explicit-offset write is ignored *)
Theorem C12_append_ignores_offset cfg g c fl op lg p q size a :
  wst (g_w g) c fl op lg -> g_s0 g = Some (mkS MAppend p) -> 0 <= p -> 0 <= a_off a -> 0 < a_count a ->
  len (a_data a) = size * a_count a ->
  exists g', g_at cfg true g q size a = (g', mkR (SUCCESS cfg) (a_count a) [])
    /\ wst (g_w g') (c ++ a_data a) fl op lg.
Proof. exact (at_write_append_ignores_offset cfg g c fl op lg p q size a). Qed.
Print Assumptions C12_append_ignores_offset.

(* ---- the hypotheses are satisfiable *)
Example C12_ex_args : Forall (wf_arg 4) ex_args /\ consec 0 ex_args /\ ex_args <> [].
Proof. exact ex_args_ok. Qed.
Example C12_ex_plan : plan_ok plan_rank1 /\ plan_ok plan_partial.
Proof. split; [exact plan_rank1_ok | exact plan_partial_ok]. Qed.
Example C12_ex_fault_run :
  exists g' rs, g_coll true (mkG (world0 (File []) plan_rank1) (Some (mkS MWrite 0)) true) 4 ex_args = Some (g', rs)
                /\ map r_cls rs = [errclass CfgC e_EACCES; errclass CfgC e_EACCES; errclass CfgC e_EACCES]
                /\ map r_ocount rs = [2; 0; 0] /\ w_fail (g_w g') = 1.
Proof. exact ex_fault_run. Qed.

(* ================================================================== EVERY SCHEDULE (appended block; C12/FileSched.v, MPI/SemShared.v)
   The theorems above are about the global sequential model (ranks take their turns in rank order).  The theorems below are
   about the PER-RANK PROGRAMS (`coll_prog`, the ones co-simulated against the real code) in the interleaving semantics of
   MPI/SemShared.v: Send / Recv (named source, ANY_TAG) over FIFO channels with buffered sends; Barrier and Bcast happen when
   all ranks have arrived; every stdio call is a LOCAL step of the calling rank that reads and updates the SHARED file system
   state (`fsys`: the world of the global model + the FILE* of every rank) - two ranks' stdio steps do not commute, and nothing
   in the semantics keeps them apart.  `crun P m s s'` = some schedule leads from s to s' in m steps. *)
From ScV Require Import MPI.SemShared C12.FileSched.

(* the generic theorem: ONE schedule of the token-instrumented semantics that ends in a final state without a race decides
   EVERY schedule of the plain semantics (any shared state, any effect function, any programs) *)
Theorem C12_one_schedule_all_schedules (Sh : Type) P is_local eff creply gives ctok (s0 f : st Sh) tk0 tkf n :
  irun Sh P is_local eff creply gives ctok n (Good s0 tk0) (Good f tkf) -> final Sh P f ->
  forall m s', run Sh P is_local eff creply m s0 s' ->
    (m <= n)%nat /\ run Sh P is_local eff creply (n - m) s' f
    /\ (final Sh P s' -> s' = f /\ m = n)
    /\ (final Sh P s' \/ exists l s'', step Sh P is_local eff creply s' l s'')
    /\ (forall r1 r2, local_at Sh P is_local s' r1 -> local_at Sh P is_local s' r2 -> r1 = r2).
Proof. exact (one_schedule_independent Sh P is_local eff creply gives ctok s0 tk0 f tkf n). Qed.
Print Assumptions C12_one_schedule_all_schedules.

(* collective read / write of the fallback, ANY P >= 1 (= number of entries of args), ANY element size, counts, contents, offsets,
   ANY fault plan (plan_ok is not even needed), any initial world and stream of rank 0: whenever the global model predicts a
   result (g_coll <> None, i.e. none of the SC_CHECK_ABORTs on fseek / fflush / fclose / re-open fires), then from the state in
   which every rank starts its coll_prog (channels empty, rank 0 holding its stream):
     - every schedule has at most n steps and can be completed to `coll_final` in exactly n steps (EVERY MAXIMAL RUN TERMINATES);
     - every schedule that ends, ends in `coll_final`: rank r has returned class / ocount / buffer of the r-th result of g_coll,
       rank 0 holds the re-opened stream, all channels are empty, the world is the world g_coll predicts (file content, call
       counters, failed calls, open streams);
     - no reachable state is stuck;
     - at every reachable state at most one rank has a stdio call as its next action (mutual exclusion by the token). *)
Theorem C12_coll_every_schedule wr size args g g' rs : 0 < len args ->
  g_coll wr g size args = Some (g', rs) ->
  let P := len args in
  let start := coll_state wr P size args (g_w g) (g_s0 g) in
  let fin := coll_final P g' rs in
  cfinal P fin
  /\ exists n, forall m s', crun P m start s' ->
       (m <= n)%nat /\ crun P (n - m) s' fin
       /\ (cfinal P s' -> s' = fin /\ m = n)
       /\ (cfinal P s' \/ exists l s'', cstep P s' l s'')
       /\ (forall r1 r2, local_at fsys P c12_local s' r1 -> local_at fsys P c12_local s' r2 -> r1 = r2).
Proof. exact (coll_every_schedule wr size args g g' rs). Qed.
Print Assumptions C12_coll_every_schedule.

(* ... and when the global model predicts an ABORT (g_coll = None: read_at_all's fseek, an fflush, an fclose, or the re-open by
   rank 0 failed - SC_CHECK_ABORT, i.e. MPI_Abort in the real code), for every fault plan with plan_ok and rank 0 holding a stream:
   EVERY schedule leads to one and the same TERMINAL state f (no step possible) in which some rank has called SC_ABORT (its
   program is `abort`) and the others wait for ever at the barrier / the broadcast / for the token: every schedule has at most n
   steps, can be completed to f, every state without a step IS f, every other reachable state has a step, and again at most
   one rank is ever at a stdio call.  Together with C12_coll_every_schedule: under plan_ok the outcome of the collective
   operation - result or abort - is the one of the global model in every schedule. *)
Theorem C12_coll_abort_every_schedule wr size args g : 0 < len args ->
  plan_ok (w_plan (g_w g)) -> is_some (g_s0 g) = true ->
  g_coll wr g size args = None ->
  let P := len args in
  let start := coll_state wr P size args (g_w g) (g_s0 g) in
  exists f n, (exists r, 0 <= r < P /\ spr f r = abort)
    /\ (forall l s', ~ cstep P f l s')
    /\ forall m s', crun P m start s' ->
         (m <= n)%nat /\ crun P (n - m) s' f
         /\ ((forall l s'', ~ cstep P s' l s'') -> s' = f /\ m = n)
         /\ (s' = f \/ exists l s'', cstep P s' l s'')
         /\ (forall r1 r2, local_at fsys P c12_local s' r1 -> local_at fsys P c12_local s' r2 -> r1 = r2).
Proof. exact (coll_abort_every_schedule wr size args g). Qed.
Print Assumptions C12_coll_abort_every_schedule.

(* the property sentence for the fallback: "when all ranks collectively write blocks ..., the file contains exactly these blocks
   in rank order" - in EVERY schedule: no reachable state is stuck, and whenever all ranks have returned, the file is the old
   content followed by the blocks in rank order, every rank has returned SUCCESS with ocount = count, rank 0 holds a stream *)
Theorem C12_coll_write_every_schedule g c fl op lg s size args :
  wst (g_w g) c fl op lg -> g_s0 g = Some s -> at_end s c -> args <> [] -> Forall (wf_arg size) args ->
  forall m s', crun (len args) m (coll_state true (len args) size args (g_w g) (g_s0 g)) s' ->
    (cfinal (len args) s' \/ exists l s'', cstep (len args) s' l s'')
    /\ (cfinal (len args) s' ->
          content (fs_w (ssh s')) = c ++ concat (map a_data args)
          /\ forall r, 0 <= r < len args ->
               spr s' r = k_ret (SUCCESS CfgC) (a_count (arg_of args r)) [] (mkH true (r =? 0))).
Proof. exact (coll_write_every_schedule g c fl op lg s size args). Qed.
Print Assumptions C12_coll_write_every_schedule.

(* the WHOLE SCENARIO of the harness (configuration C): any sequence of open / close / collective read or write / explicit-offset
   read or write by rank 0, any P >= 1, any initial file node, any fault plan with plan_ok, every OColl with one argument per
   rank; whenever the global model g_scen predicts a result (no SC_CHECK_ABORT fires): from the state in which every rank runs
   its `scen_prog_C` EVERY schedule terminates in `scen_final` - rank r has printed exactly what g_scen prints for it, operation
   by operation; the world is the one of g_scen (`erase`: without the ledger of allocated contexts, which is no action of the
   programs); rank 0 holds the stream g_scen says, no other rank holds one; all channels are empty - after the same number of
   steps; no reachable state is stuck; at most one rank is ever at a stdio call. *)
Theorem C12_scenario_every_schedule P ops node pl g' outs : 0 < P -> plan_ok pl -> ops_ok P ops ->
  g_scen CfgC P (gstate0 node pl) ops = Some (g', outs) ->
  let start := scen_state P ops node pl in
  let fin := scen_final P g' outs in
  cfinal P fin
  /\ exists n, forall m s', crun P m start s' ->
       (m <= n)%nat /\ crun P (n - m) s' fin
       /\ (cfinal P s' -> s' = fin /\ m = n)
       /\ (cfinal P s' \/ exists l s'', cstep P s' l s'')
       /\ (forall r1 r2, local_at fsys P c12_local s' r1 -> local_at fsys P c12_local s' r2 -> r1 = r2).
Proof. exact (scen_every_schedule P ops node pl g' outs). Qed.
Print Assumptions C12_scenario_every_schedule.

(* all maximal schedules of small instances enumerated by computation (tests of the statements; P = 3 and P = 1, with faults) *)
Example C12_ex_sched_write : fst (test_coll true 2 targs (world0 (File [100; 101]) tplan2) (Some (mkS MAppend 2))) = true.
Proof. exact test_write_enospc. Qed.
Example C12_ex_sched_read : fst (test_coll false 2 targs (world0 (File [1;2;3;4;5;6;7;8;9]) tplan2) (Some (mkS MRead 0))) = true.
Proof. exact test_read_short. Qed.
Example C12_ex_sched_scenario : fst (test_scen 3 tops Absent tplan2) = true.
Proof. exact test_scen_faults. Qed.
