(* C12 - parallel file wrapper.  Only `exact` wrappers around lemmas of C12/FileProofs.v. *)
From Coq Require Import ZArith List Bool.
From ScV Require Import Base.CInt MPI.Prog Gen.ErrClassC12 C12.FileModel C12.FileProofs.
Import ListNotations.
Local Open Scope Z_scope.

(* the generated sc_io_error_class (both configurations) reports success exactly for the error value 0 *)
Theorem C12_error_class_success c e : errclass c e = SUCCESS c <-> e = 0.
Proof. exact (errclass_success_iff c e). Qed.
Print Assumptions C12_error_class_success.
