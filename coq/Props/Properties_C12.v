(* C12 - parallel file wrapper: data round-trips and all ranks agree on the outcome.
   Only `exact` wrappers around lemmas of C12/FileProofs.v.  The statements are about the global sequential model of
   C12/FileModel.v (configurations A = no MPI and C = MPI without MPI I/O) and about the GENERATED sc_io_error_class.
   Every statement is for all P (= length of the argument list), all block lengths >= 0 and contents, all element sizes,
   and - where a fault plan `pl` occurs - for every assignment of failures to stdio calls (rank, function, call number).
   Vocabulary: w_fail counts the stdio calls that ended with errno <> 0; w_ledger the allocated file contexts; w_open the open
   FILE*; `wst w c fl op lg` = the file exists with content c, the fault plan is empty, and the three counters have these values. *)
From Coq Require Import ZArith List Bool.
From ScV Require Import Base.CInt MPI.Prog Gen.ErrClassC12 Gen.OpenC12 C12.FileModel C12.FileProofs C12.MpiioModel C12.OpenGen C12.MpiioProofs.
Import ListNotations.
Local Open Scope Z_scope.

(* ---- T1: the generated sc_io_error_class (both configurations) *)
Theorem C12_error_class_success c e : errclass c e = SUCCESS c <-> e = 0.
Proof. exact (errclass_success_iff c e). Qed.
Print Assumptions C12_error_class_success.

Theorem C12_error_class_converts c e : errclass_ret c e = SUCCESS c.
Proof. exact (errclass_ret_ok c e). Qed.
Print Assumptions C12_error_class_converts.

(* the table by class name, identical in both configurations (ENOENT is "no such file", ...; an unlisted value is UNKNOWN) *)
Theorem C12_error_class_table c :
  class_index c (errclass c e_ENOENT) = IDX_NO_SUCH_FILE /\ class_index c (errclass c e_EEXIST) = IDX_FILE_EXISTS
  /\ class_index c (errclass c e_EACCES) = IDX_ACCESS /\ class_index c (errclass c e_ENOSPC) = IDX_NO_SPACE
  /\ class_index c (errclass c e_ENOMEM) = IDX_NO_MEM /\ class_index c (errclass c e_EIO) = IDX_IO
  /\ class_index c (errclass c e_EISDIR) = IDX_BAD_FILE /\ class_index c (errclass c e_ENAMETOOLONG) = IDX_BAD_FILE
  /\ class_index c (errclass c e_EINVAL) = IDX_AMODE /\ class_index c (errclass c 0) = 0
  /\ class_index c (errclass c 100000) = IDX_UNKNOWN.
Proof. exact (errclass_table c). Qed.
Print Assumptions C12_error_class_table.

(* ---- open: same class on all ranks; SUCCESS iff fopen did not fail; a failed open leaves no context, no stream.
        `plan_okn` admits "success with errno noise" (entries (e, NOISE): the call succeeds and leaves errno = e, not counted in
        w_fail): a successful fopen is reported as SUCCESS WHATEVER errno it leaves, and no stream is left when the open is
        reported as failed (repair of F-C12j: `retval = (file == NULL) ? errno : 0`) *)
Theorem C12_open cfg P g am g' cls : 0 < P -> plan_okn (w_plan (g_w g)) ->
  g_open cfg P g am = (g', cls) ->
  agree cls /\ cls <> []
  /\ ((forall x, In x cls -> x = SUCCESS cfg) <-> w_fail (g_w g') = w_fail (g_w g))
  /\ ((forall x, In x cls -> x = SUCCESS cfg) ->
        g_ctx g' = true /\ g_s0 g' <> None /\ w_ledger (g_w g') = w_ledger (g_w g) + P /\ w_open (g_w g') = w_open (g_w g) + 1)
  /\ (~ (forall x, In x cls -> x = SUCCESS cfg) ->
        g_ctx g' = false /\ g_s0 g' = None /\ w_ledger (g_w g') = w_ledger (g_w g) /\ w_open (g_w g') = w_open (g_w g)).
Proof. exact (open_spec cfg P g am g' cls). Qed.
Print Assumptions C12_open.


(* regression guard for F-C12j: the line before the repair (`retval = errno`, `g_open_with open_judge_old`) on a fopen that
   succeeds and leaves errno = ESPIPE (glibc, mode "ab" on a pipe): an error class on both ranks, no context, no handle - and one
   stream left open; the current code on the same input: SUCCESS *)
Theorem C12_open_old_judge_refuted :
  let g := gstate0 (File [1; 2; 3]) plan_noise_fopen in
  (let '(g', cls) := g_open_with open_judge_old CfgC 2 g c12_SC_IO_WRITE_APPEND in
   cls = [errclass CfgC e_ESPIPE; errclass CfgC e_ESPIPE] /\ errclass CfgC e_ESPIPE <> SUCCESS CfgC
   /\ g_ctx g' = false /\ g_s0 g' = None /\ w_ledger (g_w g') = 0 /\ w_open (g_w g') = 1 /\ w_fail (g_w g') = 0)
  /\ (let '(g', cls) := g_open CfgC 2 g c12_SC_IO_WRITE_APPEND in
      cls = [SUCCESS CfgC; SUCCESS CfgC] /\ g_s0 g' = Some (mkS MAppend 3) /\ w_open (g_w g') = 1 /\ w_fail (g_w g') = 0).
Proof. exact open_old_judge_refuted. Qed.
Print Assumptions C12_open_old_judge_refuted.

(* ---- "success with errno noise" at the OTHER call sites of the unchanged code (findings errno-noise:<site>): witnesses with
        one noise entry in an otherwise empty plan; no call fails (w_fail = 0).  The statements under plan_ok (no noise) above
        are the positive halves. *)
(* errno-noise:at-transfer, errno-noise:at-restore-fseek *)
Theorem C12_noise_at_refuted :
  (let '(g', r) := g_at CfgC true (g_noise (plan_noise 0 FWRITE 0 e_EAGAIN) [] MWrite 0) 0 1 (mkA 0 2 [7; 8]) in
   r_cls r = errclass CfgC e_EAGAIN /\ r_cls r <> SUCCESS CfgC /\ r_ocount r = 2 /\ w_fail (g_w g') = 0 /\ content (g_w g') = [7; 8])
  /\ (let '(g', r) := g_at CfgA false (g_noise (plan_noise 0 FREAD 0 e_EINTR) [1; 2; 3] MRead 0) 0 1 (mkA 0 2 []) in
      r_cls r <> SUCCESS CfgA /\ r_ocount r = 2 /\ r_buf r = [1; 2] /\ w_fail (g_w g') = 0)
  /\ (let '(g', r) := g_at CfgC true (g_noise (plan_noise 0 FSEEK 1 e_ESPIPE) [] MWrite 0) 0 1 (mkA 0 2 [7; 8]) in
      r_cls r = errclass CfgC e_ESPIPE /\ r_cls r <> SUCCESS CfgC /\ r_ocount r = 2 /\ w_fail (g_w g') = 0 /\ g_s0 g' = Some (mkS MWrite 0)).
Proof. exact noise_at_witness. Qed.
Print Assumptions C12_noise_at_refuted.
(* errno-noise:close-fclose *)
Theorem C12_noise_close_refuted :
  g_close CfgC 2 (g_noise (plan_noise 0 FCLOSE 0 e_EINTR) [1] MWrite 0) = None
  /\ g_close CfgA 1 (g_noise (plan_noise 0 FCLOSE 0 e_EINTR) [1] MWrite 0) = None.
Proof. exact noise_close_witness. Qed.
Print Assumptions C12_noise_close_refuted.
(* errno-noise:coll-transfer (stays a finding: `errval = errno` after a complete fread / fwrite of the fallback) *)
Theorem C12_noise_coll_refuted :
  let args := [mkA 0 1 [1]; mkA 1 1 [2]; mkA 2 1 [3]] in
  let g pl := mkG (mkW (File []) pl (fun _ _ => 0) 0 1 0) (Some (mkS MWrite 0)) true in
  match g_coll true (g (plan_noise 2 FWRITE 0 e_EAGAIN)) 1 args with
  | Some (g', rs) => map r_cls rs = [errclass CfgC e_EAGAIN; errclass CfgC e_EAGAIN; errclass CfgC e_EAGAIN]
                     /\ errclass CfgC e_EAGAIN <> SUCCESS CfgC
                     /\ map r_ocount rs = [1; 1; 1] /\ w_fail (g_w g') = 0 /\ w_open (g_w g') = 1 /\ content (g_w g') = [1; 2; 3]
  | None => False end.
Proof. exact noise_coll_witness. Qed.
Print Assumptions C12_noise_coll_refuted.

(* regression guard for the four fopen judgements of the fallback (former findings errno-noise:coll-fopen and
   errno-noise:coll-reopen, repaired like F-C12j): the lines before the repair (`g_coll_old`) on a fopen that succeeds with
   errno = ESPIPE: every rank reports its class, rank 1 writes nothing and its stream stays open; at the re-open of rank 0 the
   group aborts.  The current code on the same inputs: SUCCESS, all blocks written, one stream open *)
Theorem C12_coll_old_judge_refuted :
  let args := [mkA 0 1 [1]; mkA 1 1 [2]; mkA 2 1 [3]] in
  let g pl := mkG (mkW (File []) pl (fun _ _ => 0) 0 1 0) (Some (mkS MWrite 0)) true in
  (match g_coll_old true (g (plan_noise 1 FOPEN 0 e_ESPIPE)) 1 args with
   | Some (g', rs) => map r_cls rs = [errclass CfgC e_ESPIPE; errclass CfgC e_ESPIPE; errclass CfgC e_ESPIPE]
                      /\ errclass CfgC e_ESPIPE <> SUCCESS CfgC
                      /\ map r_ocount rs = [1; 0; 0] /\ w_fail (g_w g') = 0 /\ w_open (g_w g') = 2 /\ content (g_w g') = [1]
   | None => False end)
  /\ g_coll_old true (g (plan_noise 0 FOPEN 0 e_ESPIPE)) 1 args = None
  /\ (forall q, q = 0 \/ q = 1 ->
      match g_coll true (g (plan_noise q FOPEN 0 e_ESPIPE)) 1 args with
      | Some (g', rs) => map r_cls rs = [SUCCESS CfgC; SUCCESS CfgC; SUCCESS CfgC] /\ map r_ocount rs = [1; 1; 1]
                         /\ w_fail (g_w g') = 0 /\ w_open (g_w g') = 1 /\ content (g_w g') = [1; 2; 3]
      | None => False end).
Proof. exact coll_old_judge_refuted. Qed.
Print Assumptions C12_coll_old_judge_refuted.

(* ---- close: same class on all ranks; SUCCESS iff fclose did not fail; every context is freed *)
Theorem C12_close cfg P g g' cls : 0 < P -> plan_ok (w_plan (g_w g)) ->
  g_close cfg P g = Some (g', cls) ->
  agree cls /\ cls <> []
  /\ ((forall x, In x cls -> x = SUCCESS cfg) <-> w_fail (g_w g') = w_fail (g_w g))
  /\ g_ctx g' = false /\ g_s0 g' = None /\ w_ledger (g_w g') = w_ledger (g_w g) - P
  /\ w_open (g_w g') = w_open (g_w g) - (match g_s0 g with Some _ => 1 | None => 0 end).
Proof. exact (close_spec cfg P g g' cls). Qed.
Print Assumptions C12_close.

(* ---- collective read/write of configuration C (token passing): all ranks return the class of one value ... *)
Theorem C12_coll_agree wr g size args g' rs : g_coll wr g size args = Some (g', rs) ->
  exists ev, forall r, In r rs -> r_cls r = errclass CfgC ev.
Proof. exact (coll_agree wr g size args g' rs). Qed.
Print Assumptions C12_coll_agree.

(* ... and it is SUCCESS iff no stdio call of any rank failed during the operation (the repaired code; reverting the
   take-over of the error token or the protection of errval on rank 0 makes this statement false) *)
Theorem C12_coll_success_iff wr g size args g' rs : 0 < size -> plan_ok (w_plan (g_w g)) ->
  Forall (fun a => 0 <= a_count a) args -> args <> [] ->
  g_coll wr g size args = Some (g', rs) ->
  rs <> [] /\ ((forall r, In r rs -> r_cls r = SUCCESS CfgC) <-> w_fail (g_w g') = w_fail (g_w g))
  /\ w_ledger (g_w g') = w_ledger (g_w g).
Proof. exact (coll_success_iff wr g size args g' rs). Qed.
Print Assumptions C12_coll_success_iff.

(* ---- fault-free collective write: the blocks are appended in rank order, ocount = count *)
Theorem C12_coll_write g c fl op lg s size args :
  wst (g_w g) c fl op lg -> g_s0 g = Some s -> at_end s c -> args <> [] -> Forall (wf_arg size) args ->
  exists g', g_coll true g size args = Some (g', map (fun a => mkR (SUCCESS CfgC) (a_count a) []) args)
             /\ wst (g_w g') (c ++ concat (map a_data args)) fl op lg
             /\ g_s0 g' = Some (mkS MAppend (len (c ++ concat (map a_data args))))
             /\ g_ctx g' = g_ctx g.
Proof. exact (coll_write_nf g c fl op lg s size args). Qed.
Print Assumptions C12_coll_write.

Theorem C12_coll_writes calls g c fl op lg s size :
  wst (g_w g) c fl op lg -> g_s0 g = Some s -> at_end s c ->
  Forall (fun args => args <> [] /\ Forall (wf_arg size) args) calls ->
  exists g', g_colls g size calls = Some g'
             /\ wst (g_w g') (c ++ concat (map (fun args => concat (map a_data args)) calls)) fl op lg.
Proof. exact (coll_writes_nf calls g c fl op lg s size). Qed.
Print Assumptions C12_coll_writes.

(* ---- fault-free collective read: each rank gets the whole elements found at its offset *)
Theorem C12_coll_read g c fl op lg s size args :
  wst (g_w g) c fl op lg -> g_s0 g = Some s -> st_mode s = MRead -> args <> [] ->
  Forall (fun a => 0 <= a_off a) args ->
  exists g', g_coll false g size args = Some (g', map (read_res c size) args)
             /\ wst (g_w g') c fl op lg /\ g_s0 g' = Some (mkS MRead 0) /\ g_ctx g' = g_ctx g.
Proof. exact (coll_read_nf g c fl op lg s size args). Qed.
Print Assumptions C12_coll_read.

(* ---- the round trip as a whole (configuration C): open-create, write blocks consecutively, close, open-read, read at
        the same offsets, close: every call returns SUCCESS on every rank, counts are the block lengths, the data read
        are the data written, the file is the concatenation in rank order, nothing stays allocated or open *)
Theorem C12_roundtrip_C P size args node pl :
  0 < size -> args <> [] -> Forall (wf_arg size) args -> consec 0 args ->
  (forall q f k, pl q f k = None) -> (node = Absent \/ exists c0, node = File c0) ->
  exists g,
    g_scen CfgC P (gstate0 node pl)
      [OOpen c12_SC_IO_WRITE_CREATE; OColl true size args; OClose;
       OOpen c12_SC_IO_READ; OColl false size args; OClose]
    = Some (g, [out_all CfgC P false;
                map (fun a => enc CfgC (SUCCESS CfgC) (a_count a) false []) args;
                out_all CfgC P true;
                out_all CfgC P false;
                map (fun a => enc CfgC (SUCCESS CfgC) (a_count a) false (a_data a)) args;
                out_all CfgC P true])
    /\ wst (g_w g) (concat (map a_data args)) 0 0 0 /\ g_s0 g = None /\ g_ctx g = false.
Proof. exact (roundtrip_scenario_C P size args node pl). Qed.
Print Assumptions C12_roundtrip_C.

(* ---- explicit-offset calls (configuration A; rank 0 in C), fault-free: write lands at the offset, the stream position
        is restored, and what was written at an offset is what a read at that offset finds *)
Theorem C12_at_write cfg g c fl op lg m p q size a :
  wst (g_w g) c fl op lg -> g_s0 g = Some (mkS m p) -> m <> MRead -> 0 <= p -> 0 <= a_off a -> 0 < a_count a ->
  len (a_data a) = size * a_count a ->
  exists g', g_at cfg true g q size a = (g', mkR (SUCCESS cfg) (a_count a) [])
    /\ wst (g_w g') (put c (at_pos m c (a_off a)) (a_data a)) fl op lg
    /\ g_s0 g' = Some (mkS m p) /\ g_ctx g' = g_ctx g.
Proof. exact (at_write_nf cfg g c fl op lg m p q size a). Qed.
Print Assumptions C12_at_write.

Theorem C12_at_read cfg g c fl op lg p q size a :
  wst (g_w g) c fl op lg -> g_s0 g = Some (mkS MRead p) -> 0 <= p -> 0 <= a_off a -> a_count a <> 0 ->
  exists g', g_at cfg false g q size a =
               (g', mkR (SUCCESS cfg) (whole c (a_off a) size (a_count a))
                        (firstn (Z.to_nat (size * whole c (a_off a) size (a_count a))) (avail c (a_off a) size (a_count a))))
    /\ wst (g_w g') c fl op lg /\ g_s0 g' = Some (mkS MRead p) /\ g_ctx g' = g_ctx g.
Proof. exact (at_read_nf cfg g c fl op lg p q size a). Qed.
Print Assumptions C12_at_read.

Theorem C12_read_after_write c off d size count : 0 <= off -> len d = size * count ->
  avail (put c off d) off size count = d.
Proof. exact (avail_put c off d size count). Qed.
Print Assumptions C12_read_after_write.

(* ---- configurations A and C produce the same file from blocks that are consecutive in rank order *)
Theorem C12_configs_agree gA gC c flA opA lgA flC opC lgC m p s size args :
  wst (g_w gA) c flA opA lgA -> g_s0 gA = Some (mkS m p) -> m <> MRead -> 0 <= p ->
  wst (g_w gC) c flC opC lgC -> g_s0 gC = Some s -> at_end s c ->
  args <> [] -> Forall (wf_arg size) args -> consec (len c) args ->
  exists gA' gC' rsC,
    g_at_all CfgA true gA 0 size args = (gA', map (fun a => mkR (SUCCESS CfgA) (a_count a) []) args)
    /\ g_coll true gC size args = Some (gC', rsC)
    /\ map r_ocount rsC = map a_count args
    /\ content (g_w gA') = c ++ concat (map a_data args)
    /\ content (g_w gC') = content (g_w gA').
Proof. exact (configs_agree_nf gA gC c flA opA lgA flC opC lgC m p s size args). Qed.
Print Assumptions C12_configs_agree.

(* ---- explicit-offset calls under EVERY fault plan (sc_io_read_at / sc_io_write_at without MPI I/O, configurations A and C):
        the class is SUCCESS iff no stdio call of the operation (ftell, fseek, fread/fwrite, position-restoring fseek) ended
        with an error; ocount lies in 0..count and is what was transferred: a write put exactly the first ocount elements of
        the data into the file at the offset (at the end in mode "ab") and changed nothing else, a read left the file as it
        was and stored exactly the ocount whole elements found at the offset; no context, no stream appears or disappears.
        (F-C12f, repaired by 3510a9a: before, a partial transfer with errno set returned SUCCESS, and the first conjunct was
        false - see C12_at_old_tail_refuted.) *)
Theorem C12_at_success_iff cfg wr g q size a g' r : plan_ok (w_plan (g_w g)) -> 0 <= a_count a -> 0 < size ->
  g_at cfg wr g q size a = (g', r) ->
  (r_cls r = SUCCESS cfg <-> w_fail (g_w g') = w_fail (g_w g))
  /\ 0 <= r_ocount r <= a_count a
  /\ (if wr then
        r_buf r = []
        /\ ((r_ocount r = 0 /\ content (g_w g') = content (g_w g))
            \/ exists m p, g_s0 g = Some (mkS m p) /\ m <> MRead
                 /\ content (g_w g') = put (content (g_w g)) (at_pos m (content (g_w g)) (a_off a))
                                           (firstn (Z.to_nat (size * r_ocount r)) (a_data a)))
      else
        content (g_w g') = content (g_w g)
        /\ r_buf r = firstn (Z.to_nat (size * r_ocount r)) (skipn (Z.to_nat (a_off a)) (content (g_w g))))
  /\ w_ledger (g_w g') = w_ledger (g_w g) /\ w_open (g_w g') = w_open (g_w g).
Proof. exact (at_success_iff cfg wr g q size a g' r). Qed.
Print Assumptions C12_at_success_iff.

(* the tail of both functions before repair 3510a9a (`at_tail_old`: the class of the restoring fseek's errno replaces the
   class of the transfer) refutes the first conjunct of C12_at_success_iff: fwrite stores one of four elements and sets
   ENOSPC, the fseek back succeeds: class SUCCESS with one failed stdio call.  The code as it is (`g_at` = `g_at_with at_tail`)
   returns the class of ENOSPC on the same input. *)
Theorem C12_at_old_tail_refuted :
  plan_ok (w_plan (g_w g_partial)) /\ 0 <= a_count a_partial
  /\ (exists g' r, g_at_with at_tail_old CfgA true g_partial 0 1 a_partial = (g', r)
                   /\ r_cls r = SUCCESS CfgA /\ r_ocount r = 1 /\ a_count a_partial = 4
                   /\ w_fail (g_w g') = w_fail (g_w g_partial) + 1)
  /\ (exists g' r, g_at CfgA true g_partial 0 1 a_partial = (g', r)
                   /\ r_cls r = errclass CfgA e_ENOSPC /\ r_cls r <> SUCCESS CfgA /\ r_ocount r = 1
                   /\ w_fail (g_w g') = w_fail (g_w g_partial) + 1).
Proof. exact at_old_tail_refuted. Qed.
Print Assumptions C12_at_old_tail_refuted.

(* ---- known finding F-C12e.  C12_coll_write says where the fallback puts the blocks: at the end of rank 0's stream,
        whatever the offsets.  Full statement (FALSE in configuration C): the file afterwards is `put` of every block at its
        offset.  Witness: a 2-byte header by sc_io_write_at, then blocks at offsets 2 and 3: configuration A gives
        header+blocks, configuration C writes block 0 over the header. *)
Theorem C12_coll_offset_refuted :
  (exists g outs, g_scen CfgC 2 (gstate0 Absent (fun _ _ _ => None)) ops_header = Some (g, outs)
                  /\ w_fail (g_w g) = 0 /\ content (g_w g) = [20; 11; 30])
  /\ (exists g outs, g_scen CfgA 2 (gstate0 Absent (fun _ _ _ => None)) ops_header = Some (g, outs)
                     /\ w_fail (g_w g) = 0 /\ content (g_w g) = [10; 11; 20; 30]).
Proof. exact coll_offset_refuted. Qed.
Print Assumptions C12_coll_offset_refuted.

(* ---- documented limitation of the append mode "ab": the offset of an explicit-offset write is ignored *)
Theorem C12_append_ignores_offset cfg g c fl op lg p q size a :
  wst (g_w g) c fl op lg -> g_s0 g = Some (mkS MAppend p) -> 0 <= p -> 0 <= a_off a -> 0 < a_count a ->
  len (a_data a) = size * a_count a ->
  exists g', g_at cfg true g q size a = (g', mkR (SUCCESS cfg) (a_count a) [])
    /\ wst (g_w g') (c ++ a_data a) fl op lg.
Proof. exact (at_write_append_ignores_offset cfg g c fl op lg p q size a). Qed.
Print Assumptions C12_append_ignores_offset.

(* ---- the hypotheses are satisfiable *)
Example C12_ex_args : Forall (wf_arg 4) ex_args /\ consec 0 ex_args /\ ex_args <> [].
Proof. exact ex_args_ok. Qed.
Example C12_ex_plan : plan_ok plan_rank1 /\ plan_ok plan_partial.
Proof. split; [exact plan_rank1_ok | exact plan_partial_ok]. Qed.
Example C12_ex_fault_run :
  exists g' rs, g_coll true (mkG (world0 (File []) plan_rank1) (Some (mkS MWrite 0)) true) 4 ex_args = Some (g', rs)
                /\ map r_cls rs = [errclass CfgC e_EACCES; errclass CfgC e_EACCES; errclass CfgC e_EACCES]
                /\ map r_ocount rs = [2; 0; 0] /\ w_fail (g_w g') = 1.
Proof. exact ex_fault_run. Qed.

(* ================================================================== EVERY SCHEDULE (appended block; C12/FileSched.v, MPI/SemShared.v)
   The theorems above are about the global sequential model (ranks take their turns in rank order).  The theorems below are
   about the PER-RANK PROGRAMS (`coll_prog`, the ones co-simulated against the real code) in the interleaving semantics of
   MPI/SemShared.v: Send / Recv (named source, ANY_TAG) over FIFO channels with buffered sends; Barrier and Bcast happen when
   all ranks have arrived; every stdio call is a LOCAL step of the calling rank that reads and updates the SHARED file system
   state (`fsys`: the world of the global model + the FILE* of every rank) - two ranks' stdio steps do not commute, and nothing
   in the semantics keeps them apart.  `crun P m s s'` = some schedule leads from s to s' in m steps. *)
From ScV Require Import MPI.SemShared C12.FileSched.

(* the generic theorem: ONE schedule of the token-instrumented semantics that ends in a final state without a race decides
   EVERY schedule of the plain semantics (any shared state, any effect function, any programs) *)
Theorem C12_one_schedule_all_schedules (Sh : Type) P is_local eff creply gives ctok (s0 f : st Sh) tk0 tkf n :
  irun Sh P is_local eff creply gives ctok n (Good s0 tk0) (Good f tkf) -> final Sh P f ->
  forall m s', run Sh P is_local eff creply m s0 s' ->
    (m <= n)%nat /\ run Sh P is_local eff creply (n - m) s' f
    /\ (final Sh P s' -> s' = f /\ m = n)
    /\ (final Sh P s' \/ exists l s'', step Sh P is_local eff creply s' l s'')
    /\ (forall r1 r2, local_at Sh P is_local s' r1 -> local_at Sh P is_local s' r2 -> r1 = r2).
Proof. exact (one_schedule_independent Sh P is_local eff creply gives ctok s0 tk0 f tkf n). Qed.
Print Assumptions C12_one_schedule_all_schedules.

(* collective read / write of the fallback, ANY P >= 1 (= number of entries of args), ANY element size, counts, contents, offsets,
   ANY fault plan (plan_ok is not even needed), any initial world and stream of rank 0: whenever the global model predicts a
   result (g_coll <> None, i.e. none of the SC_CHECK_ABORTs on fseek / fflush / fclose / re-open fires), then from the state in
   which every rank starts its coll_prog (channels empty, rank 0 holding its stream):
     - every schedule has at most n steps and can be completed to `coll_final` in exactly n steps (EVERY MAXIMAL RUN TERMINATES);
     - every schedule that ends, ends in `coll_final`: rank r has returned class / ocount / buffer of the r-th result of g_coll,
       rank 0 holds the re-opened stream, all channels are empty, the world is the world g_coll predicts (file content, call
       counters, failed calls, open streams);
     - no reachable state is stuck;
     - at every reachable state at most one rank has a stdio call as its next action (mutual exclusion by the token). *)
(* (every plan, "success with errno noise" at any call included: since the fopen calls of the fallback are judged by the
   returned stream no hypothesis about the plan is needed) *)
Theorem C12_coll_every_schedule wr size args g g' rs : 0 < len args ->
  g_coll wr g size args = Some (g', rs) ->
  let P := len args in
  let start := coll_state wr P size args (g_w g) (g_s0 g) in
  let fin := coll_final P g' rs in
  cfinal P fin
  /\ exists n, forall m s', crun P m start s' ->
       (m <= n)%nat /\ crun P (n - m) s' fin
       /\ (cfinal P s' -> s' = fin /\ m = n)
       /\ (cfinal P s' \/ exists l s'', cstep P s' l s'')
       /\ (forall r1 r2, local_at fsys P c12_local s' r1 -> local_at fsys P c12_local s' r2 -> r1 = r2).
Proof. exact (coll_every_schedule wr size args g g' rs). Qed.
Print Assumptions C12_coll_every_schedule.

(* ... and when the global model predicts an ABORT (g_coll = None: read_at_all's fseek, an fflush, an fclose, or the re-open by
   rank 0 failed - SC_CHECK_ABORT, i.e. MPI_Abort in the real code), for every fault plan with plan_ok and rank 0 holding a stream:
   EVERY schedule leads to one and the same TERMINAL state f (no step possible) in which some rank has called SC_ABORT (its
   program is `abort`) and the others wait for ever at the barrier / the broadcast / for the token: every schedule has at most n
   steps, can be completed to f, every state without a step IS f, every other reachable state has a step, and again at most
   one rank is ever at a stdio call.  Together with C12_coll_every_schedule: under plan_ok the outcome of the collective
   operation - result or abort - is the one of the global model in every schedule. *)
Theorem C12_coll_abort_every_schedule wr size args g : 0 < len args ->
  plan_ok (w_plan (g_w g)) -> is_some (g_s0 g) = true ->
  g_coll wr g size args = None ->
  let P := len args in
  let start := coll_state wr P size args (g_w g) (g_s0 g) in
  exists f n, (exists r, 0 <= r < P /\ spr f r = abort)
    /\ (forall l s', ~ cstep P f l s')
    /\ forall m s', crun P m start s' ->
         (m <= n)%nat /\ crun P (n - m) s' f
         /\ ((forall l s'', ~ cstep P s' l s'') -> s' = f /\ m = n)
         /\ (s' = f \/ exists l s'', cstep P s' l s'')
         /\ (forall r1 r2, local_at fsys P c12_local s' r1 -> local_at fsys P c12_local s' r2 -> r1 = r2).
Proof. exact (coll_abort_every_schedule wr size args g). Qed.
Print Assumptions C12_coll_abort_every_schedule.

(* the property sentence for the fallback: "when all ranks collectively write blocks ..., the file contains exactly these blocks
   in rank order" - in EVERY schedule: no reachable state is stuck, and whenever all ranks have returned, the file is the old
   content followed by the blocks in rank order, every rank has returned SUCCESS with ocount = count, rank 0 holds a stream *)
Theorem C12_coll_write_every_schedule g c fl op lg s size args :
  wst (g_w g) c fl op lg -> g_s0 g = Some s -> at_end s c -> args <> [] -> Forall (wf_arg size) args ->
  forall m s', crun (len args) m (coll_state true (len args) size args (g_w g) (g_s0 g)) s' ->
    (cfinal (len args) s' \/ exists l s'', cstep (len args) s' l s'')
    /\ (cfinal (len args) s' ->
          content (fs_w (ssh s')) = c ++ concat (map a_data args)
          /\ forall r, 0 <= r < len args ->
               spr s' r = k_ret (SUCCESS CfgC) (a_count (arg_of args r)) [] (mkH true (r =? 0))).
Proof. exact (coll_write_every_schedule g c fl op lg s size args). Qed.
Print Assumptions C12_coll_write_every_schedule.

(* the WHOLE SCENARIO of the harness (configuration C): any sequence of open / close / collective read or write / explicit-offset
   read or write by rank 0, any P >= 1, any initial file node, any fault plan with plan_ok, every OColl with one argument per
   rank; whenever the global model g_scen predicts a result (no SC_CHECK_ABORT fires): from the state in which every rank runs
   its `scen_prog_C` EVERY schedule terminates in `scen_final` - rank r has printed exactly what g_scen prints for it, operation
   by operation; the world is the one of g_scen (`erase`: without the ledger of allocated contexts, which is no action of the
   programs); rank 0 holds the stream g_scen says, no other rank holds one; all channels are empty - after the same number of
   steps; no reachable state is stuck; at most one rank is ever at a stdio call. *)
Theorem C12_scenario_every_schedule P ops node pl g' outs : 0 < P -> plan_ok pl -> ops_ok P ops ->
  g_scen CfgC P (gstate0 node pl) ops = Some (g', outs) ->
  let start := scen_state P ops node pl in
  let fin := scen_final P g' outs in
  cfinal P fin
  /\ exists n, forall m s', crun P m start s' ->
       (m <= n)%nat /\ crun P (n - m) s' fin
       /\ (cfinal P s' -> s' = fin /\ m = n)
       /\ (cfinal P s' \/ exists l s'', cstep P s' l s'')
       /\ (forall r1 r2, local_at fsys P c12_local s' r1 -> local_at fsys P c12_local s' r2 -> r1 = r2).
Proof. exact (scen_every_schedule P ops node pl g' outs). Qed.
Print Assumptions C12_scenario_every_schedule.

(* all maximal schedules of small instances enumerated by computation (tests of the statements; P = 3 and P = 1, with faults) *)
Example C12_ex_sched_write : fst (test_coll true 2 targs (world0 (File [100; 101]) tplan2) (Some (mkS MAppend 2))) = true.
Proof. exact test_write_enospc. Qed.
Example C12_ex_sched_read : fst (test_coll false 2 targs (world0 (File [1;2;3;4;5;6;7;8;9]) tplan2) (Some (mkS MRead 0))) = true.
Proof. exact test_read_short. Qed.
Example C12_ex_sched_scenario : fst (test_scen 3 tops Absent tplan2) = true.
Proof. exact test_scen_faults. Qed.

(* ================================================================== T1: sc_io_open / close / read / write in three configurations *)
(* (appended block; coq/C12/OpenGen.v)  The per-rank programs of the models - the ones co-simulated against the real code - are
   proved EQUAL to the definitions tools/c2g generates from the CURRENT src/sc_io.c in each configuration (Gen/OpenC12.v:
   A = without MPI, C = MPI without MPI I/O, B = MPI with MPI I/O).  `obs p replies` = the actions program p performs when the
   environment answers with these replies, and its result.  In the generated tuples <f>_called / <f>_arg<i> are the calls of the
   C function with their arguments, `ok` is the conjunction of all SC_CHECK_ABORT / SC_CHECK_MPI conditions (0 after SC_ABORT). *)
(* sc_io_parse_access_mode without MPI: SC_IO_READ / WRITE_CREATE / WRITE_APPEND -> "rb" / "wb" / "ab" *)
Theorem C12_gen_parse_A : forall a m, valid_amode a -> sc_io_parse_access_mode_A a m = (1, mode_str (mode_of_amode a)).
Proof. exact gen_parse_A. Qed.
Print Assumptions C12_gen_parse_A.

(* the same function with MPI but without MPI I/O *)
Theorem C12_gen_parse_C : forall a m, valid_amode a -> sc_io_parse_access_mode_C a m = (1, mode_str (mode_of_amode a)).
Proof. exact gen_parse_C. Qed.
Print Assumptions C12_gen_parse_C.

(* with MPI I/O: RDONLY / WRONLY|CREATE / WRONLY|APPEND (an edit of one of the three lines breaks this theorem) *)
Theorem C12_gen_parse_B : forall a m, valid_amode a -> sc_io_parse_access_mode_B a m = (1, amode_bits a).
Proof. exact gen_parse_B. Qed.
Print Assumptions C12_gen_parse_B.

(* any other value of the enumeration ends in SC_ABORT in all three configurations *)
Theorem C12_gen_parse_invalid : forall a m, ~ valid_amode a ->
  fst (sc_io_parse_access_mode_A a m) = 0 /\ fst (sc_io_parse_access_mode_C a m) = 0 /\ fst (sc_io_parse_access_mode_B a m) = 0.
Proof. exact gen_parse_invalid. Qed.
Print Assumptions C12_gen_parse_invalid.

(* the fopen modes of the token-passing fallback (a rank's turn, rank 0's re-open): "rb" for reads, "ab" for writes *)
Theorem C12_gen_fallback_modes :
  oc_fallback_modes_read = [mode_str MRead; mode_str MRead] /\ oc_fallback_modes_write = [mode_str MAppend; mode_str MAppend].
Proof. exact gen_fallback_modes. Qed.
Print Assumptions C12_gen_fallback_modes.

(* how the fallback judges its four fopen calls (the statement behind each `mpifile->file = fopen (..)`): errval of a rank > 0
   = errno only if the stream is NULL; the re-open of rank 0 aborts exactly when the stream is NULL *)
Theorem C12_gen_fallback_judgements : forall file e,
  oc_fallback_errval_read file e = open_judge (nz file) e /\ oc_fallback_errval_write file e = open_judge (nz file) e
  /\ oc_fallback_reopen_bad_read file e = negb (nz file) /\ oc_fallback_reopen_bad_write file e = negb (nz file).
Proof. exact gen_fallback_judgements. Qed.
Print Assumptions C12_gen_fallback_judgements.

(* sc_io_open, MPI without MPI I/O *)
Theorem C12_gen_open_C : forall me amode comm fname info fileptr szof mret size_out size_ret rank_ret errno0 fo_errno fo_ret bc_out bc_ret ec_ret,
  valid_amode amode -> (me = 0 -> bc_out = open_judge (nz fo_ret) fo_errno) ->
  let '(pm_called, pm_arg0, malloc_called, malloc_arg1, csize_called, csize_arg0, crank_called, crank_arg0, fopen_called,
        fopen_arg0, fopen_arg1, bc_called, bc_in0, bc_arg1, bc_arg2, bc_root, bc_comm, ec_called, ec_arg0, free_called, free_arg1,
        ok, hdl, file, ret) :=
    sc_io_open_C comm fname amode info fileptr (snd (sc_io_parse_access_mode_C amode 0)) szof mret size_out size_ret me rank_ret
                 errno0 fo_errno fo_ret bc_out bc_ret (errclass CfgC bc_out) ec_ret in
  MpiioModel.obs (open_prog CfgC me amode kfin) ((if me =? 0 then [[b2z (nz fo_ret); fo_errno]] else []) ++ [[bc_out]])
  = ((if fopen_called =? 1 then [Coll K_FOPEN 0 [mode_code_of_str fopen_arg1]] else [])
       ++ (if bc_called =? 1 then [Coll K_BCAST bc_root (if me =? bc_root then [bc_in0] else [])] else []),
     Some [ret; malloc_called - free_called; if free_called =? 1 then 0 else b2z (nz file)])
  /\ pm_called = 1 /\ pm_arg0 = amode /\ ec_called = 1 /\ ec_arg0 = bc_out /\ bc_arg1 = 1 /\ bc_comm = comm /\ fopen_arg0 = (if me =? 0 then fname else 0)
  /\ (free_called = 1 -> free_arg1 = mret /\ hdl = 0) /\ (free_called = 0 -> hdl = mret)
  /\ (ok = 1 <-> size_ret = 0 /\ rank_ret = 0 /\ bc_ret = 0 /\ ec_ret = 0).
Proof. exact gen_open_C. Qed.
Print Assumptions C12_gen_open_C.

(* sc_io_open without MPI *)
Theorem C12_gen_open_A : forall amode comm fname info fileptr szof mret size_out size_ret rank_ret errno0 fo_errno fo_ret bc_ret ec_ret,
  valid_amode amode ->
  let '(pm_called, pm_arg0, malloc_called, malloc_arg1, csize_called, csize_arg0, crank_called, crank_arg0, fopen_called,
        fopen_arg0, fopen_arg1, bc_called, bc_in0, bc_arg1, bc_arg2, bc_root, bc_comm, ec_called, ec_arg0, free_called, free_arg1,
        ok, hdl, file, ret) :=
    sc_io_open_A comm fname amode info fileptr (snd (sc_io_parse_access_mode_A amode 0)) szof mret size_out size_ret 0 rank_ret
                 errno0 fo_errno fo_ret (open_judge (nz fo_ret) fo_errno) bc_ret (errclass CfgA (open_judge (nz fo_ret) fo_errno)) ec_ret in
  MpiioModel.obs (open_prog CfgA 0 amode kfin) [[b2z (nz fo_ret); fo_errno]]
  = ((if fopen_called =? 1 then [Coll K_FOPEN 0 [mode_code_of_str fopen_arg1]] else []),
     Some [ret; malloc_called - free_called; if free_called =? 1 then 0 else b2z (nz file)])
  /\ bc_in0 = open_judge (nz fo_ret) fo_errno /\ pm_called = 1 /\ pm_arg0 = amode /\ ec_called = 1
  /\ ec_arg0 = open_judge (nz fo_ret) fo_errno /\ fopen_arg0 = fname
  /\ (free_called = 1 -> free_arg1 = mret /\ hdl = 0) /\ (free_called = 0 -> hdl = mret)
  /\ (ok = 1 <-> size_ret = 0 /\ rank_ret = 0 /\ bc_ret = 0 /\ ec_ret = 0).
Proof. exact gen_open_A. Qed.
Print Assumptions C12_gen_open_A.

(* sc_io_open with MPI I/O: MPI_File_open with the parsed amode; MPI_File_set_size (0) exactly when the open succeeded and amode is
   SC_IO_WRITE_CREATE; MPI_File_close exactly when that truncation's class is not SUCCESS (repair of F-C12h; its result is dropped);
   the class returned; the handle left behind (MPI_FILE_NULL after that close) *)
Theorem C12_gen_open_B : forall ecl amode comm fname info fileptr fh o_ret ec_ret s_ret ec2_ret c_ret,
  valid_amode amode -> (nz fh = (o_ret =? 0)) ->
  let '(pm_called, pm_arg0, mo_called, mo_comm, mo_name, mo_amode, mo_info, ec_called, ec_arg0, ss_called, ss_file, ss_size,
        ec2_called, ec2_arg0, mc_called, ok, hdl, ret) :=
    sc_io_open_B comm fname amode info fileptr (snd (sc_io_parse_access_mode_B amode 0)) fh o_ret (ecl o_ret) ec_ret s_ret
                 (ecl s_ret) ec2_ret 0 in
  MpiioModel.obs (open_prog_B ecl amode kfinB) [[o_ret]; [s_ret]; [c_ret]]
  = ((if mo_called =? 1 then [Coll K_MOPEN 0 [mo_amode]] else []) ++ (if ss_called =? 1 then [Coll K_MSETSIZE 0 [ss_size]] else [])
       ++ (if mc_called =? 1 then [Coll K_MCLOSE 0 []] else []),
     Some [ret; b2z (nz hdl)])
  /\ pm_called = 1 /\ pm_arg0 = amode /\ mo_comm = comm /\ mo_name = fname /\ mo_info = info /\ ec_called = 1 /\ ec_arg0 = o_ret
  /\ (ss_called = 1 -> ss_file = fh /\ ec2_called = 1 /\ ec2_arg0 = s_ret /\ ret = ecl s_ret)
  /\ (mc_called = 1 <-> ss_called = 1 /\ ecl s_ret <> 0) /\ hdl = (if mc_called =? 1 then 0 else fh)
  /\ (ok = 1 <-> ec_ret = 0 /\ (ss_called = 1 -> ec2_ret = 0)).
Proof. exact gen_open_B. Qed.
Print Assumptions C12_gen_open_B.

(* sc_io_close, MPI without MPI I/O (incl. the SC_CHECK_ABORT `fclose return value inconsistent`) *)
Theorem C12_gen_close_C : forall me fileptr file errno0 fc_errno fc_ret ec_ret comm bc_out bc_ret hdl0,
  (me = 0 -> bc_out = (if nz file then errclass CfgC fc_errno else 0)) -> (nz file = true -> me = 0) ->
  let '(fclose_called, fclose_arg0, ec_called, ec_arg0, bc_called, bc_in0, bc_arg1, bc_arg2, bc_root, bc_comm, free_called,
        free_arg1, ok, hdl, ret) :=
    sc_io_close_C fileptr file errno0 fc_errno fc_ret (errclass CfgC fc_errno) ec_ret comm bc_out bc_ret hdl0 in
  (ok = 1 ->
   MpiioModel.obs (close_prog CfgC me (mkH true (nz file)) kfin) ((if nz file then [[fc_ret; fc_errno]] else []) ++ [[bc_out]])
   = ((if fclose_called =? 1 then [Coll K_FCLOSE 0 []] else [])
        ++ (if bc_called =? 1 then [Coll K_BCAST bc_root (if me =? bc_root then [bc_in0] else [])] else []),
      Some [ret; 1 - free_called; 0]))
  /\ (ok = 0 -> nz file = true ->
      MpiioModel.obs (close_prog CfgC me (mkH true (nz file)) kfin) [[fc_ret; fc_errno]] = ([Coll K_FCLOSE 0 []], Some [ABORT_MARK])
      \/ ec_ret <> 0 \/ bc_ret <> 0)
  /\ free_called = 1 /\ free_arg1 = hdl0 /\ hdl = 0 /\ bc_comm = comm /\ fclose_arg0 = (if nz file then file else 0)
  /\ ec_arg0 = (if nz file then fc_errno else 0).
Proof. exact gen_close_C. Qed.
Print Assumptions C12_gen_close_C.

(* sc_io_close without MPI *)
Theorem C12_gen_close_A : forall fileptr file errno0 fc_errno fc_ret ec_ret comm bc_ret hdl0,
  let '(fclose_called, fclose_arg0, ec_called, ec_arg0, bc_called, bc_in0, bc_arg1, bc_arg2, bc_root, bc_comm, free_called,
        free_arg1, ok, hdl, ret) :=
    sc_io_close_A fileptr file errno0 fc_errno fc_ret (errclass CfgA fc_errno) ec_ret comm
                  (if nz file then errclass CfgA fc_errno else 0) bc_ret hdl0 in
  (ok = 1 ->
   MpiioModel.obs (close_prog CfgA 0 (mkH true (nz file)) kfin) (if nz file then [[fc_ret; fc_errno]] else [])
   = ((if fclose_called =? 1 then [Coll K_FCLOSE 0 []] else []), Some [ret; 1 - free_called; 0]))
  /\ (ok = 0 -> nz file = true ->
      MpiioModel.obs (close_prog CfgA 0 (mkH true (nz file)) kfin) [[fc_ret; fc_errno]] = ([Coll K_FCLOSE 0 []], Some [ABORT_MARK])
      \/ ec_ret <> 0 \/ bc_ret <> 0)
  /\ bc_in0 = (if nz file then errclass CfgA fc_errno else 0)
  /\ free_called = 1 /\ free_arg1 = hdl0 /\ hdl = 0 /\ fclose_arg0 = (if nz file then file else 0)
  /\ ec_arg0 = (if nz file then fc_errno else 0).
Proof. exact gen_close_A. Qed.
Print Assumptions C12_gen_close_A.

(* sc_io_close with MPI I/O *)
Theorem C12_gen_close_B : forall ecl fileptr fh_after c_ret ec_ret,
  let '(mc_called, ec_called, ec_arg0, ok, hdl, ret) := sc_io_close_B fileptr fh_after c_ret (ecl c_ret) ec_ret in
  MpiioModel.obs (close_prog_B ecl kfinB) [[c_ret]] = ((if mc_called =? 1 then [Coll K_MCLOSE 0 []] else []), Some [ret; 0])
  /\ ec_called = 1 /\ ec_arg0 = c_ret /\ hdl = fh_after /\ (ok = 1 <-> ec_ret = 0).
Proof. exact gen_close_B. Qed.
Print Assumptions C12_gen_close_B.

(* sc_io_read / sc_io_write without MPI I/O: SC_ABORT *)
Theorem C12_gen_seq_AC : forall f p z t m,
  sc_io_read_A f p z t m = 0 /\ sc_io_read_C f p z t m = 0 /\ sc_io_write_A f p z t m = 0 /\ sc_io_write_C f p z t m = 0
  /\ MpiioModel.obs seq_prog_AC [] = ([], Some [ABORT_MARK]).
Proof. exact gen_seq_AC. Qed.
Print Assumptions C12_gen_seq_AC.

(* sc_io_read / sc_io_write with MPI I/O: one MPI_File_read / MPI_File_write of (int) zcount elements, abort unless it returns MPI_SUCCESS *)
Theorem C12_gen_seq_B : forall (wr : bool) f p z t m st mret size data rd,
  let '(called, a_file, a_buf, a_count, a_type, ok) :=
    if wr then sc_io_write_B f p z t m st mret else sc_io_read_B f p z t m st mret in
  MpiioModel.obs (seq_prog_B wr size z data kdata) [mret :: 0 :: rd]
  = ((if called =? 1 then [Coll (if wr then K_MWRITE else K_MREAD) 0 (size :: a_count :: (if wr then data else []))] else []),
     Some (if ok =? 1 then 0 :: rd else [ABORT_MARK]))
  /\ a_file = f /\ a_buf = p /\ a_type = t.
Proof. exact gen_seq_B. Qed.
Print Assumptions C12_gen_seq_B.

(* sc_io_read_count (repair d6b0a0c): MPI_Get_count, and bytes / type size when that is MPI_UNDEFINED *)
Theorem C12_gen_read_count_B : forall st t oc gc_ret gc2_ret ts_ret n s,
  let '(gc_called, gc_st, gc_t, gc2_called, gc2_st, gc2_t, ts_called, ts_t, ok, ocd) :=
    sc_io_read_count_B st t oc (get_count n s) gc_ret n gc2_ret s ts_ret in
  ocd = read_count n s /\ gc_called = 1 /\ gc_st = st /\ gc_t = t
  /\ (gc2_called = 1 <-> get_count n s = ocB_MPI_UNDEFINED) /\ (gc2_called = 1 -> gc2_st = st /\ ts_called = 1 /\ ts_t = t).
Proof. exact gen_read_count_B. Qed.
Print Assumptions C12_gen_read_count_B.

(* MPI I/O branch of sc_io_read_at *)
Theorem C12_gen_read_at_B : forall ecl f off p count t ocp st mret rc_st ec_ret size nbytes rd,
  let '(called, a_file, a_off, a_buf, a_count, a_type, rc_called, rc_t, ec_called, ec_arg0, ok, ocd, ret) :=
    sc_io_read_at_B f off p count t ocp st mret rc_st (read_count nbytes size) (ecl mret) ec_ret in
  MpiioModel.obs (rw_prog_B ecl false false off size count [] k3) [mret :: nbytes :: rd]
  = ((if called =? 1 then [Coll K_MREADAT 0 [a_off; size; a_count]] else []),
     Some (ret :: ocd :: (if rc_called =? 1 then firstn (Z.to_nat (size * ocd)) rd else [])))
  /\ a_file = f /\ a_buf = p /\ a_type = t /\ (rc_called = 1 -> rc_t = t) /\ (rc_called = 0 -> ec_called = 1 /\ ec_arg0 = mret)
  /\ (ok = 1 <-> (rc_called = 0 -> ec_ret = 0)).
Proof. exact gen_read_at_B. Qed.
Print Assumptions C12_gen_read_at_B.

(* MPI I/O branch of sc_io_read_at_all *)
Theorem C12_gen_read_at_all_B : forall ecl f off p count t ocp st mret rc_st ec_ret size nbytes rd,
  let '(called, a_file, a_off, a_buf, a_count, a_type, rc_called, rc_t, ec_called, ec_arg0, ok, ocd, ret) :=
    sc_io_read_at_all_B f off p count t ocp st mret rc_st (read_count nbytes size) (ecl mret) ec_ret in
  MpiioModel.obs (rw_prog_B ecl true false off size count [] k3) [mret :: nbytes :: rd]
  = ((if called =? 1 then [Coll K_MREADATALL 0 [a_off; size; a_count]] else []),
     Some (ret :: ocd :: (if rc_called =? 1 then firstn (Z.to_nat (size * ocd)) rd else [])))
  /\ a_file = f /\ a_buf = p /\ a_type = t /\ (rc_called = 1 -> rc_t = t) /\ (rc_called = 0 -> ec_called = 1 /\ ec_arg0 = mret)
  /\ (ok = 1 <-> (rc_called = 0 -> ec_ret = 0)).
Proof. exact gen_read_at_all_B. Qed.
Print Assumptions C12_gen_read_at_all_B.

(* MPI I/O branch of sc_io_write_at *)
Theorem C12_gen_write_at_B : forall ecl f off p count t ocp st mret gc_st gc_ret ec_ret size nbytes data,
  let '(called, a_file, a_off, a_buf, a_count, a_type, gc_called, gc_t, ec_called, ec_arg0, ok, ocd, ret) :=
    sc_io_write_at_B f off p count t ocp st mret gc_st (get_count nbytes size) gc_ret (ecl mret) ec_ret in
  MpiioModel.obs (rw_prog_B ecl false true off size count data k3) [[mret; nbytes]]
  = ((if called =? 1 then [Coll K_MWRITEAT 0 (a_off :: size :: a_count :: data)] else []), Some [ret; ocd])
  /\ a_file = f /\ a_buf = p /\ a_type = t /\ (gc_called = 1 -> gc_t = t) /\ (gc_called = 0 -> ec_called = 1 /\ ec_arg0 = mret)
  /\ (ok = 1 <-> (if gc_called =? 1 then gc_ret = 0 else ec_ret = 0)).
Proof. exact gen_write_at_B. Qed.
Print Assumptions C12_gen_write_at_B.

(* MPI I/O branch of sc_io_write_at_all *)
Theorem C12_gen_write_at_all_B : forall ecl f off p count t ocp st mret gc_st gc_ret ec_ret size nbytes data,
  let '(called, a_file, a_off, a_buf, a_count, a_type, gc_called, gc_t, ec_called, ec_arg0, ok, ocd, ret) :=
    sc_io_write_at_all_B f off p count t ocp st mret gc_st (get_count nbytes size) gc_ret (ecl mret) ec_ret in
  MpiioModel.obs (rw_prog_B ecl true true off size count data k3) [[mret; nbytes]]
  = ((if called =? 1 then [Coll K_MWRITEATALL 0 (a_off :: size :: a_count :: data)] else []), Some [ret; ocd])
  /\ a_file = f /\ a_buf = p /\ a_type = t /\ (gc_called = 1 -> gc_t = t) /\ (gc_called = 0 -> ec_called = 1 /\ ec_arg0 = mret)
  /\ (ok = 1 <-> (if gc_called =? 1 then gc_ret = 0 else ec_ret = 0)).
Proof. exact gen_write_at_all_B. Qed.
Print Assumptions C12_gen_write_at_all_B.

(* sc_io_read_at / sc_io_write_at without MPI I/O (A and C): `obs (at_prog ..)` on the replies of ftell / fseek / fread or fwrite /
   restoring fseek = the generated function: which of the four stdio calls happen (early returns on ftell = -1, fseek <> 0,
   errno <> 0 && ocount = 0), their arguments (offset, SEEK_SET, type size, count, the position ftell returned), ocount, and the
   returned class incl. the tail of repair 3510a9a (class of the transfer's errno unless that is SUCCESS) *)
Theorem C12_gen_read_at_C : forall me f off p count t ocp file ft_errno ft_ret e1 fs_errno fs_ret e2 tsize ts_ret xf_errno xf_ret e3
                             fs2_errno fs2_ret e4 rd,
  0 <= count < 2147483648 -> 0 <= xf_ret <= count -> 0 <= tsize < 2147483648 ->
  let '(ft_called, ft_file, ec1_called, ec1_arg, fs_called, fs_file, fs_a1, fs_a2, ec2_called, ec2_arg, ts_called, ts_t,
        xf_called, xf_buf, xf_a1, xf_a2, xf_file, ec3_called, ec3_arg, fs2_called, fs2_file, fs2_a1, fs2_a2, ec4_called, ec4_arg,
        ok, ocd, ret) :=
    sc_io_read_at_C f off p count t ocp me file ft_errno ft_ret (errclass CfgC ft_errno) e1 fs_errno fs_ret (errclass CfgC fs_errno) e2
                    tsize ts_ret xf_errno xf_ret (errclass CfgC xf_errno) e3 fs2_errno fs2_ret (errclass CfgC fs2_errno) e4 in
  MpiioModel.obs (at_prog CfgC false me off tsize count [] k3)
      [[ft_ret; ft_errno]; [fs_ret; fs_errno]; xf_ret :: xf_errno :: rd; [fs2_ret; fs2_errno]]
  = at_view ft_called fs_called fs_a1 fs_a2 xf_called xf_a1 xf_a2 fs2_called fs2_a1 fs2_a2 false [] rd ret ocd
  /\ (xf_called = 1 -> xf_buf = p /\ xf_file = file /\ ts_t = t) /\ (fs2_called = 1 -> fs2_a1 = ft_ret).
Proof. exact gen_read_at_C. Qed.
Print Assumptions C12_gen_read_at_C.

Theorem C12_gen_read_at_A : forall me f off p count t ocp file ft_errno ft_ret e1 fs_errno fs_ret e2 tsize ts_ret xf_errno xf_ret e3
                             fs2_errno fs2_ret e4 rd,
  0 <= count < 2147483648 -> 0 <= xf_ret <= count -> 0 <= tsize < 2147483648 ->
  let '(ft_called, ft_file, ec1_called, ec1_arg, fs_called, fs_file, fs_a1, fs_a2, ec2_called, ec2_arg, ts_called, ts_t,
        xf_called, xf_buf, xf_a1, xf_a2, xf_file, ec3_called, ec3_arg, fs2_called, fs2_file, fs2_a1, fs2_a2, ec4_called, ec4_arg,
        ok, ocd, ret) :=
    sc_io_read_at_A f off p count t ocp me file ft_errno ft_ret (errclass CfgA ft_errno) e1 fs_errno fs_ret (errclass CfgA fs_errno) e2
                    tsize ts_ret xf_errno xf_ret (errclass CfgA xf_errno) e3 fs2_errno fs2_ret (errclass CfgA fs2_errno) e4 in
  MpiioModel.obs (at_prog CfgA false me off tsize count [] k3)
      [[ft_ret; ft_errno]; [fs_ret; fs_errno]; xf_ret :: xf_errno :: rd; [fs2_ret; fs2_errno]]
  = at_view ft_called fs_called fs_a1 fs_a2 xf_called xf_a1 xf_a2 fs2_called fs2_a1 fs2_a2 false [] rd ret ocd
  /\ (xf_called = 1 -> xf_buf = p /\ xf_file = file /\ ts_t = t) /\ (fs2_called = 1 -> fs2_a1 = ft_ret).
Proof. exact gen_read_at_A. Qed.
Print Assumptions C12_gen_read_at_A.

Theorem C12_gen_write_at_C : forall me f off p count t ocp file ft_errno ft_ret e1 fs_errno fs_ret e2 tsize ts_ret xf_errno xf_ret e3
                             fs2_errno fs2_ret e4 data,
  0 <= count < 2147483648 -> 0 <= xf_ret <= count -> 0 <= tsize < 2147483648 ->
  let '(ft_called, ft_file, ec1_called, ec1_arg, fs_called, fs_file, fs_a1, fs_a2, ec2_called, ec2_arg, ts_called, ts_t,
        xf_called, xf_buf, xf_a1, xf_a2, xf_file, ec3_called, ec3_arg, fs2_called, fs2_file, fs2_a1, fs2_a2, ec4_called, ec4_arg,
        ok, ocd, ret) :=
    sc_io_write_at_C f off p count t ocp me file ft_errno ft_ret (errclass CfgC ft_errno) e1 fs_errno fs_ret (errclass CfgC fs_errno) e2
                    tsize ts_ret xf_errno xf_ret (errclass CfgC xf_errno) e3 fs2_errno fs2_ret (errclass CfgC fs2_errno) e4 in
  MpiioModel.obs (at_prog CfgC true me off tsize count data k3)
      [[ft_ret; ft_errno]; [fs_ret; fs_errno]; [xf_ret; xf_errno]; [fs2_ret; fs2_errno]]
  = at_view ft_called fs_called fs_a1 fs_a2 xf_called xf_a1 xf_a2 fs2_called fs2_a1 fs2_a2 true data [] ret ocd
  /\ (xf_called = 1 -> xf_buf = p /\ xf_file = file /\ ts_t = t) /\ (fs2_called = 1 -> fs2_a1 = ft_ret).
Proof. exact gen_write_at_C. Qed.
Print Assumptions C12_gen_write_at_C.

Theorem C12_gen_write_at_A : forall me f off p count t ocp file ft_errno ft_ret e1 fs_errno fs_ret e2 tsize ts_ret xf_errno xf_ret e3
                             fs2_errno fs2_ret e4 data,
  0 <= count < 2147483648 -> 0 <= xf_ret <= count -> 0 <= tsize < 2147483648 ->
  let '(ft_called, ft_file, ec1_called, ec1_arg, fs_called, fs_file, fs_a1, fs_a2, ec2_called, ec2_arg, ts_called, ts_t,
        xf_called, xf_buf, xf_a1, xf_a2, xf_file, ec3_called, ec3_arg, fs2_called, fs2_file, fs2_a1, fs2_a2, ec4_called, ec4_arg,
        ok, ocd, ret) :=
    sc_io_write_at_A f off p count t ocp me file ft_errno ft_ret (errclass CfgA ft_errno) e1 fs_errno fs_ret (errclass CfgA fs_errno) e2
                    tsize ts_ret xf_errno xf_ret (errclass CfgA xf_errno) e3 fs2_errno fs2_ret (errclass CfgA fs2_errno) e4 in
  MpiioModel.obs (at_prog CfgA true me off tsize count data k3)
      [[ft_ret; ft_errno]; [fs_ret; fs_errno]; [xf_ret; xf_errno]; [fs2_ret; fs2_errno]]
  = at_view ft_called fs_called fs_a1 fs_a2 xf_called xf_a1 xf_a2 fs2_called fs2_a1 fs2_a2 true data [] ret ocd
  /\ (xf_called = 1 -> xf_buf = p /\ xf_file = file /\ ts_t = t) /\ (fs2_called = 1 -> fs2_a1 = ft_ret).
Proof. exact gen_write_at_A. Qed.
Print Assumptions C12_gen_write_at_A.

(* ================================================================== configuration B: the wrapper on an abstract MPI I/O semantics *)
(* (coq/C12/MpiioModel.v, MpiioProofs.v)  The MPI I/O library is a CONTRACT: `m_open / m_set_size / m_close / m_write_at /
   m_read_at` = one file (a byte array), one amode per open, error codes injected by the plan (rank, call kind 20..28, call number);
   `ecl` is ANY MPI_Error_class with ecl e = MPI_SUCCESS <-> e = MPI_SUCCESS.  The same semantics is the mock MPI I/O library
   against which the real sc_io.c runs in the check (co-simulated call by call). *)

(* MPI_Get_count handling: whole elements among n transferred bytes, also when the file ends inside an element (d6b0a0c) *)
Theorem C12_B_read_count n s : 0 < s -> 0 <= n < 2147483648 -> read_count n s = n / s.
Proof. exact (read_count_whole n s). Qed.
Print Assumptions C12_B_read_count.

(* ... which the code before the repair got wrong: MPI_Get_count's MPI_UNDEFINED (negative) was the reported count *)
Theorem C12_B_get_count_undefined_refuted : get_count 10 4 < 0 /\ read_count 10 4 = 2.
Proof. exact get_count_undefined_witness. Qed.
Print Assumptions C12_B_get_count_undefined_refuted.

(* sc_io_open with MPI I/O under EVERY plan of injected error codes: one class for all ranks; SUCCESS iff no MPI I/O call
   failed; then every rank holds a handle with the parsed amode; a failed open leaves NO handle behind and nothing open - also
   when the failing call is the MPI_File_set_size of SC_IO_WRITE_CREATE (the handle is closed again) and also when that
   MPI_File_close fails too; the class is the one of MPI_File_open, resp. of MPI_File_set_size when the open succeeded with
   SC_IO_WRITE_CREATE (never the one of the inner close) *)
Theorem C12_B_open ecl P g am g' cls : (forall e, ecl e = SUCC <-> e = SUCC) ->
  valid_amode am -> plan_ok (w_plan (b_w g)) ->
  gB_open ecl P g am = (g', cls) ->
  exists x, cls = bcast_all P x
  /\ (x = SUCC <-> w_fail (b_w g') = w_fail (b_w g))
  /\ b_ok g' = (x =? SUCC)
  /\ (x = SUCC -> b_bits g' = Some (amode_bits am) /\ w_open (b_w g') = w_open (b_w g) + P)
  /\ (x <> SUCC -> b_bits g' = None /\ w_open (b_w g') = w_open (b_w g))
  /\ (forall w1 e, m_open (b_w g) P (amode_bits am) = (w1, e) ->
      x = if (e =? SUCC) && (am =? c12_SC_IO_WRITE_CREATE) then ecl (snd (m_set_size w1 (amode_bits am) 0)) else ecl e).
Proof. intros H. exact (B_open ecl H P g am g' cls). Qed.
Print Assumptions C12_B_open.

(* regression guard for F-C12h (repaired): the code before the repair (`gB_open_with false`, no MPI_File_close after a failed
   MPI_File_set_size) on P = 1: class IO, but the handle stays open *)
Theorem C12_B_open_setsize_old_refuted :
  let '(g', cls) := gB_open_with errclassB false 1 (gstB0 (File [7; 8; 9]) (planB 0 K_MSETSIZE 0 32)) c12_SC_IO_WRITE_CREATE in
  cls = [32] /\ b_ok g' = false /\ b_bits g' <> None /\ w_open (b_w g') = 1 /\ w_fail (b_w g') = 1.
Proof. exact B_open_setsize_old_witness. Qed.
Print Assumptions C12_B_open_setsize_old_refuted.

Theorem C12_B_close ecl P g g' cls : (forall e, ecl e = SUCC <-> e = SUCC) ->
  plan_ok (w_plan (b_w g)) -> gB_close ecl P g = (g', cls) ->
  exists x, cls = bcast_all P x
  /\ (x = SUCC <-> w_fail (b_w g') = w_fail (b_w g))
  /\ b_bits g' = None /\ b_ok g' = false /\ w_open (b_w g') = w_open (b_w g) - P.
Proof. intros H. exact (B_close ecl H P g g' cls). Qed.
Print Assumptions C12_B_close.

(* one rank's explicit-offset transfer (collective or not) under every plan *)
Theorem C12_B_rw_success_iff ecl coll wr w bits q size a w' r : (forall e, ecl e = SUCC <-> e = SUCC) ->
  plan_ok (w_plan w) -> 0 < size -> 0 <= a_count a -> size * a_count a < 2147483648 -> len (a_data a) = size * a_count a ->
  gB_rw ecl coll wr w bits q size a = (w', r) ->
  (r_cls r = SUCC <-> w_fail w' = w_fail w)
  /\ 0 <= r_ocount r <= a_count a /\ w_open w' = w_open w
  /\ (r_cls r = SUCC ->
      if wr then r_ocount r = a_count a
                /\ (0 < a_count a -> w_node w' = File (put (content w) (a_off a) (a_data a)))
                /\ (a_count a = 0 -> w_node w' = w_node w)
      else w_node w' = w_node w
           /\ r_ocount r = (if 0 <? a_count a then whole (content w) (a_off a) size (a_count a) else 0)
           /\ r_buf r = (if 0 <? a_count a
                         then firstn (Z.to_nat (size * r_ocount r)) (avail (content w) (a_off a) size (a_count a)) else []))
  /\ (r_cls r <> SUCC -> w_node w' = w_node w /\ r_ocount r = 0 /\ r_buf r = []).
Proof. intros H. exact (B_rw_success_iff ecl H coll wr w bits q size a w' r). Qed.
Print Assumptions C12_B_rw_success_iff.

(* collective transfers: all ranks obtain the same class PROVIDED the MPI library injects no error into the collective
   transfer itself (guard; an error reported to one rank only is handed on unsynchronised: refuted next, F-C12i) *)
Theorem C12_B_coll_agree ecl wr w bits size args q w' rs : (forall e, ecl e = SUCC <-> e = SUCC) ->
  (forall r k, w_plan w r (rw_kind true wr) k = None) ->
  gB_coll ecl wr w bits q size args = (w', rs) ->
  exists x, forall r, In r rs -> r_cls r = x.
Proof. intros H. exact (B_coll_agree ecl H wr w bits size args q w' rs). Qed.
Print Assumptions C12_B_coll_agree.

Theorem C12_B_coll_disagree_refuted :
  let '(w', rs) := gB_coll errclassB true (world0 (File []) (planB 1 K_MWRITEATALL 0 36)) (amode_bits c12_SC_IO_WRITE_CREATE) 0 1
                           [mkA 0 2 [1; 2]; mkA 2 2 [3; 4]] in
  map r_cls rs = [0; 36] /\ map r_ocount rs = [2; 0] /\ w_fail w' = 1.
Proof. exact B_coll_disagree_witness. Qed.
Print Assumptions C12_B_coll_disagree_refuted.

(* ---- the property's last sentence for ALL THREE configurations: blocks consecutive in rank order behind the content of a file
        that is open for writing give the same file - old content followed by the blocks in rank order - whether written by P
        successive sc_io_write_at (A), by the token-passing fallback (C) or by MPI_File_write_at_all (B); ocount = count *)
Theorem C12_configs_agree_ABC ecl gA gC wB c flA opA lgA flC opC lgC flB opB lgB m p s bits size args :
  (forall e, ecl e = SUCC <-> e = SUCC) -> 0 < size ->
  wst (g_w gA) c flA opA lgA -> g_s0 gA = Some (mkS m p) -> m <> MRead -> 0 <= p ->
  wst (g_w gC) c flC opC lgC -> g_s0 gC = Some s -> at_end s c ->
  wst wB c flB opB lgB -> can_write bits = true ->
  args <> [] -> Forall (wf_arg size) args -> consec (len c) args ->
  exists gA' gC' wB' rsC,
    g_at_all CfgA true gA 0 size args = (gA', map (fun a => mkR (SUCCESS CfgA) (a_count a) []) args)
    /\ g_coll true gC size args = Some (gC', rsC)
    /\ gB_coll ecl true wB bits 0 size args = (wB', map (fun a => mkR SUCC (a_count a) []) args)
    /\ map r_ocount rsC = map a_count args
    /\ content (g_w gA') = c ++ concat (map a_data args)
    /\ content (g_w gC') = content (g_w gA')
    /\ content wB' = content (g_w gA').
Proof. exact (configs_agree_ABC ecl gA gC wB c flA opA lgA flC opC lgC flB opB lgB m p s bits size args). Qed.
Print Assumptions C12_configs_agree_ABC.

(* ---- the known exceptions of the cross-configuration statement (known_findings.d/C12.txt), as kernel-evaluated witnesses *)
(* SC_IO_WRITE_APPEND on a missing file: created without MPI I/O (A, C), refused with NO_SUCH_FILE with MPI I/O *)
Theorem C12_append_missing_differs_refuted :
  (let '(g', cls) := g_open CfgA 1 (gstate0 Absent (fun _ _ _ => None)) c12_SC_IO_WRITE_APPEND in
   cls = [SUCCESS CfgA] /\ w_node (g_w g') = File [])
  /\ (let '(g', cls) := g_open CfgC 2 (gstate0 Absent (fun _ _ _ => None)) c12_SC_IO_WRITE_APPEND in
      cls = [SUCCESS CfgC; SUCCESS CfgC] /\ w_node (g_w g') = File [])
  /\ (let '(g', cls) := gB_open errclassB 2 (gstB0 Absent (fun _ _ _ => None)) c12_SC_IO_WRITE_APPEND in
      cls = [E_NO_SUCH_FILE; E_NO_SUCH_FILE] /\ w_node (b_w g') = Absent /\ b_bits g' = None).
Proof. exact append_missing_witness. Qed.
Print Assumptions C12_append_missing_differs_refuted.

(* append mode and an offset that is not the end of file: MPI I/O honours the offset (A, C: C12_append_ignores_offset) *)
Theorem C12_B_append_honours_offset :
  let '(g1, _) := gB_open errclassB 1 (gstB0 (File [1; 2; 3]) (fun _ _ _ => None)) c12_SC_IO_WRITE_APPEND in
  let '(w2, r) := gB_rw errclassB false true (b_w g1) (bits_of g1) 0 1 (mkA 0 2 [8; 9]) in
  r_cls r = SUCC /\ r_ocount r = 2 /\ w_node w2 = File [8; 9; 3].
Proof. exact B_append_honours_offset_witness. Qed.
Print Assumptions C12_B_append_honours_offset.

(* why the truncation must be decided by `amode == SC_IO_WRITE_CREATE` and the append mode must not carry MPI_MODE_CREATE
   (seeded change C12e edited both): on the abstract semantics the existing content would be truncated away *)
Theorem C12_B_truncate_on_append_refuted :
  let bits := Z.lor (amode_bits c12_SC_IO_WRITE_APPEND) ocB_MPI_MODE_CREATE in
  let '(w1, e) := m_open (world0 (File [1; 2; 3]) (fun _ _ _ => None)) 1 bits in
  e = 0 /\ has bits ocB_MPI_MODE_CREATE = true /\ content (fst (m_set_size w1 bits 0)) = []
  /\ has (amode_bits c12_SC_IO_WRITE_APPEND) ocB_MPI_MODE_CREATE = false.
Proof. exact B_truncate_on_append_witness. Qed.
Print Assumptions C12_B_truncate_on_append_refuted.

(* hypotheses are satisfiable *)
Example C12_ex_errclassB : forall e, errclassB e = SUCC <-> e = SUCC.
Proof. exact errclassB_ok. Qed.
Example C12_ex_session_B :
  let '(g, outs) := gB_scen errclassB 3 (gstB0 Absent (fun _ _ _ => None)) ex_ops_B in
  w_node (b_w g) = File [1; 2; 3; 4; 5; 6; 7; 8; 9; 10] /\ w_open (b_w g) = 0 /\ w_fail (b_w g) = 0
  /\ nth 5 outs [] = [[0; 1; 0; 4; 1; 2; 3; 4]; [0; 1; 0; 4; 5; 6; 7; 8]; [0; 1; 0; 4; 5; 6; 7; 8]].
Proof. exact ex_session_B. Qed.
(* the current code on the witness of the old one, and with a failing MPI_File_close on top *)
Example C12_ex_B_open_setsize_now :
  (let '(g', cls) := gB_open errclassB 1 (gstB0 (File [7; 8; 9]) (planB 0 K_MSETSIZE 0 32)) c12_SC_IO_WRITE_CREATE in
   cls = [32] /\ b_ok g' = false /\ b_bits g' = None /\ w_open (b_w g') = 0 /\ w_fail (b_w g') = 1)
  /\ (let pl := fun q f k => if (f =? K_MSETSIZE) then Some (32, 0) else if (f =? K_MCLOSE) then Some (36, 0) else None in
      let '(g', cls) := gB_open errclassB 2 (gstB0 (File [7; 8; 9]) pl) c12_SC_IO_WRITE_CREATE in
      cls = [32; 32] /\ b_bits g' = None /\ w_open (b_w g') = 0 /\ w_fail (b_w g') = 2).
Proof. exact B_open_setsize_now_witness. Qed.
Example C12_ex_gen_open_B_create :
  fst (MpiioModel.obs (open_prog_B errclassB c12_SC_IO_WRITE_CREATE kfinB) [[0]; [0]; [0]]) = [Coll K_MOPEN 0 [5]; Coll K_MSETSIZE 0 [0]]
  /\ fst (MpiioModel.obs (open_prog_B errclassB c12_SC_IO_WRITE_APPEND kfinB) [[0]; [0]]) = [Coll K_MOPEN 0 [132]]
  /\ MpiioModel.obs (open_prog_B errclassB c12_SC_IO_WRITE_CREATE kfinB) [[0]; [32]; [36]]
     = ([Coll K_MOPEN 0 [5]; Coll K_MSETSIZE 0 [0]; Coll K_MCLOSE 0 []], Some [32; 0]).
Proof. repeat split; reflexivity. Qed.
